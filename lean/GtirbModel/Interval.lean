import GtirbModel.Util
/-! Model of a byte interval's byte storage (`ByteInterval.size`,
`.contents`, `.initialized_size`, python/gtirb/byteinterval.py) and of the
block views over it (`ByteBlock.address/contents/contains_offset/
contains_address`, python/gtirb/block.py). -/
namespace Gtirb.Interval

structure Iv where
  size : Nat
  contents : Bytes
  deriving Repr, DecidableEq

/-- `initialized_size` setter: pad with zero bytes or truncate -/
def setInitBytes (c : Bytes) (v : Nat) : Bytes :=
  if v > c.length then c ++ List.replicate (v - c.length) 0
  else if v < c.length then c.take v
  else c

/-- `size` setter: stored bytes never extend past the end of the interval -/
def setSize (iv : Iv) (n : Nat) : Iv :=
  { size := n, contents := if n < iv.contents.length then iv.contents.take n else iv.contents }

def setInit (iv : Iv) (v : Nat) : Iv := { iv with contents := setInitBytes iv.contents v }

/-- a length-preserving content edit: `bi.contents[i] = b` (IndexError when out of range) -/
def poke (iv : Iv) (i : Nat) (b : UInt8) : Option Iv :=
  if i < iv.contents.length then some { iv with contents := iv.contents.set i b } else none

/-- a whole-contents edit: `bi.contents = c` (any bytes-like object; the
property only speaks of edits that keep the stored bytes within `size`) -/
def assign (iv : Iv) (c : Bytes) : Option Iv :=
  if c.length ≤ iv.size then some { iv with contents := c } else none

/-- the constructor (`none` = ValueError "initialized_size must be <= size!"):
defaults from `len(contents)`, then contents, size, initialized_size in that order -/
def ctor (size? init? : Option Nat) (contents : Bytes) : Option Iv :=
  let size := size?.getD contents.length
  let init := init?.getD contents.length
  if init > size then none
  else some (setInit (setSize { size := size, contents := contents } size) init)

def StoreInv (iv : Iv) : Prop := iv.contents.length ≤ iv.size

inductive Op where
  | setSize (n : Nat)
  | setInit (v : Nat)
  | poke (i : Nat) (b : UInt8)
  | assign (c : Bytes)
  deriving Repr

/-- `setInit` outside the property's quantifier (`v > size`) is flagged `none` -/
def step (iv : Iv) : Op → Option Iv
  | .setSize n => some (setSize iv n)
  | .setInit v => if v ≤ iv.size then some (setInit iv v) else none
  | .poke i b => poke iv i b
  | .assign c => assign iv c

/-! ### block views -/

structure Blk where
  offset : Nat
  size : Nat

def blkAddress (base : Option Nat) (b : Blk) : Option Nat := base.map (· + b.offset)

/-- Python slice `contents[offset : offset+size]` with clipping -/
def blkContents (iv : Iv) (b : Blk) : Bytes := (iv.contents.drop b.offset).take b.size

def containsOffset (b : Blk) (o : Int) : Bool :=
  decide ((b.offset : Int) ≤ o ∧ o < (b.offset : Int) + (b.size : Int))

def containsAddress (base : Option Nat) (b : Blk) (a : Int) : Bool :=
  match base with
  | some x => containsOffset b (a - (x : Int))
  | none => false

/-! ### line protocol -/

def optNat (s : String) : Option (Option Nat) :=
  if s == "-" then some none else (s.toNat?).map some

def showIv (iv : Iv) : String := s!"{iv.size} {iv.contents.length} {hexOrDash iv.contents}"

def driverStep (s : Iv) (line : String) : Iv × String :=
  match fields line with
  | ["ctor", sz, ini, h] =>
    match optNat sz, optNat ini, bytesOfHex h with
    | some a, some b, some c =>
      match ctor a b c with
      | some iv => (iv, "ok " ++ showIv iv)
      | none => (s, "ValueError")
    | _, _, _ => (s, "bad-op")
  | ["size", n] =>
    match n.toNat? with
    | some k => let iv := setSize s k; (iv, "ok " ++ showIv iv)
    | none => (s, "bad-op")
  | ["init", n] =>
    match n.toNat? with
    | some k => let iv := setInit s k; (iv, "ok " ++ showIv iv)
    | none => (s, "bad-op")
  | ["poke", i, b] =>
    match i.toNat?, b.toNat? with
    | some k, some v =>
      match poke s k (UInt8.ofNat v) with
      | some iv => (iv, "ok " ++ showIv iv)
      | none => (s, "IndexError")
    | _, _ => (s, "bad-op")
  | ["assign", h] =>
    match bytesOfHex h with
    | some c =>
      match assign s c with
      | some iv => (iv, "ok " ++ showIv iv)
      | none => (s, "outside")
    | none => (s, "bad-op")
  | ["block", off, sz, base, probe] =>
    match off.toNat?, sz.toNat?, optNat base, probe.toInt? with
    | some o, some z, some b, some p =>
      let blk : Blk := ⟨o, z⟩
      let a := match blkAddress b blk with | some x => toString x | none => "-"
      (s, s!"addr={a} contents={hexOrDash (blkContents s blk)} co={containsOffset blk p} ca={containsAddress b blk p}")
    | _, _, _, _ => (s, "bad-op")
  | _ => (s, "bad-op")

end Gtirb.Interval
