import GtirbModel.Util
/-! Model of `gtirb.CFG` (python/gtirb/cfg.py): a multigraph store in which
`add` inserts only when no parallel edge with an equal label exists
(`_edge_key`), `discard` removes that one entry. networkx's edge keys are not
observable through the CFG interface and are not modelled; the store is the
list of entries in insertion order. The `MutableSet` mixins (`remove`, `pop`,
`|=`, `&=`, `-=`, `^=`) are transcribed from CPython 3.12 `_collections_abc.py`. -/
namespace Gtirb.Cfg

structure Label where
  type : Nat
  conditional : Bool
  direct : Bool
  deriving DecidableEq, Repr

structure Edge where
  src : Nat
  dst : Nat
  label : Option Label
  deriving DecidableEq, Repr

abbrev Store := List Edge

def contains (g : Store) (e : Edge) : Bool := g.any (· == e)

/-- `CFG.add`: `if edge not in self: add_edge(...)` -/
def add (g : Store) (e : Edge) : Store := if contains g e then g else g ++ [e]

/-- `CFG.discard`: remove the entry found by `_edge_key`, if any -/
def discard (g : Store) (e : Edge) : Store := g.erase e

def update (g : Store) (es : List Edge) : Store := es.foldl add g

def clear (_ : Store) : Store := []

def outEdges (g : Store) (n : Nat) : List Edge := g.filter (·.src == n)
def inEdges (g : Store) (n : Nat) : List Edge := g.filter (·.dst == n)

/-- `MutableSet.remove`: KeyError when absent -/
def remove (g : Store) (e : Edge) : Option Store :=
  if contains g e then some (discard g e) else none

/-- `MutableSet.pop`: the implementation picks the first edge of its iteration
order; the model accepts any present edge as the popped one (`none` = the
reported edge is not a member: the report is invalid). -/
def popReported (g : Store) (e : Edge) : Option Store :=
  if contains g e then some (discard g e) else none

/-- `__ior__`: `for value in it: self.add(value)` -/
def ior (g : Store) (es : List Edge) : Store := update g es

/-- `__isub__` with a different object: `for value in it: self.discard(value)` -/
def isub (g : Store) (es : List Edge) : Store := es.foldl discard g

/-- `__iand__`: `for value in (self - it): self.discard(value)` -/
def iand (g : Store) (es : List Edge) : Store :=
  (g.filter fun e => !(es.any (· == e))).foldl discard g

/-- `__ixor__` with a different object: toggle each element of `it`
(`it` is a set: no element twice) -/
def ixor (g : Store) (es : List Edge) : Store :=
  es.foldl (fun g e => if contains g e then discard g e else add g e) g

inductive Op where
  | add (e : Edge) | discard (e : Edge) | remove (e : Edge) | pop (e : Edge)
  | clear | update (es : List Edge) | ior (es : List Edge) | iand (es : List Edge)
  | isub (es : List Edge) | ixor (es : List Edge)
  deriving Repr

/-- one public operation; `none` = KeyError (state unchanged) -/
def step (g : Store) : Op → Option Store
  | .add e => some (add g e)
  | .discard e => some (discard g e)
  | .remove e => remove g e
  | .pop e => popReported g e
  | .clear => some []
  | .update es => some (update g es)
  | .ior es => some (ior g es)
  | .iand es => some (iand g es)
  | .isub es => some (isub g es)
  | .ixor es => some (ixor g es)

/-! ### line protocol -/

def showLabel : Option Label → String
  | none => "-"
  | some l => s!"{l.type},{if l.conditional then 1 else 0},{if l.direct then 1 else 0}"

def showEdge (e : Edge) : String := s!"{e.src}>{e.dst}:{showLabel e.label}"

def readLabel (s : String) : Option (Option Label) :=
  if s == "-" then some none else
  match s.splitOn "," with
  | [t, c, d] => (t.toNat?).map fun k => some ⟨k, c == "1", d == "1"⟩
  | _ => none

def readEdge (s : String) : Option Edge :=
  match s.splitOn ":" with
  | [sd, l] =>
    match sd.splitOn ">", readLabel l with
    | [a, b], some lab =>
      match a.toNat?, b.toNat? with
      | some x, some y => some ⟨x, y, lab⟩
      | _, _ => none
    | _, _ => none
  | _ => none

def readEdges (ss : List String) : Option (List Edge) := ss.mapM readEdge

def insertSorted (s : String) : List String → List String
  | [] => [s]
  | t :: ts => if s ≤ t then s :: t :: ts else t :: insertSorted s ts

def sortStrings (ss : List String) : List String := ss.foldr insertSorted []

def showEdges (es : List Edge) : String :=
  "[" ++ ";".intercalate (sortStrings (es.map showEdge)) ++ "]"

/-- snapshot: length, sorted iteration, per-node adjacency for nodes 0..n-1 -/
def snapshot (g : Store) (nNodes : Nat) : String :=
  s!"len={g.length} edges={showEdges g}" ++
    String.join ((List.range nNodes).map fun n =>
      s!" out{n}={showEdges (outEdges g n)} in{n}={showEdges (inEdges g n)}")

def parseOp : List String → Option Op
  | ["add", e] => (readEdge e).map .add
  | ["discard", e] => (readEdge e).map .discard
  | ["remove", e] => (readEdge e).map .remove
  | ["pop", e] => (readEdge e).map .pop
  | ["clear"] => some .clear
  | "update" :: es => (readEdges es).map .update
  | "ior" :: es => (readEdges es).map .ior
  | "iand" :: es => (readEdges es).map .iand
  | "isub" :: es => (readEdges es).map .isub
  | "ixor" :: es => (readEdges es).map .ixor
  | _ => none

structure DSt where
  g : Store := []
  nNodes : Nat := 4

def driverStep (s : DSt) (line : String) : DSt × String :=
  match fields line with
  | ["reset", n] => ({ g := [], nNodes := n.toNat?.getD 4 }, "ok")
  | ["snap"] => (s, snapshot s.g s.nNodes)
  | ["has", e] =>
    match readEdge e with
    | some ed => (s, if contains s.g ed then "1" else "0")
    | none => (s, "bad-op")
  | ["popempty"] => (s, if s.g.isEmpty then "KeyError" else "invalid")
  | toks =>
    match parseOp toks with
    | none => (s, "bad-op")
    | some op =>
      match step s.g op with
      | some g' => ({ s with g := g' }, "ok " ++ snapshot g' s.nNodes)
      | none => (s, "KeyError " ++ snapshot s.g s.nNodes)

end Gtirb.Cfg
