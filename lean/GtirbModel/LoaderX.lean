import GtirbModel.Loader
import GtirbModel.LoaderDriver
import GtirbModel.Skel
/-! The staged decoder of `Loader.lean` with the symbolic-expression pass as the code runs it.

`ByteInterval._decode_protobuf` stores the protobuf message on the interval object it *creates*
(`result._proto_interval = proto_interval`); a re-used interval - or anything nested in a re-used
section or module, whose message `Node._from_protobuf` does not decode at all - stores nothing.
At the end of `Module._decode_protobuf`, after the symbols were decoded and attached,

    for section in m.sections:
        for interval in section.byte_intervals:
            interval._decode_symbolic_expressions(ir)

walks the interval *objects* that are under module `m` at that moment. Each one reads its own
`_proto_interval` (`AttributeError` when the object has none: it was decoded and processed under
an earlier module and has been moved here by re-use since), resolves the symbol UUIDs of its
expressions through `ir.get_by_uuid` (must be a `Symbol`, else `DeserializationError`) and deletes
`_proto_interval`.

`Loader.decodeModule` checks one flat list per module *message* instead (`SkModule.exprSyms`, the
expression symbols of all interval messages nested in it). That is the same thing when every
interval message under the module message is decoded freshly and stays under the module; it is
not when a section / interval message is skipped because its UUID is already in the table (its
expressions are then never looked at), nor when an interval object that was processed earlier
sits under this module.

`loadX` performs exactly the steps of `Loader.load` for building the graph (same order, same
`decodeAttach` interleaving) and threads the pending map: interval node ↦ the expression symbols
of the message it was created from. -/
namespace Gtirb.Loader
open Gtirb.Forest

/-! ### the skeleton, with expression symbols per interval message -/

structure XInterval where
  core : SkInterval
  /-- symbol UUIDs used by the symbolic expressions of this interval message -/
  exprSyms : List Nat
  deriving Repr

structure XSection where
  uuid : Nat
  intervals : List XInterval
  deriving Repr

structure XModule where
  uuid : Nat
  proxies : List Nat
  sections : List XSection
  symbols : List SkSymbol
  entry : Option Nat
  deriving Repr

structure XIR where
  uuid : Nat
  modules : List XModule
  /-- (source uuid, target uuid) -/
  edges : List (Nat × Nat)
  deriving Repr

def XSection.core (s : XSection) : SkSection := ⟨s.uuid, s.intervals.map (·.core)⟩

/-- all expression symbols of the interval messages nested in the module message, in message order:
what `SkModule.exprSyms` holds in the skeleton of `Loader.lean` -/
def XModule.flatSyms (m : XModule) : List Nat :=
  m.sections.flatMap fun s => s.intervals.flatMap (·.exprSyms)

/-- the skeleton of `Loader.lean` without expression symbols -/
def XModule.core (m : XModule) : SkModule :=
  { uuid := m.uuid, proxies := m.proxies, sections := m.sections.map XSection.core,
    symbols := m.symbols, entry := m.entry, exprSyms := [] }

/-- the skeleton of `Loader.lean`: the expression symbols in one flat list per module message -/
def XModule.flat (m : XModule) : SkModule :=
  { uuid := m.uuid, proxies := m.proxies, sections := m.sections.map XSection.core,
    symbols := m.symbols, entry := m.entry, exprSyms := m.flatSyms }

def XIR.core (m : XIR) : SkIR := ⟨m.uuid, m.modules.map XModule.core, m.edges⟩
def XIR.flat (m : XIR) : SkIR := ⟨m.uuid, m.modules.map XModule.flat, m.edges⟩

/-! ### the loader -/

inductive XErr where
  | core (e : LErr)       -- what `Loader.load` can raise
  | attribute             -- AttributeError: `_proto_interval` of an interval that has none (any more)
  deriving Repr

/-- `_proto_interval` of the interval objects: interval node ↦ the expression symbols of the message
the node was created from; an interval without entry has no `_proto_interval` attribute -/
abbrev Pend := List (Nat × List Nat)

/-- `ByteInterval._from_protobuf` (`Loader.decodeInterval`); a *fresh* interval keeps its message -/
def decodeIntervalX (g : G) (pend : Pend) (ir : Nat) (x : XInterval) : Except LErr (G × Nat × Pend) :=
  match fromProto g ir .interval x.core.uuid with
  | .error e => .error e
  | .ok (g1, v, fresh) =>
    if !fresh then .ok (g1, v, pend) else
    match decodeBlocks ir g1 x.core.blocks with
    | .error e => .error e
    | .ok (g2, bs) =>
      match liftE (blkUpdate g2 v bs) with
      | .error e => .error e
      | .ok g3 => .ok (cacheAddInterval g3 ir v, v, (v, x.exprSyms) :: pend)

/-- `Loader.decodeAttach`, threading the pending map through the child decoder -/
def decodeAttachX {α : Type} (dec : G → Pend → Nat → α → Except LErr (G × Nat × Pend)) (ir p : Nat)
    (slot : Slot) : G → Pend → List α → Except LErr (G × Pend)
  | g, pend, [] => .ok (g, pend)
  | g, pend, x :: xs =>
    match dec g pend ir x with
    | .error e => .error e
    | .ok (g1, v, pend1) =>
      match liftE (setAdd g1 p slot v) with
      | .error e => .error e
      | .ok g2 => decodeAttachX dec ir p slot g2 pend1 xs

/-- `Section._from_protobuf` (`Loader.decodeSection`): the interval messages of a re-used section are
not looked at -/
def decodeSectionX (g : G) (pend : Pend) (ir : Nat) (s : XSection) : Except LErr (G × Nat × Pend) :=
  match fromProto g ir .section s.uuid with
  | .error e => .error e
  | .ok (g1, v, fresh) =>
    if !fresh then .ok (g1, v, pend) else
    let g2 := cacheSet g1 ir s.uuid v
    match decodeAttachX decodeIntervalX ir v .bis g2 pend s.intervals with
    | .error e => .error e
    | .ok (g4, pend4) => .ok (g4, v, pend4)

/-- `interval._decode_symbolic_expressions(ir)` for the interval nodes `xs`, one after the other:
no `_proto_interval` → `AttributeError`; every symbol UUID must name a symbol in the table as it is
now; `del self._proto_interval` -/
def symExprs (g : G) (ir : Nat) : Pend → List Nat → Except XErr Pend
  | pend, [] => .ok pend
  | pend, x :: xs =>
    match pend.lookup x with
    | none => .error .attribute
    | some syms =>
      match checkAll g ir (fun k => k == Kind.symbol) syms with
      | .error e => .error (.core e)
      | .ok _ => symExprs g ir (pend.filter fun e => e.1 != x) xs

/-- the interval nodes under module node `v`: `for section in m.sections: for interval in
section.byte_intervals` (collection order) -/
def intervalsUnder (g : G) (v : Nat) : List Nat := (g.kids v .secs).flatMap fun s => g.kids s .bis

/-- `Module._from_protobuf` / `_decode_protobuf` (`Loader.decodeModule`) with the
symbolic-expression pass over the module's interval objects -/
def decodeModuleX (g : G) (pend : Pend) (ir : Nat) (m : XModule) : Except XErr (G × Nat × Pend) :=
  match fromProto g ir .module m.uuid with
  | .error e => .error (.core e)
  | .ok (g1, v, fresh) =>
    if !fresh then .ok (g1, v, pend) else
    let g2 := cacheSet g1 ir m.uuid v
    match decodeAttach decodeProxy ir v .proxies g2 m.proxies with
    | .error e => .error (.core e)
    | .ok g4 =>
      match decodeAttachX decodeSectionX ir v .secs g4 pend m.sections with
      | .error e => .error (.core e)
      | .ok (g6, pend6) =>
        match (match m.entry with
               | none => (.ok () : Except LErr Unit)
               | some u => refKind g6 ir (fun k => k == Kind.code) u) with
        | .error e => .error (.core e)
        | .ok _ =>
          match decodeAttach decodeSymbol ir v .syms g6 m.symbols with
          | .error e => .error (.core e)
          | .ok g8 =>
            match symExprs g8 ir pend6 (intervalsUnder g8 v) with
            | .error e => .error e
            | .ok pend8 => .ok (g8, v, pend8)

/-- `ir.modules.extend(Module._from_protobuf(m, ir) for m in ...)` (`Loader.decodeModules`) -/
def decodeModulesX (ir : Nat) : G → Pend → List XModule → Except XErr G
  | g, _, [] => .ok g
  | g, pend, m :: ms =>
    match decodeModuleX g pend ir m with
    | .error e => .error e
    | .ok (g1, v, pend1) =>
      match liftE (modAppend g1 ir v) with
      | .error e => .error (.core e)
      | .ok g2 => decodeModulesX ir g2 pend1 ms

/-- `IR._from_protobuf(msg, None)` (`Loader.load`): returns the state and the new IR -/
def loadX (g : G) (m : XIR) : Except XErr (G × Nat) :=
  let ir := g.n
  let g1 := mkIR g m.uuid
  match decodeModulesX ir g1 [] m.modules with
  | .error e => .error e
  | .ok g2 =>
    match checkAll g2 ir (fun k => k == Kind.code || k == Kind.proxy) (m.edges.flatMap fun e => [e.1, e.2]) with
    | .error e => .error (.core e)
    | .ok _ => .ok (g2, ir)

/-! ### line protocol

`loadx <skeleton>`: the token format of `Loader.driverStep`'s `load`, except that an interval is
`bi <uuid> <nblocks> <blocks...> <nsyms> <sym uuids...>` and a module does not end with the list of
expression symbols:

    ir <uuid> <nmods> <mod>* <nedges> (<src> <tgt>)*
    mod <uuid> <entry uuid | -> <nproxies> <uuid>* <nsecs> <sec>* <nsyms> <sym>*
    sec <uuid> <nintervals> <bi>*
    bi <uuid> <nblocks> (<c|d> <uuid>)* <nexprsyms> <uuid>*
    sym <uuid> <name> <- | i<n> | r<uuid>>
-/

def pIntervalX : P XInterval
  | "bi" :: u :: r =>
    match u.toNat?, pCounted pBlock r with
    | some x, some (bs, r1) =>
      match pCounted pNat r1 with
      | some (es, r2) => some (⟨⟨x, bs⟩, es⟩, r2)
      | none => none
    | _, _ => none
  | _ => none

def pSectionX : P XSection
  | "sec" :: u :: r =>
    match u.toNat?, pCounted pIntervalX r with
    | some x, some (is, r1) => some (⟨x, is⟩, r1)
    | _, _ => none
  | _ => none

def pModuleX : P XModule
  | "mod" :: u :: e :: r =>
    match u.toNat?, (if e == "-" then some none else (e.toNat?).map some), pCounted pNat r with
    | some uu, some ent, some (ps, r1) =>
      match pCounted pSectionX r1 with
      | some (ss, r2) =>
        match pCounted pSymbol r2 with
        | some (ys, r3) => some (⟨uu, ps, ss, ys, ent⟩, r3)
        | none => none
      | none => none
    | _, _, _ => none
  | _ => none

def pIRX : P XIR
  | "ir" :: u :: r =>
    match u.toNat?, pCounted pModuleX r with
    | some uu, some (ms, r1) =>
      match pCounted pEdge r1 with
      | some (es, r2) => some (⟨uu, ms, es⟩, r2)
      | none => none
    | _, _ => none
  | _ => none

def driverStepX (line : String) : String :=
  match fields line with
  | "loadx" :: r =>
    match pIRX r with
    | some (m, []) =>
      match loadX {} m with
      | .ok (g, ir) => "ok " ++ showLoaded g ir m.core
      | .error (.core .deser) => "err:deser"
      | .error (.core (.forest e)) => "err:forest:" ++ excName e
      | .error .attribute => "err:attribute"
    | _ => "bad-op"
  | _ => "bad-op"

/-! ### from the message to the skeleton (cf. `Skel.lean`) -/

open Gtirb.Msg in
/-- an interval message with the symbol UUIDs its expressions mention, in the order the message
lists the expressions -/
def skIntervalX (x : MByteInterval) : Option XInterval :=
  (skInterval x).map fun p => ⟨p.1, p.2⟩

open Gtirb.Msg in
def skSectionX (s : MSection) : Option XSection :=
  if !uOk s.uuid then none else
  match allSome (s.byteIntervals.map skIntervalX) with
  | some xs => some ⟨natOfBytes s.uuid, xs⟩
  | none => none

open Gtirb.Msg in
def skModuleX (names : List String) (m : MModule) : Option XModule :=
  if !uOk m.uuid || !(m.entryPoint.isEmpty || uOk m.entryPoint) || !(m.proxies.all uOk) then none else
  match allSome (m.sections.map skSectionX), allSome (m.symbols.map (skSymbol names)) with
  | some ss, some ys =>
    some { uuid := natOfBytes m.uuid, proxies := m.proxies.map natOfBytes,
           sections := ss, symbols := ys,
           entry := if m.entryPoint.isEmpty then none else some (natOfBytes m.entryPoint) }
  | _, _ => none

open Gtirb.Msg in
def skelOfX (m : MIR) : Option XIR :=
  let names := m.modules.flatMap fun md => md.symbols.map (·.name)
  if !uOk m.uuid || !(m.cfg.edges.all fun e => uOk e.sourceUuid && uOk e.targetUuid) then none else
  match allSome (m.modules.map (skModuleX names)) with
  | some ms => some ⟨natOfBytes m.uuid, ms, m.cfg.edges.map fun e => (natOfBytes e.sourceUuid, natOfBytes e.targetUuid)⟩
  | none => none

end Gtirb.Loader
