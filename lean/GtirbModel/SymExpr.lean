import GtirbModel.Index
/-! Model of `ByteInterval.symbolic_expressions` (a `MutableMapping` over a
`sortedcontainers.SortedDict`, python/gtirb/byteinterval.py:101-122 and
util.py:235-265) and of `symbolic_expressions_at(_offset)`.

The store is an association list sorted by key with unique keys; the
`MutableMapping` mixins (`pop`, `popitem`, `setdefault`, `update`, `clear`) are
transcribed from CPython 3.12 `_collections_abc.py`; expressions are named by
object ids. -/
namespace Gtirb.SymExpr
open Gtirb.Index (Rng)

abbrev Store := List (Nat × Nat)

def get? (s : Store) (k : Nat) : Option Nat := (s.find? (·.1 == k)).map (·.2)

/-- `self[k] = v` on the sorted store -/
def setItem : Store → Nat → Nat → Store
  | [], k, v => [(k, v)]
  | (k', v') :: rest, k, v =>
    if k < k' then (k, v) :: (k', v') :: rest
    else if k = k' then (k, v) :: rest
    else (k', v') :: setItem rest k v

/-- `del self[k]`: `none` = KeyError -/
def delItem (s : Store) (k : Nat) : Option Store :=
  if (get? s k).isSome then some (s.filter (·.1 != k)) else none

/-- `pop(k)` without default: the value, KeyError when absent -/
def pop (s : Store) (k : Nat) : Option (Store × Nat) :=
  match get? s k with
  | some v => (delItem s k).map (·, v)
  | none => none

/-- `popitem()`: the first key in iteration order (= the smallest) -/
def popitem : Store → Option (Store × Nat × Nat)
  | [] => none
  | (k, v) :: rest => some (rest, k, v)

/-- `setdefault(k, d)`: returns the stored or the default value -/
def setdefault (s : Store) (k d : Nat) : Store × Nat :=
  match get? s k with
  | some v => (s, v)
  | none => (setItem s k d, d)

def update (s : Store) (kvs : List (Nat × Nat)) : Store := kvs.foldl (fun s kv => setItem s kv.1 kv.2) s

/-- `clear()`: `popitem` until KeyError -/
def clear (_ : Store) : Store := []

/-- `bi.symbolic_expressions = value`: clear, then update -/
def assign (_ : Store) (kvs : List (Nat × Nat)) : Store := update [] kvs

/-- `SortedDict.irange(lo, hi, inclusive=(True, False))` -/
def irange (s : Store) (lo hi : Int) : Store := s.filter fun kv => decide (lo ≤ (kv.1 : Int) ∧ (kv.1 : Int) < hi)

/-- `symbolic_expressions_at_offset(offsets)`: (offset, expression) pairs in increasing offset order -/
def atOffset (s : Store) (r : Rng) : List (Nat × Nat) :=
  (irange s r.start r.stop).filter fun kv => r.mem kv.1

/-- `symbolic_expressions_at(addrs)`: nothing without an address -/
def atAddr (s : Store) (addr : Option Nat) (r : Rng) : List (Nat × Nat) :=
  match addr with
  | none => []
  | some a => (irange s (r.start - a) (r.stop - a)).filter fun kv => r.mem ((a : Int) + kv.1)

/-- specification side: a scan over all stored pairs -/
def scanAtOffset (s : Store) (r : Rng) : List (Nat × Nat) := s.filter fun kv => r.mem kv.1
def scanAtAddr (s : Store) (addr : Option Nat) (r : Rng) : List (Nat × Nat) :=
  match addr with
  | none => []
  | some a => s.filter fun kv => r.mem ((a : Int) + kv.1)

def Sorted : Store → Prop
  | [] => True
  | [_] => True
  | a :: b :: rest => a.1 < b.1 ∧ Sorted (b :: rest)

inductive Op where
  | setItem (k v : Nat) | delItem (k : Nat) | pop (k : Nat) | popitem
  | setdefault (k d : Nat) | update (kvs : List (Nat × Nat)) | clear
  | assign (kvs : List (Nat × Nat))
  deriving Repr

/-- `none` = KeyError (store unchanged) -/
def step (s : Store) : Op → Option Store
  | .setItem k v => some (setItem s k v)
  | .delItem k => delItem s k
  | .pop k => (pop s k).map (·.1)
  | .popitem => (popitem s).map (·.1)
  | .setdefault k d => some (setdefault s k d).1
  | .update kvs => some (update s kvs)
  | .clear => some []
  | .assign kvs => some (assign s kvs)

/-! ### line protocol: several stores (one per interval), addresses -/

structure DSt where
  stores : List (Nat × Store) := []
  addrs : List (Nat × Option Nat) := []

def DSt.store (d : DSt) (x : Nat) : Store := ((d.stores.find? (·.1 == x)).map (·.2)).getD []
def DSt.addr (d : DSt) (x : Nat) : Option Nat := ((d.addrs.find? (·.1 == x)).map (·.2)).getD none
def DSt.setStore (d : DSt) (x : Nat) (s : Store) : DSt :=
  { d with stores := (x, s) :: d.stores.filter (·.1 != x) }
def DSt.setAddr (d : DSt) (x : Nat) (a : Option Nat) : DSt :=
  { d with addrs := (x, a) :: d.addrs.filter (·.1 != x) }

def showPairs (l : List (Nat × Nat)) : String :=
  "[" ++ ",".intercalate (l.map fun kv => s!"{kv.1}:{kv.2}") ++ "]"

def readPairs : List String → Option (List (Nat × Nat))
  | [] => some []
  | t :: ts =>
    match t.splitOn ":" with
    | [a, b] =>
      match a.toNat?, b.toNat?, readPairs ts with
      | some k, some v, some rest => some ((k, v) :: rest)
      | _, _, _ => none
    | _ => none

def driverStep (d : DSt) (line : String) : DSt × String :=
  let ok (x : Nat) (s : Store) (ret : String) : DSt × String :=
    (d.setStore x s, s!"ok {ret} {showPairs s}")
  match fields line with
  | ["reset"] => ({}, "ok")
  | ["addr", x, a] =>
    match x.toNat?, Index.optNat a with
    | some i, some aa => (d.setAddr i aa, "ok")
    | _, _ => (d, "bad-op")
  | ["set", x, k, v] =>
    match x.toNat?, k.toNat?, v.toNat? with
    | some i, some kk, some vv => ok i (setItem (d.store i) kk vv) "-"
    | _, _, _ => (d, "bad-op")
  | ["del", x, k] =>
    match x.toNat?, k.toNat? with
    | some i, some kk =>
      match delItem (d.store i) kk with
      | some s => ok i s "-"
      | none => (d, s!"KeyError {showPairs (d.store i)}")
    | _, _ => (d, "bad-op")
  | ["pop", x, k] =>
    match x.toNat?, k.toNat? with
    | some i, some kk =>
      match pop (d.store i) kk with
      | some (s, v) => ok i s (toString v)
      | none => (d, s!"KeyError {showPairs (d.store i)}")
    | _, _ => (d, "bad-op")
  | ["popitem", x] =>
    match x.toNat? with
    | some i =>
      match popitem (d.store i) with
      | some (s, k, v) => ok i s s!"{k}:{v}"
      | none => (d, s!"KeyError {showPairs (d.store i)}")
    | none => (d, "bad-op")
  | ["setdefault", x, k, v] =>
    match x.toNat?, k.toNat?, v.toNat? with
    | some i, some kk, some vv =>
      let (s, r) := setdefault (d.store i) kk vv
      ok i s (toString r)
    | _, _, _ => (d, "bad-op")
  | "update" :: x :: kvs =>
    match x.toNat?, readPairs kvs with
    | some i, some l => ok i (update (d.store i) l) "-"
    | _, _ => (d, "bad-op")
  | ["clear", x] =>
    match x.toNat? with
    | some i => ok i [] "-"
    | none => (d, "bad-op")
  | "assign" :: x :: kvs =>
    match x.toNat?, readPairs kvs with
    | some i, some l => ok i (assign (d.store i) l) "-"
    | _, _ => (d, "bad-op")
  | ["ato", x, a, b, c] =>
    match x.toNat?, Index.readRng a b c with
    | some i, some r => (d, showPairs (atOffset (d.store i) r))
    | _, _ => (d, "bad-op")
  | ["at", x, a, b, c] =>
    match x.toNat?, Index.readRng a b c with
    | some i, some r => (d, showPairs (atAddr (d.store i) (d.addr i) r))
    | _, _ => (d, "bad-op")
  | _ => (d, "bad-op")

end Gtirb.SymExpr
