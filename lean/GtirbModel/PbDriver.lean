import GtirbModel.PbMsg
import GtirbModel.MsgDriver
/-! Model W, line protocol (`model pbwire`):
`parse <hex>` -> `ok <MIR in the M format>` | `reject`;
`ser <MIR in the M format>` -> `ok <hex> <wfW as 0/1>`;
`reser <hex>` -> `ok <hex of serMIR (parseMIR bytes)> <wfW>` | `reject` (the parser's
result in the writer's canonical form: lets the harness compare it with the real
parser's message without depending on wire order);
`wire <hex>` -> `ok <n> (<field number>:<wire type>:<number or hex>)*` | `reject`. -/
namespace Gtirb.Pb
open Gtirb

def showWVal : WVal → String
  | .varint n => s!"0:{n}"
  | .i64 bs => "1:" ++ hexOrDash bs
  | .len bs => "2:" ++ hexOrDash bs
  | .i32 bs => "5:" ++ hexOrDash bs

def showWMsg (m : WMsg) : String :=
  " ".intercalate (toString m.length :: m.map fun f => s!"{f.1}:" ++ showWVal f.2)

def driverStep (line : String) : String :=
  match fields line with
  | ["parse", h] =>
    match bytesOfHex h with
    | some bs =>
      match parseMIR bs with
      | some m => "ok " ++ Msg.showMIR m
      | none => "reject"
    | none => "bad-op"
  | "ser" :: ts =>
    match Msg.readMIR ts with
    | some (m, []) => "ok " ++ hexOrDash (serMIR m) ++ " " ++ Msg.tBool (wfW m)
    | _ => "bad-op"
  | ["reser", h] =>
    match bytesOfHex h with
    | some bs =>
      match parseMIR bs with
      | some m => "ok " ++ hexOrDash (serMIR m) ++ " " ++ Msg.tBool (wfW m)
      | none => "reject"
    | none => "bad-op"
  | ["wire", h] =>
    match bytesOfHex h with
    | some bs =>
      match decodeW bs with
      | some m => "ok " ++ showWMsg m
      | none => "reject"
    | none => "bad-op"
  | _ => "bad-op"

end Gtirb.Pb
