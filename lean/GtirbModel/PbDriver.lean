import GtirbModel.PbMsg
import GtirbModel.MsgDriver
/-! Model W, line protocol (`model pbwire`):
`parse <hex>` -> `ok <MIR in the M format>` | `reject`;
`ser <MIR in the M format>` -> `ok <hex> <wfW as 0/1>`;
`reser <hex>` -> `ok <hex of serMIR (parseMIR bytes)> <wfW>` | `reject` (the parser's
result in the writer's canonical form: lets the harness compare it with the real
parser's message without depending on wire order);
`wire <hex>` -> `ok <n> (<field number>:<wire type>:<number or hex>)*` | `reject`;
`loadfile <hex of a whole file>` -> the function of the file-level theorems itself,
`Msg.loadBytes parseMIR`: `ok <IRV, unordered collections sorted>` | `err:header` | `err:parse` | `err:value` | ...;
`savefile <IRV>` -> `ok <hex of Msg.saveBytes serMIR v> <wfir> <wfW (toMsg v)>`. -/
namespace Gtirb.Pb
open Gtirb

def showWVal : WVal → String
  | .varint n => s!"0:{n}"
  | .i64 bs => "1:" ++ hexOrDash bs
  | .len bs => "2:" ++ hexOrDash bs
  | .i32 bs => "5:" ++ hexOrDash bs

def showWMsg (m : WMsg) : String :=
  " ".intercalate (toString m.length :: m.map fun f => s!"{f.1}:" ++ showWVal f.2)

/-- order-insensitive form for the file tie: what Python keeps in sets / dicts is sorted
(as `Msg.canon` does for `deep_eq`), but the module ORDER and the AuxData contents are kept -/
def auxSorted (l : List Msg.AuxV) : List Msg.AuxV :=
  Msg.sortBy (fun a b => decide (a.key ≤ b.key)) l

def canonKeep (v : Msg.IRV) : Msg.IRV :=
  { v with modules := v.modules.map fun m => { Msg.canonModule m with aux := auxSorted m.aux },
           edges := Msg.sortBy Msg.edgeLe v.edges,
           aux := auxSorted v.aux }

def driverStep (line : String) : String :=
  match fields line with
  | ["parse", h] =>
    match bytesOfHex h with
    | some bs =>
      match parseMIR bs with
      | some m => "ok " ++ Msg.showMIR m
      | none => "reject"
    | none => "bad-op"
  | "ser" :: ts =>
    match Msg.readMIR ts with
    | some (m, []) => "ok " ++ hexOrDash (serMIR m) ++ " " ++ Msg.tBool (wfW m)
    | _ => "bad-op"
  | ["reser", h] =>
    match bytesOfHex h with
    | some bs =>
      match parseMIR bs with
      | some m => "ok " ++ hexOrDash (serMIR m) ++ " " ++ Msg.tBool (wfW m)
      | none => "reject"
    | none => "bad-op"
  | ["loadfile", h] =>
    match bytesOfHex h with
    | some bs =>
      match Msg.loadBytes parseMIR bs with
      | .ok v => "ok " ++ Msg.showIRV (canonKeep v)
      | .error .header => "err:header"
      | .error .parse => "err:parse"
      | .error (.msg e) => Msg.errName e
    | none => "bad-op"
  | "canonirv" :: ts =>
    match Msg.readIRV ts with
    | some (v, []) => "ok " ++ Msg.showIRV (canonKeep v)
    | _ => "bad-op"
  | "savefile" :: ts =>
    match Msg.readIRV ts with
    | some (v, []) =>
      "ok " ++ hexOrDash (Msg.saveBytes serMIR v) ++ " " ++ Msg.tBool (Msg.wfir v) ++ " "
        ++ Msg.tBool (wfW (Msg.toMsg v))
    | _ => "bad-op"
  | ["wire", h] =>
    match bytesOfHex h with
    | some bs =>
      match decodeW bs with
      | some m => "ok " ++ showWMsg m
      | none => "reject"
    | none => "bad-op"
  | _ => "bad-op"

end Gtirb.Pb
