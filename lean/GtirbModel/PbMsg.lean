import GtirbModel.PbWire
import GtirbModel.Msg
import GtirbModel.Generated.Schema
/-! Model W, layer 2: the protobuf serializer and parser of the GTIRB message
(`MIR`, `GtirbModel/Msg.lean`) on top of the wire layer (`PbWire.lean`).

`serMIR` / `parseMIR` are what the formerly abstract `serialize` / `parse`
parameters of `Msg.saveBytes` / `Msg.loadBytes` are instantiated with.

Every field number is looked up in the regenerated schema table
(`Generated.schemaMessages`) through `fno`; only the key / value numbers 1 and 2
of map entries are literals (fixed by the protobuf specification).

Writer (proto3): fields in ascending field-number order (the order written
here is the ascending one for the schema at hand; `fnoTableOK` below is the
decidable statement that it still is); a singular scalar outside a oneof is
omitted at its default; a oneof member is written whenever selected; `IR.cfg`
is always written, `Edge.label` iff present; repeated messages / bytes one
length-delimited field per element; repeated enums packed; map fields one
entry message per pair with key and value both written.

Reader: unknown field numbers are ignored; singular scalars: last occurrence
wins, absent = default; repeated: all occurrences in wire order; packed enums
accept packed runs and single varints mixed; a singular sub-message occurring
several times is the parse of the concatenation of its occurrences (merge); a
oneof is decided by the member occurring last in wire order.

Simplifications (all on the reader, none reachable from the writer):
* any occurrence of a known field with an unexpected wire type rejects the
  whole message (protobuf would keep it as an unknown field);
* an enum number `≥ 2^31` (negative as int32, or beyond 32 bits) rejects;
* a message-typed oneof member is the merge of the trailing run of occurrences
  of the winning member among the oneof's fields (protobuf's behaviour); for a
  scalar member the last occurrence of that run. -/
namespace Gtirb.Pb
open Gtirb Gtirb.Msg

/-- field number of `field` in message `msg` according to the schema (0 = absent) -/
def fno (msg field : String) : Nat :=
  match Generated.schemaMessages.lookup msg with
  | none => 0
  | some fs =>
    match fs.lookup field with
    | some (n, _) => n
    | none => 0

/-! ### writer combinators: a message is a `++` of `fld k values` -/

/-- the occurrences of field `k`, in order -/
def fld (k : Nat) (vs : List WVal) : WMsg := vs.map (fun v => (k, v))

/-- singular uint64 / uint32 / enum outside a oneof: omitted at 0 -/
def vUInt (n : Nat) : List WVal := if n = 0 then [] else [.varint n]

def vBool (b : Bool) : List WVal := if b then [.varint 1] else []

/-- singular int64: the 64-bit two's complement as a varint -/
def vInt (i : Int) : List WVal := vUInt (ofInt64 i)

/-- singular bytes: omitted when empty -/
def vBytes (bs : Bytes) : List WVal := if bs = [] then [] else [.len bs]

def utf8 (s : String) : Bytes := s.toUTF8.data.toList

def vStr (s : String) : List WVal := vBytes (utf8 s)

/-- repeated bytes: one occurrence per element -/
def vRep (bss : List Bytes) : List WVal := bss.map .len

/-- repeated sub-message: one occurrence per element -/
def vMsgs {α : Type} (f : α → WMsg) (xs : List α) : List WVal :=
  xs.map (fun x => .len (encodeW (f x)))

/-- packed repeated enum / integer: one length-delimited run, nothing when empty -/
def vPacked (ns : List Nat) : List WVal :=
  if ns = [] then [] else [.len (ns.flatMap encVarint)]

/-- a map entry: key is field 1, value field 2, both always written -/
def wEntry (key value : WVal) : WMsg := fld 1 [key] ++ fld 2 [value]

/-! ### reader combinators: functions of the occurrences `getAll m k` -/

/-- all occurrences are varints -/
def allVarint : List WVal → Option (List Nat)
  | [] => some []
  | .varint n :: vs =>
    match allVarint vs with
    | some ns => some (n :: ns)
    | none => none
  | _ :: _ => none

/-- all occurrences are length-delimited -/
def allLen : List WVal → Option (List Bytes)
  | [] => some []
  | .len bs :: vs =>
    match allLen vs with
    | some bss => some (bs :: bss)
    | none => none
  | _ :: _ => none

def lastUInt (vs : List WVal) : Option Nat :=
  match allVarint vs with
  | some ns => some (ns.getLast?.getD 0)
  | none => none

def lastBool (vs : List WVal) : Option Bool :=
  match lastUInt vs with
  | some n => some (n != 0)
  | none => none

def lastInt (vs : List WVal) : Option Int :=
  match lastUInt vs with
  | some n => some (toInt64 n)
  | none => none

def lastU32 (vs : List WVal) : Option Nat :=
  match lastUInt vs with
  | some n => some (n % 2 ^ 32)
  | none => none

def lastEnum (vs : List WVal) : Option Nat :=
  match lastUInt vs with
  | some n => if n < 2 ^ 31 then some n else none
  | none => none

def lastBytes (vs : List WVal) : Option Bytes :=
  match allLen vs with
  | some bss => some (bss.getLast?.getD [])
  | none => none

def strOf (bs : Bytes) : Option String := String.fromUTF8? (ByteArray.mk bs.toArray)

def lastStr (vs : List WVal) : Option String :=
  match lastBytes vs with
  | some bs => strOf bs
  | none => none

/-- the concatenation of all occurrences (absent = empty): protobuf's merge -/
def merged (vs : List WVal) : Option Bytes :=
  match allLen vs with
  | some bss => some bss.flatten
  | none => none

def optMapM {α β : Type} (f : α → Option β) : List α → Option (List β)
  | [] => some []
  | a :: as =>
    match f a, optMapM f as with
    | some b, some bs => some (b :: bs)
    | _, _ => none

/-- bytes as a message -/
def asMsg {α : Type} (p : WMsg → Option α) (bs : Bytes) : Option α :=
  match decodeW bs with
  | some w => p w
  | none => none

/-- singular sub-message (absent = the parse of the empty message) -/
def subMsg {α : Type} (p : WMsg → Option α) (vs : List WVal) : Option α :=
  match merged vs with
  | some bs => asMsg p bs
  | none => none

/-- repeated sub-message -/
def repMsg {α : Type} (p : WMsg → Option α) (vs : List WVal) : Option (List α) :=
  match allLen vs with
  | some bss => optMapM (asMsg p) bss
  | none => none

/-- a run of varints filling a byte string (`fuel` bounds their number) -/
def decVarints : Nat → Bytes → Option (List Nat)
  | _, [] => some []
  | 0, _ :: _ => none
  | fuel + 1, b :: bs =>
    match decVarint (b :: bs) with
    | none => none
    | some (n, rest) =>
      match decVarints fuel rest with
      | some ns => some (n :: ns)
      | none => none

/-- packed repeated scalars: packed runs and single varints, in wire order -/
def packedOf : List WVal → Option (List Nat)
  | [] => some []
  | .varint n :: vs =>
    match packedOf vs with
    | some ns => some (n :: ns)
    | none => none
  | .len bs :: vs =>
    match decVarints bs.length bs, packedOf vs with
    | some a, some b => some (a ++ b)
    | _, _ => none
  | _ :: _ => none

def enumsOf (vs : List WVal) : Option (List Nat) :=
  match packedOf vs with
  | some ns => if ns.all (fun n => decide (n < 2 ^ 31)) then some ns else none
  | none => none

/-- the oneof with member numbers `ks`: the member occurring last in wire order
and the trailing run of its occurrences among the oneof's fields -/
def oneofRun (m : WMsg) (ks : List Nat) : Option (Nat × List WVal) :=
  match (m.filter (fun f => ks.contains f.1)).getLast? with
  | none => none
  | some (k, _) =>
    some (k, (((m.filter (fun f => ks.contains f.1)).reverse.takeWhile
      (fun f => f.1 == k)).reverse.map (·.2)))

/-! ### ranges -/

/-- a length-delimited payload the wire can carry -/
def lenOK (bs : Bytes) : Bool := decide (bs.length < 2 ^ 64)

def u64OK (n : Nat) : Bool := decide (n < 2 ^ 64)
def u32OK (n : Nat) : Bool := decide (n < 2 ^ 32)
def enumOK (n : Nat) : Bool := decide (n < 2 ^ 31)
def i64OK (i : Int) : Bool := decide (-(2 ^ 63 : Int) ≤ i) && decide (i < (2 ^ 63 : Int))

/-! ### CodeBlock, DataBlock, Block -/

def wCodeBlock (c : MCodeBlock) : WMsg :=
  fld (fno "CodeBlock" "uuid") (vBytes c.uuid)
  ++ fld (fno "CodeBlock" "size") (vUInt c.size)
  ++ fld (fno "CodeBlock" "decode_mode") (vUInt c.decodeMode)

def parseCodeBlockW (m : WMsg) : Option MCodeBlock :=
  match lastBytes (getAll m (fno "CodeBlock" "uuid")),
        lastUInt (getAll m (fno "CodeBlock" "size")),
        lastEnum (getAll m (fno "CodeBlock" "decode_mode")) with
  | some u, some s, some d => some ⟨u, s, d⟩
  | _, _, _ => none

def wfWCodeBlock (c : MCodeBlock) : Bool :=
  lenOK c.uuid && u64OK c.size && enumOK c.decodeMode

def wDataBlock (d : MDataBlock) : WMsg :=
  fld (fno "DataBlock" "uuid") (vBytes d.uuid)
  ++ fld (fno "DataBlock" "size") (vUInt d.size)

def parseDataBlockW (m : WMsg) : Option MDataBlock :=
  match lastBytes (getAll m (fno "DataBlock" "uuid")),
        lastUInt (getAll m (fno "DataBlock" "size")) with
  | some u, some s => some ⟨u, s⟩
  | _, _ => none

def wfWDataBlock (d : MDataBlock) : Bool :=
  lenOK d.uuid && u64OK d.size

def wBlock (b : MBlock) : WMsg :=
  fld (fno "Block" "offset") (vUInt b.offset)
  ++ (match b.value with
      | none => []
      | some (.code c) => fld (fno "Block" "code") [.len (encodeW (wCodeBlock c))]
      | some (.data d) => fld (fno "Block" "data") [.len (encodeW (wDataBlock d))])

def parseBlockW (m : WMsg) : Option MBlock :=
  match lastUInt (getAll m (fno "Block" "offset")) with
  | none => none
  | some off =>
    match oneofRun m [fno "Block" "code", fno "Block" "data"] with
    | none => some ⟨off, none⟩
    | some (k, vs) =>
      if k = fno "Block" "code" then
        match subMsg parseCodeBlockW vs with
        | some c => some ⟨off, some (.code c)⟩
        | none => none
      else
        match subMsg parseDataBlockW vs with
        | some d => some ⟨off, some (.data d)⟩
        | none => none

def wfWBlock (b : MBlock) : Bool :=
  u64OK b.offset
  && (match b.value with
      | none => true
      | some (.code c) => wfWCodeBlock c && lenOK (encodeW (wCodeBlock c))
      | some (.data d) => wfWDataBlock d && lenOK (encodeW (wDataBlock d)))

/-! ### SymbolicExpression -/

def wSymAddrConst (offset : Int) (sym : Bytes) : WMsg :=
  fld (fno "SymAddrConst" "offset") (vInt offset)
  ++ fld (fno "SymAddrConst" "symbol_uuid") (vBytes sym)

def parseSymAddrConstW (m : WMsg) : Option MSymExprValue :=
  match lastInt (getAll m (fno "SymAddrConst" "offset")),
        lastBytes (getAll m (fno "SymAddrConst" "symbol_uuid")) with
  | some o, some s => some (.addrConst o s)
  | _, _ => none

def wSymAddrAddr (scale offset : Int) (sym1 sym2 : Bytes) : WMsg :=
  fld (fno "SymAddrAddr" "scale") (vInt scale)
  ++ fld (fno "SymAddrAddr" "offset") (vInt offset)
  ++ fld (fno "SymAddrAddr" "symbol1_uuid") (vBytes sym1)
  ++ fld (fno "SymAddrAddr" "symbol2_uuid") (vBytes sym2)

def parseSymAddrAddrW (m : WMsg) : Option MSymExprValue :=
  match lastInt (getAll m (fno "SymAddrAddr" "scale")),
        lastInt (getAll m (fno "SymAddrAddr" "offset")),
        lastBytes (getAll m (fno "SymAddrAddr" "symbol1_uuid")),
        lastBytes (getAll m (fno "SymAddrAddr" "symbol2_uuid")) with
  | some sc, some o, some s1, some s2 => some (.addrAddr sc o s1 s2)
  | _, _, _, _ => none

/-- the sub-message of the selected member -/
def wSymExprValue : MSymExprValue → WMsg
  | .addrConst o s => wSymAddrConst o s
  | .addrAddr sc o s1 s2 => wSymAddrAddr sc o s1 s2

def wfWSymExprValue : MSymExprValue → Bool
  | .addrConst o s => i64OK o && lenOK s
  | .addrAddr sc o s1 s2 => i64OK sc && i64OK o && lenOK s1 && lenOK s2

def wSymExpr (e : MSymExpr) : WMsg :=
  (match e.value with
   | none => []
   | some (.addrConst o s) =>
     fld (fno "SymbolicExpression" "addr_const") [.len (encodeW (wSymAddrConst o s))]
   | some (.addrAddr sc o s1 s2) =>
     fld (fno "SymbolicExpression" "addr_addr") [.len (encodeW (wSymAddrAddr sc o s1 s2))])
  ++ fld (fno "SymbolicExpression" "attribute_flags") (vPacked e.attributeFlags)

def parseSymExprW (m : WMsg) : Option MSymExpr :=
  match enumsOf (getAll m (fno "SymbolicExpression" "attribute_flags")) with
  | none => none
  | some fl =>
    match oneofRun m [fno "SymbolicExpression" "addr_const",
                      fno "SymbolicExpression" "addr_addr"] with
    | none => some ⟨none, fl⟩
    | some (k, vs) =>
      if k = fno "SymbolicExpression" "addr_const" then
        match subMsg parseSymAddrConstW vs with
        | some v => some ⟨some v, fl⟩
        | none => none
      else
        match subMsg parseSymAddrAddrW vs with
        | some v => some ⟨some v, fl⟩
        | none => none

def wfWSymExpr (e : MSymExpr) : Bool :=
  (match e.value with
   | none => true
   | some v => wfWSymExprValue v && lenOK (encodeW (wSymExprValue v)))
  && e.attributeFlags.all enumOK
  && lenOK (e.attributeFlags.flatMap encVarint)

/-- one entry of `map<uint64, SymbolicExpression>` -/
def wExprEntry (kv : Nat × MSymExpr) : WMsg :=
  wEntry (.varint kv.1) (.len (encodeW (wSymExpr kv.2)))

def parseExprEntryW (m : WMsg) : Option (Nat × MSymExpr) :=
  match lastUInt (getAll m 1), subMsg parseSymExprW (getAll m 2) with
  | some k, some e => some (k, e)
  | _, _ => none

def wfWExprEntry (kv : Nat × MSymExpr) : Bool :=
  u64OK kv.1 && wfWSymExpr kv.2 && lenOK (encodeW (wSymExpr kv.2))

/-! ### ByteInterval, Section -/

def wByteInterval (x : MByteInterval) : WMsg :=
  fld (fno "ByteInterval" "uuid") (vBytes x.uuid)
  ++ fld (fno "ByteInterval" "blocks") (vMsgs wBlock x.blocks)
  ++ fld (fno "ByteInterval" "symbolic_expressions") (vMsgs wExprEntry x.symbolicExpressions)
  ++ fld (fno "ByteInterval" "has_address") (vBool x.hasAddress)
  ++ fld (fno "ByteInterval" "address") (vUInt x.address)
  ++ fld (fno "ByteInterval" "size") (vUInt x.size)
  ++ fld (fno "ByteInterval" "contents") (vBytes x.contents)

def parseByteIntervalW (m : WMsg) : Option MByteInterval :=
  match lastBytes (getAll m (fno "ByteInterval" "uuid")),
        repMsg parseBlockW (getAll m (fno "ByteInterval" "blocks")),
        repMsg parseExprEntryW (getAll m (fno "ByteInterval" "symbolic_expressions")),
        lastBool (getAll m (fno "ByteInterval" "has_address")),
        lastUInt (getAll m (fno "ByteInterval" "address")),
        lastUInt (getAll m (fno "ByteInterval" "size")),
        lastBytes (getAll m (fno "ByteInterval" "contents")) with
  | some u, some bl, some se, some ha, some a, some sz, some c =>
    some { uuid := u, blocks := bl, symbolicExpressions := se, hasAddress := ha,
           address := a, size := sz, contents := c }
  | _, _, _, _, _, _, _ => none

def wfWByteInterval (x : MByteInterval) : Bool :=
  lenOK x.uuid
  && x.blocks.all (fun b => wfWBlock b && lenOK (encodeW (wBlock b)))
  && x.symbolicExpressions.all (fun kv => wfWExprEntry kv && lenOK (encodeW (wExprEntry kv)))
  && u64OK x.address && u64OK x.size && lenOK x.contents

def wSection (s : MSection) : WMsg :=
  fld (fno "Section" "uuid") (vBytes s.uuid)
  ++ fld (fno "Section" "name") (vStr s.name)
  ++ fld (fno "Section" "byte_intervals") (vMsgs wByteInterval s.byteIntervals)
  ++ fld (fno "Section" "section_flags") (vPacked s.sectionFlags)

def parseSectionW (m : WMsg) : Option MSection :=
  match lastBytes (getAll m (fno "Section" "uuid")),
        lastStr (getAll m (fno "Section" "name")),
        repMsg parseByteIntervalW (getAll m (fno "Section" "byte_intervals")),
        enumsOf (getAll m (fno "Section" "section_flags")) with
  | some u, some n, some bis, some fl =>
    some { uuid := u, name := n, byteIntervals := bis, sectionFlags := fl }
  | _, _, _, _ => none

def wfWSection (s : MSection) : Bool :=
  lenOK s.uuid && lenOK (utf8 s.name)
  && s.byteIntervals.all (fun x => wfWByteInterval x && lenOK (encodeW (wByteInterval x)))
  && s.sectionFlags.all enumOK
  && lenOK (s.sectionFlags.flatMap encVarint)

/-! ### Symbol, AuxData, ProxyBlock -/

def wSymbol (s : MSymbol) : WMsg :=
  fld (fno "Symbol" "uuid") (vBytes s.uuid)
  ++ (match s.payload with
      | some (.value n) => fld (fno "Symbol" "value") [.varint n]
      | _ => [])
  ++ fld (fno "Symbol" "name") (vStr s.name)
  ++ (match s.payload with
      | some (.referentUuid u) => fld (fno "Symbol" "referent_uuid") [.len u]
      | _ => [])
  ++ fld (fno "Symbol" "at_end") (vBool s.atEnd)

def parseSymbolW (m : WMsg) : Option MSymbol :=
  match lastBytes (getAll m (fno "Symbol" "uuid")),
        lastStr (getAll m (fno "Symbol" "name")),
        lastBool (getAll m (fno "Symbol" "at_end")) with
  | some u, some n, some ae =>
    match oneofRun m [fno "Symbol" "value", fno "Symbol" "referent_uuid"] with
    | none => some { uuid := u, payload := none, name := n, atEnd := ae }
    | some (k, vs) =>
      if k = fno "Symbol" "value" then
        match lastUInt vs with
        | some v => some { uuid := u, payload := some (.value v), name := n, atEnd := ae }
        | none => none
      else
        match lastBytes vs with
        | some r => some { uuid := u, payload := some (.referentUuid r), name := n, atEnd := ae }
        | none => none
  | _, _, _ => none

def wfWSymbol (s : MSymbol) : Bool :=
  lenOK s.uuid && lenOK (utf8 s.name)
  && (match s.payload with
      | none => true
      | some (.value n) => u64OK n
      | some (.referentUuid u) => lenOK u)

def wAuxData (a : MAuxData) : WMsg :=
  fld (fno "AuxData" "type_name") (vStr a.typeName)
  ++ fld (fno "AuxData" "data") (vBytes a.data)

def parseAuxDataW (m : WMsg) : Option MAuxData :=
  match lastStr (getAll m (fno "AuxData" "type_name")),
        lastBytes (getAll m (fno "AuxData" "data")) with
  | some t, some d => some ⟨t, d⟩
  | _, _ => none

def wfWAuxData (a : MAuxData) : Bool :=
  lenOK (utf8 a.typeName) && lenOK a.data

/-- one entry of `map<string, AuxData>` -/
def wAuxEntry (kv : String × MAuxData) : WMsg :=
  wEntry (.len (utf8 kv.1)) (.len (encodeW (wAuxData kv.2)))

def parseAuxEntryW (m : WMsg) : Option (String × MAuxData) :=
  match lastStr (getAll m 1), subMsg parseAuxDataW (getAll m 2) with
  | some k, some a => some (k, a)
  | _, _ => none

def wfWAuxEntry (kv : String × MAuxData) : Bool :=
  lenOK (utf8 kv.1) && wfWAuxData kv.2 && lenOK (encodeW (wAuxData kv.2))

def wProxy (u : Bytes) : WMsg :=
  fld (fno "ProxyBlock" "uuid") (vBytes u)

def parseProxyW (m : WMsg) : Option Bytes :=
  lastBytes (getAll m (fno "ProxyBlock" "uuid"))

/-! ### Module -/

def wModule (m : MModule) : WMsg :=
  fld (fno "Module" "uuid") (vBytes m.uuid)
  ++ fld (fno "Module" "binary_path") (vStr m.binaryPath)
  ++ fld (fno "Module" "preferred_addr") (vUInt m.preferredAddr)
  ++ fld (fno "Module" "rebase_delta") (vInt m.rebaseDelta)
  ++ fld (fno "Module" "file_format") (vUInt m.fileFormat)
  ++ fld (fno "Module" "isa") (vUInt m.isa)
  ++ fld (fno "Module" "name") (vStr m.name)
  ++ fld (fno "Module" "symbols") (vMsgs wSymbol m.symbols)
  ++ fld (fno "Module" "sections") (vMsgs wSection m.sections)
  ++ fld (fno "Module" "proxies") (vMsgs wProxy m.proxies)
  ++ fld (fno "Module" "aux_data") (vMsgs wAuxEntry m.auxData)
  ++ fld (fno "Module" "entry_point") (vBytes m.entryPoint)
  ++ fld (fno "Module" "byte_order") (vUInt m.byteOrder)

def parseModuleW (w : WMsg) : Option MModule :=
  match lastBytes (getAll w (fno "Module" "uuid")),
        lastStr (getAll w (fno "Module" "binary_path")),
        lastUInt (getAll w (fno "Module" "preferred_addr")),
        lastInt (getAll w (fno "Module" "rebase_delta")),
        lastEnum (getAll w (fno "Module" "file_format")),
        lastEnum (getAll w (fno "Module" "isa")),
        lastStr (getAll w (fno "Module" "name")) with
  | some u, some bp, some pa, some rd, some ff, some isa, some n =>
    match repMsg parseSymbolW (getAll w (fno "Module" "symbols")),
          repMsg parseSectionW (getAll w (fno "Module" "sections")),
          repMsg parseProxyW (getAll w (fno "Module" "proxies")),
          repMsg parseAuxEntryW (getAll w (fno "Module" "aux_data")),
          lastBytes (getAll w (fno "Module" "entry_point")),
          lastEnum (getAll w (fno "Module" "byte_order")) with
    | some sy, some se, some px, some ax, some ep, some bo =>
      some { uuid := u, binaryPath := bp, preferredAddr := pa, rebaseDelta := rd,
             fileFormat := ff, isa := isa, name := n, symbols := sy, proxies := px,
             sections := se, auxData := ax, entryPoint := ep, byteOrder := bo }
    | _, _, _, _, _, _ => none
  | _, _, _, _, _, _, _ => none

def wfWModule (m : MModule) : Bool :=
  lenOK m.uuid && lenOK (utf8 m.binaryPath) && u64OK m.preferredAddr && i64OK m.rebaseDelta
  && enumOK m.fileFormat && enumOK m.isa && lenOK (utf8 m.name)
  && m.symbols.all (fun s => wfWSymbol s && lenOK (encodeW (wSymbol s)))
  && m.sections.all (fun s => wfWSection s && lenOK (encodeW (wSection s)))
  && m.proxies.all (fun u => lenOK u && lenOK (encodeW (wProxy u)))
  && m.auxData.all (fun kv => wfWAuxEntry kv && lenOK (encodeW (wAuxEntry kv)))
  && lenOK m.entryPoint && enumOK m.byteOrder

/-! ### EdgeLabel, Edge, CFG -/

def wEdgeLabel (l : MEdgeLabel) : WMsg :=
  fld (fno "EdgeLabel" "conditional") (vBool l.conditional)
  ++ fld (fno "EdgeLabel" "direct") (vBool l.direct)
  ++ fld (fno "EdgeLabel" "type") (vUInt l.type)

def parseEdgeLabelW (m : WMsg) : Option MEdgeLabel :=
  match lastBool (getAll m (fno "EdgeLabel" "conditional")),
        lastBool (getAll m (fno "EdgeLabel" "direct")),
        lastEnum (getAll m (fno "EdgeLabel" "type")) with
  | some c, some d, some t => some ⟨c, d, t⟩
  | _, _, _ => none

def wfWEdgeLabel (l : MEdgeLabel) : Bool := enumOK l.type

def wEdge (e : MEdge) : WMsg :=
  fld (fno "Edge" "source_uuid") (vBytes e.sourceUuid)
  ++ fld (fno "Edge" "target_uuid") (vBytes e.targetUuid)
  ++ (match e.label with
      | none => []
      | some l => fld (fno "Edge" "label") [.len (encodeW (wEdgeLabel l))])

def parseEdgeW (m : WMsg) : Option MEdge :=
  match lastBytes (getAll m (fno "Edge" "source_uuid")),
        lastBytes (getAll m (fno "Edge" "target_uuid")) with
  | some s, some t =>
    match getAll m (fno "Edge" "label") with
    | [] => some ⟨s, t, none⟩
    | v :: vs =>
      match subMsg parseEdgeLabelW (v :: vs) with
      | some l => some ⟨s, t, some l⟩
      | none => none
  | _, _ => none

def wfWEdge (e : MEdge) : Bool :=
  lenOK e.sourceUuid && lenOK e.targetUuid
  && (match e.label with
      | none => true
      | some l => wfWEdgeLabel l && lenOK (encodeW (wEdgeLabel l)))

def wCFG (c : MCFG) : WMsg :=
  fld (fno "CFG" "edges") (vMsgs wEdge c.edges)
  ++ fld (fno "CFG" "vertices") (vRep c.vertices)

def parseCFGW (m : WMsg) : Option MCFG :=
  match allLen (getAll m (fno "CFG" "vertices")),
        repMsg parseEdgeW (getAll m (fno "CFG" "edges")) with
  | some vs, some es => some ⟨vs, es⟩
  | _, _ => none

def wfWCFG (c : MCFG) : Bool :=
  c.edges.all (fun e => wfWEdge e && lenOK (encodeW (wEdge e)))
  && c.vertices.all lenOK

/-! ### IR -/

def wIR (m : MIR) : WMsg :=
  fld (fno "IR" "uuid") (vBytes m.uuid)
  ++ fld (fno "IR" "modules") (vMsgs wModule m.modules)
  ++ fld (fno "IR" "aux_data") (vMsgs wAuxEntry m.auxData)
  ++ fld (fno "IR" "version") (vUInt m.version)
  ++ fld (fno "IR" "cfg") [.len (encodeW (wCFG m.cfg))]

def parseIRW (w : WMsg) : Option MIR :=
  match lastBytes (getAll w (fno "IR" "uuid")),
        repMsg parseModuleW (getAll w (fno "IR" "modules")),
        repMsg parseAuxEntryW (getAll w (fno "IR" "aux_data")),
        lastU32 (getAll w (fno "IR" "version")),
        subMsg parseCFGW (getAll w (fno "IR" "cfg")) with
  | some u, some ms, some ax, some v, some c =>
    some { uuid := u, modules := ms, auxData := ax, version := v, cfg := c }
  | _, _, _, _, _ => none

def wfWIR (m : MIR) : Bool :=
  lenOK m.uuid
  && m.modules.all (fun x => wfWModule x && lenOK (encodeW (wModule x)))
  && m.auxData.all (fun kv => wfWAuxEntry kv && lenOK (encodeW (wAuxEntry kv)))
  && u32OK m.version
  && wfWCFG m.cfg && lenOK (encodeW (wCFG m.cfg))

/-- the serializer -/
def serMIR (m : MIR) : Bytes := encodeW (wIR m)

/-- the parser -/
def parseMIR (bs : Bytes) : Option MIR := asMsg parseIRW bs

/-- the serializer's range: every uint64 below `2^64`, the version below `2^32`,
every enum number below `2^31`, every int64 within `[-2^63, 2^63)`, and every
length-delimited payload (bytes, text, nested message, packed run) shorter than
`2^64` bytes (a length is a varint, read back modulo `2^64`). -/
def wfW (m : MIR) : Bool := wfWIR m

/-! ### the field-number table the written order relies on -/

def ascending : List Nat → Bool
  | [] => true
  | [_] => true
  | a :: b :: rest => decide (a < b) && ascending (b :: rest)

/-- the field numbers of a message in the order `w<Message>` writes them -/
def writtenOrder : List (String × List String) := [
  ("CodeBlock", ["uuid", "size", "decode_mode"]),
  ("DataBlock", ["uuid", "size"]),
  ("Block", ["offset", "code", "data"]),
  ("SymAddrConst", ["offset", "symbol_uuid"]),
  ("SymAddrAddr", ["scale", "offset", "symbol1_uuid", "symbol2_uuid"]),
  ("SymbolicExpression", ["addr_const", "addr_addr", "attribute_flags"]),
  ("ByteInterval", ["uuid", "blocks", "symbolic_expressions", "has_address", "address",
                    "size", "contents"]),
  ("Section", ["uuid", "name", "byte_intervals", "section_flags"]),
  ("Symbol", ["uuid", "value", "name", "referent_uuid", "at_end"]),
  ("AuxData", ["type_name", "data"]),
  ("ProxyBlock", ["uuid"]),
  ("Module", ["uuid", "binary_path", "preferred_addr", "rebase_delta", "file_format", "isa",
              "name", "symbols", "sections", "proxies", "aux_data", "entry_point",
              "byte_order"]),
  ("EdgeLabel", ["conditional", "direct", "type"]),
  ("Edge", ["source_uuid", "target_uuid", "label"]),
  ("CFG", ["edges", "vertices"]),
  ("IR", ["uuid", "modules", "aux_data", "version", "cfg"])]

/-- every field number used exists (`> 0`), is a legal field number (`< 2^29`),
and the order written is the ascending one (so also pairwise distinct) -/
def fnoTableOK : Bool :=
  writtenOrder.all fun (msg, fs) =>
    let ks := fs.map (fno msg)
    ks.all (fun k => decide (0 < k) && decide (k < 2 ^ 29)) && ascending ks

end Gtirb.Pb
