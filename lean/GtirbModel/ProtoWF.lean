import GtirbModel.Proto
/-! The precondition of C01 ("self-contained IR") as a decidable predicate on
the observable content, written as a *specification* (quantifying over the
IR's node lists), not in terms of the reader. The driver evaluates it on every
generated IR, so the hypothesis of the round-trip theorem is known to be met
by what is tested. -/
namespace Gtirb.Msg

def IntervalV.blockUuids (x : IntervalV) : List U := x.blocks.map (·.uuid)
def SectionV.nodeUuids (s : SectionV) : List U :=
  s.uuid :: s.intervals.flatMap fun x => x.blockUuids ++ [x.uuid]
/-- node UUIDs of a module in decode order: module, proxies, sections (each:
section, then per interval its blocks and the interval), symbols -/
def ModuleV.nodeUuids (m : ModuleV) : List U :=
  m.uuid :: m.proxies ++ m.sections.flatMap (·.nodeUuids) ++ m.symbols.map (·.uuid)
def IRV.nodeUuids (v : IRV) : List U := v.uuid :: v.modules.flatMap (·.nodeUuids)

def ModuleV.codeUuids (m : ModuleV) : List U :=
  m.sections.flatMap fun s => s.intervals.flatMap fun x =>
    x.blocks.filterMap fun b => match b with | .code u _ _ _ => some u | .data _ _ _ => none
def ModuleV.blockUuids (m : ModuleV) : List U :=
  (m.sections.flatMap fun s => s.intervals.flatMap (·.blockUuids)) ++ m.proxies

def nodupB {α} [DecidableEq α] : List α → Bool
  | [] => true
  | x :: xs => !(x ∈ xs) && nodupB xs

def exprSyms : SymExprV → List U
  | .addrConst _ s => [s]
  | .addrAddr _ _ s1 s2 => [s1, s2]

/-- per-module conditions; `earlier` = the modules before this one in `ir.modules` -/
def moduleOK (earlier : List ModuleV) (m : ModuleV) : Bool :=
  let visBlocks := (earlier.flatMap (·.blockUuids)) ++ m.blockUuids
  let visCode := (earlier.flatMap (·.codeUuids)) ++ m.codeUuids
  let visSyms := (earlier.flatMap fun e => e.symbols.map (·.uuid)) ++ m.symbols.map (·.uuid)
  pyEnumHas "ISA" m.isa && pyEnumHas "FileFormat" m.fileFormat && pyEnumHas "ByteOrder" m.byteOrder
  && (match m.entryPoint with | none => true | some u => u ∈ visCode)
  && m.symbols.all (fun s => match s.payload with | .referent u => u ∈ visBlocks | _ => true)
  && nodupB (m.aux.map (·.key))
  && m.sections.all (fun s =>
      s.flags.all (pyEnumHas "SectionFlag") && nodupB s.flags
      && s.intervals.all fun x =>
          decide (x.contents.length ≤ x.size)
          && x.blocks.all (fun b => match b with
              | .code _ _ _ dm => pyEnumHas "DecodeMode" dm
              | .data _ _ _ => true)
          && nodupB (x.exprs.map (·.key))
          && x.exprs.all fun e => nodupB e.attrs && (exprSyms e.expr).all (· ∈ visSyms))

def modulesOK : List ModuleV → List ModuleV → Bool
  | _, [] => true
  | earlier, m :: ms => moduleOK earlier m && modulesOK (earlier ++ [m]) ms

/-- self-contained IR -/
def wfir (v : IRV) : Bool :=
  v.nodeUuids.all (fun u => u.length == 16) && nodupB v.nodeUuids
  && v.version == Generated.protobufVersion
  && modulesOK [] v.modules
  && nodupB (v.aux.map (·.key))
  && nodupB v.edges
  && v.edges.all (fun e =>
      let cfgNodes := v.modules.flatMap fun m => m.codeUuids ++ m.proxies
      e.src ∈ cfgNodes && e.dst ∈ cfgNodes
      && (match e.label with | none => true | some l => pyEnumHas "EdgeType" l.type))

end Gtirb.Msg
