import GtirbModel.Forest
import GtirbModel.Slices
/-! Line protocol and snapshot for model C. The snapshot printed after every
operation is the complete observable state (DESIGN.md Appendix C); the
implementation-side driver prints the same line from the real objects. -/
namespace Gtirb.Forest

def kindName : Kind → String
  | .ir => "ir" | .module => "module" | .section => "section" | .interval => "interval"
  | .code => "code" | .data => "data" | .proxy => "proxy" | .symbol => "symbol"

def readKind : String → Option Kind
  | "ir" => some .ir | "module" => some .module | "section" => some .section
  | "interval" => some .interval | "code" => some .code | "data" => some .data
  | "proxy" => some .proxy | "symbol" => some .symbol | _ => none

def slotName : Slot → String
  | .mods => "mods" | .secs => "secs" | .syms => "syms" | .proxies => "proxies"
  | .bis => "bis" | .blocks => "blocks"

def readSlot : String → Option Slot
  | "mods" => some .mods | "secs" => some .secs | "syms" => some .syms
  | "proxies" => some .proxies | "bis" => some .bis | "blocks" => some .blocks | _ => none

def insertNat (x : Nat) : List Nat → List Nat
  | [] => [x]
  | y :: ys => if x ≤ y then x :: y :: ys else y :: insertNat x ys

def sortNat (l : List Nat) : List Nat := l.foldr insertNat []

def showList (l : List Nat) : String := "[" ++ ",".intercalate (l.map toString) ++ "]"
def showSorted (l : List Nat) : String := showList (sortNat l)
def showOpt : Option Nat → String
  | some x => toString x
  | none => "-"

/-! aggregate iterators, chained exactly as the properties of IR / Module /
Section chain them -/
def secBlocks (g : G) (s : Nat) : List Nat := (g.kids s .bis).flatMap (g.kids · .blocks)
def secCode (g : G) (s : Nat) : List Nat := (secBlocks g s).filter (g.kind · = .code)
def secData (g : G) (s : Nat) : List Nat := (secBlocks g s).filter (g.kind · = .data)
def modBis (g : G) (m : Nat) : List Nat := (g.kids m .secs).flatMap (g.kids · .bis)
def modBlocks (g : G) (m : Nat) : List Nat := (g.kids m .secs).flatMap (secBlocks g)
def modCode (g : G) (m : Nat) : List Nat := (g.kids m .secs).flatMap (secCode g)
def modData (g : G) (m : Nat) : List Nat := (g.kids m .secs).flatMap (secData g)
def modCfgNodes (g : G) (m : Nat) : List Nat := modCode g m ++ g.kids m .proxies
def irSecs (g : G) (i : Nat) : List Nat := (g.kids i .mods).flatMap (g.kids · .secs)
def irSyms (g : G) (i : Nat) : List Nat := (g.kids i .mods).flatMap (g.kids · .syms)
def irProxies (g : G) (i : Nat) : List Nat := (g.kids i .mods).flatMap (g.kids · .proxies)
def irBis (g : G) (i : Nat) : List Nat := (g.kids i .mods).flatMap (modBis g)
def irBlocks (g : G) (i : Nat) : List Nat := (g.kids i .mods).flatMap (modBlocks g)
def irCode (g : G) (i : Nat) : List Nat := (g.kids i .mods).flatMap (modCode g)
def irData (g : G) (i : Nat) : List Nat := (g.kids i .mods).flatMap (modData g)
def irCfgNodes (g : G) (i : Nat) : List Nat := (g.kids i .mods).flatMap (modCfgNodes g)

def showPayload : Payload → String
  | .none => "-"
  | .int n => s!"i{n}"
  | .block b => s!"b{b}"

def readPayload (s : String) : Option Payload :=
  if s == "-" then some .none
  else if s.startsWith "i" then ((s.drop 1).toString.toNat?).map .int
  else if s.startsWith "b" then ((s.drop 1).toString.toNat?).map .block
  else none

def snapshot (g : G) : String :=
  let ids := List.range g.n
  let uuids := sortNat (ids.map g.uuid).eraseDups
  let names := sortNat ((99 :: (ids.filter (g.kind · = .symbol)).map g.name)).eraseDups
  let nodePart := ids.map fun x =>
    let base := s!"{x}:{kindName (g.kind x)}:{showOpt (g.par x)}:ir={showOpt (if g.kind x = .ir then none else irOf g x)}"
    match g.kind x with
    | .ir =>
      base ++ s!" mods={showList (g.kids x .mods)} secs={showSorted (irSecs g x)} syms={showSorted (irSyms g x)}"
        ++ s!" prox={showSorted (irProxies g x)} bis={showSorted (irBis g x)} blk={showSorted (irBlocks g x)}"
        ++ s!" code={showSorted (irCode g x)} data={showSorted (irData g x)} cfgn={showSorted (irCfgNodes g x)}"
        ++ " uu=" ++ " ".intercalate (uuids.map fun u => s!"{u}>{showOpt (getByUuid g x u)}")
    | .module =>
      base ++ s!" secs={showSorted (g.kids x .secs)} syms={showSorted (g.kids x .syms)} prox={showSorted (g.kids x .proxies)}"
        ++ s!" bis={showSorted (modBis g x)} blk={showSorted (modBlocks g x)} code={showSorted (modCode g x)}"
        ++ s!" data={showSorted (modData g x)} cfgn={showSorted (modCfgNodes g x)}"
        ++ " named=" ++ " ".intercalate (names.map fun nm => s!"{nm}>{showSorted (symbolsNamed g x nm)}")
    | .section =>
      base ++ s!" bis={showSorted (g.kids x .bis)} blk={showSorted (secBlocks g x)} code={showSorted (secCode g x)}"
        ++ s!" data={showSorted (secData g x)} mod={showOpt (moduleOf g x)}"
    | .interval => base ++ s!" blk={showSorted (g.kids x .blocks)} mod={showOpt (moduleOf g x)}"
    | .symbol => base ++ s!" name={g.name x} pl={showPayload (g.payload x)}"
    | _ => base ++ s!" mod={showOpt (moduleOf g x)} refs={showSorted (references g x)}"
  " ; ".intercalate nodePart

def excName : Exc → String
  | .keyError => "KeyError" | .valueError => "ValueError" | .indexError => "IndexError"
  | .cacheKeyError => "KeyError!cache" | .outside => "outside" | .badOp => "bad-op"

def readNats (ss : List String) : Option (List Nat) := ss.mapM (·.toNat?)

def readOptNat (s : String) : Option (Option Nat) :=
  if s == "-" then some none else (s.toNat?).map some

/-- `slot:1,2,3` -/
def readKidsArg (s : String) : Option (Slot × List Nat) :=
  match s.splitOn ":" with
  | [a, b] =>
    match readSlot a, (if b == "" then some [] else readNats (b.splitOn ",")) with
    | some sl, some vs => some (sl, vs)
    | _, _ => none
  | _ => none

def splitSlash (ts : List String) : List String × List String :=
  (ts.takeWhile (· ≠ "/"), (ts.dropWhile (· ≠ "/")).drop 1)

def parseSetOp (op : String) (a : Nat) (sl : Slot) (vs : List String) : Option Op :=
  if op == "iand" then
    let (a1, a2) := splitSlash vs
    match readNats a1, readNats a2 with
    | some x, some y => some (.iand a sl x y)
    | _, _ => none
  else
    match readNats vs with
    | none => none
    | some xs =>
      match op, xs with
      | "add", [v] => some (.add a sl v)
      | "discard", [v] => some (.discard a sl v)
      | "remove", [v] => some (.remove a sl v)
      | "pop", [v] => some (.pop a sl v)
      | "clear", _ => some (.clear a sl xs)
      | "update", _ => some (.update a sl xs)
      | "isub", _ => some (.isub a sl xs)
      | "ixor", _ => some (.ixor a sl xs)
      | _, _ => none

def isSetOp (op : String) : Bool :=
  ["add", "discard", "remove", "pop", "clear", "update", "isub", "ixor", "iand"].contains op

def parseOp : List String → Option Op
  | ["mkir", u] => (u.toNat?).map .mkIR
  | "mk" :: k :: u :: p :: rest =>
    match readKind k, u.toNat?, readOptNat p, rest.mapM readKidsArg with
    | some kd, some uu, some pp, some ks => some (.mk kd uu ks pp)
    | _, _, _, _ => none
  | ["mksym", u, nm, pl, p] =>
    match u.toNat?, nm.toNat?, readPayload pl, readOptNat p with
    | some a, some b, some c, some d => some (.mkSym a b c d)
    | _, _, _, _ => none
  | ["setparent", c, p] =>
    match c.toNat?, readOptNat p with
    | some a, some b => some (.setParent a b)
    | _, _ => none
  | op :: p :: rest =>
    match p.toNat? with
    | none => none
    | some a =>
      if isSetOp op then
        match rest with
        | s :: vs => (readSlot s).bind fun sl => parseSetOp op a sl vs
        | [] => none
      else
        match op, rest with
        | "insert", [k, v] =>
          match k.toInt?, v.toNat? with
          | some kk, some vv => some (.insert a kk vv)
          | _, _ => none
        | "setitem", [k, v] =>
          match k.toInt?, v.toNat? with
          | some kk, some vv => some (.setItem a kk vv)
          | _, _ => none
        | "append", [v] => (v.toNat?).map (.append a)
        | "extend", vs => (readNats vs).map (.extend a)
        | "delitem", [k] => (k.toInt?).map (.delItem a)
        | "lremove", [v] => (v.toNat?).map (.listRemove a)
        | "lpop", [k] => (k.toInt?).map (.listPop a)
        | "reverse", [] => some (.reverse a)
        | "lclear", [] => some (.listClear a)
        | "setname", [nm] => (nm.toNat?).map (.setName a)
        | "setpayload", [pl] => (readPayload pl).map (.setPayload a)
        | _, _ => none
  | _ => none

def driverStep (g : G) (line : String) : G × String :=
  match fields line with
  | ["reset"] => ({}, "ok")
  | ["snap"] => (g, snapshot g)
  | ["sliceidx", len, a, b, c] =>
    -- `range(*slice(a, b, c).indices(len))` (for the differential test of the transcription)
    let oi (s : String) : Option (Option Int) := if s == "-" then some none else (s.toInt?).map some
    match len.toNat?, oi a, oi b, oi c with
    | some n, some x, some y, some z =>
      (g, match sliceSelected n x y z with
          | some l => showList l
          | none => "ValueError")
    | _, _, _, _ => (g, "bad-op")
  | ["popempty", p, s] =>
    match p.toNat?, readSlot s with
    | some a, some b => (g, if (g.kids a b).isEmpty then "KeyError" else "bad-op")
    | _, _ => (g, "bad-op")
  | toks =>
    match parseOp toks with
    | none => (g, "bad-op")
    | some op =>
      match step g op with
      | .ok g' => (g', "ok | " ++ snapshot g')
      | .error e => (g, excName e ++ " | " ++ snapshot g)

end Gtirb.Forest
