import GtirbModel.Cfg
import GtirbModel.Forest
/-! `CodeBlock.outgoing_edges / incoming_edges`, `ProxyBlock.…` (block.py):
the edges of the CFG of the node's *current* IR whose source / target is the
node; nothing for a node that is not attached to an IR. -/
namespace Gtirb.CfgViews
open Gtirb

/-- `cfgOf i` = `ir.cfg` of IR `i` -/
def outgoingEdges (g : Forest.G) (cfgOf : Nat → Cfg.Store) (n : Nat) : List Cfg.Edge :=
  match Forest.irOf g n with
  | some i => Cfg.outEdges (cfgOf i) n
  | none => []

def incomingEdges (g : Forest.G) (cfgOf : Nat → Cfg.Store) (n : Nat) : List Cfg.Edge :=
  match Forest.irOf g n with
  | some i => Cfg.inEdges (cfgOf i) n
  | none => []

end Gtirb.CfgViews
