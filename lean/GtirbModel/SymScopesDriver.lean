import GtirbModel.SymScopes
/-! Line protocol `model symscopes`: every line of `model index` (delegated to
`Index.driverStep`) plus symbolic-expression stores per interval and the
scope-level lookups:

* `sym <interval> <offset> <expr id>`   `interval.symbolic_expressions[offset] = e`
* `symdel <interval> <offset>`          `del interval.symbolic_expressions[offset]`
* `symq <section ids | -> <start> <stop> <step>`  the chain of
  `Section.symbolic_expressions_at` over these sections (one id: a section;
  a module's / the IR's sections in order: module / IR scope); answer: the
  items `interval:offset:expr` sorted
* `symqi <interval> <start> <stop> <step>`  the interval's own lookup -/
namespace Gtirb.SymExpr
open Gtirb.Index

structure SDSt where
  d : D := {}
  stores : List (Nat × Store) := []

def SDSt.st (s : SDSt) (x : Nat) : Store := ((s.stores.find? (·.1 == x)).map (·.2)).getD []

def SDSt.setStore (s : SDSt) (x : Nat) (t : Store) : SDSt :=
  { s with stores := (x, t) :: s.stores.filter (·.1 != x) }

def insStr (x : String) : List String → List String
  | [] => [x]
  | y :: ys => if x ≤ y then x :: y :: ys else y :: insStr x ys

def showItems (l : List Item) : String :=
  "[" ++ ",".intercalate ((l.map fun it => s!"{it.1}:{it.2.1}:{it.2.2}").foldr insStr []) ++ "]"

def scopesDriverStep (s : SDSt) (line : String) : SDSt × String :=
  match fields line with
  | ["reset"] => ({}, "ok")
  | ["sym", x, k, v] =>
    match x.toNat?, k.toNat?, v.toNat? with
    | some xx, some kk, some vv => (s.setStore xx (setItem (s.st xx) kk vv), "ok")
    | _, _, _ => (s, "bad-op")
  | ["symdel", x, k] =>
    match x.toNat?, k.toNat? with
    | some xx, some kk =>
      match delItem (s.st xx) kk with
      | some t => (s.setStore xx t, "ok")
      | none => (s, "KeyError")
    | _, _ => (s, "bad-op")
  | ["symq", ids, a, b, c] =>
    match readIds ids, a.toInt?, b.toInt?, c.toNat? with
    | some ss, some aa, some bb, some cc =>
      let (d', l) := scopeSymAt s.d s.st ss ⟨aa, bb, cc⟩
      ({ s with d := d' }, showItems l)
    | _, _, _, _ => (s, "bad-op")
  | ["symqi", x, a, b, c] =>
    match x.toNat?, a.toInt?, b.toInt?, c.toNat? with
    | some xx, some aa, some bb, some cc => (s, showItems (biSymAt s.d s.st xx ⟨aa, bb, cc⟩))
    | _, _, _, _ => (s, "bad-op")
  | _ =>
    let (d', o) := Index.driverStep s.d line
    ({ s with d := d' }, o)

end Gtirb.SymExpr
