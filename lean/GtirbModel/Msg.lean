import GtirbModel.Util
/-! Model E, part 1: the observable content of an IR as a value (`IRV`) and the
protobuf message (`Msg`) with proto3 semantics made explicit.

`IRV` holds what the public API lets one observe: nested nodes with UUIDs,
kinds and attribute values, children in lists, references as UUIDs, enum
members as their numbers, AuxData as (key, type name, bytes).
`Msg` mirrors the twelve schema files field by field (proto/*.proto):
`has_address` and `address` separate, one-ofs as `Option` of a sum, `label` as
`Option`, `entry_point` as bytes (empty = absent), enums as numbers, repeated
fields as lists, maps as association lists. -/
namespace Gtirb.Msg

abbrev U := Bytes

/-! ### observable content -/

structure EdgeLabelV where
  type : Nat
  conditional : Bool
  direct : Bool
  deriving DecidableEq, Repr

structure EdgeV where
  src : U
  dst : U
  label : Option EdgeLabelV
  deriving DecidableEq, Repr

inductive BlockV where
  | code (uuid : U) (offset size decodeMode : Nat)
  | data (uuid : U) (offset size : Nat)
  deriving DecidableEq, Repr

def BlockV.uuid : BlockV → U
  | .code u _ _ _ => u
  | .data u _ _ => u

inductive SymExprV where
  | addrConst (offset : Int) (sym : U)
  | addrAddr (scale offset : Int) (sym1 sym2 : U)
  deriving DecidableEq, Repr

structure ExprEntryV where
  key : Nat
  expr : SymExprV
  /-- attribute numbers, known and unknown alike -/
  attrs : List Nat
  deriving DecidableEq, Repr

structure IntervalV where
  uuid : U
  addr : Option Nat
  size : Nat
  contents : Bytes
  blocks : List BlockV
  exprs : List ExprEntryV
  deriving DecidableEq, Repr

structure SectionV where
  uuid : U
  name : String
  flags : List Nat
  intervals : List IntervalV
  deriving DecidableEq, Repr

inductive PayloadV where
  | none
  | value (n : Nat)
  | referent (u : U)
  deriving DecidableEq, Repr

structure SymbolV where
  uuid : U
  name : String
  payload : PayloadV
  atEnd : Bool
  deriving DecidableEq, Repr

structure AuxV where
  key : String
  typeName : String
  data : Bytes
  deriving DecidableEq, Repr

structure ModuleV where
  uuid : U
  name : String
  binaryPath : String
  preferredAddr : Nat
  rebaseDelta : Int
  fileFormat : Nat
  isa : Nat
  byteOrder : Nat
  entryPoint : Option U
  proxies : List U
  sections : List SectionV
  symbols : List SymbolV
  aux : List AuxV
  deriving DecidableEq, Repr

structure IRV where
  uuid : U
  version : Nat
  modules : List ModuleV
  edges : List EdgeV
  aux : List AuxV
  deriving DecidableEq, Repr

/-! ### the message -/

structure MCodeBlock where
  uuid : Bytes
  size : Nat
  decodeMode : Nat
  deriving DecidableEq, Repr

structure MDataBlock where
  uuid : Bytes
  size : Nat
  deriving DecidableEq, Repr

inductive MBlockValue where
  | code (b : MCodeBlock)
  | data (b : MDataBlock)
  deriving DecidableEq, Repr

structure MBlock where
  offset : Nat
  value : Option MBlockValue        -- oneof value
  deriving DecidableEq, Repr

inductive MSymExprValue where
  | addrConst (offset : Int) (symbolUuid : Bytes)
  | addrAddr (scale offset : Int) (symbol1Uuid symbol2Uuid : Bytes)
  deriving DecidableEq, Repr

structure MSymExpr where
  value : Option MSymExprValue      -- oneof value
  attributeFlags : List Nat
  deriving DecidableEq, Repr

structure MByteInterval where
  uuid : Bytes
  blocks : List MBlock
  symbolicExpressions : List (Nat × MSymExpr)     -- map<uint64, SymbolicExpression>
  hasAddress : Bool
  address : Nat
  size : Nat
  contents : Bytes
  deriving DecidableEq, Repr

structure MSection where
  uuid : Bytes
  name : String
  byteIntervals : List MByteInterval
  sectionFlags : List Nat
  deriving DecidableEq, Repr

inductive MPayload where
  | value (n : Nat)
  | referentUuid (u : Bytes)
  deriving DecidableEq, Repr

structure MSymbol where
  uuid : Bytes
  payload : Option MPayload         -- oneof optional_payload
  name : String
  atEnd : Bool
  deriving DecidableEq, Repr

structure MAuxData where
  typeName : String
  data : Bytes
  deriving DecidableEq, Repr

structure MModule where
  uuid : Bytes
  binaryPath : String
  preferredAddr : Nat
  rebaseDelta : Int
  fileFormat : Nat
  isa : Nat
  name : String
  symbols : List MSymbol
  proxies : List Bytes               -- repeated ProxyBlock { bytes uuid }
  sections : List MSection
  auxData : List (String × MAuxData)
  entryPoint : Bytes
  byteOrder : Nat
  deriving DecidableEq, Repr

structure MEdgeLabel where
  conditional : Bool
  direct : Bool
  type : Nat
  deriving DecidableEq, Repr

structure MEdge where
  sourceUuid : Bytes
  targetUuid : Bytes
  label : Option MEdgeLabel
  deriving DecidableEq, Repr

structure MCFG where
  vertices : List Bytes
  edges : List MEdge
  deriving DecidableEq, Repr

structure MIR where
  uuid : Bytes
  modules : List MModule
  auxData : List (String × MAuxData)
  version : Nat
  cfg : MCFG
  deriving DecidableEq, Repr

end Gtirb.Msg
