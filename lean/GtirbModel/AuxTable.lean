import GtirbModel.CodecDriver
/-! Life cycle of one AuxData table (python/gtirb/auxdata.py:17-147 and
`Serialization.decode/encode`): lazily decoded raw bytes, the decoded value,
the current type name. -/
namespace Gtirb.AuxTable
open Gtirb.Codec

inductive Data where
  | val (v : Val)
  | unknownData (bs : Bytes)      -- `UnknownData`: the bytes of a table whose decoding reached a head without codec
  deriving Repr, Inhabited

inductive Err where
  | typeName        -- TypeNameError
  | unsupported     -- decoding reached a known head with an arity its codec rejects (DecodeError)
  | decode (what : String)   -- strict-read failures of the model (short / utf8 / index): outside the quantifier
  | encode          -- EncodeError (value does not fit the type, or unknown codec while encoding a real value)
  deriving Repr, DecidableEq

structure Table where
  typeName : String
  /-- `_lazy_container`: raw bytes and the type name they were loaded with -/
  raw : Option (Bytes × String)
  /-- `_data` (meaningful only when `raw = none`) -/
  data : Option Data
  deriving Repr, Inhabited

/-- `Serialization.decode`: trailing bytes are ignored; an unknown codec met
while decoding turns the whole table into `UnknownData(all bytes)`; a known
head with a rejected arity met while decoding is a DecodeError.
(`tyOfTree` is never `none`: that arm is dead, see `tyOfTree_isSome`.) -/
def decodeTop (lookup : Bytes → Option Nat) (name : String) (bs : Bytes) : Except Err Data :=
  match TypeName.parseType name.toList with
  | none => .error .typeName
  | some tr =>
    match tyOfTree tr with
    | none => .error .unsupported
    | some ty =>
      match decode lookup ty bs with
      | .ok (v, _) => .ok (.val v)
      | .unknownCodec _ => .ok (.unknownData bs)
      | .short => .error (.decode "short")
      | .badUtf8 => .error (.decode "utf8")
      | .badIndex => .error (.decode "index")
      | .badArity => .error .unsupported

/-- `Serialization.encode`: `UnknownData` is written verbatim whatever the type name says.
Reaching a head without codec or a known head with a rejected arity is an
EncodeError like any other misfit (`encode = none`). -/
def encodeTop (nodeUuid : Nat → Bytes) (name : String) : Data → Except Err Bytes
  | .unknownData bs => .ok bs
  | .val v =>
    match TypeName.parseType name.toList with
    | none => .error .typeName
    | some tr =>
      match tyOfTree tr with
      | none => .error .unsupported
      | some ty =>
        match encode nodeUuid ty v with
        | some bs => .ok bs
        | none => .error .encode

def load (name : String) (bs : Bytes) : Table := { typeName := name, raw := some (bs, name), data := none }

/-- `.data` getter -/
def read (lookup : Bytes → Option Nat) (t : Table) : Except Err (Table × Data) :=
  match t.raw with
  | some (bs, tn) =>
    match decodeTop lookup tn bs with
    | .ok d => .ok ({ t with raw := none, data := some d }, d)
    | .error e => .error e
  | none =>
    match t.data with
    | some d => .ok (t, d)
    | none => .error (.decode "no-data")

/-- `.data = v` -/
def assignData (t : Table) (d : Data) : Table := { t with raw := none, data := some d }

/-- `.type_name = s` -/
def assignType (t : Table) (s : String) : Table := { t with typeName := s }

/-- `_to_protobuf`: the untouched raw bytes if the type name is unchanged,
otherwise the encoding of `.data` (which reads, i.e. decodes under the name
the bytes were loaded with) under the current name. Returns the state left
behind as well (a save can drop the raw bytes). -/
def save (lookup : Bytes → Option Nat) (nodeUuid : Nat → Bytes) (t : Table) :
    Table × Except Err (String × Bytes) :=
  match t.raw with
  | some (bs, tn) =>
    if t.typeName = tn then (t, .ok (t.typeName, bs))
    else
      match read lookup t with
      | .ok (t', d) =>
        match encodeTop nodeUuid t'.typeName d with
        | .ok out => (t', .ok (t'.typeName, out))
        | .error e => (t', .error e)
      | .error e => (t, .error e)
  | none =>
    match t.data with
    | some d =>
      match encodeTop nodeUuid t.typeName d with
      | .ok out => (t, .ok (t.typeName, out))
      | .error e => (t, .error e)
    | none => (t, .error (.decode "no-data"))

/-! ### line protocol (shares the node table commands of the codec driver) -/

def showErr : Err → String
  | .typeName => "err:typename"
  | .unsupported => "err:unsupported"
  | .decode w => "err:decode:" ++ w
  | .encode => "err:encode"

def showData : Data → String
  | .val v => "val " ++ showVal v
  | .unknownData bs => "unknown " ++ hexOrDash bs

structure DSt where
  c : Codec.St := {}
  t : Table := default

def driverStep (s : DSt) (line : String) : DSt × String :=
  match fields line with
  | ["reset"] => ({}, "ok")
  | ["node", _, _, _] =>
    let (c', o) := Codec.driverStep s.c line
    ({ s with c := c' }, o)
  | ["load", tn, h] =>
    match stringOfHex tn, bytesOfHex h with
    | some name, some bs => ({ s with t := load name bs }, "ok")
    | _, _ => (s, "bad-op")
  | ["read"] =>
    match read s.c.lookup s.t with
    | .ok (t', d) => ({ s with t := t' }, showData d)
    | .error e => (s, showErr e)
  | "setdata" :: vtoks =>
    match readVal vtoks with
    | some (v, []) => ({ s with t := assignData s.t (.val v) }, "ok")
    | _ => (s, "bad-op")
  | ["settype", tn] =>
    match stringOfHex tn with
    | some name => ({ s with t := assignType s.t name }, "ok")
    | none => (s, "bad-op")
  | ["save"] =>
    match save s.c.lookup s.c.nodeUuid s.t with
    | (t', .ok (name, bs)) => ({ s with t := t' }, s!"ok {hexOfString name} {hexOrDash bs}")
    | (t', .error e) => ({ s with t := t' }, showErr e)
  | ["israw"] => (s, if s.t.raw.isSome then "1" else "0")
  | _ => (s, "bad-op")

end Gtirb.AuxTable
