import GtirbModel.Cfg
/-! Keyed model of `gtirb.CFG` (python/gtirb/cfg.py:144-212): the MECHANISM.

`GtirbModel/Cfg.lean` models the CFG as a duplicate-free list of edges, which is the
specification. The code stores the edges in a `networkx.MultiDiGraph`: for every ordered
pair `(source, target)` a *key dict* `key -> {"label": label}`.

* `_edge_key(edge)` (cfg.py:169-176) walks the key dict of `(edge.source, edge.target)` in
  its insertion order and returns the key of the first entry whose label equals
  `edge.label`;
* `__contains__` (cfg.py:178-179) is `_edge_key(edge) is not None`;
* `add` (cfg.py:192-194) calls `add_edge(source, target, label=...)` when the edge is not
  contained; networkx allocates the key with `new_edge_key` (multigraph.py):
  `key = len(keydict); while key in keydict: key += 1`;
* `discard` (cfg.py:199-202) calls `remove_edge(source, target, key=key)` for the key found;
* `__iter__`, `__len__`, `out_edges`, `in_edges` enumerate the multigraph;
* `clear` clears the multigraph;
* `remove`, `pop`, `|=`, `&=`, `-=`, `^=` are the `collections.abc.MutableSet` mixins on top
  of `__contains__` / `__iter__` / `add` / `discard` (CPython 3.12 `_collections_abc.py`).

The store is the list of `(src, dst, key, label)` entries in insertion order. The key dict
of one pair is the sub-list of the entries of that pair: a Python dict keeps insertion
order, deleting an entry keeps the order of the others, and a new entry goes to the end,
which is what `List.filter` / `++ [_]` do. (The order in which the multigraph enumerates
*different* pairs - grouped by node - is not modelled; the harness compares sorted lists.
`mEdgesBy` below gives the grouped enumeration for an arbitrary node order.) -/
namespace Gtirb.Cfg

structure MEdge where
  src : Nat
  dst : Nat
  key : Nat
  label : Option Label
  deriving DecidableEq, Repr

/-- the multigraph: entries in insertion order -/
abbrev MStore := List MEdge

/-- the `(source, target, label)` edge an entry stands for -/
def MEdge.toEdge (m : MEdge) : Edge := ⟨m.src, m.dst, m.label⟩

/-- abstraction to the set-level store of `Cfg.lean` -/
def abs (g : MStore) : Store := g.map MEdge.toEdge

/-- `self._nxg[s][d]`: the key dict of the ordered pair `(s, d)`, in insertion order
(empty when `s` is not a node or `d` is not a neighbour of `s`) -/
def keydict (g : MStore) (s d : Nat) : List MEdge := g.filter fun m => m.src == s && m.dst == d

/-- `CFG._edge_key` (cfg.py:169-176): first entry of the key dict with an equal label -/
def edgeKey (g : MStore) (e : Edge) : Option Nat :=
  ((keydict g e.src e.dst).find? fun m => m.label == e.label).map (·.key)

/-- `while key in keydict: key += 1` with explicit fuel -/
def bumpKey (ks : List Nat) : Nat → Nat → Nat
  | 0, k => k
  | fuel + 1, k => if ks.contains k then bumpKey ks fuel (k + 1) else k

/-- `MultiGraph.new_edge_key(s, d)`: start at the number of parallel edges between the
ordered pair, increment while the key is taken. (`ks.length + 1` iterations always suffice:
`C11_newKey_fresh`.) -/
def newKey (g : MStore) (s d : Nat) : Nat :=
  let ks := (keydict g s d).map (·.key)
  bumpKey ks (ks.length + 1) ks.length

/-- `MultiDiGraph.add_edge(s, d, label=l)` (no explicit key) -/
def nxAddEdge (g : MStore) (s d : Nat) (l : Option Label) : MStore :=
  g ++ [⟨s, d, newKey g s d, l⟩]

/-- `MultiDiGraph.remove_edge(s, d, key=k)`: `del keydict[k]` -/
def nxRemoveEdge (g : MStore) (s d k : Nat) : MStore :=
  g.filter fun m => !(m.src == s && m.dst == d && m.key == k)

/-- `CFG.__contains__` -/
def mContains (g : MStore) (e : Edge) : Bool := (edgeKey g e).isSome

/-- `CFG.add` -/
def mAdd (g : MStore) (e : Edge) : MStore :=
  if mContains g e then g else nxAddEdge g e.src e.dst e.label

/-- `CFG.discard` -/
def mDiscard (g : MStore) (e : Edge) : MStore :=
  match edgeKey g e with
  | some k => nxRemoveEdge g e.src e.dst k
  | none => g

/-- `CFG.clear` -/
def mClear (_ : MStore) : MStore := []

/-- `CFG.__iter__`: `Edge(s, t, l)` for every entry of the multigraph -/
def mEdges (g : MStore) : List Edge := g.map MEdge.toEdge

/-- `CFG.__len__` -/
def mLen (g : MStore) : Nat := g.length

/-- `CFG.out_edges(n)` -/
def mOutEdges (g : MStore) (n : Nat) : List Edge := (g.filter (·.src == n)).map MEdge.toEdge

/-- `CFG.in_edges(n)` -/
def mInEdges (g : MStore) (n : Nat) : List Edge := (g.filter (·.dst == n)).map MEdge.toEdge

/-- the multigraph's own enumeration order for `edges()`: grouped by source node, the nodes
in the order `ns` of the node dict -/
def mEdgesBy (ns : List Nat) (g : MStore) : List Edge := ns.flatMap (mOutEdges g)

/-- `CFG.update` -/
def mUpdate (g : MStore) (es : List Edge) : MStore := es.foldl mAdd g

/-- `MutableSet.remove`: `if value not in self: raise KeyError(value); self.discard(value)` -/
def mRemove (g : MStore) (e : Edge) : Option MStore :=
  if mContains g e then some (mDiscard g e) else none

/-- `MutableSet.pop` reported to have returned `e` (as `Cfg.popReported`) -/
def mPopReported (g : MStore) (e : Edge) : Option MStore :=
  if mContains g e then some (mDiscard g e) else none

/-- `__ior__` -/
def mIor (g : MStore) (es : List Edge) : MStore := mUpdate g es

/-- `__isub__` -/
def mIsub (g : MStore) (es : List Edge) : MStore := es.foldl mDiscard g

/-- `__iand__`: `for value in (self - it): self.discard(value)` -/
def mIand (g : MStore) (es : List Edge) : MStore :=
  ((mEdges g).filter fun e => !(es.any (· == e))).foldl mDiscard g

/-- `__ixor__` -/
def mIxor (g : MStore) (es : List Edge) : MStore :=
  es.foldl (fun g e => if mContains g e then mDiscard g e else mAdd g e) g

/-- one public operation, mirroring `Cfg.step`; `none` = no successor state -/
def mStep (g : MStore) : Op → Option MStore
  | .add e => some (mAdd g e)
  | .discard e => some (mDiscard g e)
  | .remove e => mRemove g e
  | .pop e => mPopReported g e
  | .clear => some (mClear g)
  | .update es => some (mUpdate g es)
  | .ior es => some (mIor g es)
  | .iand es => some (mIand g es)
  | .isub es => some (mIsub g es)
  | .ixor es => some (mIxor g es)

def mRun (g : MStore) (ops : List Op) : MStore := ops.foldl (fun g op => (mStep g op).getD g) g

/-! ### `pop` with separate outcomes

`MutableSet.pop`: `it = iter(self); try: value = next(it) except StopIteration: raise
KeyError; self.discard(value); return value`. The model does not fix the iteration order,
so the popped edge is part of the observation: `base (.pop e)` = "`pop()` returned `e`",
`popKeyError` = "`pop()` raised `KeyError`". An observation that no set-like `pop` can
produce is `invalid`, which is a different outcome from `KeyError`. -/

inductive KOp where
  | base (op : Op)
  | popKeyError
  deriving Repr

inductive Outcome where
  | ok (g : MStore)
  | keyError
  | invalid
  deriving DecidableEq, Repr

def kStep (g : MStore) : KOp → Outcome
  | .popKeyError => if g.isEmpty then .keyError else .invalid
  | .base (.pop e) => if mContains g e then .ok (mDiscard g e) else .invalid
  | .base op =>
    match mStep g op with
    | some g' => .ok g'
    | none => .keyError

/-! ### line protocol (same lines as `Cfg.driverStep`) -/

def showMEdge (m : MEdge) : String := s!"{m.src}:{m.dst}:{m.key}:{showLabel m.label}"

/-- the multigraph as a sorted (string order) list of `src:dst:key:label` items; compare
with `sorted("%d:%d:%d:%s" % (i(s), i(t), k, lab(d["label"])) for s, t, k, d in
cfg.nx().edges(keys=True, data=True))` -/
def showKeys (g : MStore) : String :=
  "[" ++ ";".intercalate (sortStrings (g.map showMEdge)) ++ "]"

/-- the snapshot of `Cfg.snapshot`, computed from the keyed store's own views, followed by
the keys -/
def mSnapshot (g : MStore) (nNodes : Nat) : String :=
  s!"len={mLen g} edges={showEdges (mEdges g)}" ++
    String.join ((List.range nNodes).map fun n =>
      s!" out{n}={showEdges (mOutEdges g n)} in{n}={showEdges (mInEdges g n)}") ++
    s!" keys={showKeys g}"

structure KDSt where
  g : MStore := []
  nNodes : Nat := 4

/-- Same input lines as `Cfg.driverStep`. Output: as `Cfg.driverStep`, every snapshot
followed by ` keys=[...]`; the only other difference is that `pop e` for an `e` that is not
a member answers `invalid-pop <snapshot>` instead of `KeyError <snapshot>`. -/
def keyedDriverStep (s : KDSt) (line : String) : KDSt × String :=
  match fields line with
  | ["reset", n] => ({ g := [], nNodes := n.toNat?.getD 4 }, "ok")
  | ["snap"] => (s, mSnapshot s.g s.nNodes)
  | ["has", e] =>
    match readEdge e with
    | some ed => (s, if mContains s.g ed then "1" else "0")
    | none => (s, "bad-op")
  | ["popempty"] =>
    match kStep s.g .popKeyError with
    | .keyError => (s, "KeyError")
    | _ => (s, "invalid")
  | toks =>
    match parseOp toks with
    | none => (s, "bad-op")
    | some op =>
      match kStep s.g (.base op) with
      | .ok g' => ({ s with g := g' }, "ok " ++ mSnapshot g' s.nNodes)
      | .keyError => (s, "KeyError " ++ mSnapshot s.g s.nNodes)
      | .invalid => (s, "invalid-pop " ++ mSnapshot s.g s.nNodes)

end Gtirb.Cfg
