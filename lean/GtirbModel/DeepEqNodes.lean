import GtirbModel.DeepEq
/-! Model E, part 3b: `deep_eq` between two *nodes of one kind* (the property
speaks of "two IRs (or nodes of one kind)"). The per-class functions of
`DeepEq.lean` (`symbolDeepEq`, `exprDeepEq`, `intervalDeepEq`, `sectionDeepEq`,
`moduleDeepEq`) already take the two nodes and the IRs their references are
resolved in. Here: what such a node *shows* - its own compared fields, its
children in canonical order, and for every reference the content of the node it
denotes (a symbol's referent block; an expression's symbols with their
referents; a module's entry point) - so that "exact structural equality" has a
meaning below the IR level as well. -/
namespace Gtirb.Msg

inductive PayloadObs where
  | none
  | value (n : Nat)
  /-- the node the UUID denotes in the symbol's own IR (`none`: dangling) -/
  | referent (r : Option RefNode)
  deriving DecidableEq, Repr

structure SymObs where
  uuid : U
  name : String
  atEnd : Bool
  payload : PayloadObs
  deriving DecidableEq, Repr

def symObs (v : IRV) (s : SymbolV) : SymObs :=
  { uuid := s.uuid, name := s.name, atEnd := s.atEnd,
    payload := match s.payload with
      | .none => .none
      | .value n => .value n
      | .referent u => .referent (v.findBlock u) }

inductive ExprObs where
  | addrConst (offset : Int) (sym : Option SymObs)
  | addrAddr (scale offset : Int) (sym1 sym2 : Option SymObs)
  deriving DecidableEq, Repr

structure ExprEntryObs where
  key : Nat
  expr : ExprObs
  attrs : List Nat
  deriving DecidableEq, Repr

def symRefObs (v : IRV) (u : U) : Option SymObs := (v.findSymbol u).map (symObs v)

def exprObs (v : IRV) (e : ExprEntryV) : ExprEntryObs :=
  { key := e.key,
    expr := match e.expr with
      | .addrConst o s => .addrConst o (symRefObs v s)
      | .addrAddr c o s1 s2 => .addrAddr c o (symRefObs v s1) (symRefObs v s2),
    attrs := sortNats e.attrs }

structure IntervalObs where
  uuid : U
  addr : Option Nat
  size : Nat
  contents : Bytes
  blocks : List BlockV
  exprs : List ExprEntryObs
  deriving DecidableEq, Repr

def intervalObs (v : IRV) (x : IntervalV) : IntervalObs :=
  { uuid := x.uuid, addr := x.addr, size := x.size, contents := x.contents,
    blocks := sortBy (fun a b => bytesLe a.uuid b.uuid) x.blocks,
    exprs := (sortBy (fun a b => decide (a.key ≤ b.key)) x.exprs).map (exprObs v) }

structure SectionObs where
  uuid : U
  name : String
  flags : List Nat
  intervals : List IntervalObs
  deriving DecidableEq, Repr

def sectionObs (v : IRV) (s : SectionV) : SectionObs :=
  { uuid := s.uuid, name := s.name, flags := sortNats s.flags,
    intervals := (sortBy (fun a b => bytesLe a.uuid b.uuid) s.intervals).map (intervalObs v) }

structure ModuleObs where
  uuid : U
  name : String
  binaryPath : String
  preferredAddr : Nat
  rebaseDelta : Int
  fileFormat : Nat
  isa : Nat
  byteOrder : Nat
  /-- `none`: no entry point; `some r`: what its UUID denotes -/
  entryPoint : Option (Option RefNode)
  proxies : List U
  sections : List SectionObs
  symbols : List SymObs
  auxKeys : List String
  deriving DecidableEq, Repr

def moduleObs (v : IRV) (m : ModuleV) : ModuleObs :=
  { uuid := m.uuid, name := m.name, binaryPath := m.binaryPath,
    preferredAddr := m.preferredAddr, rebaseDelta := m.rebaseDelta,
    fileFormat := m.fileFormat, isa := m.isa, byteOrder := m.byteOrder,
    entryPoint := m.entryPoint.map v.findBlock,
    proxies := sortBy bytesLe m.proxies,
    sections := (sortBy (fun a b => bytesLe a.uuid b.uuid) m.sections).map (sectionObs v),
    symbols := (sortBy (fun a b => bytesLe a.uuid b.uuid) m.symbols).map (symObs v),
    auxKeys := (m.aux.map (·.key)).foldr insertStr [] }

/-! ### all node pairs of two IRs that share a UUID (driver command `deepeqnodes`) -/

def IRV.sections (v : IRV) : List SectionV := v.modules.flatMap (·.sections)
def IRV.intervals (v : IRV) : List IntervalV := v.sections.flatMap (·.intervals)

def tB (b : Bool) : String := if b then "1" else "0"

/-- one item per node of `a` that has a node of the same kind and UUID in `b`:
`<kind><uuid>[:<key>]=<deep_eq a→b><deep_eq b→a><observations equal>` -/
def nodeVerdicts (a b : IRV) : List String :=
  (a.modules.filterMap fun x => (b.modules.find? (·.uuid == x.uuid)).map fun y =>
      s!"m{hexOrDash x.uuid}={tB (moduleDeepEq a b x y)}{tB (moduleDeepEq b a y x)}{tB (decide (moduleObs a x = moduleObs b y))}")
  ++ (a.sections.filterMap fun x => (b.sections.find? (·.uuid == x.uuid)).map fun y =>
      s!"s{hexOrDash x.uuid}={tB (sectionDeepEq a b x y)}{tB (sectionDeepEq b a y x)}{tB (decide (sectionObs a x = sectionObs b y))}")
  ++ (a.intervals.filterMap fun x => (b.intervals.find? (·.uuid == x.uuid)).map fun y =>
      s!"i{hexOrDash x.uuid}={tB (intervalDeepEq a b x y)}{tB (intervalDeepEq b a y x)}{tB (decide (intervalObs a x = intervalObs b y))}")
  ++ (a.intervals.flatMap fun x =>
        match b.intervals.find? (·.uuid == x.uuid) with
        | none => []
        | some y => x.exprs.filterMap fun e => (y.exprs.find? (·.key == e.key)).map fun e' =>
            s!"e{hexOrDash x.uuid}:{e.key}={tB (exprDeepEq a b e e')}{tB (exprDeepEq b a e' e)}{tB (decide (exprObs a e = exprObs b e'))}")
  ++ (a.blocks.filterMap fun x => (b.blocks.find? (·.uuid == x.uuid)).map fun y =>
      s!"b{hexOrDash x.uuid}={tB (blockDeepEq x y)}{tB (blockDeepEq y x)}{tB (decide (x = y))}")
  ++ (a.symbols.filterMap fun x => (b.symbols.find? (·.uuid == x.uuid)).map fun y =>
      s!"y{hexOrDash x.uuid}={tB (symbolDeepEq a b x y)}{tB (symbolDeepEq b a y x)}{tB (decide (symObs a x = symObs b y))}")

end Gtirb.Msg
