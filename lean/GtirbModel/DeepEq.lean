import GtirbModel.Msg
/-! Model E, part 3: `deep_eq` on the observable content, mirroring each class's
method (sort children by UUID, compare lengths, zip), with references compared
as the code compares them: by `deep_eq` of the referenced node found in its own
IR. -/
namespace Gtirb.Msg

/-- lexicographic order on UUID bytes (`uuid.UUID.__lt__` compares the 128-bit
integers, i.e. the big-endian bytes lexicographically) -/
def bytesLe : Bytes → Bytes → Bool
  | [], _ => true
  | _ :: _, [] => false
  | a :: as, b :: bs => if a < b then true else if a > b then false else bytesLe as bs

def insertBy {α} (le : α → α → Bool) (x : α) : List α → List α
  | [] => [x]
  | y :: ys => if le x y then x :: y :: ys else y :: insertBy le x ys

/-- stable insertion sort (Python's `sorted` is stable) -/
def sortBy {α} (le : α → α → Bool) (l : List α) : List α := l.foldr (insertBy le) []

def insertNat' (x : Nat) : List Nat → List Nat
  | [] => [x]
  | y :: ys => if x ≤ y then x :: y :: ys else y :: insertNat' x ys
def sortNats (l : List Nat) : List Nat := l.foldr insertNat' []

/-- set equality of number lists (flags, attributes) -/
def sameSet (a b : List Nat) : Bool := a.all (· ∈ b) && b.all (· ∈ a)

/-- `zip`-compare two lists of equal length with `f` -/
def allZip {α} (f : α → α → Bool) : List α → List α → Bool
  | [], [] => true
  | a :: as, b :: bs => f a b && allZip f as bs
  | _, _ => false

/-! #### node lookup inside an IR (what a reference denotes) -/

def IRV.blocks (v : IRV) : List BlockV :=
  v.modules.flatMap fun m => m.sections.flatMap fun s => s.intervals.flatMap (·.blocks)
def IRV.proxies (v : IRV) : List U := v.modules.flatMap (·.proxies)
def IRV.symbols (v : IRV) : List SymbolV := v.modules.flatMap (·.symbols)

inductive RefNode where
  | block (b : BlockV)
  | proxy (u : U)
  deriving DecidableEq, Repr

def IRV.findBlock (v : IRV) (u : U) : Option RefNode :=
  match v.blocks.find? (·.uuid == u) with
  | some b => some (.block b)
  | none => if u ∈ v.proxies then some (.proxy u) else none

def IRV.findSymbol (v : IRV) (u : U) : Option SymbolV := v.symbols.find? (·.uuid == u)

/-- `ByteBlock.deep_eq` / `CodeBlock.deep_eq` / `DataBlock.deep_eq` (after the
fix: a data block is never deep_eq to a code block) -/
def blockDeepEq : BlockV → BlockV → Bool
  | .code u o z d, .code u' o' z' d' => o == o' && u == u' && z == z' && d == d'
  | .data u o z, .data u' o' z' => o == o' && u == u' && z == z'
  | _, _ => false

def refDeepEq : Option RefNode → Option RefNode → Bool
  | some (.block a), some (.block b) => blockDeepEq a b
  | some (.proxy a), some (.proxy b) => a == b
  | _, _ => false

/-- `Symbol.deep_eq` -/
def symbolDeepEq (va vb : IRV) (a b : SymbolV) : Bool :=
  (match a.payload, b.payload with
   | .value n, .value n' => n == n'
   | .none, .none => true
   | .referent u, .referent u' => refDeepEq (va.findBlock u) (vb.findBlock u')
   | _, _ => false)
  && a.name == b.name && a.atEnd == b.atEnd && a.uuid == b.uuid

def symRefDeepEq (va vb : IRV) (u u' : U) : Bool :=
  match va.findSymbol u, vb.findSymbol u' with
  | some a, some b => symbolDeepEq va vb a b
  | _, _ => false

/-- `SymAddrConst.deep_eq` / `SymAddrAddr.deep_eq` -/
def exprDeepEq (va vb : IRV) (a b : ExprEntryV) : Bool :=
  a.key == b.key &&
  (match a.expr, b.expr with
   | .addrConst o s, .addrConst o' s' => o == o' && symRefDeepEq va vb s s'
   | .addrAddr c o s1 s2, .addrAddr c' o' s1' s2' =>
     c == c' && o == o' && symRefDeepEq va vb s1 s1' && symRefDeepEq va vb s2 s2'
   | _, _ => false)
  && sameSet a.attrs b.attrs

/-- `ByteInterval.deep_eq` -/
def intervalDeepEq (va vb : IRV) (a b : IntervalV) : Bool :=
  a.uuid == b.uuid && a.addr == b.addr && a.contents == b.contents && a.size == b.size
  && a.blocks.length == b.blocks.length
  && allZip blockDeepEq (sortBy (fun x y => bytesLe x.uuid y.uuid) a.blocks)
                        (sortBy (fun x y => bytesLe x.uuid y.uuid) b.blocks)
  && a.exprs.length == b.exprs.length
  && allZip (exprDeepEq va vb) (sortBy (fun x y => decide (x.key ≤ y.key)) a.exprs)
                               (sortBy (fun x y => decide (x.key ≤ y.key)) b.exprs)

/-- `Section.deep_eq` -/
def sectionDeepEq (va vb : IRV) (a b : SectionV) : Bool :=
  a.uuid == b.uuid && a.name == b.name && a.intervals.length == b.intervals.length
  && allZip (intervalDeepEq va vb) (sortBy (fun x y => bytesLe x.uuid y.uuid) a.intervals)
                                   (sortBy (fun x y => bytesLe x.uuid y.uuid) b.intervals)
  && sameSet a.flags b.flags

def sameKeys (a b : List AuxV) : Bool :=
  (a.map (·.key)).all (· ∈ b.map (·.key)) && (b.map (·.key)).all (· ∈ a.map (·.key))

/-- `Module.deep_eq` (on top of `AuxDataContainer.deep_eq`: uuid and AuxData keys) -/
def moduleDeepEq (va vb : IRV) (a b : ModuleV) : Bool :=
  a.uuid == b.uuid && sameKeys a.aux b.aux
  && a.binaryPath == b.binaryPath && a.isa == b.isa && a.byteOrder == b.byteOrder
  && a.fileFormat == b.fileFormat && a.name == b.name && a.preferredAddr == b.preferredAddr
  && a.rebaseDelta == b.rebaseDelta
  && a.proxies.length == b.proxies.length
  && allZip (· == ·) (sortBy bytesLe a.proxies) (sortBy bytesLe b.proxies)
  && a.sections.length == b.sections.length
  && allZip (sectionDeepEq va vb) (sortBy (fun x y => bytesLe x.uuid y.uuid) a.sections)
                                  (sortBy (fun x y => bytesLe x.uuid y.uuid) b.sections)
  && a.symbols.length == b.symbols.length
  && allZip (symbolDeepEq va vb) (sortBy (fun x y => bytesLe x.uuid y.uuid) a.symbols)
                                 (sortBy (fun x y => bytesLe x.uuid y.uuid) b.symbols)
  && (match a.entryPoint, b.entryPoint with
      | none, none => true
      | some u, some u' => refDeepEq (va.findBlock u) (vb.findBlock u')
      | _, _ => false)

/-- the sort key of `CFG.deep_eq`: (source uuid, target uuid, label key) with
`(-1, False, False)` for a missing label -/
def labelKey : Option EdgeLabelV → Int × Bool × Bool
  | none => (-1, false, false)
  | some l => (l.type, l.conditional, l.direct)

def tripleLe (a b : Int × Bool × Bool) : Bool :=
  if a.1 < b.1 then true else if a.1 > b.1 then false
  else if a.2.1 != b.2.1 then !a.2.1
  else (!a.2.2) || b.2.2

def edgeLe (a b : EdgeV) : Bool :=
  if a.src != b.src then bytesLe a.src b.src
  else if a.dst != b.dst then bytesLe a.dst b.dst
  else tripleLe (labelKey a.label) (labelKey b.label)

/-- `CFG.deep_eq` -/
def cfgDeepEq (va vb : IRV) : Bool :=
  va.edges.length == vb.edges.length
  && allZip (fun a b => a.label == b.label
               && refDeepEq (va.findBlock a.src) (vb.findBlock b.src)
               && refDeepEq (va.findBlock a.dst) (vb.findBlock b.dst))
            (sortBy edgeLe va.edges) (sortBy edgeLe vb.edges)

/-- `IR.deep_eq` -/
def deepEq (a b : IRV) : Bool :=
  a.uuid == b.uuid && sameKeys a.aux b.aux
  && a.modules.length == b.modules.length
  && allZip (moduleDeepEq a b) (sortBy (fun x y => bytesLe x.uuid y.uuid) a.modules)
                               (sortBy (fun x y => bytesLe x.uuid y.uuid) b.modules)
  && a.version == b.version && cfgDeepEq a b

/-! #### the canonical form deep_eq is compared with -/

def canonInterval (x : IntervalV) : IntervalV :=
  { x with blocks := sortBy (fun a b => bytesLe a.uuid b.uuid) x.blocks,
           exprs := (sortBy (fun a b => decide (a.key ≤ b.key)) x.exprs).map
                      fun e => { e with attrs := sortNats e.attrs } }

def canonSection (s : SectionV) : SectionV :=
  { s with flags := sortNats s.flags,
           intervals := (sortBy (fun a b => bytesLe a.uuid b.uuid) s.intervals).map canonInterval }

def insertStr (x : String) : List String → List String
  | [] => [x]
  | y :: ys => if x ≤ y then x :: y :: ys else y :: insertStr x ys

/-- AuxData: keys only -/
def canonAux (l : List AuxV) : List AuxV :=
  ((l.map (·.key)).foldr insertStr []).map fun k => ⟨k, "", []⟩

def canonModule (m : ModuleV) : ModuleV :=
  { m with proxies := sortBy bytesLe m.proxies,
           sections := (sortBy (fun a b => bytesLe a.uuid b.uuid) m.sections).map canonSection,
           symbols := sortBy (fun a b => bytesLe a.uuid b.uuid) m.symbols,
           aux := canonAux m.aux }

def canon (v : IRV) : IRV :=
  { v with modules := (sortBy (fun a b => bytesLe a.uuid b.uuid) v.modules).map canonModule,
           edges := sortBy edgeLe v.edges,
           aux := canonAux v.aux }

end Gtirb.Msg
