import GtirbModel.Codec
import GtirbModel.CodecTyping
/-! Line protocol for model A (values travel as prefix-notation tokens). -/
namespace Gtirb.Codec

/-- print a value as tokens -/
partial def showVal : Val → String
  | .int n => s!"i {n}"
  | .bool b => if b then "b 1" else "b 0"
  | .f32 x => s!"f {x}"
  | .f64 x => s!"d {x}"
  | .str s => "s " ++ hexOfString s
  | .uuid u => "u " ++ hexOrDash u
  | .node id => s!"n {id}"
  | .offset e d => s!"o {showVal e} {d}"
  | .seq xs => s!"L {xs.length}" ++ String.join (xs.map fun x => " " ++ showVal x)
  | .set xs => s!"S {xs.length}" ++ String.join (xs.map fun x => " " ++ showVal x)
  | .map ks vs => s!"M {ks.length}" ++
      String.join ((ks.zip vs).map fun (k, v) => " " ++ showVal k ++ " " ++ showVal v)
  | .tuple xs => s!"T {xs.length}" ++ String.join (xs.map fun x => " " ++ showVal x)
  | .variant i v => s!"V {i} {showVal v}"

mutual
partial def readVal : List String → Option (Val × List String)
  | "i" :: n :: r => (n.toInt?).map fun k => (.int k, r)
  | "b" :: n :: r => some (.bool (n == "1"), r)
  | "f" :: n :: r => (n.toNat?).map fun k => (.f32 k, r)
  | "d" :: n :: r => (n.toNat?).map fun k => (.f64 k, r)
  | "s" :: h :: r => (stringOfHex h).map fun s => (.str s, r)
  | "u" :: h :: r => (bytesOfHex h).map fun u => (.uuid u, r)
  | "n" :: n :: r => (n.toNat?).map fun k => (.node k, r)
  | "o" :: r =>
    match readVal r with
    | some (e, d :: r') => (d.toNat?).map fun k => (.offset e k, r')
    | _ => none
  | "L" :: n :: r => (n.toNat?).bind fun k => (readVals k r).map fun (xs, r') => (.seq xs, r')
  | "S" :: n :: r => (n.toNat?).bind fun k => (readVals k r).map fun (xs, r') => (.set xs, r')
  | "T" :: n :: r => (n.toNat?).bind fun k => (readVals k r).map fun (xs, r') => (.tuple xs, r')
  | "M" :: n :: r =>
    (n.toNat?).bind fun k => (readVals (2 * k) r).map fun (xs, r') =>
      let rec split : List Val → List Val × List Val
        | a :: b :: t => let (ks, vs) := split t; (a :: ks, b :: vs)
        | _ => ([], [])
      let (ks, vs) := split xs
      (.map ks vs, r')
  | "V" :: n :: r =>
    (n.toNat?).bind fun k => (readVal r).map fun (v, r') => (.variant k v, r')
  | _ => none
partial def readVals : Nat → List String → Option (List Val × List String)
  | 0, r => some ([], r)
  | n + 1, r =>
    match readVal r with
    | some (v, r') => (readVals n r').map fun (vs, r'') => (v :: vs, r'')
    | none => none
end

/-- node table: (object id, uuid, attached to the IR whose `get_by_uuid` is used) -/
structure St where
  nodes : List (Nat × Bytes × Bool) := []

def St.nodeUuid (s : St) (id : Nat) : Bytes :=
  match s.nodes.find? (·.1 == id) with
  | some (_, u, _) => u
  | none => []

def St.lookup (s : St) (u : Bytes) : Option Nat :=
  (s.nodes.find? (fun e => e.2.2 && e.2.1 == u)).map (·.1)

def showRes {α} (f : α → String) : Res α → String
  | .ok a => "ok " ++ f a
  | .short => "short"
  | .badUtf8 => "badutf8"
  | .badIndex => "badindex"
  | .unknownCodec n => "unknown " ++ hexOfString n
  | .badArity => "unsupported"

def f32round (bits64 : Nat) : Nat :=
  (Float.ofBits (UInt64.ofNat bits64)).toFloat32.toBits.toNat

def f32widen (bits32 : Nat) : Nat :=
  (Float32.ofBits (UInt32.ofNat bits32)).toFloat.toBits.toNat

def driverStep (s : St) (line : String) : St × String :=
  match fields line with
  | ["reset"] => ({}, "ok")
  | ["node", id, u, att] =>
    match id.toNat?, bytesOfHex u with
    | some i, some b => ({ s with nodes := (i, b, att == "1") :: s.nodes }, "ok")
    | _, _ => (s, "bad-op")
  | "type" :: [t] =>
    match stringOfHex t with
    | none => (s, "bad-op")
    | some name =>
      match TypeName.parseType name.toList with
      | none => (s, "typename-error")
      | some tr => match tyOfTree tr with
        | none => (s, "unsupported")
        | some ty => (s, if arityOk ty then "ok" else "unsupported")
  | "enc" :: t :: vtoks =>
    match stringOfHex t with
    | none => (s, "bad-op")
    | some name =>
      match tyOfName name, readVal vtoks with
      | some ty, some (v, []) =>
        match encode s.nodeUuid ty v with
        | some bs => (s, "ok " ++ hexOrDash bs)
        | none => (s, "none")
      | none, _ => (s, "unsupported")
      | _, _ => (s, "bad-op")
  | "typed" :: t :: vtoks =>
    match stringOfHex t with
    | none => (s, "bad-op")
    | some name =>
      match tyOfName name, readVal vtoks with
      | some ty, some (v, []) => (s, if hasType s.lookup s.nodeUuid ty v then "1" else "0")
      | none, _ => (s, "unsupported")
      | _, _ => (s, "bad-op")
  | ["dec", t, h] =>
    match stringOfHex t, bytesOfHex h with
    | some name, some bs =>
      match tyOfName name with
      | some ty =>
        (s, showRes (fun (v, rest) => s!"{rest.length} {showVal v}") (decode s.lookup ty bs))
      | none => (s, "unsupported")
    | _, _ => (s, "bad-op")
  | ["f32round", b] =>
    match b.toNat? with
    | some k => (s, toString (f32round k))
    | none => (s, "bad-op")
  | ["f32widen", b] =>
    match b.toNat? with
    | some k => (s, toString (f32widen k))
    | none => (s, "bad-op")
  | ["strlen", h] =>
    match stringOfHex h with
    | some str => (s, s!"{str.length} {str.toUTF8.size}")
    | none => (s, "bad-op")
  | _ => (s, "bad-op")

end Gtirb.Codec
