import GtirbModel.Util
/-! Model C: the object graph of the Python API (containment forest, per-IR
UUID table, per-module symbol indexes).

The state mirrors the *mechanism* of the code: back-pointers
(`_ir/_module/_section/_byte_interval`), owning collections, the per-IR
`_local_uuid_cache` as a real table updated incrementally by the recursive
`_add_to_uuid_cache/_remove_from_uuid_cache`, and the per-module
`_symbol_name_index/_symbol_referent_index`. Primitives keep the sub-steps of
the methods the subclasses override, in source order (DESIGN.md Appendix B).

An operation returns `Except Exc G`. `Exc.keyError` etc. are the exceptions the
built-in would raise *before* any mutation; `Exc.cacheKeyError` is the
`KeyError` of `del cache[uuid]` (never raised in a reachable state: theorem);
`Exc.outside` marks inputs the model does not follow (the known finding K1:
module-list item/slice assignment of a module that is already elsewhere in
that list). -/
namespace Gtirb.Forest

inductive Kind where
  | ir | module | section | interval | code | data | proxy | symbol
  deriving DecidableEq, Repr, Inhabited

/-- owning collections -/
inductive Slot where
  | mods | secs | syms | proxies | bis | blocks
  deriving DecidableEq, Repr, Inhabited

inductive Payload where
  | none
  | int (n : Nat)
  | block (b : Nat)
  deriving DecidableEq, Repr, Inhabited

inductive Exc where
  | keyError | valueError | indexError
  | cacheKeyError
  | outside
  | badOp
  deriving DecidableEq, Repr

structure G where
  n : Nat := 0
  kind : Nat → Kind := fun _ => .ir
  uuid : Nat → Nat := fun _ => 0
  par : Nat → Option Nat := fun _ => none
  kids : Nat → Slot → List Nat := fun _ _ => []
  /-- `ir._local_uuid_cache` -/
  cache : Nat → Nat → Option Nat := fun _ _ => none
  /-- symbol name (names are small numbers on the wire) -/
  name : Nat → Nat := fun _ => 0
  payload : Nat → Payload := fun _ => .none
  /-- `module._symbol_name_index[name]` (absent key = empty) -/
  nameIdx : Nat → Nat → List Nat := fun _ _ => []
  /-- `module._symbol_referent_index[block]` -/
  refIdx : Nat → Nat → List Nat := fun _ _ => []

instance : Inhabited G := ⟨{}⟩

/-- the slot a node of this kind lives in, and the kind of its parent -/
def slotOf : Kind → Option Slot
  | .ir => none
  | .module => some .mods
  | .section => some .secs
  | .symbol => some .syms
  | .proxy => some .proxies
  | .interval => some .bis
  | .code => some .blocks
  | .data => some .blocks

def parentKind : Kind → Option Kind
  | .ir => none
  | .module => some .ir
  | .section | .symbol | .proxy => some .module
  | .interval => some .section
  | .code | .data => some .interval

/-! ### derived accessors, computed as the code computes them (chained) -/

/-- `.ir` of any node: follow back-pointers up to a fixed depth (rank <= 4) -/
def irOf (g : G) (x : Nat) : Option Nat :=
  match g.kind x with
  | .ir => some x
  | .module => g.par x
  | .section | .symbol | .proxy => (g.par x).bind g.par
  | .interval => ((g.par x).bind g.par).bind g.par
  | .code | .data => (((g.par x).bind g.par).bind g.par).bind g.par

/-- `.module` of a section-level or lower node -/
def moduleOf (g : G) (x : Nat) : Option Nat :=
  match g.kind x with
  | .ir => none
  | .module => some x
  | .section | .symbol | .proxy => g.par x
  | .interval => (g.par x).bind g.par
  | .code | .data => ((g.par x).bind g.par).bind g.par

/-! ### UUID table: recursive add / remove over the node's subtree -/

def cacheSet (g : G) (i u v : Nat) : G :=
  { g with cache := fun i' u' => if i' = i ∧ u' = u then some v else g.cache i' u' }

/-- `del cache[u]`: KeyError when absent -/
def cacheDel (g : G) (i u : Nat) : Except Exc G :=
  match g.cache i u with
  | none => .error .cacheKeyError
  | some _ => .ok { g with cache := fun i' u' => if i' = i ∧ u' = u then none else g.cache i' u' }

/-- leaves of the containment tree: blocks, proxies, symbols -/
def cacheAddLeaf (g : G) (i v : Nat) : G := cacheSet g i (g.uuid v) v

def cacheAddInterval (g : G) (i v : Nat) : G :=
  (g.kids v .blocks).foldl (fun g b => cacheAddLeaf g i b) (cacheSet g i (g.uuid v) v)

def cacheAddSection (g : G) (i v : Nat) : G :=
  (g.kids v .bis).foldl (fun g b => cacheAddInterval g i b) (cacheSet g i (g.uuid v) v)

/-- module: self, proxies, sections, symbols (source order) -/
def cacheAddModule (g : G) (i v : Nat) : G :=
  let g := cacheSet g i (g.uuid v) v
  let g := (g.kids v .proxies).foldl (fun g b => cacheAddLeaf g i b) g
  let g := (g.kids v .secs).foldl (fun g b => cacheAddSection g i b) g
  (g.kids v .syms).foldl (fun g b => cacheAddLeaf g i b) g

def cacheAdd (g : G) (i v : Nat) : G :=
  match g.kind v with
  | .module => cacheAddModule g i v
  | .section => cacheAddSection g i v
  | .interval => cacheAddInterval g i v
  | _ => cacheAddLeaf g i v

def foldE (f : G → Nat → Except Exc G) : List Nat → G → Except Exc G
  | [], g => .ok g
  | x :: xs, g =>
    match f g x with
    | .ok g' => foldE f xs g'
    | .error e => .error e

def cacheDelLeaf (g : G) (i v : Nat) : Except Exc G := cacheDel g i (g.uuid v)

def cacheDelInterval (g : G) (i v : Nat) : Except Exc G :=
  match cacheDel g i (g.uuid v) with
  | .ok g' => foldE (fun g b => cacheDelLeaf g i b) (g.kids v .blocks) g'
  | .error e => .error e

def cacheDelSection (g : G) (i v : Nat) : Except Exc G :=
  match cacheDel g i (g.uuid v) with
  | .ok g' => foldE (fun g b => cacheDelInterval g i b) (g.kids v .bis) g'
  | .error e => .error e

def cacheDelModule (g : G) (i v : Nat) : Except Exc G :=
  match cacheDel g i (g.uuid v) with
  | .error e => .error e
  | .ok g1 =>
    match foldE (fun g b => cacheDelLeaf g i b) (g.kids v .proxies) g1 with
    | .error e => .error e
    | .ok g2 =>
      match foldE (fun g b => cacheDelSection g i b) (g.kids v .secs) g2 with
      | .error e => .error e
      | .ok g3 => foldE (fun g b => cacheDelLeaf g i b) (g.kids v .syms) g3

def cacheRemove (g : G) (i v : Nat) : Except Exc G :=
  match g.kind v with
  | .module => cacheDelModule g i v
  | .section => cacheDelSection g i v
  | .interval => cacheDelInterval g i v
  | _ => cacheDelLeaf g i v

/-! ### symbol indexes (`Module._index_add/_index_discard`) -/

def setInsertNat (xs : List Nat) (x : Nat) : List Nat := if x ∈ xs then xs else xs ++ [x]

def symIndexAdd (g : G) (m v : Nat) : G :=
  if g.kind v = .symbol then
    let g1 := { g with nameIdx := fun m' k => if m' = m ∧ k = g.name v
                                              then setInsertNat (g.nameIdx m k) v else g.nameIdx m' k }
    match g.payload v with
    | .block b => { g1 with refIdx := fun m' k => if m' = m ∧ k = b
                                                  then setInsertNat (g1.refIdx m k) v else g1.refIdx m' k }
    | _ => g1
  else g

def symIndexDiscard (g : G) (m v : Nat) : G :=
  if g.kind v = .symbol then
    let g1 := { g with nameIdx := fun m' k => if m' = m ∧ k = g.name v
                                              then (g.nameIdx m k).erase v else g.nameIdx m' k }
    match g.payload v with
    | .block b => { g1 with refIdx := fun m' k => if m' = m ∧ k = b
                                                  then (g1.refIdx m k).erase v else g1.refIdx m' k }
    | _ => g1
  else g

/-! ### primitive owning-collection methods -/

def setPar (g : G) (v : Nat) (p : Option Nat) : G :=
  { g with par := fun x => if x = v then p else g.par x }

def kidsErase (g : G) (p : Nat) (s : Slot) (v : Nat) : G :=
  { g with kids := fun p' s' => if p' = p ∧ s' = s then (g.kids p s).erase v else g.kids p' s' }

def kidsInsert (g : G) (p : Nat) (s : Slot) (v : Nat) : G :=
  { g with kids := fun p' s' => if p' = p ∧ s' = s then setInsertNat (g.kids p s) v else g.kids p' s' }

def kidsSet (g : G) (p : Nat) (s : Slot) (l : List Nat) : G :=
  { g with kids := fun p' s' => if p' = p ∧ s' = s then l else g.kids p' s' }

/-- `Module._NodeSet.discard`: member test; `_module = None`; index discard;
cache remove if the module is in an IR; erase. Same shape for
`Section._ByteIntervalSet.discard` and `ByteInterval._BlockSet.discard`
(their lazy interval indexes are in model D). -/
def setDiscard (g : G) (p : Nat) (s : Slot) (v : Nat) : Except Exc G :=
  if v ∈ g.kids p s then
    let g1 := setPar g v none
    let g2 := if s = .secs ∨ s = .syms ∨ s = .proxies then symIndexDiscard g1 p v else g1
    match irOf g2 p with
    | some i =>
      match cacheRemove g2 i v with
      | .ok g3 => .ok (kidsErase g3 p s v)
      | .error e => .error e
    | none => .ok (kidsErase g2 p s v)
  else .ok g

/-- `Module._NodeSet.add` / `Section._ByteIntervalSet.add`: detach from the
previous owner (through *its* wrapper's discard), set the back-pointer, index
add, cache add if attached to an IR, insert. -/
def setAdd (g : G) (p : Nat) (s : Slot) (v : Nat) : Except Exc G :=
  match (match g.par v with
         | some q => setDiscard g q s v
         | none => .ok g) with
  | .error e => .error e
  | .ok g1 =>
    let g2 := setPar g1 v (some p)
    let g3 := if s = .secs ∨ s = .syms ∨ s = .proxies then symIndexAdd g2 p v else g2
    let g4 := match irOf g3 p with
      | some i => cacheAdd g3 i v
      | none => g3
    .ok (kidsInsert g4 p s v)

/-- `ByteInterval._BlockSet.update`: the IR is read once; elements already
present are skipped; each new one is detached from its previous interval,
re-pointed, cached; then all are inserted. -/
def blkUpdate (g : G) (p : Nat) (vs : List Nat) : Except Exc G :=
  let ir := irOf g p
  let new := (vs.eraseDups).filter (fun v => !(v ∈ g.kids p .blocks))
  match foldE (fun g v =>
      match (match g.par v with
             | some q => setDiscard g q .blocks v
             | none => .ok g) with
      | .error e => .error e
      | .ok g1 =>
        let g2 := setPar g1 v (some p)
        .ok (match ir with
             | some i => cacheAdd g2 i v
             | none => g2)) new g with
  | .error e => .error e
  | .ok g' => .ok (new.foldl (fun g v => kidsInsert g p .blocks v) g')

/-- `add` on any node set -/
def nodeSetAdd (g : G) (p : Nat) (s : Slot) (v : Nat) : Except Exc G :=
  if s = .blocks then blkUpdate g p [v] else setAdd g p s v

/-! ### the module list (`IR._ModuleList` over `ListWrapper`) -/

/-- `_remove` hook: `v._ir = None`; cache remove -/
def modHookRemove (g : G) (i v : Nat) : Except Exc G :=
  cacheRemove (setPar g v none) i v

/-- `ListWrapper.remove(v)` = `del self[self._data.index(v)]` -/
def modListRemove (g : G) (i v : Nat) : Except Exc G :=
  if v ∈ g.kids i .mods then
    match modHookRemove g i v with
    | .ok g1 => .ok (kidsSet g1 i .mods ((g1.kids i .mods).erase v))
    | .error e => .error e
  else .error .valueError

/-- `_add` hook: leave the previous IR's list, `v._ir = self`, cache add -/
def modHookAdd (g : G) (i v : Nat) : Except Exc G :=
  match (match g.par v with
         | some j => modListRemove g j v
         | none => .ok g) with
  | .error e => .error e
  | .ok g1 => .ok (cacheAdd (setPar g1 v (some i)) i v)

/-- `list.insert(k, v)` on a plain list, Python index rules (negative from the
end, clamped) -/
def pyInsert (l : List Nat) (k : Int) (v : Nat) : List Nat :=
  let len : Int := l.length
  let k' : Int := if k < 0 then (if k + len < 0 then 0 else k + len) else (if k > len then len else k)
  l.take k'.toNat ++ v :: l.drop k'.toNat

/-- `ListWrapper.insert(k, v)`: hook, then insert into the (possibly shortened) list -/
def modInsert (g : G) (i : Nat) (k : Int) (v : Nat) : Except Exc G :=
  match modHookAdd g i v with
  | .ok g1 => .ok (kidsSet g1 i .mods (pyInsert (g1.kids i .mods) k v))
  | .error e => .error e

/-- `append(v)` = `insert(len(self), v)` with the length read before the hook -/
def modAppend (g : G) (i v : Nat) : Except Exc G :=
  modInsert g i (g.kids i .mods).length v

/-- normalise a Python int index; `none` = IndexError -/
def pyIndex (len : Nat) (k : Int) : Option Nat :=
  if 0 ≤ k ∧ k < len then some k.toNat
  else if k < 0 ∧ 0 ≤ k + len then some (k + len).toNat
  else none

/-- `del self[k]` -/
def modDelItem (g : G) (i : Nat) (k : Int) : Except Exc G :=
  match pyIndex (g.kids i .mods).length k with
  | none => .error .indexError
  | some idx =>
    match (g.kids i .mods)[idx]? with
    | none => .error .indexError
    | some v =>
      match modHookRemove g i v with
      | .ok g1 => .ok (kidsSet g1 i .mods ((g1.kids i .mods).eraseIdx idx))
      | .error e => .error e

/-- `self[k] = v`. Outside the model (known finding K1) when `v` is already in
this list at another position. -/
def modSetItem (g : G) (i : Nat) (k : Int) (v : Nat) : Except Exc G :=
  match pyIndex (g.kids i .mods).length k with
  | none => .error .indexError
  | some idx =>
    match (g.kids i .mods)[idx]? with
    | none => .error .indexError
    | some old =>
      if v ∈ g.kids i .mods ∧ v ≠ old then .error .outside
      else
        match modHookRemove g i old with
        | .error e => .error e
        | .ok g1 =>
          match modHookAdd g1 i v with
          | .error e => .error e
          | .ok g2 => .ok (kidsSet g2 i .mods ((g2.kids i .mods).set idx v))

/-- `reverse()` (after the fix: reorders `_data` in place) -/
def modReverse (g : G) (i : Nat) : G := kidsSet g i .mods (g.kids i .mods).reverse

/-! ### public operations -/

/-- parent setter of every kind: `if old: old.<coll>.discard/remove(self)`;
`if new: new.<coll>.add/append(self)` -/
def setParent (g : G) (c : Nat) (p : Option Nat) : Except Exc G :=
  match slotOf (g.kind c) with
  | none => .error .badOp
  | some s =>
    match (match g.par c with
           | some q => if s = Slot.mods then modListRemove g q c else setDiscard g q s c
           | none => .ok g) with
    | .error e => .error e
    | .ok g1 =>
      match p with
      | none => .ok g1
      | some p' => if s = Slot.mods then modAppend g1 p' c else nodeSetAdd g1 p' s c

/-- `_IndexedAttribute` setter for `Symbol.name` -/
def setName (g : G) (v nm : Nat) : G :=
  let g1 := match g.par v with
    | some m => symIndexDiscard g m v
    | none => g
  let g2 := { g1 with name := fun x => if x = v then nm else g1.name x }
  match g2.par v with
  | some m => symIndexAdd g2 m v
  | none => g2

/-- `_IndexedAttribute` setter for `Symbol._payload` (referent= / value=) -/
def setPayload (g : G) (v : Nat) (pl : Payload) : G :=
  let g1 := match g.par v with
    | some m => symIndexDiscard g m v
    | none => g
  let g2 := { g1 with payload := fun x => if x = v then pl else g1.payload x }
  match g2.par v with
  | some m => symIndexAdd g2 m v
  | none => g2

/-- allocate a detached node -/
def alloc (g : G) (k : Kind) (u : Nat) : G × Nat :=
  ({ g with n := g.n + 1,
            kind := fun x => if x = g.n then k else g.kind x,
            uuid := fun x => if x = g.n then u else g.uuid x,
            par := fun x => if x = g.n then none else g.par x,
            kids := fun x s => if x = g.n then [] else g.kids x s }, g.n)

/-- `IR.__init__`: registers itself in its own table -/
def mkIR (g : G) (u : Nat) : G :=
  let (g1, i) := alloc g .ir u
  cacheSet { g1 with cache := fun i' u' => if i' = i then none else g1.cache i' u' } i u i

inductive Op where
  | mkIR (u : Nat)
  /-- constructor of a non-IR node: children arguments first, then the parent setter -/
  | mk (k : Kind) (u : Nat) (kids : List (Slot × List Nat)) (parent : Option Nat)
  | mkSym (u nm : Nat) (pl : Payload) (parent : Option Nat)
  | setParent (c : Nat) (p : Option Nat)
  | add (p : Nat) (s : Slot) (v : Nat)
  | discard (p : Nat) (s : Slot) (v : Nat)
  | remove (p : Nat) (s : Slot) (v : Nat)
  /-- `pop()` / `clear()`: the implementation reports its iteration order -/
  | pop (p : Nat) (s : Slot) (v : Nat)
  | clear (p : Nat) (s : Slot) (order : List Nat)
  | update (p : Nat) (s : Slot) (vs : List Nat)      -- also `|=`
  | isub (p : Nat) (s : Slot) (vs : List Nat)
  | iand (p : Nat) (s : Slot) (vs : List Nat) (order : List Nat)
  | ixor (p : Nat) (s : Slot) (vs : List Nat)
  | insert (i : Nat) (k : Int) (v : Nat)
  | append (i v : Nat)
  | extend (i : Nat) (vs : List Nat)                 -- also `+=`
  | delItem (i : Nat) (k : Int)
  | setItem (i : Nat) (k : Int) (v : Nat)
  | listRemove (i v : Nat)
  | listPop (i : Nat) (k : Int)
  | reverse (i : Nat)
  | listClear (i : Nat)
  | setName (v nm : Nat)
  | setPayload (v : Nat) (pl : Payload)
  deriving Repr

def bindE (x : Except Exc G) (f : G → Except Exc G) : Except Exc G :=
  match x with
  | .ok g => f g
  | .error e => .error e

/-- `ListWrapper` / `MutableSequence.clear`: pop from the end until empty -/
def modClear (g : G) (i : Nat) : Except Exc G :=
  foldE (fun g _ => modDelItem g i (-1)) (g.kids i .mods) g

def sameMembers (a b : List Nat) : Bool := a.all (· ∈ b) && b.all (· ∈ a) && a.length == b.length

def step (g : G) : Op → Except Exc G
  | .mkIR u => .ok (mkIR g u)
  | .mk k u kids parent =>
    if k = .ir ∨ k = .symbol then .error .badOp else
    let (g1, v) := alloc g k u
    bindE (kids.foldl (fun acc (s, vs) =>
             bindE acc fun g =>
               if s = .blocks then blkUpdate g v vs
               else foldE (fun g x => setAdd g v s x) vs g) (.ok g1))
      fun g2 => match parent with
        | some p => setParent g2 v (some p)
        | none => .ok g2
  | .mkSym u nm pl parent =>
    let (g1, v) := alloc g .symbol u
    let g2 := { g1 with name := fun x => if x = v then nm else g1.name x,
                        payload := fun x => if x = v then pl else g1.payload x }
    match parent with
    | some p => setParent g2 v (some p)
    | none => .ok g2
  | .setParent c p => setParent g c p
  | .add p s v => nodeSetAdd g p s v
  | .discard p s v => setDiscard g p s v
  | .remove p s v => if v ∈ g.kids p s then setDiscard g p s v else .error .keyError
  | .pop p s v =>
    if (g.kids p s).isEmpty then .error .keyError
    else if v ∈ g.kids p s then setDiscard g p s v else .error .badOp
  | .clear p s order =>
    if sameMembers order (g.kids p s) then foldE (fun g v => setDiscard g p s v) order g
    else .error .badOp
  | .update p s vs =>
    if s = .blocks then blkUpdate g p vs else foldE (fun g v => setAdd g p s v) vs g
  | .isub p s vs => foldE (fun g v => setDiscard g p s v) vs g
  | .iand p s vs order =>
    -- `for value in (self - it): self.discard(value)`; the order of the
    -- difference is the implementation's
    let diff := (g.kids p s).filter (fun x => !(x ∈ vs))
    if sameMembers order diff then foldE (fun g v => setDiscard g p s v) order g
    else .error .badOp
  | .ixor p s vs =>
    foldE (fun g v => if v ∈ g.kids p s then setDiscard g p s v else nodeSetAdd g p s v) vs g
  | .insert i k v => modInsert g i k v
  | .append i v => modAppend g i v
  | .extend i vs => foldE (fun g v => modAppend g i v) vs g
  | .delItem i k => modDelItem g i k
  | .setItem i k v => modSetItem g i k v
  | .listRemove i v => modListRemove g i v
  | .listPop i k =>
    -- `v = self[k]; del self[k]`
    match pyIndex (g.kids i .mods).length k with
    | none => .error .indexError
    | some _ => modDelItem g i k
  | .reverse i => .ok (modReverse g i)
  | .listClear i => modClear g i
  | .setName v nm => .ok (setName g v nm)
  | .setPayload v pl => .ok (setPayload g v pl)

/-! ### lookups, as the code answers them -/

def getByUuid (g : G) (i u : Nat) : Option Nat := g.cache i u

def symbolsNamed (g : G) (m nm : Nat) : List Nat := g.nameIdx m nm

/-- `Block.references`: nothing without a module -/
def references (g : G) (b : Nat) : List Nat :=
  match moduleOf g b with
  | some m => g.refIdx m b
  | none => []

/-! ### the scan the lookups are compared with (specification side) -/

/-- all nodes reachable from IR `i` through containment, computed from the
owning collections only -/
def reachable (g : G) (i : Nat) : List Nat :=
  let mods := g.kids i .mods
  let secs := mods.flatMap (g.kids · .secs)
  let bis := secs.flatMap (g.kids · .bis)
  i :: mods ++ mods.flatMap (g.kids · .proxies) ++ secs ++ mods.flatMap (g.kids · .syms)
    ++ bis ++ bis.flatMap (g.kids · .blocks)

def scanByUuid (g : G) (i u : Nat) : List Nat := (reachable g i).filter (g.uuid · = u)

end Gtirb.Forest
