import GtirbModel.Util
/-! Model W, layer 1: the protobuf wire format as far as GTIRB files use it
(varint, 64-bit, length-delimited, 32-bit; tags; a message as a sequence of
fields).  `google.protobuf` itself is third-party code: this model is what the
file-level theorems (`C01_roundtrip_bytes`, `C17_*_bytes`) instantiate the
formerly abstract `parse` / `serialize` pair with, and the `pbwire` driver
ties it to both protobuf back ends on every file the streams produce.

Groups (wire types 3 and 4) and wire types 6, 7 are rejected (`none`);
GTIRB's schema has no groups, and a file containing them is only reachable by
corruption (the tie counts such inputs as outside the model). -/
namespace Gtirb.Pb

/-- base-128 varint, least significant group first, minimal length -/
def encVarint (n : Nat) : Bytes :=
  if n < 128 then [UInt8.ofNat n]
  else UInt8.ofNat (n % 128 + 128) :: encVarint (n / 128)
termination_by n
decreasing_by omega

/-- read a varint of at most `fuel` bytes (no truncation here) -/
def decVarintAux : Nat → Bytes → Option (Nat × Bytes)
  | 0, _ => none
  | _, [] => none
  | fuel + 1, b :: rest =>
    if b.toNat < 128 then some (b.toNat, rest)
    else
      match decVarintAux fuel rest with
      | some (hi, rest') => some (b.toNat - 128 + 128 * hi, rest')
      | none => none

/-- a varint on the wire is at most ten bytes and is taken modulo 2^64 -/
def decVarint (bs : Bytes) : Option (Nat × Bytes) :=
  match decVarintAux 10 bs with
  | some (n, rest) => some (n % 2 ^ 64, rest)
  | none => none

/-- one field value as the wire sees it -/
inductive WVal where
  | varint (n : Nat)          -- wire type 0
  | i64 (bs : Bytes)          -- wire type 1: eight bytes, little-endian
  | len (bs : Bytes)          -- wire type 2: strings, bytes, sub-messages, packed
  | i32 (bs : Bytes)          -- wire type 5: four bytes
  deriving DecidableEq, Repr

/-- a message as the wire sees it: (field number, value) in wire order -/
abbrev WMsg := List (Nat × WVal)

def wireType : WVal → Nat
  | .varint _ => 0
  | .i64 _ => 1
  | .len _ => 2
  | .i32 _ => 5

def encVal : WVal → Bytes
  | .varint n => encVarint n
  | .i64 bs => bs
  | .len bs => encVarint bs.length ++ bs
  | .i32 bs => bs

def encField (f : Nat × WVal) : Bytes :=
  encVarint (f.1 * 8 + wireType f.2) ++ encVal f.2

def encodeW (m : WMsg) : Bytes := m.flatMap encField

/-- what a field may look like: the serializer's range -/
def WVal.wf : WVal → Bool
  | .varint n => n < 2 ^ 64
  | .i64 bs => bs.length == 8
  | .len bs => bs.length < 2 ^ 64
  | .i32 bs => bs.length == 4

def fieldWf (f : Nat × WVal) : Bool := 0 < f.1 && f.1 < 2 ^ 29 && f.2.wf

def WMsg.wf (m : WMsg) : Bool := m.all fieldWf

/-- one field off the front of a byte string -/
def decField (bs : Bytes) : Option ((Nat × WVal) × Bytes) :=
  match decVarint bs with
  | none => none
  | some (tag, rest) =>
    let fno := tag / 8
    if fno = 0 then none
    else
      match tag % 8 with
      | 0 =>
        match decVarint rest with
        | some (n, rest') => some ((fno, .varint n), rest')
        | none => none
      | 1 => if rest.length < 8 then none else some ((fno, .i64 (rest.take 8)), rest.drop 8)
      | 2 =>
        match decVarint rest with
        | some (n, rest') =>
          if rest'.length < n then none else some ((fno, .len (rest'.take n)), rest'.drop n)
        | none => none
      | 5 => if rest.length < 4 then none else some ((fno, .i32 (rest.take 4)), rest.drop 4)
      | _ => none

/-- all fields of a byte string (`fuel` bounds the number of fields; every
field consumes at least one byte, so `bs.length` suffices) -/
def decodeWAux : Nat → Bytes → Option WMsg
  | _, [] => some []
  | 0, _ :: _ => none
  | fuel + 1, b :: bs =>
    match decField (b :: bs) with
    | none => none
    | some (f, rest) =>
      match decodeWAux fuel rest with
      | some fs => some (f :: fs)
      | none => none

def decodeW (bs : Bytes) : Option WMsg := decodeWAux bs.length bs

/-! ### helpers used by the message layer -/

/-- unsigned view of a signed 64-bit field (`int64`, `int32` and enums are
written as the 64-bit two's complement) -/
def ofInt64 (i : Int) : Nat := (i % (2 ^ 64 : Int)).toNat

def toInt64 (n : Nat) : Int :=
  if n < 2 ^ 63 then (n : Int) else (n : Int) - (2 ^ 64 : Int)

/-- first / last value of a field number -/
def getAll (m : WMsg) (fno : Nat) : List WVal :=
  (m.filter (·.1 == fno)).map (·.2)

def getLast (m : WMsg) (fno : Nat) : Option WVal := (getAll m fno).getLast?

end Gtirb.Pb
