import GtirbModel.Index
/-! Model D, continued: the `code_*` / `data_*` variants of the block lookups and
node creation as a step of a history.

`code_blocks_on`, `data_blocks_at`, `code_blocks_on_offset`, ... of
`ByteInterval` / `Section` (byteinterval.py:471-600, section.py:309-367) are the
corresponding `byte_blocks_*` generator filtered with `isinstance(b, CodeBlock)`
/ `isinstance(b, DataBlock)`; `Module` / `IR` chain the per-section (per-module)
filtered generators (module.py:524-575, ir.py:354-405). The class of a block
never changes, so the filter reads a constant of the block: `Blk.isCode`.

Creation: the driver lines `blk` / `bi` / `sec` of `Index.lean` append a fresh
detached node (no parent, empty lazy index, no event recorded: the constructors
attach through the parent setter afterwards, i.e. through `blkMove` / `biMove`).
Here the same three steps are functions on `D` that do nothing when the id is
already in use (an id is a Python object identity: it cannot be created twice),
and they are added to the edits of a history. Pure definitions only. -/
namespace Gtirb.Index

/-! ### code / data variants -/

/-- `(b for b in <lookup result> if isinstance(b, CodeBlock))` for `code = true`,
`... DataBlock` for `code = false`; an id that names no block is dropped -/
def kindOnly (d : D) (code : Bool) (l : List Nat) : List Nat :=
  l.filter fun b => (d.blk? b).map (·.isCode) == some code

/-- a lookup with the kind filter put on its answer (`ByteInterval.code_blocks_on`
from `byte_blocks_on`, `Section.data_blocks_at` from `byte_blocks_at`, ...) -/
def kinded (f : D → Nat → D × List Nat) (code : Bool) (d : D) (x : Nat) : D × List Nat :=
  let (d', l) := f d x; (d', kindOnly d' code l)

/-! ### creation -/

/-- `CodeBlock(offset=o, size=z)` / `DataBlock(...)`: a fresh detached block -/
def newBlk (d : D) (i : Nat) (code : Bool) (o z : Nat) : D :=
  if (d.blk? i).isSome then d else { d with blks := d.blks ++ [⟨i, code, o, z, none⟩] }

/-- `ByteInterval(address=a, size=z)`: a fresh detached interval with an empty block index -/
def newBI (d : D) (i : Nat) (a : Option Nat) (z : Nat) : D :=
  if (d.bi? i).isSome then d
  else { d with bis := d.bis ++ [{ id := i, addr := a, size := z, sec := none }] }

/-- `Section(...)`: a fresh section with an empty interval index -/
def newSec (d : D) (i : Nat) : D :=
  if (d.sec? i).isSome then d else { d with secs := d.secs ++ [{ id := i }] }

/-- the steps of a history that change the structure: the four attribute /
membership edits of `Edit`, and the three creations -/
inductive EditC where
  | base (e : Edit)
  | newBlk (i : Nat) (code : Bool) (o z : Nat)
  | newBI (i : Nat) (a : Option Nat) (z : Nat)
  | newSec (i : Nat)
  deriving Repr

def applyEditC (d : D) : EditC → D
  | .base e => applyEdit d e
  | .newBlk i c o z => newBlk d i c o z
  | .newBI i a z => newBI d i a z
  | .newSec i => newSec d i

/-- a step of a history with creation: a structural step, or one of the nine
lookups of `Query` with the answer thrown away -/
inductive ActC where
  | edit (e : EditC)
  | look (q : Query)
  deriving Repr

def execC (d : D) (acts : List ActC) : D :=
  acts.foldl (fun d a => match a with
    | .edit e => applyEditC d e
    | .look q => (runQuery d q).1) d

def editsOfC (acts : List ActC) : List EditC :=
  acts.filterMap fun a => match a with | .edit e => some e | .look _ => none

/-- a history without creation, as a history with creation -/
def Act.toC : Act → ActC
  | .edit e => .edit (.base e)
  | .look q => .look q

end Gtirb.Index
