import GtirbModel.Forest
/-! Slice deletion and slice assignment on `ir.modules` (`ListWrapper.__delitem__` /
`__setitem__` with a `slice`), expressed over model C as the *sequence of existing
operations* the verification harness shows the model:

* `indices = range(*i.indices(len(self)))` (`sliceIndices`, `rangeList`, `sliceSelected`);
* `del ir.modules[slice]`: `Op.delItem` of every selected position, from the highest
  position down (`delSliceOps`);
* `ir.modules[slice] = vs`: the same deletions, then `Op.insert` of the new values: at
  `start, start+1, ...` for a plain slice (step 1), at every selected position in increasing
  order for an extended slice of matching length (`setSliceOps`).

`sliceIndices` transcribes CPython's `slice.indices` (`_PySlice_GetLongIndices`; the same
result as `PySlice_Unpack` + `PySlice_AdjustIndices`). The theorems that these sequences
compute the built-in list operations are in `GtirbProofs/Props/C16Slices.lean`. -/
namespace Gtirb.Forest

/-- one bound of `slice.indices`: a negative value counts from the end and is clamped to
`lower`, a non-negative one is clamped to `upper` -/
def sliceAdjust (len lower upper x : Int) : Int :=
  if x < 0 then (if x + len < lower then lower else x + len)
  else (if x > upper then upper else x)

/-- CPython's `slice.indices(len)`: `(start, stop, step)` normalised; `none` components are
Python's `None`; step = 0 is a `ValueError` (`none`). For step > 0 the bounds are clamped to
`[0, len]` (defaults `0`, `len`), for step < 0 to `[-1, len - 1]` (defaults `len - 1`, `-1`). -/
def sliceIndices (len : Nat) (start stop : Option Int) (step : Option Int) : Option (Int × Int × Int) :=
  let st : Int := match step with
    | none => 1
    | some s => s
  if st = 0 then none
  else
    let lower : Int := if st < 0 then -1 else 0
    let upper : Int := if st < 0 then (len : Int) - 1 else (len : Int)
    let a : Int := match start with
      | none => if st < 0 then upper else lower
      | some x => sliceAdjust len lower upper x
    let b : Int := match stop with
      | none => if st < 0 then lower else upper
      | some x => sliceAdjust len lower upper x
    some (a, b, st)

/-- `len(range(start, stop, step))` -/
def rangeLen (start stop step : Int) : Nat :=
  if 0 < step ∧ start < stop then ((stop - start - 1) / step + 1).toNat
  else if step < 0 ∧ stop < start then ((start - stop - 1) / (-step) + 1).toNat
  else 0

/-- `range(start, stop, step)` as a list of list positions (all within `0..len-1` for a
normalised slice) -/
def rangeList (start stop step : Int) : List Nat :=
  (List.range (rangeLen start stop step)).map (fun (k : Nat) => (start + (k : Int) * step).toNat)

/-- the positions a slice selects in a list of length `len`, in `range` order -/
def sliceSelected (len : Nat) (start stop step : Option Int) : Option (List Nat) :=
  match sliceIndices len start stop step with
  | none => none
  | some (a, b, st) => some (rangeList a b st)

/-- positions in decreasing order -/
def sortDesc (sel : List Nat) : List Nat := sel.mergeSort (fun a b => decide (b ≤ a))

/-- `del ir.modules[slice]` as the sequence of existing operations the harness emits: delete
the selected positions from the highest down -/
def delSliceOps (i : Nat) (sel : List Nat) : List Op :=
  (sortDesc sel).map (fun (k : Nat) => Op.delItem i (k : Int))

/-- insert the values one after the other, starting at position `a` -/
def insSeqOps (i : Nat) : Nat → List Nat → List Op
  | _, [] => []
  | a, v :: vs => Op.insert i (a : Int) v :: insSeqOps i (a + 1) vs

/-- insert each value at its position -/
def insAtOps (i : Nat) (pairs : List (Nat × Nat)) : List Op :=
  pairs.map (fun (pv : Nat × Nat) => Op.insert i (pv.1 : Int) pv.2)

/-- the (position, value) pairs of an extended-slice assignment in increasing order of position:
`sorted(zip(indices, vs))`; a range is monotone, so this is `zip` itself for a positive and its
reverse for a negative step -/
def extPairs (st : Int) (sel vs : List Nat) : List (Nat × Nat) :=
  if 0 < st then sel.zip vs else (sel.zip vs).reverse

/-- `ir.modules[slice] = vs`: deletions as above, then insertions; `none` for an extended slice
whose length does not match (`ValueError` in Python *after* the hooks ran: known finding K1,
outside the model) and for step 0 (`ValueError` of `slice.indices`) -/
def setSliceOps (i : Nat) (len : Nat) (start stop step : Option Int) (vs : List Nat) : Option (List Op) :=
  match sliceIndices len start stop step with
  | none => none
  | some (a, b, st) =>
    let sel := rangeList a b st
    if st = 1 then some (delSliceOps i sel ++ insSeqOps i a.toNat vs)
    else if vs.length = sel.length then some (delSliceOps i sel ++ insAtOps i (extPairs st sel vs))
    else none

/-- `del ir.modules[slice]` from the slice itself -/
def delSliceOpsOf (i : Nat) (len : Nat) (start stop step : Option Int) : Option (List Op) :=
  match sliceSelected len start stop step with
  | none => none
  | some sel => some (delSliceOps i sel)

/-- run a list of operations, failing at the first error -/
def runE (g : G) : List Op → Except Exc G
  | [] => .ok g
  | op :: ops =>
    match step g op with
    | .ok g' => runE g' ops
    | .error e => .error e

end Gtirb.Forest
