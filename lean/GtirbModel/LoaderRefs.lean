import GtirbModel.Loader
/-! The staged decoder of `Loader.lean`, additionally *recording* the references it resolves.

`Loader.load` checks module entry points, the symbols of symbolic expressions and CFG edge endpoints
through the IR's UUID table (`refKind` / `checkAll`) and then drops them: the object graph `G` has no
field for them. The Python loader keeps what the table answered at that moment
(`Module._decode_protobuf`: `self.entry_point = ir.get_by_uuid(...)`; `SymbolicExpression._from_protobuf`;
`CFG._from_protobuf`). `loadR` performs exactly the steps of `load` (`C09_loadR_load`:
it projects onto `load`) and returns, besides the state and the new IR, the node each such reference
resolved to - looked up in the table as filled so far, exactly where `refKind` / `checkAll` consult it.
Symbol referents need no record: `decodeSymbol` stores the resolved node in `G.payload`. -/
namespace Gtirb.Loader
open Gtirb.Forest

/-- what the loader stored for the references that `G` has no field for -/
structure Refs where
  /-- (module node, code-block node): `module.entry_point` -/
  entries : List (Nat × Nat) := []
  /-- (module node, symbol node), in message order: the symbols of the module's symbolic expressions -/
  exprSyms : List (Nat × Nat) := []
  /-- (source node, target node): CFG edges, in message order -/
  edges : List (Nat × Nat) := []
  deriving Repr, DecidableEq

def Refs.append (a b : Refs) : Refs :=
  { entries := a.entries ++ b.entries, exprSyms := a.exprSyms ++ b.exprSyms, edges := a.edges ++ b.edges }

/-- `refKind`, returning the node the table answers -/
def resolve (g : G) (ir : Nat) (ok : Kind → Bool) (u : Nat) : Except LErr Nat :=
  match g.cache ir u with
  | some n => if ok (g.kind n) then .ok n else .error .deser
  | none => .error .deser

/-- `checkAll`, returning the nodes -/
def resolveAll (g : G) (ir : Nat) (ok : Kind → Bool) : List Nat → Except LErr (List Nat)
  | [] => .ok []
  | u :: us =>
    match resolve g ir ok u with
    | .error e => .error e
    | .ok n =>
      match resolveAll g ir ok us with
      | .error e => .error e
      | .ok ns => .ok (n :: ns)

/-- `checkAll` over both ends of every edge, returning the pairs -/
def resolveEdges (g : G) (ir : Nat) (ok : Kind → Bool) : List (Nat × Nat) → Except LErr (List (Nat × Nat))
  | [] => .ok []
  | e :: es =>
    match resolve g ir ok e.1 with
    | .error x => .error x
    | .ok a =>
      match resolve g ir ok e.2 with
      | .error x => .error x
      | .ok b =>
        match resolveEdges g ir ok es with
        | .error x => .error x
        | .ok r => .ok ((a, b) :: r)

/-- `Module._decode_protobuf` of a fresh module `v = g.n` up to the point where the entry point is
resolved: allocate, register, proxies, sections -/
def moduleHead (g : G) (ir : Nat) (m : SkModule) : Except LErr G :=
  let g2 := cacheSet (alloc g .module m.uuid).1 ir m.uuid g.n
  match decodeAttach decodeProxy ir g.n .proxies g2 m.proxies with
  | .error e => .error e
  | .ok g4 => decodeAttach decodeSection ir g.n .secs g4 m.sections

/-- `decodeModule`, recording the entry point and the expression symbols (a module message whose UUID is
already in the table is not decoded, so it records nothing) -/
def decodeModuleR (g : G) (ir : Nat) (m : SkModule) : Except LErr (G × Nat × Refs) :=
  match fromProto g ir .module m.uuid with
  | .error e => .error e
  | .ok (g1, v, fresh) =>
    if !fresh then .ok (g1, v, {}) else
    let g2 := cacheSet g1 ir m.uuid v
    match decodeAttach decodeProxy ir v .proxies g2 m.proxies with
    | .error e => .error e
    | .ok g4 =>
      match decodeAttach decodeSection ir v .secs g4 m.sections with
      | .error e => .error e
      | .ok g6 =>
        match (match m.entry with
               | none => (.ok [] : Except LErr (List (Nat × Nat)))
               | some u =>
                 match resolve g6 ir (fun k => k == Kind.code) u with
                 | .error e => .error e
                 | .ok n => .ok [(v, n)]) with
        | .error e => .error e
        | .ok es =>
          match decodeAttach decodeSymbol ir v .syms g6 m.symbols with
          | .error e => .error e
          | .ok g8 =>
            match resolveAll g8 ir (fun k => k == Kind.symbol) m.exprSyms with
            | .error e => .error e
            | .ok ns => .ok (g8, v, { entries := es, exprSyms := ns.map (fun n => (v, n)) })

def decodeModulesR (ir : Nat) : G → List SkModule → Except LErr (G × Refs)
  | g, [] => .ok (g, {})
  | g, m :: ms =>
    match decodeModuleR g ir m with
    | .error e => .error e
    | .ok (g1, v, r1) =>
      match liftE (modAppend g1 ir v) with
      | .error e => .error e
      | .ok g2 =>
        match decodeModulesR ir g2 ms with
        | .error e => .error e
        | .ok (g3, r2) => .ok (g3, r1.append r2)

/-- `load`, returning the resolved references as well -/
def loadR (g : G) (m : SkIR) : Except LErr (G × Nat × Refs) :=
  let ir := g.n
  let g1 := mkIR g m.uuid
  match decodeModulesR ir g1 m.modules with
  | .error e => .error e
  | .ok (g2, r) =>
    match resolveEdges g2 ir (fun k => k == Kind.code || k == Kind.proxy) m.edges with
    | .error e => .error e
    | .ok es => .ok (g2, ir, { r with edges := es })

end Gtirb.Loader
