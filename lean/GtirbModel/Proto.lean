import GtirbModel.Msg
import GtirbModel.Generated.PyEnums
import GtirbModel.Generated.Version
/-! Model E, part 2: writer (`toMsg`, `saveBytes`) and reader (`fromMsg`,
`loadBytes`).

`toMsg` is the field-by-field statement of every `_to_protobuf`. `fromMsg`
mirrors the *staged* decoder (ir.py / module.py / section.py / byteinterval.py
/ block.py / symbol.py / symbolicexpression.py / cfg.py `_from_protobuf` /
`_decode_protobuf`): UUIDs must be 16 bytes, enum numbers must be members of
the Python Enum classes (regenerated table `Generated.pyEnums`), stored bytes
must not exceed the interval size, one-ofs must be present, and references
are resolved through the UUID table *as filled so far*: a symbol referent must
be a block of the same or an earlier module, an entry point a code block of
the same module's sections or of an earlier module, expression symbols symbols
of the same or an earlier module, CFG endpoints any CFG node of the IR. The
value-level reader covers messages whose node UUIDs are pairwise distinct
(`Err.duplicateUuid` otherwise: node identity and re-use are the object-graph
model's business). -/
namespace Gtirb.Msg
open Gtirb

/-! ### writer -/

def blockToMsg : BlockV → MBlock
  | .code u off sz dm => ⟨off, some (.code ⟨u, sz, dm⟩)⟩
  | .data u off sz => ⟨off, some (.data ⟨u, sz⟩)⟩

def exprToMsg (e : ExprEntryV) : Nat × MSymExpr :=
  (e.key, ⟨some (match e.expr with
    | .addrConst off s => .addrConst off s
    | .addrAddr sc off s1 s2 => .addrAddr sc off s1 s2), e.attrs⟩)

def intervalToMsg (x : IntervalV) : MByteInterval :=
  { uuid := x.uuid, blocks := x.blocks.map blockToMsg,
    symbolicExpressions := x.exprs.map exprToMsg,
    hasAddress := x.addr.isSome, address := x.addr.getD 0,
    size := x.size, contents := x.contents }

def sectionToMsg (s : SectionV) : MSection :=
  { uuid := s.uuid, name := s.name, byteIntervals := s.intervals.map intervalToMsg,
    sectionFlags := s.flags }

def symbolToMsg (s : SymbolV) : MSymbol :=
  { uuid := s.uuid, name := s.name, atEnd := s.atEnd,
    payload := match s.payload with
      | .none => none
      | .value n => some (.value n)
      | .referent u => some (.referentUuid u) }

def auxToMsg (a : AuxV) : String × MAuxData := (a.key, ⟨a.typeName, a.data⟩)

def moduleToMsg (m : ModuleV) : MModule :=
  { uuid := m.uuid, binaryPath := m.binaryPath, preferredAddr := m.preferredAddr,
    rebaseDelta := m.rebaseDelta, fileFormat := m.fileFormat, isa := m.isa, name := m.name,
    symbols := m.symbols.map symbolToMsg, proxies := m.proxies,
    sections := m.sections.map sectionToMsg, auxData := m.aux.map auxToMsg,
    entryPoint := m.entryPoint.getD [], byteOrder := m.byteOrder }

def edgeToMsg (e : EdgeV) : MEdge :=
  { sourceUuid := e.src, targetUuid := e.dst,
    label := e.label.map fun l => ⟨l.conditional, l.direct, l.type⟩ }

/-- `module.cfg_nodes` = code blocks (sections, intervals, blocks in order) then proxies -/
def moduleCfgNodes (m : ModuleV) : List U :=
  (m.sections.flatMap fun s => s.intervals.flatMap fun x =>
      x.blocks.filterMap fun b => match b with | .code u _ _ _ => some u | .data _ _ _ => none)
    ++ m.proxies

def irCfgNodes (v : IRV) : List U := v.modules.flatMap moduleCfgNodes

def toMsg (v : IRV) : MIR :=
  { uuid := v.uuid, modules := v.modules.map moduleToMsg, auxData := v.aux.map auxToMsg,
    version := v.version,
    cfg := { vertices := irCfgNodes v, edges := v.edges.map edgeToMsg } }

/-- the 8-byte header: magic, two zero bytes, the protobuf version -/
def header : Bytes := Generated.magic ++ [0, 0, UInt8.ofNat Generated.protobufVersion]

/-- `serialize` is protobuf's `SerializeToString` (opaque) -/
def saveBytes (serialize : MIR → Bytes) (v : IRV) : Bytes := header ++ serialize (toMsg v)

/-! ### reader -/

inductive Err where
  | valueError          -- bad UUID length, unknown enum number, stored bytes > size, version
  | deserializationError   -- reference to a missing node or a node of the wrong kind
  | typeError           -- a one-of is not set
  | duplicateUuid       -- outside the value-level reader
  deriving DecidableEq, Repr

inductive KindTag where
  | ir | module | section | interval | code | data | proxy | symbol
  deriving DecidableEq, Repr

abbrev Env := List (U × KindTag)

def Env.find (env : Env) (u : U) : Option KindTag :=
  (env.find? (·.1 == u)).map (·.2)

def pyEnumHas (tag : String) (n : Nat) : Bool :=
  match Generated.pyEnums.find? (·.1 == tag) with
  | some (_, vals) => vals.any (·.2 == (n : Int))
  | none => false

def checkUuid (u : Bytes) : Except Err Unit :=
  if u.length = 16 then .ok () else .error .valueError

/-- `Node._from_protobuf`: a node of that UUID already in the table is re-used
if it has the expected kind (outside this reader), rejected otherwise -/
def fresh (env : Env) (u : Bytes) (k : KindTag) : Except Err Unit :=
  match checkUuid u with
  | .error e => .error e
  | .ok _ =>
    match env.find u with
    | none => .ok ()
    | some k' => if k' = k then .error .duplicateUuid else .error .deserializationError

def dedupNat (l : List Nat) : List Nat := l.foldl (fun acc x => if x ∈ acc then acc else acc ++ [x]) []

def decodeBlock (env : Env) (b : MBlock) : Except Err (BlockV × Env) :=
  match b.value with
  | none => .error .typeError
  | some (.code c) =>
    match fresh env c.uuid .code with
    | .error e => .error e
    | .ok _ =>
      if pyEnumHas "DecodeMode" c.decodeMode then
        .ok (.code c.uuid b.offset c.size c.decodeMode, (c.uuid, .code) :: env)
      else .error .valueError
  | some (.data d) =>
    match fresh env d.uuid .data with
    | .error e => .error e
    | .ok _ => .ok (.data d.uuid b.offset d.size, (d.uuid, .data) :: env)

def decodeBlocks : Env → List MBlock → Except Err (List BlockV × Env)
  | env, [] => .ok ([], env)
  | env, b :: bs =>
    match decodeBlock env b with
    | .error e => .error e
    | .ok (v, env1) =>
      match decodeBlocks env1 bs with
      | .error e => .error e
      | .ok (vs, env2) => .ok (v :: vs, env2)

/-- structural part of an interval (expressions are decoded after the module's symbols) -/
def decodeInterval (env : Env) (x : MByteInterval) : Except Err (IntervalV × Env) :=
  match fresh env x.uuid .interval with
  | .error e => .error e
  | .ok _ =>
    if x.contents.length > x.size then .error .valueError else
    match decodeBlocks env x.blocks with
    | .error e => .error e
    | .ok (blocks, env1) =>
      .ok ({ uuid := x.uuid, addr := if x.hasAddress then some x.address else none,
             size := x.size, contents := x.contents, blocks := blocks, exprs := [] },
           (x.uuid, .interval) :: env1)

def decodeIntervals : Env → List MByteInterval → Except Err (List IntervalV × Env)
  | env, [] => .ok ([], env)
  | env, x :: xs =>
    match decodeInterval env x with
    | .error e => .error e
    | .ok (v, env1) =>
      match decodeIntervals env1 xs with
      | .error e => .error e
      | .ok (vs, env2) => .ok (v :: vs, env2)

def decodeSection (env : Env) (s : MSection) : Except Err (SectionV × Env) :=
  match fresh env s.uuid .section with
  | .error e => .error e
  | .ok _ =>
    if s.sectionFlags.all (pyEnumHas "SectionFlag") then
      match decodeIntervals ((s.uuid, .section) :: env) s.byteIntervals with
      | .error e => .error e
      | .ok (ivs, env1) =>
        .ok ({ uuid := s.uuid, name := s.name, flags := dedupNat s.sectionFlags, intervals := ivs }, env1)
    else .error .valueError

def decodeSections : Env → List MSection → Except Err (List SectionV × Env)
  | env, [] => .ok ([], env)
  | env, s :: ss =>
    match decodeSection env s with
    | .error e => .error e
    | .ok (v, env1) =>
      match decodeSections env1 ss with
      | .error e => .error e
      | .ok (vs, env2) => .ok (v :: vs, env2)

def decodeProxies : Env → List Bytes → Except Err (List U × Env)
  | env, [] => .ok ([], env)
  | env, p :: ps =>
    match fresh env p .proxy with
    | .error e => .error e
    | .ok _ =>
      match decodeProxies ((p, .proxy) :: env) ps with
      | .error e => .error e
      | .ok (vs, env2) => .ok (p :: vs, env2)

def isBlockKind : KindTag → Bool
  | .code | .data | .proxy => true
  | _ => false

def decodeSymbol (env : Env) (s : MSymbol) : Except Err (SymbolV × Env) :=
  match fresh env s.uuid .symbol with
  | .error e => .error e
  | .ok _ =>
    match (match s.payload with
      | none => (.ok .none : Except Err PayloadV)
      | some (.value n) => .ok (.value n)
      | some (.referentUuid u) =>
        match checkUuid u with
        | .error e => .error e
        | .ok _ =>
          match env.find u with
          | some k => if isBlockKind k then .ok (.referent u) else .error .deserializationError
          | none => .error .deserializationError) with
    | .error e => .error e
    | .ok pl => .ok ({ uuid := s.uuid, name := s.name, payload := pl, atEnd := s.atEnd },
                     (s.uuid, .symbol) :: env)

def decodeSymbols : Env → List MSymbol → Except Err (List SymbolV × Env)
  | env, [] => .ok ([], env)
  | env, s :: ss =>
    match decodeSymbol env s with
    | .error e => .error e
    | .ok (v, env1) =>
      match decodeSymbols env1 ss with
      | .error e => .error e
      | .ok (vs, env2) => .ok (v :: vs, env2)

def symRef (env : Env) (u : Bytes) : Except Err Unit :=
  match checkUuid u with
  | .error e => .error e
  | .ok _ =>
    match env.find u with
    | some .symbol => .ok ()
    | _ => .error .deserializationError

def decodeExpr (env : Env) (kv : Nat × MSymExpr) : Except Err ExprEntryV :=
  match kv.2.value with
  | none => .error .typeError
  | some (.addrConst off s) =>
    match symRef env s with
    | .error e => .error e
    | .ok _ => .ok ⟨kv.1, .addrConst off s, dedupNat kv.2.attributeFlags⟩
  | some (.addrAddr sc off s1 s2) =>
    match symRef env s1 with
    | .error e => .error e
    | .ok _ =>
      match symRef env s2 with
      | .error e => .error e
      | .ok _ => .ok ⟨kv.1, .addrAddr sc off s1 s2, dedupNat kv.2.attributeFlags⟩

def decodeExprs (env : Env) : List (Nat × MSymExpr) → Except Err (List ExprEntryV)
  | [] => .ok []
  | kv :: kvs =>
    match decodeExpr env kv with
    | .error e => .error e
    | .ok v =>
      match decodeExprs env kvs with
      | .error e => .error e
      | .ok vs => .ok (v :: vs)

/-- second pass over a module's sections: the symbolic expressions -/
def fillExprsIntervals (env : Env) : List IntervalV → List MByteInterval → Except Err (List IntervalV)
  | v :: vs, x :: xs =>
    match decodeExprs env x.symbolicExpressions with
    | .error e => .error e
    | .ok es =>
      match fillExprsIntervals env vs xs with
      | .error e => .error e
      | .ok rest => .ok ({ v with exprs := es } :: rest)
  | _, _ => .ok []

def fillExprsSections (env : Env) : List SectionV → List MSection → Except Err (List SectionV)
  | v :: vs, s :: ss =>
    match fillExprsIntervals env v.intervals s.byteIntervals with
    | .error e => .error e
    | .ok ivs =>
      match fillExprsSections env vs ss with
      | .error e => .error e
      | .ok rest => .ok ({ v with intervals := ivs } :: rest)
  | _, _ => .ok []

def decodeAux (l : List (String × MAuxData)) : List AuxV := l.map fun kv => ⟨kv.1, kv.2.typeName, kv.2.data⟩

def decodeModule (env : Env) (m : MModule) : Except Err (ModuleV × Env) :=
  match fresh env m.uuid .module with
  | .error e => .error e
  | .ok _ =>
    if !(pyEnumHas "ISA" m.isa && pyEnumHas "FileFormat" m.fileFormat && pyEnumHas "ByteOrder" m.byteOrder)
    then .error .valueError else
    match decodeProxies ((m.uuid, .module) :: env) m.proxies with
    | .error e => .error e
    | .ok (proxies, env1) =>
      match decodeSections env1 m.sections with
      | .error e => .error e
      | .ok (secs, env2) =>
        match (if m.entryPoint.isEmpty then (.ok none : Except Err (Option U)) else
                match checkUuid m.entryPoint with
                | .error e => .error e
                | .ok _ =>
                  match env2.find m.entryPoint with
                  | some .code => .ok (some m.entryPoint)
                  | _ => .error .deserializationError) with
        | .error e => .error e
        | .ok entry =>
          match decodeSymbols env2 m.symbols with
          | .error e => .error e
          | .ok (syms, env3) =>
            match fillExprsSections env3 secs m.sections with
            | .error e => .error e
            | .ok secs' =>
              .ok ({ uuid := m.uuid, name := m.name, binaryPath := m.binaryPath,
                     preferredAddr := m.preferredAddr, rebaseDelta := m.rebaseDelta,
                     fileFormat := m.fileFormat, isa := m.isa, byteOrder := m.byteOrder,
                     entryPoint := entry, proxies := proxies, sections := secs', symbols := syms,
                     aux := decodeAux m.auxData }, env3)

def decodeModules : Env → List MModule → Except Err (List ModuleV × Env)
  | env, [] => .ok ([], env)
  | env, m :: ms =>
    match decodeModule env m with
    | .error e => .error e
    | .ok (v, env1) =>
      match decodeModules env1 ms with
      | .error e => .error e
      | .ok (vs, env2) => .ok (v :: vs, env2)

def cfgRef (env : Env) (u : Bytes) : Except Err Unit :=
  match checkUuid u with
  | .error e => .error e
  | .ok _ =>
    match env.find u with
    | some .code => .ok ()
    | some .proxy => .ok ()
    | _ => .error .deserializationError

def decodeEdge (env : Env) (e : MEdge) : Except Err EdgeV :=
  match cfgRef env e.sourceUuid with
  | .error er => .error er
  | .ok _ =>
    match cfgRef env e.targetUuid with
    | .error er => .error er
    | .ok _ =>
      match e.label with
      | none => .ok ⟨e.sourceUuid, e.targetUuid, none⟩
      | some l =>
        if pyEnumHas "EdgeType" l.type then
          .ok ⟨e.sourceUuid, e.targetUuid, some ⟨l.type, l.conditional, l.direct⟩⟩
        else .error .valueError

def decodeEdges (env : Env) : List MEdge → Except Err (List EdgeV)
  | [] => .ok []
  | e :: es =>
    match decodeEdge env e with
    | .error er => .error er
    | .ok v =>
      match decodeEdges env es with
      | .error er => .error er
      | .ok vs => .ok (v :: vs)

/-- the CFG is a set: an edge listed twice is kept once -/
def dedupEdges (l : List EdgeV) : List EdgeV :=
  l.foldl (fun acc x => if x ∈ acc then acc else acc ++ [x]) []

def fromMsg (m : MIR) : Except Err IRV :=
  match checkUuid m.uuid with
  | .error e => .error e
  | .ok _ =>
    if m.version ≠ Generated.protobufVersion then .error .valueError else
    match decodeModules [(m.uuid, .ir)] m.modules with
    | .error e => .error e
    | .ok (mods, env) =>
      match decodeEdges env m.cfg.edges with
      | .error e => .error e
      | .ok edges =>
        .ok { uuid := m.uuid, version := m.version, modules := mods,
              edges := dedupEdges edges, aux := decodeAux m.auxData }

/-- `IR.load_protobuf_file`: magic, two ignored bytes, version byte, then the
message (`parse` is protobuf's `ParseFromString`; `none` = it raised) -/
inductive LoadErr where
  | header          -- ValueError: magic or version byte
  | parse           -- protobuf DecodeError
  | msg (e : Err)
  deriving DecidableEq, Repr

def loadBytes (parse : Bytes → Option MIR) (bs : Bytes) : Except LoadErr IRV :=
  if bs.take 5 ≠ Generated.magic then .error .header
  else if (bs.drop 7).take 1 ≠ [UInt8.ofNat Generated.protobufVersion] then .error .header
  else
    match parse (bs.drop 8) with
    | none => .error .parse
    | some m =>
      match fromMsg m with
      | .ok v => .ok v
      | .error e => .error (.msg e)

end Gtirb.Msg
