import GtirbModel.Index
import GtirbModel.SymExpr
/-! Model of `symbolic_expressions_at` at section, module and IR scope
(python/gtirb/section.py:369-381, module.py:576-587, ir.py:406-417,
util.py:604-610).

```
# Section
for interval in self.byte_intervals_on(addrs):          # forces self._interval_index
    yield from interval.symbolic_expressions_at(addrs)   # byteinterval.py:612-633
# Module / IR
itertools.chain.from_iterable(node.symbolic_expressions_at(addrs) for node in nodes)
```

The structure (`Index.D`: which interval is in which section, its address and
size, the lazy interval index of each section) and the expression stores
(`st : interval id -> SymExpr.Store`) are separate: a symbolic-expression
lookup reads the stores and never writes them; the only state it changes is the
lazy index of every section it visits (`secBisOn` = `byte_intervals_on`).

The interval's own lookup (`atAddr`) reads `interval.address` when the section
loop reaches the interval, i.e. AFTER `byte_intervals_on` forced the index: it
is read from the state `secBisOn` returns. (Forcing an index changes no address,
so this is the address before the call as well; that is a theorem, not a
modelling decision.)

Result items are `(interval id, offset, expression id)`, the model of the code's
`(interval, offset, symexpr)` tuples, in the order the code yields them: the
intervals in the order `byte_intervals_on` produces them (a Python `set` of tree
intervals, so this order is not determined by the code; the model's is the tree
order of `Index.nodesOn`), within one interval by increasing offset; sections in
the order given (`Module.sections` / `IR.modules` iteration order). All
generators are assumed to be consumed completely. -/
namespace Gtirb.SymExpr
open Gtirb.Index (D Rng secBisOn)

/-- a yielded `(interval, offset, symexpr)` tuple -/
abbrev Item := Nat × Nat × Nat

/-- `interval.symbolic_expressions_at(addrs)` for the interval named `x`, as
tuples; nothing for an unknown interval or one without an address -/
def biSymAt (d : D) (st : Nat → Store) (x : Nat) (r : Rng) : List Item :=
  (atAddr (st x) ((d.bi? x).bind (·.addr)) r).map fun kv => (x, kv.1, kv.2)

/-- `Section.symbolic_expressions_at(addrs)` -/
def secSymAt (d : D) (st : Nat → Store) (s : Nat) (r : Rng) : D × List Item :=
  let (d1, xs) := secBisOn d s r
  (d1, xs.flatMap fun x => biSymAt d1 st x r)

/-- `Module.symbolic_expressions_at(addrs)`: the chain over its sections `ss`.
Also the IR-level lookup, with `ss` = all sections of all modules in order
(see `irSymAt`). -/
def scopeSymAt (d : D) (st : Nat → Store) (ss : List Nat) (r : Rng) : D × List Item :=
  ss.foldl (fun acc s => let (d', l) := secSymAt acc.1 st s r; (d', acc.2 ++ l)) (d, [])

/-- `IR.symbolic_expressions_at(addrs)`: the chain over the modules (each given
by the list of its sections) of the module-level chains -/
def irSymAt (d : D) (st : Nat → Store) (mods : List (List Nat)) (r : Rng) : D × List Item :=
  mods.foldl (fun acc ss => let (d', l) := scopeSymAt acc.1 st ss r; (d', acc.2 ++ l)) (d, [])

end Gtirb.SymExpr
