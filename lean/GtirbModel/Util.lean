/-! Small helpers shared by the executable models and the line-protocol driver.
No Mathlib imports anywhere under `GtirbModel/` (the driver is a `lean_exe`). -/
namespace Gtirb

abbrev Bytes := List UInt8

def hexDigit (n : Nat) : Char :=
  if n < 10 then Char.ofNat (48 + n) else Char.ofNat (87 + n)

def hexOfByte (b : UInt8) : List Char :=
  [hexDigit (b.toNat / 16), hexDigit (b.toNat % 16)]

def hexOfBytes (bs : Bytes) : String :=
  String.ofList (bs.flatMap hexOfByte)

def hexVal (c : Char) : Option Nat :=
  if '0' ≤ c ∧ c ≤ '9' then some (c.toNat - 48)
  else if 'a' ≤ c ∧ c ≤ 'f' then some (c.toNat - 87)
  else if 'A' ≤ c ∧ c ≤ 'F' then some (c.toNat - 55)
  else none

def bytesOfHexChars : List Char → Option Bytes
  | [] => some []
  | a :: b :: rest =>
    match hexVal a, hexVal b, bytesOfHexChars rest with
    | some x, some y, some bs => some (UInt8.ofNat (16 * x + y) :: bs)
    | _, _, _ => none
  | _ => none

/-- `-` stands for the empty byte string on the wire (so every field is a
non-empty token). -/
def bytesOfHex (s : String) : Option Bytes :=
  if s = "-" then some [] else bytesOfHexChars s.toList

def hexOrDash (bs : Bytes) : String :=
  if bs.isEmpty then "-" else hexOfBytes bs

def stringOfHex (s : String) : Option String :=
  match bytesOfHex s with
  | some bs => String.fromUTF8? (ByteArray.mk bs.toArray)
  | none => none

def hexOfString (s : String) : String :=
  hexOrDash s.toUTF8.toList

def intOfString (s : String) : Option Int := s.toInt?
def natOfString (s : String) : Option Nat := s.toNat?

/-- split a protocol line on single spaces -/
def fields (line : String) : List String :=
  (line.splitOn " ").filter (· ≠ "")

end Gtirb
