import GtirbModel.Codec
/-! The value sets of the AuxData types as a decidable predicate (the
hypothesis of the round-trip theorem C07; the driver evaluates it on every
generated case so the hypothesis is known to be met by what is tested). -/
namespace Gtirb.Codec

/-- no two elements equal in Python's sense -/
def pairwiseDistinct : List Val → Bool
  | [] => true
  | x :: xs => !memVal x xs && pairwiseDistinct xs

/-- a UUID-typed element: a plain UUID that names no node of the IR, or a node
of the IR (the lookup table and the nodes' uuids agree on it). -/
def elemOk (lookup : Bytes → Option Nat) (nodeUuid : Nat → Bytes) : Val → Bool
  | .uuid u => u.length == 16 && (lookup u).isNone
  | .node id => (nodeUuid id).length == 16 && lookup (nodeUuid id) == some id
  | _ => false

def leafHasType (lookup : Bytes → Option Nat) (nodeUuid : Nat → Bytes) : Leaf → Val → Bool
  | .bool, .bool _ => true
  | .f32, .f32 bits => decide (bits < 2 ^ 32)
  | .f64, .f64 bits => decide (bits < 2 ^ 64)
  | .string, .str s => decide (s.toUTF8.toList.length < 2 ^ 64)
  | .uuid, v => elemOk lookup nodeUuid v
  | .offset, .offset e d => elemOk lookup nodeUuid e && decide (d < 2 ^ 64)
  | l, .int n => l.isInt && intInRange l.signed l.width n
  | _, _ => false

def allMany (f : Val → Bool) : List Val → Bool
  | [] => true
  | x :: xs => f x && allMany f xs

mutual
def hasType (lookup : Bytes → Option Nat) (nodeUuid : Nat → Bytes) : Ty → Val → Bool
  | .leaf l, v => leafHasType lookup nodeUuid l v
  | .seq t, .seq xs => allMany (hasType lookup nodeUuid t) xs && decide (xs.length < 2 ^ 64)
  | .set t, .set xs =>
    allMany (hasType lookup nodeUuid t) xs && decide (xs.length < 2 ^ 64) && pairwiseDistinct xs
  | .map kt vt, .map ks vs =>
    allMany (hasType lookup nodeUuid kt) ks && allMany (hasType lookup nodeUuid vt) vs &&
      ks.length == vs.length && decide (ks.length < 2 ^ 64) && pairwiseDistinct ks
  | .tuple ts, .tuple xs => hasTypeTuple lookup nodeUuid ts xs
  | .variant ts, .variant i v => decide (i < 2 ^ 64) && hasTypeNth lookup nodeUuid ts i v
  | _, _ => false     -- in particular `.unknown` and `.badArity` have no values
def hasTypeTuple (lookup : Bytes → Option Nat) (nodeUuid : Nat → Bytes) : List Ty → List Val → Bool
  | [], [] => true
  | t :: ts, x :: xs => hasType lookup nodeUuid t x && hasTypeTuple lookup nodeUuid ts xs
  | _, _ => false
def hasTypeNth (lookup : Bytes → Option Nat) (nodeUuid : Nat → Bytes) : List Ty → Nat → Val → Bool
  | [], _, _ => false
  | t :: _, 0, v => hasType lookup nodeUuid t v
  | _ :: ts, i + 1, v => hasTypeNth lookup nodeUuid ts i v
end

mutual
def noUnknown : Ty → Bool
  | .leaf _ => true
  | .seq t => noUnknown t
  | .set t => noUnknown t
  | .map k v => noUnknown k && noUnknown v
  | .tuple ts => noUnknownList ts
  | .variant ts => noUnknownList ts
  | .unknown _ _ => false
  | .badArity _ _ => false
def noUnknownList : List Ty → Bool
  | [] => true
  | t :: ts => noUnknown t && noUnknownList ts
end

end Gtirb.Codec
