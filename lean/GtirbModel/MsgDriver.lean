import GtirbModel.Msg
import GtirbModel.Proto
import GtirbModel.DeepEq
import GtirbModel.ProtoWF
import GtirbModel.MsgWF
import GtirbModel.DeepEqNodes
import GtirbModel.Skel
import GtirbModel.LoaderDriver
/-! Model E, line protocol (`model msg`): the V format (an `IRV`), the M format
(an `MIR`) and the commands `tomsg`, `frommsg`, `roundtrip`, `deepeq`,
`canoneq`, `header`, `loadhdr`. Tokens are separated by single spaces, byte and
text strings travel as hex with `-` for the empty string, lists are a count
followed by that many items. -/
namespace Gtirb.Msg
open Gtirb

/-! ### token-stream parser -/

/-- a parser over the remaining tokens -/
abbrev P (α : Type) := StateT (List String) Option α

def pTok : P String := fun ts =>
  match ts with
  | [] => none
  | t :: rest => some (t, rest)

def pLift {α} (f : String → Option α) : P α := do
  let t ← pTok
  match f t with
  | some a => pure a
  | none => failure

def pKw (kw : String) : P Unit := do
  let t ← pTok
  if t == kw then pure () else failure

def pNat : P Nat := pLift (·.toNat?)
def pInt : P Int := pLift (·.toInt?)
def pBytes : P Bytes := pLift bytesOfHex
def pStr : P String := pLift stringOfHex

def pBool : P Bool := pLift fun t =>
  if t == "0" then some false else if t == "1" then some true else none

/-- exactly `n` items -/
def pTimes {α} (p : P α) (n : Nat) : P (List α) := fun ts =>
  let rec loop : Nat → List String → List α → Option (List α × List String)
    | 0, ts, acc => some (acc.reverse, ts)
    | k + 1, ts, acc =>
      match p ts with
      | some (a, ts') => loop k ts' (a :: acc)
      | none => none
  loop n ts []

/-- a counted list: the count, then that many items -/
def pMany {α} (p : P α) : P (List α) := do
  let n ← pNat
  pTimes p n

def pOptNat : P (Option Nat) := pLift fun t =>
  if t == "-" then some none else (t.toNat?).map some

/-- `-` or `TYPE,COND,DIRECT` -/
def readLabelTok (t : String) : Option (Option (Nat × Bool × Bool)) :=
  if t == "-" then some none else
  let rb : String → Option Bool := fun s =>
    if s == "0" then some false else if s == "1" then some true else none
  match t.splitOn "," with
  | [a, b, c] =>
    match a.toNat?, rb b, rb c with
    | some ty, some cond, some dir => some (some (ty, cond, dir))
    | _, _, _ => none
  | _ => none

/-! #### V format -/

def pAuxV : P AuxV := do
  pKw "aux"
  let k ← pStr
  let tn ← pStr
  let d ← pBytes
  pure ⟨k, tn, d⟩

def pEdgeV : P EdgeV := do
  pKw "edge"
  let s ← pBytes
  let d ← pBytes
  let l ← pLift readLabelTok
  pure ⟨s, d, l.map fun (ty, c, dr) => ⟨ty, c, dr⟩⟩

def pBlockV : P BlockV := do
  let t ← pTok
  if t == "c" then
    let u ← pBytes; let off ← pNat; let sz ← pNat; let dm ← pNat
    pure (.code u off sz dm)
  else if t == "d" then
    let u ← pBytes; let off ← pNat; let sz ← pNat
    pure (.data u off sz)
  else failure

def pExprV : P ExprEntryV := do
  let key ← pNat
  let t ← pTok
  if t == "ac" then
    let off ← pInt; let s ← pBytes; let attrs ← pMany pNat
    pure ⟨key, .addrConst off s, attrs⟩
  else if t == "aa" then
    let sc ← pInt; let off ← pInt; let s1 ← pBytes; let s2 ← pBytes; let attrs ← pMany pNat
    pure ⟨key, .addrAddr sc off s1 s2, attrs⟩
  else failure

def pIntervalV : P IntervalV := do
  pKw "bi"
  let u ← pBytes
  let addr ← pOptNat
  let sz ← pNat
  let contents ← pBytes
  let blocks ← pMany pBlockV
  let exprs ← pMany pExprV
  pure { uuid := u, addr := addr, size := sz, contents := contents, blocks := blocks, exprs := exprs }

def pSectionV : P SectionV := do
  pKw "sec"
  let u ← pBytes
  let name ← pStr
  let flags ← pMany pNat
  let ivs ← pMany pIntervalV
  pure { uuid := u, name := name, flags := flags, intervals := ivs }

/-- `-` | `v<NAT>` | `r<UUIDHEX>` -/
def readPayloadV (t : String) : Option PayloadV :=
  if t == "-" then some .none else
  match t.toList with
  | 'v' :: rest => ((String.ofList rest).toNat?).map .value
  | 'r' :: rest => (bytesOfHexChars rest).map .referent
  | _ => none

def pSymbolV : P SymbolV := do
  pKw "sym"
  let u ← pBytes
  let name ← pStr
  let pl ← pLift readPayloadV
  let atEnd ← pBool
  pure { uuid := u, name := name, payload := pl, atEnd := atEnd }

def pEntryV : P (Option U) := pLift fun t =>
  if t == "-" then some none else (bytesOfHex t).map some

def pModuleV : P ModuleV := do
  pKw "mod"
  let u ← pBytes
  let name ← pStr
  let binPath ← pStr
  let pref ← pNat
  let rebase ← pInt
  let ff ← pNat
  let isa ← pNat
  let bo ← pNat
  let entry ← pEntryV
  let proxies ← pMany pBytes
  let secs ← pMany pSectionV
  let syms ← pMany pSymbolV
  let aux ← pMany pAuxV
  pure { uuid := u, name := name, binaryPath := binPath, preferredAddr := pref,
         rebaseDelta := rebase, fileFormat := ff, isa := isa, byteOrder := bo,
         entryPoint := entry, proxies := proxies, sections := secs, symbols := syms, aux := aux }

def pIRV : P IRV := do
  pKw "irv"
  let u ← pBytes
  let ver ← pNat
  let mods ← pMany pModuleV
  let edges ← pMany pEdgeV
  let aux ← pMany pAuxV
  pure { uuid := u, version := ver, modules := mods, edges := edges, aux := aux }

def readIRV (ts : List String) : Option (IRV × List String) := pIRV.run ts

/-! #### M format -/

def pMAux : P (String × MAuxData) := do
  pKw "aux"
  let k ← pStr
  let tn ← pStr
  let d ← pBytes
  pure (k, ⟨tn, d⟩)

def pMEdge : P MEdge := do
  pKw "edge"
  let s ← pBytes
  let d ← pBytes
  let l ← pLift readLabelTok
  pure { sourceUuid := s, targetUuid := d,
         label := l.map fun (ty, c, dr) => { conditional := c, direct := dr, type := ty } }

def pMBlock : P MBlock := do
  let t ← pTok
  if t == "c" then
    let off ← pNat; let u ← pBytes; let sz ← pNat; let dm ← pNat
    pure ⟨off, some (.code ⟨u, sz, dm⟩)⟩
  else if t == "d" then
    let off ← pNat; let u ← pBytes; let sz ← pNat
    pure ⟨off, some (.data ⟨u, sz⟩)⟩
  else if t == "n" then
    let off ← pNat
    pure ⟨off, none⟩
  else failure

def pMExpr : P (Nat × MSymExpr) := do
  let key ← pNat
  let t ← pTok
  if t == "ac" then
    let off ← pInt; let s ← pBytes; let attrs ← pMany pNat
    pure (key, ⟨some (.addrConst off s), attrs⟩)
  else if t == "aa" then
    let sc ← pInt; let off ← pInt; let s1 ← pBytes; let s2 ← pBytes; let attrs ← pMany pNat
    pure (key, ⟨some (.addrAddr sc off s1 s2), attrs⟩)
  else if t == "n" then
    let attrs ← pMany pNat
    pure (key, ⟨none, attrs⟩)
  else failure

def pMInterval : P MByteInterval := do
  pKw "bi"
  let u ← pBytes
  let hasAddr ← pBool
  let addr ← pNat
  let sz ← pNat
  let contents ← pBytes
  let blocks ← pMany pMBlock
  let exprs ← pMany pMExpr
  pure { uuid := u, blocks := blocks, symbolicExpressions := exprs, hasAddress := hasAddr,
         address := addr, size := sz, contents := contents }

def pMSection : P MSection := do
  pKw "sec"
  let u ← pBytes
  let name ← pStr
  let flags ← pMany pNat
  let ivs ← pMany pMInterval
  pure { uuid := u, name := name, byteIntervals := ivs, sectionFlags := flags }

/-- `-` (oneof not set) | `v<NAT>` | `r<HEX-or-empty>` -/
def readMPayload (t : String) : Option (Option MPayload) :=
  if t == "-" then some none else
  match t.toList with
  | 'v' :: rest => ((String.ofList rest).toNat?).map fun n => some (.value n)
  | 'r' :: rest => (bytesOfHexChars rest).map fun u => some (.referentUuid u)
  | _ => none

def pMSymbol : P MSymbol := do
  pKw "sym"
  let u ← pBytes
  let name ← pStr
  let pl ← pLift readMPayload
  let atEnd ← pBool
  pure { uuid := u, payload := pl, name := name, atEnd := atEnd }

def pMModule : P MModule := do
  pKw "mod"
  let u ← pBytes
  let name ← pStr
  let binPath ← pStr
  let pref ← pNat
  let rebase ← pInt
  let ff ← pNat
  let isa ← pNat
  let bo ← pNat
  let entry ← pBytes
  let proxies ← pMany pBytes
  let secs ← pMany pMSection
  let syms ← pMany pMSymbol
  let aux ← pMany pMAux
  pure { uuid := u, binaryPath := binPath, preferredAddr := pref, rebaseDelta := rebase,
         fileFormat := ff, isa := isa, name := name, symbols := syms, proxies := proxies,
         sections := secs, auxData := aux, entryPoint := entry, byteOrder := bo }

def pMIR : P MIR := do
  pKw "mir"
  let u ← pBytes
  let ver ← pNat
  let mods ← pMany pMModule
  let verts ← pMany pBytes
  let edges ← pMany pMEdge
  let aux ← pMany pMAux
  pure { uuid := u, modules := mods, auxData := aux, version := ver,
         cfg := { vertices := verts, edges := edges } }

def readMIR (ts : List String) : Option (MIR × List String) := pMIR.run ts

/-! ### printers (token lists, joined once) -/

def tBool (b : Bool) : String := if b then "1" else "0"

/-- a counted list -/
def tMany {α} (f : α → List String) (l : List α) : List String :=
  toString l.length :: l.flatMap f

def tNats (l : List Nat) : List String := toString l.length :: l.map toString

def tLabel (l : Option (Nat × Bool × Bool)) : String :=
  match l with
  | none => "-"
  | some (ty, c, d) => s!"{ty},{tBool c},{tBool d}"

def tAuxV (a : AuxV) : List String :=
  ["aux", hexOfString a.key, hexOfString a.typeName, hexOrDash a.data]

def tEdgeV (e : EdgeV) : List String :=
  ["edge", hexOrDash e.src, hexOrDash e.dst,
   tLabel (e.label.map fun l => (l.type, l.conditional, l.direct))]

def tBlockV : BlockV → List String
  | .code u off sz dm => ["c", hexOrDash u, toString off, toString sz, toString dm]
  | .data u off sz => ["d", hexOrDash u, toString off, toString sz]

def tExprV (e : ExprEntryV) : List String :=
  toString e.key ::
    (match e.expr with
     | .addrConst off s => ["ac", toString off, hexOrDash s]
     | .addrAddr sc off s1 s2 => ["aa", toString sc, toString off, hexOrDash s1, hexOrDash s2])
    ++ tNats e.attrs

def tIntervalV (x : IntervalV) : List String :=
  ["bi", hexOrDash x.uuid, (match x.addr with | none => "-" | some a => toString a),
   toString x.size, hexOrDash x.contents]
    ++ tMany tBlockV x.blocks ++ tMany tExprV x.exprs

def tSectionV (s : SectionV) : List String :=
  ["sec", hexOrDash s.uuid, hexOfString s.name] ++ tNats s.flags ++ tMany tIntervalV s.intervals

def tPayloadV : PayloadV → String
  | .none => "-"
  | .value n => s!"v{n}"
  | .referent u => "r" ++ hexOfBytes u

def tSymbolV (s : SymbolV) : List String :=
  ["sym", hexOrDash s.uuid, hexOfString s.name, tPayloadV s.payload, tBool s.atEnd]

def tModuleV (m : ModuleV) : List String :=
  ["mod", hexOrDash m.uuid, hexOfString m.name, hexOfString m.binaryPath,
   toString m.preferredAddr, toString m.rebaseDelta, toString m.fileFormat, toString m.isa,
   toString m.byteOrder, (match m.entryPoint with | none => "-" | some u => hexOrDash u)]
    ++ tMany (fun u => [hexOrDash u]) m.proxies
    ++ tMany tSectionV m.sections
    ++ tMany tSymbolV m.symbols
    ++ tMany tAuxV m.aux

def tIRV (v : IRV) : List String :=
  ["irv", hexOrDash v.uuid, toString v.version]
    ++ tMany tModuleV v.modules ++ tMany tEdgeV v.edges ++ tMany tAuxV v.aux

def showIRV (v : IRV) : String := " ".intercalate (tIRV v)

def tMAux (kv : String × MAuxData) : List String :=
  ["aux", hexOfString kv.1, hexOfString kv.2.typeName, hexOrDash kv.2.data]

def tMEdge (e : MEdge) : List String :=
  ["edge", hexOrDash e.sourceUuid, hexOrDash e.targetUuid,
   tLabel (e.label.map fun l => (l.type, l.conditional, l.direct))]

def tMBlock (b : MBlock) : List String :=
  match b.value with
  | some (.code c) => ["c", toString b.offset, hexOrDash c.uuid, toString c.size, toString c.decodeMode]
  | some (.data d) => ["d", toString b.offset, hexOrDash d.uuid, toString d.size]
  | none => ["n", toString b.offset]

def tMExpr (kv : Nat × MSymExpr) : List String :=
  toString kv.1 ::
    (match kv.2.value with
     | some (.addrConst off s) => ["ac", toString off, hexOrDash s]
     | some (.addrAddr sc off s1 s2) =>
       ["aa", toString sc, toString off, hexOrDash s1, hexOrDash s2]
     | none => ["n"])
    ++ tNats kv.2.attributeFlags

def tMInterval (x : MByteInterval) : List String :=
  ["bi", hexOrDash x.uuid, tBool x.hasAddress, toString x.address, toString x.size,
   hexOrDash x.contents]
    ++ tMany tMBlock x.blocks ++ tMany tMExpr x.symbolicExpressions

def tMSection (s : MSection) : List String :=
  ["sec", hexOrDash s.uuid, hexOfString s.name] ++ tNats s.sectionFlags
    ++ tMany tMInterval s.byteIntervals

def tMPayload : Option MPayload → String
  | none => "-"
  | some (.value n) => s!"v{n}"
  | some (.referentUuid u) => "r" ++ hexOfBytes u

def tMSymbol (s : MSymbol) : List String :=
  ["sym", hexOrDash s.uuid, hexOfString s.name, tMPayload s.payload, tBool s.atEnd]

def tMModule (m : MModule) : List String :=
  ["mod", hexOrDash m.uuid, hexOfString m.name, hexOfString m.binaryPath,
   toString m.preferredAddr, toString m.rebaseDelta, toString m.fileFormat, toString m.isa,
   toString m.byteOrder, hexOrDash m.entryPoint]
    ++ tMany (fun u => [hexOrDash u]) m.proxies
    ++ tMany tMSection m.sections
    ++ tMany tMSymbol m.symbols
    ++ tMany tMAux m.auxData

/-- vertices are printed sorted (the CFG's vertex list is a set on the wire) -/
def tMIR (m : MIR) : List String :=
  ["mir", hexOrDash m.uuid, toString m.version]
    ++ tMany tMModule m.modules
    ++ tMany (fun u => [hexOrDash u]) (sortBy bytesLe m.cfg.vertices)
    ++ tMany tMEdge m.cfg.edges
    ++ tMany tMAux m.auxData

def showMIR (m : MIR) : String := " ".intercalate (tMIR m)

/-! ### commands -/

def errName : Err → String
  | .valueError => "err:value"
  | .deserializationError => "err:deser"
  | .typeError => "err:type"
  | .duplicateUuid => "err:dup"

/-- two `IRV`s following each other, nothing after -/
def readTwoIRV (ts : List String) : Option (IRV × IRV) :=
  match readIRV ts with
  | some (a, rest) =>
    match readIRV rest with
    | some (b, []) => some (a, b)
    | _ => none
  | none => none

def driverStep (line : String) : String :=
  match fields line with
  | "tomsg" :: ts =>
    match readIRV ts with
    | some (v, []) => showMIR (toMsg v)
    | _ => "bad-op"
  | "frommsg" :: ts =>
    match readMIR ts with
    | some (m, []) =>
      match fromMsg m with
      | .ok v => "ok " ++ showIRV v
      | .error e => errName e
    | _ => "bad-op"
  | "closed" :: ts =>
    match readMIR ts with
    | some (m, []) => tBool (closedMsg m)
    | _ => "bad-op"
  | "wf" :: ts =>
    match readIRV ts with
    | some (v, []) => tBool (wfir v)
    | _ => "bad-op"
  | "roundtrip" :: ts =>
    match readIRV ts with
    | some (v, []) =>
      match fromMsg (toMsg v) with
      | .ok v' => tBool (decide (v' = v))
      | .error _ => "0"
    | _ => "bad-op"
  | "deepeq" :: ts =>
    match readTwoIRV ts with
    | some (a, b) => tBool (deepEq a b)
    | none => "bad-op"
  | "loadm" :: ts =>
    -- the staged decoder over the object graph, on the skeleton of this message
    match readMIR ts with
    | some (m, []) =>
      match Loader.skelOf m with
      | none => "no-skeleton"
      | some sk =>
        match Loader.load {} sk with
        | .ok (g, ir) => "ok " ++ Loader.showLoaded g ir sk
        | .error .deser => "err:deser"
        | .error (.forest e) => "err:forest:" ++ Forest.excName e
    | _ => "bad-op"
  | "deepeqnodes" :: ts =>
    match readTwoIRV ts with
    | some (a, b) => " ".intercalate ((nodeVerdicts a b).foldr insertStr [])
    | none => "bad-op"
  | "canoneq" :: ts =>
    match readTwoIRV ts with
    | some (a, b) => tBool (decide (canon a = canon b))
    | none => "bad-op"
  | ["header"] => hexOrDash header
  | ["loadhdr", h] =>
    match bytesOfHex h with
    | some bs =>
      if bs.take 5 = Generated.magic
          ∧ (bs.drop 7).take 1 = [UInt8.ofNat Generated.protobufVersion] then "ok"
      else "ValueError"
    | none => "bad-op"
  | _ => "bad-op"

end Gtirb.Msg
