import GtirbModel.Msg
import GtirbModel.Loader
/-! From the message (`MIR`, the value-level reader's input) to the skeleton
the staged decoder `Loader.load` runs on: kinds, UUIDs (as numbers), nesting and
references. `none` for messages outside the skeleton's notation - a UUID field
that is not 16 bytes long, an unset one-of of a block or of a symbolic
expression, stored bytes longer than the interval: the real loader raises
`ValueError` / `TypeError` / `AttributeError` on those before or while it
builds the node, and the value-level reader `Proto.fromMsg` rejects them too.

This function links the two models of the reader: `Proto.fromMsg` (values, no
duplicated UUIDs) and `Loader.load` (object graph, any message). -/
namespace Gtirb.Loader
open Gtirb.Msg

/-- `uuid.UUID(bytes=b).int`: big-endian -/
def natOfBytes (b : Bytes) : Nat := b.foldl (fun acc x => acc * 256 + x.toNat) 0

def uOk (b : Bytes) : Bool := b.length == 16

def allSome {α} : List (Option α) → Option (List α)
  | [] => some []
  | none :: _ => none
  | some x :: r => (allSome r).map (x :: ·)

def skBlock (b : MBlock) : Option (Nat × Bool) :=
  match b.value with
  | some (.code c) => if uOk c.uuid then some (natOfBytes c.uuid, true) else none
  | some (.data d) => if uOk d.uuid then some (natOfBytes d.uuid, false) else none
  | none => none

def skExprSyms (e : MSymExpr) : Option (List Nat) :=
  match e.value with
  | some (.addrConst _ s) => if uOk s then some [natOfBytes s] else none
  | some (.addrAddr _ _ s1 s2) =>
    if uOk s1 && uOk s2 then some [natOfBytes s1, natOfBytes s2] else none
  | none => none

/-- an interval and the symbol UUIDs its expressions mention -/
def skInterval (x : MByteInterval) : Option (SkInterval × List Nat) :=
  if !uOk x.uuid || x.contents.length > x.size then none else
  match allSome (x.blocks.map skBlock), allSome (x.symbolicExpressions.map fun kv => skExprSyms kv.2) with
  | some bs, some es => some (⟨natOfBytes x.uuid, bs⟩, es.flatten)
  | _, _ => none

def skSection (s : MSection) : Option (SkSection × List Nat) :=
  if !uOk s.uuid then none else
  match allSome (s.byteIntervals.map skInterval) with
  | some xs => some (⟨natOfBytes s.uuid, xs.map (·.1)⟩, (xs.map (·.2)).flatten)
  | none => none

/-- names as dense numbers in order of first occurrence -/
def nameId (names : List String) (s : String) : Nat := names.eraseDups.idxOf s

def skSymbol (names : List String) (y : MSymbol) : Option SkSymbol :=
  if !uOk y.uuid then none else
  match y.payload with
  | none => some ⟨natOfBytes y.uuid, nameId names y.name, .none⟩
  | some (.value n) => some ⟨natOfBytes y.uuid, nameId names y.name, .int n⟩
  | some (.referentUuid u) =>
    if uOk u then some ⟨natOfBytes y.uuid, nameId names y.name, .ref (natOfBytes u)⟩ else none

def skModule (names : List String) (m : MModule) : Option SkModule :=
  if !uOk m.uuid || !(m.entryPoint.isEmpty || uOk m.entryPoint) || !(m.proxies.all uOk) then none else
  match allSome (m.sections.map skSection), allSome (m.symbols.map (skSymbol names)) with
  | some ss, some ys =>
    some { uuid := natOfBytes m.uuid, proxies := m.proxies.map natOfBytes,
           sections := ss.map (·.1), symbols := ys,
           entry := if m.entryPoint.isEmpty then none else some (natOfBytes m.entryPoint),
           exprSyms := (ss.map (·.2)).flatten }
  | _, _ => none

def skelOf (m : MIR) : Option SkIR :=
  let names := m.modules.flatMap fun md => md.symbols.map (·.name)
  if !uOk m.uuid || !(m.cfg.edges.all fun e => uOk e.sourceUuid && uOk e.targetUuid) then none else
  match allSome (m.modules.map (skModule names)) with
  | some ms => some ⟨natOfBytes m.uuid, ms, m.cfg.edges.map fun e => (natOfBytes e.sourceUuid, natOfBytes e.targetUuid)⟩
  | none => none

end Gtirb.Loader
