import GtirbModel.Loader
/-! Line protocol for the staged decoder over model C (`model loader`):
`load <skeleton>` runs `Loader.load` from the empty state and prints a
renaming-invariant description of the resulting IR (containment by UUIDs,
symbols with payloads, what the UUID table answers for every UUID of the
message), or the error class. -/
namespace Gtirb.Loader
open Gtirb.Forest

abbrev P (α : Type) := List String → Option (α × List String)

def pNat : P Nat
  | t :: r => (t.toNat?).map (·, r)
  | [] => none

def pMany {α} (p : P α) : Nat → P (List α)
  | 0, r => some ([], r)
  | n + 1, r =>
    match p r with
    | some (x, r1) => (pMany p n r1).map fun (xs, r2) => (x :: xs, r2)
    | none => none

def pCounted {α} (p : P α) : P (List α) := fun r =>
  match pNat r with
  | some (n, r1) => pMany p n r1
  | none => none

def pBlock : P (Nat × Bool)
  | k :: u :: r => (u.toNat?).map fun x => ((x, k == "c"), r)
  | _ => none

def pInterval : P SkInterval
  | "bi" :: u :: r =>
    match u.toNat?, pCounted pBlock r with
    | some x, some (bs, r1) => some (⟨x, bs⟩, r1)
    | _, _ => none
  | _ => none

def pSection : P SkSection
  | "sec" :: u :: r =>
    match u.toNat?, pCounted pInterval r with
    | some x, some (is, r1) => some (⟨x, is⟩, r1)
    | _, _ => none
  | _ => none

def pPayload (s : String) : Option SkPayload :=
  if s == "-" then some .none
  else if s.startsWith "i" then ((s.drop 1).toString.toNat?).map .int
  else if s.startsWith "r" then ((s.drop 1).toString.toNat?).map .ref
  else none

def pSymbol : P SkSymbol
  | "sym" :: u :: n :: pl :: r =>
    match u.toNat?, n.toNat?, pPayload pl with
    | some a, some b, some c => some (⟨a, b, c⟩, r)
    | _, _, _ => none
  | _ => none

def pModule : P SkModule
  | "mod" :: u :: e :: r =>
    match u.toNat?, (if e == "-" then some none else (e.toNat?).map some), pCounted pNat r with
    | some uu, some ent, some (ps, r1) =>
      match pCounted pSection r1 with
      | some (ss, r2) =>
        match pCounted pSymbol r2 with
        | some (ys, r3) =>
          match pCounted pNat r3 with
          | some (es, r4) => some (⟨uu, ps, ss, ys, ent, es⟩, r4)
          | none => none
        | none => none
      | none => none
    | _, _, _ => none
  | _ => none

def pEdge : P (Nat × Nat)
  | a :: b :: r =>
    match a.toNat?, b.toNat? with
    | some x, some y => some ((x, y), r)
    | _, _ => none
  | _ => none

def pIR : P SkIR
  | "ir" :: u :: r =>
    match u.toNat?, pCounted pModule r with
    | some uu, some (ms, r1) =>
      match pCounted pEdge r1 with
      | some (es, r2) => some (⟨uu, ms, es⟩, r2)
      | none => none
    | _, _ => none
  | _ => none

def sortStr (l : List String) : List String :=
  l.foldr (fun x acc =>
    let rec ins (x : String) : List String → List String
      | [] => [x]
      | y :: ys => if x ≤ y then x :: y :: ys else y :: ins x ys
    ins x acc) []

def kindCh : Kind → String
  | .ir => "R" | .module => "M" | .section => "S" | .interval => "I"
  | .code => "c" | .data => "d" | .proxy => "p" | .symbol => "y"

def descNode (g : G) (ir x : Nat) : String :=
  s!"{kindCh (g.kind x)}{g.uuid x}@{if irOf g x = some ir then 1 else 0}^" ++
    (match g.par x with | some p => s!"{kindCh (g.kind p)}{g.uuid p}" | none => "-")

def showBlock (g : G) (b : Nat) : String := s!"{kindCh (g.kind b)}{g.uuid b}"
def showInterval (g : G) (x : Nat) : String :=
  s!"i{g.uuid x}" ++ "{" ++ ",".intercalate (sortStr ((g.kids x .blocks).map (showBlock g))) ++ "}"
def showSection (g : G) (s : Nat) : String :=
  s!"s{g.uuid s}" ++ "{" ++ ",".intercalate (sortStr ((g.kids s .bis).map (showInterval g))) ++ "}"
def showSymbol (g : G) (ir y : Nat) : String :=
  s!"y{g.uuid y}:{g.name y}:" ++
    (match g.payload y with
     | .none => "-"
     | .int n => s!"i{n}"
     | .block b => "b" ++ descNode g ir b)
def showModule (g : G) (ir m : Nat) : String :=
  s!"m{g.uuid m}" ++ "{P[" ++ ",".intercalate (sortStr ((g.kids m .proxies).map fun p => s!"p{g.uuid p}")) ++
    "]S[" ++ ",".intercalate (sortStr ((g.kids m .secs).map (showSection g))) ++
    "]Y[" ++ ",".intercalate (sortStr ((g.kids m .syms).map (showSymbol g ir))) ++ "]}"

def SkIR.uuids (m : SkIR) : List Nat :=
  m.uuid :: m.modules.flatMap fun md =>
    md.uuid :: md.proxies ++ (md.sections.flatMap fun s =>
      s.uuid :: s.intervals.flatMap fun x => x.uuid :: x.blocks.map (·.1)) ++ md.symbols.map (·.uuid)

def showLoaded (g : G) (ir : Nat) (m : SkIR) : String :=
  "mods=[" ++ " ".intercalate ((g.kids ir .mods).map (showModule g ir)) ++ "] table=" ++
    " ".intercalate ((sortNat m.uuids.eraseDups).map fun u =>
      s!"{u}>" ++ (match g.cache ir u with
                   | some n => descNode g ir n
                   | none => "-"))

def driverStep (line : String) : String :=
  match fields line with
  | "load" :: r =>
    match pIR r with
    | some (m, []) =>
      match load {} m with
      | .ok (g, ir) => "ok " ++ showLoaded g ir m
      | .error .deser => "err:deser"
      | .error (.forest e) => "err:forest:" ++ excName e
    | _ => "bad-op"
  | _ => "bad-op"

end Gtirb.Loader
