import GtirbModel.Util
import GtirbModel.TypeName
/-! Model A: the AuxData binary codec.

`encode` is the transcription of the *format definition* (include/gtirb/
AuxData.hpp, "Serialization Format", and the `auxdata_traits` specialisations):
fixed-width little-endian integers, IEEE bit patterns little-endian, one byte
for bool, 16 raw bytes for a UUID, Offset = UUID then uint64, string = uint64
count of UTF-8 bytes then the bytes, sequence/set/mapping = uint64 element
count then the elements, tuple = the fields, variant = uint64 index then the
alternative.  `decode` mirrors the Python decoders (python/gtirb/
serialization.py): a set de-duplicates, a mapping keeps the last value for a
repeated key, bool is `byte != 0`, and the unknown-codec error and the
wrong-arity error of a known head are raised only when decoding *reaches* the
head. Reads are strict (a short read is an
error of the model; the Python code returns short values, which no property
speaks about). -/
namespace Gtirb.Codec

inductive Leaf where
  | u8 | u16 | u32 | u64 | i8 | i16 | i32 | i64 | addr
  | bool | f32 | f64 | string | uuid | offset
  deriving DecidableEq, Repr, Inhabited

inductive Ty where
  | leaf (l : Leaf)
  | seq (t : Ty)
  | set (t : Ty)
  | map (k v : Ty)
  | tuple (ts : List Ty)
  | variant (ts : List Ty)
  | unknown (name : String) (args : List Ty)
  /-- a KNOWN head used with an arity its codec rejects (`sequence<a,b>`,
  `string<int8_t>`, ...): the Python codecs test the arity first thing in
  `decode` / `encode`, i.e. only when coding *reaches* the head -/
  | badArity (name : String) (args : List Ty)
  deriving Repr, Inhabited

/-- Values. `uuid` is a plain UUID (16 bytes), `node` a Node object of the IR
(named by its object id), `offset e d` has `e` a `uuid` or a `node`.
A mapping is kept as two parallel lists (keys, values). -/
inductive Val where
  | int (n : Int)
  | bool (b : Bool)
  | f32 (bits : Nat)
  | f64 (bits : Nat)
  | str (s : String)
  | uuid (u : Bytes)
  | node (id : Nat)
  | offset (e : Val) (d : Nat)
  | seq (xs : List Val)
  | set (xs : List Val)
  | map (ks : List Val) (vs : List Val)
  | tuple (xs : List Val)
  | variant (i : Nat) (v : Val)
  deriving Repr, Inhabited

/-! ### integers and bytes -/

def leBytes : Nat → Nat → Bytes
  | 0, _ => []
  | w + 1, n => UInt8.ofNat (n % 256) :: leBytes w (n / 256)

def leNat : Bytes → Nat
  | [] => 0
  | b :: bs => b.toNat + 256 * leNat bs

def Leaf.width : Leaf → Nat
  | .u8 | .i8 => 1
  | .u16 | .i16 => 2
  | .u32 | .i32 => 4
  | .u64 | .i64 | .addr => 8
  | .bool => 1
  | .f32 => 4
  | .f64 => 8
  | .string => 0
  | .uuid => 16
  | .offset => 24

def Leaf.signed : Leaf → Bool
  | .i8 | .i16 | .i32 | .i64 => true
  | _ => false

def Leaf.isInt : Leaf → Bool
  | .u8 | .u16 | .u32 | .u64 | .i8 | .i16 | .i32 | .i64 | .addr => true
  | _ => false

def intInRange (signed : Bool) (w : Nat) (n : Int) : Bool :=
  if signed then decide (-(256 ^ w / 2 : Int) ≤ n ∧ n < (256 ^ w / 2 : Int))
  else decide (0 ≤ n ∧ n < (256 ^ w : Int))

def encodeInt (signed : Bool) (w : Nat) (n : Int) : Option Bytes :=
  if intInRange signed w n then some (leBytes w (n % (256 ^ w : Int)).toNat)
  else none

def decodeIntBytes (signed : Bool) (w : Nat) (bs : Bytes) : Int :=
  let x := leNat bs
  if signed && decide (256 ^ w / 2 ≤ x) then (x : Int) - (256 ^ w : Int) else (x : Int)

def u64 (n : Nat) : Bytes := leBytes 8 n

def splitAt? (n : Nat) (bs : Bytes) : Option (Bytes × Bytes) :=
  if n ≤ bs.length then some (bs.take n, bs.drop n) else none

/-! ### value equality as Python sees it (`==`), used by set/dict on decode -/

def floatEq (expBits mantBits : Nat) (a b : Nat) : Bool :=
  let isNaN (x : Nat) : Bool :=
    (x / 2 ^ mantBits) % 2 ^ expBits == 2 ^ expBits - 1 && x % 2 ^ mantBits != 0
  let isZero (x : Nat) : Bool := x % 2 ^ (expBits + mantBits) == 0
  !isNaN a && !isNaN b && (a == b || (isZero a && isZero b))

mutual
def Val.beq : Val → Val → Bool
  | .int a, .int b => a == b
  | .bool a, .bool b => a == b
  | .f32 a, .f32 b => floatEq 8 23 a b
  | .f64 a, .f64 b => floatEq 11 52 a b
  | .str a, .str b => a == b
  | .uuid a, .uuid b => a == b
  | .node a, .node b => a == b
  | .offset e d, .offset e' d' => Val.beq e e' && d == d'
  | .seq xs, .seq ys => Val.beqList xs ys
  | .set xs, .set ys => Val.beqList xs ys
  | .map ks vs, .map ks' vs' => Val.beqList ks ks' && Val.beqList vs vs'
  | .tuple xs, .tuple ys => Val.beqList xs ys
  | .variant i v, .variant j w => i == j && Val.beq v w
  | _, _ => false
def Val.beqList : List Val → List Val → Bool
  | [], [] => true
  | x :: xs, y :: ys => Val.beq x y && Val.beqList xs ys
  | _, _ => false
end

def memVal (x : Val) : List Val → Bool
  | [] => false
  | y :: ys => Val.beq y x || memVal x ys

/-- `set.add` in decode order: keep the first of equal elements. -/
def setInsert (acc : List Val) (x : Val) : List Val :=
  if memVal x acc then acc else acc ++ [x]

/-- `dict[k] = v` in decode order: a repeated key keeps its position and takes
the new value. -/
def mapInsert : List Val → List Val → Val → Val → List Val × List Val
  | [], _, k, v => ([k], [v])
  | k' :: ks, v' :: vs, k, v =>
    if Val.beq k' k then (k' :: ks, v :: vs)
    else let (ks', vs') := mapInsert ks vs k v; (k' :: ks', v' :: vs')
  | k' :: ks, [], k, v => (k' :: ks ++ [k], [v])

/-! ### encode: the documented format -/

def encodeElem (nodeUuid : Nat → Bytes) : Val → Option Bytes
  | .uuid u => if u.length = 16 then some u else none
  | .node id => let u := nodeUuid id; if u.length = 16 then some u else none
  | _ => none

def encodeLeaf (nodeUuid : Nat → Bytes) : Leaf → Val → Option Bytes
  | .bool, .bool b => some [if b then 1 else 0]
  | .f32, .f32 bits => if bits < 2 ^ 32 then some (leBytes 4 bits) else none
  | .f64, .f64 bits => if bits < 2 ^ 64 then some (leBytes 8 bits) else none
  | .string, .str s =>
    let bs := s.toUTF8.toList
    if bs.length < 2 ^ 64 then some (u64 bs.length ++ bs) else none
  | .uuid, v => encodeElem nodeUuid v
  | .offset, .offset e d =>
    match encodeElem nodeUuid e with
    | some u => if d < 2 ^ 64 then some (u ++ u64 d) else none
    | none => none
  | l, .int n => if l.isInt then encodeInt l.signed l.width n else none
  | _, _ => none

def encodeMany (f : Val → Option Bytes) : List Val → Option Bytes
  | [] => some []
  | x :: xs =>
    match f x, encodeMany f xs with
    | some a, some b => some (a ++ b)
    | _, _ => none

def encodeManyPairs (f g : Val → Option Bytes) : List Val → List Val → Option Bytes
  | [], [] => some []
  | k :: ks, v :: vs =>
    match f k, g v, encodeManyPairs f g ks vs with
    | some a, some b, some c => some (a ++ b ++ c)
    | _, _, _ => none
  | _, _ => none

mutual
def encode (nodeUuid : Nat → Bytes) : Ty → Val → Option Bytes
  | .leaf l, v => encodeLeaf nodeUuid l v
  | .seq t, .seq xs =>
    match encodeMany (encode nodeUuid t) xs with
    | some bs => if xs.length < 2 ^ 64 then some (u64 xs.length ++ bs) else none
    | none => none
  | .set t, .set xs =>
    match encodeMany (encode nodeUuid t) xs with
    | some bs => if xs.length < 2 ^ 64 then some (u64 xs.length ++ bs) else none
    | none => none
  | .map kt vt, .map ks vs =>
    match encodeManyPairs (encode nodeUuid kt) (encode nodeUuid vt) ks vs with
    | some bs => if ks.length < 2 ^ 64 then some (u64 ks.length ++ bs) else none
    | none => none
  | .tuple ts, .tuple xs => encodeTuple nodeUuid ts xs
  | .variant ts, .variant i v =>
    match encodeNth nodeUuid ts i v with
    | some bs => if i < 2 ^ 64 then some (u64 i ++ bs) else none
    | none => none
  | _, _ => none      -- in particular under `.unknown` and `.badArity` (EncodeError when reached)
def encodeTuple (nodeUuid : Nat → Bytes) : List Ty → List Val → Option Bytes
  | [], [] => some []
  | t :: ts, x :: xs =>
    match encode nodeUuid t x, encodeTuple nodeUuid ts xs with
    | some a, some b => some (a ++ b)
    | _, _ => none
  | _, _ => none
def encodeNth (nodeUuid : Nat → Bytes) : List Ty → Nat → Val → Option Bytes
  | [], _, _ => none
  | t :: _, 0, v => encode nodeUuid t v
  | _ :: ts, i + 1, v => encodeNth nodeUuid ts i v
end

/-! ### decode: the Python decoders -/

inductive Res (α : Type) where
  | ok (a : α)
  | short
  | badUtf8
  | badIndex
  | unknownCodec (name : String)
  | badArity        -- a known head with a rejected arity was reached (DecodeError)
  deriving Repr

def decodeElem (lookup : Bytes → Option Nat) (bs : Bytes) : Res (Val × Bytes) :=
  match splitAt? 16 bs with
  | none => .short
  | some (u, rest) =>
    match lookup u with
    | some id => .ok (.node id, rest)
    | none => .ok (.uuid u, rest)

def decodeLeaf (lookup : Bytes → Option Nat) (l : Leaf) (bs : Bytes) : Res (Val × Bytes) :=
  match l with
  | .bool =>
    match bs with
    | [] => .short
    | b :: rest => .ok (.bool (b != 0), rest)
  | .f32 =>
    match splitAt? 4 bs with
    | none => .short
    | some (x, rest) => .ok (.f32 (leNat x), rest)
  | .f64 =>
    match splitAt? 8 bs with
    | none => .short
    | some (x, rest) => .ok (.f64 (leNat x), rest)
  | .string =>
    match splitAt? 8 bs with
    | none => .short
    | some (x, rest) =>
      match splitAt? (leNat x) rest with
      | none => .short
      | some (sb, rest') =>
        match String.fromUTF8? (ByteArray.mk sb.toArray) with
        | some s => .ok (.str s, rest')
        | none => .badUtf8
  | .uuid => decodeElem lookup bs
  | .offset =>
    match decodeElem lookup bs with
    | .ok (e, rest) =>
      match splitAt? 8 rest with
      | none => .short
      | some (x, rest') => .ok (.offset e (leNat x), rest')
    | .short => .short
    | .badUtf8 => .badUtf8
    | .badIndex => .badIndex
    | .unknownCodec n => .unknownCodec n
    | .badArity => .badArity
  | l =>
    match splitAt? l.width bs with
    | none => .short
    | some (x, rest) => .ok (.int (decodeIntBytes l.signed l.width x), rest)

/-- decode `n` elements with `f`, left to right -/
def decodeMany (f : Bytes → Res (Val × Bytes)) : Nat → Bytes → Res (List Val × Bytes)
  | 0, bs => .ok ([], bs)
  | n + 1, bs =>
    match f bs with
    | .ok (v, rest) =>
      match decodeMany f n rest with
      | .ok (vs, rest') => .ok (v :: vs, rest')
      | .short => .short
      | .badUtf8 => .badUtf8
      | .badIndex => .badIndex
      | .unknownCodec nm => .unknownCodec nm
      | .badArity => .badArity
    | .short => .short
    | .badUtf8 => .badUtf8
    | .badIndex => .badIndex
    | .unknownCodec nm => .unknownCodec nm
    | .badArity => .badArity

def decodeManyPairs (f g : Bytes → Res (Val × Bytes)) :
    Nat → Bytes → Res (List Val × List Val × Bytes)
  | 0, bs => .ok ([], [], bs)
  | n + 1, bs =>
    match f bs with
    | .ok (k, rest) =>
      match g rest with
      | .ok (v, rest') =>
        match decodeManyPairs f g n rest' with
        | .ok (ks, vs, rest'') => .ok (k :: ks, v :: vs, rest'')
        | .short => .short
        | .badUtf8 => .badUtf8
        | .badIndex => .badIndex
        | .unknownCodec nm => .unknownCodec nm
        | .badArity => .badArity
      | .short => .short
      | .badUtf8 => .badUtf8
      | .badIndex => .badIndex
      | .unknownCodec nm => .unknownCodec nm
      | .badArity => .badArity
    | .short => .short
    | .badUtf8 => .badUtf8
    | .badIndex => .badIndex
    | .unknownCodec nm => .unknownCodec nm
    | .badArity => .badArity

def dedup (xs : List Val) : List Val := xs.foldl setInsert []

def mapBuild : List Val → List Val → List Val × List Val
  | ks, vs => (ks.zip vs).foldl (fun acc kv => mapInsert acc.1 acc.2 kv.1 kv.2) ([], [])

mutual
def decode (lookup : Bytes → Option Nat) : Ty → Bytes → Res (Val × Bytes)
  | .leaf l, bs => decodeLeaf lookup l bs
  | .seq t, bs =>
    match splitAt? 8 bs with
    | none => .short
    | some (x, rest) =>
      match decodeMany (decode lookup t) (leNat x) rest with
      | .ok (vs, rest') => .ok (.seq vs, rest')
      | .short => .short
      | .badUtf8 => .badUtf8
      | .badIndex => .badIndex
      | .unknownCodec nm => .unknownCodec nm
      | .badArity => .badArity
  | .set t, bs =>
    match splitAt? 8 bs with
    | none => .short
    | some (x, rest) =>
      match decodeMany (decode lookup t) (leNat x) rest with
      | .ok (vs, rest') => .ok (.set (dedup vs), rest')
      | .short => .short
      | .badUtf8 => .badUtf8
      | .badIndex => .badIndex
      | .unknownCodec nm => .unknownCodec nm
      | .badArity => .badArity
  | .map kt vt, bs =>
    match splitAt? 8 bs with
    | none => .short
    | some (x, rest) =>
      match decodeManyPairs (decode lookup kt) (decode lookup vt) (leNat x) rest with
      | .ok (ks, vs, rest') => let (ks', vs') := mapBuild ks vs; .ok (.map ks' vs', rest')
      | .short => .short
      | .badUtf8 => .badUtf8
      | .badIndex => .badIndex
      | .unknownCodec nm => .unknownCodec nm
      | .badArity => .badArity
  | .tuple ts, bs =>
    match decodeTuple lookup ts bs with
    | .ok (vs, rest) => .ok (.tuple vs, rest)
    | .short => .short
    | .badUtf8 => .badUtf8
    | .badIndex => .badIndex
    | .unknownCodec nm => .unknownCodec nm
    | .badArity => .badArity
  | .variant ts, bs =>
    match splitAt? 8 bs with
    | none => .short
    | some (x, rest) =>
      match decodeNth lookup ts (leNat x) rest with
      | .ok (v, rest') => .ok (.variant (leNat x) v, rest')
      | .short => .short
      | .badUtf8 => .badUtf8
      | .badIndex => .badIndex
      | .unknownCodec nm => .unknownCodec nm
      | .badArity => .badArity
  | .unknown name _, _ => .unknownCodec name
  | .badArity _ _, _ => .badArity
def decodeTuple (lookup : Bytes → Option Nat) : List Ty → Bytes → Res (List Val × Bytes)
  | [], bs => .ok ([], bs)
  | t :: ts, bs =>
    match decode lookup t bs with
    | .ok (v, rest) =>
      match decodeTuple lookup ts rest with
      | .ok (vs, rest') => .ok (v :: vs, rest')
      | .short => .short
      | .badUtf8 => .badUtf8
      | .badIndex => .badIndex
      | .unknownCodec nm => .unknownCodec nm
      | .badArity => .badArity
    | .short => .short
    | .badUtf8 => .badUtf8
    | .badIndex => .badIndex
    | .unknownCodec nm => .unknownCodec nm
    | .badArity => .badArity
def decodeNth (lookup : Bytes → Option Nat) : List Ty → Nat → Bytes → Res (Val × Bytes)
  | [], _, _ => .badIndex
  | t :: _, 0, bs => decode lookup t bs
  | _ :: ts, i + 1, bs => decodeNth lookup ts i bs
end

/-! ### type names -> `Ty` (the codec table of `Serialization.__init__`) -/

def leafOfName (s : String) : Option Leaf :=
  match s with
  | "uint8_t" => some .u8 | "uint16_t" => some .u16 | "uint32_t" => some .u32
  | "uint64_t" => some .u64 | "int8_t" => some .i8 | "int16_t" => some .i16
  | "int32_t" => some .i32 | "int64_t" => some .i64 | "Addr" => some .addr
  | "bool" => some .bool | "float" => some .f32 | "double" => some .f64
  | "string" => some .string | "UUID" => some .uuid | "Offset" => some .offset
  | _ => none

def isContainerName (s : String) : Bool :=
  s == "sequence" || s == "set" || s == "mapping" || s == "tuple" || s == "variant"

mutual
/-- Never `none` (`tyOfTree_isSome`; the `Option` is kept for its users): a
known head used with an arity its codec rejects becomes a `badArity` node,
which fails when coding reaches it (the Python codecs raise DecodeError /
EncodeError there, and only there). -/
def tyOfTree : TypeName.Tree → Option Ty
  | .node n ks =>
    let name := String.ofList n
    match tysOfTrees ks with
    | none => none
    | some args =>
      match leafOfName name with
      | some l => if args.isEmpty then some (.leaf l) else some (.badArity name args)
      | none =>
        if name == "sequence" then
          match args with | [t] => some (.seq t) | _ => some (.badArity name args)
        else if name == "set" then
          match args with | [t] => some (.set t) | _ => some (.badArity name args)
        else if name == "mapping" then
          match args with | [k, v] => some (.map k v) | _ => some (.badArity name args)
        else if name == "tuple" then some (.tuple args)
        else if name == "variant" then some (.variant args)
        else some (.unknown name args)
def tysOfTrees : List TypeName.Tree → Option (List Ty)
  | [] => some []
  | t :: ts =>
    match tyOfTree t, tysOfTrees ts with
    | some a, some b => some (a :: b)
    | _, _ => none
end

mutual
/-- no known head with a rejected arity anywhere (what `tyOfTree` used to
demand of the whole name before the arity test was made lazy) -/
def arityOk : Ty → Bool
  | .leaf _ => true
  | .seq t => arityOk t
  | .set t => arityOk t
  | .map k v => arityOk k && arityOk v
  | .tuple ts => arityOkList ts
  | .variant ts => arityOkList ts
  | .unknown _ args => arityOkList args
  | .badArity _ _ => false
def arityOkList : List Ty → Bool
  | [] => true
  | t :: ts => arityOk t && arityOkList ts
end

def tyOfName (s : String) : Option Ty :=
  match TypeName.parseType s.toList with
  | some t => tyOfTree t
  | none => none

end Gtirb.Codec
