import GtirbModel.Util
/-! Model D: the lazily maintained interval indexes and the lookups built on
them (python/gtirb/lazyintervaltree.py, util.py:452-554, byteinterval.py,
section.py, module.py, ir.py).

`intervaltree.IntervalTree` is modelled as a finite set of `(begin, end,
data)` triples (a duplicate-free list) with `add` / `discard` / `overlap` /
`begin` / `end` / `len`; its balancing is not modelled. The lazy wrapper keeps
`tree : Option Tree` and the list of pending events exactly as the code does,
including the three branches of `get`. -/
namespace Gtirb.Index

structure Iv where
  lo : Int
  hi : Int
  data : Nat
  deriving DecidableEq, Repr

abbrev Tree := List Iv

def treeAdd (t : Tree) (iv : Iv) : Tree := if iv ∈ t then t else t ++ [iv]
def treeDiscard (t : Tree) (iv : Iv) : Tree := t.erase iv
def treeOfList (ivs : List Iv) : Tree := ivs.foldl treeAdd []

/-- `IntervalTree.overlap(b, e)`: nothing for an empty query range -/
def overlap (t : Tree) (b e : Int) : List Iv :=
  if b ≥ e then [] else t.filter fun iv => decide (iv.lo < e ∧ iv.hi > b)

def treeBegin (t : Tree) : Int := t.foldl (fun m iv => if iv.lo < m then iv.lo else m) (match t with | [] => 0 | iv :: _ => iv.lo)
def treeEnd (t : Tree) : Int := t.foldl (fun m iv => if iv.hi > m then iv.hi else m) (match t with | [] => 0 | iv :: _ => iv.hi)

structure Lazy where
  tree : Option Tree := none
  /-- pending events: `true` = ADDED, `false` = DISCARDED -/
  events : List (Bool × Iv) := []
  deriving Repr

def Lazy.add (l : Lazy) (iv : Option Iv) : Lazy :=
  match iv with
  | some i => { l with events := l.events ++ [(true, i)] }
  | none => l

def Lazy.discard (l : Lazy) (iv : Option Iv) : Lazy :=
  match iv with
  | some i => { l with events := l.events ++ [(false, i)] }
  | none => l

def replay (t : Tree) (evs : List (Bool × Iv)) : Tree :=
  evs.foldl (fun t ev => if ev.1 then treeAdd t ev.2 else treeDiscard t ev.2) t

/-- `LazyIntervalTree.get`: `current` = the intervals of the value collection
right now, `nvalues` = `len(value_collection)`. Three branches: first build,
rebuild when there are at least as many pending events as values, replay
otherwise. -/
def Lazy.get (l : Lazy) (current : List Iv) (nvalues : Nat) : Lazy × Tree :=
  let t := match l.tree with
    | none => treeOfList current
    | some t => if nvalues ≤ l.events.length then treeOfList current else replay t l.events
  ({ tree := some t, events := [] }, t)

/-! ### the structure the indexes are about -/

structure Blk where
  id : Nat
  isCode : Bool
  offset : Nat
  size : Nat
  bi : Option Nat
  deriving Repr

structure BI where
  id : Nat
  addr : Option Nat
  size : Nat
  sec : Option Nat
  lz : Lazy := {}          -- `_interval_tree` over the blocks, keyed by offset
  deriving Repr

structure Sec where
  id : Nat
  lz : Lazy := {}          -- `_interval_index` over the addressed intervals
  deriving Repr

structure D where
  blks : List Blk := []
  bis : List BI := []
  secs : List Sec := []
  deriving Repr

def D.blk? (d : D) (b : Nat) : Option Blk := d.blks.find? (·.id == b)
def D.bi? (d : D) (x : Nat) : Option BI := d.bis.find? (·.id == x)
def D.sec? (d : D) (s : Nat) : Option Sec := d.secs.find? (·.id == s)

def D.setBlk (d : D) (b : Blk) : D := { d with blks := d.blks.map fun x => if x.id == b.id then b else x }
def D.setBI (d : D) (b : BI) : D := { d with bis := d.bis.map fun x => if x.id == b.id then b else x }
def D.setSec (d : D) (s : Sec) : D := { d with secs := d.secs.map fun x => if x.id == s.id then s else x }

/-- `_offset_interval(block)` -/
def offsetIv (b : Blk) : Iv := ⟨b.offset, (b.offset : Int) + b.size + 1, b.id⟩

/-- `_address_interval(byte_interval)`: none without an address -/
def addrIvBI (x : BI) : Option Iv := x.addr.map fun a => ⟨a, (a : Int) + x.size + 1, x.id⟩

def D.blocksOf (d : D) (x : Nat) : List Blk := d.blks.filter (·.bi == some x)
def D.bisOf (d : D) (s : Nat) : List BI := d.bis.filter (·.sec == some s)

def lzUpdBI (d : D) (x : Nat) (f : Lazy → Lazy) : D :=
  match d.bi? x with
  | some bi => d.setBI { bi with lz := f bi.lz }
  | none => d

def lzUpdSec (d : D) (s : Nat) (f : Lazy → Lazy) : D :=
  match d.sec? s with
  | some sc => d.setSec { sc with lz := f sc.lz }
  | none => d

/-! ### edits (each with the index events the code records) -/

/-- `_IndexedAttribute` setter of `ByteBlock.offset/size` -/
def blkSet (d : D) (b : Nat) (offset size : Nat) : D :=
  match d.blk? b with
  | none => d
  | some blk =>
    let d1 := match blk.bi with
      | some x => lzUpdBI d x (·.discard (some (offsetIv blk)))
      | none => d
    let blk' := { blk with offset := offset, size := size }
    let d2 := d1.setBlk blk'
    match blk.bi with
    | some x => lzUpdBI d2 x (·.add (some (offsetIv blk')))
    | none => d2

/-- move a block (either end: `block.byte_interval = x`, `x.blocks.add(block)`,
`discard`, ...): discard event at the old interval, add event at the new one.
`x.blocks.add(b)` with `b` already in `x` records nothing (`new_items = ... -
self._data`, `readd = false`); the parent *setter* `b.byte_interval = x`
discards and re-adds even then (`readd = true`). -/
def blkMove (d : D) (b : Nat) (dst : Option Nat) (readd : Bool) : D :=
  match d.blk? b with
  | none => d
  | some blk =>
    if blk.bi == dst && !readd then d else
    let d1 := match blk.bi with
      | some x => lzUpdBI d x (·.discard (some (offsetIv blk)))
      | none => d
    let d2 := d1.setBlk { blk with bi := dst }
    match dst with
    | some x => lzUpdBI d2 x (·.add (some (offsetIv blk)))
    | none => d2

/-- `_IndexedAttribute` setter of `ByteInterval.address/size` -/
def biSet (d : D) (x : Nat) (addr : Option Nat) (size : Nat) : D :=
  match d.bi? x with
  | none => d
  | some bi =>
    let d1 := match bi.sec with
      | some s => lzUpdSec d s (·.discard (addrIvBI bi))
      | none => d
    let bi' := { bi with addr := addr, size := size }
    let d2 := d1.setBI { bi' with lz := (match d1.bi? x with | some y => y.lz | none => bi.lz) }
    match bi.sec with
    | some s => lzUpdSec d2 s (·.add (addrIvBI bi'))
    | none => d2

/-- move an interval between sections. `Section._ByteIntervalSet.add` always
discards from the old owner and re-adds, even when the owner is unchanged. -/
def biMove (d : D) (x : Nat) (dst : Option Nat) (readd : Bool) : D :=
  match d.bi? x with
  | none => d
  | some bi =>
    if bi.sec == dst && !readd then d else
    let d1 := match bi.sec with
      | some s => lzUpdSec d s (·.discard (addrIvBI bi))
      | none => d
    let d2 := match d1.bi? x with
      | some y => d1.setBI { y with sec := dst }
      | none => d1
    match dst with
    | some s => lzUpdSec d2 s (·.add (addrIvBI bi))
    | none => d2

/-! ### lookups -/

/-- `(start, stop, step)` of `get_desired_range(addrs)`, step >= 1 -/
structure Rng where
  start : Int
  stop : Int
  step : Nat
  deriving Repr

def Rng.mem (r : Rng) (x : Int) : Bool :=
  decide (r.start ≤ x ∧ x < r.stop) && (if r.step == 0 then false else (x - r.start) % (r.step : Int) == 0)

/-- force the block index of interval `x` up to date; returns the tree -/
def getBI (d : D) (x : Nat) : D × Tree :=
  match d.bi? x with
  | none => (d, [])
  | some bi =>
    let cur := (d.blocksOf x).map offsetIv
    let (lz', t) := bi.lz.get cur (d.blocksOf x).length
    (d.setBI { bi with lz := lz' }, t)

def getSec (d : D) (s : Nat) : D × Tree :=
  match d.sec? s with
  | none => (d, [])
  | some sc =>
    let cur := (d.bisOf s).filterMap addrIvBI
    let (lz', t) := sc.lz.get cur (d.bisOf s).length
    (d.setSec { sc with lz := lz' }, t)

/-- `_nodes_on_interval_tree_impl` for blocks: `getter` recomputes the node's
interval from its current attributes in the query's coordinate space -/
def nodesOn (t : Tree) (r : Rng) (adj : Int) (getter : Nat → Option Iv) : List Nat :=
  (overlap t (r.start + adj) (r.stop + adj)).filterMap fun iv =>
    match getter iv.data with
    | none => none
    | some ni =>
      if ni.hi - ni.lo - 1 == 0 then none
      else if ni.hi - 1 ≤ r.start then none
      else some iv.data

def nodesAt (t : Tree) (r : Rng) (adj : Int) (getter : Nat → Option Iv) : List Nat :=
  (overlap t (r.start + adj) (r.stop + adj)).filterMap fun iv =>
    match getter iv.data with
    | none => none
    | some b => if r.mem b.lo then some iv.data else none

def blkOffsetIv (d : D) (b : Nat) : Option Iv := (d.blk? b).map offsetIv

/-- `_address_interval(block)`: block.address = interval address + offset -/
def blkAddrIv (d : D) (b : Nat) : Option Iv :=
  match d.blk? b with
  | none => none
  | some blk =>
    match blk.bi.bind d.bi? with
    | none => none
    | some bi => bi.addr.map fun a => ⟨(a : Int) + blk.offset, (a : Int) + blk.offset + blk.size + 1, b⟩

def biAddrIv (d : D) (x : Nat) : Option Iv := (d.bi? x).bind addrIvBI

/-- byte-interval scope -/
def biBlocksOnOffset (d : D) (x : Nat) (r : Rng) : D × List Nat :=
  let (d', t) := getBI d x; (d', nodesOn t r 0 (blkOffsetIv d'))
def biBlocksAtOffset (d : D) (x : Nat) (r : Rng) : D × List Nat :=
  let (d', t) := getBI d x; (d', nodesAt t r 0 (blkOffsetIv d'))
def biBlocksOn (d : D) (x : Nat) (r : Rng) : D × List Nat :=
  match (d.bi? x).bind (·.addr) with
  | none => (d, [])
  | some a => let (d', t) := getBI d x; (d', nodesOn t r (-(a : Int)) (blkAddrIv d'))
def biBlocksAt (d : D) (x : Nat) (r : Rng) : D × List Nat :=
  match (d.bi? x).bind (·.addr) with
  | none => (d, [])
  | some a => let (d', t) := getBI d x; (d', nodesAt t r (-(a : Int)) (blkAddrIv d'))

/-- section scope -/
def secBisOn (d : D) (s : Nat) (r : Rng) : D × List Nat :=
  let (d', t) := getSec d s; (d', nodesOn t r 0 (biAddrIv d'))
def secBisAt (d : D) (s : Nat) (r : Rng) : D × List Nat :=
  let (d', t) := getSec d s; (d', nodesAt t r 0 (biAddrIv d'))

def chain (f : D → Nat → D × List Nat) (d : D) (xs : List Nat) : D × List Nat :=
  xs.foldl (fun acc x => let (d', r) := f acc.1 x; (d', acc.2 ++ r)) (d, [])

/-- `for interval in self.byte_intervals_on(addrs): yield from interval.byte_blocks_on(addrs)` -/
def secBlocksOn (d : D) (s : Nat) (r : Rng) : D × List Nat :=
  let (d1, xs) := secBisOn d s r; chain (fun d x => biBlocksOn d x r) d1 xs
def secBlocksAt (d : D) (s : Nat) (r : Rng) : D × List Nat :=
  let (d1, xs) := secBisOn d s r; chain (fun d x => biBlocksAt d x r) d1 xs

/-- `Section.address` / `Section.size` -/
def secExtent (d : D) (s : Nat) : D × Option (Int × Int) :=
  let (d', t) := getSec d s
  if 0 < t.length ∧ t.length = (d'.bisOf s).length then (d', some (treeBegin t, treeEnd t - treeBegin t - 1))
  else (d', none)

/-- `Module.sections_on` / `IR.sections_on` = `util.nodes_on(self.sections, addrs)`:
a linear scan over `Section.address` / `Section.size` (each of which forces the
section's interval index); the node's range must intersect the envelope of the
query -/
def secsOn (d : D) (ss : List Nat) (r : Rng) : D × List Nat :=
  ss.foldl (fun acc s =>
    let (d', e) := secExtent acc.1 s
    match e with
    | some (a, z) => if max r.start a < min r.stop (a + z) then (d', acc.2 ++ [s]) else (d', acc.2)
    | none => (d', acc.2)) (d, [])

/-- `sections_at` = `util.nodes_at`: the section's address is a member of the range -/
def secsAt (d : D) (ss : List Nat) (r : Rng) : D × List Nat :=
  ss.foldl (fun acc s =>
    let (d', e) := secExtent acc.1 s
    match e with
    | some (a, _) => if r.mem a then (d', acc.2 ++ [s]) else (d', acc.2)
    | none => (d', acc.2)) (d, [])

/-- specification side: a section's extent by scanning its intervals -/
def scanExtent (d : D) (s : Nat) : Option (Int × Int) :=
  let bis := d.bisOf s
  if bis.isEmpty || bis.any (fun x => x.addr.isNone) then none
  else
    let addrs := bis.filterMap (fun x => x.addr.map fun a => ((a : Int), (a : Int) + x.size))
    match addrs with
    | [] => none
    | p :: ps =>
      let lo := ps.foldl (fun m q => if q.1 < m then q.1 else m) p.1
      let hi := ps.foldl (fun m q => if q.2 > m then q.2 else m) p.2
      some (lo, hi - lo)

/-! ### the fresh scan the lookups are compared with (specification side) -/

def scanBlocksOnOffset (d : D) (x : Nat) (r : Rng) : List Nat :=
  ((d.blocksOf x).filter fun b =>
    b.size != 0 && decide (r.start < r.stop ∧ (b.offset : Int) < r.stop ∧ (b.offset : Int) + b.size > r.start)).map (·.id)

def scanBlocksAtOffset (d : D) (x : Nat) (r : Rng) : List Nat :=
  ((d.blocksOf x).filter fun b => r.mem b.offset).map (·.id)

def scanBlocksOn (d : D) (x : Nat) (r : Rng) : List Nat :=
  match (d.bi? x).bind (·.addr) with
  | none => []
  | some a => ((d.blocksOf x).filter fun b =>
      b.size != 0 && decide (r.start < r.stop ∧ (a : Int) + b.offset < r.stop ∧ (a : Int) + b.offset + b.size > r.start)).map (·.id)

def scanBlocksAt (d : D) (x : Nat) (r : Rng) : List Nat :=
  match (d.bi? x).bind (·.addr) with
  | none => []
  | some a => ((d.blocksOf x).filter fun b => r.mem ((a : Int) + b.offset)).map (·.id)

def scanBisOn (d : D) (s : Nat) (r : Rng) : List Nat :=
  ((d.bisOf s).filter fun x => match x.addr with
    | none => false
    | some a => x.size != 0 && decide (r.start < r.stop ∧ (a : Int) < r.stop ∧ (a : Int) + x.size > r.start)).map (·.id)

def scanBisAt (d : D) (s : Nat) (r : Rng) : List Nat :=
  ((d.bisOf s).filter fun x => match x.addr with
    | none => false
    | some a => r.mem a).map (·.id)


/-! ### histories: edits and lookups as data (for schedule independence) -/

inductive Edit where
  | blkSet (b offset size : Nat)
  | blkMove (b : Nat) (dst : Option Nat) (readd : Bool)
  | biSet (x : Nat) (addr : Option Nat) (size : Nat)
  | biMove (x : Nat) (dst : Option Nat) (readd : Bool)
  deriving Repr

inductive Query where
  | bono (x : Nat) (r : Rng) | bato (x : Nat) (r : Rng)
  | bon (x : Nat) (r : Rng) | bat (x : Nat) (r : Rng)
  | sbison (s : Nat) (r : Rng) | sbisat (s : Nat) (r : Rng)
  | sbon (s : Nat) (r : Rng) | sbat (s : Nat) (r : Rng)
  | ext (s : Nat)
  deriving Repr

inductive Answer where
  | ids (l : List Nat)
  | extent (e : Option (Int × Int))
  deriving Repr

def applyEdit (d : D) : Edit → D
  | .blkSet b o z => blkSet d b o z
  | .blkMove b dst r => blkMove d b dst r
  | .biSet x a z => biSet d x a z
  | .biMove x dst r => biMove d x dst r

def runQuery (d : D) : Query → D × Answer
  | .bono x r => let (d', l) := biBlocksOnOffset d x r; (d', .ids l)
  | .bato x r => let (d', l) := biBlocksAtOffset d x r; (d', .ids l)
  | .bon x r => let (d', l) := biBlocksOn d x r; (d', .ids l)
  | .bat x r => let (d', l) := biBlocksAt d x r; (d', .ids l)
  | .sbison s r => let (d', l) := secBisOn d s r; (d', .ids l)
  | .sbisat s r => let (d', l) := secBisAt d s r; (d', .ids l)
  | .sbon s r => let (d', l) := secBlocksOn d s r; (d', .ids l)
  | .sbat s r => let (d', l) := secBlocksAt d s r; (d', .ids l)
  | .ext s => let (d', e) := secExtent d s; (d', .extent e)

/-- a step of a history: an edit, or a lookup whose answer is thrown away -/
inductive Act where
  | edit (e : Edit)
  | look (q : Query)
  deriving Repr

def exec (d : D) (acts : List Act) : D :=
  acts.foldl (fun d a => match a with
    | .edit e => applyEdit d e
    | .look q => (runQuery d q).1) d

def editsOf (acts : List Act) : List Edit :=
  acts.filterMap fun a => match a with | .edit e => some e | .look _ => none

/-! ### line protocol -/

def insertNat (x : Nat) : List Nat → List Nat
  | [] => [x]
  | y :: ys => if x ≤ y then x :: y :: ys else y :: insertNat x ys
def sortNat (l : List Nat) : List Nat := l.foldr insertNat []
def showIds (l : List Nat) : String := "[" ++ ",".intercalate ((sortNat l).map toString) ++ "]"

def optNat (s : String) : Option (Option Nat) :=
  if s == "-" then some none else (s.toNat?).map some

def readRng (a b c : String) : Option Rng :=
  match a.toInt?, b.toInt?, c.toNat? with
  | some x, some y, some z => some ⟨x, y, z⟩
  | _, _, _ => none

def readIds (s : String) : Option (List Nat) :=
  if s == "-" then some [] else (s.splitOn ",").mapM (·.toNat?)

def driverStep (d : D) (line : String) : D × String :=
  match fields line with
  | ["reset"] => ({}, "ok")
  | ["blk", id, k, o, z] =>
    match id.toNat?, o.toNat?, z.toNat? with
    | some i, some oo, some zz => ({ d with blks := d.blks ++ [⟨i, k == "code", oo, zz, none⟩] }, "ok")
    | _, _, _ => (d, "bad-op")
  | ["bi", id, a, z] =>
    match id.toNat?, optNat a, z.toNat? with
    | some i, some aa, some zz => ({ d with bis := d.bis ++ [{ id := i, addr := aa, size := zz, sec := none }] }, "ok")
    | _, _, _ => (d, "bad-op")
  | ["sec", id] =>
    match id.toNat? with
    | some i => ({ d with secs := d.secs ++ [{ id := i }] }, "ok")
    | none => (d, "bad-op")
  | ["blkset", b, o, z] =>
    match b.toNat?, o.toNat?, z.toNat? with
    | some i, some oo, some zz => (blkSet d i oo zz, "ok")
    | _, _, _ => (d, "bad-op")
  | ["blkmove", b, x, r] =>
    match b.toNat?, optNat x with
    | some i, some dst => (blkMove d i dst (r == "1"), "ok")
    | _, _ => (d, "bad-op")
  | ["biset", x, a, z] =>
    match x.toNat?, optNat a, z.toNat? with
    | some i, some aa, some zz => (biSet d i aa zz, "ok")
    | _, _, _ => (d, "bad-op")
  | ["bimove", x, s, r] =>
    match x.toNat?, optNat s with
    | some i, some dst => (biMove d i dst (r == "1"), "ok")
    | _, _ => (d, "bad-op")
  | ["q", fn, ids, a, b, c] =>
    match readIds ids, readRng a b c with
    | some xs, some r =>
      let one (f : D → Nat → Rng → D × List Nat) : D × String :=
        let (d', res) := chain (fun d x => f d x r) d xs
        (d', showIds res)
      if fn == "bono" then one biBlocksOnOffset
      else if fn == "bato" then one biBlocksAtOffset
      else if fn == "bon" then one biBlocksOn
      else if fn == "bat" then one biBlocksAt
      else if fn == "sbison" then one secBisOn
      else if fn == "sbisat" then one secBisAt
      else if fn == "sbon" then one secBlocksOn
      else if fn == "sbat" then one secBlocksAt
      else if fn == "secson" then let (d', res) := secsOn d xs r; (d', showIds res)
      else if fn == "secsat" then let (d', res) := secsAt d xs r; (d', showIds res)
      else (d, "bad-op")
    | _, _ => (d, "bad-op")
  | ["ext", s] =>
    match s.toNat? with
    | some i =>
      let (d', e) := secExtent d i
      (d', match e with | some (a, z) => s!"{a} {z}" | none => "- -")
    | none => (d, "bad-op")
  | ["reload", xs, ss] =>
    -- save + load of the IR: the listed intervals and sections are new
    -- objects with the same structure and fresh (unbuilt) lazy indexes
    match readIds xs, readIds ss with
    | some bis, some secs =>
      ({ d with bis := d.bis.map (fun x => if x.id ∈ bis then { x with lz := {} } else x),
                secs := d.secs.map (fun s => if s.id ∈ secs then { s with lz := {} } else s) }, "ok")
    | _, _ => (d, "bad-op")
  | ["pending", kind, x] =>
    -- diagnostics: number of pending events / whether the tree exists
    match x.toNat? with
    | some i =>
      let lz := if kind == "bi" then (d.bi? i).map (·.lz) else (d.sec? i).map (·.lz)
      (d, match lz with
          | some l => s!"{l.events.length} {if l.tree.isSome then 1 else 0}"
          | none => "?")
    | none => (d, "bad-op")
  | _ => (d, "bad-op")

end Gtirb.Index
