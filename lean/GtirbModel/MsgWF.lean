import GtirbModel.Proto
/-! The reader-side counterpart of `wfir` (ProtoWF.lean): "schema-valid,
referentially closed message" as a decidable predicate on the *message*,
written as a specification over the message's own lists (not in terms of the
reader). `C02_reader_accepts` shows that the staged reader `fromMsg` accepts
every such message, whoever wrote it.

Closure is meant in the *staged* sense of the loader: an entry point, a symbol
referent and an expression symbol may only name nodes of the same or an
earlier module (a forward reference to a later module is rejected by the
loader although the UUID occurs in the message: known finding K5); CFG edge
endpoints may name code blocks and proxies of any module. -/
namespace Gtirb.Msg

/-- the UUID a block message defines (none if the one-of is unset) -/
def MBlock.uuid? (b : MBlock) : Option U :=
  match b.value with
  | some (.code c) => some c.uuid
  | some (.data d) => some d.uuid
  | none => none

/-- the UUID of a block message if it is a code block -/
def MBlock.codeUuid? (b : MBlock) : Option U :=
  match b.value with
  | some (.code c) => some c.uuid
  | _ => none

def MByteInterval.blockUuids (x : MByteInterval) : List U := x.blocks.filterMap MBlock.uuid?
def MSection.nodeUuids (s : MSection) : List U :=
  s.uuid :: s.byteIntervals.flatMap fun x => x.blockUuids ++ [x.uuid]
/-- node UUIDs of a module message in decode order: module, proxies, sections (each:
section, then per interval its blocks and the interval), symbols -/
def MModule.nodeUuids (m : MModule) : List U :=
  m.uuid :: m.proxies ++ m.sections.flatMap (·.nodeUuids) ++ m.symbols.map (·.uuid)
def MIR.nodeUuids (m : MIR) : List U := m.uuid :: m.modules.flatMap (·.nodeUuids)

def MModule.codeUuids (m : MModule) : List U :=
  m.sections.flatMap fun s => s.byteIntervals.flatMap fun x => x.blocks.filterMap MBlock.codeUuid?
/-- code blocks, data blocks and proxies -/
def MModule.blockUuids (m : MModule) : List U :=
  (m.sections.flatMap fun s => s.byteIntervals.flatMap (·.blockUuids)) ++ m.proxies
def MModule.symbolUuids (m : MModule) : List U := m.symbols.map (·.uuid)

def nodupM {α} [DecidableEq α] : List α → Bool
  | [] => true
  | x :: xs => !(x ∈ xs) && nodupM xs

/-- the symbols an expression message names (none if the one-of is unset) -/
def mexprSyms (e : MSymExpr) : List U :=
  match e.value with
  | some (.addrConst _ s) => [s]
  | some (.addrAddr _ _ s1 s2) => [s1, s2]
  | none => []

/-- the one-of is set and, for a code block, the decode mode is a `DecodeMode` number -/
def mblockOK (b : MBlock) : Bool :=
  match b.value with
  | some (.code c) => pyEnumHas "DecodeMode" c.decodeMode
  | some (.data _) => true
  | none => false

/-- per-module conditions; `earlier` = the module messages before this one in `ir.modules` -/
def mmoduleOK (earlier : List MModule) (m : MModule) : Bool :=
  let visBlocks := (earlier.flatMap (·.blockUuids)) ++ m.blockUuids
  let visCode := (earlier.flatMap (·.codeUuids)) ++ m.codeUuids
  let visSyms := (earlier.flatMap (·.symbolUuids)) ++ m.symbolUuids
  pyEnumHas "ISA" m.isa && pyEnumHas "FileFormat" m.fileFormat && pyEnumHas "ByteOrder" m.byteOrder
  && (m.entryPoint.isEmpty || m.entryPoint ∈ visCode)
  && m.symbols.all (fun s => match s.payload with
      | some (.referentUuid u) => u ∈ visBlocks
      | _ => true)
  && m.sections.all (fun s =>
      s.sectionFlags.all (pyEnumHas "SectionFlag")
      && s.byteIntervals.all fun x =>
          decide (x.contents.length ≤ x.size)
          && x.blocks.all mblockOK
          && x.symbolicExpressions.all fun kv =>
              kv.2.value.isSome && (mexprSyms kv.2).all (· ∈ visSyms))

def mmodulesOK : List MModule → List MModule → Bool
  | _, [] => true
  | earlier, m :: ms => mmoduleOK earlier m && mmodulesOK (earlier ++ [m]) ms

/-- schema-valid, referentially closed (in the staged sense) message -/
def closedMsg (m : MIR) : Bool :=
  m.nodeUuids.all (fun u => u.length == 16) && nodupM m.nodeUuids
  && m.version == Generated.protobufVersion
  && mmodulesOK [] m.modules
  && m.cfg.edges.all (fun e =>
      let cfgNodes := m.modules.flatMap fun mm => mm.codeUuids ++ mm.proxies
      e.sourceUuid ∈ cfgNodes && e.targetUuid ∈ cfgNodes
      && (match e.label with | none => true | some l => pyEnumHas "EdgeType" l.type))

/-- every reference field of the message (non-empty entry points, symbol referents,
expression symbols, edge endpoints), for stating plain (unstaged) closure -/
def MModule.refUuids (m : MModule) : List U :=
  (if m.entryPoint.isEmpty then [] else [m.entryPoint])
  ++ m.symbols.flatMap (fun s => match s.payload with
      | some (.referentUuid u) => [u]
      | _ => [])
  ++ m.sections.flatMap fun s => s.byteIntervals.flatMap fun x =>
      x.symbolicExpressions.flatMap fun kv => mexprSyms kv.2

def MIR.refUuids (m : MIR) : List U :=
  m.modules.flatMap (·.refUuids)
  ++ m.cfg.edges.flatMap fun e => [e.sourceUuid, e.targetUuid]

end Gtirb.Msg
