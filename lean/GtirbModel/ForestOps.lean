import GtirbModel.Forest
import GtirbModel.Slices
/-! Model C, second half of property C16: the *return values* of the mutating operations of the
owning collections and their *non-mutating* operations.

`Forest.step : G → Op → Except Exc G` gives the state after a mutating operation. Here:

* `retOf g op` is the value the call returns, computed on the PRE-state, and
  `stepR g op = (step g op, retOf g op)`: the state component is `step` by construction.
  `Ret.none` is Python's `None` (also used for statements: `del`, item / attribute assignment),
  `Ret.node n` is a node object, `Ret.same` is the collection object itself (what an in-place
  operator must return so that `coll -= x` does not rebind the attribute).
  `Op.update` and `Op.extend` stand for two spellings each (`update(..)` / `|=`,
  `extend(..)` / `+=`); `retOf` is the method spelling (`None`), `retOfOp` / `stepROp` the
  operator spelling (`same`).
* The non-mutating operations are pure functions of the current contents `xs = g.kids p slot`
  (a duplicate-free list; for the sets the order has no meaning) and of a plain argument
  `ys : List Nat` (a plain Python `set` / `list` of nodes given as a list, possibly with repeats
  and with ids that are not in `xs`, e.g. nodes of another kind). They do not take or return a `G`:
  "leave ownership untouched" holds by construction.

Source (`python/gtirb/util.py`): `SetWrapper.__or__` is `self._data | other`; `& - ^` and all
reflected forms and the comparisons are the `collections.abc.Set` mixins, which build their
result with `SetWrapper._from_iterable` = `set(it)` (a plain `set`); `ListWrapper.__getitem__`
is `self._data[i]` for ints and slices, `index` / `count` are the `Sequence` mixins (first
position, `ValueError` when absent / number of occurrences), `MutableSequence.pop(k)` is
`v = self[k]; del self[k]; return v`, `SetWrapper.pop` returns the element it discards.

Order of the set results (only membership is observable; the driver prints them sorted):
`nmOr xs ys`: elements of `xs` in order, then the new elements of `ys` in order of first
occurrence; `nmAnd xs ys`, `nmSub xs ys`: elements of `xs` in order; `nmRSub ys xs`: elements of
`ys` in order of first occurrence; `nmXor xs ys = nmSub xs ys ++ nmRSub ys xs`; the reflected
`nmROr ys xs`, `nmRAnd ys xs`, `nmRXor ys xs` start from the distinct elements of `ys`. -/
namespace Gtirb.Forest

/-! ### return values of the mutating operations -/

inductive Ret where
  /-- `None` (or no value at all: a statement) -/
  | none
  /-- a node object -/
  | node (n : Nat)
  /-- the collection object the operator was applied to -/
  | same
  deriving DecidableEq, Repr, Inhabited

/-- the value returned by the call, from the state BEFORE it (method spelling of `update` /
`extend`). Constructors return the object they create (`g.n` is the id `alloc` hands out). -/
def retOf (g : G) : Op → Ret
  | .mkIR _ => .node g.n
  | .mk _ _ _ _ => .node g.n
  | .mkSym _ _ _ _ => .node g.n
  | .setParent _ _ => .none
  | .add _ _ _ => .none
  | .discard _ _ _ => .none
  | .remove _ _ _ => .none
  /- `SetWrapper.pop`: `result = next(iter(self)); self.discard(result); return result`; the
  element is the one the implementation reports -/
  | .pop _ _ v => .node v
  | .clear _ _ _ => .none
  | .update _ _ _ => .none
  | .isub _ _ _ => .same
  | .iand _ _ _ _ => .same
  | .ixor _ _ _ => .same
  | .insert _ _ _ => .none
  | .append _ _ => .none
  | .extend _ _ => .none
  | .delItem _ _ => .none
  | .setItem _ _ _ => .none
  | .listRemove _ _ => .none
  /- `MutableSequence.pop`: `v = self[k]; del self[k]; return v` -/
  | .listPop i k =>
    match pyIndex (g.kids i .mods).length k with
    | some idx =>
      match (g.kids i .mods)[idx]? with
      | some v => .node v
      | Option.none => .none
    | Option.none => .none
  | .reverse _ => .none
  | .listClear _ => .none
  | .setName _ _ => .none
  | .setPayload _ _ => .none

/-- operator spelling: `coll |= ys` (`Op.update`) and `l += ys` (`Op.extend`) return the
collection; everything else as `retOf` -/
def retOfOp (g : G) : Op → Ret
  | .update _ _ _ => .same
  | .extend _ _ => .same
  | op => retOf g op

/-- `step` together with the returned value -/
def stepR (g : G) (op : Op) : Except Exc (G × Ret) :=
  match step g op with
  | .ok g' => .ok (g', retOf g op)
  | .error e => .error e

/-- `stepR` for the operator spelling of `update` / `extend` -/
def stepROp (g : G) (op : Op) : Except Exc (G × Ret) :=
  match step g op with
  | .ok g' => .ok (g', retOfOp g op)
  | .error e => .error e

/-! ### non-mutating set operations -/

/-- append the elements of `ys` that are not there yet, in order of first occurrence -/
def addNew (acc : List Nat) : List Nat → List Nat
  | [] => acc
  | y :: ys => addNew (if y ∈ acc then acc else acc ++ [y]) ys

/-- the distinct elements of a plain argument, in order of first occurrence (`set(ys)`) -/
def distinct (ys : List Nat) : List Nat := addNew [] ys

/-- `coll | ys` -/
def nmOr (xs ys : List Nat) : List Nat := addNew xs ys
/-- `coll & ys` -/
def nmAnd (xs ys : List Nat) : List Nat := xs.filter (fun x => decide (x ∈ ys))
/-- `coll - ys` -/
def nmSub (xs ys : List Nat) : List Nat := xs.filter (fun x => !decide (x ∈ ys))
/-- `ys - coll` (`Set.__rsub__`) -/
def nmRSub (ys xs : List Nat) : List Nat := (distinct ys).filter (fun y => !decide (y ∈ xs))
/-- `coll ^ ys` = `(coll - ys) | (ys - coll)` -/
def nmXor (xs ys : List Nat) : List Nat := nmSub xs ys ++ nmRSub ys xs
/-- `ys | coll` (`Set.__ror__`) -/
def nmROr (ys xs : List Nat) : List Nat := addNew (distinct ys) xs
/-- `ys & coll` (`Set.__rand__`) -/
def nmRAnd (ys xs : List Nat) : List Nat := (distinct ys).filter (fun y => decide (y ∈ xs))
/-- `ys ^ coll` (`Set.__rxor__`) -/
def nmRXor (ys xs : List Nat) : List Nat := nmRSub ys xs ++ nmSub xs ys

/-- `coll <= ys` -/
def nmLe (xs ys : List Nat) : Bool := xs.all (fun x => decide (x ∈ ys))
/-- `coll >= ys` -/
def nmGe (xs ys : List Nat) : Bool := ys.all (fun y => decide (y ∈ xs))
/-- `coll < ys`: subset, and `ys` has an element that is not in the collection -/
def nmLt (xs ys : List Nat) : Bool := nmLe xs ys && ys.any (fun y => !decide (y ∈ xs))
/-- `coll > ys` -/
def nmGt (xs ys : List Nat) : Bool := nmGe xs ys && xs.any (fun x => !decide (x ∈ ys))
/-- `coll == ys` (`Set.__eq__`: same length and subset) -/
def nmEq (xs ys : List Nat) : Bool := nmLe xs ys && nmGe xs ys
/-- `coll != ys` -/
def nmNe (xs ys : List Nat) : Bool := !nmEq xs ys
/-- `coll.isdisjoint(ys)` -/
def nmIsDisjoint (xs ys : List Nat) : Bool := ys.all (fun y => !decide (y ∈ xs))
/-- `v in coll` (sets and the module list) -/
def nmContains (xs : List Nat) (v : Nat) : Bool := decide (v ∈ xs)
/-- `len(coll)` -/
def nmLen (xs : List Nat) : Nat := xs.length

/-! ### non-mutating list operations (`ir.modules`) -/

/-- `l.index(v)`: first position; `none` = `ValueError` -/
def nmIndex : List Nat → Nat → Option Nat
  | [], _ => none
  | x :: xs, v => if x = v then some 0 else (nmIndex xs v).map (· + 1)

/-- `l.count(v)` -/
def nmCount (xs : List Nat) (v : Nat) : Nat := (xs.filter (fun x => decide (x = v))).length

/-- `l[k]` with a Python int index; `none` = `IndexError` -/
def nmGetItem (xs : List Nat) (k : Int) : Option Nat :=
  match pyIndex xs.length k with
  | some idx => xs[idx]?
  | none => none

/-- the elements at the given positions, in that order (positions outside the list are skipped;
a normalised slice has none) -/
def pick (xs : List Nat) (sel : List Nat) : List Nat := sel.filterMap (fun j => xs[j]?)

/-- `l[start:stop:step]` (a plain list, in `range` order); `none` = `ValueError` (step 0) -/
def nmSlice (xs : List Nat) (start stop step : Option Int) : Option (List Nat) :=
  match sliceSelected xs.length start stop step with
  | some sel => some (pick xs sel)
  | none => none

/-- `reversed(l)` -/
def nmReversed (xs : List Nat) : List Nat := xs.reverse

/-! ### queries as data (for histories that interleave them with mutating operations) -/

inductive SetBin where
  | or | and | sub | xor | ror | rand | rsub | rxor
  deriving DecidableEq, Repr

inductive SetCmp where
  | le | lt | ge | gt | eq | ne | disjoint
  deriving DecidableEq, Repr

/-- a non-mutating operation on one collection (the collection itself is named separately) -/
inductive NmQ where
  | bin (op : SetBin) (ys : List Nat)
  | cmp (op : SetCmp) (ys : List Nat)
  | contains (v : Nat)
  | len
  | index (v : Nat)
  | count (v : Nat)
  | getItem (k : Int)
  | slice (start stop step : Option Int)
  deriving Repr

/-- plain results -/
inductive NmVal where
  /-- a plain set (duplicate-free list, order without meaning) -/
  | set (l : List Nat)
  | bool (b : Bool)
  | nat (n : Nat)
  /-- `index`: `none` = ValueError -/
  | idx (o : Option Nat)
  /-- `l[k]`: `none` = IndexError -/
  | item (o : Option Nat)
  /-- a plain list; `none` = ValueError -/
  | list (o : Option (List Nat))
  deriving DecidableEq, Repr

def evalBin : SetBin → List Nat → List Nat → List Nat
  | .or, xs, ys => nmOr xs ys
  | .and, xs, ys => nmAnd xs ys
  | .sub, xs, ys => nmSub xs ys
  | .xor, xs, ys => nmXor xs ys
  | .ror, xs, ys => nmROr ys xs
  | .rand, xs, ys => nmRAnd ys xs
  | .rsub, xs, ys => nmRSub ys xs
  | .rxor, xs, ys => nmRXor ys xs

def evalCmp : SetCmp → List Nat → List Nat → Bool
  | .le, xs, ys => nmLe xs ys
  | .lt, xs, ys => nmLt xs ys
  | .ge, xs, ys => nmGe xs ys
  | .gt, xs, ys => nmGt xs ys
  | .eq, xs, ys => nmEq xs ys
  | .ne, xs, ys => nmNe xs ys
  | .disjoint, xs, ys => nmIsDisjoint xs ys

/-- a query on the contents `xs` -/
def evalNmOn (xs : List Nat) : NmQ → NmVal
  | .bin op ys => .set (evalBin op xs ys)
  | .cmp op ys => .bool (evalCmp op xs ys)
  | .contains v => .bool (nmContains xs v)
  | .len => .nat (nmLen xs)
  | .index v => .idx (nmIndex xs v)
  | .count v => .nat (nmCount xs v)
  | .getItem k => .item (nmGetItem xs k)
  | .slice a b c => .list (nmSlice xs a b c)

/-- a query on collection `s` of node `p` in state `g`: reads `g.kids p s` and nothing else -/
def evalNm (g : G) (p : Nat) (s : Slot) (q : NmQ) : NmVal := evalNmOn (g.kids p s) q

/-- a history step: a mutating operation or a query -/
inductive Cmd where
  | op (o : Op)
  | query (p : Nat) (s : Slot) (q : NmQ)
  deriving Repr

def Cmd.op? : Cmd → Option Op
  | .op o => some o
  | .query _ _ _ => none

/-- run a history with queries: the queries are answered on the state at that point, in order;
the history stops at the first exception -/
def runCmds (g : G) : List Cmd → Except Exc (G × List NmVal)
  | [] => .ok (g, [])
  | .op o :: cs =>
    match step g o with
    | .ok g' => runCmds g' cs
    | .error e => .error e
  | .query p s q :: cs =>
    match runCmds g cs with
    | .ok (g', vs) => .ok (g', evalNm g p s q :: vs)
    | .error e => .error e

/-! ### line protocol (stateless queries) -/

def opsInsertNat (x : Nat) : List Nat → List Nat
  | [] => [x]
  | y :: ys => if x ≤ y then x :: y :: ys else y :: opsInsertNat x ys

def opsSortNat (l : List Nat) : List Nat := l.foldr opsInsertNat []

def opsShowList (l : List Nat) : String := "[" ++ ",".intercalate (l.map toString) ++ "]"

/-- `-` = empty, otherwise comma-separated ids -/
def opsReadIds (s : String) : Option (List Nat) :=
  if s == "-" then some [] else (s.splitOn ",").mapM (·.toNat?)

def opsReadOptInt (s : String) : Option (Option Int) :=
  if s == "-" then some none else (s.toInt?).map some

def opsNoRepeat : List Nat → Bool
  | [] => true
  | x :: xs => !decide (x ∈ xs) && opsNoRepeat xs

def readSetBin : String → Option SetBin
  | "or" => some .or | "and" => some .and | "sub" => some .sub | "xor" => some .xor
  | "ror" => some .ror | "rand" => some .rand | "rsub" => some .rsub | "rxor" => some .rxor
  | _ => none

def readSetCmp : String → Option SetCmp
  | "le" => some .le | "lt" => some .lt | "ge" => some .ge | "gt" => some .gt
  | "eq" => some .eq | "ne" => some .ne | "disjoint" => some .disjoint
  | _ => none

def showNmVal : NmVal → String
  | .set l => opsShowList (opsSortNat l)
  | .bool b => if b then "1" else "0"
  | .nat n => toString n
  | .idx (some i) => toString i
  | .idx none => "ValueError"
  | .item (some v) => toString v
  | .item none => "IndexError"
  | .list (some l) => opsShowList l
  | .list none => "ValueError"

/-- the query of a protocol line and the contents it is about; `none` = malformed. The
contents of a `nm` (set) query must be duplicate-free. -/
def parseNm : List String → Option (List Nat × NmQ)
  | ["nm", op, xs, ys] =>
    match opsReadIds xs, opsReadIds ys with
    | some x, some y =>
      if opsNoRepeat x then
        match readSetBin op, readSetCmp op with
        | some b, _ => some (x, .bin b y)
        | none, some c => some (x, .cmp c y)
        | none, none => none
      else none
    | _, _ => none
  | ["in", xs, v] =>
    match opsReadIds xs, v.toNat? with
    | some x, some w => some (x, .contains w)
    | _, _ => none
  | ["len", xs] => (opsReadIds xs).map fun x => (x, .len)
  | ["idx", xs, v] =>
    match opsReadIds xs, v.toNat? with
    | some x, some w => some (x, .index w)
    | _, _ => none
  | ["cnt", xs, v] =>
    match opsReadIds xs, v.toNat? with
    | some x, some w => some (x, .count w)
    | _, _ => none
  | ["get", xs, k] =>
    match opsReadIds xs, k.toInt? with
    | some x, some kk => some (x, .getItem kk)
    | _, _ => none
  | ["slice", xs, a, b, c] =>
    match opsReadIds xs, opsReadOptInt a, opsReadOptInt b, opsReadOptInt c with
    | some x, some aa, some bb, some cc => some (x, .slice aa bb cc)
    | _, _, _, _ => none
  | _ => none

/-- one protocol line in, one answer line out (`bad-op` for a malformed line) -/
def opsDriverStep (line : String) : String :=
  match parseNm (fields line) with
  | some (xs, q) => showNmVal (evalNmOn xs q)
  | none => "bad-op"

end Gtirb.Forest
