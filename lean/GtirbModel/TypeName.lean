import GtirbModel.Util
/-! Model B: AuxData type names (`Serialization._parse_type`).

The model is the input/output behaviour of the parser: tokens are maximal runs
of non-delimiter characters and the three delimiters; the grammar is
`T ::= name | name '<' T (',' T)* '>'`. -/
namespace Gtirb.TypeName

inductive Tree where
  | node (name : List Char) (kids : List Tree)
  deriving Repr, Inhabited

inductive Tok where
  | name (s : List Char)
  | lt | gt | comma
  deriving DecidableEq, Repr

def isDelim (c : Char) : Bool := c == '<' || c == '>' || c == ','

def delimTok (c : Char) : Tok :=
  if c == '<' then .lt else if c == '>' then .gt else .comma

/-- `tokenizeAux acc cs`: `acc` is the current run of name characters, reversed. -/
def tokenizeAux : List Char → List Char → List Tok
  | acc, [] => if acc.isEmpty then [] else [.name acc.reverse]
  | acc, c :: cs =>
    if isDelim c then
      if acc.isEmpty then delimTok c :: tokenizeAux [] cs
      else .name acc.reverse :: delimTok c :: tokenizeAux [] cs
    else tokenizeAux (c :: acc) cs

def tokenize (cs : List Char) : List Tok := tokenizeAux [] cs

mutual
def parseT : Nat → List Tok → Option (Tree × List Tok)
  | 0, _ => none
  | fuel + 1, .name s :: .lt :: rest =>
    match parseArgs fuel rest with
    | some (args, .gt :: rest') => some (.node s args, rest')
    | _ => none
  | _ + 1, .name s :: rest => some (.node s [], rest)
  | _ + 1, _ => none
def parseArgs : Nat → List Tok → Option (List Tree × List Tok)
  | 0, _ => none
  | fuel + 1, toks =>
    match parseT fuel toks with
    | some (t, .comma :: rest) =>
      match parseArgs fuel rest with
      | some (ts, rest') => some (t :: ts, rest')
      | none => none
    | some (t, rest) => some ([t], rest)
    | none => none
end

/-- The single error of the model is `TypeNameError` (= `none`). -/
def parseType (cs : List Char) : Option Tree :=
  let toks := tokenize cs
  match parseT (toks.length + 1) toks with
  | some (t, []) => some t
  | _ => none

mutual
def render : Tree → List Char
  | .node n ks =>
    match ks with
    | [] => n
    | _ :: _ => n ++ '<' :: (renderList ks ++ ['>'])
def renderList : List Tree → List Char
  | [] => []
  | t :: ts =>
    match ts with
    | [] => render t
    | _ :: _ => render t ++ ',' :: renderList ts
end

/-- canonical text for the line protocol: `(hexname kid kid ...)` -/
partial def showTree : Tree → String
  | .node n ks =>
    "(" ++ hexOfString (String.ofList n) ++ String.join (ks.map fun k => " " ++ showTree k) ++ ")"

def driverStep (line : String) : String :=
  match stringOfHex line.trimAscii.toString with
  | none => "bad-op"
  | some s =>
    match parseType s.toList with
    | none => "err"
    | some t => "ok " ++ showTree t

end Gtirb.TypeName
