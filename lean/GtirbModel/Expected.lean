/-! Tables the hand-written models were written against (frozen at the pinned
commit). `GtirbProofs/Tables.lean` proves, on every run, that the tables
regenerated from /repo's current source equal these. -/
namespace Gtirb.Expected

def codecTable : List (String × String × Nat × Bool × String) := [
  ("Addr", "Uint64Codec", 8, false, ""),
  ("Offset", "OffsetCodec", 0, false, ""),
  ("UUID", "UUIDCodec", 0, false, ""),
  ("bool", "BoolCodec", 0, false, ""),
  ("double", "Float64Codec", 8, false, "<d"),
  ("float", "Float32Codec", 4, false, "<f"),
  ("int16_t", "Int16Codec", 2, true, ""),
  ("int32_t", "Int32Codec", 4, true, ""),
  ("int64_t", "Int64Codec", 8, true, ""),
  ("int8_t", "Int8Codec", 1, true, ""),
  ("mapping", "MappingCodec", 0, false, ""),
  ("sequence", "SequenceCodec", 0, false, ""),
  ("set", "SetCodec", 0, false, ""),
  ("string", "StringCodec", 0, false, ""),
  ("tuple", "TupleCodec", 0, false, ""),
  ("uint16_t", "Uint16Codec", 2, false, ""),
  ("uint32_t", "Uint32Codec", 4, false, ""),
  ("uint64_t", "Uint64Codec", 8, false, ""),
  ("uint8_t", "Uint8Codec", 1, false, ""),
  ("variant", "VariantCodec", 0, false, "")
]

end Gtirb.Expected
