/-! Tables the hand-written models were written against (frozen at the pinned
commit). `GtirbProofs/Tables.lean` proves, on every run, that the tables
regenerated from /repo's current source equal these. -/
namespace Gtirb.Expected

def codecTable : List (String × String × Nat × Bool × String) := [
  ("Addr", "Uint64Codec", 8, false, ""),
  ("Offset", "OffsetCodec", 0, false, ""),
  ("UUID", "UUIDCodec", 0, false, ""),
  ("bool", "BoolCodec", 0, false, ""),
  ("double", "Float64Codec", 8, false, "<d"),
  ("float", "Float32Codec", 4, false, "<f"),
  ("int16_t", "Int16Codec", 2, true, ""),
  ("int32_t", "Int32Codec", 4, true, ""),
  ("int64_t", "Int64Codec", 8, true, ""),
  ("int8_t", "Int8Codec", 1, true, ""),
  ("mapping", "MappingCodec", 0, false, ""),
  ("sequence", "SequenceCodec", 0, false, ""),
  ("set", "SetCodec", 0, false, ""),
  ("string", "StringCodec", 0, false, ""),
  ("tuple", "TupleCodec", 0, false, ""),
  ("uint16_t", "Uint16Codec", 2, false, ""),
  ("uint32_t", "Uint32Codec", 4, false, ""),
  ("uint64_t", "Uint64Codec", 8, false, ""),
  ("uint8_t", "Uint8Codec", 1, false, ""),
  ("variant", "VariantCodec", 0, false, "")
]

/-- the schema (proto/*.proto) the `Msg` records of GtirbModel/Msg.lean were
written against: every enum constant, every message, every field with its
number, type, label and one-of. -/
def expectedEnums : List (String × List (String × Int)) := [
  ("ByteOrder", [("ByteOrder_Undefined", 0), ("BigEndian", 1), ("LittleEndian", 2)]),
  ("DecodeMode", [("All_Default", 0), ("ARM_Thumb", 1)]),
  ("EdgeType", [("Type_Branch", 0), ("Type_Call", 1), ("Type_Fallthrough", 2), ("Type_Return", 3), ("Type_Syscall", 4), ("Type_Sysret", 5)]),
  ("FileFormat", [("Format_Undefined", 0), ("COFF", 1), ("ELF", 2), ("PE", 3), ("IdaProDb32", 4), ("IdaProDb64", 5), ("XCOFF", 6), ("MACHO", 7), ("RAW", 8)]),
  ("ISA", [("ISA_Undefined", 0), ("IA32", 1), ("PPC32", 2), ("X64", 3), ("ARM", 4), ("ValidButUnsupported", 5), ("PPC64", 6), ("ARM64", 7), ("MIPS32", 8), ("MIPS64", 9)]),
  ("SectionFlag", [("Section_Undefined", 0), ("Readable", 1), ("Writable", 2), ("Executable", 3), ("Loaded", 4), ("Initialized", 5), ("ThreadLocal", 6)]),
  ("SymAttribute", [("GOT", 0), ("GOTPC", 1), ("GOTOFF", 2), ("GOTREL", 3), ("PLT", 4), ("PLTOFF", 5), ("PCREL", 6), ("SECREL", 7), ("TLS", 8), ("TLSGD", 9), ("TLSLD", 10), ("TLSLDM", 11), ("TLSCALL", 12), ("TLSDESC", 13), ("TPREL", 14), ("TPOFF", 15), ("DTPREL", 16), ("DTPOFF", 17), ("NTPOFF", 18), ("DTPMOD", 19), ("PAGE", 20), ("PAGEOFF", 21), ("CALL", 22), ("LO", 23), ("HI", 24), ("HIGHER", 25), ("HIGHEST", 26), ("GOTNTPOFF", 1000), ("INDNTPOFF", 1001), ("G0", 2001), ("G1", 2002), ("G2", 2003), ("G3", 2004), ("UPPER16", 2005), ("LOWER16", 2006), ("LO12", 2007), ("LO15", 2008), ("LO14", 2009), ("HI12", 2010), ("HI21", 2011), ("S", 2012), ("PG", 2013), ("NC", 2014), ("ABS", 2015), ("PREL", 2016), ("PREL31", 2017), ("TARGET1", 2018), ("TARGET2", 2019), ("SBREL", 2020), ("TLSLDO", 2021), ("HI16", 3000), ("LO16", 3001), ("GPREL", 3002), ("DISP", 3003), ("OFST", 3004), ("H", 4000), ("L", 4001), ("HA", 4002), ("HIGH", 4003), ("HIGHA", 4004), ("HIGHERA", 4005), ("HIGHESTA", 4006), ("TOCBASE", 4007), ("TOC", 4008), ("NOTOC", 4009)])
]

def expectedMessages : List (String × List (String × Nat × String × String × String)) := [
  ("AuxData", [
    ("type_name", 1, "string", "single", ""),
    ("data", 2, "bytes", "single", "")]),
  ("Block", [
    ("offset", 1, "uint64", "single", ""),
    ("code", 2, "message:CodeBlock", "single", "value"),
    ("data", 3, "message:DataBlock", "single", "value")]),
  ("ByteInterval", [
    ("uuid", 1, "bytes", "single", ""),
    ("blocks", 2, "message:Block", "repeated", ""),
    ("symbolic_expressions", 3, "map<uint64,message:SymbolicExpression>", "map", ""),
    ("has_address", 4, "bool", "single", ""),
    ("address", 5, "uint64", "single", ""),
    ("size", 6, "uint64", "single", ""),
    ("contents", 7, "bytes", "single", "")]),
  ("CFG", [
    ("edges", 2, "message:Edge", "repeated", ""),
    ("vertices", 3, "bytes", "repeated", "")]),
  ("CodeBlock", [
    ("uuid", 1, "bytes", "single", ""),
    ("size", 3, "uint64", "single", ""),
    ("decode_mode", 4, "enum:DecodeMode", "single", "")]),
  ("DataBlock", [
    ("uuid", 1, "bytes", "single", ""),
    ("size", 3, "uint64", "single", "")]),
  ("Edge", [
    ("source_uuid", 1, "bytes", "single", ""),
    ("target_uuid", 2, "bytes", "single", ""),
    ("label", 5, "message:EdgeLabel", "single", "")]),
  ("EdgeLabel", [
    ("conditional", 1, "bool", "single", ""),
    ("direct", 2, "bool", "single", ""),
    ("type", 3, "enum:EdgeType", "single", "")]),
  ("IR", [
    ("uuid", 1, "bytes", "single", ""),
    ("modules", 3, "message:Module", "repeated", ""),
    ("aux_data", 5, "map<string,message:AuxData>", "map", ""),
    ("version", 6, "uint32", "single", ""),
    ("cfg", 7, "message:CFG", "single", "")]),
  ("Module", [
    ("uuid", 1, "bytes", "single", ""),
    ("binary_path", 2, "string", "single", ""),
    ("preferred_addr", 3, "uint64", "single", ""),
    ("rebase_delta", 4, "int64", "single", ""),
    ("file_format", 5, "enum:FileFormat", "single", ""),
    ("isa", 6, "enum:ISA", "single", ""),
    ("name", 7, "string", "single", ""),
    ("symbols", 9, "message:Symbol", "repeated", ""),
    ("sections", 12, "message:Section", "repeated", ""),
    ("proxies", 16, "message:ProxyBlock", "repeated", ""),
    ("aux_data", 17, "map<string,message:AuxData>", "map", ""),
    ("entry_point", 18, "bytes", "single", ""),
    ("byte_order", 19, "enum:ByteOrder", "single", "")]),
  ("Offset", [
    ("element_id", 1, "bytes", "single", ""),
    ("displacement", 2, "uint64", "single", "")]),
  ("ProxyBlock", [
    ("uuid", 1, "bytes", "single", "")]),
  ("Section", [
    ("uuid", 1, "bytes", "single", ""),
    ("name", 2, "string", "single", ""),
    ("byte_intervals", 5, "message:ByteInterval", "repeated", ""),
    ("section_flags", 6, "enum:SectionFlag", "repeated", "")]),
  ("SymAddrAddr", [
    ("scale", 1, "int64", "single", ""),
    ("offset", 2, "int64", "single", ""),
    ("symbol1_uuid", 3, "bytes", "single", ""),
    ("symbol2_uuid", 4, "bytes", "single", "")]),
  ("SymAddrConst", [
    ("offset", 1, "int64", "single", ""),
    ("symbol_uuid", 2, "bytes", "single", "")]),
  ("SymStackConst", [
    ("offset", 1, "int32", "single", ""),
    ("symbol_uuid", 2, "bytes", "single", "")]),
  ("Symbol", [
    ("uuid", 1, "bytes", "single", ""),
    ("value", 2, "uint64", "single", "optional_payload"),
    ("name", 3, "string", "single", ""),
    ("referent_uuid", 5, "bytes", "single", "optional_payload"),
    ("at_end", 6, "bool", "single", "")]),
  ("SymbolicExpression", [
    ("addr_const", 2, "message:SymAddrConst", "single", "value"),
    ("addr_addr", 3, "message:SymAddrAddr", "single", "value"),
    ("attribute_flags", 4, "enum:SymAttribute", "repeated", "")])
]


/-- Python Enum class -> schema enum it mirrors -/
def enumMirrors : List String :=
  ["FileFormat", "ISA", "ByteOrder", "SectionFlag", "DecodeMode", "EdgeType", "SymAttribute"]

end Gtirb.Expected
