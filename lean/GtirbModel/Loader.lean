import GtirbModel.Forest
import GtirbModel.ForestDriver
/-! The staged decoder (`IR._decode_protobuf`, `Module._decode_protobuf`,
`Section._decode_protobuf`, `ByteInterval._decode_protobuf`, `decode_block`,
`Symbol._decode_protobuf`, `Node._from_protobuf`, `CFG._from_protobuf`) as a
*program over model C's primitives*, on the skeleton of a message: kinds,
UUIDs, nesting and references. Unlike the value-level reader of `Proto.lean`
it follows node identity: `Node._from_protobuf` re-uses a node already in the
IR's UUID table when it has the expected kind (and moves it), raises
`DeserializationError` when it has another kind, and creates a fresh node
otherwise; fresh nodes are registered in the table *before* they are attached;
references are resolved through the table as filled so far. It therefore
covers every message, duplicated UUIDs included. -/
namespace Gtirb.Loader
open Gtirb.Forest

structure SkInterval where
  uuid : Nat
  /-- (uuid, is a code block) -/
  blocks : List (Nat × Bool)
  deriving Repr

structure SkSection where
  uuid : Nat
  intervals : List SkInterval
  deriving Repr

inductive SkPayload where
  | none
  | int (n : Nat)
  | ref (uuid : Nat)
  deriving Repr

structure SkSymbol where
  uuid : Nat
  name : Nat
  payload : SkPayload
  deriving Repr

structure SkModule where
  uuid : Nat
  proxies : List Nat
  sections : List SkSection
  symbols : List SkSymbol
  entry : Option Nat
  /-- symbol UUIDs used by the module's symbolic expressions -/
  exprSyms : List Nat
  deriving Repr

structure SkIR where
  uuid : Nat
  modules : List SkModule
  /-- (source uuid, target uuid) -/
  edges : List (Nat × Nat)
  deriving Repr

inductive LErr where
  | deser                 -- DeserializationError
  | forest (e : Exc)      -- an exception out of the object graph (e.g. the KeyError of `del cache[uuid]`)
  deriving Repr

def liftE (x : Except Exc G) : Except LErr G :=
  match x with
  | .ok g => .ok g
  | .error e => .error (.forest e)

/-- `coll.update(X._from_protobuf(c, ir) for c in children)`: `SetWrapper.update`
consumes the generator lazily, so each child is decoded and added to the owning
collection before the next one is decoded (`ByteInterval.blocks.update` is the
exception: it materialises all blocks first, see `decodeInterval`) -/
def decodeAttach {α : Type} (dec : G → Nat → α → Except LErr (G × Nat)) (ir p : Nat) (slot : Slot) :
    G → List α → Except LErr G
  | g, [] => .ok g
  | g, x :: xs =>
    match dec g ir x with
    | .error e => .error e
    | .ok (g1, v) =>
      match liftE (setAdd g1 p slot v) with
      | .error e => .error e
      | .ok g2 => decodeAttach dec ir p slot g2 xs

/-- `Node._from_protobuf`: `(state, node, fresh?)` -/
def fromProto (g : G) (ir : Nat) (k : Kind) (u : Nat) : Except LErr (G × Nat × Bool) :=
  match g.cache ir u with
  | some n => if g.kind n = k then .ok (g, n, false) else .error .deser
  | none => let (g1, v) := alloc g k u; .ok (g1, v, true)

/-- `decode_block`: a fresh block registers itself in the table -/
def decodeBlock (g : G) (ir : Nat) (b : Nat × Bool) : Except LErr (G × Nat) :=
  match fromProto g ir (if b.2 then .code else .data) b.1 with
  | .error e => .error e
  | .ok (g1, v, fresh) => .ok (if fresh then cacheSet g1 ir b.1 v else g1, v)

def decodeBlocks (ir : Nat) : G → List (Nat × Bool) → Except LErr (G × List Nat)
  | g, [] => .ok (g, [])
  | g, b :: bs =>
    match decodeBlock g ir b with
    | .error e => .error e
    | .ok (g1, v) =>
      match decodeBlocks ir g1 bs with
      | .error e => .error e
      | .ok (g2, vs) => .ok (g2, v :: vs)

/-- `ByteInterval._from_protobuf`: table lookup first; a fresh interval is
allocated, its blocks are decoded and handed to `blocks.update`, then the
interval registers itself and (again) its blocks -/
def decodeInterval (g : G) (ir : Nat) (x : SkInterval) : Except LErr (G × Nat) :=
  match fromProto g ir .interval x.uuid with
  | .error e => .error e
  | .ok (g1, v, fresh) =>
    if !fresh then .ok (g1, v) else
    match decodeBlocks ir g1 x.blocks with
    | .error e => .error e
    | .ok (g2, bs) =>
      match liftE (blkUpdate g2 v bs) with
      | .error e => .error e
      | .ok g3 => .ok (cacheAddInterval g3 ir v, v)

def decodeIntervals (ir : Nat) : G → List SkInterval → Except LErr (G × List Nat)
  | g, [] => .ok (g, [])
  | g, x :: xs =>
    match decodeInterval g ir x with
    | .error e => .error e
    | .ok (g1, v) =>
      match decodeIntervals ir g1 xs with
      | .error e => .error e
      | .ok (g2, vs) => .ok (g2, v :: vs)

def decodeSection (g : G) (ir : Nat) (s : SkSection) : Except LErr (G × Nat) :=
  match fromProto g ir .section s.uuid with
  | .error e => .error e
  | .ok (g1, v, fresh) =>
    if !fresh then .ok (g1, v) else
    let g2 := cacheSet g1 ir s.uuid v
    match decodeAttach decodeInterval ir v .bis g2 s.intervals with
    | .error e => .error e
    | .ok g4 => .ok (g4, v)

def decodeSections (ir : Nat) : G → List SkSection → Except LErr (G × List Nat)
  | g, [] => .ok (g, [])
  | g, s :: ss =>
    match decodeSection g ir s with
    | .error e => .error e
    | .ok (g1, v) =>
      match decodeSections ir g1 ss with
      | .error e => .error e
      | .ok (g2, vs) => .ok (g2, v :: vs)

def decodeProxy (g : G) (ir : Nat) (u : Nat) : Except LErr (G × Nat) :=
  match fromProto g ir .proxy u with
  | .error e => .error e
  | .ok (g1, v, fresh) => .ok (if fresh then cacheSet g1 ir u v else g1, v)

def decodeProxies (ir : Nat) : G → List Nat → Except LErr (G × List Nat)
  | g, [] => .ok (g, [])
  | g, u :: us =>
    match decodeProxy g ir u with
    | .error e => .error e
    | .ok (g1, v) =>
      match decodeProxies ir g1 us with
      | .error e => .error e
      | .ok (g2, vs) => .ok (g2, v :: vs)

def isBlock (k : Kind) : Bool := k == .code || k == .data || k == .proxy

/-- `Symbol._from_protobuf`: a fresh symbol resolves its referent through the
table (must be a block), then registers itself -/
def decodeSymbol (g : G) (ir : Nat) (s : SkSymbol) : Except LErr (G × Nat) :=
  match fromProto g ir .symbol s.uuid with
  | .error e => .error e
  | .ok (g1, v, fresh) =>
    if !fresh then .ok (g1, v) else
    let g2 := { g1 with name := fun x => if x = v then s.name else g1.name x }
    match (match s.payload with
      | .none => (.ok Payload.none : Except LErr Payload)
      | .int n => .ok (.int n)
      | .ref u =>
        match g2.cache ir u with
        | some b => if isBlock (g2.kind b) then .ok (.block b) else .error .deser
        | none => .error .deser) with
    | .error e => .error e
    | .ok pl =>
      let g3 := { g2 with payload := fun x => if x = v then pl else g2.payload x }
      .ok (cacheSet g3 ir s.uuid v, v)

def decodeSymbols (ir : Nat) : G → List SkSymbol → Except LErr (G × List Nat)
  | g, [] => .ok (g, [])
  | g, s :: ss =>
    match decodeSymbol g ir s with
    | .error e => .error e
    | .ok (g1, v) =>
      match decodeSymbols ir g1 ss with
      | .error e => .error e
      | .ok (g2, vs) => .ok (g2, v :: vs)

def refKind (g : G) (ir : Nat) (ok : Kind → Bool) (u : Nat) : Except LErr Unit :=
  match g.cache ir u with
  | some n => if ok (g.kind n) then .ok () else .error .deser
  | none => .error .deser

def checkAll (g : G) (ir : Nat) (ok : Kind → Bool) : List Nat → Except LErr Unit
  | [] => .ok ()
  | u :: us =>
    match refKind g ir ok u with
    | .error e => .error e
    | .ok _ => checkAll g ir ok us

/-- `Module._from_protobuf` / `_decode_protobuf` -/
def decodeModule (g : G) (ir : Nat) (m : SkModule) : Except LErr (G × Nat) :=
  match fromProto g ir .module m.uuid with
  | .error e => .error e
  | .ok (g1, v, fresh) =>
    if !fresh then .ok (g1, v) else
    let g2 := cacheSet g1 ir m.uuid v
    match decodeAttach decodeProxy ir v .proxies g2 m.proxies with
    | .error e => .error e
    | .ok g4 =>
      match decodeAttach decodeSection ir v .secs g4 m.sections with
      | .error e => .error e
      | .ok g6 =>
        match (match m.entry with
               | none => (.ok () : Except LErr Unit)
               | some u => refKind g6 ir (fun k => k == Kind.code) u) with
        | .error e => .error e
        | .ok _ =>
          match decodeAttach decodeSymbol ir v .syms g6 m.symbols with
          | .error e => .error e
          | .ok g8 =>
            match checkAll g8 ir (fun k => k == Kind.symbol) m.exprSyms with
            | .error e => .error e
            | .ok _ => .ok (g8, v)

/-- `ir.modules.extend(Module._from_protobuf(m, ir) for m in ...)`: decode one,
append it, decode the next -/
def decodeModules (ir : Nat) : G → List SkModule → Except LErr G
  | g, [] => .ok g
  | g, m :: ms =>
    match decodeModule g ir m with
    | .error e => .error e
    | .ok (g1, v) =>
      match liftE (modAppend g1 ir v) with
      | .error e => .error e
      | .ok g2 => decodeModules ir g2 ms

/-- `IR._from_protobuf(msg, None)`: returns the state and the new IR -/
def load (g : G) (m : SkIR) : Except LErr (G × Nat) :=
  let ir := g.n
  let g1 := mkIR g m.uuid
  match decodeModules ir g1 m.modules with
  | .error e => .error e
  | .ok g2 =>
    match checkAll g2 ir (fun k => k == Kind.code || k == Kind.proxy) (m.edges.flatMap fun e => [e.1, e.2]) with
    | .error e => .error e
    | .ok _ => .ok (g2, ir)

/-! ### what "coherent" means for the result -/

/-- the table of IR `i` names only attached nodes of that UUID, and every
attached node's UUID has an entry (equal to `CacheInv` when UUIDs are
distinct) -/
def CacheCoherent (g : G) (i : Nat) : Prop :=
  (∀ u n, g.cache i u = some n → n < g.n ∧ irOf g n = some i ∧ g.uuid n = u) ∧
  (∀ n, n < g.n → irOf g n = some i → (g.cache i (g.uuid n)).isSome)

end Gtirb.Loader
