import GtirbProofs.Props.C12
/-! C05: block lookups equal a fresh scan. At byte-interval scope
`*_on_offset / *_at_offset / *_on / *_at` return each qualifying block exactly
once and nothing else. At section scope the result is the union, over the
section's intervals that are themselves 'on' the query, of the qualifying
blocks of that interval. -/
namespace Gtirb.Index

/-- Intended statement without `hx`; it is false of the model when blocks point
to an interval id that is not in `d.bis` (e.g. after `blkMove b (some 99)`): the
lookup on the non-existing interval answers `[]`, the scan finds the blocks. -/
theorem C05_on_offset (d : D) (x : Nat) (r : Rng) (h : DInv d) (hx : (d.bi? x).isSome) :
    (∀ b, b ∈ (biBlocksOnOffset d x r).2 ↔ b ∈ scanBlocksOnOffset d x r) ∧
      (biBlocksOnOffset d x r).2.Nodup := by
  refine ⟨fun b => ?_, nodup_biBlocksOnOffset h x r⟩
  rw [mem_biBlocksOnOffset h, hx]; simp

theorem C05_at_offset (d : D) (x : Nat) (r : Rng) (h : DInv d) (hx : (d.bi? x).isSome) :
    (∀ b, b ∈ (biBlocksAtOffset d x r).2 ↔ b ∈ scanBlocksAtOffset d x r) ∧
      (biBlocksAtOffset d x r).2.Nodup := by
  refine ⟨fun b => ?_, nodup_biBlocksAtOffset h x r⟩
  rw [mem_biBlocksAtOffset h, hx]; simp

/-- without the existence hypothesis: nothing for an unknown interval -/
theorem C05_on_offset_any (d : D) (x : Nat) (r : Rng) (h : DInv d) (b : Nat) :
    b ∈ (biBlocksOnOffset d x r).2 ↔ (d.bi? x).isSome ∧ b ∈ scanBlocksOnOffset d x r :=
  mem_biBlocksOnOffset h x r b

theorem C05_at_offset_any (d : D) (x : Nat) (r : Rng) (h : DInv d) (b : Nat) :
    b ∈ (biBlocksAtOffset d x r).2 ↔ (d.bi? x).isSome ∧ b ∈ scanBlocksAtOffset d x r :=
  mem_biBlocksAtOffset h x r b

/-- address variants, including the no-address / unknown-interval case (both empty) -/
theorem C05_on (d : D) (x : Nat) (r : Rng) (h : DInv d) :
    (∀ b, b ∈ (biBlocksOn d x r).2 ↔ b ∈ scanBlocksOn d x r) ∧ (biBlocksOn d x r).2.Nodup :=
  ⟨mem_biBlocksOn h x r, nodup_biBlocksOn h x r⟩

theorem C05_at (d : D) (x : Nat) (r : Rng) (h : DInv d) :
    (∀ b, b ∈ (biBlocksAt d x r).2 ↔ b ∈ scanBlocksAt d x r) ∧ (biBlocksAt d x r).2.Nodup :=
  ⟨mem_biBlocksAt h x r, nodup_biBlocksAt h x r⟩

theorem C05_no_address (d : D) (x : Nat) (r : Rng) (hx : (d.bi? x).bind (·.addr) = none) :
    (biBlocksOn d x r).2 = [] ∧ (biBlocksAt d x r).2 = [] ∧
      scanBlocksOn d x r = [] ∧ scanBlocksAt d x r = [] := by
  simp [biBlocksOn, biBlocksAt, scanBlocksOn, scanBlocksAt, hx]

/-- section scope: exact characterisation. Intended statement without `hs`; it
is false of the model for a section id that is not in `d.secs` while intervals
still name it as their section. -/
theorem C05_section_on (d : D) (s : Nat) (r : Rng) (h : DInv d) (hs : (d.sec? s).isSome) (b : Nat) :
    b ∈ (secBlocksOn d s r).2 ↔ ∃ x, x ∈ scanBisOn d s r ∧ b ∈ scanBlocksOn d x r := by
  rw [(secBlocksOn_spec h s r).2, hs]; simp

theorem C05_section_at (d : D) (s : Nat) (r : Rng) (h : DInv d) (hs : (d.sec? s).isSome) (b : Nat) :
    b ∈ (secBlocksAt d s r).2 ↔ ∃ x, x ∈ scanBisOn d s r ∧ b ∈ scanBlocksAt d x r := by
  rw [(secBlocksAt_spec h s r).2, hs]; simp

theorem C05_section_on_any (d : D) (s : Nat) (r : Rng) (h : DInv d) (b : Nat) :
    b ∈ (secBlocksOn d s r).2 ↔
      (d.sec? s).isSome ∧ ∃ x, x ∈ scanBisOn d s r ∧ b ∈ scanBlocksOn d x r :=
  (secBlocksOn_spec h s r).2 b

theorem C05_section_at_any (d : D) (s : Nat) (r : Rng) (h : DInv d) (b : Nat) :
    b ∈ (secBlocksAt d s r).2 ↔
      (d.sec? s).isSome ∧ ∃ x, x ∈ scanBisOn d s r ∧ b ∈ scanBlocksAt d x r :=
  (secBlocksAt_spec h s r).2 b

/-- each block once (a block belongs to one interval) -/
theorem C05_section_on_nodup (d : D) (s : Nat) (r : Rng) (h : DInv d) : (secBlocksOn d s r).2.Nodup :=
  nodup_secBlocksOn h s r

theorem C05_section_at_nodup (d : D) (s : Nat) (r : Rng) (h : DInv d) : (secBlocksAt d s r).2.Nodup :=
  nodup_secBlocksAt h s r

/-- the sandwich, upper side: nothing but qualifying blocks of the section's intervals -/
theorem C05_section_on_sound (d : D) (s : Nat) (r : Rng) (h : DInv d) (b : Nat)
    (hb : b ∈ (secBlocksOn d s r).2) :
    ∃ y ∈ d.bisOf s, b ∈ scanBlocksOn d y.id r := by
  rcases ((secBlocksOn_spec h s r).2 b).1 hb with ⟨_, x, hx, hbx⟩
  rcases mem_scanBisOn.1 hx with ⟨y, hy, hys, rfl, _⟩
  exact ⟨y, mem_bisOf.2 ⟨hy, hys⟩, hbx⟩

theorem C05_section_at_sound (d : D) (s : Nat) (r : Rng) (h : DInv d) (b : Nat)
    (hb : b ∈ (secBlocksAt d s r).2) :
    ∃ y ∈ d.bisOf s, b ∈ scanBlocksAt d y.id r := by
  rcases ((secBlocksAt_spec h s r).2 b).1 hb with ⟨_, x, hx, hbx⟩
  rcases mem_scanBisOn.1 hx with ⟨y, hy, hys, rfl, _⟩
  exact ⟨y, mem_bisOf.2 ⟨hy, hys⟩, hbx⟩

/-- the sandwich, lower side: a qualifying block whose interval is itself 'on'
the query (in particular: a block inside its interval's declared extent) is reported -/
theorem C05_section_on_complete (d : D) (s : Nat) (r : Rng) (h : DInv d) (hs : (d.sec? s).isSome)
    (x b : Nat) (hx : x ∈ scanBisOn d s r) (hb : b ∈ scanBlocksOn d x r) :
    b ∈ (secBlocksOn d s r).2 :=
  (C05_section_on d s r h hs b).2 ⟨x, hx, hb⟩

theorem C05_section_at_complete (d : D) (s : Nat) (r : Rng) (h : DInv d) (hs : (d.sec? s).isSome)
    (x b : Nat) (hx : x ∈ scanBisOn d s r) (hb : b ∈ scanBlocksAt d x r) :
    b ∈ (secBlocksAt d s r).2 :=
  (C05_section_at d s r h hs b).2 ⟨x, hx, hb⟩

/-- a block that lies within its interval's declared extent and is 'on' the
query makes its interval 'on' the query, so it is always reported -/
theorem C05_section_on_inside (d : D) (s : Nat) (r : Rng) (h : DInv d) (hs : (d.sec? s).isSome)
    (y : BI) (blk : Blk) (hy : y ∈ d.bisOf s) (hblk : blk ∈ d.blocksOf y.id)
    (hin : blk.offset + blk.size ≤ y.size) (hb : blk.id ∈ scanBlocksOn d y.id r) :
    blk.id ∈ (secBlocksOn d s r).2 := by
  refine C05_section_on_complete d s r h hs y.id blk.id ?_ hb
  have hy' := mem_bisOf.1 hy
  rcases mem_scanBlocksOn.1 hb with ⟨a, ha, b2, hm2, hb2, hi2, hc⟩
  have hblk' : blk ∈ d.blks ∧ blk.bi = some y.id := by
    simpa [D.blocksOf, List.mem_filter] using hblk
  have : b2 = blk := key_inj Blk.id h.blk_ids hm2 hblk'.1 hi2
  subst this
  have hbi : d.bi? y.id = some y := (kfind_some_iff BI.id h.bi_ids).2 ⟨hy'.1, rfl⟩
  rw [hbi] at ha
  simp only [Option.bind_some] at ha
  refine mem_scanBisOn.2 ⟨y, hy'.1, hy'.2, rfl, a, ha, ?_⟩
  omega

/-! ### concrete example -/

example : (∀ b, b ∈ (biBlocksOn exD 10 ⟨100, 107, 1⟩).2 ↔ b ∈ scanBlocksOn exD 10 ⟨100, 107, 1⟩) :=
  (C05_on exD 10 _ exD_inv).1
example : (biBlocksOnOffset exD 10 ⟨0, 7, 1⟩).2 = [2, 1] ∧ scanBlocksOnOffset exD 10 ⟨0, 7, 1⟩ = [1, 2] := by
  decide
/-- the zero-sized block 3 is found by 'at', not by 'on' -/
example : (biBlocksAtOffset exD 10 ⟨6, 7, 1⟩).2 = [3] ∧ (biBlocksOnOffset exD 10 ⟨6, 7, 1⟩).2 = [2, 1] := by
  decide
/-- `C05_on_offset` needs the interval to exist -/
example : (biBlocksOnOffset (blkMove exD 1 (some 99) true) 99 ⟨0, 100, 1⟩).2 = [] ∧
    scanBlocksOnOffset (blkMove exD 1 (some 99) true) 99 ⟨0, 100, 1⟩ = [1] := by decide

end Gtirb.Index
