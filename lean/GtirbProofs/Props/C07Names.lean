import GtirbProofs.Lemmas.CodecTypingProofs
import GtirbProofs.Props.C07
import GtirbProofs.Props.C08Wire
import GtirbProofs.Props.C15
import GtirbModel.AuxTable
/-! C07, second part (review `reviews/codec.md`, C07 part 4 (a), (b)).

(a) TYPE NAMES.  `C07_roundtrip` quantifies over the model's `Ty`.  Here the `Ty` without
unknown / wrong-arity head (`noUnknown`) are shown to be exactly the SUPPORTED TYPE NAMES:
`nameOf` prints a type (it is `TypeName.render` of the tree `treeOf t`; the equations
`nameOf_seq`, ... show it is the obvious printer, `.tuple []` prints `tuple`),
`tyOfName_nameOf` : the printed name denotes the type, `nameOf_tyOfName` : every name that
denotes a type is the printed name of that type, `noUnknown_iff_supported` /
`C07_supported_names` : `noUnknown` holds exactly when all heads of the NAME are among the 20
with a codec and take the number of arguments the codec takes (`supported`, a condition on the
parse tree alone), `C07_roundtrip_name` / `C07_roundtrip_supported` : the round trip through
the table-level `encodeTop` / `decodeTop` (`GtirbModel/AuxTable.lean`) of a type name.

(b) RESOLUTION AT ANY DEPTH (second half of the file).  `resolve lookup nodeUuid : Val → Val`
is what a user gets back for what they stored: every UUID position holds the node its 16 bytes
name, if any, else the plain UUID; sets / mappings are rebuilt by the decoder's own insertion
(so two spellings of one UUID collapse).  `C07_resolution` : every value the encoder accepts
(`hasType'`, shown to be EXACTLY the encoder's domain by `hasType'_iff_encode`) decodes - with
any suffix - to its resolution; `C07_resolution_encode` the same without typing hypothesis;
`resolve_of_hasType` : the values of `hasType` are fixed points (so `C07_roundtrip` is the
special case); `C07_resolution_hasType`, `resolve_idem` (under `Coherent`): what comes back is
canonical and stable; `resolve_elem_eq_iff`, `resolve_set_of_distinct`,
`resolve_map_of_distinct` : what collapses in sets / mappings and when nothing does. -/
namespace Gtirb.Codec
open Gtirb.TypeName

/-- the name of each leaf type (the inverse of `leafOfName`, see `leafOfName_leafName`) -/
def leafName : Leaf → String
  | .u8 => "uint8_t" | .u16 => "uint16_t" | .u32 => "uint32_t" | .u64 => "uint64_t"
  | .i8 => "int8_t" | .i16 => "int16_t" | .i32 => "int32_t" | .i64 => "int64_t"
  | .addr => "Addr" | .bool => "bool" | .f32 => "float" | .f64 => "double"
  | .string => "string" | .uuid => "UUID" | .offset => "Offset"

mutual
def treeOf : Ty → Tree
  | .leaf l => .node (leafName l).toList []
  | .seq t => .node "sequence".toList [treeOf t]
  | .set t => .node "set".toList [treeOf t]
  | .map k v => .node "mapping".toList [treeOf k, treeOf v]
  | .tuple ts => .node "tuple".toList (treesOf ts)
  | .variant ts => .node "variant".toList (treesOf ts)
  | .unknown n args => .node n.toList (treesOf args)
  | .badArity n args => .node n.toList (treesOf args)
def treesOf : List Ty → List Tree
  | [] => []
  | t :: ts => treeOf t :: treesOf ts
end

/-- the printer: the rendering (`TypeName.render`, the inverse of the parser by C15) of the tree -/
def nameOf (t : Ty) : List Char := render (treeOf t)

/-- `,b,c,...>` -/
def restOf : List Ty → List Char
  | [] => ['>']
  | t :: ts => ',' :: (nameOf t ++ restOf ts)
/-- nothing for no argument, else `<a,b,...>` -/
def argsOf : List Ty → List Char
  | [] => []
  | t :: ts => '<' :: (nameOf t ++ restOf ts)

theorem restOf_eq : ∀ (ts : List Ty) (tr : Tree),
    render tr ++ restOf ts = renderList (tr :: treesOf ts) ++ ['>']
  | [], tr => by simp [restOf, treesOf, renderList_one]
  | t :: ts, tr => by
    have := restOf_eq ts (treeOf t)
    simp [restOf, treesOf, renderList_cons, nameOf, this]

theorem render_treesOf (n : List Char) (ts : List Ty) :
    render (.node n (treesOf ts)) = n ++ argsOf ts := by
  cases ts with
  | nil => simp [argsOf, treesOf, render_leaf]
  | cons t ts =>
    have := restOf_eq ts (treeOf t)
    simp [argsOf, treesOf, render_node, nameOf, this]

theorem nameOf_leaf (l : Leaf) : nameOf (.leaf l) = (leafName l).toList := by
  rw [nameOf, treeOf, render_leaf]
theorem nameOf_seq (t : Ty) : nameOf (.seq t) = "sequence".toList ++ '<' :: (nameOf t ++ ['>']) := by
  rw [nameOf, treeOf, render_node, renderList_one]; rfl
theorem nameOf_set (t : Ty) : nameOf (.set t) = "set".toList ++ '<' :: (nameOf t ++ ['>']) := by
  rw [nameOf, treeOf, render_node, renderList_one]; rfl
theorem nameOf_map (k v : Ty) :
    nameOf (.map k v) = "mapping".toList ++ '<' :: (nameOf k ++ ',' :: (nameOf v ++ ['>'])) := by
  rw [nameOf, treeOf, render_node, renderList_cons, renderList_one, List.append_assoc]; rfl
theorem nameOf_tuple (ts : List Ty) : nameOf (.tuple ts) = "tuple".toList ++ argsOf ts := by
  rw [nameOf, treeOf, render_treesOf]
theorem nameOf_variant (ts : List Ty) : nameOf (.variant ts) = "variant".toList ++ argsOf ts := by
  rw [nameOf, treeOf, render_treesOf]
theorem nameOf_unknown (n : String) (ts : List Ty) : nameOf (.unknown n ts) = n.toList ++ argsOf ts := by
  rw [nameOf, treeOf, render_treesOf]
theorem nameOf_badArity (n : String) (ts : List Ty) : nameOf (.badArity n ts) = n.toList ++ argsOf ts := by
  rw [nameOf, treeOf, render_treesOf]

theorem leafOfName_leafName (l : Leaf) : leafOfName (leafName l) = some l := by
  cases l <;> simp [leafName, leafOfName]

theorem leafOfName_eq_some (s : String) (l : Leaf) (h : leafOfName s = some l) : s = leafName l := by
  unfold leafOfName at h
  split at h <;> first | (cases h; rfl) | cases h

theorem leafName_good (l : Leaf) : GoodName (leafName l).toList := by
  cases l <;> simp [leafName, GoodName, isDelim]

theorem tyOfTree_node (n : List Char) (ks : List Tree) (args : List Ty) :
    tysOfTrees ks = some args → tyOfTree (.node n ks) =
      match leafOfName (String.ofList n) with
      | some l => if args.isEmpty then some (.leaf l) else some (.badArity (String.ofList n) args)
      | none =>
        if String.ofList n == "sequence" then
          match args with | [t] => some (.seq t) | _ => some (.badArity (String.ofList n) args)
        else if String.ofList n == "set" then
          match args with | [t] => some (.set t) | _ => some (.badArity (String.ofList n) args)
        else if String.ofList n == "mapping" then
          match args with | [k, v] => some (.map k v) | _ => some (.badArity (String.ofList n) args)
        else if String.ofList n == "tuple" then some (.tuple args)
        else if String.ofList n == "variant" then some (.variant args)
        else some (.unknown (String.ofList n) args) := by
  intro ha
  simp only [tyOfTree, ha]
  rfl

mutual
theorem tyOfTree_treeOf : ∀ t : Ty, noUnknown t = true → tyOfTree (treeOf t) = some t
  | .leaf l, _ => by
    rw [treeOf, tyOfTree_node _ _ [] rfl]
    simp [leafOfName_leafName]
  | .seq t, h => by
    have ih := tyOfTree_treeOf t (by simpa [noUnknown] using h)
    rw [treeOf, tyOfTree_node _ _ [t] (by simp [tysOfTrees, ih])]
    simp [leafOfName]
  | .set t, h => by
    have ih := tyOfTree_treeOf t (by simpa [noUnknown] using h)
    rw [treeOf, tyOfTree_node _ _ [t] (by simp [tysOfTrees, ih])]
    simp [leafOfName]
  | .map k v, h => by
    simp only [noUnknown, Bool.and_eq_true] at h
    have ihk := tyOfTree_treeOf k h.1
    have ihv := tyOfTree_treeOf v h.2
    rw [treeOf, tyOfTree_node _ _ [k, v] (by simp [tysOfTrees, ihk, ihv])]
    simp [leafOfName]
  | .tuple ts, h => by
    have ih := tysOfTrees_treesOf ts (by simpa [noUnknown] using h)
    rw [treeOf, tyOfTree_node _ _ ts ih]
    simp [leafOfName]
  | .variant ts, h => by
    have ih := tysOfTrees_treesOf ts (by simpa [noUnknown] using h)
    rw [treeOf, tyOfTree_node _ _ ts ih]
    simp [leafOfName]
  | .unknown _ _, h => by simp [noUnknown] at h
  | .badArity _ _, h => by simp [noUnknown] at h
theorem tysOfTrees_treesOf : ∀ ts : List Ty, noUnknownList ts = true →
    tysOfTrees (treesOf ts) = some ts
  | [], _ => rfl
  | t :: ts, h => by
    simp only [noUnknownList, Bool.and_eq_true] at h
    simp [treesOf, tysOfTrees, tyOfTree_treeOf t h.1, tysOfTrees_treesOf ts h.2]
end

theorem toList_of_ofList_eq {n : List Char} {s : String} (h : String.ofList n = s) : n = s.toList := by
  rw [← h]; simp

mutual
/-- `treeOf` is a left inverse of `tyOfTree` on ALL trees (unknown heads, wrong arities included) -/
theorem treeOf_tyOfTree : ∀ (tr : Tree) (t : Ty), tyOfTree tr = some t → treeOf t = tr
  | .node n ks, t, h => by
    obtain ⟨args, ha⟩ := tysOfTrees_isSome ks
    have ih := treesOf_tysOfTrees ks args ha
    rw [tyOfTree_node n ks args ha] at h
    split at h
    · rename_i l hl
      have hn := toList_of_ofList_eq (leafOfName_eq_some _ l hl)
      split at h
      · rename_i he
        cases h
        have : args = [] := by simpa using he
        subst this
        simp only [treesOf] at ih
        rw [treeOf, ← hn, ← ih]
      · cases h
        simp [treeOf, ih]
    · split at h
      · rename_i hs
        have hn := toList_of_ofList_eq (by simpa using hs : String.ofList n = "sequence")
        split at h
        · cases h; simp only [treesOf] at ih; rw [treeOf, ← hn, ih]
        · cases h; simp [treeOf, ih]
      · split at h
        · rename_i hs
          have hn := toList_of_ofList_eq (by simpa using hs : String.ofList n = "set")
          split at h
          · cases h; simp only [treesOf] at ih; rw [treeOf, ← hn, ih]
          · cases h; simp [treeOf, ih]
        · split at h
          · rename_i hs
            have hn := toList_of_ofList_eq (by simpa using hs : String.ofList n = "mapping")
            split at h
            · cases h; simp only [treesOf] at ih; rw [treeOf, ← hn, ih]
            · cases h; simp [treeOf, ih]
          · split at h
            · rename_i hs
              have hn := toList_of_ofList_eq (by simpa using hs : String.ofList n = "tuple")
              cases h; rw [treeOf, ← hn, ih]
            · split at h
              · rename_i hs
                have hn := toList_of_ofList_eq (by simpa using hs : String.ofList n = "variant")
                cases h; rw [treeOf, ← hn, ih]
              · cases h; simp [treeOf, ih]
theorem treesOf_tysOfTrees : ∀ (ks : List Tree) (ts : List Ty), tysOfTrees ks = some ts →
    treesOf ts = ks
  | [], ts, h => by
    simp only [tysOfTrees] at h; cases h; rfl
  | k :: ks, ts, h => by
    simp only [tysOfTrees] at h
    split at h
    · rename_i a b ha hb
      cases h
      simp [treesOf, treeOf_tyOfTree k a ha, treesOf_tysOfTrees ks b hb]
    · cases h
end

mutual
theorem WF_treeOf : ∀ t : Ty, noUnknown t = true → WF (treeOf t)
  | .leaf l, _ => by simp only [treeOf, WF, WFList, and_true]; exact leafName_good l
  | .seq t, h => by
    have ih := WF_treeOf t (by simpa [noUnknown] using h)
    simp only [treeOf, WF, WFList, and_true]
    exact ⟨by simp [GoodName, isDelim], ih⟩
  | .set t, h => by
    have ih := WF_treeOf t (by simpa [noUnknown] using h)
    simp only [treeOf, WF, WFList, and_true]
    exact ⟨by simp [GoodName, isDelim], ih⟩
  | .map k v, h => by
    simp only [noUnknown, Bool.and_eq_true] at h
    simp only [treeOf, WF, WFList, and_true]
    exact ⟨by simp [GoodName, isDelim], WF_treeOf k h.1, WF_treeOf v h.2⟩
  | .tuple ts, h => by
    simp only [treeOf, WF]
    exact ⟨by simp [GoodName, isDelim], WFList_treesOf ts (by simpa [noUnknown] using h)⟩
  | .variant ts, h => by
    simp only [treeOf, WF]
    exact ⟨by simp [GoodName, isDelim], WFList_treesOf ts (by simpa [noUnknown] using h)⟩
  | .unknown _ _, h => by simp [noUnknown] at h
  | .badArity _ _, h => by simp [noUnknown] at h
theorem WFList_treesOf : ∀ ts : List Ty, noUnknownList ts = true → WFList (treesOf ts)
  | [], _ => by simp [treesOf, WFList]
  | t :: ts, h => by
    simp only [noUnknownList, Bool.and_eq_true] at h
    simp only [treesOf, WFList]
    exact ⟨WF_treeOf t h.1, WFList_treesOf ts h.2⟩
end

/-- (a) every type without unknown / wrong-arity head is denoted by its printed name -/
theorem tyOfName_nameOf (t : Ty) (h : noUnknown t = true) :
    tyOfName (String.ofList (nameOf t)) = some t := by
  simp only [tyOfName, String.toList_ofList, nameOf, C15_complete (treeOf t) (WF_treeOf t h),
    tyOfTree_treeOf t h]

/-- conversely every name that denotes a type at all (ANY name the parser accepts) is the
printed name of that type: `nameOf` is the inverse of `tyOfName` -/
theorem nameOf_tyOfName (s : String) (t : Ty) (h : tyOfName s = some t) :
    String.ofList (nameOf t) = s := by
  unfold tyOfName at h
  split at h
  · rename_i tr hp
    rw [nameOf, treeOf_tyOfTree tr t h, (C15_sound _ _ hp).2]
    simp
  · cases h

theorem tyOfName_injective (s s' : String) (t : Ty) (h : tyOfName s = some t)
    (h' : tyOfName s' = some t) : s = s' := by
  rw [← nameOf_tyOfName s t h, ← nameOf_tyOfName s' t h']

/-! the supported type names as a condition on the NAME (its parse tree) alone -/

/-- the 15 names of the fixed-size types, string, UUID and Offset -/
def leafNames : List String :=
  ["uint8_t", "uint16_t", "uint32_t", "uint64_t", "int8_t", "int16_t", "int32_t", "int64_t",
   "Addr", "bool", "float", "double", "string", "UUID", "Offset"]

/-- the 20 heads with a codec and the number of arguments each takes (`none`: any number) -/
def headArity (s : String) : Option (Option Nat) :=
  if s ∈ leafNames then some (some 0)
  else if s = "sequence" ∨ s = "set" then some (some 1)
  else if s = "mapping" then some (some 2)
  else if s = "tuple" ∨ s = "variant" then some none
  else none

mutual
def supported : Tree → Bool
  | .node n ks =>
    supportedList ks &&
      (match headArity (String.ofList n) with
       | some (some k) => ks.length == k
       | some none => true
       | none => false)
def supportedList : List Tree → Bool
  | [] => true
  | t :: ts => supported t && supportedList ts
end

theorem mem_leafNames_iff (s : String) : s ∈ leafNames ↔ ∃ l, leafOfName s = some l := by
  constructor
  · intro h
    simp only [leafNames, List.mem_cons, List.not_mem_nil, or_false] at h
    rcases h with h | h | h | h | h | h | h | h | h | h | h | h | h | h | h <;>
      (subst h; exact ⟨_, by simp [leafOfName]; rfl⟩)
  · rintro ⟨l, h⟩
    rw [leafOfName_eq_some s l h]
    cases l <;> simp [leafName, leafNames]

theorem treesOf_length (ts : List Ty) : (treesOf ts).length = ts.length := by
  induction ts with
  | nil => rfl
  | cons t ts ih => simp [treesOf, ih]

theorem headArity_leaf (s : String) (l : Leaf) (h : leafOfName s = some l) :
    headArity s = some (some 0) := by
  simp [headArity, (mem_leafNames_iff s).2 ⟨l, h⟩]

theorem headArity_nonleaf (s : String) (h : leafOfName s = none) :
    headArity s =
      if s = "sequence" ∨ s = "set" then some (some 1)
      else if s = "mapping" then some (some 2)
      else if s = "tuple" ∨ s = "variant" then some none
      else none := by
  have : ¬ s ∈ leafNames := by
    rw [mem_leafNames_iff]; rintro ⟨l, hl⟩; rw [h] at hl; cases hl
  simp [headArity, this]

mutual
theorem noUnknown_iff_supported : ∀ (tr : Tree) (t : Ty), tyOfTree tr = some t →
    (noUnknown t = true ↔ supported tr = true)
  | .node n ks, t, h => by
    obtain ⟨args, ha⟩ := tysOfTrees_isSome ks
    have ih := noUnknownList_iff_supportedList ks args ha
    have hlen : ks.length = args.length := by
      rw [← treesOf_tysOfTrees ks args ha, treesOf_length]
    rw [tyOfTree_node n ks args ha] at h
    simp only [supported, Bool.and_eq_true, ← ih]
    split at h
    · rename_i l hl
      rw [headArity_leaf _ l hl]
      split at h
      · rename_i he
        cases h
        have : args = [] := by simpa using he
        subst this
        simp [noUnknown, noUnknownList, hlen]
      · rename_i he
        cases h
        have : args ≠ [] := by simpa using he
        simp [noUnknown, hlen, this]
    · rename_i hl
      rw [headArity_nonleaf _ hl]
      split at h
      · rename_i hs
        have hs' : String.ofList n = "sequence" := by simpa using hs
        split at h
        · cases h; simp [noUnknown, noUnknownList, hs', hlen]
        · rename_i hne
          cases h
          have : args.length ≠ 1 := by
            intro hl1
            match args, hl1 with
            | [a], _ => exact hne a rfl
          simp [noUnknown, hs', hlen, this]
      · rename_i hs1
        have hs1' : String.ofList n ≠ "sequence" := by simpa using hs1
        split at h
        · rename_i hs
          have hs' : String.ofList n = "set" := by simpa using hs
          split at h
          · cases h; simp [noUnknown, noUnknownList, hs', hlen]
          · rename_i hne
            cases h
            have : args.length ≠ 1 := by
              intro hl1
              match args, hl1 with
              | [a], _ => exact hne a rfl
            simp [noUnknown, hs', hlen, this]
        · rename_i hs2
          have hs2' : String.ofList n ≠ "set" := by simpa using hs2
          split at h
          · rename_i hs
            have hs' : String.ofList n = "mapping" := by simpa using hs
            split at h
            · cases h; simp [noUnknown, noUnknownList, hs', hlen]
            · rename_i hne
              cases h
              have : args.length ≠ 2 := by
                intro hl1
                match args, hl1 with
                | [a, b], _ => exact hne a b rfl
              simp [noUnknown, hs', hlen, this]
          · rename_i hs3
            have hs3' : String.ofList n ≠ "mapping" := by simpa using hs3
            split at h
            · rename_i hs
              have hs' : String.ofList n = "tuple" := by simpa using hs
              cases h; simp [noUnknown, hs']
            · rename_i hs4
              have hs4' : String.ofList n ≠ "tuple" := by simpa using hs4
              split at h
              · rename_i hs
                have hs' : String.ofList n = "variant" := by simpa using hs
                cases h; simp [noUnknown, hs']
              · rename_i hs5
                have hs5' : String.ofList n ≠ "variant" := by simpa using hs5
                cases h
                simp [noUnknown, hs1', hs2', hs3', hs4', hs5']
theorem noUnknownList_iff_supportedList : ∀ (ks : List Tree) (ts : List Ty),
    tysOfTrees ks = some ts → (noUnknownList ts = true ↔ supportedList ks = true)
  | [], ts, h => by
    simp only [tysOfTrees] at h; cases h; simp [noUnknownList, supportedList]
  | k :: ks, ts, h => by
    simp only [tysOfTrees] at h
    split at h
    · rename_i a b ha hb
      cases h
      simp [noUnknownList, supportedList, noUnknown_iff_supported k a ha,
        noUnknownList_iff_supportedList ks b hb]
    · cases h
end

mutual
/-- no head without codec anywhere in the type (arguments of wrong-arity heads included) -/
def knownHeads : Ty → Bool
  | .leaf _ => true
  | .seq t => knownHeads t
  | .set t => knownHeads t
  | .map k v => knownHeads k && knownHeads v
  | .tuple ts => knownHeadsList ts
  | .variant ts => knownHeadsList ts
  | .unknown _ _ => false
  | .badArity _ args => knownHeadsList args
def knownHeadsList : List Ty → Bool
  | [] => true
  | t :: ts => knownHeads t && knownHeadsList ts
end

mutual
theorem noUnknown_iff : ∀ t : Ty, noUnknown t = true ↔ (arityOk t = true ∧ knownHeads t = true)
  | .leaf _ => by simp [noUnknown, arityOk, knownHeads]
  | .seq t => by simpa [noUnknown, arityOk, knownHeads] using noUnknown_iff t
  | .set t => by simpa [noUnknown, arityOk, knownHeads] using noUnknown_iff t
  | .map k v => by
    simp only [noUnknown, arityOk, knownHeads, Bool.and_eq_true, noUnknown_iff k, noUnknown_iff v]
    constructor
    · rintro ⟨⟨a, b⟩, c, d⟩; exact ⟨⟨a, c⟩, b, d⟩
    · rintro ⟨⟨a, c⟩, b, d⟩; exact ⟨⟨a, b⟩, c, d⟩
  | .tuple ts => by simpa [noUnknown, arityOk, knownHeads] using noUnknownList_iff ts
  | .variant ts => by simpa [noUnknown, arityOk, knownHeads] using noUnknownList_iff ts
  | .unknown _ _ => by simp [noUnknown, knownHeads]
  | .badArity _ _ => by simp [noUnknown, arityOk]
theorem noUnknownList_iff : ∀ ts : List Ty,
    noUnknownList ts = true ↔ (arityOkList ts = true ∧ knownHeadsList ts = true)
  | [] => by simp [noUnknownList, arityOkList, knownHeadsList]
  | t :: ts => by
    simp only [noUnknownList, arityOkList, knownHeadsList, Bool.and_eq_true, noUnknown_iff t,
      noUnknownList_iff ts]
    constructor
    · rintro ⟨⟨a, b⟩, c, d⟩; exact ⟨⟨a, c⟩, b, d⟩
    · rintro ⟨⟨a, c⟩, b, d⟩; exact ⟨⟨a, b⟩, c, d⟩
end

/-- the converse of `tyOfName_nameOf` in the form the task asks for -/
theorem noUnknown_of_tyOfName (s : String) (t : Ty) (_h : tyOfName s = some t)
    (ha : arityOk t = true) (hk : knownHeads t = true) : noUnknown t = true :=
  (noUnknown_iff t).2 ⟨ha, hk⟩

/-- the supported type names: the strings the grammar generates (C15) whose heads are among the
20 with a codec, each with the number of arguments its codec takes. They are exactly the
printed names of the types `C07_roundtrip` ranges over beyond the partially-unknown ones. -/
theorem C07_supported_names (s : String) :
    (∃ tr, parseType s.toList = some tr ∧ supported tr = true) ↔
      ∃ t, noUnknown t = true ∧ s = String.ofList (nameOf t) := by
  constructor
  · rintro ⟨tr, hp, hs⟩
    obtain ⟨t, ht⟩ := tyOfTree_isSome tr
    have hn : tyOfName s = some t := by simp [tyOfName, hp, ht]
    exact ⟨t, (noUnknown_iff_supported tr t ht).2 hs, (nameOf_tyOfName s t hn).symm⟩
  · rintro ⟨t, hn, rfl⟩
    refine ⟨treeOf t, ?_, (noUnknown_iff_supported _ t (tyOfTree_treeOf t hn)).1 hn⟩
    simp [nameOf, C15_complete (treeOf t) (WF_treeOf t hn)]

open Gtirb.AuxTable in
/-- C07 at the level the property speaks at (type NAMES, the table-level encoder / decoder):
for every name denoting a type and every value of that type, saving succeeds and reading what
was saved - whatever follows it - hands back the value -/
theorem C07_roundtrip_name (lookup : Bytes → Option Nat) (nodeUuid : Nat → Bytes) (name : String)
    (ty : Ty) (v : Val) (hty : tyOfName name = some ty) (h : hasType lookup nodeUuid ty v = true) :
    ∃ bs, encodeTop nodeUuid name (.val v) = .ok bs ∧
      ∀ rest, decodeTop lookup name (bs ++ rest) = .ok (.val v) := by
  obtain ⟨bs, hb, hd⟩ := C07_roundtrip lookup nodeUuid ty v h
  unfold tyOfName at hty
  split at hty
  · rename_i tr hp
    refine ⟨bs, by simp [encodeTop, hp, hty, hb], fun rest => by simp [decodeTop, hp, hty, hd]⟩
  · cases hty

open Gtirb.AuxTable in
/-- ... and for every SUPPORTED type name, named by the type it denotes -/
theorem C07_roundtrip_supported (lookup : Bytes → Option Nat) (nodeUuid : Nat → Bytes) (t : Ty)
    (ht : noUnknown t = true) (v : Val) (h : hasType lookup nodeUuid t v = true) :
    ∃ bs, encodeTop nodeUuid (String.ofList (nameOf t)) (.val v) = .ok bs ∧
      ∀ rest, decodeTop lookup (String.ofList (nameOf t)) (bs ++ rest) = .ok (.val v) :=
  C07_roundtrip_name lookup nodeUuid _ t v (tyOfName_nameOf t ht) h

/-! non-vacuity -/

def exNamedTy : Ty := .map (.leaf .string) (.seq (.tuple [.leaf .uuid, .leaf .i16]))

example : nameOf exNamedTy = "mapping<string,sequence<tuple<UUID,int16_t>>>".toList := by
  simp [exNamedTy, nameOf, treeOf, treesOf, render, renderList, leafName]
example : nameOf (.tuple []) = "tuple".toList := by
  simp [nameOf, treeOf, treesOf, render]
example : noUnknown exNamedTy = true := by decide
theorem exNamedTy_name :
    tyOfName "mapping<string,sequence<tuple<UUID,int16_t>>>" = some exNamedTy := by
  have h : "mapping<string,sequence<tuple<UUID,int16_t>>>" = String.ofList (nameOf exNamedTy) := by
    simp [exNamedTy, nameOf, treeOf, treesOf, render, renderList, leafName]
  rw [h]; exact tyOfName_nameOf exNamedTy (by decide)

open Gtirb.AuxTable in
/-- `C07_roundtrip_name` on `{"hé": [(node 1, -2)]}` under that name -/
example : ∃ bs, encodeTop exNodeUuid "mapping<string,sequence<tuple<UUID,int16_t>>>"
      (.val (.map [.str "hé"] [.seq [.tuple [.node 1, .int (-2)]]])) = .ok bs ∧
    ∀ rest, decodeTop exLookup "mapping<string,sequence<tuple<UUID,int16_t>>>" (bs ++ rest) =
      .ok (.val (.map [.str "hé"] [.seq [.tuple [.node 1, .int (-2)]]])) :=
  C07_roundtrip_name exLookup exNodeUuid _ exNamedTy _ exNamedTy_name (by
    simp only [exNamedTy, hasType, hasTypeTuple, leafHasType, allMany, utf8_length_eq,
      Bool.and_eq_true, decide_eq_true_eq]
    decide)
/-- a known head with a wrong arity, an unknown head: parse, but are not supported -/
example : supported (.node "sequence".toList [.node "bool".toList [], .node "bool".toList []]) = false := by
  simp [supported, supportedList, headArity, leafNames]
example : supported (.node "foo".toList []) = false := by
  simp [supported, supportedList, headArity, leafNames]
example : supported (.node "mapping".toList [.node "string".toList [], .node "tuple".toList []]) = true := by
  simp [supported, supportedList, headArity, leafNames]

/-! ### (b) resolution at any depth -/

/-- what the decoder makes of 16 bytes at a UUID position: the node they name if they name
one, else the plain UUID -/
def resolveBytes (lookup : Bytes → Option Nat) (u : Bytes) : Val :=
  match lookup u with
  | some id => .node id
  | none => .uuid u

mutual
def resolve (lookup : Bytes → Option Nat) (nu : Nat → Bytes) : Val → Val
  | .uuid u => resolveBytes lookup u
  | .node id => resolveBytes lookup (nu id)
  | .offset e d => .offset (resolve lookup nu e) d
  | .seq xs => .seq (resolveList lookup nu xs)
  | .set xs => .set (dedup (resolveList lookup nu xs))
  | .map ks vs =>
    .map (mapBuild (resolveList lookup nu ks) (resolveList lookup nu vs)).1
      (mapBuild (resolveList lookup nu ks) (resolveList lookup nu vs)).2
  | .tuple xs => .tuple (resolveList lookup nu xs)
  | .variant i v => .variant i (resolve lookup nu v)
  | .int n => .int n
  | .bool b => .bool b
  | .f32 b => .f32 b
  | .f64 b => .f64 b
  | .str s => .str s
def resolveList (lookup : Bytes → Option Nat) (nu : Nat → Bytes) : List Val → List Val
  | [] => []
  | x :: xs => resolve lookup nu x :: resolveList lookup nu xs
end

theorem resolveList_eq_map (lookup : Bytes → Option Nat) (nu : Nat → Bytes) (xs : List Val) :
    resolveList lookup nu xs = xs.map (resolve lookup nu) := by
  induction xs with
  | nil => rfl
  | cons x xs ih => simp [resolveList, ih]

def elemOk' (nu : Nat → Bytes) : Val → Bool
  | .uuid u => u.length == 16
  | .node id => (nu id).length == 16
  | _ => false

def leafHasType' (nu : Nat → Bytes) : Leaf → Val → Bool
  | .bool, .bool _ => true
  | .f32, .f32 bits => decide (bits < 2 ^ 32)
  | .f64, .f64 bits => decide (bits < 2 ^ 64)
  | .string, .str s => decide (s.toUTF8.toList.length < 2 ^ 64)
  | .uuid, v => elemOk' nu v
  | .offset, .offset e d => elemOk' nu e && decide (d < 2 ^ 64)
  | l, .int n => l.isInt && intInRange l.signed l.width n
  | _, _ => false

mutual
def hasType' (nu : Nat → Bytes) : Ty → Val → Bool
  | .leaf l, v => leafHasType' nu l v
  | .seq t, .seq xs => allMany (hasType' nu t) xs && decide (xs.length < 2 ^ 64)
  | .set t, .set xs => allMany (hasType' nu t) xs && decide (xs.length < 2 ^ 64)
  | .map kt vt, .map ks vs =>
    allMany (hasType' nu kt) ks && allMany (hasType' nu vt) vs &&
      ks.length == vs.length && decide (ks.length < 2 ^ 64)
  | .tuple ts, .tuple xs => hasTypeTuple' nu ts xs
  | .variant ts, .variant i v => decide (i < 2 ^ 64) && hasTypeNth' nu ts i v
  | _, _ => false
def hasTypeTuple' (nu : Nat → Bytes) : List Ty → List Val → Bool
  | [], [] => true
  | t :: ts, x :: xs => hasType' nu t x && hasTypeTuple' nu ts xs
  | _, _ => false
def hasTypeNth' (nu : Nat → Bytes) : List Ty → Nat → Val → Bool
  | [], _, _ => false
  | t :: _, 0, v => hasType' nu t v
  | _ :: ts, i + 1, v => hasTypeNth' nu ts i v
end

/-- `f`/`g` take `x` to `r x` (with an arbitrary suffix left untouched) -/
def RT' (r : Val → Val) (f : Val → Option Bytes) (g : Bytes → Res (Val × Bytes)) (x : Val) : Prop :=
  ∃ bs, f x = some bs ∧ ∀ rest, g (bs ++ rest) = .ok (r x, rest)

theorem many_resolution (r : Val → Val) (f : Val → Option Bytes) (g : Bytes → Res (Val × Bytes))
    (p : Val → Bool) (hfg : ∀ x, p x = true → RT' r f g x) (xs : List Val)
    (h : allMany p xs = true) :
    ∃ bs, encodeMany f xs = some bs ∧
      ∀ rest, decodeMany g xs.length (bs ++ rest) = .ok (xs.map r, rest) := by
  induction xs with
  | nil => exact ⟨[], rfl, fun rest => rfl⟩
  | cons x xs ih =>
    simp only [allMany, Bool.and_eq_true] at h
    obtain ⟨a, ha, hda⟩ := hfg x h.1
    obtain ⟨b, hb, hdb⟩ := ih h.2
    refine ⟨a ++ b, by simp [encodeMany, ha, hb], fun rest => ?_⟩
    simp [decodeMany, List.append_assoc, hda, hdb]

theorem manyPairs_resolution (r r' : Val → Val) (f f' : Val → Option Bytes)
    (g g' : Bytes → Res (Val × Bytes)) (p p' : Val → Bool)
    (hfg : ∀ x, p x = true → RT' r f g x) (hfg' : ∀ x, p' x = true → RT' r' f' g' x)
    (ks vs : List Val) (hl : ks.length = vs.length)
    (hk : allMany p ks = true) (hv : allMany p' vs = true) :
    ∃ bs, encodeManyPairs f f' ks vs = some bs ∧
      ∀ rest, decodeManyPairs g g' ks.length (bs ++ rest) = .ok (ks.map r, vs.map r', rest) := by
  induction ks generalizing vs with
  | nil =>
    cases vs with
    | nil => exact ⟨[], rfl, fun rest => rfl⟩
    | cons _ _ => simp at hl
  | cons k ks ih =>
    cases vs with
    | nil => simp at hl
    | cons v vs =>
      simp only [allMany, Bool.and_eq_true] at hk hv
      simp only [List.length_cons, Nat.add_right_cancel_iff] at hl
      obtain ⟨a, ha, hda⟩ := hfg k hk.1
      obtain ⟨b, hb, hdb⟩ := hfg' v hv.1
      obtain ⟨c, hc, hdc⟩ := ih vs hl hk.2 hv.2
      refine ⟨a ++ b ++ c, by simp [encodeManyPairs, ha, hb, hc], fun rest => ?_⟩
      simp [decodeManyPairs, List.append_assoc, hda, hdb, hdc]

theorem decodeElem_append (lookup : Bytes → Option Nat) (u rest : Bytes) (hu : u.length = 16) :
    decodeElem lookup (u ++ rest) = .ok (resolveBytes lookup u, rest) := by
  simp only [decodeElem, splitAt?_append 16 u rest hu, resolveBytes]
  cases lookup u <;> rfl

theorem elem_resolution (lookup : Bytes → Option Nat) (nu : Nat → Bytes) (e : Val)
    (h : elemOk' nu e = true) :
    ∃ u, encodeElem nu e = some u ∧ u.length = 16 ∧
      ∀ rest, decodeElem lookup (u ++ rest) = .ok (resolve lookup nu e, rest) := by
  cases e <;> simp [elemOk'] at h
  case uuid u =>
    exact ⟨u, by simp [encodeElem, h], h, fun rest => by
      rw [decodeElem_append lookup u rest h, resolve]⟩
  case node id =>
    exact ⟨nu id, by simp [encodeElem, h], h, fun rest => by
      rw [decodeElem_append lookup _ rest h, resolve]⟩

theorem leaf_resolution (lookup : Bytes → Option Nat) (nu : Nat → Bytes) (l : Leaf) (v : Val)
    (h : leafHasType' nu l v = true) :
    RT' (resolve lookup nu) (encodeLeaf nu l) (decodeLeaf lookup l) v := by
  cases v with
  | int n =>
    have h' : l.isInt = true ∧ intInRange l.signed l.width n = true := by
      cases l <;> simp [leafHasType', elemOk', Leaf.isInt] at h ⊢ <;> exact h
    simpa [RT', RT, resolve] using leafInt_roundtrip lookup nu l n h'.1 h'.2
  | bool b =>
    cases l <;> simp [leafHasType', elemOk'] at h
    refine ⟨[if b then 1 else 0], by simp [encodeLeaf], fun rest => ?_⟩
    cases b <;> simp [decodeLeaf, resolve]
  | f32 bits =>
    cases l <;> simp [leafHasType', elemOk'] at h
    refine ⟨leBytes 4 bits, by simp [encodeLeaf, h], fun rest => ?_⟩
    simp [decodeLeaf, resolve, splitAt?_append 4 _ rest (leBytes_length 4 bits),
      leNat_leBytes_of_lt 4 bits (by simpa using h)]
  | f64 bits =>
    cases l <;> simp [leafHasType', elemOk'] at h
    refine ⟨leBytes 8 bits, by simp [encodeLeaf, h], fun rest => ?_⟩
    simp [decodeLeaf, resolve, splitAt?_append 8 _ rest (leBytes_length 8 bits),
      leNat_leBytes_of_lt 8 bits (by simpa using h)]
  | str s =>
    cases l
    case string =>
      have hs : s.toUTF8.toList.length < 2 ^ 64 := by
        simpa only [leafHasType', decide_eq_true_eq] using h
      refine ⟨u64 s.toUTF8.toList.length ++ s.toUTF8.toList, ?_, fun rest => ?_⟩
      · simp only [encodeLeaf, hs, if_true]
      · simp only [decodeLeaf, List.append_assoc, splitAt?_u64, leNat_u64 _ hs,
          splitAt?_append _ s.toUTF8.toList rest rfl, string_utf8_roundtrip, resolve]
    all_goals simp [leafHasType', elemOk'] at h
  | uuid u =>
    cases l <;> simp [leafHasType'] at h
    obtain ⟨a, ha, _, hd⟩ := elem_resolution lookup nu (.uuid u) (by simpa [leafHasType'] using h)
    exact ⟨a, by simpa [encodeLeaf] using ha, fun rest => by simpa [decodeLeaf] using hd rest⟩
  | node id =>
    cases l <;> simp [leafHasType'] at h
    obtain ⟨a, ha, _, hd⟩ := elem_resolution lookup nu (.node id) (by simpa [leafHasType'] using h)
    exact ⟨a, by simpa [encodeLeaf] using ha, fun rest => by simpa [decodeLeaf] using hd rest⟩
  | offset e d =>
    cases l <;> simp [leafHasType', elemOk'] at h
    obtain ⟨a, ha, hal, hd⟩ := elem_resolution lookup nu e h.1
    refine ⟨a ++ u64 d, by simp [encodeLeaf, ha, h.2], fun rest => ?_⟩
    simp [decodeLeaf, resolve, List.append_assoc, hd, splitAt?_u64, leNat_u64 _ h.2]
  | seq xs => cases l <;> simp [leafHasType', elemOk'] at h
  | set xs => cases l <;> simp [leafHasType', elemOk'] at h
  | map ks vs => cases l <;> simp [leafHasType', elemOk'] at h
  | tuple xs => cases l <;> simp [leafHasType', elemOk'] at h
  | variant i v => cases l <;> simp [leafHasType', elemOk'] at h

section
variable (lookup : Bytes → Option Nat) (nu : Nat → Bytes)

mutual
theorem resolution : ∀ (t : Ty) (v : Val), hasType' nu t v = true →
    RT' (resolve lookup nu) (encode nu t) (decode lookup t) v
  | .leaf l, v, h => by
    have h' : leafHasType' nu l v = true := by simpa [hasType'] using h
    obtain ⟨bs, hb, hd⟩ := leaf_resolution lookup nu l v h'
    exact ⟨bs, by simpa [encode] using hb, fun rest => by simpa [decode] using hd rest⟩
  | .seq t, v, h => by
    cases v <;> simp [hasType'] at h
    case seq xs =>
      obtain ⟨bs, hb, hd⟩ := many_resolution (resolve lookup nu) (encode nu t) (decode lookup t)
        (hasType' nu t) (fun x hx => resolution t x hx) xs h.1
      refine ⟨u64 xs.length ++ bs, by simp [encode, hb, h.2], fun rest => ?_⟩
      simp [decode, resolve, resolveList_eq_map, List.append_assoc, splitAt?_u64,
        leNat_u64 _ h.2, hd]
  | .set t, v, h => by
    cases v <;> simp [hasType'] at h
    case set xs =>
      obtain ⟨bs, hb, hd⟩ := many_resolution (resolve lookup nu) (encode nu t) (decode lookup t)
        (hasType' nu t) (fun x hx => resolution t x hx) xs h.1
      refine ⟨u64 xs.length ++ bs, by simp [encode, hb, h.2], fun rest => ?_⟩
      simp [decode, resolve, resolveList_eq_map, List.append_assoc, splitAt?_u64,
        leNat_u64 _ h.2, hd]
  | .map kt vt, v, h => by
    cases v <;> simp [hasType'] at h
    case map ks vs =>
      obtain ⟨⟨⟨hk, hv⟩, hl⟩, hn⟩ := h
      obtain ⟨bs, hb, hd'⟩ := manyPairs_resolution (resolve lookup nu) (resolve lookup nu)
        (encode nu kt) (encode nu vt) (decode lookup kt) (decode lookup vt)
        (hasType' nu kt) (hasType' nu vt)
        (fun x hx => resolution kt x hx) (fun x hx => resolution vt x hx) ks vs hl hk hv
      refine ⟨u64 ks.length ++ bs, by simp [encode, hb, hn], fun rest => ?_⟩
      simp [decode, resolve, resolveList_eq_map, List.append_assoc, splitAt?_u64,
        leNat_u64 _ hn, hd']
  | .tuple ts, v, h => by
    cases v <;> simp [hasType'] at h
    case tuple xs =>
      obtain ⟨bs, hb, hd⟩ := resolutionTuple ts xs h
      exact ⟨bs, by simpa [encode] using hb, fun rest => by simp [decode, resolve, hd]⟩
  | .variant ts, v, h => by
    cases v <;> simp [hasType'] at h
    case variant i x =>
      obtain ⟨bs, hb, hd⟩ := resolutionNth ts i x h.2
      refine ⟨u64 i ++ bs, by simp [encode, hb, h.1], fun rest => ?_⟩
      simp [decode, resolve, List.append_assoc, splitAt?_u64, leNat_u64 _ h.1, hd]
  | .unknown _ _, v, h => by
    cases v <;> simp [hasType'] at h
  | .badArity _ _, v, h => by
    cases v <;> simp [hasType'] at h
theorem resolutionTuple : ∀ (ts : List Ty) (xs : List Val), hasTypeTuple' nu ts xs = true →
    ∃ bs, encodeTuple nu ts xs = some bs ∧
      ∀ rest, decodeTuple lookup ts (bs ++ rest) = .ok (resolveList lookup nu xs, rest)
  | [], xs, h => by
    cases xs <;> simp [hasTypeTuple'] at h
    exact ⟨[], by simp [encodeTuple], fun rest => by simp [decodeTuple, resolveList]⟩
  | t :: ts, xs, h => by
    cases xs <;> simp [hasTypeTuple'] at h
    case cons x xs =>
      obtain ⟨a, ha, hda⟩ := resolution t x h.1
      obtain ⟨b, hb, hdb⟩ := resolutionTuple ts xs h.2
      refine ⟨a ++ b, by simp [encodeTuple, ha, hb], fun rest => ?_⟩
      simp [decodeTuple, resolveList, List.append_assoc, hda, hdb]
theorem resolutionNth : ∀ (ts : List Ty) (i : Nat) (v : Val), hasTypeNth' nu ts i v = true →
    ∃ bs, encodeNth nu ts i v = some bs ∧
      ∀ rest, decodeNth lookup ts i (bs ++ rest) = .ok (resolve lookup nu v, rest)
  | [], i, v, h => by simp [hasTypeNth'] at h
  | t :: ts, 0, v, h => by
    obtain ⟨a, ha, hda⟩ := resolution t v (by simpa [hasTypeNth'] using h)
    exact ⟨a, by simpa [encodeNth] using ha, fun rest => by simpa [decodeNth] using hda rest⟩
  | t :: ts, i + 1, v, h => by
    obtain ⟨a, ha, hda⟩ := resolutionNth ts i v (by simpa [hasTypeNth'] using h)
    exact ⟨a, by simpa [encodeNth] using ha, fun rest => by simpa [decodeNth] using hda rest⟩
end
end

/-- (b) RESOLUTION AT ANY DEPTH.  Every value the encoder accepts (`hasType'`: as `hasType`,
but a UUID-typed element is ANY 16-byte UUID or any node with a 16-byte uuid, whether or not
the lookup table knows it, and sets / mapping keys need not be distinct) is written, and what
is read back - whatever follows - is its resolution: every UUID position, at any depth
(inside offsets, sequences, tuples, variants, sets, mapping keys and values), holds the node
the 16 bytes name if they name one and the plain UUID otherwise; sets and mappings are rebuilt
from the resolved elements by the decoder's own `set.add` / `dict[k] = v` (`dedup`,
`mapBuild`), so elements that resolve to the same thing collapse.
No hypothesis relates `lookup` and `nodeUuid` (`Coherent` is not needed for this direction). -/
theorem C07_resolution (lookup : Bytes → Option Nat) (nodeUuid : Nat → Bytes) (t : Ty) (v : Val)
    (h : hasType' nodeUuid t v = true) :
    ∃ bs, encode nodeUuid t v = some bs ∧
      ∀ rest, decode lookup t (bs ++ rest) = .ok (resolve lookup nodeUuid v, rest) :=
  resolution lookup nodeUuid t v h

/-! `hasType'` is exactly the domain of the encoder -/

section
variable (nu : Nat → Bytes)

theorem encodeElem_elemOk' (e : Val) (u : Bytes) (h : encodeElem nu e = some u) :
    elemOk' nu e = true := by
  cases e <;> simp only [encodeElem] at h <;> first | cases h | skip
  all_goals
    split at h
    · simp [elemOk']; assumption
    · cases h

theorem encodeLeaf_hasType' (l : Leaf) (v : Val) (bs : Bytes) (h : encodeLeaf nu l v = some bs) :
    leafHasType' nu l v = true := by
  cases v with
  | int n =>
    have h' : l.isInt = true ∧ encodeInt l.signed l.width n = some bs := by
      cases l <;> simp [encodeLeaf, Leaf.isInt, encodeElem] at h ⊢ <;> exact h
    have hr : intInRange l.signed l.width n = true := by
      have := h'.2
      unfold encodeInt at this
      split at this
      · assumption
      · cases this
    cases l <;> simp [Leaf.isInt] at h' <;> simpa [leafHasType', Leaf.isInt] using hr
  | bool b => cases l <;> simp [encodeLeaf, encodeElem] at h; rfl
  | f32 bits =>
    cases l <;> simp [encodeLeaf, encodeElem] at h
    simpa [leafHasType'] using h.1
  | f64 bits =>
    cases l <;> simp [encodeLeaf, encodeElem] at h
    simpa [leafHasType'] using h.1
  | str s =>
    cases l <;> simp [encodeLeaf, encodeElem] at h
    simpa [leafHasType'] using h.1
  | uuid u =>
    cases l <;> simp only [encodeLeaf] at h <;> first | cases h | skip
    simpa [leafHasType'] using encodeElem_elemOk' nu _ _ h
  | node id =>
    cases l <;> simp only [encodeLeaf] at h <;> first | cases h | skip
    simpa [leafHasType'] using encodeElem_elemOk' nu _ _ h
  | offset e d =>
    cases l <;> simp only [encodeLeaf, encodeElem] at h <;> first | cases h | skip
    split at h
    · rename_i u hu
      split at h
      · rename_i hd
        simp [leafHasType', encodeElem_elemOk' nu _ _ hu, hd]
      · cases h
    · cases h
  | seq xs => cases l <;> simp [encodeLeaf, encodeElem] at h
  | set xs => cases l <;> simp [encodeLeaf, encodeElem] at h
  | map ks vs => cases l <;> simp [encodeLeaf, encodeElem] at h
  | tuple xs => cases l <;> simp [encodeLeaf, encodeElem] at h
  | variant i v => cases l <;> simp [encodeLeaf, encodeElem] at h

theorem encodeMany_allMany (f : Val → Option Bytes) (p : Val → Bool)
    (ih : ∀ x a, f x = some a → p x = true) :
    ∀ (xs : List Val) (body : Bytes), encodeMany f xs = some body → allMany p xs = true
  | [], _, _ => rfl
  | x :: xs, body, h => by
    obtain ⟨a, b, ha, hb, _⟩ := (C08_many_cons f x xs body).1 h
    simp [allMany, ih x a ha, encodeMany_allMany f p ih xs b hb]

theorem encodeManyPairs_allMany (f g : Val → Option Bytes) (p q : Val → Bool)
    (ihf : ∀ x a, f x = some a → p x = true) (ihg : ∀ x a, g x = some a → q x = true) :
    ∀ (ks vs : List Val) (body : Bytes), encodeManyPairs f g ks vs = some body →
      allMany p ks = true ∧ allMany q vs = true
  | [], [], _, _ => ⟨rfl, rfl⟩
  | [], _ :: _, body, h => by simp [encodeManyPairs] at h
  | _ :: _, [], body, h => by simp [encodeManyPairs] at h
  | k :: ks, v :: vs, body, h => by
    obtain ⟨a, b, c, ha, hb, hc, _⟩ := (C08_manyPairs_cons f g k v ks vs body).1 h
    obtain ⟨h1, h2⟩ := encodeManyPairs_allMany f g p q ihf ihg ks vs c hc
    simp [allMany, ihf k a ha, ihg v b hb, h1, h2]

mutual
theorem encode_hasType' : ∀ (t : Ty) (v : Val) (bs : Bytes), encode nu t v = some bs →
    hasType' nu t v = true
  | .leaf l, v, bs, h => by
    rw [hasType']; exact encodeLeaf_hasType' nu l v bs (by simpa only [encode] using h)
  | .seq t, v, bs, h => by
    cases v with
    | seq xs =>
      obtain ⟨body, hb, hl, _⟩ := (encode_seq_iff nu t xs bs).1 h
      simp [hasType', hl, encodeMany_allMany _ (hasType' nu t)
        (fun x a hx => encode_hasType' t x a hx) xs body hb]
    | _ => simp [encode] at h
  | .set t, v, bs, h => by
    cases v with
    | set xs =>
      obtain ⟨body, hb, hl, _⟩ := (encode_set_iff nu t xs bs).1 h
      simp [hasType', hl, encodeMany_allMany _ (hasType' nu t)
        (fun x a hx => encode_hasType' t x a hx) xs body hb]
    | _ => simp [encode] at h
  | .map kt vt, v, bs, h => by
    cases v with
    | map ks vs =>
      obtain ⟨body, hb, hl, _⟩ := (encode_map_iff nu kt vt ks vs bs).1 h
      obtain ⟨h1, h2⟩ := encodeManyPairs_allMany _ _ (hasType' nu kt) (hasType' nu vt)
        (fun x a hx => encode_hasType' kt x a hx) (fun x a hx => encode_hasType' vt x a hx)
        ks vs body hb
      have hlen := C08_manyPairs_length _ _ ks vs body hb
      simp [hasType', h1, h2, hlen]
      omega
    | _ => simp [encode] at h
  | .tuple ts, v, bs, h => by
    cases v with
    | tuple xs =>
      rw [hasType']; exact encodeTuple_hasType' ts xs bs (by simpa only [encode] using h)
    | _ => simp [encode] at h
  | .variant ts, v, bs, h => by
    cases v with
    | variant i x =>
      obtain ⟨body, hb, hl, _⟩ := (encode_variant_iff nu ts i x bs).1 h
      simp [hasType', hl, encodeNth_hasType' ts i x body hb]
    | _ => simp [encode] at h
  | .unknown _ _, v, bs, h => by cases v <;> simp [encode] at h
  | .badArity _ _, v, bs, h => by cases v <;> simp [encode] at h
theorem encodeTuple_hasType' : ∀ (ts : List Ty) (xs : List Val) (bs : Bytes),
    encodeTuple nu ts xs = some bs → hasTypeTuple' nu ts xs = true
  | [], [], _, _ => rfl
  | [], _ :: _, bs, h => by simp [encodeTuple] at h
  | _ :: _, [], bs, h => by simp [encodeTuple] at h
  | t :: ts, x :: xs, bs, h => by
    simp only [encodeTuple] at h
    split at h
    · rename_i a b ha hb
      simp [hasTypeTuple', encode_hasType' t x a ha, encodeTuple_hasType' ts xs b hb]
    · cases h
theorem encodeNth_hasType' : ∀ (ts : List Ty) (i : Nat) (v : Val) (bs : Bytes),
    encodeNth nu ts i v = some bs → hasTypeNth' nu ts i v = true
  | [], i, v, bs, h => by simp [encodeNth] at h
  | t :: _, 0, v, bs, h => by
    rw [hasTypeNth']; exact encode_hasType' t v bs (by simpa only [encodeNth] using h)
  | _ :: ts, i + 1, v, bs, h => by
    rw [hasTypeNth']; exact encodeNth_hasType' ts i v bs (by simpa only [encodeNth] using h)
end
end

/-- the values of `hasType'` are exactly the values the encoder accepts -/
theorem hasType'_iff_encode (nu : Nat → Bytes) (t : Ty) (v : Val) :
    hasType' nu t v = true ↔ ∃ bs, encode nu t v = some bs :=
  ⟨fun h => (resolution (fun _ => none) nu t v h).imp fun _ hb => hb.1,
   fun ⟨bs, h⟩ => encode_hasType' nu t v bs h⟩

/-- `C07_resolution` without any typing hypothesis: WHATEVER the encoder writes, the decoder
reads back as the resolution of the value written -/
theorem C07_resolution_encode (lookup : Bytes → Option Nat) (nodeUuid : Nat → Bytes) (t : Ty)
    (v : Val) (bs : Bytes) (h : encode nodeUuid t v = some bs) (rest : Bytes) :
    decode lookup t (bs ++ rest) = .ok (resolve lookup nodeUuid v, rest) := by
  obtain ⟨bs', hb, hd⟩ := C07_resolution lookup nodeUuid t v (encode_hasType' nodeUuid t v bs h)
  rw [h] at hb; cases hb
  exact hd rest

/-- the values of `hasType` are among them ... -/
theorem hasType_hasType' (lookup : Bytes → Option Nat) (nu : Nat → Bytes) (t : Ty) (v : Val)
    (h : hasType lookup nu t v = true) : hasType' nu t v = true := by
  obtain ⟨bs, hb, _⟩ := C07_roundtrip lookup nu t v h
  exact encode_hasType' nu t v bs hb

/-- ... and are fixed points of the resolution: `C07_roundtrip` is the special case of
`C07_resolution` on canonical values (nodes the table knows, plain UUIDs it does not know,
distinct set elements / mapping keys) -/
theorem resolve_of_hasType (lookup : Bytes → Option Nat) (nu : Nat → Bytes) (t : Ty) (v : Val)
    (h : hasType lookup nu t v = true) : resolve lookup nu v = v := by
  obtain ⟨bs, hb, hd⟩ := C07_roundtrip lookup nu t v h
  have := (C07_resolution_encode lookup nu t v bs hb []).symm.trans (hd [])
  simpa using this

/-- under `Coherent` (a UUID the table resolves to a node is that node's UUID: true of every
IR, `get_by_uuid` finds a node under `node.uuid`) what comes back is a canonical value of the
type ... -/
theorem C07_resolution_hasType (lookup : Bytes → Option Nat) (nu : Nat → Bytes)
    (hc : Coherent lookup nu) (t : Ty) (v : Val) (h : hasType' nu t v = true) :
    hasType lookup nu t (resolve lookup nu v) = true := by
  obtain ⟨bs, _, hd⟩ := C07_resolution lookup nu t v h
  exact decode_hasType lookup nu hc t (bs ++ []) [] _ (hd [])

/-- ... so that saving and reading it once more changes nothing: resolution is idempotent -/
theorem resolve_idem (lookup : Bytes → Option Nat) (nu : Nat → Bytes)
    (hc : Coherent lookup nu) (t : Ty) (v : Val) (h : hasType' nu t v = true) :
    resolve lookup nu (resolve lookup nu v) = resolve lookup nu v :=
  resolve_of_hasType lookup nu t _ (C07_resolution_hasType lookup nu hc t v h)

/-! #### sets and mappings: what collapses, and when nothing does -/

/-- the 16 bytes a UUID-typed element stands for -/
def elemBytes (nu : Nat → Bytes) : Val → Bytes
  | .uuid u => u
  | .node id => nu id
  | _ => []

theorem resolve_elem (lookup : Bytes → Option Nat) (nu : Nat → Bytes) (e : Val)
    (h : elemOk' nu e = true) : resolve lookup nu e = resolveBytes lookup (elemBytes nu e) := by
  cases e <;> simp [elemOk'] at h <;> simp [resolve, elemBytes]

/-- under `Coherent`, different bytes never resolve to the same thing: two plain UUIDs cannot
both resolve to one node (`lookup u = some id = lookup u'` gives `u = nu id = u'`) -/
theorem resolveBytes_inj (lookup : Bytes → Option Nat) (nu : Nat → Bytes) (hc : Coherent lookup nu)
    (u u' : Bytes) (h : resolveBytes lookup u = resolveBytes lookup u') : u = u' := by
  unfold resolveBytes at h
  cases h1 : lookup u with
  | none =>
    cases h2 : lookup u' with
    | none => rw [h1, h2] at h; simpa using h
    | some id' => rw [h1, h2] at h; cases h
  | some id =>
    cases h2 : lookup u' with
    | none => rw [h1, h2] at h; cases h
    | some id' =>
      rw [h1, h2] at h
      simp only [Val.node.injEq] at h
      subst h
      rw [← hc u id h1, ← hc u' id h2]

/-- so two elements of a set / two keys collapse exactly when they are two spellings of ONE
UUID: the same 16 bytes twice, or a plain UUID beside the node (or two node objects) bearing
it.  A value all of whose UUID-typed set elements / keys stand for different bytes - e.g.
one that holds only nodes, or only plain UUIDs - loses nothing. -/
theorem resolve_elem_eq_iff (lookup : Bytes → Option Nat) (nu : Nat → Bytes)
    (hc : Coherent lookup nu) (e e' : Val) (he : elemOk' nu e = true) (he' : elemOk' nu e' = true) :
    resolve lookup nu e = resolve lookup nu e' ↔ elemBytes nu e = elemBytes nu e' := by
  rw [resolve_elem lookup nu e he, resolve_elem lookup nu e' he']
  exact ⟨resolveBytes_inj lookup nu hc _ _, fun h => by rw [h]⟩

/-- what `hasType'` would have to demand for a set to come back element by element: its
elements pairwise distinct AFTER resolution -/
theorem resolve_set_of_distinct (lookup : Bytes → Option Nat) (nu : Nat → Bytes) (xs : List Val)
    (h : pairwiseDistinct (xs.map (resolve lookup nu)) = true) :
    resolve lookup nu (.set xs) = .set (xs.map (resolve lookup nu)) := by
  rw [resolve, resolveList_eq_map, dedup_of_pairwiseDistinct _ h]

/-- the same for the keys of a mapping -/
theorem resolve_map_of_distinct (lookup : Bytes → Option Nat) (nu : Nat → Bytes)
    (ks vs : List Val) (hl : ks.length = vs.length)
    (h : pairwiseDistinct (ks.map (resolve lookup nu)) = true) :
    resolve lookup nu (.map ks vs) =
      .map (ks.map (resolve lookup nu)) (vs.map (resolve lookup nu)) := by
  rw [resolve, resolveList_eq_map, resolveList_eq_map,
    mapBuild_of_pairwiseDistinct _ _ (by simpa using hl) h]

/-! #### non-vacuity (the IR of `Props/C07.lean`: nodes 1 and 2, uuids 16 x `01`, 16 x `02`) -/

/-- `sequence<tuple<UUID,set<Offset>>>` holding PLAIN UUIDs that name nodes, two levels down:
not a value of `hasType` (`C07_roundtrip` is silent), a value of `hasType'` -/
def exDeep : Val :=
  .seq [.tuple [.uuid (List.replicate 16 1),
    .set [.offset (.uuid (List.replicate 16 2)) 5, .offset (.uuid (List.replicate 16 9)) 0]]]
def exDeepTy : Ty := .seq (.tuple [.leaf .uuid, .set (.leaf .offset)])

example : hasType exLookup exNodeUuid exDeepTy exDeep = false := by decide
example : hasType' exNodeUuid exDeepTy exDeep = true := by decide
/-- they come back as the nodes; the UUID naming no node stays a plain UUID -/
example : resolve exLookup exNodeUuid exDeep =
    .seq [.tuple [.node 1,
      .set [.offset (.node 2) 5, .offset (.uuid (List.replicate 16 9)) 0]]] := by rfl
example : ∃ bs, encode exNodeUuid exDeepTy exDeep = some bs ∧
    ∀ rest, decode exLookup exDeepTy (bs ++ rest) =
      .ok (.seq [.tuple [.node 1,
        .set [.offset (.node 2) 5, .offset (.uuid (List.replicate 16 9)) 0]]], rest) :=
  C07_resolution exLookup exNodeUuid exDeepTy exDeep (by decide)

/-- the collapse: a Python set holding the UUID of node 1 AND node 1 itself (two different
objects, `pairwiseDistinct`) is written with count 2 and comes back with one element -/
example : pairwiseDistinct [.uuid (List.replicate 16 1), .node 1] = true := by decide
example : resolve exLookup exNodeUuid (.set [.uuid (List.replicate 16 1), .node 1]) =
    .set [.node 1] := by rfl
example : encode exNodeUuid (.set (.leaf .uuid)) (.set [.uuid (List.replicate 16 1), .node 1]) =
    some ([2, 0, 0, 0, 0, 0, 0, 0] ++ List.replicate 16 1 ++ List.replicate 16 1) := by decide
example (rest : Bytes) : decode exLookup (.set (.leaf .uuid))
    ([2, 0, 0, 0, 0, 0, 0, 0] ++ List.replicate 16 1 ++ List.replicate 16 1 ++ rest) =
    .ok (.set [.node 1], rest) :=
  C07_resolution_encode exLookup exNodeUuid (.set (.leaf .uuid))
    (.set [.uuid (List.replicate 16 1), .node 1]) _ (by decide) rest
/-- in a mapping the first spelling keeps its place and the last value wins -/
example : resolve exLookup exNodeUuid
    (.map [.uuid (List.replicate 16 1), .uuid (List.replicate 16 7), .node 1]
      [.int 10, .int 20, .int 30]) =
    .map [.node 1, .uuid (List.replicate 16 7)] [.int 30, .int 20] := by rfl
/-- a node the table does not know (not in the IR) comes back as its plain UUID -/
example : resolve exLookup exNodeUuid (.node 5) = .uuid (List.replicate 16 5) := by rfl
/-- `Coherent` holds of the example IR -/
example : Coherent exLookup exNodeUuid := by
  intro u id h
  unfold exLookup at h
  split at h
  · cases h; subst u; rfl
  · split at h
    · cases h; subst u; rfl
    · cases h

end Gtirb.Codec
