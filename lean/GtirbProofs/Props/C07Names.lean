import GtirbProofs.Lemmas.CodecTypingProofs
import GtirbProofs.Props.C07
import GtirbProofs.Props.C15
import GtirbModel.AuxTable
/-! C07, second part (review `reviews/codec.md`, C07 part 4 (a), (b)).

(a) TYPE NAMES.  `C07_roundtrip` quantifies over the model's `Ty`.  Here the `Ty` without
unknown / wrong-arity head (`noUnknown`) are shown to be exactly the SUPPORTED TYPE NAMES:
`nameOf` prints a type (it is `TypeName.render` of the tree `treeOf t`; the equations
`nameOf_seq`, ... show it is the obvious printer, `.tuple []` prints `tuple`),
`tyOfName_nameOf` : the printed name denotes the type, `nameOf_tyOfName` : every name that
denotes a type is the printed name of that type, `noUnknown_iff_supported` /
`C07_supported_names` : `noUnknown` holds exactly when all heads of the NAME are among the 20
with a codec and take the number of arguments the codec takes (`supported`, a condition on the
parse tree alone), `C07_roundtrip_name` / `C07_roundtrip_supported` : the round trip through
the table-level `encodeTop` / `decodeTop` (`GtirbModel/AuxTable.lean`) of a type name.

(b) RESOLUTION AT ANY DEPTH: see the second half of the file. -/
namespace Gtirb.Codec
open Gtirb.TypeName

/-- the name of each leaf type (the inverse of `leafOfName`, see `leafOfName_leafName`) -/
def leafName : Leaf → String
  | .u8 => "uint8_t" | .u16 => "uint16_t" | .u32 => "uint32_t" | .u64 => "uint64_t"
  | .i8 => "int8_t" | .i16 => "int16_t" | .i32 => "int32_t" | .i64 => "int64_t"
  | .addr => "Addr" | .bool => "bool" | .f32 => "float" | .f64 => "double"
  | .string => "string" | .uuid => "UUID" | .offset => "Offset"

mutual
def treeOf : Ty → Tree
  | .leaf l => .node (leafName l).toList []
  | .seq t => .node "sequence".toList [treeOf t]
  | .set t => .node "set".toList [treeOf t]
  | .map k v => .node "mapping".toList [treeOf k, treeOf v]
  | .tuple ts => .node "tuple".toList (treesOf ts)
  | .variant ts => .node "variant".toList (treesOf ts)
  | .unknown n args => .node n.toList (treesOf args)
  | .badArity n args => .node n.toList (treesOf args)
def treesOf : List Ty → List Tree
  | [] => []
  | t :: ts => treeOf t :: treesOf ts
end

/-- the printer: the rendering (`TypeName.render`, the inverse of the parser by C15) of the tree -/
def nameOf (t : Ty) : List Char := render (treeOf t)

/-- `,b,c,...>` -/
def restOf : List Ty → List Char
  | [] => ['>']
  | t :: ts => ',' :: (nameOf t ++ restOf ts)
/-- nothing for no argument, else `<a,b,...>` -/
def argsOf : List Ty → List Char
  | [] => []
  | t :: ts => '<' :: (nameOf t ++ restOf ts)

theorem restOf_eq : ∀ (ts : List Ty) (tr : Tree),
    render tr ++ restOf ts = renderList (tr :: treesOf ts) ++ ['>']
  | [], tr => by simp [restOf, treesOf, renderList_one]
  | t :: ts, tr => by
    have := restOf_eq ts (treeOf t)
    simp [restOf, treesOf, renderList_cons, nameOf, this]

theorem render_treesOf (n : List Char) (ts : List Ty) :
    render (.node n (treesOf ts)) = n ++ argsOf ts := by
  cases ts with
  | nil => simp [argsOf, treesOf, render_leaf]
  | cons t ts =>
    have := restOf_eq ts (treeOf t)
    simp [argsOf, treesOf, render_node, nameOf, this]

theorem nameOf_leaf (l : Leaf) : nameOf (.leaf l) = (leafName l).toList := by
  rw [nameOf, treeOf, render_leaf]
theorem nameOf_seq (t : Ty) : nameOf (.seq t) = "sequence".toList ++ '<' :: (nameOf t ++ ['>']) := by
  rw [nameOf, treeOf, render_node, renderList_one]; rfl
theorem nameOf_set (t : Ty) : nameOf (.set t) = "set".toList ++ '<' :: (nameOf t ++ ['>']) := by
  rw [nameOf, treeOf, render_node, renderList_one]; rfl
theorem nameOf_map (k v : Ty) :
    nameOf (.map k v) = "mapping".toList ++ '<' :: (nameOf k ++ ',' :: (nameOf v ++ ['>'])) := by
  rw [nameOf, treeOf, render_node, renderList_cons, renderList_one, List.append_assoc]; rfl
theorem nameOf_tuple (ts : List Ty) : nameOf (.tuple ts) = "tuple".toList ++ argsOf ts := by
  rw [nameOf, treeOf, render_treesOf]
theorem nameOf_variant (ts : List Ty) : nameOf (.variant ts) = "variant".toList ++ argsOf ts := by
  rw [nameOf, treeOf, render_treesOf]
theorem nameOf_unknown (n : String) (ts : List Ty) : nameOf (.unknown n ts) = n.toList ++ argsOf ts := by
  rw [nameOf, treeOf, render_treesOf]
theorem nameOf_badArity (n : String) (ts : List Ty) : nameOf (.badArity n ts) = n.toList ++ argsOf ts := by
  rw [nameOf, treeOf, render_treesOf]

theorem leafOfName_leafName (l : Leaf) : leafOfName (leafName l) = some l := by
  cases l <;> simp [leafName, leafOfName]

theorem leafOfName_eq_some (s : String) (l : Leaf) (h : leafOfName s = some l) : s = leafName l := by
  unfold leafOfName at h
  split at h <;> first | (cases h; rfl) | cases h

theorem leafName_good (l : Leaf) : GoodName (leafName l).toList := by
  cases l <;> simp [leafName, GoodName, isDelim]

theorem tyOfTree_node (n : List Char) (ks : List Tree) (args : List Ty) :
    tysOfTrees ks = some args → tyOfTree (.node n ks) =
      match leafOfName (String.ofList n) with
      | some l => if args.isEmpty then some (.leaf l) else some (.badArity (String.ofList n) args)
      | none =>
        if String.ofList n == "sequence" then
          match args with | [t] => some (.seq t) | _ => some (.badArity (String.ofList n) args)
        else if String.ofList n == "set" then
          match args with | [t] => some (.set t) | _ => some (.badArity (String.ofList n) args)
        else if String.ofList n == "mapping" then
          match args with | [k, v] => some (.map k v) | _ => some (.badArity (String.ofList n) args)
        else if String.ofList n == "tuple" then some (.tuple args)
        else if String.ofList n == "variant" then some (.variant args)
        else some (.unknown (String.ofList n) args) := by
  intro ha
  simp only [tyOfTree, ha]
  rfl

mutual
theorem tyOfTree_treeOf : ∀ t : Ty, noUnknown t = true → tyOfTree (treeOf t) = some t
  | .leaf l, _ => by
    rw [treeOf, tyOfTree_node _ _ [] rfl]
    simp [leafOfName_leafName]
  | .seq t, h => by
    have ih := tyOfTree_treeOf t (by simpa [noUnknown] using h)
    rw [treeOf, tyOfTree_node _ _ [t] (by simp [tysOfTrees, ih])]
    simp [leafOfName]
  | .set t, h => by
    have ih := tyOfTree_treeOf t (by simpa [noUnknown] using h)
    rw [treeOf, tyOfTree_node _ _ [t] (by simp [tysOfTrees, ih])]
    simp [leafOfName]
  | .map k v, h => by
    simp only [noUnknown, Bool.and_eq_true] at h
    have ihk := tyOfTree_treeOf k h.1
    have ihv := tyOfTree_treeOf v h.2
    rw [treeOf, tyOfTree_node _ _ [k, v] (by simp [tysOfTrees, ihk, ihv])]
    simp [leafOfName]
  | .tuple ts, h => by
    have ih := tysOfTrees_treesOf ts (by simpa [noUnknown] using h)
    rw [treeOf, tyOfTree_node _ _ ts ih]
    simp [leafOfName]
  | .variant ts, h => by
    have ih := tysOfTrees_treesOf ts (by simpa [noUnknown] using h)
    rw [treeOf, tyOfTree_node _ _ ts ih]
    simp [leafOfName]
  | .unknown _ _, h => by simp [noUnknown] at h
  | .badArity _ _, h => by simp [noUnknown] at h
theorem tysOfTrees_treesOf : ∀ ts : List Ty, noUnknownList ts = true →
    tysOfTrees (treesOf ts) = some ts
  | [], _ => rfl
  | t :: ts, h => by
    simp only [noUnknownList, Bool.and_eq_true] at h
    simp [treesOf, tysOfTrees, tyOfTree_treeOf t h.1, tysOfTrees_treesOf ts h.2]
end

theorem toList_of_ofList_eq {n : List Char} {s : String} (h : String.ofList n = s) : n = s.toList := by
  rw [← h]; simp

mutual
/-- `treeOf` is a left inverse of `tyOfTree` on ALL trees (unknown heads, wrong arities included) -/
theorem treeOf_tyOfTree : ∀ (tr : Tree) (t : Ty), tyOfTree tr = some t → treeOf t = tr
  | .node n ks, t, h => by
    obtain ⟨args, ha⟩ := tysOfTrees_isSome ks
    have ih := treesOf_tysOfTrees ks args ha
    rw [tyOfTree_node n ks args ha] at h
    split at h
    · rename_i l hl
      have hn := toList_of_ofList_eq (leafOfName_eq_some _ l hl)
      split at h
      · rename_i he
        cases h
        have : args = [] := by simpa using he
        subst this
        simp only [treesOf] at ih
        rw [treeOf, ← hn, ← ih]
      · cases h
        simp [treeOf, ih]
    · split at h
      · rename_i hs
        have hn := toList_of_ofList_eq (by simpa using hs : String.ofList n = "sequence")
        split at h
        · cases h; simp only [treesOf] at ih; rw [treeOf, ← hn, ih]
        · cases h; simp [treeOf, ih]
      · split at h
        · rename_i hs
          have hn := toList_of_ofList_eq (by simpa using hs : String.ofList n = "set")
          split at h
          · cases h; simp only [treesOf] at ih; rw [treeOf, ← hn, ih]
          · cases h; simp [treeOf, ih]
        · split at h
          · rename_i hs
            have hn := toList_of_ofList_eq (by simpa using hs : String.ofList n = "mapping")
            split at h
            · cases h; simp only [treesOf] at ih; rw [treeOf, ← hn, ih]
            · cases h; simp [treeOf, ih]
          · split at h
            · rename_i hs
              have hn := toList_of_ofList_eq (by simpa using hs : String.ofList n = "tuple")
              cases h; rw [treeOf, ← hn, ih]
            · split at h
              · rename_i hs
                have hn := toList_of_ofList_eq (by simpa using hs : String.ofList n = "variant")
                cases h; rw [treeOf, ← hn, ih]
              · cases h; simp [treeOf, ih]
theorem treesOf_tysOfTrees : ∀ (ks : List Tree) (ts : List Ty), tysOfTrees ks = some ts →
    treesOf ts = ks
  | [], ts, h => by
    simp only [tysOfTrees] at h; cases h; rfl
  | k :: ks, ts, h => by
    simp only [tysOfTrees] at h
    split at h
    · rename_i a b ha hb
      cases h
      simp [treesOf, treeOf_tyOfTree k a ha, treesOf_tysOfTrees ks b hb]
    · cases h
end

mutual
theorem WF_treeOf : ∀ t : Ty, noUnknown t = true → WF (treeOf t)
  | .leaf l, _ => by simp only [treeOf, WF, WFList, and_true]; exact leafName_good l
  | .seq t, h => by
    have ih := WF_treeOf t (by simpa [noUnknown] using h)
    simp only [treeOf, WF, WFList, and_true]
    exact ⟨by simp [GoodName, isDelim], ih⟩
  | .set t, h => by
    have ih := WF_treeOf t (by simpa [noUnknown] using h)
    simp only [treeOf, WF, WFList, and_true]
    exact ⟨by simp [GoodName, isDelim], ih⟩
  | .map k v, h => by
    simp only [noUnknown, Bool.and_eq_true] at h
    simp only [treeOf, WF, WFList, and_true]
    exact ⟨by simp [GoodName, isDelim], WF_treeOf k h.1, WF_treeOf v h.2⟩
  | .tuple ts, h => by
    simp only [treeOf, WF]
    exact ⟨by simp [GoodName, isDelim], WFList_treesOf ts (by simpa [noUnknown] using h)⟩
  | .variant ts, h => by
    simp only [treeOf, WF]
    exact ⟨by simp [GoodName, isDelim], WFList_treesOf ts (by simpa [noUnknown] using h)⟩
  | .unknown _ _, h => by simp [noUnknown] at h
  | .badArity _ _, h => by simp [noUnknown] at h
theorem WFList_treesOf : ∀ ts : List Ty, noUnknownList ts = true → WFList (treesOf ts)
  | [], _ => by simp [treesOf, WFList]
  | t :: ts, h => by
    simp only [noUnknownList, Bool.and_eq_true] at h
    simp only [treesOf, WFList]
    exact ⟨WF_treeOf t h.1, WFList_treesOf ts h.2⟩
end

/-- (a) every type without unknown / wrong-arity head is denoted by its printed name -/
theorem tyOfName_nameOf (t : Ty) (h : noUnknown t = true) :
    tyOfName (String.ofList (nameOf t)) = some t := by
  simp only [tyOfName, String.toList_ofList, nameOf, C15_complete (treeOf t) (WF_treeOf t h),
    tyOfTree_treeOf t h]

/-- conversely every name that denotes a type at all (ANY name the parser accepts) is the
printed name of that type: `nameOf` is the inverse of `tyOfName` -/
theorem nameOf_tyOfName (s : String) (t : Ty) (h : tyOfName s = some t) :
    String.ofList (nameOf t) = s := by
  unfold tyOfName at h
  split at h
  · rename_i tr hp
    rw [nameOf, treeOf_tyOfTree tr t h, (C15_sound _ _ hp).2]
    simp
  · cases h

theorem tyOfName_injective (s s' : String) (t : Ty) (h : tyOfName s = some t)
    (h' : tyOfName s' = some t) : s = s' := by
  rw [← nameOf_tyOfName s t h, ← nameOf_tyOfName s' t h']

/-! the supported type names as a condition on the NAME (its parse tree) alone -/

/-- the 15 names of the fixed-size types, string, UUID and Offset -/
def leafNames : List String :=
  ["uint8_t", "uint16_t", "uint32_t", "uint64_t", "int8_t", "int16_t", "int32_t", "int64_t",
   "Addr", "bool", "float", "double", "string", "UUID", "Offset"]

/-- the 20 heads with a codec and the number of arguments each takes (`none`: any number) -/
def headArity (s : String) : Option (Option Nat) :=
  if s ∈ leafNames then some (some 0)
  else if s = "sequence" ∨ s = "set" then some (some 1)
  else if s = "mapping" then some (some 2)
  else if s = "tuple" ∨ s = "variant" then some none
  else none

mutual
def supported : Tree → Bool
  | .node n ks =>
    supportedList ks &&
      (match headArity (String.ofList n) with
       | some (some k) => ks.length == k
       | some none => true
       | none => false)
def supportedList : List Tree → Bool
  | [] => true
  | t :: ts => supported t && supportedList ts
end

theorem mem_leafNames_iff (s : String) : s ∈ leafNames ↔ ∃ l, leafOfName s = some l := by
  constructor
  · intro h
    simp only [leafNames, List.mem_cons, List.not_mem_nil, or_false] at h
    rcases h with h | h | h | h | h | h | h | h | h | h | h | h | h | h | h <;>
      (subst h; exact ⟨_, by simp [leafOfName]; rfl⟩)
  · rintro ⟨l, h⟩
    rw [leafOfName_eq_some s l h]
    cases l <;> simp [leafName, leafNames]

theorem treesOf_length (ts : List Ty) : (treesOf ts).length = ts.length := by
  induction ts with
  | nil => rfl
  | cons t ts ih => simp [treesOf, ih]

theorem headArity_leaf (s : String) (l : Leaf) (h : leafOfName s = some l) :
    headArity s = some (some 0) := by
  simp [headArity, (mem_leafNames_iff s).2 ⟨l, h⟩]

theorem headArity_nonleaf (s : String) (h : leafOfName s = none) :
    headArity s =
      if s = "sequence" ∨ s = "set" then some (some 1)
      else if s = "mapping" then some (some 2)
      else if s = "tuple" ∨ s = "variant" then some none
      else none := by
  have : ¬ s ∈ leafNames := by
    rw [mem_leafNames_iff]; rintro ⟨l, hl⟩; rw [h] at hl; cases hl
  simp [headArity, this]

mutual
theorem noUnknown_iff_supported : ∀ (tr : Tree) (t : Ty), tyOfTree tr = some t →
    (noUnknown t = true ↔ supported tr = true)
  | .node n ks, t, h => by
    obtain ⟨args, ha⟩ := tysOfTrees_isSome ks
    have ih := noUnknownList_iff_supportedList ks args ha
    have hlen : ks.length = args.length := by
      rw [← treesOf_tysOfTrees ks args ha, treesOf_length]
    rw [tyOfTree_node n ks args ha] at h
    simp only [supported, Bool.and_eq_true, ← ih]
    split at h
    · rename_i l hl
      rw [headArity_leaf _ l hl]
      split at h
      · rename_i he
        cases h
        have : args = [] := by simpa using he
        subst this
        simp [noUnknown, noUnknownList, hlen]
      · rename_i he
        cases h
        have : args ≠ [] := by simpa using he
        simp [noUnknown, hlen, this]
    · rename_i hl
      rw [headArity_nonleaf _ hl]
      split at h
      · rename_i hs
        have hs' : String.ofList n = "sequence" := by simpa using hs
        split at h
        · cases h; simp [noUnknown, noUnknownList, hs', hlen]
        · rename_i hne
          cases h
          have : args.length ≠ 1 := by
            intro hl1
            match args, hl1 with
            | [a], _ => exact hne a rfl
          simp [noUnknown, hs', hlen, this]
      · rename_i hs1
        have hs1' : String.ofList n ≠ "sequence" := by simpa using hs1
        split at h
        · rename_i hs
          have hs' : String.ofList n = "set" := by simpa using hs
          split at h
          · cases h; simp [noUnknown, noUnknownList, hs', hlen]
          · rename_i hne
            cases h
            have : args.length ≠ 1 := by
              intro hl1
              match args, hl1 with
              | [a], _ => exact hne a rfl
            simp [noUnknown, hs', hlen, this]
        · rename_i hs2
          have hs2' : String.ofList n ≠ "set" := by simpa using hs2
          split at h
          · rename_i hs
            have hs' : String.ofList n = "mapping" := by simpa using hs
            split at h
            · cases h; simp [noUnknown, noUnknownList, hs', hlen]
            · rename_i hne
              cases h
              have : args.length ≠ 2 := by
                intro hl1
                match args, hl1 with
                | [a, b], _ => exact hne a b rfl
              simp [noUnknown, hs', hlen, this]
          · rename_i hs3
            have hs3' : String.ofList n ≠ "mapping" := by simpa using hs3
            split at h
            · rename_i hs
              have hs' : String.ofList n = "tuple" := by simpa using hs
              cases h; simp [noUnknown, hs']
            · rename_i hs4
              have hs4' : String.ofList n ≠ "tuple" := by simpa using hs4
              split at h
              · rename_i hs
                have hs' : String.ofList n = "variant" := by simpa using hs
                cases h; simp [noUnknown, hs']
              · rename_i hs5
                have hs5' : String.ofList n ≠ "variant" := by simpa using hs5
                cases h
                simp [noUnknown, hs1', hs2', hs3', hs4', hs5']
theorem noUnknownList_iff_supportedList : ∀ (ks : List Tree) (ts : List Ty),
    tysOfTrees ks = some ts → (noUnknownList ts = true ↔ supportedList ks = true)
  | [], ts, h => by
    simp only [tysOfTrees] at h; cases h; simp [noUnknownList, supportedList]
  | k :: ks, ts, h => by
    simp only [tysOfTrees] at h
    split at h
    · rename_i a b ha hb
      cases h
      simp [noUnknownList, supportedList, noUnknown_iff_supported k a ha,
        noUnknownList_iff_supportedList ks b hb]
    · cases h
end

mutual
/-- no head without codec anywhere in the type (arguments of wrong-arity heads included) -/
def knownHeads : Ty → Bool
  | .leaf _ => true
  | .seq t => knownHeads t
  | .set t => knownHeads t
  | .map k v => knownHeads k && knownHeads v
  | .tuple ts => knownHeadsList ts
  | .variant ts => knownHeadsList ts
  | .unknown _ _ => false
  | .badArity _ args => knownHeadsList args
def knownHeadsList : List Ty → Bool
  | [] => true
  | t :: ts => knownHeads t && knownHeadsList ts
end

mutual
theorem noUnknown_iff : ∀ t : Ty, noUnknown t = true ↔ (arityOk t = true ∧ knownHeads t = true)
  | .leaf _ => by simp [noUnknown, arityOk, knownHeads]
  | .seq t => by simpa [noUnknown, arityOk, knownHeads] using noUnknown_iff t
  | .set t => by simpa [noUnknown, arityOk, knownHeads] using noUnknown_iff t
  | .map k v => by
    simp only [noUnknown, arityOk, knownHeads, Bool.and_eq_true, noUnknown_iff k, noUnknown_iff v]
    constructor
    · rintro ⟨⟨a, b⟩, c, d⟩; exact ⟨⟨a, c⟩, b, d⟩
    · rintro ⟨⟨a, c⟩, b, d⟩; exact ⟨⟨a, b⟩, c, d⟩
  | .tuple ts => by simpa [noUnknown, arityOk, knownHeads] using noUnknownList_iff ts
  | .variant ts => by simpa [noUnknown, arityOk, knownHeads] using noUnknownList_iff ts
  | .unknown _ _ => by simp [noUnknown, knownHeads]
  | .badArity _ _ => by simp [noUnknown, arityOk]
theorem noUnknownList_iff : ∀ ts : List Ty,
    noUnknownList ts = true ↔ (arityOkList ts = true ∧ knownHeadsList ts = true)
  | [] => by simp [noUnknownList, arityOkList, knownHeadsList]
  | t :: ts => by
    simp only [noUnknownList, arityOkList, knownHeadsList, Bool.and_eq_true, noUnknown_iff t,
      noUnknownList_iff ts]
    constructor
    · rintro ⟨⟨a, b⟩, c, d⟩; exact ⟨⟨a, c⟩, b, d⟩
    · rintro ⟨⟨a, c⟩, b, d⟩; exact ⟨⟨a, b⟩, c, d⟩
end

/-- the converse of `tyOfName_nameOf` in the form the task asks for -/
theorem noUnknown_of_tyOfName (s : String) (t : Ty) (_h : tyOfName s = some t)
    (ha : arityOk t = true) (hk : knownHeads t = true) : noUnknown t = true :=
  (noUnknown_iff t).2 ⟨ha, hk⟩

/-- the supported type names: the strings the grammar generates (C15) whose heads are among the
20 with a codec, each with the number of arguments its codec takes. They are exactly the
printed names of the types `C07_roundtrip` ranges over beyond the partially-unknown ones. -/
theorem C07_supported_names (s : String) :
    (∃ tr, parseType s.toList = some tr ∧ supported tr = true) ↔
      ∃ t, noUnknown t = true ∧ s = String.ofList (nameOf t) := by
  constructor
  · rintro ⟨tr, hp, hs⟩
    obtain ⟨t, ht⟩ := tyOfTree_isSome tr
    have hn : tyOfName s = some t := by simp [tyOfName, hp, ht]
    exact ⟨t, (noUnknown_iff_supported tr t ht).2 hs, (nameOf_tyOfName s t hn).symm⟩
  · rintro ⟨t, hn, rfl⟩
    refine ⟨treeOf t, ?_, (noUnknown_iff_supported _ t (tyOfTree_treeOf t hn)).1 hn⟩
    simp [nameOf, C15_complete (treeOf t) (WF_treeOf t hn)]

open Gtirb.AuxTable in
/-- C07 at the level the property speaks at (type NAMES, the table-level encoder / decoder):
for every name denoting a type and every value of that type, saving succeeds and reading what
was saved - whatever follows it - hands back the value -/
theorem C07_roundtrip_name (lookup : Bytes → Option Nat) (nodeUuid : Nat → Bytes) (name : String)
    (ty : Ty) (v : Val) (hty : tyOfName name = some ty) (h : hasType lookup nodeUuid ty v = true) :
    ∃ bs, encodeTop nodeUuid name (.val v) = .ok bs ∧
      ∀ rest, decodeTop lookup name (bs ++ rest) = .ok (.val v) := by
  obtain ⟨bs, hb, hd⟩ := C07_roundtrip lookup nodeUuid ty v h
  unfold tyOfName at hty
  split at hty
  · rename_i tr hp
    refine ⟨bs, by simp [encodeTop, hp, hty, hb], fun rest => by simp [decodeTop, hp, hty, hd]⟩
  · cases hty

open Gtirb.AuxTable in
/-- ... and for every SUPPORTED type name, named by the type it denotes -/
theorem C07_roundtrip_supported (lookup : Bytes → Option Nat) (nodeUuid : Nat → Bytes) (t : Ty)
    (ht : noUnknown t = true) (v : Val) (h : hasType lookup nodeUuid t v = true) :
    ∃ bs, encodeTop nodeUuid (String.ofList (nameOf t)) (.val v) = .ok bs ∧
      ∀ rest, decodeTop lookup (String.ofList (nameOf t)) (bs ++ rest) = .ok (.val v) :=
  C07_roundtrip_name lookup nodeUuid _ t v (tyOfName_nameOf t ht) h

/-! non-vacuity -/

def exTy : Ty := .map (.leaf .string) (.seq (.tuple [.leaf .uuid, .leaf .i16]))

example : nameOf exTy = "mapping<string,sequence<tuple<UUID,int16_t>>>".toList := by
  simp [exTy, nameOf, treeOf, treesOf, render, renderList, leafName]
example : nameOf (.tuple []) = "tuple".toList := by
  simp [nameOf, treeOf, treesOf, render]
example : noUnknown exTy = true := by decide
example : tyOfName "mapping<string,sequence<tuple<UUID,int16_t>>>" = some exTy := by
  have h : "mapping<string,sequence<tuple<UUID,int16_t>>>" = String.ofList (nameOf exTy) := by
    simp [exTy, nameOf, treeOf, treesOf, render, renderList, leafName]
  rw [h]; exact tyOfName_nameOf exTy (by decide)
/-- a known head with a wrong arity, an unknown head: parse, but are not supported -/
example : supported (.node "sequence".toList [.node "bool".toList [], .node "bool".toList []]) = false := by
  simp [supported, supportedList, headArity, leafNames]
example : supported (.node "foo".toList []) = false := by
  simp [supported, supportedList, headArity, leafNames]
example : supported (.node "mapping".toList [.node "string".toList [], .node "tuple".toList []]) = true := by
  simp [supported, supportedList, headArity, leafNames]

end Gtirb.Codec
