import GtirbProofs.Lemmas.LoaderProofs
/-! Property C17 on the staged decoder (`GtirbModel/Loader.lean`, the Python loader as a program
over model C): whatever `load` accepts is a coherent IR - duplicated UUIDs included. A node of the
message whose UUID is already in the new IR's table is *re-used* (and moved) when it has the
expected kind; table entries can be overwritten by a later node with the same UUID; removing a
re-used node from its previous owner deletes table keys. Nevertheless the result of an accepted
message is always fully linked (`ForestInv`, every created node attached to the new IR), its table
is coherent (`CacheCoherent`: every entry names an attached node of that UUID, every attached
node's UUID has an entry), symbol referents are attached blocks, CFG endpoints resolve to attached
code blocks / proxies, and nothing outside the new IR is touched.

The `KeyError` of `del cache[uuid]` *can* happen (`C17_load_keyerror_example`): it is an error
outcome, so it does not contradict any of these theorems. -/
namespace Gtirb.Loader
open Gtirb.Forest

/-- the loaded IR is coherent, whatever the message (duplicates included), in any process state -/
theorem C17_load_coherent' (g g' : G) (m : SkIR) (ir : Nat) (hf : ForestInv g)
    (hl : load g m = .ok (g', ir)) :
    ir = g.n ∧ g'.kind ir = .ir ∧ ForestInv g' ∧ CacheCoherent g' ir ∧
    (∀ x, x < g.n → g'.par x = g.par x ∧ g'.kind x = g.kind x ∧ g'.uuid x = g.uuid x ∧
      ∀ s, g'.kids x s = g.kids x s) ∧
    (∀ j, j ≠ ir → ∀ u, g'.cache j u = g.cache j u) := by
  obtain ⟨rfl, hm, ha, _⟩ := load_ok hf hl
  refine ⟨rfl, hm.kind_ir, hm.forest, ⟨?_, ?_⟩, hm.frame, hm.rows⟩
  · intro u n hc
    obtain ⟨h1, h2, h3⟩ := hm.entries u n hc
    exact ⟨h2, ha n h1 h2, h3⟩
  · intro n hn hi
    by_cases hold : n < g.n
    · exact absurd hi (hm.old_not_att hold)
    · rcases hm.owed n (by omega) hn with h1 | ⟨y, hy0, hyn, hyi, _⟩
      · exact h1
      · exact absurd (ha y hy0 hyn) hyi

/-- the loaded IR is coherent, whatever the message (duplicates included), in any process state
(`hfresh` - the slot of the new IR's table is unused - is true of every reachable state; it is
not even needed, because `IR.__init__` starts from an empty table: `C17_load_coherent'`) -/
theorem C17_load_coherent (g g' : G) (m : SkIR) (ir : Nat) (hf : ForestInv g)
    (_hfresh : ∀ u, g.cache g.n u = none)
    (hl : load g m = .ok (g', ir)) :
    ir = g.n ∧ g'.kind ir = .ir ∧ ForestInv g' ∧ CacheCoherent g' ir ∧
    -- frame: nothing that existed before is touched, and no other IR's table changes
    (∀ x, x < g.n → g'.par x = g.par x ∧ g'.kind x = g.kind x ∧ g'.uuid x = g.uuid x ∧
      ∀ s, g'.kids x s = g.kids x s) ∧
    (∀ j, j ≠ ir → ∀ u, g'.cache j u = g.cache j u) :=
  C17_load_coherent' g g' m ir hf hl

/-- fully linked: every node the load created is attached to the new IR -/
theorem C17_load_all_attached (g g' : G) (m : SkIR) (ir : Nat) (hf : ForestInv g)
    (hl : load g m = .ok (g', ir)) : ∀ x, g.n ≤ x → x < g'.n → irOf g' x = some ir := by
  obtain ⟨rfl, _, ha, _⟩ := load_ok hf hl
  exact ha

theorem isBlock_iff (k : Kind) : isBlock k = true ↔ (k = .code ∨ k = .data ∨ k = .proxy) := by
  cases k <;> simp [isBlock]

/-- typed references: every symbol of the new IR with a referent refers to a block/proxy node that is
attached to the new IR -/
theorem C17_load_referents (g g' : G) (m : SkIR) (ir : Nat) (hf : ForestInv g)
    (hl : load g m = .ok (g', ir)) :
    ∀ y, g.n ≤ y → y < g'.n → g'.kind y = .symbol → ∀ b, g'.payload y = .block b →
      (g'.kind b = .code ∨ g'.kind b = .data ∨ g'.kind b = .proxy) ∧ irOf g' b = some ir := by
  obtain ⟨rfl, hm, ha, _⟩ := load_ok hf hl
  intro y hy hlt hk b hb
  obtain ⟨h1, h2, h3⟩ := hm.refs y b hy hlt hk hb
  exact ⟨(isBlock_iff _).1 h3, ha b h1 h2⟩

/-- the CFG check, in the final state: the table of the finished IR maps each edge endpoint UUID to an
attached code block or proxy block (of that UUID) -/
theorem C17_load_edges (g g' : G) (m : SkIR) (ir : Nat) (hf : ForestInv g)
    (hl : load g m = .ok (g', ir)) :
    ∀ e, e ∈ m.edges → ∀ u, u ∈ [e.1, e.2] →
      ∃ n, g'.cache ir u = some n ∧ (g'.kind n = .code ∨ g'.kind n = .proxy) ∧ irOf g' n = some ir ∧
        g'.uuid n = u := by
  obtain ⟨rfl, hm, ha, he⟩ := load_ok hf hl
  intro e hemem u hu
  obtain ⟨n, hn, hk⟩ := he u (List.mem_flatMap.2 ⟨e, hemem, hu⟩)
  obtain ⟨h1, h2, h3⟩ := hm.entries u n hn
  exact ⟨n, hn, hk, ha n h1 h2, h3⟩

/-- the entry-point and expression-symbol checks of one module message that is really decoded (its UUID
is not yet in the table): the entry point resolved to a code block of the new IR, every symbol UUID used
by a symbolic expression resolves (in the table as it is when the module is finished) to a symbol.
A module message whose UUID is already in the table is NOT decoded: the existing module is re-used and the
message's content, its checks included, is dropped (`C17_load_dup_module_example`). -/
theorem C17_decodeModule_checks (g0 g g' : G) (md : SkModule) (v : Nat) (R : Nat → Prop) (hm : Mid g0 g)
    (hc : AllCov g0.n g R) (hfresh : g.cache g0.n md.uuid = none) (h : decodeModule g g0.n md = .ok (g', v)) :
    (∀ u, md.entry = some u → ∃ n, g0.n ≤ n ∧ n < g'.n ∧ g'.kind n = .code ∧ g'.uuid n = u) ∧
    (∀ u, u ∈ md.exprSyms → ∃ n, g'.cache g0.n u = some n ∧ g'.kind n = .symbol) :=
  (decodeModule_spec R g md g' v hm hc h).2 hfresh

/-- the entry-point / expression-symbol checks in the final state, for messages whose module UUIDs are
pairwise distinct (then every module message is really decoded): every entry point UUID is the UUID of a
code block attached to the new IR, every expression symbol UUID the UUID of an attached symbol -/
theorem C17_load_checks (g g' : G) (m : SkIR) (ir : Nat) (hf : ForestInv g)
    (hl : load g m = .ok (g', ir)) (hnd : (m.modules.map (·.uuid)).Nodup) :
    ∀ md, md ∈ m.modules →
      (∀ u, md.entry = some u →
        ∃ n, g.n ≤ n ∧ n < g'.n ∧ g'.kind n = .code ∧ g'.uuid n = u ∧ irOf g' n = some ir) ∧
      (∀ u, u ∈ md.exprSyms →
        ∃ n, g.n ≤ n ∧ n < g'.n ∧ g'.kind n = .symbol ∧ g'.uuid n = u ∧ irOf g' n = some ir) := by
  have hchk := load_checks hf hl hnd
  obtain ⟨rfl, _, ha, _⟩ := load_ok hf hl
  intro md hmd
  refine ⟨?_, ?_⟩
  · intro u hu
    obtain ⟨n, h1, h2, h3, h4⟩ := (hchk md hmd).1 u hu
    exact ⟨n, h1, h2, h3, h4, ha n h1 h2⟩
  · intro u hu
    obtain ⟨n, h1, h2, h3, h4⟩ := (hchk md hmd).2 u hu
    exact ⟨n, h1, h2, h3, h4, ha n h1 h2⟩

/-- with pairwise distinct UUIDs among the nodes attached to the IR, `CacheCoherent` is `CacheInv`
for that IR: the table holds exactly the attached nodes -/
theorem CacheCoherent.exact_of_distinct {g : G} {i : Nat} (h : CacheCoherent g i)
    (hd : ∀ a b, a < g.n → b < g.n → irOf g a = some i → irOf g b = some i → g.uuid a = g.uuid b → a = b)
    (u x : Nat) : g.cache i u = some x ↔ (x < g.n ∧ irOf g x = some i ∧ g.uuid x = u) := by
  constructor
  · exact h.1 u x
  · rintro ⟨h1, h2, rfl⟩
    have := h.2 x h1 h2
    cases hc : g.cache i (g.uuid x) with
    | none => rw [hc] at this; cases this
    | some y =>
      obtain ⟨a1, a2, a3⟩ := h.1 _ _ hc
      rw [hd y x a1 h1 a2 h2 a3]

/-- if the UUIDs of the nodes attached to the loaded IR are pairwise distinct, its table is exact
(`CacheInv` for that IR): it holds exactly the attached nodes under their UUIDs -/
theorem C17_load_exact_of_distinct (g g' : G) (m : SkIR) (ir : Nat) (hf : ForestInv g)
    (hl : load g m = .ok (g', ir))
    (hd : ∀ a b, a < g'.n → b < g'.n → irOf g' a = some ir → irOf g' b = some ir → g'.uuid a = g'.uuid b → a = b)
    (u x : Nat) :
    g'.cache ir u = some x ↔ (x < g'.n ∧ irOf g' x = some ir ∧ g'.uuid x = u) :=
  (C17_load_coherent' g g' m ir hf hl).2.2.2.1.exact_of_distinct hd u x

/-- with pairwise distinct node UUIDs in the message (`SkIR.nodeUuids`: IR, modules, proxies, sections,
intervals, blocks, symbols) the nodes created by the load have pairwise distinct UUIDs, and the table of the
loaded IR is exact: `CacheCoherent` is `CacheInv` for that IR -/
theorem C17_load_exact_nodup (g g' : G) (m : SkIR) (ir : Nat) (hf : ForestInv g)
    (hl : load g m = .ok (g', ir)) (hnd : m.nodeUuids.Nodup) :
    (∀ a b, g.n ≤ a → a < g'.n → g.n ≤ b → b < g'.n → g'.uuid a = g'.uuid b → a = b) ∧
    ∀ u x, g'.cache ir u = some x ↔ (x < g'.n ∧ irOf g' x = some ir ∧ g'.uuid x = u) := by
  have hd := load_distNew hl hnd
  refine ⟨hd, C17_load_exact_of_distinct g g' m ir hf hl ?_⟩
  obtain ⟨rfl, hm, _, _⟩ := load_ok hf hl
  intro a b ha hb hia hib hab
  have ha0 : g.n ≤ a := Nat.le_of_not_lt (fun h => hm.old_not_att h hia)
  have hb0 : g.n ≤ b := Nat.le_of_not_lt (fun h => hm.old_not_att h hib)
  exact hd a b ha0 ha hb0 hb hab

/-- from the empty state -/
theorem C17_load_coherent_init (m : SkIR) (g' : G) (ir : Nat) (hl : load {} m = .ok (g', ir)) :
    ForestInv g' ∧ CacheCoherent g' ir := by
  have hf : ForestInv ({} : G) :=
    ⟨(by intro c p s; simp), (by intro p s; simp), (by intro c p h; cases h), (by intro c p h; cases h)⟩
  have := C17_load_coherent {} g' m ir hf (fun _ => rfl) hl
  exact ⟨this.2.2.1, this.2.2.2.1⟩

/-! ### concrete messages with duplicated UUIDs -/

/-- what the examples look at: the new IR, the number of nodes, the table entry for a UUID, and kind, UUID,
back-pointer of every node, the module list -/
structure LoadSummary where
  ir : Nat
  n : Nat
  entry : Option Nat
  kinds : List Kind
  uuids : List Nat
  pars : List (Option Nat)
  mods : List Nat
  deriving DecidableEq, Repr

def loadSummary (r : Except LErr (G × Nat)) (u : Nat) : Option LoadSummary :=
  match r with
  | .ok (g, ir) => some ⟨ir, g.n, g.cache ir u, (List.range g.n).map g.kind, (List.range g.n).map g.uuid,
      (List.range g.n).map g.par, g.kids ir .mods⟩
  | .error _ => none

def isKeyError (r : Except LErr (G × Nat)) : Bool :=
  match r with
  | .error (.forest .cacheKeyError) => true
  | _ => false

/-- a data block carrying the UUID (4) of its own interval -/
def skDupBlock : SkIR :=
  { uuid := 1, edges := [],
    modules := [{ uuid := 2, proxies := [], symbols := [], entry := none, exprSyms := [],
                  sections := [{ uuid := 3, intervals := [{ uuid := 4, blocks := [(4, false)] }] }] }] }

/-- accepted: interval (node 3) and block (node 4) both carry UUID 4, both are attached, the table entry
for UUID 4 names the block (it registered last) -/
theorem C17_load_dup_block_example :
    loadSummary (load {} skDupBlock) 4 =
      some ⟨0, 5, some 4, [.ir, .module, .section, .interval, .data], [1, 2, 3, 4, 4],
        [none, some 0, some 1, some 2, some 3], [1]⟩ := by decide

/-- two module messages with the same UUID (2): the second one re-uses the first module -/
def skDupModule : SkIR :=
  { uuid := 1, edges := [],
    modules := [{ uuid := 2, proxies := [7], sections := [], symbols := [], entry := none, exprSyms := [] },
                { uuid := 2, proxies := [8], sections := [], symbols := [], entry := none, exprSyms := [] }] }

/-- accepted: one module (node 1) with the first message's proxy (node 2); the second message is not
decoded at all (no node for proxy 8), the module is removed from and appended to the list again -/
theorem C17_load_dup_module_example :
    loadSummary (load {} skDupModule) 2 =
      some ⟨0, 3, some 1, [.ir, .module, .proxy], [1, 2, 7], [none, some 0, some 1], [1]⟩ ∧
    loadSummary (load {} skDupModule) 8 =
      some ⟨0, 3, none, [.ir, .module, .proxy], [1, 2, 7], [none, some 0, some 1], [1]⟩ := by decide

/-- both duplications together: re-appending the re-used module removes its subtree from the table key by
key, and the second `del cache[4]` raises `KeyError`. So `load g m ≠ .error (.forest .cacheKeyError)` does
NOT hold in general; it is an error outcome and does not concern the theorems above. -/
def skKeyError : SkIR :=
  { uuid := 1, edges := [],
    modules := [{ uuid := 2, proxies := [], symbols := [], entry := none, exprSyms := [],
                  sections := [{ uuid := 3, intervals := [{ uuid := 4, blocks := [(4, false)] }] }] },
                { uuid := 2, proxies := [], sections := [], symbols := [], entry := none, exprSyms := [] }] }

theorem C17_load_keyerror_example : isKeyError (load {} skKeyError) = true := by decide

/-- a UUID (3) occurring three times, which tells the lazy order (decode one child, add it, decode the
next: `decodeAttach`) from "decode all children, then add them": module 1 holds section 3; module 2 lists
section 3 again and then section 7 with interval 8 and a *data block* with UUID 3 -/
def skTripleUuid : SkIR :=
  { uuid := 100, edges := [],
    modules := [{ uuid := 1, proxies := [], symbols := [], entry := none, exprSyms := [],
                  sections := [{ uuid := 3, intervals := [] }] },
                { uuid := 2, proxies := [], symbols := [], entry := none, exprSyms := [],
                  sections := [{ uuid := 3, intervals := [] },
                               { uuid := 7, intervals := [{ uuid := 8, blocks := [(3, false)] }] }] }] }

/-- accepted: the second occurrence of section 3 re-uses node 2 and moves it from module 1 (node 1, already
in the IR) to the still detached module 2 (node 3) at once, which deletes the table key 3; so the data
block with UUID 3 finds no entry and is created fresh (node 6). In the result section node 2 and data
block node 6 both carry UUID 3, both are attached, module 1 has lost its section, and the table entry for
UUID 3 names the block. (Decoding all sections of module 2 before adding any of them would find section
node 2 under key 3 when the block is decoded and raise `DeserializationError`:
`C17_load_triple_uuid_eager_order`.) -/
theorem C17_load_triple_uuid_example :
    loadSummary (load {} skTripleUuid) 3 =
      some ⟨0, 7, some 6, [.ir, .module, .section, .module, .section, .interval, .data],
        [100, 1, 3, 2, 7, 8, 3], [none, some 0, some 3, some 0, some 3, some 4, some 5], [1, 3]⟩ ∧
    (match load {} skTripleUuid with
      | .ok (g, _) => some (g.kids 1 .secs, g.kids 3 .secs, g.kids 4 .bis, g.kids 5 .blocks)
      | .error _ => none) = some ([], [2, 4], [5], [6]) := by decide

/-- the accepted result is coherent, by `C17_load_coherent_init` -/
theorem C17_load_triple_uuid_coherent :
    ∃ g' ir, load {} skTripleUuid = .ok (g', ir) ∧ ForestInv g' ∧ CacheCoherent g' ir := by
  cases h : load {} skTripleUuid with
  | error e =>
    have hs : loadSummary (load {} skTripleUuid) 3 = none := by rw [h]; rfl
    rw [C17_load_triple_uuid_example.1] at hs
    cases hs
  | ok r => exact ⟨r.1, r.2, rfl, C17_load_coherent_init skTripleUuid r.1 r.2 h⟩

/-- the first module of `skTripleUuid` alone -/
def skTripleUuidFirst : SkIR := { skTripleUuid with modules := skTripleUuid.modules.take 1 }

/-- the other order on the same input: after module 1 is loaded, decoding *all* sections of module 2 first
(`decodeSections`, no `add` in between) fails with `DeserializationError`, because key 3 still names
section node 2 when the data block with UUID 3 is looked up -/
theorem C17_load_triple_uuid_eager_order :
    (match load {} skTripleUuidFirst with
      | .ok (g, ir) =>
        (match decodeSections ir g [{ uuid := 3, intervals := [] },
            { uuid := 7, intervals := [{ uuid := 8, blocks := [(3, false)] }] }] with
          | .error .deser => true
          | _ => false)
      | .error _ => false) = true := by decide

end Gtirb.Loader
