import GtirbModel.SymScopes
import GtirbProofs.Props.C13
import GtirbProofs.Props.C05Scopes
/-! C13, last sentence: "On a section, module or IR, `symbolic_expressions_at`
returns exactly the union over the contained intervals, except that expressions
stored beyond their interval's declared extent may be omitted."

Model: `GtirbModel/SymScopes.lean` (`secSymAt`, `scopeSymAt`, `irSymAt`).

* exact characterisation (`C13_section_at`, `C13_scope_at`): the items returned
  are the `(x, k, v)` with `x` an interval of the section that is itself 'on'
  the query (`scanBisOn`, the fresh scan of C06) and `(k, v)` a stored pair of
  `x` whose address `x.addr + k` is a member of the query (`scanAtAddr`, the
  fresh scan of C13);
* may side (`_sound`): everything returned is an expression of a member
  interval whose address is in the query;
* must side (`_inside`): an expression stored at an offset `k < size` of a
  member interval whose address is in the query IS returned;
* each expression once (`_nodup`);
* the lookup changes nothing but lazy-index bookkeeping (`_keeps`: `DInv` and
  `strip` preserved), its answer is a function of the structure
  (`_of_strip`), so deferred index maintenance stays unobservable in both
  directions (`_unobservable`, `_after_lookups`);
* in the property's words (`C13_section_at_union`, `C13_scope_at_union`): when
  no expression is stored beyond its interval's declared extent, the answer is
  exactly the union of the interval-level answers (`atAddr`) over the member
  intervals;
* `C13_section_at_omits_example`: an expression stored beyond the extent is
  omitted by the section / module / IR lookup although the interval returns it,
  and is NOT omitted when the query also touches the declared extent: "may". -/
namespace Gtirb.SymExpr
open Gtirb.Index

/-! ### unfolding -/

theorem secSymAt_fst (d : D) (st : Nat → Store) (s : Nat) (r : Rng) :
    (secSymAt d st s r).1 = (secBisOn d s r).1 := rfl

theorem secSymAt_snd (d : D) (st : Nat → Store) (s : Nat) (r : Rng) :
    (secSymAt d st s r).2 =
      (secBisOn d s r).2.flatMap fun x => biSymAt (secBisOn d s r).1 st x r := rfl

theorem mem_biSymAt (d : D) (st : Nat → Store) (x : Nat) (r : Rng) (x' k v : Nat) :
    (x', k, v) ∈ biSymAt d st x r ↔
      x' = x ∧ (k, v) ∈ scanAtAddr (st x) ((d.bi? x).bind (·.addr)) r := by
  unfold biSymAt
  rw [C13_at]
  simp only [List.mem_map, Prod.mk.injEq]
  constructor
  · rintro ⟨kv, hkv, rfl, rfl, rfl⟩; exact ⟨rfl, hkv⟩
  · rintro ⟨rfl, hkv⟩; exact ⟨(k, v), hkv, rfl, rfl, rfl⟩

theorem biSymAt_of_strip {d d' : D} (h : strip d = strip d') (st : Nat → Store) (x : Nat) (r : Rng) :
    biSymAt d st x r = biSymAt d' st x r := by
  unfold biSymAt; rw [bind_addr_of_strip h]

theorem nodup_biSymAt (d : D) (st : Nat → Store) (x : Nat) (r : Rng) (hst : Sorted (st x)) :
    (biSymAt d st x r).Nodup := by
  unfold biSymAt
  have hnd := C13_at_nodup (st x) ((d.bi? x).bind (·.addr)) r hst
  unfold List.Nodup at hnd ⊢
  rw [List.pairwise_map]
  refine hnd.imp ?_
  intro a b hne heq
  apply hne
  simp only [Prod.mk.injEq, true_and] at heq
  exact Prod.ext heq.1 heq.2

theorem scopeSymAt_nil (d : D) (st : Nat → Store) (r : Rng) : scopeSymAt d st [] r = (d, []) := rfl

theorem scopeSymAt_acc (st : Nat → Store) (r : Rng) : ∀ (ss : List Nat) (d : D) (acc : List Item),
    ss.foldl (fun acc s => let (d', l) := secSymAt acc.1 st s r; (d', acc.2 ++ l)) (d, acc) =
      ((scopeSymAt d st ss r).1, acc ++ (scopeSymAt d st ss r).2) := by
  intro ss
  induction ss with
  | nil => intro d acc; simp [scopeSymAt]
  | cons s ss ih =>
    intro d acc
    unfold scopeSymAt
    rw [List.foldl_cons, List.foldl_cons]
    show List.foldl _ ((secSymAt d st s r).1, acc ++ (secSymAt d st s r).2) ss =
      ((List.foldl _ ((secSymAt d st s r).1, [] ++ (secSymAt d st s r).2) ss).1,
        acc ++ (List.foldl _ ((secSymAt d st s r).1, [] ++ (secSymAt d st s r).2) ss).2)
    rw [ih, ih]
    simp [List.append_assoc]

theorem scopeSymAt_cons (d : D) (st : Nat → Store) (s : Nat) (ss : List Nat) (r : Rng) :
    scopeSymAt d st (s :: ss) r =
      ((scopeSymAt (secSymAt d st s r).1 st ss r).1,
        (secSymAt d st s r).2 ++ (scopeSymAt (secSymAt d st s r).1 st ss r).2) := by
  show List.foldl _ ((secSymAt d st s r).1, [] ++ (secSymAt d st s r).2) ss = _
  rw [scopeSymAt_acc]; simp

theorem scopeSymAt_append (d : D) (st : Nat → Store) (ss ss' : List Nat) (r : Rng) :
    scopeSymAt d st (ss ++ ss') r =
      ((scopeSymAt (scopeSymAt d st ss r).1 st ss' r).1,
        (scopeSymAt d st ss r).2 ++ (scopeSymAt (scopeSymAt d st ss r).1 st ss' r).2) := by
  induction ss generalizing d with
  | nil => simp [scopeSymAt_nil]
  | cons s ss ih =>
    rw [List.cons_append, scopeSymAt_cons, scopeSymAt_cons, ih]
    simp [List.append_assoc]

theorem irSymAt_acc (st : Nat → Store) (r : Rng) : ∀ (mods : List (List Nat)) (d : D) (acc : List Item),
    mods.foldl (fun acc ss => let (d', l) := scopeSymAt acc.1 st ss r; (d', acc.2 ++ l)) (d, acc) =
      ((scopeSymAt d st mods.flatten r).1, acc ++ (scopeSymAt d st mods.flatten r).2) := by
  intro mods
  induction mods with
  | nil => intro d acc; simp [scopeSymAt_nil]
  | cons ss mods ih =>
    intro d acc
    rw [List.foldl_cons]
    show List.foldl _ ((scopeSymAt d st ss r).1, acc ++ (scopeSymAt d st ss r).2) mods = _
    rw [ih, List.flatten_cons, scopeSymAt_append]
    simp [List.append_assoc]

/-- IR scope (chain over modules of the chains over their sections) is the flat
chain over all sections of all modules: same final state, same answer list.
Every `scopeSymAt` theorem below is therefore also a theorem about `IR`. -/
theorem C13_ir_flatten (d : D) (st : Nat → Store) (mods : List (List Nat)) (r : Rng) :
    irSymAt d st mods r = scopeSymAt d st mods.flatten r := by
  unfold irSymAt
  rw [irSymAt_acc]; simp

/-! ### section scope -/

/-- the lookup changes lazy-index bookkeeping only: invariant and structure are
kept. With `C13_section_at_of_strip` this makes it a lookup in the sense of
C12. -/
theorem C13_section_at_keeps (d : D) (st : Nat → Store) (s : Nat) (r : Rng) (h : DInv d) :
    DInv (secSymAt d st s r).1 ∧ strip (secSymAt d st s r).1 = strip d :=
  secBisOn_inv h s r

/-- exact characterisation without hypotheses on `s`: an id that names no
section yields nothing -/
theorem C13_section_at_any (d : D) (st : Nat → Store) (s : Nat) (r : Rng) (h : DInv d) (x k v : Nat) :
    (x, k, v) ∈ (secSymAt d st s r).2 ↔
      (d.sec? s).isSome ∧ x ∈ scanBisOn d s r ∧
        (k, v) ∈ scanAtAddr (st x) ((d.bi? x).bind (·.addr)) r := by
  rw [secSymAt_snd, List.mem_flatMap]
  simp only [mem_biSymAt, bind_addr_of_strip (secBisOn_inv h s r).2, mem_secBisOn h]
  constructor
  · rintro ⟨x', ⟨hs, hx⟩, rfl, hkv⟩; exact ⟨hs, hx, hkv⟩
  · rintro ⟨hs, hx, hkv⟩; exact ⟨x, ⟨hs, hx⟩, rfl, hkv⟩

/-- section scope, exact characterisation. `hs`: the section exists (as in
`C05_section_on` / `C06_bis_on`: the intended statement without `hs` is false of
the model for an id not in `d.secs` that intervals still name). -/
theorem C13_section_at (d : D) (st : Nat → Store) (s : Nat) (r : Rng) (h : DInv d)
    (hs : (d.sec? s).isSome) (x k v : Nat) :
    (x, k, v) ∈ (secSymAt d st s r).2 ↔
      x ∈ scanBisOn d s r ∧ (k, v) ∈ scanAtAddr (st x) ((d.bi? x).bind (·.addr)) r := by
  rw [C13_section_at_any d st s r h, hs]; simp

/-- the address a member interval's own lookup uses is the interval's address -/
theorem bind_addr_of_mem {d : D} (h : DInv d) {y : BI} (hy : y ∈ d.bis) :
    (d.bi? y.id).bind (·.addr) = y.addr := by
  have hbi : d.bi? y.id = some y := (kfind_some_iff BI.id h.bi_ids).2 ⟨hy, rfl⟩
  rw [hbi]; rfl

/-- may side: everything returned is an expression of an interval of the
section, stored in that interval, whose address (interval address + offset) is
a member of the query -/
theorem C13_section_at_sound (d : D) (st : Nat → Store) (s : Nat) (r : Rng) (h : DInv d)
    (x k v : Nat) (hm : (x, k, v) ∈ (secSymAt d st s r).2) :
    ∃ y ∈ d.bisOf s, y.id = x ∧ (k, v) ∈ scanAtAddr (st x) y.addr r := by
  rcases (C13_section_at_any d st s r h x k v).1 hm with ⟨_, hx, hkv⟩
  rcases mem_scanBisOn.1 hx with ⟨y, hy, hys, rfl, _⟩
  rw [bind_addr_of_mem h hy] at hkv
  exact ⟨y, mem_bisOf.2 ⟨hy, hys⟩, rfl, hkv⟩

/-- the same, spelled out: the pair is stored, the interval has an address `a`,
and `a + k` is a member of the query -/
theorem C13_section_at_sound' (d : D) (st : Nat → Store) (s : Nat) (r : Rng) (h : DInv d)
    (x k v : Nat) (hm : (x, k, v) ∈ (secSymAt d st s r).2) :
    ∃ y ∈ d.bisOf s, y.id = x ∧ (k, v) ∈ st x ∧ ∃ a, y.addr = some a ∧ r.mem ((a : Int) + k) = true := by
  rcases C13_section_at_sound d st s r h x k v hm with ⟨y, hy, rfl, hkv⟩
  refine ⟨y, hy, rfl, ?_⟩
  cases ha : y.addr with
  | none => rw [ha] at hkv; simp [scanAtAddr] at hkv
  | some a =>
    rw [ha] at hkv
    simp only [scanAtAddr, List.mem_filter] at hkv
    exact ⟨hkv.1, a, rfl, hkv.2⟩

/-- must side: an expression stored at an offset inside the declared extent
(`k < y.size`) of an interval of the section, whose address is a member of the
query, IS returned -/
theorem C13_section_at_inside (d : D) (st : Nat → Store) (s : Nat) (r : Rng) (h : DInv d)
    (hs : (d.sec? s).isSome) (y : BI) (hy : y ∈ d.bisOf s) (k v : Nat) (hk : k < y.size)
    (hkv : (k, v) ∈ scanAtAddr (st y.id) y.addr r) :
    (y.id, k, v) ∈ (secSymAt d st s r).2 := by
  have hy' := mem_bisOf.1 hy
  refine (C13_section_at d st s r h hs y.id k v).2 ⟨?_, ?_⟩
  · cases ha : y.addr with
    | none => rw [ha] at hkv; simp [scanAtAddr] at hkv
    | some a =>
      rw [ha] at hkv
      simp only [scanAtAddr, List.mem_filter] at hkv
      have hb := rng_mem_bounds hkv.2
      refine mem_scanBisOn.2 ⟨y, hy'.1, hy'.2, rfl, a, ha, ?_⟩
      omega
  · rw [bind_addr_of_mem h hy'.1]; exact hkv

/-- each expression once. `hst`: every store is sorted by key with unique keys,
the invariant of every history of mapping operations (`C13_history`). -/
theorem C13_section_at_nodup (d : D) (st : Nat → Store) (s : Nat) (r : Rng) (h : DInv d)
    (hst : ∀ x, Sorted (st x)) : (secSymAt d st s r).2.Nodup := by
  rw [secSymAt_snd]
  unfold List.Nodup
  rw [List.pairwise_flatMap]
  refine ⟨fun x _ => nodup_biSymAt _ st x r (hst x), ?_⟩
  have hnd := nodup_secBisOn h s r
  unfold List.Nodup at hnd
  refine hnd.imp ?_
  intro x x' hne a ha b hb hab
  subst hab
  obtain ⟨x0, k, v⟩ := a
  have h1 := ((mem_biSymAt _ st x r x0 k v).1 ha).1
  have h2 := ((mem_biSymAt _ st x' r x0 k v).1 hb).1
  exact hne (h1.symm.trans h2)

/-- the answer is a function of the structure (not of the lazy-index
bookkeeping) and of the stores -/
theorem C13_section_at_of_strip (d d' : D) (st : Nat → Store) (s : Nat) (r : Rng) (h : DInv d)
    (h' : DInv d') (hs : strip d = strip d') (it : Item) :
    it ∈ (secSymAt d st s r).2 ↔ it ∈ (secSymAt d' st s r).2 := by
  obtain ⟨x, k, v⟩ := it
  rw [C13_section_at_any d st s r h, C13_section_at_any d' st s r h', sec?_of_strip hs,
    scanBisOn_of_strip hs, bind_addr_of_strip hs]

/-- deferred index maintenance is unobservable, direction 1: no later lookup of
C12's schedule can tell whether a section-level symbolic-expression lookup
happened -/
theorem C13_section_at_unobservable (d : D) (st : Nat → Store) (s : Nat) (r : Rng) (q : Query)
    (h : DInv d) : sameAnswer (runQuery (secSymAt d st s r).1 q).2 (runQuery d q).2 :=
  C12_answer_of_strip _ _ q (C13_section_at_keeps d st s r h).1 h (C13_section_at_keeps d st s r h).2

/-- direction 2: after ANY interleaving of edits and lookups the section-level
answer is the one a schedule with the same edits and no lookup at all gives -/
theorem C13_section_at_after_lookups (d0 : D) (h0 : DInv d0) (a1 a2 : List Act)
    (he : editsOf a1 = editsOf a2) (st : Nat → Store) (s : Nat) (r : Rng) (it : Item) :
    it ∈ (secSymAt (exec d0 a1) st s r).2 ↔ it ∈ (secSymAt (exec d0 a2) st s r).2 :=
  C13_section_at_of_strip _ _ st s r (C12_exec_inv d0 h0 a1) (C12_exec_inv d0 h0 a2)
    ((C12_exec_strip d0 h0 a1).trans (by rw [he]; exact (C12_exec_strip d0 h0 a2).symm)) it

/-! ### module / IR scope -/

/-- the chain invariant: every section lookup of the chain keeps `DInv` and the
structure, and answers what it would answer on the ORIGINAL state -/
theorem scopeSymAt_spec (d : D) (st : Nat → Store) (r : Rng) (h : DInv d) :
    ∀ (ss : List Nat) (d1 : D), DInv d1 → strip d1 = strip d →
      (DInv (scopeSymAt d1 st ss r).1 ∧ strip (scopeSymAt d1 st ss r).1 = strip d) ∧
        ∀ it, it ∈ (scopeSymAt d1 st ss r).2 ↔ ∃ s ∈ ss, it ∈ (secSymAt d st s r).2 := by
  intro ss
  induction ss with
  | nil => intro d1 h1 hs1; simp [scopeSymAt_nil, h1, hs1]
  | cons s ss ih =>
    intro d1 h1 hs1
    have hk := C13_section_at_keeps d1 st s r h1
    have := ih _ hk.1 (hk.2.trans hs1)
    rw [scopeSymAt_cons]
    refine ⟨this.1, ?_⟩
    intro it
    simp only [List.mem_append, this.2 it, List.mem_cons, exists_eq_or_imp,
      C13_section_at_of_strip d1 d st s r h1 h hs1 it]

theorem C13_scope_at_keeps (d : D) (st : Nat → Store) (ss : List Nat) (r : Rng) (h : DInv d) :
    DInv (scopeSymAt d st ss r).1 ∧ strip (scopeSymAt d st ss r).1 = strip d :=
  (scopeSymAt_spec d st r h ss d h rfl).1

/-- the answer of the chain is the union of the answers each section gives on
the original state: earlier section lookups do not influence later ones -/
theorem C13_scope_at_sections (d : D) (st : Nat → Store) (ss : List Nat) (r : Rng) (h : DInv d)
    (it : Item) : it ∈ (scopeSymAt d st ss r).2 ↔ ∃ s ∈ ss, it ∈ (secSymAt d st s r).2 :=
  (scopeSymAt_spec d st r h ss d h rfl).2 it

theorem C13_scope_at_any (d : D) (st : Nat → Store) (ss : List Nat) (r : Rng) (h : DInv d)
    (x k v : Nat) :
    (x, k, v) ∈ (scopeSymAt d st ss r).2 ↔
      ∃ s ∈ ss, (d.sec? s).isSome ∧ x ∈ scanBisOn d s r ∧
        (k, v) ∈ scanAtAddr (st x) ((d.bi? x).bind (·.addr)) r := by
  rw [C13_scope_at_sections d st ss r h]
  constructor
  · rintro ⟨s, hs, hm⟩; exact ⟨s, hs, (C13_section_at_any d st s r h x k v).1 hm⟩
  · rintro ⟨s, hs, hm⟩; exact ⟨s, hs, (C13_section_at_any d st s r h x k v).2 hm⟩

/-- module / IR scope, exact characterisation. `hss`: the scope lists existing
sections (`Module.sections` holds section objects). -/
theorem C13_scope_at (d : D) (st : Nat → Store) (ss : List Nat) (r : Rng) (h : DInv d)
    (hss : ∀ s ∈ ss, (d.sec? s).isSome) (x k v : Nat) :
    (x, k, v) ∈ (scopeSymAt d st ss r).2 ↔
      ∃ s ∈ ss, x ∈ scanBisOn d s r ∧ (k, v) ∈ scanAtAddr (st x) ((d.bi? x).bind (·.addr)) r := by
  rw [C13_scope_at_any d st ss r h]
  constructor
  · rintro ⟨s, hs, _, hm⟩; exact ⟨s, hs, hm⟩
  · rintro ⟨s, hs, hm⟩; exact ⟨s, hs, hss s hs, hm⟩

/-- may side -/
theorem C13_scope_at_sound (d : D) (st : Nat → Store) (ss : List Nat) (r : Rng) (h : DInv d)
    (x k v : Nat) (hm : (x, k, v) ∈ (scopeSymAt d st ss r).2) :
    ∃ s ∈ ss, (d.sec? s).isSome ∧ ∃ y ∈ d.bisOf s, y.id = x ∧ (k, v) ∈ scanAtAddr (st x) y.addr r := by
  rcases (C13_scope_at_sections d st ss r h _).1 hm with ⟨s, hs, hm'⟩
  exact ⟨s, hs, ((C13_section_at_any d st s r h x k v).1 hm').1,
    C13_section_at_sound d st s r h x k v hm'⟩

/-- must side -/
theorem C13_scope_at_inside (d : D) (st : Nat → Store) (ss : List Nat) (r : Rng) (h : DInv d)
    (s : Nat) (hs : s ∈ ss) (hsome : (d.sec? s).isSome) (y : BI) (hy : y ∈ d.bisOf s)
    (k v : Nat) (hk : k < y.size) (hkv : (k, v) ∈ scanAtAddr (st y.id) y.addr r) :
    (y.id, k, v) ∈ (scopeSymAt d st ss r).2 :=
  (C13_scope_at_sections d st ss r h _).2
    ⟨s, hs, C13_section_at_inside d st s r h hsome y hy k v hk hkv⟩

/-- each expression once, when the sections of the scope are pairwise distinct
(`Module.sections` is a set; an interval belongs to one section) -/
theorem C13_scope_at_nodup (d : D) (st : Nat → Store) (ss : List Nat) (r : Rng) (h : DInv d)
    (hst : ∀ x, Sorted (st x)) (hnd : ss.Nodup) : (scopeSymAt d st ss r).2.Nodup := by
  suffices H : ∀ (ss : List Nat) (d1 : D), DInv d1 → strip d1 = strip d → ss.Nodup →
      (scopeSymAt d1 st ss r).2.Nodup from H ss d h rfl hnd
  intro ss
  induction ss with
  | nil => intro d1 _ _ _; simp [scopeSymAt_nil]
  | cons s ss ih =>
    intro d1 h1 hs1 hnd
    have hk := C13_section_at_keeps d1 st s r h1
    rw [scopeSymAt_cons, List.nodup_append]
    rw [List.nodup_cons] at hnd
    refine ⟨C13_section_at_nodup d1 st s r h1 hst, ih _ hk.1 (hk.2.trans hs1) hnd.2, ?_⟩
    rintro ⟨x, k, v⟩ ha b hb rfl
    have ha' := (C13_section_at_any d st s r h x k v).1
      ((C13_section_at_of_strip d1 d st s r h1 h hs1 _).1 ha)
    rcases ((scopeSymAt_spec d st r h ss _ hk.1 (hk.2.trans hs1)).2 _).1 hb with ⟨s', hs', hb'⟩
    have hb'' := (C13_section_at_any d st s' r h x k v).1 hb'
    have hne : s ≠ s' := by rintro rfl; exact hnd.1 hs'
    exact scanBisOn_disjoint h r s s' x hne ha'.2.1 hb''.2.1

theorem C13_scope_at_of_strip (d d' : D) (st : Nat → Store) (ss : List Nat) (r : Rng) (h : DInv d)
    (h' : DInv d') (hs : strip d = strip d') (it : Item) :
    it ∈ (scopeSymAt d st ss r).2 ↔ it ∈ (scopeSymAt d' st ss r).2 := by
  rw [C13_scope_at_sections d st ss r h, C13_scope_at_sections d' st ss r h']
  simp only [C13_section_at_of_strip d d' st _ r h h' hs it]

theorem C13_scope_at_unobservable (d : D) (st : Nat → Store) (ss : List Nat) (r : Rng) (q : Query)
    (h : DInv d) : sameAnswer (runQuery (scopeSymAt d st ss r).1 q).2 (runQuery d q).2 :=
  C12_answer_of_strip _ _ q (C13_scope_at_keeps d st ss r h).1 h (C13_scope_at_keeps d st ss r h).2

theorem C13_scope_at_after_lookups (d0 : D) (h0 : DInv d0) (a1 a2 : List Act)
    (he : editsOf a1 = editsOf a2) (st : Nat → Store) (ss : List Nat) (r : Rng) (it : Item) :
    it ∈ (scopeSymAt (exec d0 a1) st ss r).2 ↔ it ∈ (scopeSymAt (exec d0 a2) st ss r).2 :=
  C13_scope_at_of_strip _ _ st ss r (C12_exec_inv d0 h0 a1) (C12_exec_inv d0 h0 a2)
    ((C12_exec_strip d0 h0 a1).trans (by rw [he]; exact (C12_exec_strip d0 h0 a2).symm)) it

/-! ### in the property's words -/

/-- "no expression of a contained interval is stored beyond its declared extent" -/
def WithinExtent (d : D) (st : Nat → Store) (s : Nat) : Prop :=
  ∀ y ∈ d.bisOf s, ∀ kv ∈ st y.id, kv.1 < y.size

/-- Section scope: when no expression is stored beyond the declared extent, the
answer is exactly the union, over the intervals of the section, of what the
interval's own `symbolic_expressions_at` (`atAddr`, C13_at) answers. -/
theorem C13_section_at_union (d : D) (st : Nat → Store) (s : Nat) (r : Rng) (h : DInv d)
    (hs : (d.sec? s).isSome) (hext : WithinExtent d st s) (x k v : Nat) :
    (x, k, v) ∈ (secSymAt d st s r).2 ↔
      ∃ y ∈ d.bisOf s, y.id = x ∧ (k, v) ∈ atAddr (st y.id) y.addr r := by
  constructor
  · intro hm
    rcases C13_section_at_sound d st s r h x k v hm with ⟨y, hy, rfl, hkv⟩
    exact ⟨y, hy, rfl, by rw [C13_at]; exact hkv⟩
  · rintro ⟨y, hy, rfl, hkv⟩
    rw [C13_at] at hkv
    have hin : (k, v) ∈ st y.id := by
      cases ha : y.addr with
      | none => rw [ha] at hkv; simp [scanAtAddr] at hkv
      | some a => rw [ha] at hkv; exact (List.mem_filter.1 hkv).1
    exact C13_section_at_inside d st s r h hs y hy k v (hext y hy (k, v) hin) hkv

/-- Module / IR scope: the same over all intervals of all sections of the
scope; with `C13_scope_at_nodup` each expression exactly once. -/
theorem C13_scope_at_union (d : D) (st : Nat → Store) (ss : List Nat) (r : Rng) (h : DInv d)
    (hss : ∀ s ∈ ss, (d.sec? s).isSome) (hext : ∀ s ∈ ss, WithinExtent d st s) (x k v : Nat) :
    (x, k, v) ∈ (scopeSymAt d st ss r).2 ↔
      ∃ s ∈ ss, ∃ y ∈ d.bisOf s, y.id = x ∧ (k, v) ∈ atAddr (st y.id) y.addr r := by
  rw [C13_scope_at_sections d st ss r h]
  constructor
  · rintro ⟨s, hs, hm⟩
    exact ⟨s, hs, (C13_section_at_union d st s r h (hss s hs) (hext s hs) x k v).1 hm⟩
  · rintro ⟨s, hs, hm⟩
    exact ⟨s, hs, (C13_section_at_union d st s r h (hss s hs) (hext s hs) x k v).2 hm⟩

/-- both clauses together, as the property states them -/
theorem C13_scope_at_exact (d : D) (st : Nat → Store) (ss : List Nat) (r : Rng) (h : DInv d)
    (hss : ∀ s ∈ ss, (d.sec? s).isSome) (hnd : ss.Nodup) (hst : ∀ x, Sorted (st x))
    (hext : ∀ s ∈ ss, WithinExtent d st s) :
    (∀ x k v, (x, k, v) ∈ (scopeSymAt d st ss r).2 ↔
      ∃ s ∈ ss, ∃ y ∈ d.bisOf s, y.id = x ∧ (k, v) ∈ atAddr (st y.id) y.addr r) ∧
    (scopeSymAt d st ss r).2.Nodup :=
  ⟨C13_scope_at_union d st ss r h hss hext, C13_scope_at_nodup d st ss r h hst hnd⟩

/-- without the extent hypothesis the answer is still squeezed between the
expressions inside the declared extents and all expressions of the member
intervals (the "may be omitted" reading) -/
theorem C13_scope_at_sandwich (d : D) (st : Nat → Store) (ss : List Nat) (r : Rng) (h : DInv d)
    (hss : ∀ s ∈ ss, (d.sec? s).isSome) (x k v : Nat) :
    ((∃ s ∈ ss, ∃ y ∈ d.bisOf s, y.id = x ∧ k < y.size ∧ (k, v) ∈ atAddr (st y.id) y.addr r) →
      (x, k, v) ∈ (scopeSymAt d st ss r).2) ∧
    ((x, k, v) ∈ (scopeSymAt d st ss r).2 →
      ∃ s ∈ ss, ∃ y ∈ d.bisOf s, y.id = x ∧ (k, v) ∈ atAddr (st y.id) y.addr r) := by
  constructor
  · rintro ⟨s, hs, y, hy, rfl, hk, hkv⟩
    rw [C13_at] at hkv
    exact C13_scope_at_inside d st ss r h s hs (hss s hs) y hy k v hk hkv
  · intro hm
    rcases C13_scope_at_sound d st ss r h x k v hm with ⟨s, hs, _, y, hy, rfl, hkv⟩
    exact ⟨s, hs, y, hy, rfl, by rw [C13_at]; exact hkv⟩

/-! ### concrete example -/

/-- intervals 10 (address 100, size 4) and 13 (address 300, size 8) in section
20; 11 (address 200, later 204, size 16) and the address-less 12 in section 21.
Section 20's index is built by a lookup, section 21's is not; an edit is pending
at section 21. -/
def exY0 : D :=
  { bis := [{ id := 10, addr := some 100, size := 4, sec := none },
            { id := 11, addr := some 200, size := 16, sec := none },
            { id := 12, addr := none, size := 16, sec := none },
            { id := 13, addr := some 300, size := 8, sec := none }],
    secs := [{ id := 20 }, { id := 21 }] }

def exYActs : List Act :=
  [.edit (.biMove 10 (some 20) true), .edit (.biMove 11 (some 21) true),
   .edit (.biMove 12 (some 21) true), .edit (.biMove 13 (some 20) true),
   .look (.sbison 20 ⟨0, 1000, 1⟩), .edit (.biSet 11 (some 204) 16), .edit (.biSet 13 (some 304) 8)]

def exY : D := exec exY0 exYActs

/-- interval 10 stores an expression at offset 10, beyond its size 4; interval
11 one at offset 20 beyond its size 16; interval 12 has no address -/
def exSt : Nat → Store := fun x =>
  if x = 10 then [(0, 1), (2, 2), (10, 3)]
  else if x = 11 then [(4, 4), (20, 5)]
  else if x = 12 then [(0, 6)]
  else if x = 13 then [(7, 7)]
  else []

/-- the same stores without the two expressions beyond the extent -/
def exStIn : Nat → Store := fun x =>
  if x = 10 then [(0, 1), (2, 2)]
  else if x = 11 then [(4, 4)]
  else if x = 12 then [(0, 6)]
  else if x = 13 then [(7, 7)]
  else []

theorem exY0_inv : DInv exY0 where
  blk_ids := by decide
  bi_ids := by decide
  sec_ids := by decide
  bi_ok := by
    intro bi hbi
    simp only [exY0, List.mem_cons, List.not_mem_nil, or_false] at hbi
    rcases hbi with rfl | rfl | rfl | rfl <;> exact lazyOK_empty _
  sec_ok := by
    intro sc hsc
    simp only [exY0, List.mem_cons, List.not_mem_nil, or_false] at hsc
    rcases hsc with rfl | rfl <;> exact lazyOK_empty _

theorem exY_inv : DInv exY := C12_exec_inv exY0 exY0_inv exYActs

theorem exSt_sorted : ∀ x, Sorted (exSt x) := by
  intro x; unfold exSt; split
  · simp [Sorted]
  · split
    · simp [Sorted]
    · split
      · simp [Sorted]
      · split <;> simp [Sorted]

/-- section 20 has a built index and two pending events, section 21 none at all -/
example : (exY.sec? 20).map (fun s => (s.lz.tree.isSome, s.lz.events.length)) = some (true, 2) ∧
    (exY.sec? 21).map (fun s => (s.lz.tree.isSome, s.lz.events.length)) = some (false, 3) := by decide

/-- The "may be omitted" clause. Address 110 = interval 10's address + offset
10, beyond its declared extent [100, 104): the interval's own lookup returns the
expression, the section, module and IR lookups omit it. When the query also
touches the declared extent, the same expression IS returned: omission is
permitted, not required. -/
theorem C13_section_at_omits_example :
    biSymAt exY exSt 10 ⟨110, 111, 1⟩ = [(10, 10, 3)] ∧
    (secSymAt exY exSt 20 ⟨110, 111, 1⟩).2 = [] ∧
    (scopeSymAt exY exSt [20, 21] ⟨110, 111, 1⟩).2 = [] ∧
    (irSymAt exY exSt [[20], [21]] ⟨110, 111, 1⟩).2 = [] ∧
    (secSymAt exY exSt 20 ⟨103, 111, 1⟩).2 = [(10, 10, 3)] := by decide

/-- whole-range queries: intervals in index order, offsets increasing, the
address-less interval 12 contributes nothing, interval 11 and 13 at their NEW
addresses (step 2 from 0: even addresses only) -/
example : (scopeSymAt exY exSt [20, 21] ⟨0, 1000, 1⟩).2 =
      [(10, 0, 1), (10, 2, 2), (10, 10, 3), (13, 7, 7), (11, 4, 4), (11, 20, 5)] ∧
    (scopeSymAt exY exSt [21, 20] ⟨0, 1000, 2⟩).2 =
      [(11, 4, 4), (11, 20, 5), (10, 0, 1), (10, 2, 2), (10, 10, 3)] ∧
    (secSymAt exY exSt 20 ⟨311, 312, 1⟩).2 = [(13, 7, 7)] ∧
    (secSymAt exY exSt 20 ⟨307, 308, 1⟩).2 = [] := by decide

example (x k v : Nat) : (x, k, v) ∈ (secSymAt exY exSt 20 ⟨0, 1000, 1⟩).2 ↔
    x ∈ scanBisOn exY 20 ⟨0, 1000, 1⟩ ∧
      (k, v) ∈ scanAtAddr (exSt x) ((exY.bi? x).bind (·.addr)) ⟨0, 1000, 1⟩ :=
  C13_section_at exY exSt 20 _ exY_inv (by decide) x k v

example : (secSymAt exY exSt 20 ⟨0, 1000, 1⟩).2.Nodup :=
  C13_section_at_nodup exY exSt 20 _ exY_inv exSt_sorted

example : (scopeSymAt exY exSt [20, 21] ⟨0, 1000, 1⟩).2.Nodup :=
  C13_scope_at_nodup exY exSt [20, 21] _ exY_inv exSt_sorted (by decide)

/-- `_nodup` needs pairwise distinct sections -/
example : (scopeSymAt exY exSt [20, 20] ⟨311, 312, 1⟩).2 = [(13, 7, 7), (13, 7, 7)] := by decide

/-- must side, concretely: offset 2 < size 4 of interval 10 -/
example : (10, 2, 2) ∈ (scopeSymAt exY exSt [20, 21] ⟨102, 103, 1⟩).2 := by decide

/-- the lookup refreshes the section indexes (both trees built, nothing
pending) and changes nothing else -/
example : ((scopeSymAt exY exSt [20, 21] ⟨0, 1, 1⟩).1.secs.map
      fun s => (s.lz.tree.isSome, s.lz.events.length)) = [(true, 0), (true, 0)] ∧
    (scopeSymAt exY exSt [20, 21] ⟨0, 1, 1⟩).1.bis.map projBI = exY.bis.map projBI := by decide

example : sameAnswer (runQuery (scopeSymAt exY exSt [20, 21] ⟨0, 1000, 1⟩).1 (.sbisat 21 ⟨200, 210, 1⟩)).2
    (runQuery exY (.sbisat 21 ⟨200, 210, 1⟩)).2 :=
  C13_scope_at_unobservable exY exSt [20, 21] _ _ exY_inv

/-- with every expression inside its extent the scope answer is the union of
the interval answers -/
theorem exStIn_within : ∀ s ∈ [20, 21], WithinExtent exY exStIn s := by
  intro s hs y hy kv hkv
  simp only [List.mem_cons, List.not_mem_nil, or_false] at hs
  have hy' : y ∈ exY.bis ∧ y.sec = some s := mem_bisOf.1 hy
  have hb : exY.bis.map projBI =
      [(10, some 100, 4, some 20), (11, some 204, 16, some 21), (12, none, 16, some 21),
       (13, some 304, 8, some 20)] := by decide
  have hm : projBI y ∈ exY.bis.map projBI := List.mem_map.2 ⟨y, hy'.1, rfl⟩
  rw [hb] at hm
  simp only [projBI, List.mem_cons, List.not_mem_nil, or_false, Prod.mk.injEq] at hm
  rcases hm with ⟨h1, _, h3, _⟩ | ⟨h1, _, h3, _⟩ | ⟨h1, _, h3, _⟩ | ⟨h1, _, h3, _⟩ <;>
    (rw [h1] at hkv; rw [h3]; simp [exStIn] at hkv; rcases hkv with rfl | rfl <;> decide)

example (x k v : Nat) : (x, k, v) ∈ (scopeSymAt exY exStIn [20, 21] ⟨0, 1000, 1⟩).2 ↔
    ∃ s ∈ [20, 21], ∃ y ∈ exY.bisOf s, y.id = x ∧ (k, v) ∈ atAddr (exStIn y.id) y.addr ⟨0, 1000, 1⟩ :=
  C13_scope_at_union exY exStIn [20, 21] _ exY_inv (by decide) exStIn_within x k v

/-- ... and that hypothesis is needed: with `exSt` the union contains
`(10, 10, 3)` at address 110, the scope answer does not -/
example : (10, 10, 3) ∉ (scopeSymAt exY exSt [20, 21] ⟨110, 111, 1⟩).2 ∧
    (∃ s ∈ [20, 21], ∃ y ∈ exY.bisOf s, y.id = 10 ∧ (10, 3) ∈ atAddr (exSt y.id) y.addr ⟨110, 111, 1⟩) := by
  decide

/-- IR scope is the flat chain -/
example : irSymAt exY exSt [[20], [21]] ⟨0, 1000, 1⟩ = scopeSymAt exY exSt [20, 21] ⟨0, 1000, 1⟩ :=
  C13_ir_flatten _ _ _ _

end Gtirb.SymExpr
