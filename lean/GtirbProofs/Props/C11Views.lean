import GtirbModel.CfgViews
import GtirbProofs.Props.C11
/-! C11, last clause: a block's `outgoing_edges` / `incoming_edges` are exactly
the edges of its IR's CFG whose source / target is the block; a detached block
has none. -/
namespace Gtirb.CfgViews
open Gtirb Gtirb.Cfg

theorem C11_block_views_out (g : Forest.G) (cfgOf : Nat → Store) (n : Nat) (e : Edge) :
    e ∈ outgoingEdges g cfgOf n ↔ ∃ i, Forest.irOf g n = some i ∧ e ∈ cfgOf i ∧ e.src = n := by
  unfold outgoingEdges
  cases h : Forest.irOf g n with
  | none => simp
  | some i => simp [C11_out_edges]

theorem C11_block_views_in (g : Forest.G) (cfgOf : Nat → Store) (n : Nat) (e : Edge) :
    e ∈ incomingEdges g cfgOf n ↔ ∃ i, Forest.irOf g n = some i ∧ e ∈ cfgOf i ∧ e.dst = n := by
  unfold incomingEdges
  cases h : Forest.irOf g n with
  | none => simp
  | some i => simp [C11_in_edges]

theorem C11_block_views_detached (g : Forest.G) (cfgOf : Nat → Store) (n : Nat)
    (h : Forest.irOf g n = none) : outgoingEdges g cfgOf n = [] ∧ incomingEdges g cfgOf n = [] := by
  simp [outgoingEdges, incomingEdges, h]

/-- each edge once, when the CFG holds each edge once -/
theorem C11_block_views_nodup (g : Forest.G) (cfgOf : Nat → Store) (n : Nat)
    (hinv : ∀ i, CfgInv (cfgOf i)) :
    (outgoingEdges g cfgOf n).Nodup ∧ (incomingEdges g cfgOf n).Nodup := by
  unfold outgoingEdges incomingEdges
  cases h : Forest.irOf g n with
  | none => simp
  | some i => exact ⟨C11_out_nodup _ _ (hinv i), C11_in_nodup _ _ (hinv i)⟩

end Gtirb.CfgViews
