import GtirbModel.Interval
/-! C19: byte-interval storage and block views.

`initialized_size` is the number of stored bytes (`iv.contents.length`); the constructor
rejects more stored bytes than `size`; assigning `initialized_size` pads with zero bytes
or truncates; shrinking `size` truncates the stored bytes.  Hence `StoreInv`
(`contents.length ≤ size`) holds after any history of assignments, and `StoreInv` is
exactly the condition under which the loader's constructor call accepts the saved
interval and reproduces it.  Block views (`address`, `contents`, `contains_offset`,
`contains_address`) are the expected ranges over the interval. -/
namespace Gtirb.Interval

/-! ### `initialized_size` setter on raw bytes -/

theorem setInitBytes_length (c : Bytes) (v : Nat) : (setInitBytes c v).length = v := by
  unfold setInitBytes
  split
  · simp; omega
  · split
    · simp; omega
    · omega

theorem setInitBytes_getElem? (c : Bytes) (v i : Nat) (h : i < v) :
    (setInitBytes c v)[i]? = if i < c.length then c[i]? else some 0 := by
  unfold setInitBytes
  split
  · rename_i hv
    by_cases hi : i < c.length
    · simp [hi, List.getElem?_append_left hi]
    · have hi' : c.length ≤ i := Nat.le_of_not_lt hi
      rw [List.getElem?_append_right hi']
      simp only [hi, if_false]
      rw [List.getElem?_replicate, if_pos (by omega)]
  · split
    · rename_i hv
      have hi : i < c.length := by omega
      simp [hi, h]
    · have hi : i < c.length := by omega
      simp [hi]

theorem setInitBytes_self (c : Bytes) : setInitBytes c c.length = c := by
  simp [setInitBytes]

/-! ### setters -/

/-- `initialized_size` reads back the assigned value -/
theorem C19_setInit_len (iv : Iv) (v : Nat) : (setInit iv v).contents.length = v := by
  simp [setInit, setInitBytes_length]

/-- assigning `initialized_size` keeps the common prefix and pads with zero bytes -/
theorem C19_setInit_bytes (iv : Iv) (v i : Nat) (h : i < v) :
    (setInit iv v).contents[i]? = if i < iv.contents.length then iv.contents[i]? else some 0 := by
  simp only [setInit]
  exact setInitBytes_getElem? iv.contents v i h

theorem C19_setInit_size (iv : Iv) (v : Nat) : (setInit iv v).size = iv.size := rfl

/-- assigning `size` truncates the stored bytes to the new size
(`take n` is the identity when `n ≥ length`) -/
theorem C19_setSize (iv : Iv) (n : Nat) :
    (setSize iv n).size = n ∧ (setSize iv n).contents = iv.contents.take n := by
  refine ⟨rfl, ?_⟩
  simp only [setSize]
  split
  · rfl
  · rw [List.take_of_length_le (by omega)]

theorem setSize_contents_length (iv : Iv) (n : Nat) :
    (setSize iv n).contents.length = min n iv.contents.length := by
  rw [(C19_setSize iv n).2, List.length_take]

/-- shrinking truncates: the invariant holds after `size := n` from ANY state -/
theorem C19_setSize_inv (iv : Iv) (n : Nat) : StoreInv (setSize iv n) := by
  unfold StoreInv
  rw [setSize_contents_length, (C19_setSize iv n).1]
  omega

theorem setSize_of_inv (iv : Iv) (h : StoreInv iv) : setSize iv iv.size = iv := by
  unfold StoreInv at h
  cases iv with
  | mk size contents =>
    simp only [setSize]
    simp only at h
    rw [if_neg (by omega)]

theorem setInit_self (iv : Iv) : setInit iv iv.contents.length = iv := by
  cases iv with
  | mk size contents => simp [setInit, setInitBytes_self]

/-! ### constructor -/

/-- construction is rejected exactly when `initialized_size > size` (after defaulting
both from `len(contents)`) -/
theorem C19_ctor_rejects (size? init? : Option Nat) (c : Bytes) :
    ctor size? init? c = none ↔ init?.getD c.length > size?.getD c.length := by
  simp only [ctor]
  split <;> simp_all

theorem ctor_eq_some (size? init? : Option Nat) (c : Bytes) (iv : Iv)
    (h : ctor size? init? c = some iv) :
    init?.getD c.length ≤ size?.getD c.length ∧
    iv = setInit (setSize { size := size?.getD c.length, contents := c } (size?.getD c.length))
      (init?.getD c.length) := by
  simp only [ctor] at h
  split at h
  · cases h
  · refine ⟨by omega, ?_⟩
    cases h
    rfl

theorem C19_ctor_ok (size? init? : Option Nat) (c : Bytes) (iv : Iv)
    (h : ctor size? init? c = some iv) :
    StoreInv iv ∧ iv.size = size?.getD c.length ∧ iv.contents.length = init?.getD c.length ∧
    -- the stored bytes are the given bytes truncated / zero-padded to initialized_size
    (∀ i, i < iv.contents.length → iv.contents[i]? = if i < c.length then c[i]? else some 0) := by
  obtain ⟨hle, rfl⟩ := ctor_eq_some size? init? c iv h
  have hlen := C19_setInit_len
    (setSize { size := size?.getD c.length, contents := c } (size?.getD c.length))
    (init?.getD c.length)
  refine ⟨?_, rfl, hlen, ?_⟩
  · unfold StoreInv
    rw [hlen, C19_setInit_size, (C19_setSize _ _).1]
    exact hle
  · intro i hi
    rw [hlen] at hi
    rw [C19_setInit_bytes _ _ _ hi, setSize_contents_length, (C19_setSize _ _).2]
    simp only [List.getElem?_take]
    have hs : i < size?.getD c.length := by omega
    by_cases hc : i < c.length
    · have : i < min (size?.getD c.length) c.length := by omega
      simp [this, hc, hs]
    · have : ¬ i < min (size?.getD c.length) c.length := by omega
      simp [this, hc]

/-! ### histories of assignments -/

theorem C19_step_inv (iv : Iv) (op : Op) (iv' : Iv) (h : StoreInv iv)
    (hs : step iv op = some iv') : StoreInv iv' := by
  cases op with
  | setSize n =>
    simp only [step, Option.some.injEq] at hs
    subst hs
    exact C19_setSize_inv iv n
  | setInit v =>
    simp only [step] at hs
    split at hs
    · rename_i hv
      simp only [Option.some.injEq] at hs
      subst hs
      unfold StoreInv
      rw [C19_setInit_len, C19_setInit_size]
      exact hv
    · cases hs
  | poke i b =>
    simp only [step, poke] at hs
    split at hs
    · simp only [Option.some.injEq] at hs
      subst hs
      unfold StoreInv at *
      simpa using h
    · cases hs
  | assign c =>
    simp only [step, assign] at hs
    split at hs
    · rename_i hc
      simp only [Option.some.injEq] at hs
      subst hs
      exact hc
    · cases hs

/-- run a history of assignments. A step `step` flags `none` is OUTSIDE the
property's quantifier (`initialized_size` above `size`, a whole-contents
assignment longer than `size`): the code does not raise there, it accepts the
assignment and the stored bytes then exceed `size` (example below). `run` skips
such steps, i.e. `C19_history` speaks of the histories all of whose steps lie
inside the quantifier; an out-of-range poke (`IndexError`, raised before any
change) is the only step that is really rejected. -/
def run (iv : Iv) (ops : List Op) : Iv := ops.foldl (fun s op => (step s op).getD s) iv

/-- outside the quantifier the invariant can indeed be broken (by design of the API) -/
example : ¬ StoreInv (setInit ⟨2, []⟩ 3) := by unfold StoreInv; decide

theorem C19_history (iv : Iv) (ops : List Op) (h : StoreInv iv) : StoreInv (run iv ops) := by
  unfold run
  induction ops generalizing iv with
  | nil => exact h
  | cons op ops ih =>
    simp only [List.foldl_cons]
    apply ih
    cases hs : step iv op with
    | none => exact h
    | some iv' => exact C19_step_inv iv op iv' h hs

theorem C19_history_ctor (size? init? : Option Nat) (c : Bytes) (iv : Iv) (ops : List Op)
    (h : ctor size? init? c = some iv) : StoreInv (run iv ops) :=
  C19_history iv ops (C19_ctor_ok size? init? c iv h).1

/-! ### save and load -/

/-- save then load: the reader's constructor call accepts the interval and reproduces it -/
theorem C19_saveload (iv : Iv) (h : StoreInv iv) :
    ctor (some iv.size) none iv.contents = some iv := by
  have hle : iv.contents.length ≤ iv.size := h
  simp only [ctor, Option.getD_some, Option.getD_none]
  rw [if_neg (by omega)]
  have e : ({ size := iv.size, contents := iv.contents } : Iv) = iv := by cases iv; rfl
  rw [e, setSize_of_inv iv h, setInit_self]

/-- the invariant is exactly what load needs -/
theorem C19_saveload_iff (iv : Iv) :
    ctor (some iv.size) none iv.contents = some iv ↔ StoreInv iv := by
  constructor
  · intro h
    have := (ctor_eq_some _ _ _ _ h).1
    simpa [StoreInv] using this
  · exact C19_saveload iv

/-- every state reachable from a successful construction can be saved and loaded back -/
theorem C19_history_saveload (size? init? : Option Nat) (c : Bytes) (iv : Iv) (ops : List Op)
    (h : ctor size? init? c = some iv) :
    ctor (some (run iv ops).size) none (run iv ops).contents = some (run iv ops) :=
  C19_saveload _ (C19_history_ctor size? init? c iv ops h)

/-! ### block views -/

theorem C19_address (base : Option Nat) (b : Blk) :
    blkAddress base b = match base with | some x => some (x + b.offset) | none => none := by
  cases base <;> rfl

theorem C19_contents (iv : Iv) (b : Blk) (i : Nat) :
    (blkContents iv b)[i]? = if i < b.size then iv.contents[b.offset + i]? else none := by
  simp [blkContents, List.getElem?_take, List.getElem?_drop]

theorem C19_contents_len (iv : Iv) (b : Blk) :
    (blkContents iv b).length = min b.size (iv.contents.length - b.offset) := by
  simp [blkContents]

theorem C19_contains_offset (b : Blk) (o : Int) :
    containsOffset b o = true ↔ (b.offset : Int) ≤ o ∧ o < b.offset + b.size := by
  simp [containsOffset]

theorem C19_contains_address (base : Option Nat) (b : Blk) (a : Int) :
    containsAddress base b a = true ↔
      ∃ x, base = some x ∧ (x : Int) + b.offset ≤ a ∧ a < (x : Int) + b.offset + b.size := by
  cases base with
  | none => simp [containsAddress]
  | some x =>
    simp only [containsAddress, C19_contains_offset, Option.some.injEq]
    constructor
    · intro h
      exact ⟨x, rfl, by omega, by omega⟩
    · rintro ⟨y, rfl, h1, h2⟩
      exact ⟨by omega, by omega⟩

theorem C19_contains_address_iff_blkAddress (base : Option Nat) (b : Blk) (a : Int) :
    containsAddress base b a = true ↔
      ∃ s, blkAddress base b = some s ∧ (s : Int) ≤ a ∧ a < (s : Int) + b.size := by
  rw [C19_contains_address]
  cases base with
  | none => simp [blkAddress]
  | some x =>
    simp only [blkAddress, Option.map_some, Option.some.injEq]
    constructor
    · rintro ⟨y, hy, h1, h2⟩
      exact ⟨x + b.offset, rfl, by omega, by omega⟩
    · rintro ⟨s, rfl, h1, h2⟩
      exact ⟨x, rfl, by omega, by omega⟩

/-! ### concrete states -/

example : ctor (some 8) (some 5) [1, 2, 3] = some ⟨8, [1, 2, 3, 0, 0]⟩ := by decide
example : setSize ⟨8, [1, 2, 3, 0, 0]⟩ 2 = ⟨2, [1, 2]⟩ := by decide
example : ctor (some 2) none [1, 2, 3] = none := by decide
example : ctor (some 2) (some 1) [1, 2, 3] = some ⟨2, [1]⟩ := by decide
example : ctor none (some 4) [1, 2, 3] = none := by decide
example : ctor none none [1, 2, 3] = some ⟨3, [1, 2, 3]⟩ := by decide
example : setInit ⟨8, [1, 2, 3]⟩ 1 = ⟨8, [1]⟩ := by decide
example : setInit ⟨8, [1, 2, 3]⟩ 6 = ⟨8, [1, 2, 3, 0, 0, 0]⟩ := by decide
example : run ⟨8, [1, 2, 3, 0, 0]⟩ [.setSize 2, .setInit 5, .poke 1 9, .setSize 4, .setInit 3] =
    ⟨4, [1, 9, 0]⟩ := by decide
/-- a state violating the invariant is not reproduced by load (it is rejected) -/
example : ctor (some 2) none [1, 2, 3] ≠ some ⟨2, [1, 2, 3]⟩ := by decide
example : blkContents ⟨8, [1, 2, 3, 0, 0]⟩ ⟨1, 3⟩ = [2, 3, 0] := by decide
example : blkContents ⟨8, [1, 2, 3, 0, 0]⟩ ⟨3, 6⟩ = [0, 0] := by decide
example : blkAddress (some 4096) ⟨16, 4⟩ = some 4112 := by decide
example : blkAddress none ⟨16, 4⟩ = none := by decide
example : containsAddress (some 4096) ⟨16, 4⟩ 4115 = true := by decide
example : containsAddress (some 4096) ⟨16, 4⟩ 4116 = false := by decide
example : containsAddress none ⟨16, 4⟩ 4115 = false := by decide
example : containsOffset ⟨16, 4⟩ (-1) = false := by decide

end Gtirb.Interval
