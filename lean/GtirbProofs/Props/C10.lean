import GtirbProofs.Lemmas.IndexProofs
/-! Property C10: the per-module symbol indexes (`_symbol_name_index`,
`_symbol_referent_index`), although maintained incrementally by
`_index_add/_index_discard`, always equal the scan of the module's current
symbols; hence `symbols_named` / `references` answer exactly, each result once. -/
namespace Gtirb.Forest

/-- every operation preserves the index invariant (`ForestInv g'` is not needed) -/
theorem C10_step (g g' : G) (op : Op) (hf : ForestInv g) (_hf' : ForestInv g') (hi : IndexInv g)
    (hop : OpOK g op) (hs : step g op = .ok g') : IndexInv g' :=
  idx_step hf hi hop hs

theorem C10_init : IndexInv ({} : G) where
  name_iff := by intro m nm y; show y ∈ [] ↔ (y ∈ [] ∧ _); simp
  ref_iff := by intro m b y; show y ∈ [] ↔ (y ∈ [] ∧ _); simp
  name_nodup := fun _ _ => List.nodup_nil
  ref_nodup := fun _ _ => List.nodup_nil

/-- lookups equal the scan, each result once -/
theorem C10_symbols_named (g : G) (hi : IndexInv g) (m nm y : Nat) :
    y ∈ symbolsNamed g m nm ↔ (y ∈ g.kids m .syms ∧ g.name y = nm) :=
  hi.name_iff m nm y

theorem C10_symbols_named_nodup (g : G) (hi : IndexInv g) (m nm : Nat) :
    (symbolsNamed g m nm).Nodup :=
  hi.name_nodup m nm

theorem C10_references (g : G) (hi : IndexInv g) (b y : Nat) :
    y ∈ references g b ↔
      ∃ m, moduleOf g b = some m ∧ y ∈ g.kids m .syms ∧ g.payload y = .block b := by
  unfold references
  cases h : moduleOf g b with
  | none => simp
  | some m =>
    simp only [Option.some.injEq]
    rw [hi.ref_iff]
    constructor
    · intro hy; exact ⟨m, rfl, hy⟩
    · rintro ⟨m', rfl, hy⟩; exact hy

theorem C10_references_detached (g : G) (b : Nat) (h : moduleOf g b = none) : references g b = [] := by
  unfold references; rw [h]

theorem C10_references_nodup (g : G) (hi : IndexInv g) (b : Nat) : (references g b).Nodup := by
  unfold references
  split
  · exact hi.ref_nodup _ _
  · exact List.nodup_nil

/-- the history theorem from an arbitrary state that satisfies the invariant -/
theorem C10_history_from (g : G) (hi : IndexInv g) (ops : List Op) (hops : OpsOK g ops)
    (hforest : ∀ (pre : List Op), pre <+: ops → ForestInv (run g pre)) : IndexInv (run g ops) := by
  induction ops generalizing g with
  | nil => exact hi
  | cons op ops ih =>
    have hf : ForestInv g := hforest [] (List.nil_prefix)
    obtain ⟨hop, hrest⟩ := hops
    show IndexInv (run (match step g op with | .ok g' => g' | .error _ => g) ops)
    refine ih _ ?_ hrest ?_
    · cases hstep : step g op with
      | error e => exact hi
      | ok g' => exact idx_step hf hi hop hstep
    · intro pre hpre
      exact hforest (op :: pre) (List.cons_prefix_cons.2 ⟨rfl, hpre⟩)

/-- after any history (operations that raise leave the state unchanged) the
indexes equal the scan, provided the containment forest is consistent in every
state of the history (that is property C03/C04, proved separately) -/
theorem C10_history (ops : List Op) (hops : OpsOK {} ops)
    (hforest : ∀ (pre : List Op), pre <+: ops → ForestInv (run {} pre)) : IndexInv (run {} ops) :=
  C10_history_from {} C10_init ops hops hforest

end Gtirb.Forest
