import GtirbProofs.Props.C04
import GtirbProofs.Props.C10
/-! C10 for every reachable state, with the forest invariant supplied by C04. -/
namespace Gtirb.Forest

theorem OpsOK_prefix : ∀ (pre ops : List Op) (g : G), pre <+: ops → OpsOK g ops → OpsOK g pre
  | [], _, _, _, _ => trivial
  | p :: pre, [], _, h, _ => by simp at h
  | p :: pre, o :: ops, g, h, hok => by
    have h' := List.cons_prefix_cons.mp h
    obtain ⟨rfl, hp⟩ := h'
    exact ⟨hok.1, OpsOK_prefix pre ops _ hp hok.2⟩

/-- symbol lookups by name and by referent equal the scan in every reachable state -/
theorem C10_history_full (ops : List Op) (hops : OpsOK {} ops) : IndexInv (run {} ops) :=
  C10_history ops hops (fun pre hpre => C04_history pre (OpsOK_prefix pre ops {} hpre hops))

end Gtirb.Forest
