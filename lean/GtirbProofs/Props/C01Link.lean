import GtirbModel.Skel
import GtirbProofs.Lemmas.LinkProofs
import GtirbProofs.Props.C17Loader
/-! C01 (link): the two models of the protobuf reader agree on the messages the value-level
reader accepts.

* `Proto.fromMsg : MIR → Except Err IRV` (values; `GtirbModel/Proto.lean`)
* `Loader.load : G → SkIR → Except LErr (G × Nat)` (object graph; `GtirbModel/Loader.lean`), run on the
  skeleton `Loader.skelOf m` of the message (`GtirbModel/Skel.lean`).

(A) `C01_link_accepts`: whenever `fromMsg` accepts a message, the message has a skeleton and `load`
    accepts it (no `DeserializationError`, no exception out of the object graph).
(B) `C01_link_shape`: the graph `load` builds is the structure the message states, read back from the
    IR node through the owning collections - in message order at every level (`setAdd`, `blkUpdate`
    and `modAppend` append).

The definitions of the read-back (`readBlocks` … `readModule`, `skShape`) are in
`Lemmas/LinkProofs.lean`; they are restated below by `rfl`.

Finding (checked by evaluation below, `dupMsg`): `fromMsg` accepts a message in which a block carries
the UUID of its own interval (`Proto.decodeInterval` checks the interval's freshness before, and
registers it after, its blocks), so "accepted ⟹ node UUIDs pairwise distinct" does not hold as
such; `C01_link_nodup_partial` proves it under the side condition that excludes exactly this. (A) and
(B) hold regardless: `load` registers an interval after its blocks, too. -/
namespace Gtirb.Loader
open Gtirb.Forest
open Gtirb.Msg (MIR IRV fromMsg)

/-! ### the read-back, as stated -/

example (g : G) (x : Nat) : readBlocks g x = (g.kids x .blocks).map fun b => (g.uuid b, g.kind b == Kind.code) := rfl
example (g : G) (x : Nat) : readInterval g x = ⟨g.uuid x, readBlocks g x⟩ := rfl
example (g : G) (s : Nat) : readSection g s = ⟨g.uuid s, (g.kids s .bis).map (readInterval g)⟩ := rfl
example (g : G) (y : Nat) : readPayload g y =
    match g.payload y with | .none => .none | .int n => .int n | .block b => .ref (g.uuid b) := rfl
example (g : G) (y : Nat) : readSymbol g y = ⟨g.uuid y, g.name y, readPayload g y⟩ := rfl
example (g : G) (m : Nat) : readModule g m =
    (g.uuid m, (g.kids m .proxies).map g.uuid, (g.kids m .secs).map (readSection g),
     (g.kids m .syms).map (readSymbol g)) := rfl
example (m : SkModule) : skShape m = (m.uuid, m.proxies, m.sections, m.symbols) := rfl

/-! ### stage 1 -/

/-- `uuid.UUID(bytes=b).int` is injective on byte strings of one length -/
theorem C01_link_natOfBytes_inj (a b : Bytes) (hl : a.length = b.length) (h : natOfBytes a = natOfBytes b) :
    a = b := natOfBytes_inj a b hl h

/-- a message the value-level reader accepts has a skeleton -/
theorem C01_link_skeleton (m : MIR) (v : IRV) (h : fromMsg m = .ok v) : ∃ sk, skelOf m = some sk :=
  skelOf_exists h

/-! ### (A) acceptance -/

theorem C01_link_accepts (m : MIR) (v : IRV) (h : fromMsg m = .ok v) :
    ∃ sk, skelOf m = some sk ∧ ∃ g ir, load {} sk = .ok (g, ir) := by
  obtain ⟨sk, hs⟩ := skelOf_exists h
  obtain ⟨g, hl, _⟩ := load_link h hs
  exact ⟨sk, hs, g, 0, hl⟩

/-- contrapositive: what the graph-level loader rejects, the value-level reader rejects -/
theorem C01_link_rejects (m : MIR) (sk : SkIR) (e : LErr) (hs : skelOf m = some sk)
    (hl : load {} sk = .error e) : ∃ e', fromMsg m = .error e' := by
  cases hf : fromMsg m with
  | error e' => exact ⟨e', rfl⟩
  | ok v =>
    obtain ⟨g, hl', _⟩ := load_link hf hs
    rw [hl] at hl'
    cases hl'

/-! ### (B) shape -/

theorem C01_link_shape (m : MIR) (v : IRV) (h : fromMsg m = .ok v) (sk : SkIR) (hs : skelOf m = some sk)
    (g : G) (ir : Nat) (hl : load {} sk = .ok (g, ir)) :
    g.uuid ir = sk.uuid ∧ (g.kids ir .mods).map (readModule g) = sk.modules.map skShape := by
  obtain ⟨g0, hl0, hu, hsh⟩ := load_link h hs
  rw [hl] at hl0
  cases hl0
  exact ⟨hu, hsh⟩

/-! ### node UUIDs: the intended statement is false; the true variant

Intended (stage 1): `fromMsg m = .ok v → skelOf m = some sk → sk.nodeUuids.Nodup`.
False: `dupMsg` below - an interval and one of its own blocks share a UUID - is accepted by `fromMsg`
(and by `load`), its skeleton has `nodeUuids = [1, 2, 4, 9, 9, 7]`. This is the only duplicate the
value-level reader lets through (cf. `Msg.fromMsg_nodup` for the same side condition on the value). -/

/-- the strongest true variant: pairwise distinct node UUIDs unless a block carries its interval's UUID
(`SkIR.noSelf sk`: for every interval `x` of the skeleton, `x.uuid ∉ x.blocks.map (·.1)`) -/
theorem C01_link_nodup_partial (m : MIR) (v : IRV) (h : fromMsg m = .ok v) (sk : SkIR) (hs : skelOf m = some sk)
    (hside : sk.noSelf) : sk.nodeUuids.Nodup := nodeUuids_nodup h hs hside

/-- hence (C17): under that side condition the nodes of the loaded graph have pairwise distinct UUIDs and
the UUID table of the new IR is exact -/
theorem C01_link_table_exact_partial (m : MIR) (v : IRV) (h : fromMsg m = .ok v) (sk : SkIR)
    (hs : skelOf m = some sk) (hside : sk.noSelf) (g : G) (ir : Nat) (hl : load {} sk = .ok (g, ir)) :
    (∀ a b, a < g.n → b < g.n → g.uuid a = g.uuid b → a = b) ∧
    ∀ u x, g.cache ir u = some x ↔ (x < g.n ∧ irOf g x = some ir ∧ g.uuid x = u) := by
  have hf : ForestInv ({} : G) :=
    ⟨(by intro c p s; simp), (by intro p s; simp), (by intro c p h; cases h), (by intro c p h; cases h)⟩
  obtain ⟨h1, h2⟩ := C17_load_exact_nodup {} g sk ir hf hl (nodeUuids_nodup h hs hside)
  exact ⟨fun a b ha hb hab => h1 a b (Nat.zero_le _) ha (Nat.zero_le _) hb hab, h2⟩

/-! ### concrete messages -/

deriving instance DecidableEq for SkInterval
deriving instance DecidableEq for SkSection
deriving instance DecidableEq for SkPayload
deriving instance DecidableEq for SkSymbol
deriving instance DecidableEq for SkModule
deriving instance DecidableEq for SkIR

/-- 16-byte UUID number `k` -/
def lkU (k : UInt8) : Bytes := List.replicate 15 0 ++ [k]

/-- one module, a proxy, one section, one interval with a code and a data block, an `addrConst`
expression, two symbols (one with value 0, one referring to the code block), an entry point, one CFG edge -/
def exLinkMsg : MIR :=
  { uuid := lkU 1, version := Generated.protobufVersion, auxData := [],
    cfg := ⟨[], [⟨lkU 5, lkU 3, some ⟨false, true, 0⟩⟩]⟩,
    modules := [
      { uuid := lkU 2, binaryPath := "/bin/x", preferredAddr := 0, rebaseDelta := 0,
        fileFormat := 2, isa := 3, name := "m1", byteOrder := 2, entryPoint := lkU 5,
        proxies := [lkU 3], auxData := [],
        sections := [
          { uuid := lkU 4, name := ".text", sectionFlags := [1],
            byteIntervals := [
              { uuid := lkU 9, hasAddress := true, address := 4096, size := 8, contents := [1, 2, 3, 4],
                blocks := [⟨0, some (.code ⟨lkU 5, 4, 0⟩)⟩, ⟨4, some (.data ⟨lkU 7, 4⟩)⟩],
                symbolicExpressions := [(0, ⟨some (.addrConst (-8) (lkU 11)), [1]⟩)] }] }],
        symbols := [⟨lkU 10, some (.value 0), "zero", false⟩,
                    ⟨lkU 11, some (.referentUuid (lkU 5)), "main", false⟩] }] }

/-- both models run on a message: the skeleton exists, the loader accepts, and the graph read back is the
skeleton -/
def linkOK (m : MIR) : Bool :=
  match skelOf m with
  | some sk =>
    match load {} sk with
    | .ok (g, ir) => decide (g.uuid ir = sk.uuid ∧ (g.kids ir .mods).map (readModule g) = sk.modules.map skShape)
    | .error _ => false
  | none => false

/-- the value-level reader accepts `exLinkMsg` (by evaluation) … -/
theorem exLinkMsg_accepted : (fromMsg exLinkMsg).toOption.isSome = true := by decide

/-- … its skeleton is the expected one … -/
example : skelOf exLinkMsg = some
    { uuid := 1,
      modules := [{ uuid := 2, proxies := [3],
                    sections := [⟨4, [⟨9, [(5, true), (7, false)]⟩]⟩],
                    symbols := [⟨10, 0, .int 0⟩, ⟨11, 1, .ref 5⟩],
                    entry := some 5, exprSyms := [11] }],
      edges := [(5, 3)] } := by decide

/-- … and `load` accepts the skeleton and builds its shape (by evaluation of both models) -/
example : linkOK exLinkMsg = true := by decide

/-- non-vacuity: the theorems apply to `exLinkMsg` -/
example : ∃ v sk g ir, fromMsg exLinkMsg = .ok v ∧ skelOf exLinkMsg = some sk ∧ load {} sk = .ok (g, ir) ∧
    g.uuid ir = sk.uuid ∧ (g.kids ir .mods).map (readModule g) = sk.modules.map skShape ∧
    sk.nodeUuids.Nodup := by
  cases hf : fromMsg exLinkMsg with
  | error e => have := exLinkMsg_accepted; rw [hf] at this; cases this
  | ok v =>
    obtain ⟨sk, hs, g, ir, hl⟩ := C01_link_accepts _ v hf
    obtain ⟨h1, h2⟩ := C01_link_shape _ v hf sk hs g ir hl
    refine ⟨v, sk, g, ir, rfl, hs, hl, h1, h2, C01_link_nodup_partial _ v hf sk hs ?_⟩
    have hsk : skelOf exLinkMsg = some
        { uuid := 1,
          modules := [{ uuid := 2, proxies := [3],
                        sections := [⟨4, [⟨9, [(5, true), (7, false)]⟩]⟩],
                        symbols := [⟨10, 0, .int 0⟩, ⟨11, 1, .ref 5⟩],
                        entry := some 5, exprSyms := [11] }],
          edges := [(5, 3)] } := by decide
    rw [hsk] at hs
    cases hs
    intro md hmd s hs' x hx
    simp only [List.mem_cons, List.not_mem_nil, or_false] at hmd
    subst hmd
    simp only [List.mem_cons, List.not_mem_nil, or_false] at hs'
    subst hs'
    simp only [List.mem_cons, List.not_mem_nil, or_false] at hx
    subst hx
    unfold SkInterval.noSelf
    decide

/-- the counterexample to unconditional distinctness: the first block of the interval carries the
interval's UUID -/
def dupMsg : MIR :=
  { uuid := lkU 1, version := Generated.protobufVersion, auxData := [], cfg := ⟨[], []⟩,
    modules := [
      { uuid := lkU 2, binaryPath := "", preferredAddr := 0, rebaseDelta := 0,
        fileFormat := 0, isa := 0, name := "m", byteOrder := 0, entryPoint := [],
        proxies := [], auxData := [],
        sections := [
          { uuid := lkU 4, name := "s", sectionFlags := [],
            byteIntervals := [
              { uuid := lkU 9, hasAddress := false, address := 0, size := 4, contents := [],
                symbolicExpressions := [],
                blocks := [⟨0, some (.code ⟨lkU 9, 1, 0⟩)⟩, ⟨1, some (.data ⟨lkU 7, 1⟩)⟩] }] }],
        symbols := [] }] }

/-- `fromMsg` accepts `dupMsg`, its skeleton's node UUIDs are not pairwise distinct, and the two models
still agree on it -/
theorem C01_link_nodup_counterexample :
    (fromMsg dupMsg).toOption.isSome = true ∧
    (skelOf dupMsg).map (fun sk => (sk.nodeUuids, decide sk.nodeUuids.Nodup)) = some ([1, 2, 4, 9, 9, 7], false) ∧
    linkOK dupMsg = true := by decide

end Gtirb.Loader
