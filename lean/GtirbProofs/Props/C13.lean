import GtirbProofs.Lemmas.SymExprProofs
/-! C13 (and the mapping part of C16): `ByteInterval.symbolic_expressions` behaves
like a dict iterated in increasing offset order, and
`symbolic_expressions_at_offset / _at` return exactly one (offset, expression)
pair for every stored expression whose offset (resp. interval address + offset)
is a member of the queried point or positive-step range, in increasing offset
order, and nothing for an interval without an address. -/
namespace Gtirb.SymExpr
open Gtirb.Index (Rng)

/-! ### store invariant: strictly increasing keys (sorted and key-unique) -/

theorem C13_sorted_iff_keys (s : Store) : Sorted s ↔ (s.map (·.1)).Pairwise (· < ·) :=
  sorted_iff_keys s

theorem C13_step_sorted (s : Store) (op : Op) (s' : Store) (h : Sorted s)
    (hs : step s op = some s') : Sorted s' := by
  cases op with
  | setItem k v =>
    simp only [step, Option.some.injEq] at hs; subst hs; exact sorted_setItem h k v
  | delItem k =>
    simp only [step, delItem] at hs
    split at hs
    · simp only [Option.some.injEq] at hs; subst hs; exact sorted_filter _ h
    · cases hs
  | pop k =>
    simp only [step, pop, delItem] at hs
    split at hs
    · split at hs
      · simp only [Option.map_some, Option.some.injEq] at hs; subst hs; exact sorted_filter _ h
      · simp at hs
    · simp at hs
  | popitem =>
    cases s with
    | nil => simp [step, popitem] at hs
    | cons a t =>
      simp only [step, popitem, Option.map_some, Option.some.injEq] at hs
      subst hs; exact ((sorted_cons _ _).1 h).2
  | setdefault k d =>
    simp only [step, setdefault, Option.some.injEq] at hs
    subst hs
    split
    · exact h
    · exact sorted_setItem h k d
  | update kvs =>
    simp only [step, Option.some.injEq] at hs; subst hs; exact sorted_update h kvs
  | clear =>
    simp only [step, Option.some.injEq] at hs; subst hs; exact sorted_nil
  | assign kvs =>
    simp only [step, assign, Option.some.injEq] at hs; subst hs; exact sorted_update sorted_nil kvs

/-- a history of operations; a KeyError leaves the store unchanged -/
def run (s : Store) (ops : List Op) : Store := ops.foldl (fun s op => (step s op).getD s) s

theorem C13_run_sorted (s : Store) (ops : List Op) (h : Sorted s) : Sorted (run s ops) := by
  unfold run
  induction ops generalizing s with
  | nil => exact h
  | cons op ops ih =>
    rw [List.foldl_cons]
    apply ih
    cases hs : step s op with
    | none => exact h
    | some s' => exact C13_step_sorted s op s' h hs

theorem C13_history (ops : List Op) : Sorted (run [] ops) :=
  C13_run_sorted [] ops sorted_nil

/-! ### dict semantics of every operation, stated through `get?` -/

theorem C13_setItem_get (s : Store) (k v k' : Nat) (_h : Sorted s) :
    get? (setItem s k v) k' = if k' = k then some v else get? s k' :=
  get?_setItem s k v k'

/-- KeyError iff absent -/
theorem C13_delItem (s : Store) (k : Nat) (_h : Sorted s) :
    delItem s k = none ↔ get? s k = none := by
  unfold delItem
  cases get? s k <;> simp

theorem C13_delItem_get (s : Store) (k : Nat) (s' : Store) (k' : Nat) (_h : Sorted s)
    (hd : delItem s k = some s') : get? s' k' = if k' = k then none else get? s k' := by
  unfold delItem at hd
  split at hd
  · simp only [Option.some.injEq] at hd; subst hd; exact get?_filter_ne s k k'
  · cases hd

theorem C13_pop (s : Store) (k : Nat) :
    pop s k = match get? s k with
      | some v => (delItem s k).map (·, v)
      | none => none := rfl

/-- `pop` returns the stored value and the store of `del` -/
theorem C13_pop_some (s : Store) (k : Nat) (s' : Store) (v : Nat) :
    pop s k = some (s', v) ↔ get? s k = some v ∧ delItem s k = some s' := by
  unfold pop delItem
  cases hg : get? s k with
  | none => simp
  | some w =>
    simp only [Option.isSome_some, if_true, Option.map_some, Option.some.injEq, Prod.mk.injEq]
    exact And.comm

/-- `pop`: KeyError iff absent -/
theorem C13_pop_none (s : Store) (k : Nat) : pop s k = none ↔ get? s k = none := by
  unfold pop delItem
  cases get? s k <;> simp

theorem C13_popitem_min (s s' : Store) (k v : Nat) (h : Sorted s)
    (hp : popitem s = some (s', k, v)) :
    get? s k = some v ∧ (∀ k', (get? s k').isSome → k ≤ k') ∧
      ∀ k', get? s' k' = if k' = k then none else get? s k' := by
  cases s with
  | nil => simp [popitem] at hp
  | cons a t =>
    obtain ⟨ka, va⟩ := a
    simp only [popitem, Option.some.injEq, Prod.mk.injEq] at hp
    obtain ⟨rfl, rfl, rfl⟩ := hp
    have h' := (sorted_cons _ _).1 h
    refine ⟨by simp [get?_cons], ?_, ?_⟩
    · intro k' hk'
      obtain ⟨w, hw⟩ := Option.isSome_iff_exists.1 hk'
      rcases List.mem_cons.1 (mem_of_get? hw) with e | hm
      · simp only [Prod.mk.injEq] at e; omega
      · exact Nat.le_of_lt (h'.1 _ hm)
    · intro k'
      rw [get?_cons]
      by_cases hk : k' = ka
      · subst hk
        simp only [if_true]
        rw [get?_eq_none_iff]
        intro b hb
        exact Nat.ne_of_gt (h'.1 b hb)
      · simp [hk]

theorem C13_popitem_empty (s : Store) : popitem s = none ↔ s = [] := by
  cases s with
  | nil => simp [popitem]
  | cons a t => obtain ⟨k, v⟩ := a; simp [popitem]

theorem C13_setdefault (s : Store) (k d : Nat) (_h : Sorted s) :
    (setdefault s k d).2 = (get? s k).getD d ∧
      ∀ k', get? (setdefault s k d).1 k' =
        if k' = k then some ((get? s k).getD d) else get? s k' := by
  unfold setdefault
  cases hg : get? s k with
  | none =>
    refine ⟨rfl, fun k' => ?_⟩
    simp only [Option.getD_none]
    exact get?_setItem s k d k'
  | some w =>
    refine ⟨rfl, fun k' => ?_⟩
    simp only [Option.getD_some]
    by_cases hk : k' = k
    · subst hk; simp [hg]
    · simp [hk]

/-- last write wins -/
theorem C13_update_get (s : Store) (kvs : List (Nat × Nat)) (k' : Nat) (_h : Sorted s) :
    get? (update s kvs) k' =
      match kvs.reverse.find? (·.1 == k') with
      | some kv => some kv.2
      | none => get? s k' :=
  get?_update s kvs k'

/-- whole-mapping assignment = clear then update -/
theorem C13_assign_get (s : Store) (kvs : List (Nat × Nat)) (k' : Nat) :
    get? (assign s kvs) k' = (kvs.reverse.find? (·.1 == k')).map (·.2) := by
  unfold assign
  rw [get?_update]
  cases kvs.reverse.find? (·.1 == k') <;> simp

theorem C13_assign_eq (s : Store) (kvs : List (Nat × Nat)) :
    assign s kvs = update (clear s) kvs := rfl

theorem C13_clear_get (s : Store) (k' : Nat) : get? (clear s) k' = none := rfl

theorem C13_mem_iff (s : Store) (k v : Nat) (h : Sorted s) : (k, v) ∈ s ↔ get? s k = some v :=
  mem_iff_get? h k v

/-! ### lookups equal the scan (each stored pair once, increasing offset order) -/

/-- the `irange` bounds exclude no member of the range -/
theorem C13_mem_bounds (r : Rng) (x : Int) (h : r.mem x = true) : r.start ≤ x ∧ x < r.stop :=
  rng_mem_bounds h

theorem C13_at_offset (s : Store) (r : Rng) : atOffset s r = scanAtOffset s r := by
  unfold atOffset scanAtOffset irange
  rw [List.filter_filter]
  apply List.filter_congr
  intro kv _
  cases hm : r.mem (kv.1 : Int) with
  | false => simp
  | true =>
    have hb := rng_mem_bounds hm
    simp [hb.1, hb.2]

theorem C13_at (s : Store) (addr : Option Nat) (r : Rng) :
    atAddr s addr r = scanAtAddr s addr r := by
  cases addr with
  | none => rfl
  | some a =>
    simp only [atAddr, scanAtAddr, irange]
    rw [List.filter_filter]
    apply List.filter_congr
    intro kv _
    cases hm : r.mem ((a : Int) + (kv.1 : Int)) with
    | false => simp
    | true =>
      have hb := rng_mem_bounds hm
      have h1 : r.start - (a : Int) ≤ (kv.1 : Int) := by omega
      have h2 : (kv.1 : Int) < r.stop - (a : Int) := by omega
      simp [h1, h2]

theorem C13_at_no_address (s : Store) (r : Rng) : atAddr s none r = [] := rfl

theorem C13_at_offset_mem (s : Store) (r : Rng) (k v : Nat) (h : Sorted s) :
    (k, v) ∈ atOffset s r ↔ get? s k = some v ∧ r.mem k = true := by
  rw [C13_at_offset, scanAtOffset, List.mem_filter, mem_iff_get? h]

theorem C13_at_mem (s : Store) (a : Nat) (r : Rng) (k v : Nat) (h : Sorted s) :
    (k, v) ∈ atAddr s (some a) r ↔ get? s k = some v ∧ r.mem ((a : Int) + k) = true := by
  rw [C13_at, scanAtAddr]
  simp only [List.mem_filter]
  rw [mem_iff_get? h]

/-- increasing offset order, each pair once -/
theorem C13_at_offset_sorted (s : Store) (r : Rng) (h : Sorted s) : Sorted (atOffset s r) := by
  rw [C13_at_offset]; exact sorted_filter _ h

theorem C13_at_sorted (s : Store) (addr : Option Nat) (r : Rng) (h : Sorted s) :
    Sorted (atAddr s addr r) := by
  rw [C13_at]
  cases addr with
  | none => exact sorted_nil
  | some a => exact sorted_filter _ h

/-- the result is a sublist of the store: every pair at most once, in store order -/
theorem C13_at_offset_sublist (s : Store) (r : Rng) : (atOffset s r).Sublist s := by
  rw [C13_at_offset]; exact List.filter_sublist

theorem C13_at_sublist (s : Store) (addr : Option Nat) (r : Rng) : (atAddr s addr r).Sublist s := by
  rw [C13_at]
  cases addr with
  | none => exact List.nil_sublist _
  | some a => exact List.filter_sublist

/-- each stored pair exactly once -/
theorem C13_at_offset_nodup (s : Store) (r : Rng) (h : Sorted s) : (atOffset s r).Nodup := by
  have := (sorted_iff_pairwise _).1 (C13_at_offset_sorted s r h)
  exact this.imp (fun hlt e => by subst e; exact Nat.lt_irrefl _ hlt)

theorem C13_at_nodup (s : Store) (addr : Option Nat) (r : Rng) (h : Sorted s) :
    (atAddr s addr r).Nodup := by
  have := (sorted_iff_pairwise _).1 (C13_at_sorted s addr r h)
  exact this.imp (fun hlt e => by subst e; exact Nat.lt_irrefl _ hlt)

/-! ### non-vacuity -/

/-- a store built by a few operations (unsorted insertion order, overwrite, delete, KeyError) -/
example : run [] [.setItem 8 80, .setItem 2 20, .setItem 5 50, .setItem 2 21, .delItem 7,
    .update [(11, 110), (4, 40)], .pop 5, .setdefault 8 99, .setdefault 14 140]
    = [(2, 21), (4, 40), (8, 80), (11, 110), (14, 140)] := by decide

example : step [(2, 21)] (.delItem 7) = none := by decide
example : pop [(2, 21), (4, 40)] 4 = some ([(2, 21)], 40) := by decide
example : popitem [(2, 21), (4, 40)] = some ([(4, 40)], 2, 21) := by decide
example : assign [(2, 21), (4, 40)] [(9, 1), (3, 2), (9, 3)] = [(3, 2), (9, 3)] := by decide

/-- a stepped-range lookup: range(2, 12, 3) = {2, 5, 8, 11} -/
example : atOffset [(2, 21), (4, 40), (8, 80), (11, 110), (14, 140)] ⟨2, 12, 3⟩
    = [(2, 21), (8, 80), (11, 110)] := by decide

/-- a point lookup with an address: address 0x1000 + offset 8 -/
example : atAddr [(2, 21), (4, 40), (8, 80), (11, 110), (14, 140)] (some 4096) ⟨4104, 4105, 1⟩
    = [(8, 80)] := by decide

/-- a stepped-range lookup with an address -/
example : atAddr [(2, 21), (4, 40), (8, 80), (11, 110), (14, 140)] (some 4096) ⟨4098, 4112, 2⟩
    = [(2, 21), (4, 40), (8, 80), (14, 140)] := by decide

/-- nothing without an address -/
example : atAddr [(2, 21), (4, 40)] none ⟨0, 100, 1⟩ = [] := by decide

/-- a zero step has no members -/
example : atOffset [(2, 21), (4, 40)] ⟨0, 100, 0⟩ = [] := by decide

end Gtirb.SymExpr
