import GtirbProofs.Props.C06
import GtirbProofs.Props.C05Scopes
/-! C06, module / IR scope: `sections_on` / `sections_at` are the linear scan
`util.nodes_on/nodes_at` over `Section.address` / `Section.size`; each of these forces the
section's lazy interval index. The extent the code reads off the forced index is the one a
fresh scan over the section's intervals computes (`scanExtent`), so the answers are the
filter of the section list by the scanned extents, in list order, and the structure is
left alone. -/
namespace Gtirb.Index

/-! ### the scanned extent -/

/-- `(address, end)` of the addressed intervals of a list -/
def addrPairs (l : List BI) : List (Int × Int) :=
  l.filterMap (fun x => x.addr.map fun a => ((a : Int), (a : Int) + x.size))

def pairsExtent : List (Int × Int) → Option (Int × Int)
  | [] => none
  | p :: ps =>
    some (ps.foldl (fun m q => if q.1 < m then q.1 else m) p.1,
      ps.foldl (fun m q => if q.2 > m then q.2 else m) p.2 -
        ps.foldl (fun m q => if q.1 < m then q.1 else m) p.1)

theorem scanExtent_eq (d : D) (s : Nat) : scanExtent d s =
    if (d.bisOf s).isEmpty || (d.bisOf s).any (fun x => x.addr.isNone) then none
    else pairsExtent (addrPairs (d.bisOf s)) := by
  unfold scanExtent
  simp only []
  split
  · rfl
  · show _ = pairsExtent (addrPairs (d.bisOf s))
    unfold addrPairs
    cases List.filterMap (fun x : BI => x.addr.map fun a => ((a : Int), (a : Int) + x.size)) (d.bisOf s) <;> rfl

theorem mem_addrPairs {l : List BI} {q : Int × Int} :
    q ∈ addrPairs l ↔ ∃ x ∈ l, ∃ a : Nat, x.addr = some a ∧ q = ((a : Int), (a : Int) + x.size) := by
  unfold addrPairs
  rw [List.mem_filterMap]
  constructor
  · rintro ⟨x, hx, hq⟩
    cases ha : x.addr with
    | none => rw [ha] at hq; cases hq
    | some a =>
      rw [ha] at hq
      have hq' : some ((a : Int), (a : Int) + x.size) = some q := hq
      cases hq'
      exact ⟨x, hx, a, ha, rfl⟩
  · rintro ⟨x, hx, a, ha, rfl⟩
    exact ⟨x, hx, by rw [ha]; rfl⟩

def pairIv (q : Int × Int) : Iv := ⟨q.1, q.2, 0⟩

theorem pairsExtent_spec {l : List (Int × Int)} (hne : l ≠ []) :
    ∃ lo hi : Int, (∃ q ∈ l, q.1 = lo) ∧ (∀ q ∈ l, lo ≤ q.1) ∧ (∃ q ∈ l, q.2 = hi) ∧
      (∀ q ∈ l, q.2 ≤ hi) ∧ pairsExtent l = some (lo, hi - lo) := by
  cases l with
  | nil => exact absurd rfl hne
  | cons p ps =>
    have h1 := foldMin_spec (ps.map pairIv) p.1
    have h2 := foldMax_spec (ps.map pairIv) p.2
    rw [List.foldl_map] at h1 h2
    refine ⟨_, _, ?_, ?_, ?_, ?_, rfl⟩
    · rcases h1.1 with e | ⟨iv, hiv, e⟩
      · exact ⟨p, List.mem_cons_self, e.symm⟩
      · obtain ⟨q, hq, rfl⟩ := List.mem_map.1 hiv
        exact ⟨q, List.mem_cons_of_mem _ hq, e⟩
    · intro q hq
      rcases List.mem_cons.1 hq with rfl | hq
      · exact h1.2.1
      · exact h1.2.2 (pairIv q) (List.mem_map.2 ⟨q, hq, rfl⟩)
    · rcases h2.1 with e | ⟨iv, hiv, e⟩
      · exact ⟨p, List.mem_cons_self, e.symm⟩
      · obtain ⟨q, hq, rfl⟩ := List.mem_map.1 hiv
        exact ⟨q, List.mem_cons_of_mem _ hq, e⟩
    · intro q hq
      rcases List.mem_cons.1 hq with rfl | hq
      · exact h2.2.1
      · exact h2.2.2 (pairIv q) (List.mem_map.2 ⟨q, hq, rfl⟩)

theorem scanCond_iff (l : List BI) :
    (l.isEmpty || l.any (fun x => x.addr.isNone)) = true ↔
      ¬(l ≠ [] ∧ ∀ x ∈ l, x.addr.isSome = true) := by
  rw [Bool.or_eq_true, List.isEmpty_iff, List.any_eq_true]
  constructor
  · rintro (e | ⟨x, hx, hn⟩) ⟨hne, hall⟩
    · exact hne e
    · have := hall x hx
      cases hx' : x.addr with
      | none => rw [hx'] at this; cases this
      | some a => rw [hx'] at hn; cases hn
  · intro hn
    by_cases e : l = []
    · exact .inl e
    · right
      apply Classical.byContradiction
      intro hno
      apply hn
      refine ⟨e, fun x hx => ?_⟩
      cases hx' : x.addr with
      | some a => rfl
      | none => exact absurd ⟨x, hx, by rw [hx']; rfl⟩ hno

/-- the scanned extent: `none` unless the section has at least one interval and all of them
have addresses; otherwise the lowest address and the distance to the highest end -/
theorem scanExtent_spec (d : D) (s : Nat) :
    ((d.bisOf s ≠ [] ∧ ∀ x ∈ d.bisOf s, x.addr.isSome = true) →
      ∃ lo hi : Int, (∃ x ∈ d.bisOf s, ∃ a : Nat, x.addr = some a ∧ (a : Int) = lo) ∧
        (∀ x ∈ d.bisOf s, ∀ a : Nat, x.addr = some a → lo ≤ a) ∧
        (∃ x ∈ d.bisOf s, ∃ a : Nat, x.addr = some a ∧ (a : Int) + x.size = hi) ∧
        (∀ x ∈ d.bisOf s, ∀ a : Nat, x.addr = some a → (a : Int) + x.size ≤ hi) ∧
        scanExtent d s = some (lo, hi - lo)) ∧
    (¬(d.bisOf s ≠ [] ∧ ∀ x ∈ d.bisOf s, x.addr.isSome = true) → scanExtent d s = none) := by
  rw [scanExtent_eq]
  constructor
  · intro hc
    have hc' : ¬((d.bisOf s).isEmpty || (d.bisOf s).any (fun x => x.addr.isNone)) = true := by
      rw [scanCond_iff]; exact fun h => h hc
    rw [if_neg hc']
    have hne : addrPairs (d.bisOf s) ≠ [] := by
      obtain ⟨hne, hall⟩ := hc
      cases hl : d.bisOf s with
      | nil => exact absurd hl hne
      | cons x l =>
        have hx : x ∈ d.bisOf s := by rw [hl]; exact List.mem_cons_self
        have := hall x hx
        cases hx' : x.addr with
        | none => rw [hx'] at this; cases this
        | some a =>
          rw [← hl]
          intro e
          have hm : ((a : Int), (a : Int) + x.size) ∈ addrPairs (d.bisOf s) :=
            mem_addrPairs.2 ⟨x, hx, a, hx', rfl⟩
          rw [e] at hm; cases hm
    obtain ⟨lo, hi, ⟨q1, hq1, e1⟩, hlo, ⟨q2, hq2, e2⟩, hhi, he⟩ := pairsExtent_spec hne
    obtain ⟨x1, hx1, a1, ha1, rfl⟩ := mem_addrPairs.1 hq1
    obtain ⟨x2, hx2, a2, ha2, rfl⟩ := mem_addrPairs.1 hq2
    refine ⟨lo, hi, ⟨x1, hx1, a1, ha1, e1⟩, ?_, ⟨x2, hx2, a2, ha2, e2⟩, ?_, he⟩
    · intro x hx a ha
      exact hlo _ (mem_addrPairs.2 ⟨x, hx, a, ha, rfl⟩)
    · intro x hx a ha
      exact hhi _ (mem_addrPairs.2 ⟨x, hx, a, ha, rfl⟩)
  · intro hn
    rw [if_pos ((scanCond_iff _).2 hn)]

/-- the size component of a scanned extent is not negative -/
theorem scanExtent_nonneg {d : D} {s : Nat} {a z : Int} (h : scanExtent d s = some (a, z)) :
    0 ≤ z := by
  by_cases hc : d.bisOf s ≠ [] ∧ ∀ x ∈ d.bisOf s, x.addr.isSome = true
  · obtain ⟨lo, hi, ⟨x1, hx1, a1, ha1, e1⟩, hlo, ⟨x2, hx2, a2, ha2, e2⟩, hhi, he⟩ :=
      (scanExtent_spec d s).1 hc
    rw [he] at h
    simp only [Option.some.injEq, Prod.mk.injEq] at h
    have := hlo x2 hx2 a2 ha2
    omega
  · rw [(scanExtent_spec d s).2 hc] at h; cases h

/-- the scanned extent is a function of the structure -/
theorem scanExtent_of_strip {d d' : D} (h : strip d = strip d') (s : Nat) :
    scanExtent d s = scanExtent d' s := by
  have e : ∀ d0 : D, scanExtent d0 s =
      (let l := (d0.bisOf s).map projBI
       if l.isEmpty || l.any (fun t => t.2.1.isNone) then none
       else pairsExtent (l.filterMap fun t => t.2.1.map fun a => ((a : Int), (a : Int) + t.2.2.1))) := by
    intro d0
    rw [scanExtent_eq]
    simp only [List.isEmpty_map, List.any_map, List.filterMap_map]
    rfl
  rw [e, e, bisOf_of_strip h]

/-! ### `Section.address` / `Section.size` -/

/-- what the code computes, for any section id: the scanned extent of an existing section,
nothing for an unknown one -/
theorem secExtent_snd {d : D} (h : DInv d) (s : Nat) :
    (secExtent d s).2 = if (d.sec? s).isSome then scanExtent d s else none := by
  cases hb : d.sec? s with
  | none => simp only [Option.isSome_none, Bool.false_eq_true, if_false]; exact secExtent_none hb
  | some sc =>
    have hs : (d.sec? s).isSome = true := by rw [hb]; rfl
    simp only [Option.isSome_some, if_true]
    have h1 := secExtent_spec h hs
    have h2 := scanExtent_spec d s
    by_cases hc : d.bisOf s ≠ [] ∧ ∀ x ∈ d.bisOf s, x.addr.isSome = true
    · obtain ⟨lo, hi, ⟨x1, hx1, a1⟩, hlo, ⟨x2, hx2, a2, ha2, e2⟩, hhi, he⟩ := h1.1 hc
      obtain ⟨lo', hi', ⟨y1, hy1, b1, hb1, f1⟩, hlo', ⟨y2, hy2, b2, hb2, f2⟩, hhi', he'⟩ := h2.1 hc
      rw [he, he']
      have i1 := hlo y1 hy1 b1 hb1
      have i2 := hlo' x1 hx1 lo a1
      have i3 := hhi y2 hy2 b2 hb2
      have i4 := hhi' x2 hx2 a2 ha2
      have e1 : (lo : Int) = lo' := by omega
      have e3 : (hi : Int) = hi' := by omega
      rw [e1, e3]
    · rw [h1.2 hc, h2.2 hc]

/-- the extent the code computes from the lazy index is the scan's -/
theorem C06_extent_scan (d : D) (s : Nat) (h : DInv d) (hs : (d.sec? s).isSome) :
    (secExtent d s).2 = scanExtent d s := by
  rw [secExtent_snd h s, if_pos hs]

theorem C06_secExtent_keeps (d : D) (s : Nat) (h : DInv d) :
    DInv (secExtent d s).1 ∧ strip (secExtent d s).1 = strip d := by
  rw [secExtent_fst]
  exact ⟨getSec_inv h s, getSec_strip d s⟩

/-! ### the linear scan -/

/-- `nodes_on`'s test on a node's (address, size) -/
def keepOn (r : Rng) : Option (Int × Int) → Bool
  | some (a, z) => decide (max r.start a < min r.stop (a + z))
  | none => false

/-- `nodes_at`'s test -/
def keepAt (r : Rng) : Option (Int × Int) → Bool
  | some (a, _) => r.mem a
  | none => false

/-- what the code reads for section id `s` in state `d` -/
def codeExtent (d : D) (s : Nat) : Option (Int × Int) :=
  if (d.sec? s).isSome then scanExtent d s else none

theorem codeExtent_of_strip {d d' : D} (h : strip d = strip d') (s : Nat) :
    codeExtent d s = codeExtent d' s := by
  unfold codeExtent
  rw [sec?_of_strip h, scanExtent_of_strip h]

def scanStep (keep : Option (Int × Int) → Bool) (acc : D × List Nat) (s : Nat) : D × List Nat :=
  ((secExtent acc.1 s).1, if keep (secExtent acc.1 s).2 then acc.2 ++ [s] else acc.2)

theorem secsOn_eq (d : D) (ss : List Nat) (r : Rng) :
    secsOn d ss r = ss.foldl (scanStep (keepOn r)) (d, []) := by
  unfold secsOn
  congr 1
  funext acc s
  unfold scanStep
  rcases secExtent acc.1 s with ⟨d', _ | ⟨a, z⟩⟩
  · rfl
  · simp only [keepOn]
    by_cases hc : max r.start a < min r.stop (a + z)
    · simp [hc]
    · simp [hc]

theorem secsAt_eq (d : D) (ss : List Nat) (r : Rng) :
    secsAt d ss r = ss.foldl (scanStep (keepAt r)) (d, []) := by
  unfold secsAt
  congr 1
  funext acc s
  unfold scanStep
  rcases secExtent acc.1 s with ⟨d', _ | ⟨a, z⟩⟩
  · rfl
  · simp only [keepAt]
    by_cases hm : r.mem a = true
    · simp [hm]
    · simp [hm]

/-- the scan, whatever the test: invariant and structure are kept, and the answer is the
section list filtered by the test on the extents of the STARTING state, in list order -/
theorem scanFold_spec (keep : Option (Int × Int) → Bool) :
    ∀ (ss : List Nat) (d : D) (acc : List Nat), DInv d →
      DInv (ss.foldl (scanStep keep) (d, acc)).1 ∧
      strip (ss.foldl (scanStep keep) (d, acc)).1 = strip d ∧
      (ss.foldl (scanStep keep) (d, acc)).2 = acc ++ ss.filter (fun s => keep (codeExtent d s)) := by
  intro ss
  induction ss with
  | nil => intro d acc h; exact ⟨h, rfl, by simp⟩
  | cons s ss ih =>
    intro d acc h
    rw [List.foldl_cons]
    have hk := C06_secExtent_keeps d s h
    have hstep : scanStep keep (d, acc) s =
        ((secExtent d s).1, if keep (codeExtent d s) then acc ++ [s] else acc) := by
      unfold scanStep codeExtent
      rw [secExtent_snd h s]
    rw [hstep]
    obtain ⟨i1, i2, i3⟩ := ih (secExtent d s).1 (if keep (codeExtent d s) then acc ++ [s] else acc) hk.1
    refine ⟨i1, i2.trans hk.2, ?_⟩
    rw [i3]
    have : (fun s' => keep (codeExtent (secExtent d s).1 s')) = fun s' => keep (codeExtent d s') := by
      funext s'; rw [codeExtent_of_strip hk.2]
    rw [this, List.filter_cons]
    by_cases hc : keep (codeExtent d s) = true
    · simp [hc]
    · simp [hc]

/-- the exact answer of `sections_on`: the listed sections whose extent passes the test, in
list order; ids that are not sections of `d` are never reported -/
theorem secsOn_snd (d : D) (ss : List Nat) (r : Rng) (h : DInv d) :
    (secsOn d ss r).2 = ss.filter (fun s => keepOn r (codeExtent d s)) := by
  rw [secsOn_eq, (scanFold_spec (keepOn r) ss d [] h).2.2]; rfl

theorem secsAt_snd (d : D) (ss : List Nat) (r : Rng) (h : DInv d) :
    (secsAt d ss r).2 = ss.filter (fun s => keepAt r (codeExtent d s)) := by
  rw [secsAt_eq, (scanFold_spec (keepAt r) ss d [] h).2.2]; rfl

theorem keepOn_iff (r : Rng) {e : Option (Int × Int)} (hz : ∀ a z, e = some (a, z) → 0 ≤ z) :
    keepOn r e = true ↔ ∃ a z, e = some (a, z) ∧ z ≠ 0 ∧ r.start < r.stop ∧ a < r.stop ∧
      a + z > r.start := by
  cases e with
  | none => simp [keepOn]
  | some p =>
    obtain ⟨a, z⟩ := p
    have := hz a z rfl
    simp only [keepOn, decide_eq_true_eq, Option.some.injEq, Prod.mk.injEq]
    constructor
    · intro h
      exact ⟨a, z, ⟨rfl, rfl⟩, by omega, by omega, by omega, by omega⟩
    · rintro ⟨a', z', ⟨rfl, rfl⟩, h1, h2, h3, h4⟩
      omega

theorem keepAt_iff (r : Rng) {e : Option (Int × Int)} :
    keepAt r e = true ↔ ∃ a z, e = some (a, z) ∧ r.mem a = true := by
  cases e with
  | none => simp [keepAt]
  | some p =>
    obtain ⟨a, z⟩ := p
    simp only [keepAt, Option.some.injEq, Prod.mk.injEq]
    constructor
    · intro h; exact ⟨a, z, ⟨rfl, rfl⟩, h⟩
    · rintro ⟨a', z', ⟨rfl, rfl⟩, h⟩; exact h

/-- `sections_on`, any id list: a listed id is reported iff it is a section of `d` and its
scanned extent `(a, z)` has `z ≠ 0` and intersects the envelope `[start, stop)` of the query -/
theorem C06_sections_on_any (d : D) (ss : List Nat) (r : Rng) (h : DInv d) (x : Nat) :
    x ∈ (secsOn d ss r).2 ↔ x ∈ ss ∧ (d.sec? x).isSome ∧ ∃ a z, scanExtent d x = some (a, z) ∧
      z ≠ 0 ∧ r.start < r.stop ∧ a < r.stop ∧ a + z > r.start := by
  rw [secsOn_snd d ss r h, List.mem_filter]
  unfold codeExtent
  by_cases hs : (d.sec? x).isSome = true
  · rw [if_pos hs, keepOn_iff r (fun a z => scanExtent_nonneg)]
    simp [hs]
  · rw [if_neg hs]
    simp [keepOn, hs]

theorem C06_sections_at_any (d : D) (ss : List Nat) (r : Rng) (h : DInv d) (x : Nat) :
    x ∈ (secsAt d ss r).2 ↔ x ∈ ss ∧ (d.sec? x).isSome ∧ ∃ a z, scanExtent d x = some (a, z) ∧
      r.mem a = true := by
  rw [secsAt_snd d ss r h, List.mem_filter]
  unfold codeExtent
  by_cases hs : (d.sec? x).isSome = true
  · rw [if_pos hs, keepAt_iff r]
    simp [hs]
  · rw [if_neg hs]
    simp [keepAt, hs]

/-- sections_on: a section is reported iff it has an extent `(a, z)` with `z ≠ 0` that
intersects the envelope `[start, stop)` of the query -/
theorem C06_sections_on (d : D) (ss : List Nat) (r : Rng) (h : DInv d)
    (hss : ∀ s ∈ ss, (d.sec? s).isSome) (x : Nat) :
    x ∈ (secsOn d ss r).2 ↔ x ∈ ss ∧ ∃ a z, scanExtent d x = some (a, z) ∧ z ≠ 0 ∧
      r.start < r.stop ∧ a < r.stop ∧ a + z > r.start := by
  rw [C06_sections_on_any d ss r h x]
  constructor
  · rintro ⟨h1, _, h2⟩; exact ⟨h1, h2⟩
  · rintro ⟨h1, h2⟩; exact ⟨h1, hss x h1, h2⟩

/-- sections_at: a section is reported iff it has an extent whose address is a member of the
queried range -/
theorem C06_sections_at (d : D) (ss : List Nat) (r : Rng) (h : DInv d)
    (hss : ∀ s ∈ ss, (d.sec? s).isSome) (x : Nat) :
    x ∈ (secsAt d ss r).2 ↔ x ∈ ss ∧ ∃ a z, scanExtent d x = some (a, z) ∧ r.mem a = true := by
  rw [C06_sections_at_any d ss r h x]
  constructor
  · rintro ⟨h1, _, h2⟩; exact ⟨h1, h2⟩
  · rintro ⟨h1, h2⟩; exact ⟨h1, hss x h1, h2⟩

/-- the same with the code's own test `range(max(..), min(..))` non-empty -/
theorem C06_sections_on_maxmin (d : D) (ss : List Nat) (r : Rng) (h : DInv d)
    (hss : ∀ s ∈ ss, (d.sec? s).isSome) (x : Nat) :
    x ∈ (secsOn d ss r).2 ↔ x ∈ ss ∧ ∃ a z, scanExtent d x = some (a, z) ∧
      max r.start a < min r.stop (a + z) := by
  rw [C06_sections_on d ss r h hss x]
  constructor
  · rintro ⟨h1, a, z, he, h2⟩
    have := scanExtent_nonneg he
    exact ⟨h1, a, z, he, by omega⟩
  · rintro ⟨h1, a, z, he, h2⟩
    have := scanExtent_nonneg he
    exact ⟨h1, a, z, he, by omega⟩

/-- the answers as lists: the listed sections filtered by the scanned extents, in list order -/
theorem C06_sections_on_eq (d : D) (ss : List Nat) (r : Rng) (h : DInv d)
    (hss : ∀ s ∈ ss, (d.sec? s).isSome) :
    (secsOn d ss r).2 = ss.filter (fun s => keepOn r (scanExtent d s)) := by
  rw [secsOn_snd d ss r h]
  apply List.filter_congr
  intro s hs
  unfold codeExtent
  rw [if_pos (hss s hs)]

theorem C06_sections_at_eq (d : D) (ss : List Nat) (r : Rng) (h : DInv d)
    (hss : ∀ s ∈ ss, (d.sec? s).isSome) :
    (secsAt d ss r).2 = ss.filter (fun s => keepAt r (scanExtent d s)) := by
  rw [secsAt_snd d ss r h]
  apply List.filter_congr
  intro s hs
  unfold codeExtent
  rw [if_pos (hss s hs)]

/-- each once, in list order -/
theorem C06_sections_on_sublist (d : D) (ss : List Nat) (r : Rng) (h : DInv d) :
    (secsOn d ss r).2.Sublist ss := by
  rw [secsOn_snd d ss r h]; exact List.filter_sublist

theorem C06_sections_at_sublist (d : D) (ss : List Nat) (r : Rng) (h : DInv d) :
    (secsAt d ss r).2.Sublist ss := by
  rw [secsAt_snd d ss r h]; exact List.filter_sublist

theorem C06_sections_on_nodup (d : D) (ss : List Nat) (r : Rng) (h : DInv d) (hnd : ss.Nodup) :
    (secsOn d ss r).2.Nodup :=
  List.Nodup.sublist (C06_sections_on_sublist d ss r h) hnd

theorem C06_sections_at_nodup (d : D) (ss : List Nat) (r : Rng) (h : DInv d) (hnd : ss.Nodup) :
    (secsAt d ss r).2.Nodup :=
  List.Nodup.sublist (C06_sections_at_sublist d ss r h) hnd

/-- the lookups stay unobservable: invariant and structure are kept -/
theorem C06_sections_keep (d : D) (ss : List Nat) (r : Rng) (h : DInv d) :
    DInv (secsOn d ss r).1 ∧ strip (secsOn d ss r).1 = strip d := by
  rw [secsOn_eq]
  have := scanFold_spec (keepOn r) ss d [] h
  exact ⟨this.1, this.2.1⟩

theorem C06_sections_at_keep (d : D) (ss : List Nat) (r : Rng) (h : DInv d) :
    DInv (secsAt d ss r).1 ∧ strip (secsAt d ss r).1 = strip d := by
  rw [secsAt_eq]
  have := scanFold_spec (keepAt r) ss d [] h
  exact ⟨this.1, this.2.1⟩

/-- ... so any later lookup answers as if the section scan had not happened -/
theorem C12_sections_lookup_unobservable (d : D) (ss : List Nat) (r : Rng) (q : Query) (h : DInv d) :
    sameAnswer (runQuery (secsOn d ss r).1 q).2 (runQuery d q).2 :=
  let hk := C06_sections_keep d ss r h
  answer_of_strip q hk.1 h hk.2

theorem C12_sections_at_lookup_unobservable (d : D) (ss : List Nat) (r : Rng) (q : Query)
    (h : DInv d) : sameAnswer (runQuery (secsAt d ss r).1 q).2 (runQuery d q).2 :=
  let hk := C06_sections_at_keep d ss r h
  answer_of_strip q hk.1 h hk.2

/-- and a section scan after any lookup answers what it answers without it -/
theorem C12_sections_after_lookup (d : D) (ss : List Nat) (r : Rng) (q : Query) (h : DInv d) :
    (secsOn (runQuery d q).1 ss r).2 = (secsOn d ss r).2 ∧
    (secsAt (runQuery d q).1 ss r).2 = (secsAt d ss r).2 := by
  have hk := runQuery_inv_strip h q
  rw [secsOn_snd _ ss r hk.1, secsOn_snd d ss r h, secsAt_snd _ ss r hk.1, secsAt_snd d ss r h]
  have : ∀ s, codeExtent (runQuery d q).1 s = codeExtent d s := fun s => codeExtent_of_strip hk.2 s
  simp only [this, and_self]

/-! ### concrete examples -/

/-- `exS` (two sections; section 21 owns the address-less interval 12) with interval 12
detached: section 20 spans [100, 132), section 21 spans [204, 220) -/
def exS2 : D := biMove exS 12 none true

theorem exS2_inv : DInv exS2 := biMove_inv exS 12 none true exS_inv

example : scanExtent exS2 20 = some (100, 32) ∧ scanExtent exS2 21 = some (204, 16) ∧
    (secExtent exS2 20).2 = some (100, 32) ∧ (secExtent exS2 21).2 = some (204, 16) := by decide

/-- section 21 has an interval without address in `exS`: no extent, never reported -/
example : scanExtent exS 21 = none ∧ (secExtent exS 21).2 = none ∧
    (secsOn exS [20, 21] ⟨0, 1000, 1⟩).2 = [20] := by decide

example : (secsOn exS2 [20, 21] ⟨0, 1000, 1⟩).2 = [20, 21] ∧
    (secsOn exS2 [21, 20] ⟨0, 1000, 1⟩).2 = [21, 20] ∧
    (secsOn exS2 [20, 21] ⟨131, 205, 1⟩).2 = [20, 21] ∧
    (secsOn exS2 [20, 21] ⟨132, 204, 1⟩).2 = [] ∧
    (secsOn exS2 [20, 21] ⟨210, 211, 1⟩).2 = [21] ∧
    (secsOn exS2 [20, 21] ⟨210, 210, 1⟩).2 = [] := by decide

/-- `sections_at` looks at the address only, and honours the step -/
example : (secsAt exS2 [20, 21] ⟨0, 1000, 1⟩).2 = [20, 21] ∧
    (secsAt exS2 [20, 21] ⟨101, 1000, 1⟩).2 = [21] ∧
    (secsAt exS2 [20, 21] ⟨0, 1000, 8⟩).2 = [] ∧
    (secsAt exS2 [20, 21] ⟨4, 1000, 8⟩).2 = [20, 21] ∧
    (secsAt exS2 [20, 21] ⟨4, 1000, 100⟩).2 = [21] := by decide

example (x : Nat) : x ∈ (secsOn exS2 [20, 21] ⟨131, 205, 1⟩).2 ↔ x ∈ [20, 21] ∧
    ∃ a z, scanExtent exS2 x = some (a, z) ∧ z ≠ 0 ∧ (131 : Int) < 205 ∧ a < 205 ∧ a + z > 131 :=
  C06_sections_on exS2 [20, 21] ⟨131, 205, 1⟩ exS2_inv (by decide) x

/-- the scan forces the pending index of section 21 (three events before, none after) -/
example : (exS2.sec? 21).map (fun s => (s.lz.tree.isSome, s.lz.events.length)) = some (false, 3) ∧
    ((secsOn exS2 [20, 21] ⟨0, 1000, 1⟩).1.sec? 21).map
      (fun s => (s.lz.tree.isSome, s.lz.events.length)) = some (true, 0) := by decide

/-- a listed id that is not a section (99, named by interval 10 after the move) is not
reported although the scan finds an extent for it: `hss` is needed -/
example : (secsOn (biMove exS2 10 (some 99) true) [99, 21] ⟨0, 1000, 1⟩).2 = [21] ∧
    scanExtent (biMove exS2 10 (some 99) true) 99 = some (100, 32) := by decide

/-- a section listed twice is reported twice: `_nodup` needs `ss.Nodup` -/
example : (secsOn exS2 [20, 20] ⟨0, 1000, 1⟩).2 = [20, 20] := by decide

/-- a section of zero-sized intervals only has an extent of size 0 and is never "on" any
range, but is "at" its address -/
example : scanExtent (biSet exS2 11 (some 204) 0) 21 = some (204, 0) ∧
    (secsOn (biSet exS2 11 (some 204) 0) [21] ⟨0, 1000, 1⟩).2 = [] ∧
    (secsAt (biSet exS2 11 (some 204) 0) [21] ⟨0, 1000, 1⟩).2 = [21] := by decide

end Gtirb.Index
