import GtirbProofs.Props.C16
/-! C16, `ir.modules.extend(vs)` / `ir.modules += vs` with *repeated* arguments (review `graph` P4).

`C16_extend_content` (C16.lean) assumes `vs.Nodup`. `extend([m, m])` and `+= [a, b, a]` are inside
the property's quantifier: `MutableSequence.extend` appends one by one, and appending a module that
is already in the list moves it to the end. So every argument ends up at the position of its *last*
occurrence: the list is the old list without the arguments, followed by the arguments with all but
the last occurrence of each dropped (`dedupLast`). Tested against `step` before proving (all
argument lists of length <= 4 over six modules in two IRs, among them `[a, b, a]` with `a` in the list). -/
namespace Gtirb.Forest

/-- keep the last occurrence of every element, in order -/
def dedupLast (vs : List Nat) : List Nat := (vs.reverse.eraseDups).reverse

example : dedupLast [1, 2, 1] = [2, 1] := by decide
example : dedupLast [3, 5, 3, 1, 5, 7, 2, 7] = [3, 1, 5, 2, 7] := by decide

/-- the recursive reading: an element is kept iff it does not occur later -/
theorem dedupLast_cons (a : Nat) (as : List Nat) :
    dedupLast (a :: as) = (if a ∈ as then [] else [a]) ++ dedupLast as := by
  unfold dedupLast
  rw [List.reverse_cons, List.eraseDups_append, List.reverse_append]
  congr 1
  by_cases ha : a ∈ as
  · have : [a].removeAll as.reverse = [] := by simp [List.removeAll, ha]
    rw [this, if_pos ha]; rfl
  · have : [a].removeAll as.reverse = [a] := by simp [List.removeAll, ha]
    rw [this, if_neg ha]; simp [List.eraseDups_cons]

@[simp] theorem dedupLast_nil : dedupLast [] = [] := rfl

theorem mem_dedupLast (vs : List Nat) (x : Nat) : x ∈ dedupLast vs ↔ x ∈ vs := by
  unfold dedupLast; simp

theorem dedupLast_nodup : ∀ (vs : List Nat), (dedupLast vs).Nodup
  | [] => List.nodup_nil
  | a :: as => by
    rw [dedupLast_cons]
    by_cases ha : a ∈ as
    · rw [if_pos ha]; exact dedupLast_nodup as
    · rw [if_neg ha]
      show (a :: dedupLast as).Nodup
      rw [List.nodup_cons, mem_dedupLast]
      exact ⟨ha, dedupLast_nodup as⟩

/-- without repetitions nothing is dropped -/
theorem dedupLast_of_nodup : ∀ (vs : List Nat), vs.Nodup → dedupLast vs = vs
  | [], _ => rfl
  | a :: as, h => by
    rw [List.nodup_cons] at h
    rw [dedupLast_cons, if_neg h.1, dedupLast_of_nodup as h.2]; rfl

/-- the contents of every module list after `extend`, repeated arguments allowed -/
theorem wr_extend_kids_dups {i : Nat} : ∀ (vs : List Nat) (g g' : G), ForestInv g →
    (∀ v ∈ vs, ChildOK g i .mods v) → foldE (fun g v => modAppend g i v) vs g = .ok g' →
    ∀ q s', g'.kids q s' =
      if q = i ∧ s' = .mods then (g.kids i .mods).filter (fun x => !(x ∈ vs)) ++ dedupLast vs
      else (g.kids q s').filter (fun x => !(x ∈ vs)) := by
  intro vs
  induction vs with
  | nil =>
    intro g g' _ _ hs q s'
    cases hs
    split
    · rename_i hh; rw [hh.1, hh.2]; simp
      exact (List.filter_eq_self.2 (fun _ _ => rfl)).symm
    · simp
      exact (List.filter_eq_self.2 (fun _ _ => rfl)).symm
  | cons a as ih =>
    intro g g' h hc hs q s'
    obtain ⟨g1, h1, h2⟩ := foldE_cons_ok hs
    have hca := hc a List.mem_cons_self
    have hst := modAppend_stable h1
    have hk := wr_modAppend_kids h hca.2.2.1 h1
    rw [ih g1 g' (h.modAppend hca h1)
      (fun v hv => (childOK_stable hst i .mods v).2 (hc v (List.mem_cons_of_mem _ hv))) h2 q s']
    by_cases hq : q = i ∧ s' = .mods
    · rw [if_pos hq, if_pos hq, hk i .mods, if_pos ⟨rfl, rfl⟩, List.filter_append,
        wr_filter_erase (h.nodup i .mods), dedupLast_cons, List.append_assoc]
      congr 1
      by_cases ha : a ∈ as
      · simp [ha]
      · simp [ha]
    · rw [if_neg hq, if_neg hq, hk q s', if_neg hq, wr_filter_erase (h.nodup q s')]

/-- P4. `extend(vs)` / `+= vs`, repeated arguments allowed: the list is the old list without the
arguments, followed by the arguments, each at the position of its last occurrence; every other
module list loses the arguments; membership is the union. -/
theorem C16_extend_content_dups (g g' : G) (i : Nat) (vs : List Nat) (h : ForestInv g)
    (hop : OpOK g (.extend i vs)) (hs : step g (.extend i vs) = .ok g') :
    g'.kids i .mods = (g.kids i .mods).filter (fun x => !(x ∈ vs)) ++ dedupLast vs ∧
    (∀ j, j ≠ i → g'.kids j .mods = (g.kids j .mods).filter (fun x => !(x ∈ vs))) ∧
    (∀ x, x ∈ g'.kids i .mods ↔ x ∈ g.kids i .mods ∨ x ∈ vs) := by
  have hk := wr_extend_kids_dups vs g g' h hop.2.2 hs
  have h1 : g'.kids i .mods = (g.kids i .mods).filter (fun x => !(x ∈ vs)) ++ dedupLast vs := by
    rw [hk i .mods, if_pos ⟨rfl, rfl⟩]
  refine ⟨h1, ?_, ?_⟩
  · intro j hj
    rw [hk j .mods, if_neg (fun hh => hj hh.1)]
  · intro x
    rw [h1, List.mem_append, List.mem_filter, mem_dedupLast]
    by_cases hx : x ∈ vs <;> simp [hx]

/-- the `Nodup` case of C16.lean is the special case -/
theorem C16_extend_content_of_dups (g g' : G) (i : Nat) (vs : List Nat) (h : ForestInv g)
    (hop : OpOK g (.extend i vs)) (hvs : vs.Nodup) (hs : step g (.extend i vs) = .ok g') :
    g'.kids i .mods = (g.kids i .mods).filter (fun x => !(x ∈ vs)) ++ vs := by
  rw [(C16_extend_content_dups g g' i vs h hop hs).1, dedupLast_of_nodup vs hvs]

/-! ### concrete: IR 0 with modules 1, 2, 3; IR 4 with modules 5, 6; detached module 7 -/

def extBase : List Op :=
  [.mkIR 100, .mk .module 101 [] (some 0), .mk .module 102 [] (some 0), .mk .module 103 [] (some 0),
   .mkIR 104, .mk .module 105 [] (some 4), .mk .module 106 [] (some 4), .mk .module 107 [] none]

/-- `ir0.modules += [m1, m2, m1]` with `m1`, `m2` already in the list: `[3] ++ [2, 1]` -/
example : (run {} extBase).kids 0 .mods = [1, 2, 3] ∧
    (run (run {} extBase) [.extend 0 [1, 2, 1]]).kids 0 .mods = [3, 2, 1] ∧
    ((run {} extBase).kids 0 .mods).filter (fun x => !(x ∈ [1, 2, 1])) ++ dedupLast [1, 2, 1] = [3, 2, 1] := by
  decide

/-- `ir0.modules.extend([m5, m7, m5])`: `m5` moves over from IR 4 once, after `m7` -/
example : (run (run {} extBase) [.extend 0 [5, 7, 5]]).kids 0 .mods = [1, 2, 3, 7, 5] ∧
    (run (run {} extBase) [.extend 0 [5, 7, 5]]).kids 4 .mods = [6] ∧
    (run (run {} extBase) [.extend 0 [5, 7, 5]]).par 5 = some 0 := by decide

end Gtirb.Forest
