import GtirbProofs.Props.C03
import GtirbProofs.Props.C10Full
/-! C03 for every reachable state, with the forest invariant supplied by C04. -/
namespace Gtirb.Forest

/-- In every state reachable through well-typed public operations during which
UUIDs stay pairwise distinct among the nodes attached to one IR at every moment
(`DistinctAlongFine`: at every operation boundary and between the elementary
moves of `update` / `extend` / `^=`), the UUID table of every IR holds exactly
the nodes attached to it. -/
theorem C03_history_full (ops : List Op) (hops : OpsOK {} ops) (hd : DistinctAlongFine {} ops) :
    CacheInv (run {} ops) :=
  C03_history_fine ops hops hd (fun pre hpre => C04_history pre (OpsOK_prefix pre ops {} hpre hops))

/-- lookup = fresh scan, in every reachable state -/
theorem C03_lookup_full (ops : List Op) (hops : OpsOK {} ops) (hd : DistinctAlongFine {} ops) (i u x : Nat) :
    getByUuid (run {} ops) i u = some x ↔
      (i < (run {} ops).n ∧ (run {} ops).kind i = .ir ∧ x < (run {} ops).n ∧
       irOf (run {} ops) x = some i ∧ (run {} ops).uuid x = u) :=
  C03_lookup_iff _ (C03_history_full ops hops hd) i u x

end Gtirb.Forest
