import GtirbProofs.Lemmas.CacheProofs
/-! Property C03: the per-IR UUID table always equals the scan.

`ir.get_by_uuid(u)` returns node `n` iff `n` is attached to `ir` (through containment) and
`n.uuid == u`; independently for every IR; after any sequence of operations; under the hypothesis
that the UUIDs of the nodes attached to one IR at the same time are pairwise distinct.

The hypothesis speaks about *every moment*. `Distinct g`/`Distinct g'` (before and after an
operation) is enough for every operation except `^=` (`Op.ixor`), which mixes detaching and attaching
of different nodes in one loop: `C03_ixor_counterexample` below. For `Op.ixor` the intermediate
moments are demanded explicitly (`DistinctFine`). The `KeyError` of `del cache[uuid]` is excluded from
the pre-state alone for every operation that attaches at most one subtree; for the loops
`update/extend/ixor` it needs the intermediate moments as well (`C03_update_keyerror_example`). -/
namespace Gtirb.Forest

theorem C03_init : CacheInv ({} : G) := by
  intro i u x
  constructor
  · intro h; cases h
  · intro h; exact absurd h.1 (Nat.not_lt_zero i)

/-- lookup = fresh scan, per IR -/
theorem C03_lookup_iff (g : G) (hc : CacheInv g) (i u x : Nat) :
    getByUuid g i u = some x ↔ (i < g.n ∧ g.kind i = .ir ∧ x < g.n ∧ irOf g x = some i ∧ g.uuid x = u) :=
  hc i u x

theorem C03_lookup_none (g : G) (hc : CacheInv g) (i u : Nat) :
    getByUuid g i u = none ↔ ¬ ∃ x, x < g.n ∧ irOf g x = some i ∧ g.uuid x = u ∧ i < g.n ∧ g.kind i = .ir := by
  constructor
  · rintro h ⟨x, h1, h2, h3, h4, h5⟩
    have := (hc i u x).2 ⟨h4, h5, h1, h2, h3⟩
    unfold getByUuid at h
    rw [h] at this; cases this
  · intro h
    cases hx : getByUuid g i u with
    | none => rfl
    | some x =>
      have := (hc i u x).1 hx
      exact absurd ⟨x, this.2.2.1, this.2.2.2.1, this.2.2.2.2, this.1, this.2.1⟩ h

/-- no leakage between IRs: what IR i's table returns is rooted at i -/
theorem C03_no_leak (g : G) (hc : CacheInv g) (i j u x : Nat) (h : getByUuid g i u = some x)
    (hj : irOf g x = some j) : j = i := by
  have := ((hc i u x).1 h).2.2.2.1
  rw [hj] at this; exact Option.some.inj this

/-- one public operation keeps the table exact; all operations, with the hypothesis also at the
moments inside the multi-attach loops (`DistinctFine`, `True` for all but `update/extend/ixor`) -/
theorem C03_step_fine (g g' : G) (op : Op) (hf : ForestInv g) (hc : CacheInv g)
    (hd : Distinct g) (hd' : Distinct g') (hop : OpOK g op) (hfine : DistinctFine g op)
    (hs : step g op = .ok g') : CacheInv g' := by
  rcases cache_step_good g op hf hc hd hop hfine with ⟨g1, h1, h2⟩ | ⟨e, he, _⟩
  · rw [h1] at hs; cases hs; exact h2 hd'
  · rw [he] at hs; cases hs

/-- one public operation keeps the table exact: every operation except `^=`, from distinctness
before and after the operation only.
(Intended full statement, without `hx`, is false for `Op.ixor`: `C03_ixor_counterexample`.) -/
theorem C03_step_partial (g g' : G) (op : Op) (hf : ForestInv g) (_hf' : ForestInv g') (hc : CacheInv g)
    (hd : Distinct g) (hd' : Distinct g') (hop : OpOK g op) (hx : cacheNotIxor op = true)
    (hs : step g op = .ok g') : CacheInv g' :=
  C03_step_fine g g' op hf hc hd hd' hop (cache_distinctFine_of_ends hf hd hd' hop hs hx) hs

/-- `^=`: the table stays exact if the UUIDs are distinct at every moment of the loop -/
theorem C03_step_ixor (g g' : G) (p : Nat) (s : Slot) (vs : List Nat) (hf : ForestInv g) (hc : CacheInv g)
    (hd' : Distinct g') (hop : OpOK g (.ixor p s vs))
    (hfold : cache_DistinctFold (cache_ixorStep p s) g vs)
    (hs : step g (.ixor p s vs) = .ok g') : CacheInv g' := by
  rcases cache_step_ixor hf hc hop hfold with ⟨g1, h1, h2⟩ | ⟨e, he, _⟩
  · rw [h1] at hs; cases hs; exact h2 hd'
  · rw [he] at hs; cases hs

/-- `^=` with the hypothesis in the other formulation: the UUIDs are distinct in the state reached
after every proper prefix of the loop (and after the whole loop: `hd'`) -/
theorem C03_step_ixor_prefixes (g g' : G) (p : Nat) (s : Slot) (vs : List Nat) (hf : ForestInv g)
    (hc : CacheInv g) (hd' : Distinct g') (hop : OpOK g (.ixor p s vs))
    (hpre : ∀ vs' gk, vs' <+: vs → vs' ≠ vs → foldE (cache_ixorStep p s) vs' g = .ok gk → Distinct gk)
    (hs : step g (.ixor p s vs) = .ok g') : CacheInv g' :=
  C03_step_ixor g g' p s vs hf hc hd' hop (cache_distinctFold_of_prefixes vs g hpre) hs

/-- the `KeyError` of `del cache[uuid]` is never raised; all operations, hypothesis also inside the loops -/
theorem C03_no_cache_keyerror_fine (g : G) (op : Op) (hf : ForestInv g) (hc : CacheInv g) (hd : Distinct g)
    (hop : OpOK g op) (hfine : DistinctFine g op) : step g op ≠ .error .cacheKeyError := by
  rcases cache_step_good g op hf hc hd hop hfine with ⟨g1, h1, _⟩ | ⟨e, he, hne⟩
  · rw [h1]; intro h; cases h
  · rw [he]; intro h; cases h; exact hne rfl

/-- the `KeyError` of `del cache[uuid]` is never raised, from the pre-state alone: every operation
that attaches at most one subtree (all but `update/extend/ixor`).
(Intended full statement, without `h1`, is false: `C03_update_keyerror_example`.) -/
theorem C03_no_cache_keyerror_partial (g : G) (op : Op) (hf : ForestInv g) (hc : CacheInv g)
    (hd : Distinct g) (hop : OpOK g op) (h1 : cacheSingleAttach op = true) :
    step g op ≠ .error .cacheKeyError :=
  C03_no_cache_keyerror_fine g op hf hc hd hop (cache_distinctFine_single h1)

/-- generalised history theorem (any start state) -/
theorem C03_history_from (ops : List Op) : ∀ (g : G), CacheInv g → OpsOK g ops → DistinctAlongFine g ops →
    (∀ (pre : List Op), pre <+: ops → ForestInv (run g pre)) → CacheInv (run g ops) := by
  induction ops with
  | nil => intro g hc _ _ _; exact hc
  | cons op ops ih =>
    intro g hc hops hd hforest
    obtain ⟨hop, hops'⟩ := hops
    obtain ⟨hdg, hfine, hd'⟩ := hd
    have hf : ForestInv g := hforest [] (List.nil_prefix)
    show CacheInv (run (match step g op with | .ok g' => g' | .error _ => g) ops)
    have hd1 : Distinct (match step g op with | .ok g' => g' | .error _ => g) := by
      cases ops with
      | nil => exact hd'
      | cons _ _ => exact hd'.1
    apply ih _ _ hops' hd'
    · intro pre hpre
      have := hforest (op :: pre) (List.cons_prefix_cons.2 ⟨rfl, hpre⟩)
      exact this
    · cases hs : step g op with
      | error e => exact hc
      | ok g' =>
        rw [hs] at hd1
        exact C03_step_fine g g' op hf hc hdg hd1 hop hfine hs

/-- every reachable state, given that the forest invariant holds along the history (C04) and the
UUIDs are distinct at every moment (`DistinctAlongFine` = `DistinctAlong` plus the moments inside
`update/extend/ixor`) -/
theorem C03_history_fine (ops : List Op) (hops : OpsOK {} ops) (hd : DistinctAlongFine {} ops)
    (hforest : ∀ (pre : List Op), pre <+: ops → ForestInv (run {} pre)) : CacheInv (run {} ops) :=
  C03_history_from ops {} C03_init hops hd hforest

/-- generalised partial history theorem (any start state) -/
theorem C03_history_partial_from (ops : List Op) : ∀ (g : G), CacheInv g → OpsOK g ops → DistinctAlong g ops →
    (∀ op, op ∈ ops → cacheNotIxor op = true) →
    (∀ (pre : List Op), pre <+: ops → ForestInv (run g pre)) → CacheInv (run g ops) := by
  induction ops with
  | nil => intro g hc _ _ _ _; exact hc
  | cons op ops ih =>
    intro g hc hops hd hx hforest
    obtain ⟨hop, hops'⟩ := hops
    obtain ⟨hdg, hd'⟩ := hd
    have hf : ForestInv g := hforest [] (List.nil_prefix)
    have hf1 : ForestInv (match step g op with | .ok g' => g' | .error _ => g) :=
      hforest [op] (List.cons_prefix_cons.2 ⟨rfl, List.nil_prefix⟩)
    show CacheInv (run (match step g op with | .ok g' => g' | .error _ => g) ops)
    have hd1 : Distinct (match step g op with | .ok g' => g' | .error _ => g) := by
      cases ops with
      | nil => exact hd'
      | cons _ _ => exact hd'.1
    apply ih _ _ hops' hd' (fun o ho => hx o (List.mem_cons_of_mem _ ho))
    · intro pre hpre
      exact hforest (op :: pre) (List.cons_prefix_cons.2 ⟨rfl, hpre⟩)
    · cases hs : step g op with
      | error e => exact hc
      | ok g' =>
        rw [hs] at hd1 hf1
        exact C03_step_partial g g' op hf hf1 hc hdg hd1 hop (hx op List.mem_cons_self) hs

/-- every reachable state of a history without `^=`, from `DistinctAlong` (distinctness between the
operations) and the forest invariant along the history (C04).
(Intended full statement, without `hx`, is false: `C03_ixor_counterexample`.) -/
theorem C03_history_partial (ops : List Op) (hops : OpsOK {} ops) (hd : DistinctAlong {} ops)
    (hx : ∀ op, op ∈ ops → cacheNotIxor op = true)
    (hforest : ∀ (pre : List Op), pre <+: ops → ForestInv (run {} pre)) : CacheInv (run {} ops) :=
  C03_history_partial_from ops {} C03_init hops hd hx hforest

/-! ### why the hypotheses cannot be weakened: concrete states -/

/-- decidable check of `Distinct` -/
def cacheDistinctB (g : G) : Bool :=
  (List.range g.n).all fun a => (List.range g.n).all fun b =>
    (irOf g a).isNone || irOf g a != irOf g b || g.uuid a != g.uuid b || a == b

theorem cacheDistinctB_sound {g : G} (h : cacheDistinctB g = true) : Distinct g := by
  intro a b i ha hb hia hib hab
  unfold cacheDistinctB at h
  rw [List.all_eq_true] at h
  have h1 := h a (List.mem_range.2 ha)
  rw [List.all_eq_true] at h1
  have h2 := h1 b (List.mem_range.2 hb)
  simp [hia, hib, hab] at h2
  exact h2

def cacheIsOk : Except Exc G → Bool
  | .ok _ => true
  | .error _ => false

def cacheIsKeyError : Except Exc G → Bool
  | .error .cacheKeyError => true
  | _ => false

/-- IR 0, module 1, symbol 2 (uuid 5) in the module, symbol 3 (uuid 5) detached -/
def cacheCexOps : List Op :=
  [.mkIR 100, .mk .module 101 [] (some 0), .mkSym 5 0 .none (some 1), .mkSym 5 0 .none none]

/-- `syms ^= {3, 2}` iterated as 3, 2: the UUIDs are distinct before and after, the operation
succeeds, yet afterwards node 3 is attached to IR 0 with uuid 5 and `get_by_uuid(5)` finds nothing.
Between the two steps both symbols with uuid 5 are in the IR: the property's hypothesis is violated at
that moment, which `Distinct` before/after does not see. -/
theorem C03_ixor_counterexample :
    let g := run {} cacheCexOps
    let op := Op.ixor 1 .syms [3, 2]
    let g' := run g [op]
    cacheIsOk (step g op) = true ∧ OpOK g op ∧ Distinct g ∧ Distinct g' ∧
      getByUuid g 0 5 = some 2 ∧ getByUuid g' 0 5 = none ∧ irOf g' 3 = some 0 ∧ g'.uuid 3 = 5 ∧
      ¬ CacheInv g' := by
  intro g op g'
  have h1 : cacheIsOk (step g op) = true := by decide
  have h2 : OpOK g op := by
    refine ⟨by decide, by decide, ?_⟩
    intro v hv
    have : v = 3 ∨ v = 2 := by simpa using hv
    rcases this with rfl | rfl <;> exact ⟨by decide, by decide, by decide, by decide⟩
  have h3 : Distinct g := cacheDistinctB_sound (by decide)
  have h4 : Distinct g' := cacheDistinctB_sound (by decide)
  have h5 : getByUuid g 0 5 = some 2 := by decide
  have h6 : getByUuid g' 0 5 = none := by decide
  have h7 : irOf g' 3 = some 0 := by decide
  have h8 : g'.uuid 3 = 5 := by decide
  refine ⟨h1, h2, h3, h4, h5, h6, h7, h8, ?_⟩
  intro hc
  have := (hc 0 5 3).2 ⟨by decide, by decide, by decide, h7, h8⟩
  rw [show g'.cache 0 5 = none from h6] at this
  cases this

/-- the same state, `syms ^= [3, 2, 3]`: the `KeyError` of `del cache[uuid]` -/
theorem C03_ixor_keyerror_example :
    cacheIsKeyError (step (run {} cacheCexOps) (.ixor 1 .syms [3, 2, 3])) = true := by decide

/-- a detached section 4 that holds two intervals with equal UUIDs; `secs.update([4, 4])` on a module
inside an IR raises the `KeyError` although the UUIDs are distinct in the state before (nothing of
the section is attached); `secs.update([4])` is fine -/
def cacheCexOps2 : List Op :=
  [.mkIR 100, .mk .module 101 [] (some 0), .mk .interval 7 [] none, .mk .interval 7 [] none,
   .mk .section 8 [(.bis, [2, 3])] none]

theorem C03_update_keyerror_example :
    let g := run {} cacheCexOps2
    Distinct g ∧ cacheIsKeyError (step g (.update 1 .secs [4, 4])) = true ∧
      cacheIsOk (step g (.update 1 .secs [4])) = true := by
  intro g
  exact ⟨cacheDistinctB_sound (by decide), by decide, by decide⟩

end Gtirb.Forest
