import GtirbProofs.Lemmas.CacheProofs
/-! Property C03: the per-IR UUID table always equals the scan. -/
namespace Gtirb.Forest

theorem C03_init : CacheInv ({} : G) := by
  intro i u x
  constructor
  · intro h; cases h
  · intro h; exact absurd h.1 (Nat.not_lt_zero i)

/-- lookup = fresh scan, per IR -/
theorem C03_lookup_iff (g : G) (hc : CacheInv g) (i u x : Nat) :
    getByUuid g i u = some x ↔ (i < g.n ∧ g.kind i = .ir ∧ x < g.n ∧ irOf g x = some i ∧ g.uuid x = u) :=
  hc i u x

theorem C03_lookup_none (g : G) (hc : CacheInv g) (i u : Nat) :
    getByUuid g i u = none ↔ ¬ ∃ x, x < g.n ∧ irOf g x = some i ∧ g.uuid x = u ∧ i < g.n ∧ g.kind i = .ir := by
  constructor
  · rintro h ⟨x, h1, h2, h3, h4, h5⟩
    have := (hc i u x).2 ⟨h4, h5, h1, h2, h3⟩
    unfold getByUuid at h
    rw [h] at this; cases this
  · intro h
    cases hx : getByUuid g i u with
    | none => rfl
    | some x =>
      have := (hc i u x).1 hx
      exact absurd ⟨x, this.2.2.1, this.2.2.2.1, this.2.2.2.2, this.1, this.2.1⟩ h

/-- no leakage between IRs: what IR i's table returns is rooted at i -/
theorem C03_no_leak (g : G) (hc : CacheInv g) (i j u x : Nat) (h : getByUuid g i u = some x)
    (hj : irOf g x = some j) : j = i := by
  have := ((hc i u x).1 h).2.2.2.1
  rw [hj] at this; exact Option.some.inj this

end Gtirb.Forest
