import GtirbProofs.Props.C12
/-! C06: `byte_intervals_on/at` on a section equal the scan; a section's
address/size are none unless it has at least one interval and all have
addresses, else lowest address and distance to the highest end. -/
namespace Gtirb.Index

/-- Intended statement without `hs`; false of the model for a section id not in
`d.secs` that intervals still name (the lookup answers `[]`). -/
theorem C06_bis_on (d : D) (s : Nat) (r : Rng) (h : DInv d) (hs : (d.sec? s).isSome) :
    (∀ x, x ∈ (secBisOn d s r).2 ↔ x ∈ scanBisOn d s r) ∧ (secBisOn d s r).2.Nodup := by
  refine ⟨fun x => ?_, nodup_secBisOn h s r⟩
  rw [mem_secBisOn h, hs]; simp

theorem C06_bis_at (d : D) (s : Nat) (r : Rng) (h : DInv d) (hs : (d.sec? s).isSome) :
    (∀ x, x ∈ (secBisAt d s r).2 ↔ x ∈ scanBisAt d s r) ∧ (secBisAt d s r).2.Nodup := by
  refine ⟨fun x => ?_, nodup_secBisAt h s r⟩
  rw [mem_secBisAt h, hs]; simp

theorem C06_bis_on_any (d : D) (s : Nat) (r : Rng) (h : DInv d) (x : Nat) :
    x ∈ (secBisOn d s r).2 ↔ (d.sec? s).isSome ∧ x ∈ scanBisOn d s r :=
  mem_secBisOn h s r x

theorem C06_bis_at_any (d : D) (s : Nat) (r : Rng) (h : DInv d) (x : Nat) :
    x ∈ (secBisAt d s r).2 ↔ (d.sec? s).isSome ∧ x ∈ scanBisAt d s r :=
  mem_secBisAt h s r x

/-- `Section.address` / `Section.size`: with at least one interval and all
intervals addressed, the lowest address `lo` and `hi - lo` for the highest end
`hi`; `none` otherwise. -/
theorem C06_extent (d : D) (s : Nat) (h : DInv d) (hs : ∃ sc ∈ d.secs, sc.id = s) :
    ((d.bisOf s ≠ [] ∧ ∀ x ∈ d.bisOf s, x.addr.isSome = true) →
      ∃ lo hi : Nat, (∃ x ∈ d.bisOf s, x.addr = some lo) ∧
        (∀ x ∈ d.bisOf s, ∀ a, x.addr = some a → lo ≤ a) ∧
        (∃ x ∈ d.bisOf s, ∃ a, x.addr = some a ∧ a + x.size = hi) ∧
        (∀ x ∈ d.bisOf s, ∀ a, x.addr = some a → a + x.size ≤ hi) ∧
        (secExtent d s).2 = some ((lo : Int), (hi : Int) - lo)) ∧
    (¬(d.bisOf s ≠ [] ∧ ∀ x ∈ d.bisOf s, x.addr.isSome = true) → (secExtent d s).2 = none) :=
  secExtent_spec h (sec?_isSome_of_mem hs)

/-- an unknown section has no extent -/
theorem C06_extent_unknown (d : D) (s : Nat) (hs : d.sec? s = none) : (secExtent d s).2 = none :=
  secExtent_none hs

/-! ### concrete examples -/

example : (secBisOn exD 20 ⟨100, 107, 1⟩).2 = [10] ∧ scanBisOn exD 20 ⟨100, 107, 1⟩ = [10] := by decide
example : (secExtent exD 20).2 = some (100, 32) := by decide
/-- an interval without address makes the extent `none` -/
example : (secExtent (biSet exD 10 none 32) 20).2 = none := by decide

end Gtirb.Index
