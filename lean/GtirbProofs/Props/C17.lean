import GtirbProofs.Lemmas.ProtoProofs
/-! C17 (parts): what the reader rejects and accepts.

A file whose first five bytes are not `GTIRB`, or whose version byte (offset 7) differs,
is rejected with the header error, whatever follows (inputs shorter than 8 bytes
included; bytes 5 and 6 are ignored); a message whose `version` field differs is
rejected with `ValueError`; every file `save` produces from a self-contained IR is
accepted; the reader is total (it is a Lean function: every input has an outcome).

What is accepted satisfies the structural guarantees at the value level: 16-byte node
UUIDs, the version, stored bytes within the interval size (`C17_accepted_wf_partial`),
typed references (`C17_accepted_refs`), repetition-free flag / attribute / edge sets
(`C17_accepted_sets`), and - with the one duplicate the staged reader lets through
excluded (`C17_accepted_dup_counterexample`) and distinct map keys - pairwise distinct
node UUIDs and `wfir` again, so it can be saved and loaded once more
(`C17_accepted_nodup_partial`, `C17_accepted_wfir_partial`, `C17_accepted_reload_partial`). -/
namespace Gtirb.Msg
open Gtirb

theorem C17_header_magic (parse : Bytes → Option MIR) (bs : Bytes)
    (h : bs.take 5 ≠ Generated.magic) : loadBytes parse bs = .error .header := by
  unfold loadBytes
  rw [if_pos h]

/-- includes inputs shorter than 8 bytes -/
theorem C17_header_version (parse : Bytes → Option MIR) (bs : Bytes)
    (h : (bs.drop 7).take 1 ≠ [UInt8.ofNat Generated.protobufVersion]) :
    loadBytes parse bs = .error .header := by
  unfold loadBytes
  by_cases h1 : bs.take 5 ≠ Generated.magic
  · rw [if_pos h1]
  · rw [if_neg h1, if_pos h]

theorem C17_header_short (parse : Bytes → Option MIR) (bs : Bytes) (h : bs.length < 8) :
    loadBytes parse bs = .error .header := by
  apply C17_header_version
  have : bs.drop 7 = [] := List.drop_eq_nil_of_le (by omega)
  simp [this]

/-- bytes 5 and 6 are ignored -/
theorem C17_header_ignores_reserved (parse : Bytes → Option MIR) (a b : UInt8) (rest : Bytes) :
    loadBytes parse (Generated.magic ++ [a, b, UInt8.ofNat Generated.protobufVersion] ++ rest)
      = loadBytes parse (Generated.magic ++ [0, 0, UInt8.ofNat Generated.protobufVersion] ++ rest) := by
  have hlen : Generated.magic.length = 5 := rfl
  have t5 : ∀ c : Bytes, (Generated.magic ++ c ++ rest).take 5 = Generated.magic := by
    intro c
    rw [List.append_assoc, List.take_append_of_le_length (by simp [hlen])]
    exact List.take_of_length_le (by simp [hlen])
  have d7 : ∀ x y z : UInt8, (Generated.magic ++ [x, y, z] ++ rest).drop 7 = z :: rest := by
    intro x y z; simp [Generated.magic]
  have d8 : ∀ x y z : UInt8, (Generated.magic ++ [x, y, z] ++ rest).drop 8 = rest := by
    intro x y z; simp [Generated.magic]
  simp only [loadBytes, t5, d7, d8]

/-- a well-formed header hands the rest of the file to the message parser and reader -/
theorem C17_header_ok (parse : Bytes → Option MIR) (a b : UInt8) (rest : Bytes) :
    loadBytes parse (Generated.magic ++ [a, b, UInt8.ofNat Generated.protobufVersion] ++ rest)
      = match parse rest with
        | none => .error .parse
        | some m => match fromMsg m with
          | .ok v => .ok v
          | .error e => .error (.msg e) :=
  loadBytes_header parse a b rest

/-- both the bad-uuid and the bad-version path are `ValueError` -/
theorem C17_version_field (m : MIR) (h : m.version ≠ Generated.protobufVersion) :
    fromMsg m = .error .valueError := by
  unfold fromMsg checkUuid
  by_cases h16 : m.uuid.length = 16
  · simp [h16, h]
  · simp [h16]

theorem C17_uuid_length (m : MIR) (h : m.uuid.length ≠ 16) : fromMsg m = .error .valueError := by
  unfold fromMsg checkUuid
  simp [h]

/-- the reader is total: every message has exactly one outcome, an IR or one of the four
error classes (`fromMsg` is a total Lean function; this states the case split) -/
theorem C17_total (m : MIR) : (∃ v, fromMsg m = .ok v) ∨ (∃ e, fromMsg m = .error e) := by
  cases fromMsg m with
  | ok v => exact .inl ⟨v, rfl⟩
  | error e => exact .inr ⟨e, rfl⟩

theorem C17_total_bytes (parse : Bytes → Option MIR) (bs : Bytes) :
    (∃ v, loadBytes parse bs = .ok v) ∨ (∃ e, loadBytes parse bs = .error e) := by
  cases loadBytes parse bs with
  | ok v => exact .inl ⟨v, rfl⟩
  | error e => exact .inr ⟨e, rfl⟩

/-- whatever the reader accepts satisfies the structural guarantees at the value level -/
theorem C17_accepted_wf_partial (m : MIR) (v : IRV) (h : fromMsg m = .ok v) :
    (∀ u ∈ v.nodeUuids, u.length = 16) ∧ v.version = Generated.protobufVersion ∧
    (∀ mod ∈ v.modules, ∀ s ∈ mod.sections, ∀ x ∈ s.intervals, x.contents.length ≤ x.size) := by
  obtain ⟨_, _, h3, h4, _, _, h7, _⟩ := fromMsg_ok h
  refine ⟨?_, h3, ?_⟩
  · intro u hu
    simp only [IRV.nodeUuids, List.mem_cons, List.mem_flatMap] at hu
    rcases hu with rfl | ⟨mv, hmv, hu⟩
    · exact h4
    · obtain ⟨mm, _, e, hr⟩ := h7.mem_left hmv
      exact hr.all16 u hu
  · intro mv hmv s hs x hx
    obtain ⟨mm, _, e, hr⟩ := h7.mem_left hmv
    exact ((hr.sectionsGood s hs).2 x hx).1

/-- typed references: in whatever the reader accepts, every entry point is a code block,
every symbol referent a block or proxy, every expression symbol a symbol, each of the same
or an earlier module (`pre` = the modules before `mod` in `ir.modules`); every edge endpoint
is a code block or proxy of the IR and every edge label type a member of `EdgeType` -/
theorem C17_accepted_refs (m : MIR) (v : IRV) (h : fromMsg m = .ok v) :
    (∀ pre mod post, v.modules = pre ++ mod :: post →
      (∀ u, mod.entryPoint = some u → u ∈ pre.flatMap (·.codeUuids) ++ mod.codeUuids)
      ∧ (∀ s ∈ mod.symbols, ∀ u, s.payload = .referent u →
          u ∈ pre.flatMap (·.blockUuids) ++ mod.blockUuids)
      ∧ (∀ s ∈ mod.sections, ∀ x ∈ s.intervals, ∀ e ∈ x.exprs, ∀ u ∈ exprSyms e.expr,
          u ∈ (pre.flatMap fun e => e.symbols.map (·.uuid)) ++ mod.symbols.map (·.uuid)))
    ∧ (∀ e ∈ v.edges,
        e.src ∈ (v.modules.flatMap fun m => m.codeUuids ++ m.proxies)
        ∧ e.dst ∈ (v.modules.flatMap fun m => m.codeUuids ++ m.proxies)
        ∧ (∀ l, e.label = some l → pyEnumHas "EdgeType" l.type = true)) :=
  ⟨fromMsg_modRefs h, fromMsg_edges h⟩

/-- the sets the reader builds have no repetitions: section flags, expression attributes, edges -/
theorem C17_accepted_sets (m : MIR) (v : IRV) (h : fromMsg m = .ok v) :
    v.edges.Nodup
    ∧ (∀ mod ∈ v.modules, ∀ s ∈ mod.sections, s.flags.Nodup ∧
        (∀ f ∈ s.flags, pyEnumHas "SectionFlag" f = true) ∧
        ∀ x ∈ s.intervals, ∀ e ∈ x.exprs, e.attrs.Nodup) := by
  obtain ⟨_, _, _, _, _, h6, h7, _⟩ := fromMsg_ok h
  refine ⟨h6 ▸ nodup_dedupEdges _, ?_⟩
  intro mv hmv s hs
  obtain ⟨mm, _, e, hr⟩ := h7.mem_left hmv
  obtain ⟨_, _, _, _, _, _, _, _, _, _, _, _, _, _, _, ⟨secs, hs1, hs2⟩, hex, _⟩ := hr
  have hflags : ∀ s ∈ mv.sections, SecFlagsGood s := by
    apply strip_transfer (P := SecFlagsGood) (fun s => Iff.rfl) hs2
    intro s hs
    obtain ⟨ms, _, hr⟩ := hs1.mem_left hs
    exact hr.flagsGood
  refine ⟨(hflags s hs).2, (hflags s hs).1, ?_⟩
  intro x hx e' he
  obtain ⟨ms, _, hr1⟩ := hex.mem_left hs
  obtain ⟨mx, _, hr2⟩ := hr1.mem_left hx
  obtain ⟨kv, _, hr3⟩ := hr2.mem_left he
  exact hr3.2.1 ▸ nodup_dedupNat _

/-- node UUIDs of an accepted IR are pairwise distinct, *provided* no interval shares the
UUID of one of its own blocks. That one duplicate passes the staged reader (the interval's
UUID is checked before its blocks are decoded and registered after them), see
`C17_accepted_dup_counterexample`; every other repetition is rejected. -/
theorem C17_accepted_nodup_partial (m : MIR) (v : IRV) (h : fromMsg m = .ok v)
    (hside : ∀ mod ∈ v.modules, ∀ s ∈ mod.sections, ∀ x ∈ s.intervals, x.uuid ∉ x.blockUuids) :
    v.nodeUuids.Nodup :=
  fromMsg_nodup h hside
-- intended: `fromMsg m = .ok v → v.nodeUuids.Nodup`; false of the model (and of the loader):

/-- a message whose interval carries the UUID of its own data block -/
def dupMsg : MIR :=
  { uuid := List.replicate 15 0 ++ [1], version := Generated.protobufVersion, auxData := [],
    cfg := ⟨[], []⟩,
    modules := [
      { uuid := List.replicate 15 0 ++ [2], binaryPath := "", preferredAddr := 0, rebaseDelta := 0,
        fileFormat := 0, isa := 0, name := "m", symbols := [], proxies := [], auxData := [],
        entryPoint := [], byteOrder := 0,
        sections := [
          { uuid := List.replicate 15 0 ++ [3], name := "s", sectionFlags := [],
            byteIntervals := [
              { uuid := List.replicate 15 0 ++ [4], hasAddress := false, address := 0, size := 0,
                contents := [], symbolicExpressions := [],
                blocks := [⟨0, some (.data ⟨List.replicate 15 0 ++ [4], 0⟩)⟩] }] }] }] }

theorem C17_accepted_dup_counterexample :
    ∃ v, fromMsg dupMsg = .ok v ∧ ¬ v.nodeUuids.Nodup ∧ wfir v = false
      ∧ fromMsg (toMsg v) = .ok v := by
  refine ⟨_, rfl, ?_, by decide, by rfl⟩
  rw [← nodupB_iff]
  decide

/-- whatever the reader accepts is a self-contained IR again, provided no interval shares
the UUID of one of its own blocks and map keys are distinct (AuxData names per IR / module,
expression offsets per interval: always so for parsed protobuf maps) -/
theorem C17_accepted_wfir_partial (m : MIR) (v : IRV) (h : fromMsg m = .ok v)
    (hside : ∀ mod ∈ v.modules, ∀ s ∈ mod.sections, ∀ x ∈ s.intervals, x.uuid ∉ x.blockUuids)
    (hkeys : (v.aux.map (·.key)).Nodup ∧ ∀ mod ∈ v.modules, (mod.aux.map (·.key)).Nodup ∧
      ∀ s ∈ mod.sections, ∀ x ∈ s.intervals, (x.exprs.map (·.key)).Nodup) :
    wfir v = true :=
  wfir_of_fromMsg h hside hkeys

/-- hence the loaded IR can be saved and loaded again, reproducing itself -/
theorem C17_accepted_reload_partial (m : MIR) (v : IRV) (h : fromMsg m = .ok v)
    (hside : ∀ mod ∈ v.modules, ∀ s ∈ mod.sections, ∀ x ∈ s.intervals, x.uuid ∉ x.blockUuids)
    (hkeys : (v.aux.map (·.key)).Nodup ∧ ∀ mod ∈ v.modules, (mod.aux.map (·.key)).Nodup ∧
      ∀ s ∈ mod.sections, ∀ x ∈ s.intervals, (x.exprs.map (·.key)).Nodup) :
    fromMsg (toMsg v) = .ok v :=
  fromMsg_toMsg_of_wfir v (wfir_of_fromMsg h hside hkeys)

/-- every file produced by `save` from a self-contained IR is accepted -/
theorem C17_accepts_saved (serialize : MIR → Bytes) (parse : Bytes → Option MIR)
    (hps : ∀ m, parse (serialize m) = some m) (v : IRV) (h : wfir v = true) :
    ∃ v', loadBytes parse (saveBytes serialize v) = .ok v' :=
  ⟨v, loadBytes_ok (hps _) (fromMsg_toMsg_of_wfir v h)⟩

end Gtirb.Msg
