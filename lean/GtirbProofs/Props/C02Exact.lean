import GtirbProofs.Props.C02Accepts
import GtirbProofs.Props.C17
import GtirbProofs.Props.C01
/-! C02, reader direction, in one statement (review `msg`, C02 proposals 1-3).

* `normMsg m` is the message with exactly the information the reader *ignores or merges*
  removed: `address` without `has_address` is dropped (proto3 default 0), repeated
  section flags / expression attributes / CFG edges are kept once (first occurrence, in
  order), and the CFG vertex list (which the reader never looks at) is recomputed from
  the modules. Everything else is untouched.
* `C02_reader_exact : fromMsg m = .ok v → toMsg v = normMsg m`: what the reader returns,
  written out again, is the normal form of what it read. Nothing is lost (every field of
  `normMsg m` is a field of `toMsg v`), nothing is invented. It subsumes the stage lemmas
  `C02_reader_*` of Props/C02.lean.
* `C02_accepted_closed`, `C02_accepts_iff_closed`: for messages with pairwise distinct node
  UUIDs the accepted set is *exactly* `closedMsg` (converse of `C02_reader_accepts`).
* `structOK`: "everything except the references is fine" (used by C09Errors).
* `C02_ref_uuid_16`: every reference field the writer emits for a self-contained IR is a
  16-byte UUID. -/
namespace Gtirb.Msg
open Gtirb

/-! ### the normal form -/

/-- keep the first occurrence of every element, in order (the reader's set semantics) -/
def dedupM {α : Type} [DecidableEq α] (l : List α) : List α :=
  l.foldl (fun acc x => if x ∈ acc then acc else acc ++ [x]) []

def normExpr (e : MSymExpr) : MSymExpr := { e with attributeFlags := dedupNat e.attributeFlags }

def normInterval (x : MByteInterval) : MByteInterval :=
  { x with address := if x.hasAddress then x.address else 0,
           symbolicExpressions := x.symbolicExpressions.map fun kv => (kv.1, normExpr kv.2) }

def normSection (s : MSection) : MSection :=
  { s with sectionFlags := dedupNat s.sectionFlags, byteIntervals := s.byteIntervals.map normInterval }

def normModule (m : MModule) : MModule := { m with sections := m.sections.map normSection }

def normMsg (m : MIR) : MIR :=
  { m with modules := m.modules.map normModule,
           cfg := { vertices := m.modules.flatMap fun mm => mm.codeUuids ++ mm.proxies,
                    edges := dedupM m.cfg.edges } }

/-! ### helper lemmas -/

theorem All2.map_eq {α β γ : Type} {R : α → β → Prop} {f : α → γ} {g : β → γ}
    {as : List α} {bs : List β} (h : All2 R as bs) (hfg : ∀ a b, R a b → f a = g b) :
    as.map f = bs.map g := by
  induction h with
  | nil => rfl
  | cons hr _ ih => simp [hfg _ _ hr, ih]

theorem All2.flatMap_eq {α β γ : Type} {R : α → β → Prop} {f : α → List γ} {g : β → List γ}
    {as : List α} {bs : List β} (h : All2 R as bs) (hfg : ∀ a b, R a b → f a = g b) :
    as.flatMap f = bs.flatMap g := by
  induction h with
  | nil => rfl
  | cons hr _ ih => simp [hfg _ _ hr, ih]

theorem All2.and {α β : Type} {R S : α → β → Prop} {as : List α} {bs : List β}
    (h1 : All2 R as bs) (h2 : All2 S as bs) : All2 (fun a b => R a b ∧ S a b) as bs := by
  induction h1 with
  | nil => exact .nil
  | cons hr _ ih =>
    cases h2 with
    | cons hs h2 => exact .cons ⟨hr, hs⟩ (ih h2)

/-- two lists that agree after `st`, one of them related to `bs`: the other is related to
`bs` through a witness with the same `st`-image -/
theorem All2.of_map_eq {α β σ : Type} (st : α → σ) {R : α → β → Prop} :
    ∀ {a0s : List α} {bs : List β}, All2 R a0s bs → ∀ {as : List α}, as.map st = a0s.map st →
      All2 (fun a b => ∃ a0, R a0 b ∧ st a = st a0) as bs := by
  intro a0s bs h
  induction h with
  | nil =>
    intro as he
    cases as with
    | nil => exact .nil
    | cons a as => simp at he
  | cons hr _ ih =>
    intro as he
    cases as with
    | nil => simp at he
    | cons a as =>
      simp only [List.map_cons, List.cons.injEq] at he
      exact .cons ⟨_, hr, he.1⟩ (ih he.2)

/-- de-duplication commutes with a map that has a left inverse -/
theorem dedup_foldl_map {α β : Type} [DecidableEq α] [DecidableEq β] (f : α → β) (g : β → α)
    (hgf : ∀ a, g (f a) = a) (l acc : List α) :
    (l.map f).foldl (fun acc x => if x ∈ acc then acc else acc ++ [x]) (acc.map f)
      = (l.foldl (fun acc x => if x ∈ acc then acc else acc ++ [x]) acc).map f := by
  induction l generalizing acc with
  | nil => rfl
  | cons x xs ih =>
    have hm : f x ∈ acc.map f ↔ x ∈ acc := by
      constructor
      · intro h
        obtain ⟨y, hy, e⟩ := List.mem_map.1 h
        have : y = x := by rw [← hgf y, e, hgf]
        exact this ▸ hy
      · intro h; exact List.mem_map.2 ⟨x, h, rfl⟩
    simp only [List.map_cons, List.foldl_cons, hm]
    by_cases hx : x ∈ acc
    · simp only [hx, if_true]; exact ih acc
    · simp only [hx, if_false]
      have := ih (acc ++ [x])
      simpa using this

theorem edgeToMsg_edgeOfMsg (e : MEdge) : edgeToMsg (edgeOfMsg e) = e := by
  obtain ⟨s, t, l⟩ := e
  cases l <;> rfl

theorem dedupEdges_map_edgeOfMsg (l : List MEdge) :
    (dedupEdges (l.map edgeOfMsg)).map edgeToMsg = dedupM l := by
  have := dedup_foldl_map edgeOfMsg edgeToMsg edgeToMsg_edgeOfMsg l []
  simp only [List.map_nil] at this
  simp only [dedupEdges, dedupM, this, List.map_map]
  have hid : (edgeToMsg ∘ edgeOfMsg) = id := funext edgeToMsg_edgeOfMsg
  rw [hid, List.map_id]

theorem mem_dedupM {α : Type} [DecidableEq α] {l : List α} {a : α} : a ∈ dedupM l ↔ a ∈ l := by
  simp [dedupM, mem_dedup_foldl]

theorem nodup_dedupM {α : Type} [DecidableEq α] (l : List α) : (dedupM l).Nodup := by
  simpa [dedupM] using nodup_dedup_foldl l [] (by simp)

theorem dedupM_id {α : Type} [DecidableEq α] {l : List α} (h : l.Nodup) : dedupM l = l := by
  have := dedup_foldl_id l [] (by simpa using h)
  simpa [dedupM] using this

/-! ### one level at a time -/

theorem symbolToMsg_of_rel {env : Env} {s : SymbolV} {ms : MSymbol} (h : SymbolRel env s ms) :
    symbolToMsg s = ms := by
  obtain ⟨mu, mp, mn, ma⟩ := ms
  obtain ⟨su, sn, sp, sa⟩ := s
  obtain ⟨h1, h2, h3, h4, _⟩ := h
  simp only at h1 h2 h3 h4
  subst h1 h2 h3 h4
  cases mp with
  | none => rfl
  | some p => cases p <;> rfl

theorem exprToMsg_of_rel {env : Env} {e : ExprEntryV} {kv : Nat × MSymExpr} (h : ExprRel env e kv) :
    exprToMsg e = (kv.1, normExpr kv.2) := by
  obtain ⟨k, val, fl⟩ := kv
  obtain ⟨ek, ee, ea⟩ := e
  obtain ⟨h1, h2, ⟨mv, h3, h4⟩, _⟩ := h
  simp only at h1 h2 h3 h4
  subst h1 h2 h3 h4
  cases mv <;> rfl

theorem stripI_eq {x x0 : IntervalV} (h : stripI x = stripI x0) :
    x.uuid = x0.uuid ∧ x.addr = x0.addr ∧ x.size = x0.size ∧ x.contents = x0.contents
      ∧ x.blocks = x0.blocks := by
  obtain ⟨a1, a2, a3, a4, a5, a6⟩ := x
  obtain ⟨b1, b2, b3, b4, b5, b6⟩ := x0
  simp only [stripI, IntervalV.mk.injEq] at h
  exact ⟨h.1, h.2.1, h.2.2.1, h.2.2.2.1, h.2.2.2.2.1⟩

theorem stripS_eq {s s0 : SectionV} (h : stripS s = stripS s0) :
    s.uuid = s0.uuid ∧ s.name = s0.name ∧ s.flags = s0.flags
      ∧ s.intervals.map stripI = s0.intervals.map stripI := by
  obtain ⟨a1, a2, a3, a4⟩ := s
  obtain ⟨b1, b2, b3, b4⟩ := s0
  simp only [stripS, SectionV.mk.injEq] at h
  exact h

theorem intervalToMsg_of_rel {env : Env} {x x0 : IntervalV} {mx : MByteInterval}
    (hr : IntervalRel x0 mx) (hs : stripI x = stripI x0)
    (he : All2 (ExprRel env) x.exprs mx.symbolicExpressions) :
    intervalToMsg x = normInterval mx := by
  obtain ⟨s1, s2, s3, s4, s5⟩ := stripI_eq hs
  obtain ⟨r1, r2, r3, r4, r5, _⟩ := hr
  have hex : x.exprs.map exprToMsg = mx.symbolicExpressions.map fun kv => (kv.1, normExpr kv.2) :=
    he.map_eq fun _ _ h => exprToMsg_of_rel h
  obtain ⟨mu, mb, me, mh, ma, msz, mc⟩ := mx
  simp only at r1 r2 r3 r4 r5 hex
  simp only [intervalToMsg, normInterval, MByteInterval.mk.injEq, s1, s2, s3, s4, s5, r1, r2, r3, r4,
    r5, hex, true_and, and_true]
  cases mh <;> simp

theorem sectionToMsg_of_rel {env : Env} {s s0 : SectionV} {ms : MSection}
    (hr : SectionRel s0 ms) (hs : stripS s = stripS s0)
    (he : All2 (fun x mx => All2 (ExprRel env) x.exprs mx.symbolicExpressions)
      s.intervals ms.byteIntervals) :
    sectionToMsg s = normSection ms := by
  obtain ⟨s1, s2, s3, s4⟩ := stripS_eq hs
  obtain ⟨r1, r2, r3, _, r5, _⟩ := hr
  have hiv : s.intervals.map intervalToMsg = ms.byteIntervals.map normInterval := by
    have h1 := All2.of_map_eq stripI r5 s4
    exact (h1.and he).map_eq fun x mx ⟨⟨x0, hr0, hs0⟩, hex⟩ => intervalToMsg_of_rel hr0 hs0 hex
  obtain ⟨mu, mn, mb, mf⟩ := ms
  simp only at r1 r2 r3 hiv
  simp only [sectionToMsg, normSection, s1, s2, s3, r1, r2, r3, hiv]

theorem decodeAux_map_auxToMsg (l : List (String × MAuxData)) : (decodeAux l).map auxToMsg = l := by
  induction l with
  | nil => rfl
  | cons a l ih =>
    simp only [decodeAux, List.map_cons, List.map_map] at ih ⊢
    rw [ih]
    rfl

theorem moduleToMsg_of_rel {env : Env} {mv : ModuleV} {mm : MModule} (h : ModuleRel env mv mm) :
    moduleToMsg mv = normModule mm := by
  obtain ⟨h1, h2, h3, h4, h5, h6, h7, h8, h9, h10, h11, _, _, _, _, ⟨secs, hs1, hs2⟩, hex, hsy, _, _⟩ := h
  have hsec : mv.sections.map sectionToMsg = mm.sections.map normSection := by
    have a1 := All2.of_map_eq stripS hs1 hs2
    exact (a1.and hex).map_eq fun s ms ⟨⟨s0, hr0, hs0⟩, he⟩ => sectionToMsg_of_rel hr0 hs0 he
  have hsym : mv.symbols.map symbolToMsg = mm.symbols := by
    have := hsy.map_eq (f := symbolToMsg) (g := id) fun s ms ⟨e, hr⟩ => symbolToMsg_of_rel hr
    simpa using this
  have haux : mv.aux.map auxToMsg = mm.auxData := by rw [h11]; exact decodeAux_map_auxToMsg _
  have hep : mv.entryPoint.getD [] = mm.entryPoint := by
    rw [h10]
    by_cases he : mm.entryPoint.isEmpty = true
    · simp only [he, if_true, Option.getD_none]
      exact (List.isEmpty_iff.1 he).symm
    · simp [he]
  obtain ⟨m1, m2, m3, m4, m5, m6, m7, m8, m9, m10, m11, m12, m13⟩ := mm
  simp only at h1 h2 h3 h4 h5 h6 h7 h8 h9 hsec hsym haux hep
  simp only [moduleToMsg, normModule, h1, h2, h3, h4, h5, h6, h7, h8, h9, hsec, hsym, haux, hep]

/-! ### the normal form keeps every UUID list -/

@[simp] theorem mexprSyms_normExpr (e : MSymExpr) : mexprSyms (normExpr e) = mexprSyms e := rfl
@[simp] theorem normInterval_blocks (x : MByteInterval) : (normInterval x).blocks = x.blocks := rfl
@[simp] theorem normInterval_uuid (x : MByteInterval) : (normInterval x).uuid = x.uuid := rfl
@[simp] theorem normInterval_blockUuids (x : MByteInterval) :
    (normInterval x).blockUuids = x.blockUuids := rfl
@[simp] theorem normSection_uuid (s : MSection) : (normSection s).uuid = s.uuid := rfl

theorem normSection_nodeUuids (s : MSection) : (normSection s).nodeUuids = s.nodeUuids := by
  simp [MSection.nodeUuids, normSection, List.flatMap_map]

theorem normModule_nodeUuids (m : MModule) : (normModule m).nodeUuids = m.nodeUuids := by
  simp [MModule.nodeUuids, normModule, List.flatMap_map, normSection_nodeUuids]

theorem normModule_codeUuids (m : MModule) : (normModule m).codeUuids = m.codeUuids := by
  simp [MModule.codeUuids, normModule, normSection, List.flatMap_map]

theorem normModule_blockUuids (m : MModule) : (normModule m).blockUuids = m.blockUuids := by
  simp [MModule.blockUuids, normModule, normSection, List.flatMap_map]

theorem normModule_symbolUuids (m : MModule) : (normModule m).symbolUuids = m.symbolUuids := rfl

theorem normModule_refUuids (m : MModule) : (normModule m).refUuids = m.refUuids := by
  simp [MModule.refUuids, normModule, normSection, normInterval, List.flatMap_map]

theorem normMsg_nodeUuids (m : MIR) : (normMsg m).nodeUuids = m.nodeUuids := by
  simp [MIR.nodeUuids, normMsg, List.flatMap_map, normModule_nodeUuids]

/-! ### the exact reader theorem -/

/-- what the reader returns, written out again, is the normal form of what it read:
nothing is lost, nothing is invented -/
theorem C02_reader_exact (m : MIR) (v : IRV) (h : fromMsg m = .ok v) : toMsg v = normMsg m := by
  obtain ⟨h1, h2, _, _, h5, h6, h7, _⟩ := fromMsg_ok h
  have hmods : v.modules.map moduleToMsg = m.modules.map normModule :=
    h7.map_eq fun mv mm ⟨e, hr⟩ => moduleToMsg_of_rel hr
  have haux : v.aux.map auxToMsg = m.auxData := by rw [h5]; exact decodeAux_map_auxToMsg _
  have hvert : irCfgNodes v = m.modules.flatMap fun mm => mm.codeUuids ++ mm.proxies := by
    apply h7.flatMap_eq
    rintro mv mm ⟨e, hr⟩
    have hc : mv.codeUuids = mm.codeUuids := by
      rw [← moduleToMsg_codeUuids, moduleToMsg_of_rel hr, normModule_codeUuids]
    have hp : mv.proxies = mm.proxies := hr.2.2.2.2.2.2.2.2.1
    show mv.codeUuids ++ mv.proxies = _
    rw [hc, hp]
  have hedges : v.edges.map edgeToMsg = dedupM m.cfg.edges := by
    rw [h6]; exact dedupEdges_map_edgeOfMsg _
  obtain ⟨mu, mm, ma, mver, ⟨mvs, mes⟩⟩ := m
  simp only at h1 h2 hmods haux hvert hedges
  simp only [toMsg, normMsg, h1, h2, hmods, haux, hvert, hedges]

/-- two messages that yield the same IR have the same normal form: the reader identifies
exactly the messages `normMsg` identifies (on what it accepts) -/
theorem C02_reader_exact_inj (m m' : MIR) (v : IRV) (h : fromMsg m = .ok v) (h' : fromMsg m' = .ok v) :
    normMsg m = normMsg m' := by
  rw [← C02_reader_exact m v h, ← C02_reader_exact m' v h']

/-- on the image of the writer (self-contained IR) the normal form is the identity -/
theorem C02_normMsg_toMsg (v : IRV) (h : wfir v = true) : normMsg (toMsg v) = toMsg v :=
  (C02_reader_exact (toMsg v) v (fromMsg_toMsg_of_wfir v h)).symm

/-- non-vacuity: `exClosedMsg` has a stale address, duplicate flags, attributes and edges and
an empty vertex list; its normal form differs from it and is what `toMsg` of the loaded IR gives -/
example : ∃ v, fromMsg exClosedMsg = .ok v ∧ toMsg v = normMsg exClosedMsg
    ∧ normMsg exClosedMsg ≠ exClosedMsg := by
  obtain ⟨v, hv⟩ := C02_reader_accepts exClosedMsg (by decide)
  exact ⟨v, hv, C02_reader_exact _ _ hv, by decide⟩

example : (normMsg exClosedMsg).cfg.edges.length = 3 ∧ exClosedMsg.cfg.edges.length = 4
    ∧ (normMsg exClosedMsg).cfg.vertices = [accU 5, accU 3, accU 23] := by decide

/-! ### accepted messages are closed -/

/-- message-level closure conditions of one accepted module, read off the reader's relation
(the counterpart of `mmoduleOK_toMsg` that does not need distinct map keys) -/
theorem mmoduleOK_of_rel {uuid : U} {earlier : List ModuleV} {mv : ModuleV} {mm : MModule}
    (h : ModuleRel (envOf uuid earlier) mv mm) :
    mmoduleOK (earlier.map moduleToMsg) (moduleToMsg mv) = true := by
  have hgood := h.sectionsGood
  obtain ⟨hr1, hr2, hr3⟩ := modRefs_of_rel h
  obtain ⟨_, _, _, _, _, _, _, _, _, _, _, hen, _, _, _, ⟨secs, hs1, hs2⟩, _, _, _, _⟩ := h
  have hflags : ∀ s ∈ mv.sections, SecFlagsGood s := by
    apply strip_transfer (P := SecFlagsGood) (fun s => Iff.rfl) hs2
    intro s hs
    obtain ⟨ms, _, hr⟩ := hs1.mem_left hs
    exact hr.flagsGood
  simp only [mmoduleOK, Bool.and_eq_true, List.all_eq_true, decide_eq_true_eq, Bool.or_eq_true,
    flatMap_map_moduleToMsg _ _ moduleToMsg_codeUuids,
    flatMap_map_moduleToMsg _ _ moduleToMsg_blockUuids,
    flatMap_map_moduleToMsg _ _ moduleToMsg_symbolUuids,
    moduleToMsg_codeUuids, moduleToMsg_blockUuids, moduleToMsg_symbolUuids]
  refine ⟨⟨⟨⟨⟨hen.1, hen.2.1⟩, hen.2.2⟩, ?_⟩, ?_⟩, ?_⟩
  · cases hep : mv.entryPoint with
    | none => exact .inl (by simp [moduleToMsg, hep])
    | some u => exact .inr (by simpa [moduleToMsg, hep] using hr1 u hep)
  · intro ms hms
    simp only [moduleToMsg, List.mem_map] at hms
    obtain ⟨s, hs, rfl⟩ := hms
    have := hr2 s hs
    obtain ⟨su, sn, sp, sa⟩ := s
    cases sp with
    | none => rfl
    | value n => rfl
    | referent u => simpa [symbolToMsg] using this u rfl
  · intro ms hms
    simp only [moduleToMsg, List.mem_map] at hms
    obtain ⟨s, hs, rfl⟩ := hms
    refine ⟨fun f hf => (hflags s hs).1 f hf, ?_⟩
    intro mx hmx
    simp only [sectionToMsg, List.mem_map] at hmx
    obtain ⟨x, hx, rfl⟩ := hmx
    have hg := (hgood s hs).2 x hx
    refine ⟨⟨hg.1, ?_⟩, ?_⟩
    · intro mb hmb
      simp only [intervalToMsg, List.mem_map] at hmb
      obtain ⟨b, hb, rfl⟩ := hmb
      have := hg.2.2.2 b hb
      cases b with
      | code _ _ _ _ => exact this
      | data _ _ _ => rfl
    · intro kv hkv
      simp only [intervalToMsg, List.mem_map] at hkv
      obtain ⟨e, he, rfl⟩ := hkv
      refine ⟨rfl, ?_⟩
      rw [mexprSyms_exprToMsg]
      intro u hu
      exact hr3 s hs x hx e he u hu

theorem mmodulesOK_of_rel {uuid : U} : ∀ (mvs : List ModuleV) (mms : List MModule)
    (earlier : List ModuleV), ModsRel (envOf uuid earlier) mvs mms →
    mmodulesOK (earlier.map moduleToMsg) (mvs.map moduleToMsg) = true := by
  intro mvs
  induction mvs with
  | nil => intro _ _ _; rfl
  | cons mv mvs ih =>
    intro mms earlier h
    cases mms with
    | nil => exact absurd h (by simp [ModsRel])
    | cons mm mms =>
      simp only [ModsRel] at h
      have henv : (moduleKinds mv).reverse ++ envOf uuid earlier = envOf uuid (earlier ++ [mv]) := by
        simp [envOf]
      rw [henv] at h
      have := ih mms _ h.2
      simp only [List.map_append, List.map_cons, List.map_nil] at this
      simp only [List.map_cons, mmodulesOK, Bool.and_eq_true]
      exact ⟨mmoduleOK_of_rel h.1, this⟩

/-- what the reader accepted, written out again, is a closed message (given distinct node
UUIDs in the result) -/
theorem closedMsg_toMsg_of_accepted {m : MIR} {v : IRV} (h : fromMsg m = .ok v)
    (hnd : v.nodeUuids.Nodup) : closedMsg (toMsg v) = true := by
  obtain ⟨h16, hver, _⟩ := C17_accepted_wf_partial m v h
  have hrel := fromMsg_rel h
  have hedges := fromMsg_edges h
  simp only [closedMsg, Bool.and_eq_true, List.all_eq_true, beq_iff_eq, nodupM_iff,
    decide_eq_true_eq, toMsg_nodeUuids]
  refine ⟨⟨⟨⟨h16, hnd⟩, hver⟩, ?_⟩, ?_⟩
  · exact mmodulesOK_of_rel (uuid := v.uuid) v.modules m.modules [] (by simpa [envOf] using hrel)
  · intro me hme
    simp only [toMsg, List.mem_map] at hme
    obtain ⟨e, he, rfl⟩ := hme
    have := hedges e he
    have hcfg : ((toMsg v).modules.flatMap fun mm => mm.codeUuids ++ mm.proxies)
        = v.modules.flatMap fun m => m.codeUuids ++ m.proxies := by
      simp only [toMsg, List.flatMap_map]
      congr 1; funext m
      rw [moduleToMsg_codeUuids]; rfl
    rw [hcfg]
    refine ⟨⟨this.1, this.2.1⟩, ?_⟩
    obtain ⟨s, d, l⟩ := e
    cases l with
    | none => rfl
    | some l => exact this.2.2 l rfl

/-! ### closure does not depend on what the normal form removes -/

theorem all_dedupNat (l : List Nat) (p : Nat → Bool) : (dedupNat l).all p = l.all p := by
  rw [Bool.eq_iff_iff]
  simp only [List.all_eq_true, mem_dedupNat]

theorem all_dedupM {α : Type} [DecidableEq α] (l : List α) (p : α → Bool) :
    (dedupM l).all p = l.all p := by
  rw [Bool.eq_iff_iff]
  simp only [List.all_eq_true, mem_dedupM]

theorem flatMap_map_normModule {α : Type} (f : MModule → List α)
    (hf : ∀ m, f (normModule m) = f m) (l : List MModule) :
    (l.map normModule).flatMap f = l.flatMap f := by
  simp [List.flatMap_map, hf]

theorem mmoduleOK_norm (earlier : List MModule) (mm : MModule) :
    mmoduleOK (earlier.map normModule) (normModule mm) = mmoduleOK earlier mm := by
  simp only [mmoduleOK, flatMap_map_normModule _ normModule_codeUuids,
    flatMap_map_normModule _ normModule_blockUuids, flatMap_map_normModule _ normModule_symbolUuids,
    normModule_codeUuids, normModule_blockUuids, normModule_symbolUuids]
  simp only [normModule, normSection, normInterval, List.all_map, Function.comp_def, all_dedupNat,
    mexprSyms_normExpr]
  rfl

theorem mmodulesOK_norm : ∀ (ms earlier : List MModule),
    mmodulesOK (earlier.map normModule) (ms.map normModule) = mmodulesOK earlier ms := by
  intro ms
  induction ms with
  | nil => intro _; rfl
  | cons m ms ih =>
    intro earlier
    have := ih (earlier ++ [m])
    simp only [List.map_append, List.map_cons, List.map_nil] at this
    simp only [List.map_cons, mmodulesOK, mmoduleOK_norm, this]

/-- the normal form is closed exactly when the message is -/
theorem closedMsg_normMsg (m : MIR) : closedMsg (normMsg m) = closedMsg m := by
  have hmods := mmodulesOK_norm m.modules []
  simp only [List.map_nil] at hmods
  have hcfg : ((m.modules.map normModule).flatMap fun mm => mm.codeUuids ++ mm.proxies)
      = m.modules.flatMap fun mm => mm.codeUuids ++ mm.proxies :=
    flatMap_map_normModule (fun mm => mm.codeUuids ++ mm.proxies)
      (fun mm => by simp only [normModule_codeUuids]; rfl) _
  simp only [closedMsg, normMsg_nodeUuids]
  simp only [normMsg, hmods, hcfg, all_dedupM]

/-- a message the reader accepts is closed, provided its node UUIDs are pairwise distinct
(the reader lets exactly one kind of duplicate through, `C17_accepted_dup_counterexample`) -/
theorem C02_accepted_closed (m : MIR) (v : IRV) (h : fromMsg m = .ok v)
    (hnd : nodupM m.nodeUuids = true) : closedMsg m = true := by
  have hx := C02_reader_exact m v h
  have hn : v.nodeUuids = m.nodeUuids := by
    rw [← toMsg_nodeUuids, hx, normMsg_nodeUuids]
  have := closedMsg_toMsg_of_accepted h (by rw [hn]; exact (nodupM_iff _).1 hnd)
  rw [hx, closedMsg_normMsg] at this
  exact this

/-- among messages with pairwise distinct node UUIDs, `closedMsg` is exactly the accepted set -/
theorem C02_accepts_iff_closed' (m : MIR) (hnd : nodupM m.nodeUuids = true) :
    (∃ v, fromMsg m = .ok v) ↔ closedMsg m = true :=
  ⟨fun ⟨v, h⟩ => C02_accepted_closed m v h hnd, C02_reader_accepts m⟩

/-! ### `structOK`: everything except the references is fine -/

/-- enum numbers known, stored bytes within the interval size, one-ofs set -/
def mmoduleStructOK (m : MModule) : Bool :=
  pyEnumHas "ISA" m.isa && pyEnumHas "FileFormat" m.fileFormat && pyEnumHas "ByteOrder" m.byteOrder
  && m.sections.all (fun s => s.sectionFlags.all (pyEnumHas "SectionFlag")
      && s.byteIntervals.all fun x => decide (x.contents.length ≤ x.size) && x.blocks.all mblockOK
          && x.symbolicExpressions.all fun kv => kv.2.value.isSome)

/-- 16-byte UUIDs (nodes and references), pairwise distinct node UUIDs, the version, and
the per-module conditions: a message in which only *references* can be wrong -/
def structOK (m : MIR) : Bool :=
  m.nodeUuids.all (·.length == 16) && m.refUuids.all (·.length == 16) && nodupM m.nodeUuids
  && m.version == Generated.protobufVersion && m.modules.all mmoduleStructOK
  && m.cfg.edges.all (fun e => match e.label with | none => true | some l => pyEnumHas "EdgeType" l.type)

/-- the review's formulation: for structurally sound messages, accepted = closed -/
theorem C02_accepts_iff_closed (m : MIR) (hs : structOK m = true) :
    (∃ v, fromMsg m = .ok v) ↔ closedMsg m = true := by
  apply C02_accepts_iff_closed'
  simp only [structOK, Bool.and_eq_true] at hs
  exact hs.1.1.1.2

/-! ### closed messages: references name nodes of the message -/

theorem mmodulesOK_split : ∀ (pre earlier : List MModule) (mm : MModule) (post : List MModule),
    mmodulesOK earlier (pre ++ mm :: post) = true → mmoduleOK (earlier ++ pre) mm = true := by
  intro pre
  induction pre with
  | nil =>
    intro earlier mm post h
    simp only [List.nil_append, mmodulesOK, Bool.and_eq_true] at h
    simpa using h.1
  | cons p pre ih =>
    intro earlier mm post h
    simp only [List.cons_append, mmodulesOK, Bool.and_eq_true] at h
    have := ih (earlier ++ [p]) mm post h.2
    simpa [List.append_assoc] using this

/-- in a module that passes `mmoduleOK` every reference names a node of the same or an
earlier module -/
theorem mmoduleOK_refs_mem {earlier : List MModule} {mm : MModule} (h : mmoduleOK earlier mm = true) :
    ∀ u ∈ mm.refUuids, ∃ m' ∈ earlier ++ [mm], u ∈ m'.nodeUuids := by
  simp only [mmoduleOK, Bool.and_eq_true, List.all_eq_true, decide_eq_true_eq,
    Bool.or_eq_true] at h
  obtain ⟨⟨⟨_, hentry⟩, hrefs⟩, hsecs⟩ := h
  intro u hu
  simp only [MModule.refUuids, List.mem_append, List.mem_flatMap] at hu
  rcases hu with (hu | ⟨s, hs, hu⟩) | ⟨s, hs, x, hx, kv, hkv, hu⟩
  · by_cases he : mm.entryPoint.isEmpty = true
    · simp [he] at hu
    · simp only [he, if_false, List.mem_singleton, Bool.false_eq_true] at hu
      subst hu
      rcases hentry with h' | h'
      · exact absurd h' he
      · obtain ⟨m', hm', hc⟩ := mem_mvis (f := MModule.codeUuids) h'
        exact ⟨m', hm', mem_mmoduleKinds_nodeUuids (mem_mcodeUuids hc)⟩
  · have := hrefs s hs
    obtain ⟨su, sp, sn, sa⟩ := s
    cases sp with
    | none => simp at hu
    | some p =>
      cases p with
      | value n => simp at hu
      | referentUuid r =>
        simp only [List.mem_singleton] at hu
        subst hu
        simp only [decide_eq_true_eq] at this
        obtain ⟨m', hm', hc⟩ := mem_mvis (f := MModule.blockUuids) this
        obtain ⟨k, _, hk⟩ := mem_mblockUuids hc
        exact ⟨m', hm', mem_mmoduleKinds_nodeUuids hk⟩
  · have := (((hsecs s hs).2 x hx).2 kv hkv).2 u hu
    obtain ⟨m', hm', hc⟩ := mem_mvis (f := MModule.symbolUuids) this
    exact ⟨m', hm', mem_mmoduleKinds_nodeUuids (mem_msymUuids hc)⟩

/-- a closed message is closed in the plain sense: every reference field names a node of
the message -/
theorem closedMsg_refs_mem (m : MIR) (h : closedMsg m = true) : ∀ u ∈ m.refUuids, u ∈ m.nodeUuids := by
  simp only [closedMsg, Bool.and_eq_true, List.all_eq_true, decide_eq_true_eq] at h
  obtain ⟨⟨_, hmods⟩, hedges⟩ := h
  have hsub : ∀ mm ∈ m.modules, ∀ u ∈ mm.nodeUuids, u ∈ m.nodeUuids := by
    intro mm hm u hu
    simp only [MIR.nodeUuids, List.mem_cons, List.mem_flatMap]
    exact .inr ⟨mm, hm, hu⟩
  intro u hu
  simp only [MIR.refUuids, List.mem_append, List.mem_flatMap] at hu
  rcases hu with ⟨mm, hm, hu⟩ | ⟨e, he, hu⟩
  · obtain ⟨pre, post, hsplit⟩ := List.append_of_mem hm
    rw [hsplit] at hmods
    have hok := mmodulesOK_split pre [] mm post hmods
    obtain ⟨m', hm', hn⟩ := mmoduleOK_refs_mem hok u hu
    apply hsub m' _ u hn
    rw [hsplit]
    simp only [List.nil_append, List.mem_append, List.mem_cons, List.not_mem_nil, or_false] at hm' ⊢
    rcases hm' with h' | h'
    · exact .inl h'
    · exact .inr (.inl h')
  · have hcfg : ∀ w, w ∈ (m.modules.flatMap fun mm => mm.codeUuids ++ mm.proxies) → w ∈ m.nodeUuids := by
      intro w hw
      obtain ⟨mm, hm, hw⟩ := List.mem_flatMap.1 hw
      rcases List.mem_append.1 hw with hc | hp
      · exact hsub mm hm w (mem_mmoduleKinds_nodeUuids (mem_mcodeUuids hc))
      · exact hsub mm hm w (mem_mmoduleKinds_nodeUuids (mem_mproxies hp))
    have := (hedges e he).1
    simp only [List.mem_cons, List.not_mem_nil, or_false] at hu
    rcases hu with rfl | rfl
    · exact hcfg _ this.1
    · exact hcfg _ this.2

theorem mmoduleOK_struct {earlier : List MModule} {mm : MModule} (h : mmoduleOK earlier mm = true) :
    mmoduleStructOK mm = true := by
  simp only [mmoduleOK, Bool.and_eq_true, List.all_eq_true, decide_eq_true_eq] at h
  obtain ⟨⟨⟨hen, _⟩, _⟩, hsecs⟩ := h
  simp only [mmoduleStructOK, Bool.and_eq_true, List.all_eq_true, decide_eq_true_eq]
  refine ⟨hen, ?_⟩
  intro s hs
  refine ⟨(hsecs s hs).1, ?_⟩
  intro x hx
  have := (hsecs s hs).2 x hx
  exact ⟨this.1, fun kv hkv => (this.2 kv hkv).1⟩

/-- closed messages are structurally sound: `structOK` is `closedMsg` minus the references -/
theorem closedMsg_structOK (m : MIR) (h : closedMsg m = true) : structOK m = true := by
  have hrefs := closedMsg_refs_mem m h
  simp only [closedMsg, Bool.and_eq_true, List.all_eq_true, beq_iff_eq, decide_eq_true_eq] at h
  obtain ⟨⟨⟨⟨h16, hnd⟩, hver⟩, hmods⟩, hedges⟩ := h
  simp only [structOK, Bool.and_eq_true, List.all_eq_true, beq_iff_eq]
  refine ⟨⟨⟨⟨⟨h16, fun u hu => h16 u (hrefs u hu)⟩, hnd⟩, hver⟩, ?_⟩, fun e he => (hedges e he).2⟩
  intro mm hm
  obtain ⟨pre, post, hsplit⟩ := List.append_of_mem hm
  rw [hsplit] at hmods
  exact mmoduleOK_struct (mmodulesOK_split pre [] mm post hmods)

/-- every reference field the writer emits for a self-contained IR (entry points, symbol
referents, expression symbols, edge endpoints) is a 16-byte UUID -/
theorem C02_ref_uuid_16 (v : IRV) (h : wfir v = true) : ∀ u ∈ (toMsg v).refUuids, u.length = 16 := by
  have hc := C02_toMsg_closed v h
  have hs := closedMsg_structOK _ hc
  simp only [structOK, Bool.and_eq_true, List.all_eq_true, beq_iff_eq] at hs
  exact hs.1.1.1.1.2

/-! ### non-vacuity -/

example : structOK exClosedMsg = true ∧ closedMsg exClosedMsg = true := by decide
/-- the forward-reference message is structurally sound but not closed, and not accepted -/
example : structOK k5Msg = true ∧ closedMsg k5Msg = false ∧ ¬ ∃ v, fromMsg k5Msg = .ok v := by
  refine ⟨by decide, by decide, ?_⟩
  rw [C02_accepts_iff_closed k5Msg (by decide)]
  decide
/-- `dupMsg` (an interval sharing the UUID of its own block) shows the hypothesis of
`C02_accepted_closed` is needed: accepted, not closed -/
example : (∃ v, fromMsg dupMsg = .ok v) ∧ closedMsg dupMsg = false ∧ nodupM dupMsg.nodeUuids = false :=
  ⟨⟨_, rfl⟩, by decide, by decide⟩
example : (toMsg exIR).refUuids.length = 13 ∧ ∀ u ∈ (toMsg exIR).refUuids, u.length = 16 :=
  ⟨by decide, C02_ref_uuid_16 exIR (by decide)⟩

end Gtirb.Msg
