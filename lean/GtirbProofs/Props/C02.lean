import GtirbProofs.Lemmas.ProtoProofs
/-! C02: writer and reader each agree with the schema field by field.

Writer (`toMsg`, `saveBytes`): the header is ASCII `GTIRB`, two zero bytes, the version;
`has_address` is set iff the interval has an address; the one-ofs carry the payload
(a symbol value 0 is present, not dropped; a missing edge label stays missing, an
all-false label stays present); the vertex list names every CFG node of the IR and
nothing else; every scalar field equals the attribute, children are mapped one to one.

Reader (`fromMsg` and its stages): whatever message is accepted, every attribute of the
result equals the corresponding message field (`address` is ignored when `has_address`
is false, an empty `entry_point` means none, flags are de-duplicated). -/
namespace Gtirb.Msg
open Gtirb

/-! ### writer -/

theorem C02_header (serialize : MIR → Bytes) (v : IRV) :
    saveBytes serialize v
      = Generated.magic ++ [0, 0, UInt8.ofNat Generated.protobufVersion] ++ serialize (toMsg v) := rfl

theorem C02_ir_fields (v : IRV) :
    (toMsg v).uuid = v.uuid ∧ (toMsg v).version = v.version
      ∧ (toMsg v).modules = v.modules.map moduleToMsg
      ∧ (toMsg v).auxData = v.aux.map (fun a => (a.key, ⟨a.typeName, a.data⟩))
      ∧ (toMsg v).cfg.edges = v.edges.map edgeToMsg := ⟨rfl, rfl, rfl, rfl, rfl⟩

theorem C02_has_address (x : IntervalV) :
    (intervalToMsg x).hasAddress = x.addr.isSome
      ∧ (∀ a, x.addr = some a → (intervalToMsg x).address = a)
      ∧ (intervalToMsg x).size = x.size ∧ (intervalToMsg x).contents = x.contents
      ∧ (intervalToMsg x).uuid = x.uuid := by
  refine ⟨rfl, ?_, rfl, rfl, rfl⟩
  intro a ha
  simp [intervalToMsg, ha]

theorem C02_interval_children (x : IntervalV) :
    (intervalToMsg x).blocks = x.blocks.map blockToMsg
      ∧ (intervalToMsg x).symbolicExpressions = x.exprs.map exprToMsg
      ∧ (intervalToMsg x).blocks.length = x.blocks.length
      ∧ (intervalToMsg x).symbolicExpressions.length = x.exprs.length := by
  simp [intervalToMsg]

/-- the block one-of: exactly one of `code` / `data`, never unset -/
theorem C02_block_oneof (b : BlockV) :
    blockToMsg b = match b with
      | .code u off sz dm => ⟨off, some (.code ⟨u, sz, dm⟩)⟩
      | .data u off sz => ⟨off, some (.data ⟨u, sz⟩)⟩ := by
  cases b <;> rfl

/-- the expression one-of and the attribute numbers (known and unknown alike) -/
theorem C02_expr_oneof (e : ExprEntryV) :
    (exprToMsg e).1 = e.key ∧ (exprToMsg e).2.attributeFlags = e.attrs
      ∧ (exprToMsg e).2.value = some (match e.expr with
          | .addrConst off s => .addrConst off s
          | .addrAddr sc off s1 s2 => .addrAddr sc off s1 s2) := ⟨rfl, rfl, rfl⟩

theorem C02_section_fields (s : SectionV) :
    (sectionToMsg s).uuid = s.uuid ∧ (sectionToMsg s).name = s.name
      ∧ (sectionToMsg s).sectionFlags = s.flags
      ∧ (sectionToMsg s).byteIntervals = s.intervals.map intervalToMsg
      ∧ (sectionToMsg s).byteIntervals.length = s.intervals.length := by
  simp [sectionToMsg]

/-- value 0 is present, not dropped -/
theorem C02_payload_oneof (s : SymbolV) :
    (symbolToMsg s).payload = match s.payload with
      | .none => none
      | .value n => some (.value n)
      | .referent u => some (.referentUuid u) := rfl

theorem C02_symbol_fields (s : SymbolV) :
    (symbolToMsg s).uuid = s.uuid ∧ (symbolToMsg s).name = s.name
      ∧ (symbolToMsg s).atEnd = s.atEnd := ⟨rfl, rfl, rfl⟩

/-- a missing label stays missing, an all-false label stays present -/
theorem C02_label_presence (e : EdgeV) :
    (edgeToMsg e).label.isSome = e.label.isSome
      ∧ (edgeToMsg e).sourceUuid = e.src ∧ (edgeToMsg e).targetUuid = e.dst
      ∧ (e.label = none → (edgeToMsg e).label = none)
      ∧ (∀ l, e.label = some l → (edgeToMsg e).label = some ⟨l.conditional, l.direct, l.type⟩) := by
  refine ⟨by simp [edgeToMsg], rfl, rfl, ?_, ?_⟩
  · intro h; simp [edgeToMsg, h]
  · intro l h; simp [edgeToMsg, h]

/-- every CFG node of the IR, nothing else -/
theorem C02_vertices (v : IRV) (u : U) :
    u ∈ (toMsg v).cfg.vertices ↔ ∃ m ∈ v.modules, u ∈ m.codeUuids ∨ u ∈ m.proxies := by
  simp only [toMsg, irCfgNodes, List.mem_flatMap]
  constructor
  · rintro ⟨m, hm, hu⟩
    exact ⟨m, hm, List.mem_append.1 hu⟩
  · rintro ⟨m, hm, hu⟩
    exact ⟨m, hm, List.mem_append.2 hu⟩

/-- in order: per module its code blocks (sections, intervals, blocks in order), then its proxies -/
theorem C02_vertices_order (v : IRV) :
    (toMsg v).cfg.vertices = v.modules.flatMap fun m => m.codeUuids ++ m.proxies := rfl

theorem C02_entry_point (m : ModuleV) : (moduleToMsg m).entryPoint = m.entryPoint.getD [] := rfl

theorem C02_module_fields (m : ModuleV) :
    (moduleToMsg m).uuid = m.uuid ∧ (moduleToMsg m).name = m.name
      ∧ (moduleToMsg m).binaryPath = m.binaryPath ∧ (moduleToMsg m).preferredAddr = m.preferredAddr
      ∧ (moduleToMsg m).rebaseDelta = m.rebaseDelta ∧ (moduleToMsg m).fileFormat = m.fileFormat
      ∧ (moduleToMsg m).isa = m.isa ∧ (moduleToMsg m).byteOrder = m.byteOrder
      ∧ (moduleToMsg m).proxies = m.proxies
      ∧ (moduleToMsg m).sections = m.sections.map sectionToMsg
      ∧ (moduleToMsg m).symbols = m.symbols.map symbolToMsg
      ∧ (moduleToMsg m).auxData = m.aux.map (fun a => (a.key, ⟨a.typeName, a.data⟩))
      ∧ (moduleToMsg m).sections.length = m.sections.length
      ∧ (moduleToMsg m).symbols.length = m.symbols.length
      ∧ (moduleToMsg m).auxData.length = m.aux.length := by
  simp [moduleToMsg, auxToMsg]

/-! ### reader -/

/-- whatever message is accepted, every attribute of the result equals the corresponding
message field -/
theorem C02_reader_ir (m : MIR) (v : IRV) (h : fromMsg m = .ok v) :
    v.uuid = m.uuid ∧ v.version = m.version ∧ v.modules.length = m.modules.length
      ∧ v.aux = decodeAux m.auxData
      ∧ (∀ e, e ∈ v.edges ↔ ∃ me ∈ m.cfg.edges,
          e = ⟨me.sourceUuid, me.targetUuid, me.label.map fun l => ⟨l.type, l.conditional, l.direct⟩⟩) := by
  obtain ⟨h1, h2, _, _, h5, h6, h7, _⟩ := fromMsg_ok h
  refine ⟨h1, h2, h7.length_eq, h5, ?_⟩
  intro e
  rw [h6, mem_dedupEdges, List.mem_map]
  constructor
  · rintro ⟨me, hme, rfl⟩; exact ⟨me, hme, rfl⟩
  · rintro ⟨me, hme, rfl⟩; exact ⟨me, hme, rfl⟩

/-- the modules of the result correspond one to one, in order, to the module messages -/
theorem C02_reader_ir_modules (m : MIR) (v : IRV) (h : fromMsg m = .ok v) :
    All2 (fun mv mm => ∃ env env', decodeModule env mm = .ok (mv, env')) v.modules m.modules := by
  exact fromMsg_steps h

theorem C02_reader_module (env env' : Env) (mm : MModule) (mv : ModuleV)
    (h : decodeModule env mm = .ok (mv, env')) :
    mv.uuid = mm.uuid ∧ mv.name = mm.name ∧ mv.binaryPath = mm.binaryPath
      ∧ mv.preferredAddr = mm.preferredAddr ∧ mv.rebaseDelta = mm.rebaseDelta
      ∧ mv.fileFormat = mm.fileFormat ∧ mv.isa = mm.isa ∧ mv.byteOrder = mm.byteOrder
      ∧ mv.proxies = mm.proxies
      ∧ (mv.entryPoint = if mm.entryPoint.isEmpty then none else some mm.entryPoint)
      ∧ mv.sections.length = mm.sections.length ∧ mv.symbols.length = mm.symbols.length
      ∧ mv.aux = decodeAux mm.auxData := by
  obtain ⟨⟨h1, h2, h3, h4, h5, h6, h7, h8, h9, h10, h11, _, _, _, _, _, h17, h18, _⟩, _⟩ :=
    decodeModule_ok h
  exact ⟨h1, h2, h3, h4, h5, h6, h7, h8, h9, h10, h17.length_eq, h18.length_eq, h11⟩

/-- the sections of the result, after the second pass: everything but the expressions is
what the first pass (`decodeSection`) produced for the section message at the same
position; the expressions are those of the interval messages, in order -/
theorem C02_reader_module_sections (env env' : Env) (mm : MModule) (mv : ModuleV)
    (h : decodeModule env mm = .ok (mv, env')) :
    (∃ secs, All2 SectionRel secs mm.sections ∧ mv.sections.map stripS = secs.map stripS)
      ∧ All2 (fun s ms => All2 (fun x mx =>
            All2 (ExprRel env') x.exprs mx.symbolicExpressions)
          s.intervals ms.byteIntervals) mv.sections mm.sections := by
  obtain ⟨⟨_, _, _, _, _, _, _, _, _, _, _, _, _, _, _, h16, h17, _, _⟩, he⟩ := decodeModule_ok h
  subst he
  exact ⟨h16, h17⟩

theorem C02_reader_section (env env' : Env) (ms : MSection) (s : SectionV)
    (h : decodeSection env ms = .ok (s, env')) :
    s.uuid = ms.uuid ∧ s.name = ms.name ∧ s.intervals.length = ms.byteIntervals.length
      ∧ s.flags = dedupNat ms.sectionFlags ∧ (∀ f, f ∈ s.flags ↔ f ∈ ms.sectionFlags)
      ∧ s.flags.Nodup := by
  obtain ⟨⟨h1, h2, h3, _, h5, _⟩, _⟩ := decodeSection_ok h
  refine ⟨h1, h2, h5.length_eq, h3, ?_, ?_⟩
  · intro f; rw [h3]; exact mem_dedupNat
  · rw [h3]; exact nodup_dedupNat _

/-- `address` is ignored when `has_address` is false -/
theorem C02_reader_interval (env env' : Env) (mx : MByteInterval) (x : IntervalV)
    (h : decodeInterval env mx = .ok (x, env')) :
    x.uuid = mx.uuid ∧ x.size = mx.size ∧ x.contents = mx.contents
      ∧ x.addr = (if mx.hasAddress then some mx.address else none)
      ∧ x.blocks.length = mx.blocks.length := by
  obtain ⟨⟨h1, h2, h3, h4, h5, _⟩, _⟩ := decodeInterval_ok h
  exact ⟨h1, h2, h3, h4, by rw [← h5]; simp⟩

theorem C02_reader_block (env env' : Env) (b : MBlock) (v : BlockV)
    (h : decodeBlock env b = .ok (v, env')) :
    (∃ c, b.value = some (.code c) ∧ v = .code c.uuid b.offset c.size c.decodeMode)
      ∨ (∃ d, b.value = some (.data d) ∧ v = .data d.uuid b.offset d.size) := by
  obtain ⟨h1, _⟩ := decodeBlock_ok h
  subst h1
  cases v with
  | code u off sz dm => exact .inl ⟨_, rfl, rfl⟩
  | data u off sz => exact .inr ⟨_, rfl, rfl⟩

/-- the blocks of an accepted interval are in one-to-one correspondence, in order -/
theorem C02_reader_interval_blocks (env env' : Env) (mx : MByteInterval) (x : IntervalV)
    (h : decodeInterval env mx = .ok (x, env')) : x.blocks.map blockToMsg = mx.blocks :=
  (decodeInterval_ok h).1.2.2.2.2.1

theorem C02_reader_symbol (env env' : Env) (ms : MSymbol) (s : SymbolV)
    (h : decodeSymbol env ms = .ok (s, env')) :
    s.uuid = ms.uuid ∧ s.name = ms.name ∧ s.atEnd = ms.atEnd
      ∧ s.payload = (match ms.payload with
          | none => .none
          | some (.value n) => .value n
          | some (.referentUuid u) => .referent u) := by
  obtain ⟨⟨h1, h2, h3, h4, _⟩, _⟩ := decodeSymbol_ok h
  refine ⟨h1, h2, h3, ?_⟩
  rw [h4]
  cases ms.payload with
  | none => rfl
  | some p => cases p <;> rfl

theorem C02_reader_expr (env : Env) (kv : Nat × MSymExpr) (e : ExprEntryV)
    (h : decodeExpr env kv = .ok e) :
    e.key = kv.1 ∧ e.attrs = dedupNat kv.2.attributeFlags
      ∧ (∀ a, a ∈ e.attrs ↔ a ∈ kv.2.attributeFlags)
      ∧ (∃ mv, kv.2.value = some mv ∧ e.expr = match mv with
          | .addrConst off s => .addrConst off s
          | .addrAddr sc off s1 s2 => .addrAddr sc off s1 s2) := by
  obtain ⟨h1, h2, ⟨mv, h3, h4⟩, _⟩ := decodeExpr_ok h
  refine ⟨h1, h2, ?_, mv, h3, ?_⟩
  · intro a; rw [h2]; exact mem_dedupNat
  · rw [h4]; cases mv <;> rfl

theorem C02_reader_edge (env : Env) (me : MEdge) (e : EdgeV) (h : decodeEdge env me = .ok e) :
    e.src = me.sourceUuid ∧ e.dst = me.targetUuid
      ∧ e.label = me.label.map (fun l => ⟨l.type, l.conditional, l.direct⟩)
      ∧ e.label.isSome = me.label.isSome := by
  obtain ⟨h1, _⟩ := decodeEdge_ok h
  subst h1
  simp [edgeOfMsg]

end Gtirb.Msg
