import GtirbProofs.Props.C05Scopes
/-! C05, the must side of the sandwich at section / module / IR scope.

The code reaches a block through `byte_intervals_on(addrs)`, i.e. only through
intervals whose DECLARED extent `[address, address + size)` meets the query. A
block may stick out of (or lie wholly beyond) the declared extent of its
interval; the part outside is what the property allows to be missed. What MUST
be reported:

* 'at': a block whose first address lies inside the declared extent and is a
  member of the queried range (`C05_section_at_inside`, `C05_scope_at_inside`);
* 'on': a block such that query ∩ block ∩ declared extent is non-empty - whether
  the block lies wholly inside the extent or straddles its end
  (`C05_section_on_part_inside`, `C05_scope_on_part_inside`; the existing
  `C05_section_on_inside` for a block wholly inside is the special case
  `C05_section_on_inside_of_part`).

`C05_section_on_blk` / `C05_section_at_blk` give the exact condition for one
block: it is reported iff it qualifies AND its interval's declared extent is
'on' the query. -/
namespace Gtirb.Index

theorem bi?_of_mem_bisOf {d : D} (h : DInv d) {s : Nat} {y : BI} (hy : y ∈ d.bisOf s) :
    d.bi? y.id = some y :=
  (kfind_some_iff BI.id h.bi_ids).2 ⟨(mem_bisOf.1 hy).1, rfl⟩

theorem mem_blocksOf {d : D} {x : Nat} {blk : Blk} :
    blk ∈ d.blocksOf x ↔ blk ∈ d.blks ∧ blk.bi = some x := by
  simp [D.blocksOf, List.mem_filter]

/-- the interval of a section is 'on' the query iff its declared extent is non-empty and
meets the envelope of the query -/
theorem mem_scanBisOn_of_bisOf {d : D} (h : DInv d) {s : Nat} {y : BI} (hy : y ∈ d.bisOf s) (r : Rng) :
    y.id ∈ scanBisOn d s r ↔ ∃ a : Nat, y.addr = some a ∧ y.size ≠ 0 ∧ r.start < r.stop ∧
      (a : Int) < r.stop ∧ (a : Int) + y.size > r.start := by
  have hy' := mem_bisOf.1 hy
  rw [mem_scanBisOn]
  constructor
  · rintro ⟨y2, hm2, _, hid, hc⟩
    have : y2 = y := key_inj BI.id h.bi_ids hm2 hy'.1 hid
    subst this; exact hc
  · intro hc; exact ⟨y, hy'.1, hy'.2, rfl, hc⟩

theorem mem_scanBlocksOn_of_blocksOf {d : D} (h : DInv d) {y : BI} {s : Nat} (hy : y ∈ d.bisOf s)
    {blk : Blk} (hblk : blk ∈ d.blocksOf y.id) (r : Rng) :
    blk.id ∈ scanBlocksOn d y.id r ↔ ∃ a : Nat, y.addr = some a ∧ blk.size ≠ 0 ∧ r.start < r.stop ∧
      (a : Int) + blk.offset < r.stop ∧ (a : Int) + blk.offset + blk.size > r.start := by
  have hblk' := mem_blocksOf.1 hblk
  rw [mem_scanBlocksOn, bi?_of_mem_bisOf h hy]
  simp only [Option.bind_some]
  constructor
  · rintro ⟨a, ha, b2, hm2, _, hid, hc⟩
    have : b2 = blk := key_inj Blk.id h.blk_ids hm2 hblk'.1 hid
    subst this; exact ⟨a, ha, hc⟩
  · rintro ⟨a, ha, hc⟩; exact ⟨a, ha, blk, hblk'.1, hblk'.2, rfl, hc⟩

theorem mem_scanBlocksAt_of_blocksOf {d : D} (h : DInv d) {y : BI} {s : Nat} (hy : y ∈ d.bisOf s)
    {blk : Blk} (hblk : blk ∈ d.blocksOf y.id) (r : Rng) :
    blk.id ∈ scanBlocksAt d y.id r ↔ ∃ a : Nat, y.addr = some a ∧
      r.mem ((a : Int) + blk.offset) = true := by
  have hblk' := mem_blocksOf.1 hblk
  rw [mem_scanBlocksAt, bi?_of_mem_bisOf h hy]
  simp only [Option.bind_some]
  constructor
  · rintro ⟨a, ha, b2, hm2, _, hid, hc⟩
    have : b2 = blk := key_inj Blk.id h.blk_ids hm2 hblk'.1 hid
    subst this; exact ⟨a, ha, hc⟩
  · rintro ⟨a, ha, hc⟩; exact ⟨a, ha, blk, hblk'.1, hblk'.2, rfl, hc⟩

/-! ### section scope -/

/-- 'at', must side: a block whose first address is inside the declared extent
of its interval (`offset < size` of the interval) and is a member of the queried
range is reported -/
theorem C05_section_at_inside (d : D) (s : Nat) (r : Rng) (h : DInv d) (hs : (d.sec? s).isSome)
    (y : BI) (blk : Blk) (hy : y ∈ d.bisOf s) (hblk : blk ∈ d.blocksOf y.id)
    (hin : blk.offset < y.size) (hb : blk.id ∈ scanBlocksAt d y.id r) :
    blk.id ∈ (secBlocksAt d s r).2 := by
  refine C05_section_at_complete d s r h hs y.id blk.id ?_ hb
  rcases (mem_scanBlocksAt_of_blocksOf h hy hblk r).1 hb with ⟨a, ha, hm⟩
  have := Rng.mem_bounds hm
  exact (mem_scanBisOn_of_bisOf h hy r).2 ⟨a, ha, by omega, by omega, by omega, by omega⟩

/-- 'on', must side, "or part of a block": when some address lies in the query
envelope, in the block and in the declared extent of the block's interval, the
block is reported - also when the block straddles the end of the extent -/
theorem C05_section_on_part_inside (d : D) (s : Nat) (r : Rng) (h : DInv d) (hs : (d.sec? s).isSome)
    (y : BI) (blk : Blk) (a : Nat) (hy : y ∈ d.bisOf s) (ha : y.addr = some a)
    (hblk : blk ∈ d.blocksOf y.id)
    (hq : max (max r.start ((a : Int) + blk.offset)) (a : Int) <
          min (min r.stop ((a : Int) + blk.offset + blk.size)) ((a : Int) + y.size)) :
    blk.id ∈ (secBlocksOn d s r).2 := by
  refine C05_section_on_complete d s r h hs y.id blk.id ?_ ?_
  · exact (mem_scanBisOn_of_bisOf h hy r).2 ⟨a, ha, by omega, by omega, by omega, by omega⟩
  · exact (mem_scanBlocksOn_of_blocksOf h hy hblk r).2 ⟨a, ha, by omega, by omega, by omega, by omega⟩

/-- the same with the common address as a witness instead of `max < min` -/
theorem C05_section_on_part_inside_witness (d : D) (s : Nat) (r : Rng) (h : DInv d)
    (hs : (d.sec? s).isSome) (y : BI) (blk : Blk) (a : Nat) (hy : y ∈ d.bisOf s) (ha : y.addr = some a)
    (hblk : blk ∈ d.blocksOf y.id) (p : Int)
    (hp_query : r.start ≤ p ∧ p < r.stop)
    (hp_block : (a : Int) + blk.offset ≤ p ∧ p < (a : Int) + blk.offset + blk.size)
    (hp_extent : (a : Int) ≤ p ∧ p < (a : Int) + y.size) :
    blk.id ∈ (secBlocksOn d s r).2 :=
  C05_section_on_part_inside d s r h hs y blk a hy ha hblk (by omega)

/-- `C05_section_on_inside` (block wholly inside the extent) is the special case -/
theorem C05_section_on_inside_of_part (d : D) (s : Nat) (r : Rng) (h : DInv d) (hs : (d.sec? s).isSome)
    (y : BI) (blk : Blk) (hy : y ∈ d.bisOf s) (hblk : blk ∈ d.blocksOf y.id)
    (hin : blk.offset + blk.size ≤ y.size) (hb : blk.id ∈ scanBlocksOn d y.id r) :
    blk.id ∈ (secBlocksOn d s r).2 := by
  rcases (mem_scanBlocksOn_of_blocksOf h hy hblk r).1 hb with ⟨a, ha, hc⟩
  exact C05_section_on_part_inside d s r h hs y blk a hy ha hblk (by omega)

/-- exact condition for one block, 'on': reported iff the block meets the query
envelope AND the declared extent of its interval does -/
theorem C05_section_on_blk (d : D) (s : Nat) (r : Rng) (h : DInv d) (hs : (d.sec? s).isSome)
    (y : BI) (blk : Blk) (hy : y ∈ d.bisOf s) (hblk : blk ∈ d.blocksOf y.id) :
    blk.id ∈ (secBlocksOn d s r).2 ↔ ∃ a : Nat, y.addr = some a ∧ r.start < r.stop ∧
      (blk.size ≠ 0 ∧ (a : Int) + blk.offset < r.stop ∧ (a : Int) + blk.offset + blk.size > r.start) ∧
      (y.size ≠ 0 ∧ (a : Int) < r.stop ∧ (a : Int) + y.size > r.start) := by
  rw [C05_section_on d s r h hs]
  constructor
  · rintro ⟨x, hx, hb⟩
    have hxy : x = y.id := by
      apply Classical.byContradiction
      intro hn
      exact scanBlocksOn_disjoint h r x y.id blk.id hn hb
        (by
          rcases mem_scanBlocksOn.1 hb with ⟨_, _, b2, hm2, hb2, hid, _⟩
          have : b2 = blk := key_inj Blk.id h.blk_ids hm2 (mem_blocksOf.1 hblk).1 hid
          subst this
          exact absurd (Option.some.inj (hb2.symm.trans (mem_blocksOf.1 hblk).2)) hn)
    subst hxy
    rcases (mem_scanBlocksOn_of_blocksOf h hy hblk r).1 hb with ⟨a, ha, h1, h2, h3, h4⟩
    rcases (mem_scanBisOn_of_bisOf h hy r).1 hx with ⟨a', ha', g1, _, g3, g4⟩
    rw [ha] at ha'; cases ha'
    exact ⟨a, ha, h2, ⟨h1, h3, h4⟩, ⟨g1, g3, g4⟩⟩
  · rintro ⟨a, ha, h2, ⟨h1, h3, h4⟩, ⟨g1, g3, g4⟩⟩
    exact ⟨y.id, (mem_scanBisOn_of_bisOf h hy r).2 ⟨a, ha, g1, h2, g3, g4⟩,
      (mem_scanBlocksOn_of_blocksOf h hy hblk r).2 ⟨a, ha, h1, h2, h3, h4⟩⟩

/-- exact condition for one block, 'at': reported iff its first address is a
member of the range AND the declared extent of its interval meets the envelope -/
theorem C05_section_at_blk (d : D) (s : Nat) (r : Rng) (h : DInv d) (hs : (d.sec? s).isSome)
    (y : BI) (blk : Blk) (hy : y ∈ d.bisOf s) (hblk : blk ∈ d.blocksOf y.id) :
    blk.id ∈ (secBlocksAt d s r).2 ↔ ∃ a : Nat, y.addr = some a ∧
      r.mem ((a : Int) + blk.offset) = true ∧
      (y.size ≠ 0 ∧ (a : Int) < r.stop ∧ (a : Int) + y.size > r.start) := by
  rw [C05_section_at d s r h hs]
  constructor
  · rintro ⟨x, hx, hb⟩
    have hxy : x = y.id := by
      rcases mem_scanBlocksAt.1 hb with ⟨_, _, b2, hm2, hb2, hid, _⟩
      have : b2 = blk := key_inj Blk.id h.blk_ids hm2 (mem_blocksOf.1 hblk).1 hid
      subst this
      exact Option.some.inj (hb2.symm.trans (mem_blocksOf.1 hblk).2)
    subst hxy
    rcases (mem_scanBlocksAt_of_blocksOf h hy hblk r).1 hb with ⟨a, ha, hm⟩
    rcases (mem_scanBisOn_of_bisOf h hy r).1 hx with ⟨a', ha', g1, _, g3, g4⟩
    rw [ha] at ha'; cases ha'
    exact ⟨a, ha, hm, g1, g3, g4⟩
  · rintro ⟨a, ha, hm, g1, g3, g4⟩
    have := Rng.mem_bounds hm
    exact ⟨y.id, (mem_scanBisOn_of_bisOf h hy r).2 ⟨a, ha, g1, by omega, g3, g4⟩,
      (mem_scanBlocksAt_of_blocksOf h hy hblk r).2 ⟨a, ha, hm⟩⟩

/-! ### module / IR scope -/

theorem C05_scope_at_inside (d : D) (ss : List Nat) (r : Rng) (h : DInv d) (s : Nat) (hs : s ∈ ss)
    (hsome : (d.sec? s).isSome) (y : BI) (blk : Blk) (hy : y ∈ d.bisOf s)
    (hblk : blk ∈ d.blocksOf y.id) (hin : blk.offset < y.size)
    (hb : blk.id ∈ scanBlocksAt d y.id r) :
    blk.id ∈ (chain (fun d s => secBlocksAt d s r) d ss).2 := by
  rw [C05_chain_mem (fun d s => secBlocksAt d s r) (secBlocksAt_keeps r)
    (fun d d' => secBlocksAt_congr r d d') d ss h]
  exact ⟨s, hs, C05_section_at_inside d s r h hsome y blk hy hblk hin hb⟩

theorem C05_scope_on_part_inside (d : D) (ss : List Nat) (r : Rng) (h : DInv d) (s : Nat) (hs : s ∈ ss)
    (hsome : (d.sec? s).isSome) (y : BI) (blk : Blk) (a : Nat) (hy : y ∈ d.bisOf s)
    (ha : y.addr = some a) (hblk : blk ∈ d.blocksOf y.id)
    (hq : max (max r.start ((a : Int) + blk.offset)) (a : Int) <
          min (min r.stop ((a : Int) + blk.offset + blk.size)) ((a : Int) + y.size)) :
    blk.id ∈ (chain (fun d s => secBlocksOn d s r) d ss).2 := by
  rw [C05_chain_mem (fun d s => secBlocksOn d s r) (secBlocksOn_keeps r)
    (fun d d' => secBlocksOn_congr r d d') d ss h]
  exact ⟨s, hs, C05_section_on_part_inside d s r h hsome y blk a hy ha hblk hq⟩

/-- exact condition for one block at module / IR scope (the block's section is
listed once or more) -/
theorem C05_scope_on_blk (d : D) (ss : List Nat) (r : Rng) (h : DInv d) (s : Nat) (hs : s ∈ ss)
    (hsome : (d.sec? s).isSome) (y : BI) (blk : Blk) (hy : y ∈ d.bisOf s)
    (hblk : blk ∈ d.blocksOf y.id) :
    blk.id ∈ (chain (fun d s => secBlocksOn d s r) d ss).2 ↔ blk.id ∈ (secBlocksOn d s r).2 := by
  rw [C05_chain_mem (fun d s => secBlocksOn d s r) (secBlocksOn_keeps r)
    (fun d d' => secBlocksOn_congr r d d') d ss h]
  constructor
  · rintro ⟨s', _, hb⟩
    rcases (C05_section_on_any d s' r h _).1 hb with ⟨_, x, hx, hbx⟩
    have hxy : x = y.id := by
      rcases mem_scanBlocksOn.1 hbx with ⟨_, _, b2, hm2, hb2, hid, _⟩
      have : b2 = blk := key_inj Blk.id h.blk_ids hm2 (mem_blocksOf.1 hblk).1 hid
      subst this
      exact Option.some.inj (hb2.symm.trans (mem_blocksOf.1 hblk).2)
    subst hxy
    rcases mem_scanBisOn.1 hx with ⟨y2, hm2, hys2, hid2, _⟩
    have hss' : s' = s :=
      bisOf_sec_unique h hm2 hys2 (mem_bisOf.1 hy).1 (mem_bisOf.1 hy).2 hid2
    subst hss'
    exact hb
  · intro hb; exact ⟨s, hs, hb⟩

/-! ### concrete examples -/

theorem find?_getD_mem {α : Type} {l : List α} {p : α → Bool} (dflt : α) (h : (l.find? p).isSome) :
    (l.find? p).getD dflt ∈ l := by
  cases hf : l.find? p with
  | none => rw [hf] at h; cases h
  | some y => exact List.mem_of_find?_eq_some hf

/-- `exS` with block 3 moved to offset 12, size 8 in interval 11 (address 204,
size 16, section 21): the block occupies [216, 224), the declared extent ends at
220 - the block straddles the end -/
def exStraddle : D := blkSet exS 3 12 8
theorem exStraddle_inv : DInv exStraddle := blkSet_inv exS 3 12 8 exS_inv

def exMustBI : BI := (exStraddle.bi? 11).getD { id := 0, addr := none, size := 0, sec := none }
def exMustBlk : Blk := (exStraddle.blk? 3).getD ⟨0, false, 0, 0, none⟩

theorem exMustBI_mem : exMustBI ∈ exStraddle.bisOf 21 :=
  mem_bisOf.2 ⟨find?_getD_mem _ (by decide), by decide⟩
theorem exMustBlk_mem : exMustBlk ∈ exStraddle.blocksOf exMustBI.id :=
  mem_blocksOf.2 ⟨find?_getD_mem _ (by decide), by decide⟩

example : exMustBI.id = 11 ∧ exMustBI.addr = some 204 ∧ exMustBI.size = 16 ∧ exMustBlk.id = 3 ∧ exMustBlk.offset = 12 ∧
    exMustBlk.size = 8 := by decide

/-- a query inside the part of the block that lies inside the extent: must be reported -/
example : 3 ∈ (secBlocksOn exStraddle 21 ⟨217, 218, 1⟩).2 :=
  C05_section_on_part_inside exStraddle 21 ⟨217, 218, 1⟩ exStraddle_inv (by decide) exMustBI exMustBlk 204
    exMustBI_mem (by decide) exMustBlk_mem (by decide)
example : (secBlocksOn exStraddle 21 ⟨217, 218, 1⟩).2 = [3] := by decide

/-- a query that only hits the part beyond the extent: may be (and is) missed,
although the fresh scan of the interval finds the block - the premise of
`C05_section_on_part_inside` fails -/
example : (secBlocksOn exStraddle 21 ⟨221, 223, 1⟩).2 = [] ∧
    scanBlocksOn exStraddle 11 ⟨221, 223, 1⟩ = [3] ∧
    ¬ (max (max (221 : Int) (204 + 12)) 204 < min (min 223 (204 + 12 + 8)) (204 + 16)) := by decide

/-- the old `_on_inside` does not apply to the straddling block (12 + 8 > 16) -/
example : ¬ (exMustBlk.offset + exMustBlk.size ≤ exMustBI.size) := by decide

/-- module scope -/
example : 3 ∈ (chain (fun d s => secBlocksOn d s ⟨217, 218, 1⟩) exStraddle [20, 21]).2 :=
  C05_scope_on_part_inside exStraddle [20, 21] ⟨217, 218, 1⟩ exStraddle_inv 21 (by decide) (by decide) exMustBI exMustBlk 204
    exMustBI_mem (by decide) exMustBlk_mem (by decide)

/-- 'at': block 3 begins at 216 < 220: inside, must be reported -/
example : 3 ∈ (secBlocksAt exStraddle 21 ⟨216, 217, 1⟩).2 :=
  C05_section_at_inside exStraddle 21 ⟨216, 217, 1⟩ exStraddle_inv (by decide) exMustBI exMustBlk exMustBI_mem exMustBlk_mem
    (by decide) (by decide)
example : 3 ∈ (chain (fun d s => secBlocksAt d s ⟨216, 217, 1⟩) exStraddle [20, 21]).2 :=
  C05_scope_at_inside exStraddle [20, 21] ⟨216, 217, 1⟩ exStraddle_inv 21 (by decide) (by decide) exMustBI exMustBlk
    exMustBI_mem exMustBlk_mem (by decide) (by decide)

/-- 'at', may side: a zero-sized block at offset = size of the interval begins
at the first address beyond the extent; the scan of the interval finds it, the
section lookup does not -/
example : (secBlocksAt (blkSet exS 3 16 0) 21 ⟨220, 221, 1⟩).2 = [] ∧
    scanBlocksAt (blkSet exS 3 16 0) 11 ⟨220, 221, 1⟩ = [3] := by decide

end Gtirb.Index
