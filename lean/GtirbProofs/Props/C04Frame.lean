import GtirbProofs.Props.C16
import GtirbProofs.Props.C03NoRollback
/-! C04, the frame clause: "nodes not named in an operation are unaffected by it" (review `graph`
P5), and the success of the constructors / parent setter / attribute setters (P6).

`touched g op` is the list of nodes an operation names (its arguments) or selects (the element at an
index, the members of a collection that `clear` / `&=` empties). `C04_frame`: every node outside
`touched` keeps its back-pointer, every node keeps its name and payload unless the operation is the
setter of that attribute on that node, and every collection none of whose past or present members is
touched keeps its contents, order included. `C04_frame_order` is the stronger form of the last
clause the proof goes through: in *every* collection the untouched nodes keep their relative order
(so a collection can only change by touched nodes entering or leaving it; `reverse` is the one
exception, for the list it reverses).

`C16_setters_never_raise`: under the invariants and the hypothesis of C03, `setParent`, the
constructors and the attribute setters succeed, so that the conditional theorems `C04_move_*`,
`C16_*_content` about them are not vacuous; with it, `C16_outside_iff_K1`: the marker `outside` is
raised for the pattern of the known finding K1 and for nothing else. -/
namespace Gtirb.Forest

/-! ### list facts: removing / inserting filtered-out elements does not change the filtered list -/

theorem fr_filter_middle {T : List Nat} {v : Nat} (hv : v ∈ T) (A B : List Nat) :
    (A ++ v :: B).filter (fun x => !(x ∈ T)) = (A ++ B).filter (fun x => !(x ∈ T)) := by
  simp [List.filter_append, hv]

theorem fr_filter_erase {T : List Nat} {v : Nat} (hv : v ∈ T) (l : List Nat) :
    (l.erase v).filter (fun x => !(x ∈ T)) = l.filter (fun x => !(x ∈ T)) := by
  induction l with
  | nil => rfl
  | cons a as ih =>
    by_cases hav : a = v
    · subst hav
      simp [hv]
    · have : (a :: as).erase v = a :: as.erase v := by
        rw [List.erase_cons]; simp [hav]
      rw [this, List.filter_cons, List.filter_cons, ih]

theorem fr_filter_setInsert {T : List Nat} {v : Nat} (hv : v ∈ T) (l : List Nat) :
    (setInsertNat l v).filter (fun x => !(x ∈ T)) = l.filter (fun x => !(x ∈ T)) := by
  unfold setInsertNat
  split
  · rfl
  · simp [List.filter_append, hv]

theorem fr_filter_pyInsert {T : List Nat} {v : Nat} (hv : v ∈ T) (l : List Nat) (k : Int) :
    (pyInsert l k v).filter (fun x => !(x ∈ T)) = l.filter (fun x => !(x ∈ T)) := by
  unfold pyInsert
  dsimp only
  rw [fr_filter_middle hv, List.take_append_drop]

theorem fr_filter_set {T : List Nat} {l : List Nat} {idx old v : Nat} (hl : l[idx]? = some old)
    (ho : old ∈ T) (hv : v ∈ T) :
    (l.set idx v).filter (fun x => !(x ∈ T)) = l.filter (fun x => !(x ∈ T)) := by
  obtain ⟨A, B, h1, _, h3⟩ := list_split_at hl
  rw [h3 v, fr_filter_middle hv]
  conv => rhs; rw [h1, fr_filter_middle ho]

theorem fr_filter_eraseIdx {T : List Nat} {l : List Nat} {idx old : Nat} (hl : l[idx]? = some old)
    (ho : old ∈ T) :
    (l.eraseIdx idx).filter (fun x => !(x ∈ T)) = l.filter (fun x => !(x ∈ T)) := by
  obtain ⟨A, B, h1, h2, _⟩ := list_split_at hl
  rw [h2]
  conv => rhs; rw [h1, fr_filter_middle ho]

theorem fr_filter_mono {T T' : List Nat} (hTT : ∀ x, x ∈ T → x ∈ T') (l : List Nat) :
    l.filter (fun x => !(x ∈ T')) = (l.filter (fun x => !(x ∈ T))).filter (fun x => !(x ∈ T')) := by
  rw [List.filter_filter]
  apply List.filter_congr
  intro x _
  by_cases hx : x ∈ T'
  · simp [hx]
  · have : x ∉ T := fun h => hx (hTT x h)
    simp [hx, this]

/-! ### the frame relation -/

/-- the forest part of `g'` differs from that of `g` only at the nodes in `T`: every other node has
its old back-pointer, and in every collection the nodes outside `T` are the same, in the same order;
names and payloads are untouched -/
structure FrameOn (T : List Nat) (g g' : G) : Prop where
  par : ∀ x, x ∉ T → g'.par x = g.par x
  kids : ∀ p s, (g'.kids p s).filter (fun x => !(x ∈ T)) = (g.kids p s).filter (fun x => !(x ∈ T))
  name : g'.name = g.name
  payload : g'.payload = g.payload

namespace FrameOn

theorem refl (T : List Nat) (g : G) : FrameOn T g g := ⟨fun _ _ => rfl, fun _ _ => rfl, rfl, rfl⟩

theorem trans {T : List Nat} {a b c : G} (h1 : FrameOn T a b) (h2 : FrameOn T b c) : FrameOn T a c :=
  ⟨fun x hx => (h2.par x hx).trans (h1.par x hx), fun p s => (h2.kids p s).trans (h1.kids p s),
   h2.name.trans h1.name, h2.payload.trans h1.payload⟩

theorem mono {T T' : List Nat} {g g' : G} (hTT : ∀ x, x ∈ T → x ∈ T') (h : FrameOn T g g') : FrameOn T' g g' :=
  ⟨fun x hx => h.par x (fun hh => hx (hTT x hh)),
   fun p s => by rw [fr_filter_mono hTT (g'.kids p s), h.kids, ← fr_filter_mono hTT],
   h.name, h.payload⟩

/-- the relation only looks at the forest part -/
theorem of_core {T : List Nat} {g g' X : G} (h : core g' = X) (hX : FrameOn T (core g) X) : FrameOn T g g' := by
  subst h
  exact ⟨hX.par, hX.kids, hX.name, hX.payload⟩

/-- a collection all of whose members were in `T` still has only members in `T` -/
theorem mem_T {T : List Nat} {g g' : G} (h : FrameOn T g g') {p : Nat} {s : Slot}
    (h0 : ∀ x, x ∈ g.kids p s → x ∈ T) {v : Nat} (hv : v ∈ g'.kids p s) : v ∈ T := by
  apply Classical.byContradiction
  intro hn
  have h1 : v ∈ (g'.kids p s).filter (fun x => !(x ∈ T)) := by
    rw [List.mem_filter]; exact ⟨hv, by simp [hn]⟩
  rw [h.kids, List.mem_filter] at h1
  exact hn (h0 v h1.1)

end FrameOn

/-! ### the pure forest operations -/

theorem frameOn_setPar {T : List Nat} {v : Nat} (hv : v ∈ T) (g : G) (p : Option Nat) :
    FrameOn T g (setPar g v p) :=
  ⟨fun x hx => by rw [setPar_par, if_neg (fun e : x = v => hx (by rw [e]; exact hv))], fun _ _ => rfl, rfl, rfl⟩

theorem frameOn_kidsSet {T : List Nat} {g : G} {p : Nat} {s : Slot} {l : List Nat}
    (hl : l.filter (fun x => !(x ∈ T)) = (g.kids p s).filter (fun x => !(x ∈ T))) :
    FrameOn T g (kidsSet g p s l) := by
  refine ⟨fun _ _ => rfl, fun p' s' => ?_, rfl, rfl⟩
  rw [kidsSet_kids]
  split
  · rename_i h; rw [h.1, h.2]; exact hl
  · rfl

theorem frameOn_detach {T : List Nat} {v : Nat} (hv : v ∈ T) (g : G) (q : Nat) (s : Slot) :
    FrameOn T g (detach g q s v) := by
  unfold detach
  split
  · rw [kidsErase_eq_kidsSet]
    exact (frameOn_setPar hv g none).trans (frameOn_kidsSet (fr_filter_erase hv _))
  · exact .refl T g

theorem frameOn_detachOld {T : List Nat} {v : Nat} (hv : v ∈ T) (g : G) (s : Slot) :
    FrameOn T g (detachOld g s v) := by
  unfold detachOld
  split
  · exact frameOn_detach hv g _ s
  · exact .refl T g

theorem frameOn_relink {T : List Nat} {v : Nat} (hv : v ∈ T) (g : G) (p : Nat) (s : Slot) :
    FrameOn T g (relink g p s v) :=
  (frameOn_detachOld hv g s).trans (frameOn_setPar hv _ _)

theorem frameOn_kidsInsert {T : List Nat} {v : Nat} (hv : v ∈ T) (g : G) (p : Nat) (s : Slot) :
    FrameOn T g (kidsInsert g p s v) := by
  rw [kidsInsert_eq_kidsSet]
  exact frameOn_kidsSet (fr_filter_setInsert hv _)

theorem frameOn_attach {T : List Nat} {v : Nat} (hv : v ∈ T) (g : G) (p : Nat) (s : Slot) :
    FrameOn T g (attach g p s v) :=
  (frameOn_relink hv g p s).trans (frameOn_kidsInsert hv _ p s)

theorem frameOn_foldl {T : List Nat} {F : G → Nat → G} (l : List Nat)
    (hF : ∀ g x, x ∈ l → FrameOn T g (F g x)) (g : G) : FrameOn T g (l.foldl F g) :=
  foldl_inv (fun g' => FrameOn T g g') l (fun g' x hx h => h.trans (hF g' x hx)) g (.refl T g)

theorem frameOn_foldE {T : List Nat} {f : G → Nat → Except Exc G} (l : List Nat)
    (hf : ∀ g x g', x ∈ l → f g x = .ok g' → FrameOn T g g') {g g' : G} (h : foldE f l g = .ok g') :
    FrameOn T g g' :=
  foldE_inv (fun g' => FrameOn T g g') l (fun g1 x g2 hx h1 h2 => h1.trans (hf g1 x g2 hx h2)) g g'
    (.refl T g) h

theorem frameOn_blkUpdatePure {T : List Nat} {new : List Nat} (hnew : ∀ v, v ∈ new → v ∈ T) (g : G) (p : Nat) :
    FrameOn T g (blkUpdatePure g p new) :=
  (frameOn_foldl new (fun g x hx => frameOn_relink (hnew x hx) g p .blocks) g).trans
    (frameOn_foldl new (fun g x hx => frameOn_kidsInsert (hnew x hx) g p .blocks) _)

theorem frameOn_modInsertPure {T : List Nat} {v : Nat} (hv : v ∈ T) (g : G) (i : Nat) (k : Int) :
    FrameOn T g (modInsertPure g i k v) :=
  (frameOn_relink hv g i .mods).trans (frameOn_kidsSet (fr_filter_pyInsert hv _ k))

/-- fresh indexes own nothing and have no parent -/
theorem fr_kids_fresh {g : G} (h : ForestInv g) {p : Nat} (hp : g.n ≤ p) (s : Slot) : g.kids p s = [] := by
  apply List.eq_nil_iff_forall_not_mem.2
  intro c hc
  have := (h.alloc c p ((h.mem_iff c p s).1 hc).1).2
  omega

theorem fr_par_fresh {g : G} (h : ForestInv g) {x : Nat} (hx : g.n ≤ x) : g.par x = none := by
  cases hp : g.par x with
  | none => rfl
  | some p => have := (h.alloc x p hp).1; omega

theorem frameOn_alloc {g : G} (h : ForestInv g) (T : List Nat) (k : Kind) (u : Nat) :
    FrameOn T g (alloc g k u).1 := by
  refine ⟨fun x _ => ?_, fun p s => ?_, rfl, rfl⟩
  · rw [alloc_par]; split
    · rename_i e; rw [e, fr_par_fresh h (Nat.le_refl _)]
    · rfl
  · rw [alloc_kids]; split
    · rename_i e; rw [e, fr_kids_fresh h (Nat.le_refl _)]
    · rfl

/-! ### the primitives of the model -/

theorem setDiscard_frame {T : List Nat} {g g' : G} {q v : Nat} {s : Slot} (hv : v ∈ T)
    (h : setDiscard g q s v = .ok g') : FrameOn T g g' :=
  .of_core (setDiscard_core h) (frameOn_detach hv _ q s)

theorem setAdd_frame {T : List Nat} {g g' : G} {p v : Nat} {s : Slot} (hv : v ∈ T)
    (h : setAdd g p s v = .ok g') : FrameOn T g g' :=
  .of_core (setAdd_core h) (frameOn_attach hv _ p s)

theorem blkUpdate_frame {T : List Nat} {g g' : G} {p : Nat} {vs : List Nat} (hvs : ∀ v, v ∈ vs → v ∈ T)
    (h : blkUpdate g p vs = .ok g') : FrameOn T g g' :=
  .of_core (blkUpdate_core h) (frameOn_blkUpdatePure (fun v hv => hvs v (mem_blkNew.1 hv).1) _ p)

theorem nodeSetAdd_frame {T : List Nat} {g g' : G} {p v : Nat} {s : Slot} (hv : v ∈ T)
    (h : nodeSetAdd g p s v = .ok g') : FrameOn T g g' := by
  unfold nodeSetAdd at h
  split at h
  · exact blkUpdate_frame (fun x hx => by rw [List.mem_singleton.1 hx]; exact hv) h
  · exact setAdd_frame hv h

theorem modListRemove_frame {T : List Nat} {g g' : G} {i v : Nat} (hv : v ∈ T)
    (h : modListRemove g i v = .ok g') : FrameOn T g g' :=
  .of_core (modListRemove_core h) (frameOn_detach hv _ i .mods)

theorem modInsert_frame {T : List Nat} {g g' : G} {i v : Nat} {k : Int} (hv : v ∈ T)
    (h : modInsert g i k v = .ok g') : FrameOn T g g' :=
  .of_core (modInsert_core h) (frameOn_modInsertPure hv _ i k)

theorem modAppend_frame {T : List Nat} {g g' : G} {i v : Nat} (hv : v ∈ T)
    (h : modAppend g i v = .ok g') : FrameOn T g g' := modInsert_frame hv h

theorem modDelItem_frame {T : List Nat} {g g' : G} {i : Nat} {k : Int} (h : modDelItem g i k = .ok g') :
    ∃ idx v, pyIndex (g.kids i .mods).length k = some idx ∧ (g.kids i .mods)[idx]? = some v ∧
      (v ∈ T → FrameOn T g g') := by
  obtain ⟨idx, v, h1, h2, hc⟩ := modDelItem_core h
  refine ⟨idx, v, h1, h2, fun hv => ?_⟩
  exact .of_core hc ((frameOn_setPar hv _ none).trans (frameOn_kidsSet (fr_filter_eraseIdx h2 hv)))

theorem modSetItem_frame {T : List Nat} {g g' : G} {i v : Nat} {k : Int} (hf : ForestInv g)
    (hc : ChildOK g i .mods v) (h : modSetItem g i k v = .ok g') :
    ∃ idx old, pyIndex (g.kids i .mods).length k = some idx ∧ (g.kids i .mods)[idx]? = some old ∧
      (v ∈ T → old ∈ T → FrameOn T g g') := by
  obtain ⟨idx, old, h1, h2, _, h4, h5, h6⟩ := wr_modSetItem_content hf hc h
  obtain ⟨_, _, _, _, _, hcore⟩ := modSetItem_core h
  refine ⟨idx, old, h1, h2, fun hv ho => ⟨?_, ?_, ?_, ?_⟩⟩
  · intro x hx
    rw [h6 x, if_neg (fun e : x = v => hx (by rw [e]; exact hv)),
      if_neg (fun e : x = old => hx (by rw [e]; exact ho))]
  · intro p s
    by_cases hps : p = i ∧ s = .mods
    · rw [hps.1, hps.2, h4, fr_filter_set h2 ho hv]
    · have : p ≠ i ∨ s ≠ .mods := by
        by_cases hp : p = i
        · exact .inr (fun hs => hps ⟨hp, hs⟩)
        · exact .inl hp
      rw [h5 p s this, fr_filter_erase hv]
  · have := congrArg G.name hcore
    simpa [modSetItemPure] using this
  · have := congrArg G.payload hcore
    simpa [modSetItemPure] using this

theorem setParent_frame {T : List Nat} {g g' : G} {c : Nat} {p : Option Nat} (hc : c ∈ T)
    (h : setParent g c p = .ok g') : FrameOn T g g' := by
  unfold setParent at h
  split at h
  · cases h
  · rename_i s hs
    split at h
    · cases h
    · rename_i g1 h1
      have e1 : FrameOn T g g1 := by
        split at h1
        · split at h1
          · exact modListRemove_frame hc h1
          · exact setDiscard_frame hc h1
        · cases h1; exact .refl T g
      split at h
      · cases h; exact e1
      · split at h
        · exact e1.trans (modAppend_frame hc h)
        · exact e1.trans (nodeSetAdd_frame hc h)

/-! ### the nodes an operation names or selects -/

/-- the element of the module list of `i` at Python index `k` (none if out of range) -/
def listAt (g : G) (i : Nat) (k : Int) : List Nat :=
  match pyIndex (g.kids i .mods).length k with
  | some idx => ((g.kids i .mods)[idx]?).toList
  | none => []

/-- the nodes an operation names (arguments; for a constructor also the new node `g.n`) or selects
(the element at an index; the members of the collection for `clear`; the members that `&=` drops) -/
def touched (g : G) : Op → List Nat
  | .mkIR _ => []
  | .mk _ _ kids _ => g.n :: kids.flatMap (·.2)
  | .mkSym _ _ _ _ => [g.n]
  | .setParent c _ => [c]
  | .add _ _ v | .discard _ _ v | .remove _ _ v | .pop _ _ v => [v]
  | .clear p s _ => g.kids p s
  | .update _ _ vs | .isub _ _ vs | .ixor _ _ vs => vs
  | .iand p s vs _ => (g.kids p s).filter (fun x => !(x ∈ vs))
  | .insert _ _ v | .append _ v | .listRemove _ v => [v]
  | .extend _ vs => vs
  | .delItem i k | .listPop i k => listAt g i k
  | .setItem i k v => v :: listAt g i k
  | .listClear i => g.kids i .mods
  | .reverse _ | .setName _ _ | .setPayload _ _ => []

theorem mem_listAt {g : G} {i : Nat} {k : Int} {idx v : Nat} (h1 : pyIndex (g.kids i .mods).length k = some idx)
    (h2 : (g.kids i .mods)[idx]? = some v) : v ∈ listAt g i k := by
  unfold listAt; rw [h1]; simp [h2]

theorem modClear_frame {T : List Nat} {i : Nat} : ∀ (xs : List Nat) (g0 g g' : G),
    (∀ x, x ∈ g0.kids i .mods → x ∈ T) → FrameOn T g0 g →
    foldE (fun g _ => modDelItem g i (-1)) xs g = .ok g' → FrameOn T g0 g'
  | [], _, _, _, _, hF, h => by cases h; exact hF
  | _ :: xs, g0, g, g', hT, hF, h => by
    obtain ⟨g1, h1, h2⟩ := foldE_cons_ok h
    obtain ⟨idx, v, _, hv, hfr⟩ := modDelItem_frame (T := T) h1
    have hvT : v ∈ T := hF.mem_T hT (List.mem_of_getElem? hv)
    exact modClear_frame xs g0 g1 g' hT (hF.trans (hfr hvT)) h2

/-- every operation that is not an attribute setter, not `reverse` and not the symbol constructor:
the forest changes only at the touched nodes -/
theorem step_frameOn {g g' : G} {op : Op} (h : ForestInv g) (hop : OpOK g op) (hs : step g op = .ok g')
    (hk : match op with
          | .reverse _ | .setName _ _ | .setPayload _ _ | .mkSym _ _ _ _ => False
          | _ => True) : FrameOn (touched g op) g g' := by
  cases op with
  | reverse i => exact hk.elim
  | setName v nm => exact hk.elim
  | setPayload v pl => exact hk.elim
  | mkSym u nm pl parent => exact hk.elim
  | mkIR u =>
    simp only [step] at hs; cases hs
    exact .of_core (mkIR_core g u) (frameOn_alloc ((forestInv_core g).2 h) _ .ir u)
  | mk k u kids parent =>
    obtain ⟨hk1, hk2, _, _⟩ := hop
    simp only [step] at hs
    rw [if_neg (by simp [hk1, hk2])] at hs
    generalize hgen : Gtirb.Forest.alloc g k u = a at hs
    have ha1 : a.1 = (Gtirb.Forest.alloc g k u).1 := by rw [hgen]
    have ha2 : a.2 = g.n := by rw [← hgen]; rfl
    obtain ⟨g1, v⟩ := a
    simp only at ha1 ha2 hs
    subst ha1 ha2
    obtain ⟨g2, hfold, hs'⟩ := bindE_ok hs
    have hI : FrameOn (touched g (.mk k u kids parent)) (Gtirb.Forest.alloc g k u).1 g2 := by
      refine foldl_bindE_inv (fun g' => FrameOn (touched g (.mk k u kids parent)) (Gtirb.Forest.alloc g k u).1 g')
        (fun g0 (x : Slot × List Nat) => if x.1 = .blocks then blkUpdate g0 g.n x.2
               else foldE (fun g0 y => setAdd g0 g.n x.1 y) x.2 g0) kids ?_ _ g2 ?_ hfold
      · intro sv hsv ga gb hga hbody
        have hin : ∀ y, y ∈ sv.2 → y ∈ touched g (.mk k u kids parent) := by
          intro y hy
          exact List.mem_cons_of_mem _ (List.mem_flatMap.2 ⟨sv, hsv, hy⟩)
        split at hbody
        · exact hga.trans (blkUpdate_frame hin hbody)
        · exact hga.trans (frameOn_foldE sv.2 (fun _ y _ hy hh => setAdd_frame (hin y hy) hh) hbody)
      · intro g0 hg0; cases hg0; exact .refl _ _
    have hI0 := (frameOn_alloc h (touched g (.mk k u kids parent)) k u).trans hI
    split at hs'
    · exact hI0.trans (setParent_frame List.mem_cons_self hs')
    · cases hs'; exact hI0
  | setParent c p => exact setParent_frame List.mem_cons_self hs
  | add p s v => exact nodeSetAdd_frame List.mem_cons_self hs
  | discard p s v => exact setDiscard_frame List.mem_cons_self hs
  | remove p s v =>
    simp only [step] at hs
    split at hs
    · exact setDiscard_frame List.mem_cons_self hs
    · cases hs
  | pop p s v =>
    simp only [step] at hs
    split at hs
    · cases hs
    · split at hs
      · exact setDiscard_frame List.mem_cons_self hs
      · cases hs
  | clear p s order =>
    simp only [step] at hs
    split at hs
    · rename_i hsm
      exact frameOn_foldE order (fun _ y _ hy hh => setDiscard_frame ((wr_sameMembers_mem hsm y).1 hy) hh) hs
    · cases hs
  | update p s vs =>
    simp only [step] at hs
    split at hs
    · exact blkUpdate_frame (fun _ hv => hv) hs
    · exact frameOn_foldE vs (fun _ y _ hy hh => setAdd_frame hy hh) hs
  | isub p s vs =>
    simp only [step] at hs
    exact frameOn_foldE vs (fun _ y _ hy hh => setDiscard_frame hy hh) hs
  | iand p s vs order =>
    simp only [step] at hs
    split at hs
    · rename_i hsm
      exact frameOn_foldE order (fun _ y _ hy hh => setDiscard_frame ((wr_sameMembers_mem hsm y).1 hy) hh) hs
    · cases hs
  | ixor p s vs =>
    simp only [step] at hs
    refine frameOn_foldE vs (fun g1 y g2 hy hh => ?_) hs
    split at hh
    · exact setDiscard_frame hy hh
    · exact nodeSetAdd_frame hy hh
  | insert i k v => exact modInsert_frame List.mem_cons_self hs
  | append i v => exact modAppend_frame List.mem_cons_self hs
  | extend i vs =>
    simp only [step] at hs
    exact frameOn_foldE vs (fun _ y _ hy hh => modAppend_frame hy hh) hs
  | delItem i k =>
    obtain ⟨idx, v, h1, h2, hfr⟩ := modDelItem_frame (T := touched g (.delItem i k)) (show modDelItem g i k = .ok g' from hs)
    exact hfr (mem_listAt h1 h2)
  | listPop i k =>
    simp only [step] at hs
    split at hs
    · cases hs
    · obtain ⟨idx, v, h1, h2, hfr⟩ := modDelItem_frame (T := touched g (.listPop i k)) hs
      exact hfr (mem_listAt h1 h2)
  | setItem i k v =>
    obtain ⟨idx, old, h1, h2, hfr⟩ := modSetItem_frame (T := touched g (.setItem i k v)) h hop
      (show modSetItem g i k v = .ok g' from hs)
    exact hfr List.mem_cons_self (List.mem_cons_of_mem _ (mem_listAt h1 h2))
  | listRemove i v => exact modListRemove_frame List.mem_cons_self hs
  | listClear i =>
    exact modClear_frame (g.kids i .mods) g g g' (fun _ hx => hx) (.refl _ g) (show modClear g i = .ok g' from hs)

/-! ### P5 -/

/-- P5, strong form. After a successful public operation:
* every node outside `touched` keeps its back-pointer;
* every existing node keeps its name (payload) unless the operation is `setName` (`setPayload`) of
  that very node;
* in every collection the untouched nodes are the same and in the same relative order, except in the
  module list that `reverse` reverses. -/
theorem C04_frame_order (g g' : G) (op : Op) (h : ForestInv g) (hop : OpOK g op) (hs : step g op = .ok g') :
    (∀ x, x ∉ touched g op → g'.par x = g.par x) ∧
    (∀ x, x < g.n → (∀ nm, op ≠ .setName x nm) → g'.name x = g.name x) ∧
    (∀ x, x < g.n → (∀ pl, op ≠ .setPayload x pl) → g'.payload x = g.payload x) ∧
    (∀ p s, (op = .reverse p → s ≠ .mods) →
      (g'.kids p s).filter (fun x => !(x ∈ touched g op)) = (g.kids p s).filter (fun x => !(x ∈ touched g op))) := by
  have gen : FrameOn (touched g op) g g' →
      (∀ x, x ∉ touched g op → g'.par x = g.par x) ∧
      (∀ x, x < g.n → (∀ nm, op ≠ .setName x nm) → g'.name x = g.name x) ∧
      (∀ x, x < g.n → (∀ pl, op ≠ .setPayload x pl) → g'.payload x = g.payload x) ∧
      (∀ p s, (op = .reverse p → s ≠ .mods) →
        (g'.kids p s).filter (fun x => !(x ∈ touched g op)) = (g.kids p s).filter (fun x => !(x ∈ touched g op))) :=
    fun hF => ⟨hF.par, fun x _ _ => by rw [hF.name], fun x _ _ => by rw [hF.payload], fun p s _ => hF.kids p s⟩
  cases op with
  | reverse i =>
    simp only [step] at hs; cases hs
    refine ⟨fun _ _ => rfl, fun _ _ _ => rfl, fun _ _ _ => rfl, ?_⟩
    intro p s hps
    unfold modReverse
    rw [kidsSet_kids, if_neg]
    rintro ⟨rfl, rfl⟩
    exact hps rfl rfl
  | setName v nm =>
    simp only [step] at hs; cases hs
    have hc := setName_core g v nm
    refine ⟨fun x _ => ?_, fun x _ hx => ?_, fun x _ _ => ?_, fun p s _ => ?_⟩
    · have := congrArg (fun X => G.par X x) hc; exact this
    · have := congrArg (fun X => G.name X x) hc
      simp only [core_name] at this
      rw [this, if_neg]
      intro e; exact hx nm (by rw [e])
    · have := congrArg (fun X => G.payload X x) hc; exact this
    · have := congrArg (fun X => G.kids X p s) hc
      simp only [core_kids] at this
      rw [this]
  | setPayload v pl =>
    simp only [step] at hs; cases hs
    have hc := setPayload_core g v pl
    refine ⟨fun x _ => ?_, fun x _ _ => ?_, fun x _ hx => ?_, fun p s _ => ?_⟩
    · have := congrArg (fun X => G.par X x) hc; exact this
    · have := congrArg (fun X => G.name X x) hc; exact this
    · have := congrArg (fun X => G.payload X x) hc
      simp only [core_payload] at this
      rw [this, if_neg]
      intro e; exact hx pl (by rw [e])
    · have := congrArg (fun X => G.kids X p s) hc
      simp only [core_kids] at this
      rw [this]
  | mkSym u nm pl parent =>
    simp only [step, Gtirb.Forest.alloc] at hs
    -- the state after allocation and initialisation of the two attributes
    have hA := frameOn_alloc h [g.n] .symbol u
    have key : ∀ g2 : G, FrameOn [g.n] g2 g' → g2.par = (Gtirb.Forest.alloc g .symbol u).1.par →
        g2.kids = (Gtirb.Forest.alloc g .symbol u).1.kids →
        (∀ x, x < g.n → g2.name x = g.name x) → (∀ x, x < g.n → g2.payload x = g.payload x) →
        (∀ x, x ∉ [g.n] → g'.par x = g.par x) ∧
        (∀ x, x < g.n → (∀ nm', Op.mkSym u nm pl parent ≠ .setName x nm') → g'.name x = g.name x) ∧
        (∀ x, x < g.n → (∀ pl', Op.mkSym u nm pl parent ≠ .setPayload x pl') → g'.payload x = g.payload x) ∧
        (∀ p s, (Op.mkSym u nm pl parent = .reverse p → s ≠ .mods) →
          (g'.kids p s).filter (fun x => !(x ∈ [g.n])) = (g.kids p s).filter (fun x => !(x ∈ [g.n]))) := by
      intro g2 hF e1 e2 e3 e4
      refine ⟨fun x hx => ?_, fun x hx _ => ?_, fun x hx _ => ?_, fun p s _ => ?_⟩
      · rw [hF.par x hx, e1]; exact hA.par x hx
      · rw [hF.name]; exact e3 x hx
      · rw [hF.payload]; exact e4 x hx
      · rw [hF.kids p s, e2]; exact hA.kids p s
    split at hs
    · exact key _ (setParent_frame List.mem_cons_self hs) rfl rfl
        (fun x hx => by simp [Nat.ne_of_lt hx]) (fun x hx => by simp [Nat.ne_of_lt hx])
    · cases hs
      exact key _ (.refl _ _) rfl rfl
        (fun x hx => by simp [Nat.ne_of_lt hx]) (fun x hx => by simp [Nat.ne_of_lt hx])
  | _ => exact gen (step_frameOn h hop hs trivial)

/-- the same with the hypothesis on the collection in terms of membership: a collection that no
touched node belongs to, before or after, keeps its contents and order -/
theorem C04_frame_kids (g g' : G) (op : Op) (h : ForestInv g) (hop : OpOK g op) (hs : step g op = .ok g')
    (p : Nat) (s : Slot) (hT : ∀ c, c ∈ touched g op → c ∉ g.kids p s ∧ c ∉ g'.kids p s)
    (hr : op = .reverse p → s ≠ .mods) : g'.kids p s = g.kids p s := by
  have := (C04_frame_order g g' op h hop hs).2.2.2 p s hr
  rw [List.filter_eq_self.2, List.filter_eq_self.2] at this
  · exact this
  · intro x hx
    have : x ∉ touched g op := fun hh => (hT x hh).1 hx
    simp [this]
  · intro x hx
    have : x ∉ touched g op := fun hh => (hT x hh).2 hx
    simp [this]

/-- P5 (C04, frame): nodes not named by an operation keep their parent, name and payload, and the
collections of a parent that no touched node belongs to (before or after) keep their contents. -/
theorem C04_frame (g g' : G) (op : Op) (h : ForestInv g) (hop : OpOK g op) (hs : step g op = .ok g') :
    (∀ x, x < g.n → x ∉ touched g op → g'.par x = g.par x) ∧
    (∀ x, x < g.n → (∀ nm, op ≠ .setName x nm) → g'.name x = g.name x) ∧
    (∀ x, x < g.n → (∀ pl, op ≠ .setPayload x pl) → g'.payload x = g.payload x) ∧
    (∀ p s, (∀ c ∈ touched g op, g.par c ≠ some p ∧ g'.par c ≠ some p) → (∀ i, op ≠ .reverse i ∨ p ≠ i) →
        g'.kids p s = g.kids p s) := by
  obtain ⟨h1, h2, h3, _⟩ := C04_frame_order g g' op h hop hs
  have h' := C04_step g g' op h hop hs
  refine ⟨fun x _ hx => h1 x hx, h2, h3, ?_⟩
  intro p s hT hr
  apply C04_frame_kids g g' op h hop hs p s
  · intro c hc
    exact ⟨fun hm => (hT c hc).1 ((h.mem_iff c p s).1 hm).1, fun hm => (hT c hc).2 ((h'.mem_iff c p s).1 hm).1⟩
  · intro e
    rcases hr p with hr | hr
    · exact absurd e hr
    · exact absurd rfl hr

/-! ### P5 on concrete states

IR 0, modules 1 and 2 in it, symbol 3 (name 7) in module 1, symbol 4 in module 2, IR 5 with module 6. -/

def frBase : List Op :=
  [.mkIR 100, .mk .module 101 [] (some 0), .mk .module 102 [] (some 0), .mkSym 103 7 (.int 3) (some 1),
   .mkSym 104 7 .none (some 2), .mkIR 105, .mk .module 106 [] (some 5)]

/-- `m2.symbols.add(s3)`: only node 3 is touched; it moves from module 1 to module 2; symbol 4, both
module lists and the names are as before -/
example :
    let g := run {} frBase
    let g' := run g [.add 2 .syms 3]
    touched g (.add 2 .syms 3) = [3] ∧ g.par 3 = some 1 ∧ g'.par 3 = some 2 ∧ g'.par 4 = g.par 4 ∧
      g'.kids 0 .mods = g.kids 0 .mods ∧ g'.kids 5 .mods = g.kids 5 .mods ∧
      g.kids 1 .syms = [3] ∧ g'.kids 1 .syms = [] ∧ g'.kids 2 .syms = [4, 3] ∧ g'.name 3 = 7 := by decide

/-- `ir0.modules[0] = m6`: touched are the new value 6 and the replaced element 1; module 2 stays at
its position, IR 5 loses module 6 (a touched node was in that list, so the frame says nothing there) -/
example :
    let g := run {} frBase
    let g' := run g [.setItem 0 0 6]
    touched g (.setItem 0 0 6) = [6, 1] ∧ g'.kids 0 .mods = [6, 2] ∧ g'.kids 5 .mods = [] ∧
      g'.par 2 = g.par 2 ∧ g'.kids 1 .syms = g.kids 1 .syms ∧ g'.kids 2 .syms = g.kids 2 .syms := by decide

/-- `reverse` touches no node and reorders one list -/
example :
    let g := run {} frBase
    let g' := run g [.reverse 0]
    touched g (.reverse 0) = [] ∧ g'.kids 0 .mods = [2, 1] ∧ g'.kids 5 .mods = g.kids 5 .mods := by decide

/-! ### P6: the constructors, the parent setter and the attribute setters never raise -/

/-- the operations that are not collection operations -/
def setterOp : Op → Bool
  | .setParent _ _ | .mk _ _ _ _ | .mkSym _ _ _ _ | .mkIR _ | .setName _ _ | .setPayload _ _ => true
  | _ => false

theorem fr_step_mkSym_ok {g : G} (hf : ForestInv g) (hc : CacheInv g) (hd : Distinct g) {u nm : Nat}
    {pl : Payload} {parent : Option Nat} (hop : OpOK g (.mkSym u nm pl parent)) :
    ∃ g', step g (.mkSym u nm pl parent) = .ok g' := by
  have hall := cache_alloc_all hf hc hd (k := .symbol) (by decide) u
  have hsame : CacheSame (alloc g .symbol u).1
      { (alloc g .symbol u).1 with
        name := fun x => if x = g.n then nm else (alloc g .symbol u).1.name x,
        payload := fun x => if x = g.n then pl else (alloc g .symbol u).1.payload x } :=
    ⟨rfl, rfl, rfl, rfl, rfl, rfl⟩
  cases parent with
  | none => exact ⟨_, rfl⟩
  | some p =>
    show ∃ g', setParent { (alloc g .symbol u).1 with
        name := fun x => if x = g.n then nm else (alloc g .symbol u).1.name x,
        payload := fun x => if x = g.n then pl else (alloc g .symbol u).1.payload x } g.n (some p) = .ok g'
    obtain ⟨hpn, hkp⟩ := hop.2 p rfl
    obtain ⟨g', h1, _⟩ := cache_setParent_ok (hsame.forest hall.forest)
      (hsame.cacheInv hall.cacheInv) (hsame.distinct hall.distinct) (c := g.n) (p := some p)
      (show g.n < g.n + 1 by omega)
      (by show (alloc g .symbol u).1.kind g.n ≠ .ir; rw [cache_alloc_kind_new]; decide)
      (by
        intro q hq; cases hq
        refine ⟨show p < g.n + 1 by omega, ?_⟩
        show parentKind ((alloc g .symbol u).1.kind g.n) = some ((alloc g .symbol u).1.kind p)
        rw [cache_alloc_kind_new, cache_alloc_kind_old g _ u hpn, hkp]; rfl)
    exact ⟨g', h1⟩

theorem fr_step_mk_ok {g : G} (hf : ForestInv g) (hc : CacheInv g) (hd : Distinct g) {k : Kind} {u : Nat}
    {kids : List (Slot × List Nat)} {parent : Option Nat} (hop : OpOK g (.mk k u kids parent)) :
    ∃ g', step g (.mk k u kids parent) = .ok g' := by
  obtain ⟨hk1, hk2, hkids, hpar⟩ := hop
  have hall := cache_alloc_all hf hc hd hk1 u
  have hdt : CacheDT (alloc g k u).1 g.n (alloc g k u).1 :=
    ⟨hall, by show (if g.n = g.n then none else g.par g.n) = none; simp,
     by rw [cache_alloc_kind_new]; exact hk1, show g.n < g.n + 1 by omega⟩
  obtain ⟨g2, h2, hdt2⟩ := cache_DT_children kids (alloc g k u).1 hdt (by
    intro sv hsv x hx
    obtain ⟨a, b, c⟩ := hkids sv hsv x hx
    refine ⟨show x < g.n + 1 by omega, ?_, ?_⟩
    · rw [cache_alloc_kind_old g k u a]; exact b
    · rw [cache_alloc_kind_old g k u a, cache_alloc_kind_new]; exact c)
  have hkk : ¬ (k = .ir ∨ k = .symbol) := by intro h; rcases h with h | h; exact hk1 h; exact hk2 h
  cases parent with
  | none =>
    show ∃ g', (if k = .ir ∨ k = .symbol then .error .badOp else
      bindE (kids.foldl (fun acc (sv : Slot × List Nat) =>
               bindE acc fun g' =>
                 if sv.1 = .blocks then blkUpdate g' g.n sv.2
                 else foldE (fun g' x => setAdd g' g.n sv.1 x) sv.2 g') (.ok (alloc g k u).1))
        fun g2 => .ok g2) = .ok g'
    rw [if_neg hkk, h2]
    exact ⟨g2, rfl⟩
  | some p =>
    show ∃ g', (if k = .ir ∨ k = .symbol then .error .badOp else
      bindE (kids.foldl (fun acc (sv : Slot × List Nat) =>
               bindE acc fun g' =>
                 if sv.1 = .blocks then blkUpdate g' g.n sv.2
                 else foldE (fun g' x => setAdd g' g.n sv.1 x) sv.2 g') (.ok (alloc g k u).1))
        fun g2 => setParent g2 g.n (some p)) = .ok g'
    rw [if_neg hkk, h2]
    show ∃ g', setParent g2 g.n (some p) = .ok g'
    obtain ⟨hpn, hkp⟩ := hpar p rfl
    obtain ⟨g', h1, _⟩ := cache_setParent_ok hdt2.forest hdt2.cacheInv hdt2.distinct
      (c := g.n) (p := some p) (by rw [hdt2.n]; exact hdt2.tn) (by rw [hdt2.kind]; exact hdt2.kt)
      (by
        intro q hq; cases hq
        refine ⟨by rw [hdt2.n]; show p < g.n + 1; omega, ?_⟩
        rw [hdt2.kind, cache_alloc_kind_new, cache_alloc_kind_old g k u hpn]; exact hkp)
    exact ⟨g', h1⟩

/-- P6. In a consistent state whose UUIDs are pairwise distinct per IR, the parent setter of every
kind, the constructors (children arguments and parent argument included) and the attribute setters
succeed: the theorems about them that assume `step g op = .ok g'` (`C04_move_setParent`,
`C04_move_mk`, `C04_detach_setParent`, `C04_frame`, ...) are not vacuous. -/
theorem C16_setters_never_raise (g : G) (op : Op) (h : ForestInv g) (hc : CacheInv g) (hd : Distinct g)
    (hop : OpOK g op) (hk : setterOp op = true) : ∃ g', step g op = .ok g' := by
  cases op with
  | mkIR u => exact ⟨_, rfl⟩
  | setName v nm => exact ⟨_, rfl⟩
  | setPayload v pl => exact ⟨_, rfl⟩
  | setParent c p =>
    obtain ⟨g', h1, _⟩ := cache_setParent_ok h hc hd (c := c) (p := p) hop.1 hop.2.1 hop.2.2
    exact ⟨g', h1⟩
  | mkSym u nm pl parent => exact fr_step_mkSym_ok h hc hd hop
  | mk k u kids parent => exact fr_step_mk_ok h hc hd hop
  | _ => simp [setterOp] at hk

/-- the statement in the form proposed by the review (the hypothesis as a `match`) -/
theorem C16_setters_never_raise' (g : G) (op : Op) (h : ForestInv g) (hc : CacheInv g) (hd : Distinct g)
    (hop : OpOK g op)
    (hk : match op with
          | .setParent _ _ | .mk _ _ _ _ | .mkSym _ _ _ _ | .mkIR _ | .setName _ _ | .setPayload _ _ => True
          | _ => False) : ∃ g', step g op = .ok g' := by
  apply C16_setters_never_raise g op h hc hd hop
  cases op <;> first | rfl | exact hk.elim

/-- every operation either succeeds or fails with a built-in's guard exception / a marker, the
constructors and setters included (closes the `True` branch of `wr_builtinError`): under the
hypotheses of C03 a public operation fails only as `wr_builtinError` says, and that predicate is
never consulted for a setter -/
theorem C16_error_exact_full (g : G) (op : Op) (e : Exc) (h : ForestInv g) (hc : CacheInv g) (hd : Distinct g)
    (hop : OpOK g op) (hfine : DistinctFine g op) (he : step g op = .error e) :
    setterOp op = false ∧ wr_builtinError g op e := by
  have hns : setterOp op = false := by
    cases hk : setterOp op with
    | false => rfl
    | true =>
      obtain ⟨g', hg'⟩ := C16_setters_never_raise g op h hc hd hop hk
      rw [hg'] at he; cases he
  refine ⟨hns, ?_⟩
  rcases C16_error_exact g op e h hop he with h1 | h1
  · rw [h1] at he
    exact absurd he (C03_no_cache_keyerror_fine g op h hc hd hop hfine)
  · exact h1

/-- the marker `outside` is raised for the pattern of the known finding K1 and for nothing else:
`modules[k] = v` where `v` is in the same list at a position other than `k` -/
theorem C16_outside_iff_K1 (g : G) (op : Op) (h : ForestInv g) (hc : CacheInv g) (hd : Distinct g)
    (hop : OpOK g op) (hfine : DistinctFine g op) :
    step g op = .error .outside ↔
      ∃ i k v idx old, op = .setItem i k v ∧ pyIndex (g.kids i .mods).length k = some idx ∧
        (g.kids i .mods)[idx]? = some old ∧ v ∈ g.kids i .mods ∧ v ≠ old := by
  constructor
  · intro he
    obtain ⟨hns, hb⟩ := C16_error_exact_full g op .outside h hc hd hop hfine he
    cases op with
    | setItem i k v =>
      rcases hb with hb | hb
      · cases hb.1
      · obtain ⟨idx, old, h1, h2, h3, h4⟩ := hb.2
        exact ⟨i, k, v, idx, old, rfl, h1, h2, h3, h4⟩
    | remove p s v => cases hb.1
    | pop p s v => rcases hb with hb | hb <;> cases hb.1
    | clear p s order => cases hb.1
    | iand p s vs order => cases hb.1
    | listRemove i v => cases hb.1
    | delItem i k => cases hb.1
    | listPop i k => cases hb.1
    | mkIR u => simp [setterOp] at hns
    | mk k u kids parent => simp [setterOp] at hns
    | mkSym u nm pl parent => simp [setterOp] at hns
    | setParent c p => simp [setterOp] at hns
    | setName v nm => simp [setterOp] at hns
    | setPayload v pl => simp [setterOp] at hns
    | _ => exact hb.elim
  · rintro ⟨i, k, v, idx, old, rfl, h1, h2, h3, h4⟩
    exact (C16_setItem_outside_iff g i k v).2 ⟨idx, old, h1, h2, h3, h4⟩

/-- non-vacuity of P6: a constructor with children and parent arguments, and a parent setter that
moves a module to another IR, issued in a reachable state; both succeed -/
example : cacheIsOk (step (run {} frBase) (.mk .module 107 [(.syms, [3, 4])] (some 5))) = true ∧
    cacheIsOk (step (run {} frBase) (.setParent 1 (some 5))) = true ∧
    cacheIsOk (step (run {} frBase) (.mkSym 108 1 (.int 0) (some 6))) = true := by decide

/-! ### the no-K1 hypothesis of `C03NoRollback.lean`, in terms of the operations themselves -/

/-- the history never performs `modules[k] = v` with `v` at another position of the same list -/
def NoK1 (g : G) (ops : List Op) : Prop :=
  ∀ pre i k v, pre ++ [Op.setItem i k v] <+: ops → ∀ idx old,
    pyIndex ((run g pre).kids i .mods).length k = some idx → ((run g pre).kids i .mods)[idx]? = some old →
    v ∈ (run g pre).kids i .mods → v = old

/-- under the hypotheses of C03, `NoK1` is exactly the hypothesis `hK1` of the history theorems -/
theorem C16_noK1_iff (ops : List Op) (hops : OpsOK {} ops) (hd : DistinctAlongFine {} ops) :
    (∀ pre op, pre ++ [op] <+: ops → step (run {} pre) op ≠ .error .outside) ↔ NoK1 {} ops := by
  constructor
  · intro hK1 pre i k v hpre idx old h1 h2 h3
    apply Classical.byContradiction
    intro hne
    exact hK1 pre _ hpre ((C16_setItem_outside_iff _ i k v).2 ⟨idx, old, h1, h2, h3, hne⟩)
  · intro hno pre op hpre he
    obtain ⟨a, b, c, d, e⟩ := nr_step_hyps {} C04_init C03_init ops hops hd pre op hpre
    obtain ⟨i, k, v, idx, old, rfl, h1, h2, h3, h4⟩ := (C16_outside_iff_K1 _ op a b c d e).1 he
    exact h4 (hno pre i k v hpre idx old h1 h2 h3)

/-- the bridge of `C03NoRollback.lean` with both hypotheses about the history itself: UUIDs distinct
per IR at every moment, and no item assignment of a module that is elsewhere in the same list. Then
nothing is ever rolled back except the built-ins' guard exceptions, and the strict run is the run. -/
theorem C03_runStrict_total_noK1 (ops : List Op) (hops : OpsOK {} ops) (hd : DistinctAlongFine {} ops)
    (hno : NoK1 {} ops) : runStrict {} ops = some (run {} ops) :=
  C03_runStrict_total ops hops hd ((C16_noK1_iff ops hops hd).2 hno)

end Gtirb.Forest
