import GtirbProofs.Props.C14
/-! C14 over whole histories: the one-step theorems of `C14.lean` lifted to arbitrary
sequences of `read` / `.data = v` / `.type_name = s` / `save` on one table. -/
namespace Gtirb.AuxTable
open Gtirb.Codec

inductive Act where
  | read
  | assignData (d : Data)
  | assignType (s : String)
  | save

/-- one action; a failing read / save leaves the table as `read` / `save` leave it -/
def act (lookup : Bytes → Option Nat) (nu : Nat → Bytes) (t : Table) : Act → Table
  | .read => match read lookup t with | .ok (t', _) => t' | .error _ => t
  | .assignData d => assignData t d
  | .assignType s => assignType t s
  | .save => (save lookup nu t).1

def runActs (lookup : Bytes → Option Nat) (nu : Nat → Bytes) (t : Table) (as : List Act) : Table :=
  as.foldl (act lookup nu) t

/-- the raw bytes, while present, are the loaded ones and the value has never been handed out
or replaced -/
def TableInv (name : String) (bs : Bytes) (t : Table) : Prop :=
  ∀ r tn, t.raw = some (r, tn) → r = bs ∧ tn = name ∧ t.data = none

theorem runActs_nil (lookup : Bytes → Option Nat) (nu : Nat → Bytes) (t : Table) :
    runActs lookup nu t [] = t := rfl

theorem runActs_cons (lookup : Bytes → Option Nat) (nu : Nat → Bytes) (t : Table) (a : Act)
    (as : List Act) : runActs lookup nu t (a :: as) = runActs lookup nu (act lookup nu t a) as := rfl

theorem runActs_append (lookup : Bytes → Option Nat) (nu : Nat → Bytes) (t : Table)
    (as bs : List Act) :
    runActs lookup nu t (as ++ bs) = runActs lookup nu (runActs lookup nu t as) bs := by
  simp [runActs, List.foldl_append]

/-! ### what one action does to the raw bytes -/

/-- the table a read leaves behind: unchanged, or the raw bytes dropped -/
theorem act_read_cases (lookup : Bytes → Option Nat) (nu : Nat → Bytes) (t : Table) :
    act lookup nu t .read = t ∨ (act lookup nu t .read).raw = none := by
  simp only [act]
  split
  · rename_i t' d h
    exact .inr (C14_read_drops_raw lookup t t' d h).1
  · exact .inl rfl

/-- the table a save leaves behind: unchanged, or the raw bytes dropped -/
theorem act_save_cases (lookup : Bytes → Option Nat) (nu : Nat → Bytes) (t : Table) :
    act lookup nu t .save = t ∨ (act lookup nu t .save).raw = none := by
  simp only [act]
  rcases C14_save_state lookup nu t with h | ⟨d, h⟩
  · exact .inl h
  · exact .inr (C14_read_drops_raw lookup t _ d h).1

/-- every action keeps the raw bytes as they are (up to the type name next to them, which
`assignType` does not touch either) or drops them -/
theorem act_raw_cases (lookup : Bytes → Option Nat) (nu : Nat → Bytes) (t : Table) (a : Act) :
    ((act lookup nu t a).raw = t.raw ∧ (act lookup nu t a).data = t.data) ∨
      (act lookup nu t a).raw = none := by
  cases a with
  | read =>
    rcases act_read_cases lookup nu t with h | h
    · exact .inl ⟨by rw [h], by rw [h]⟩
    · exact .inr h
  | assignData d => exact .inr rfl
  | assignType s => exact .inl ⟨rfl, rfl⟩
  | save =>
    rcases act_save_cases lookup nu t with h | h
    · exact .inl ⟨by rw [h], by rw [h]⟩
    · exact .inr h

theorem TableInv_act (lookup : Bytes → Option Nat) (nu : Nat → Bytes) (name : String) (bs : Bytes)
    (t : Table) (a : Act) (h : TableInv name bs t) : TableInv name bs (act lookup nu t a) := by
  intro r tn hr
  rcases act_raw_cases lookup nu t a with ⟨h1, h2⟩ | h1
  · rw [h1] at hr
    rw [h2]
    exact h r tn hr
  · rw [h1] at hr
    cases hr

theorem TableInv_runActs (lookup : Bytes → Option Nat) (nu : Nat → Bytes) (name : String)
    (bs : Bytes) (as : List Act) (t : Table) (h : TableInv name bs t) :
    TableInv name bs (runActs lookup nu t as) := by
  induction as generalizing t with
  | nil => exact h
  | cons a as ih => exact ih _ (TableInv_act lookup nu name bs t a h)

theorem TableInv_load (name : String) (bs : Bytes) : TableInv name bs (load name bs) := by
  intro r tn hr
  simp only [load, Option.some.injEq, Prod.mk.injEq] at hr
  exact ⟨hr.1.symm, hr.2.symm, rfl⟩

/-- over any history the raw bytes, while present, are the loaded ones under the loaded name,
and no value has been handed out or stored -/
theorem C14_history_inv (lookup : Bytes → Option Nat) (nu : Nat → Bytes) (name : String)
    (bs : Bytes) (as : List Act) : TableInv name bs (runActs lookup nu (load name bs) as) :=
  TableInv_runActs lookup nu name bs as _ (TableInv_load name bs)

/-! ### once dropped, the raw bytes never come back -/

theorem act_raw_none (lookup : Bytes → Option Nat) (nu : Nat → Bytes) (t : Table) (a : Act)
    (h : t.raw = none) : (act lookup nu t a).raw = none := by
  rcases act_raw_cases lookup nu t a with ⟨h1, _⟩ | h1
  · rw [h1, h]
  · exact h1

theorem C14_raw_monotone (lookup : Bytes → Option Nat) (nu : Nat → Bytes) (t : Table)
    (as : List Act) (h : t.raw = none) : (runActs lookup nu t as).raw = none := by
  induction as generalizing t with
  | nil => exact h
  | cons a as ih => exact ih _ (act_raw_none lookup nu t a h)

/-- the raw bytes of any prefix of a history that ends without them are irrelevant: they are
gone at every later point as well -/
theorem C14_raw_monotone_suffix (lookup : Bytes → Option Nat) (nu : Nat → Bytes) (t : Table)
    (as bs : List Act) (h : (runActs lookup nu t as).raw = none) :
    (runActs lookup nu t (as ++ bs)).raw = none := by
  rw [runActs_append]
  exact C14_raw_monotone lookup nu _ bs h

/-! ### clause 1 over histories -/

def touches : Act → Bool
  | .read => true
  | .assignData _ => true
  | _ => false

/-- a history of saves and same-name type assignments leaves the loaded table exactly as it
was loaded -/
theorem runActs_untouched (lookup : Bytes → Option Nat) (nu : Nat → Bytes) (name : String)
    (bs : Bytes) (as : List Act) (hq : ∀ a ∈ as, touches a = false)
    (hn : ∀ a ∈ as, ∀ s, a = .assignType s → s = name) :
    runActs lookup nu (load name bs) as = load name bs := by
  induction as with
  | nil => rfl
  | cons a as ih =>
    rw [runActs_cons]
    have ha : act lookup nu (load name bs) a = load name bs := by
      cases a with
      | read => exact absurd (hq _ (List.mem_cons_self ..)) (by simp [touches])
      | assignData d => exact absurd (hq _ (List.mem_cons_self ..)) (by simp [touches])
      | assignType s =>
        have := hn _ (List.mem_cons_self ..) s rfl
        subst this
        rfl
      | save => simp [act, C14_untouched]
    rw [ha]
    exact ih (fun a h => hq a (List.mem_cons_of_mem _ h)) (fun a h => hn a (List.mem_cons_of_mem _ h))

/-- clause 1 over histories: as long as no action read or replaced the value and every type
name assigned is the loaded one, `save` writes the loaded bytes under the loaded name, whatever
saves and same-name type assignments happened -/
theorem C14_untouched_history (lookup : Bytes → Option Nat) (nu : Nat → Bytes) (name : String)
    (bs : Bytes) (as : List Act) (hq : ∀ a ∈ as, touches a = false)
    (hn : ∀ a ∈ as, ∀ s, a = .assignType s → s = name) :
    (save lookup nu (runActs lookup nu (load name bs) as)).2 = .ok (name, bs) := by
  rw [runActs_untouched lookup nu name bs as hq hn, C14_untouched]

/-- a stronger form of clause 1 that looks at the state only: after ANY history (reads that
failed, type names that were changed and changed back, ...), if the raw bytes are still there
and the current type name is the loaded one, `save` writes the loaded bytes under the loaded
name and leaves the table as it is -/
theorem C14_untouched_state (lookup : Bytes → Option Nat) (nu : Nat → Bytes) (name : String)
    (bs : Bytes) (as : List Act) (t : Table) (ht : t = runActs lookup nu (load name bs) as)
    (hraw : t.raw.isSome) (hname : t.typeName = name) :
    save lookup nu t = (t, .ok (name, bs)) := by
  have hinv := C14_history_inv lookup nu name bs as
  rw [← ht] at hinv
  cases hr : t.raw with
  | none => rw [hr] at hraw; cases hraw
  | some p =>
    obtain ⟨r, tn⟩ := p
    obtain ⟨h1, h2, _⟩ := hinv r tn hr
    subst h1 h2
    unfold save
    simp [hr, hname]

/-- ... and when the current type name differs from the loaded one, `save` decodes the loaded
bytes under the LOADED name and encodes under the current one (the history form of `C14_retype`) -/
theorem C14_retyped_state (lookup : Bytes → Option Nat) (nu : Nat → Bytes) (name : String)
    (bs : Bytes) (as : List Act) (t : Table) (ht : t = runActs lookup nu (load name bs) as)
    (hraw : t.raw.isSome) (hname : t.typeName ≠ name) :
    (save lookup nu t).2 =
      (match decodeTop lookup name bs with
       | .ok d => (match encodeTop nu t.typeName d with
                   | .ok out => .ok (t.typeName, out)
                   | .error e => .error e)
       | .error e => .error e) := by
  have hinv := C14_history_inv lookup nu name bs as
  rw [← ht] at hinv
  cases hr : t.raw with
  | none => rw [hr] at hraw; cases hraw
  | some p =>
    obtain ⟨r, tn⟩ := p
    obtain ⟨h1, h2, _⟩ := hinv r tn hr
    subst h1 h2
    unfold save
    simp only [hr, if_neg hname, read]
    cases decodeTop lookup tn r with
    | error e => rfl
    | ok d =>
      simp only
      cases encodeTop nu t.typeName d <;> rfl

/-! ### clause 2 over histories -/

/-- clause 2 over histories: after any history, if the raw bytes are gone then `save` writes
exactly the encoding of the current data under the current name (or the corresponding error) -/
theorem C14_current_history (lookup : Bytes → Option Nat) (nu : Nat → Bytes) (name : String)
    (bs : Bytes) (as : List Act) (t : Table) (_ht : t = runActs lookup nu (load name bs) as)
    (hraw : t.raw = none) (d : Data) (hd : t.data = some d) :
    (save lookup nu t).2 =
      (match encodeTop nu t.typeName d with
       | .ok out => .ok (t.typeName, out)
       | .error e => .error e) := by
  rw [C14_current_full lookup nu t d hraw hd]
  cases encodeTop nu t.typeName d <;> rfl

/-- the `hd` hypothesis of `C14_current_history` is always met: in a history that starts with a
load, a table without raw bytes has data -/
def HasData (t : Table) : Prop := t.raw = none → t.data.isSome

theorem HasData_act (lookup : Bytes → Option Nat) (nu : Nat → Bytes) (t : Table) (a : Act)
    (h : HasData t) : HasData (act lookup nu t a) := by
  have hread : ∀ t' d, read lookup t = .ok (t', d) → HasData t' := by
    intro t' d hr _
    rw [(C14_read_drops_raw lookup t t' d hr).2.1]; rfl
  cases a with
  | read =>
    simp only [act]
    split
    · rename_i t' d hr; exact hread t' d hr
    · exact h
  | assignData d => intro _; rfl
  | assignType s => exact h
  | save =>
    simp only [act]
    rcases C14_save_state lookup nu t with hs | ⟨d, hs⟩
    · rw [hs]; exact h
    · exact hread _ d hs

theorem C14_history_has_data (lookup : Bytes → Option Nat) (nu : Nat → Bytes) (name : String)
    (bs : Bytes) (as : List Act) (hraw : (runActs lookup nu (load name bs) as).raw = none) :
    ∃ d, (runActs lookup nu (load name bs) as).data = some d := by
  have : ∀ (t : Table), HasData t → HasData (runActs lookup nu t as) := by
    clear hraw
    induction as with
    | nil => exact fun t h => h
    | cons a as ih => exact fun t h => ih _ (HasData_act lookup nu t a h)
  have h := this (load name bs) (fun h' => by simp [load] at h') hraw
  exact Option.isSome_iff_exists.mp h

/-! ### ... and the raw bytes are gone as soon as a read succeeded or data was assigned -/

theorem C14_touched_drops (lookup : Bytes → Option Nat) (nu : Nat → Bytes) (t : Table) (d : Data) :
    (act lookup nu t (.assignData d)).raw = none := rfl

theorem C14_read_ok_drops (lookup : Bytes → Option Nat) (nu : Nat → Bytes) (t t' : Table)
    (d : Data) (h : read lookup t = .ok (t', d)) : (act lookup nu t .read).raw = none := by
  simp only [act, h]
  exact (C14_read_drops_raw lookup t t' d h).1

/-- a history containing an `assignData`, or a `read` that succeeded, ends without raw bytes -/
theorem C14_touched_history (lookup : Bytes → Option Nat) (nu : Nat → Bytes) (t : Table)
    (as bs : List Act) (a : Act)
    (ha : (∃ d, a = .assignData d) ∨
      (a = .read ∧ ∃ t' d, read lookup (runActs lookup nu t as) = .ok (t', d))) :
    (runActs lookup nu t (as ++ a :: bs)).raw = none := by
  rw [runActs_append, runActs_cons]
  apply C14_raw_monotone
  rcases ha with ⟨d, rfl⟩ | ⟨rfl, t', d, h⟩
  · exact C14_touched_drops lookup nu _ d
  · exact C14_read_ok_drops lookup nu _ t' d h

/-! ### non-vacuity -/

section Examples

/-- save, same-name retype, save, save: the loaded bytes, also under a malformed name -/
example : (save (fun _ => none) (fun _ => [])
    (runActs (fun _ => none) (fun _ => []) (load "mapping<<" [1, 2, 3])
      [.save, .assignType "mapping<<", .save, .save])).2 = .ok ("mapping<<", [1, 2, 3]) :=
  C14_untouched_history _ _ _ _ _ (by simp [touches]) (by simp)

/-- a failing read (malformed name) does not drop the bytes: the state form applies -/
example : save (fun _ => none) (fun _ => [])
    (runActs (fun _ => none) (fun _ => []) (load "mapping<<" [1, 2, 3]) [.read, .save]) =
    (runActs (fun _ => none) (fun _ => []) (load "mapping<<" [1, 2, 3]) [.read, .save],
      .ok ("mapping<<", [1, 2, 3])) := by
  have hp : TypeName.parseType "mapping<<".toList = none := by
    simp [TypeName.parseType, TypeName.tokenize, TypeName.tokenizeAux, TypeName.isDelim,
      TypeName.delimTok, TypeName.parseT, TypeName.parseArgs]
  have hd : decodeTop (fun _ => none) "mapping<<" [1, 2, 3] = .error .typeName := by
    simp only [decodeTop, hp]
  have hr : runActs (fun _ => none) (fun _ => []) (load "mapping<<" [1, 2, 3]) [.read, .save] =
      load "mapping<<" [1, 2, 3] := by
    have h1 : act (fun _ => none) (fun _ => []) (load "mapping<<" [1, 2, 3]) .read =
        load "mapping<<" [1, 2, 3] := by
      simp only [act, read, load, hd]
    simp only [runActs, List.foldl_cons, List.foldl_nil, h1]
    simp only [act, C14_untouched]
  exact C14_untouched_state _ _ "mapping<<" [1, 2, 3] [.read, .save] _ rfl (by rw [hr]; rfl)
    (by rw [hr]; rfl)

/-- assign, retype, save: the raw bytes are gone and stay gone -/
example (v : Val) (s : String) (as : List Act) :
    (runActs (fun _ => none) (fun _ => []) (load "uint8_t" [7])
      ([.save] ++ .assignData (.val v) :: (.assignType s :: as))).raw = none :=
  C14_touched_history _ _ _ _ _ _ (.inl ⟨_, rfl⟩)

end Examples

end Gtirb.AuxTable
