import GtirbProofs.Lemmas.ForestInvProofs
import GtirbProofs.Lemmas.ForestAccessors
/-! C04: the containment forest is kept consistent from both ends by every
public operation of the object graph (model C).

`ForestInv g` (ForestDefs.lean): a node is in a parent's collection iff its
back-pointer names that parent (and the collection is the one of its kind),
nothing appears twice, parents have the right kind, only allocated nodes are
linked. The proofs are in `Lemmas/ForestFrame.lean` (frame lemmas, pure forest
operations) and `Lemmas/ForestInvProofs.lean` (preservation). -/
namespace Gtirb.Forest

/-- one public operation keeps the forest consistent -/
theorem C04_step (g g' : G) (op : Op) (h : ForestInv g) (hop : OpOK g op) (hs : step g op = .ok g') :
    ForestInv g' :=
  forestInv_step h hop hs

/-- the empty state is consistent -/
theorem C04_init : ForestInv ({} : G) := by
  refine ⟨?_, ?_, ?_, ?_⟩
  · intro c p s
    constructor
    · intro h; cases h
    · intro h; cases h.1
  · intro p s; exact List.nodup_nil
  · intro c p h; cases h
  · intro c p h; cases h

/-- any history of well-typed operations from a consistent state (failed ones are skipped) -/
theorem C04_run (ops : List Op) : ∀ (g : G), ForestInv g → OpsOK g ops → ForestInv (run g ops) := by
  induction ops with
  | nil => intro g h _; exact h
  | cons op ops ih =>
    intro g h hops
    obtain ⟨hop, hrest⟩ := hops
    show ForestInv (run (match step g op with | .ok g' => g' | .error _ => g) ops)
    apply ih _ _ hrest
    cases hs : step g op with
    | ok g' => exact C04_step g g' op h hop hs
    | error e => exact h

/-- every reachable state: any history of well-typed operations (failed ones are skipped) -/
theorem C04_history (ops : List Op) (hops : OpsOK {} ops) : ForestInv (run {} ops) :=
  C04_run ops {} C04_init hops

/-- kinds, uuids and allocation are never changed by an operation on existing nodes -/
theorem C04_kind_stable (g g' : G) (op : Op) (hs : step g op = .ok g') :
    g.n ≤ g'.n ∧ ∀ x, x < g.n → g'.kind x = g.kind x ∧ g'.uuid x = g.uuid x :=
  step_grows hs

/-! ### moving a node removes it from its previous parent -/

set_option linter.unusedVariables false in
/-- by assigning the parent attribute -/
theorem C04_move_setParent (g g' : G) (c p q : Nat) (s : Slot) (h : ForestInv g)
    (hop : OpOK g (.setParent c (some p))) (hs : step g (.setParent c (some p)) = .ok g')
    (hq : g.par c = some q) (hne : q ≠ p) : c ∉ g'.kids q s ∧ g'.par c = some p := by
  have hp : g'.par c = some p := setParent_par_self h hop hs
  have h' := C04_step g g' _ h hop hs
  refine ⟨?_, hp⟩
  intro hm
  have := ((h'.mem_iff c q s).1 hm).1
  rw [hp] at this
  exact hne (Option.some.inj this).symm

set_option linter.unusedVariables false in
/-- by adding it to another parent's collection -/
theorem C04_move_add (g g' : G) (p : Nat) (s : Slot) (v q : Nat) (h : ForestInv g) (hop : OpOK g (.add p s v))
    (hs : step g (.add p s v) = .ok g') (hq : g.par v = some q) (hne : q ≠ p) :
    v ∉ g'.kids q s ∧ g'.par v = some p ∧ v ∈ g'.kids p s := by
  have hp : g'.par v = some p := nodeSetAdd_par_self h hop.2 hs
  have h' := C04_step g g' _ h hop hs
  have hk : g'.kind v = g.kind v := ((step_grows hs).2 v hop.2.2.1).1
  refine ⟨?_, hp, ?_⟩
  · intro hm
    have := ((h'.mem_iff v q s).1 hm).1
    rw [hp] at this
    exact hne (Option.some.inj this).symm
  · exact (h'.mem_iff v p s).2 ⟨hp, by rw [hk]; exact hop.2.2.2.1⟩

/-- through a constructor argument: every node passed in a children argument of the constructor of
a non-IR node leaves its previous parent and is owned by the new node (`g.n` is the new node's id) -/
theorem C04_move_mk (g g' : G) (k : Kind) (u : Nat) (kids : List (Slot × List Nat)) (parent : Option Nat)
    (s : Slot) (vs : List Nat) (x q : Nat) (h : ForestInv g) (hop : OpOK g (.mk k u kids parent))
    (hs : step g (.mk k u kids parent) = .ok g') (hsv : (s, vs) ∈ kids) (hx : x ∈ vs)
    (hq : g.par x = some q) : x ∉ g'.kids q s ∧ g'.par x = some g.n ∧ x ∈ g'.kids g.n s := by
  obtain ⟨h', hpars⟩ := step_mk_spec h hop hs
  have hp : g'.par x = some g.n := hpars (s, vs) hsv x hx
  have hxk := hop.2.2.1 (s, vs) hsv x hx
  have hk : g'.kind x = g.kind x := ((step_grows hs).2 x hxk.1).1
  refine ⟨?_, hp, ?_⟩
  · intro hm
    have := ((h'.mem_iff x q s).1 hm).1
    rw [hp] at this
    have hq' := (h.alloc x q hq).2
    rw [← Option.some.inj this] at hq'
    exact Nat.lt_irrefl _ hq'
  · exact (h'.mem_iff x g.n s).2 ⟨hp, by rw [hk]; exact hxk.2.1⟩

set_option linter.unusedVariables false in
/-- into another IR's module list (`insert`; `append` is the same with `k = len`) -/
theorem C04_move_insert (g g' : G) (i : Nat) (k : Int) (v j : Nat) (h : ForestInv g) (hop : OpOK g (.insert i k v))
    (hs : step g (.insert i k v) = .ok g') (hq : g.par v = some j) (hne : j ≠ i) :
    v ∉ g'.kids j .mods ∧ g'.par v = some i ∧ v ∈ g'.kids i .mods := by
  have hp : g'.par v = some i := by rw [modInsert_par hs]; simp
  have h' := C04_step g g' _ h hop hs
  have hk : g'.kind v = g.kind v := ((step_grows hs).2 v hop.2.1).1
  refine ⟨?_, hp, ?_⟩
  · intro hm
    have := ((h'.mem_iff v j .mods).1 hm).1
    rw [hp] at this
    exact hne (Option.some.inj this).symm
  · exact (h'.mem_iff v i .mods).2 ⟨hp, by rw [hk]; exact hop.2.2.1⟩

theorem C04_move_append (g g' : G) (i v j : Nat) (h : ForestInv g) (hop : OpOK g (.append i v))
    (hs : step g (.append i v) = .ok g') (hq : g.par v = some j) (hne : j ≠ i) :
    v ∉ g'.kids j .mods ∧ g'.par v = some i ∧ v ∈ g'.kids i .mods :=
  C04_move_insert g g' i _ v j h hop hs hq hne

/-- assigning `None` to the parent attribute detaches the node from every collection -/
theorem C04_detach_setParent (g g' : G) (c : Nat) (h : ForestInv g) (hop : OpOK g (.setParent c none))
    (hs : step g (.setParent c none) = .ok g') : g'.par c = none ∧ ∀ p s, c ∉ g'.kids p s := by
  have hp : g'.par c = none := setParent_none_par_self h hs
  have h' := C04_step g g' _ h hop hs
  exact ⟨hp, fun p s => h'.not_mem_of_par_none hp p s⟩

/-- `discard` removes the node from the collection and clears its back-pointer -/
theorem C04_discard (g g' : G) (p : Nat) (s : Slot) (v : Nat) (h : ForestInv g)
    (hs : step g (.discard p s v) = .ok g') (hm : v ∈ g.kids p s) :
    g'.par v = none ∧ ∀ p' s', v ∉ g'.kids p' s' := by
  have hp : g'.par v = none := by
    rw [setDiscard_par hs]; simp [hm]
  have h' : ForestInv g' := h.setDiscard hs
  exact ⟨hp, fun p' s' => h'.not_mem_of_par_none hp p' s'⟩

/-- no node has two parents, nor sits in two collections -/
theorem C04_one_parent (g : G) (h : ForestInv g) (c p p' : Nat) (s s' : Slot)
    (h1 : c ∈ g.kids p s) (h2 : c ∈ g.kids p' s') : p = p' ∧ s = s' := by
  have a := (h.mem_iff c p s).1 h1
  have b := (h.mem_iff c p' s').1 h2
  rw [a.1] at b
  refine ⟨Option.some.inj b.1, ?_⟩
  have := b.2; rw [a.2] at this; exact Option.some.inj this

/-- in every reachable state: membership iff back-pointer, and no duplicates -/
theorem C04_history_mem_iff (ops : List Op) (hops : OpsOK {} ops) (c p : Nat) (s : Slot) :
    c ∈ (run {} ops).kids p s ↔ ((run {} ops).par c = some p ∧ slotOf ((run {} ops).kind c) = some s) :=
  (C04_history ops hops).mem_iff c p s

theorem C04_history_nodup (ops : List Op) (hops : OpsOK {} ops) (p : Nat) (s : Slot) :
    ((run {} ops).kids p s).Nodup :=
  (C04_history ops hops).nodup p s

/-! ### the derived accessors equal what the forest implies -/

/-- the scan over the owning collections finds exactly the nodes whose chained back-pointer
accessor `.ir` names `i` (no allocation hypothesis on `x` is needed) -/
theorem C04_reachable_iff (g : G) (h : ForestInv g) (i x : Nat) (hi : g.kind i = .ir) :
    x ∈ reachable g i ↔ irOf g x = some i :=
  h.mem_reachable hi x

theorem C04_reachable_nodup (g : G) (h : ForestInv g) (i : Nat) (hi : g.kind i = .ir) : (reachable g i).Nodup :=
  h.nodup_reachable hi

/-- `IR.byte_blocks` (and `code_blocks` / `data_blocks` below): exactly the blocks whose `.ir` is `i` -/
theorem C04_irBlocks (g : G) (h : ForestInv g) (i x : Nat) :
    x ∈ irBlocks g i ↔ ((g.kind x = .code ∨ g.kind x = .data) ∧ irOf g x = some i) := h.mem_irBlocks
theorem C04_irBlocks_nodup (g : G) (h : ForestInv g) (i : Nat) : (irBlocks g i).Nodup := h.nodup_irBlocks i

theorem C04_irCode (g : G) (h : ForestInv g) (i x : Nat) :
    x ∈ irCode g i ↔ (g.kind x = .code ∧ irOf g x = some i) := h.mem_irCode
theorem C04_irCode_nodup (g : G) (h : ForestInv g) (i : Nat) : (irCode g i).Nodup := h.nodup_irCode i

theorem C04_irData (g : G) (h : ForestInv g) (i x : Nat) :
    x ∈ irData g i ↔ (g.kind x = .data ∧ irOf g x = some i) := h.mem_irData
theorem C04_irData_nodup (g : G) (h : ForestInv g) (i : Nat) : (irData g i).Nodup := h.nodup_irData i

/-- `IR.cfg_nodes`: code blocks and proxy blocks -/
theorem C04_irCfgNodes (g : G) (h : ForestInv g) (i x : Nat) :
    x ∈ irCfgNodes g i ↔ ((g.kind x = .code ∨ g.kind x = .proxy) ∧ irOf g x = some i) := h.mem_irCfgNodes
theorem C04_irCfgNodes_nodup (g : G) (h : ForestInv g) (i : Nat) : (irCfgNodes g i).Nodup := h.nodup_irCfgNodes i

theorem C04_irSecs (g : G) (h : ForestInv g) (i x : Nat) :
    x ∈ irSecs g i ↔ (g.kind x = .section ∧ irOf g x = some i) := h.mem_irSecs
theorem C04_irSecs_nodup (g : G) (h : ForestInv g) (i : Nat) : (irSecs g i).Nodup := h.nodup_irSecs i

theorem C04_irSyms (g : G) (h : ForestInv g) (i x : Nat) :
    x ∈ irSyms g i ↔ (g.kind x = .symbol ∧ irOf g x = some i) := h.mem_irSyms
theorem C04_irSyms_nodup (g : G) (h : ForestInv g) (i : Nat) : (irSyms g i).Nodup := h.nodup_irSyms i

theorem C04_irProxies (g : G) (h : ForestInv g) (i x : Nat) :
    x ∈ irProxies g i ↔ (g.kind x = .proxy ∧ irOf g x = some i) := h.mem_irProxies
theorem C04_irProxies_nodup (g : G) (h : ForestInv g) (i : Nat) : (irProxies g i).Nodup := h.nodup_irProxies i

theorem C04_irBis (g : G) (h : ForestInv g) (i x : Nat) :
    x ∈ irBis g i ↔ (g.kind x = .interval ∧ irOf g x = some i) := h.mem_irBis
theorem C04_irBis_nodup (g : G) (h : ForestInv g) (i : Nat) : (irBis g i).Nodup := h.nodup_irBis i

/-- `IR.modules`: exactly the modules whose `.ir` is `i` -/
theorem C04_irMods (g : G) (h : ForestInv g) (i x : Nat) :
    x ∈ g.kids i .mods ↔ (g.kind x = .module ∧ irOf g x = some i) := by
  rw [h.mem_mods]
  constructor
  · rintro ⟨h1, h2⟩; exact ⟨h1, by rw [irOf_module h1]; exact h2⟩
  · rintro ⟨h1, h2⟩; exact ⟨h1, by rw [irOf_module h1] at h2; exact h2⟩

/-- `Module.byte_blocks` etc.: exactly the blocks whose `.module` is `m` -/
theorem C04_modBlocks (g : G) (h : ForestInv g) (m x : Nat) :
    x ∈ modBlocks g m ↔ ((g.kind x = .code ∨ g.kind x = .data) ∧ moduleOf g x = some m) := h.mem_modBlocks
theorem C04_modBlocks_nodup (g : G) (h : ForestInv g) (m : Nat) : (modBlocks g m).Nodup := h.nodup_modBlocks m

theorem C04_modCode (g : G) (h : ForestInv g) (m x : Nat) :
    x ∈ modCode g m ↔ (g.kind x = .code ∧ moduleOf g x = some m) := h.mem_modCode
theorem C04_modCode_nodup (g : G) (h : ForestInv g) (m : Nat) : (modCode g m).Nodup := h.nodup_modCode m

theorem C04_modData (g : G) (h : ForestInv g) (m x : Nat) :
    x ∈ modData g m ↔ (g.kind x = .data ∧ moduleOf g x = some m) := h.mem_modData
theorem C04_modData_nodup (g : G) (h : ForestInv g) (m : Nat) : (modData g m).Nodup := h.nodup_modData m

theorem C04_modBis (g : G) (h : ForestInv g) (m x : Nat) :
    x ∈ modBis g m ↔ (g.kind x = .interval ∧ moduleOf g x = some m) := h.mem_modBis_moduleOf
theorem C04_modBis_nodup (g : G) (h : ForestInv g) (m : Nat) : (modBis g m).Nodup := h.nodup_modBis m

theorem C04_modCfgNodes (g : G) (h : ForestInv g) (m x : Nat) :
    x ∈ modCfgNodes g m ↔ ((g.kind x = .code ∨ g.kind x = .proxy) ∧ moduleOf g x = some m) := h.mem_modCfgNodes
theorem C04_modCfgNodes_nodup (g : G) (h : ForestInv g) (m : Nat) : (modCfgNodes g m).Nodup :=
  h.nodup_modCfgNodes m

/-- `Section.byte_blocks` etc.: exactly the blocks whose `.section` (two steps up) is `s` -/
theorem C04_secBlocks (g : G) (h : ForestInv g) (s x : Nat) :
    x ∈ secBlocks g s ↔ ((g.kind x = .code ∨ g.kind x = .data) ∧ (g.par x).bind g.par = some s) := h.mem_secBlocks
theorem C04_secBlocks_nodup (g : G) (h : ForestInv g) (s : Nat) : (secBlocks g s).Nodup := h.nodup_secBlocks s

theorem C04_secCode (g : G) (h : ForestInv g) (s x : Nat) :
    x ∈ secCode g s ↔ (g.kind x = .code ∧ (g.par x).bind g.par = some s) := h.mem_secCode
theorem C04_secCode_nodup (g : G) (h : ForestInv g) (s : Nat) : (secCode g s).Nodup := h.nodup_secCode s

theorem C04_secData (g : G) (h : ForestInv g) (s x : Nat) :
    x ∈ secData g s ↔ (g.kind x = .data ∧ (g.par x).bind g.par = some s) := h.mem_secData
theorem C04_secData_nodup (g : G) (h : ForestInv g) (s : Nat) : (secData g s).Nodup := h.nodup_secData s

end Gtirb.Forest
