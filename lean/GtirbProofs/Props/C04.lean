import GtirbProofs.Lemmas.ForestInvProofs
/-! C04: the containment forest is kept consistent from both ends by every
public operation of the object graph (model C).

`ForestInv g` (ForestDefs.lean): a node is in a parent's collection iff its
back-pointer names that parent (and the collection is the one of its kind),
nothing appears twice, parents have the right kind, only allocated nodes are
linked. The proofs are in `Lemmas/ForestFrame.lean` (frame lemmas, pure forest
operations) and `Lemmas/ForestInvProofs.lean` (preservation). -/
namespace Gtirb.Forest

/-- one public operation keeps the forest consistent -/
theorem C04_step (g g' : G) (op : Op) (h : ForestInv g) (hop : OpOK g op) (hs : step g op = .ok g') :
    ForestInv g' :=
  forestInv_step h hop hs

/-- the empty state is consistent -/
theorem C04_init : ForestInv ({} : G) := by
  refine ⟨?_, ?_, ?_, ?_⟩
  · intro c p s
    constructor
    · intro h; cases h
    · intro h; cases h.1
  · intro p s; exact List.nodup_nil
  · intro c p h; cases h
  · intro c p h; cases h

/-- any history of well-typed operations from a consistent state (failed ones are skipped) -/
theorem C04_run (ops : List Op) : ∀ (g : G), ForestInv g → OpsOK g ops → ForestInv (run g ops) := by
  induction ops with
  | nil => intro g h _; exact h
  | cons op ops ih =>
    intro g h hops
    obtain ⟨hop, hrest⟩ := hops
    show ForestInv (run (match step g op with | .ok g' => g' | .error _ => g) ops)
    apply ih _ _ hrest
    cases hs : step g op with
    | ok g' => exact C04_step g g' op h hop hs
    | error e => exact h

/-- every reachable state: any history of well-typed operations (failed ones are skipped) -/
theorem C04_history (ops : List Op) (hops : OpsOK {} ops) : ForestInv (run {} ops) :=
  C04_run ops {} C04_init hops

end Gtirb.Forest
