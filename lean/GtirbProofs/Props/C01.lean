import GtirbProofs.Lemmas.ProtoProofs
/-! C01: for every self-contained IR (`wfir`), saving and loading yields an IR with
identical observable content, and saving the loaded IR again yields the same message.

The reader is the staged decoder (`fromMsg`): UUID table filled in decode order,
freshness of every node UUID, references resolved through the table as filled so far,
enum membership, de-duplication of flag / attribute / edge sets. `wfir` is written over
the IR's node lists, not in terms of the reader (GtirbModel/ProtoWF.lean). -/
namespace Gtirb.Msg
open Gtirb

/-- save then load reproduces the observable content exactly -/
theorem C01_roundtrip (v : IRV) (h : wfir v = true) : fromMsg (toMsg v) = .ok v :=
  fromMsg_toMsg_of_wfir v h

/-- lifted through the header for any parse/serialize pair that are inverse on the message -/
theorem C01_loadBytes_saveBytes (serialize : MIR → Bytes) (parse : Bytes → Option MIR)
    (hps : ∀ m, parse (serialize m) = some m) (v : IRV) (h : wfir v = true) :
    loadBytes parse (saveBytes serialize v) = .ok v :=
  loadBytes_ok (hps _) (C01_roundtrip v h)

/-- saving the loaded IR again yields the same message -/
theorem C01_resave (v v' : IRV) (h : wfir v = true) (hl : fromMsg (toMsg v) = .ok v') :
    toMsg v' = toMsg v := by
  rw [C01_roundtrip v h] at hl
  cases hl
  rfl

/-- and the same file, whatever the (deterministic) serializer -/
theorem C01_resave_bytes (serialize : MIR → Bytes) (parse : Bytes → Option MIR)
    (hps : ∀ m, parse (serialize m) = some m) (v v' : IRV) (h : wfir v = true)
    (hl : loadBytes parse (saveBytes serialize v) = .ok v') :
    saveBytes serialize v' = saveBytes serialize v := by
  rw [C01_loadBytes_saveBytes serialize parse hps v h] at hl
  cases hl
  rfl

/-! ### non-vacuity: a concrete self-contained IR exercising the corner cases -/

/-- 16-byte UUID number `k` -/
def exU (k : UInt8) : U := List.replicate 15 0 ++ [k]

/-- two modules; a section with an interval at address `some 0` holding overlapping and
zero-sized code and data blocks and a symbolic expression with an unknown attribute number;
a symbol with value 0, a symbol referring to a block, a symbol of the second module
referring to a block of the first; an entry point; a proxy; an edge with no label next to
one with an all-false label -/
def exIR : IRV :=
  { uuid := exU 1, version := Generated.protobufVersion,
    modules := [
      { uuid := exU 2, name := "m1", binaryPath := "/bin/x", preferredAddr := 0, rebaseDelta := -4,
        fileFormat := 2, isa := 3, byteOrder := 2, entryPoint := some (exU 5), proxies := [exU 3],
        sections := [
          { uuid := exU 4, name := ".text", flags := [1, 3],
            intervals := [
              { uuid := exU 9, addr := some 0, size := 8, contents := [1, 2, 3, 4],
                blocks := [.code (exU 5) 0 4 0, .code (exU 6) 2 4 1, .data (exU 7) 0 8,
                           .data (exU 8) 4 0, .code (exU 14) 8 0 0],
                exprs := [⟨0, .addrConst (-8) (exU 11), [1, 9999]⟩,
                          ⟨4, .addrAddr 2 0 (exU 10) (exU 11), []⟩] },
              { uuid := exU 12, addr := none, size := 0, contents := [], blocks := [], exprs := [] }] }],
        symbols := [⟨exU 10, "zero", .value 0, false⟩, ⟨exU 11, "blk", .referent (exU 5), true⟩,
                    ⟨exU 13, "nothing", .none, false⟩],
        aux := [⟨"k1", "mapping<UUID,uint64_t>", [0, 0, 0, 0, 0, 0, 0, 0]⟩, ⟨"k2", "weird<", []⟩] },
      { uuid := exU 20, name := "", binaryPath := "", preferredAddr := 4096, rebaseDelta := 0,
        fileFormat := 0, isa := 0, byteOrder := 0, entryPoint := none, proxies := [],
        sections := [], symbols := [⟨exU 21, "cross", .referent (exU 7), false⟩,
                                    ⟨exU 22, "toProxy", .referent (exU 3), false⟩],
        aux := [] }],
    edges := [⟨exU 5, exU 6, none⟩, ⟨exU 5, exU 6, some ⟨0, false, false⟩⟩,
              ⟨exU 6, exU 3, some ⟨3, true, true⟩⟩],
    aux := [⟨"ir", "string", [0, 0, 0, 0, 0, 0, 0, 0]⟩] }

example : wfir exIR = true := by decide

/-- the hypotheses are satisfiable: the theorems apply to `exIR` -/
example : fromMsg (toMsg exIR) = .ok exIR := C01_roundtrip exIR (by decide)

/-- the precondition is not vacuous the other way either: an IR whose symbol refers to a
node outside the IR is not self-contained, and the reader rejects what the writer emits -/
def exDangling : IRV :=
  { uuid := exU 1, version := Generated.protobufVersion,
    modules := [
      { uuid := exU 2, name := "m", binaryPath := "", preferredAddr := 0, rebaseDelta := 0,
        fileFormat := 0, isa := 0, byteOrder := 0, entryPoint := none, proxies := [],
        sections := [], symbols := [⟨exU 3, "dangling", .referent (exU 99), false⟩], aux := [] }],
    edges := [], aux := [] }

example : wfir exDangling = false := by decide
example : fromMsg (toMsg exDangling) = .error .deserializationError := by rfl

end Gtirb.Msg
