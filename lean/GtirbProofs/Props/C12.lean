import GtirbProofs.Lemmas.IndexProofs2
/-! C12: deferred index maintenance is unobservable. The answer to any lookup
depends only on the current structure, never on which lookups were issued
earlier, when, or how many edits accumulated between them. -/
namespace Gtirb.Index

/-- all three branches of `get` return the current set, whatever the threshold says -/
theorem C12_get (l : Lazy) (cur : List Iv) (n : Nat) (h : LazyOK l cur) (_hc : cur.Nodup) :
    let r := l.get cur n
    r.2.Nodup ∧ (∀ iv, iv ∈ r.2 ↔ iv ∈ cur) ∧ LazyOK r.1 cur ∧ r.1.events = [] := by
  have := lazy_get_spec l (· ∈ cur) cur n h (fun _ => Iff.rfl)
  exact ⟨this.1, this.2.1, this.2.2.1, this.2.2.2.1⟩

theorem C12_edit_inv (d : D) (e : Edit) (h : DInv d) : DInv (applyEdit d e) :=
  applyEdit_inv d e h

theorem C12_query_inv (d : D) (q : Query) (h : DInv d) : DInv (runQuery d q).1 :=
  (runQuery_inv_strip h q).1

/-- lookups do not change the structure (everything except the lazy state).
Intended statement: `strip (runQuery d q).1 = strip d` for every `d`; that is
false when two byte intervals share an id (forcing the index of one overwrites
the attributes of the other, see the `example` below), so well-formedness is
assumed. -/
theorem C12_query_strip (d : D) (q : Query) (h : DInv d) : strip (runQuery d q).1 = strip d :=
  (runQuery_inv_strip h q).2

/-- answers are functions of the structure: two well-formed states with the
same structure answer every query with the same set of ids (and the same extent) -/
theorem C12_answer_of_strip (d d' : D) (q : Query) (h : DInv d) (h' : DInv d')
    (hs : strip d = strip d') : sameAnswer (runQuery d q).2 (runQuery d' q).2 :=
  answer_of_strip q h h' hs

end Gtirb.Index
