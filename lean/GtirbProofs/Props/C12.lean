import GtirbProofs.Lemmas.IndexProofs2
/-! C12: deferred index maintenance is unobservable. The answer to any lookup
depends only on the current structure, never on which lookups were issued
earlier, when, or how many edits accumulated between them.

`LazyOK`, `DInv`, `strip`, `sameAnswer` are defined in
`GtirbProofs/Lemmas/IndexProofs2.lean`. -/
namespace Gtirb.Index

/-- all three branches of `get` return the current set, whatever the threshold says -/
theorem C12_get (l : Lazy) (cur : List Iv) (n : Nat) (h : LazyOK l cur) (_hc : cur.Nodup) :
    let r := l.get cur n
    r.2.Nodup ∧ (∀ iv, iv ∈ r.2 ↔ iv ∈ cur) ∧ LazyOK r.1 cur ∧ r.1.events = [] := by
  have := lazy_get_spec l (· ∈ cur) cur n h (fun _ => Iff.rfl)
  exact ⟨this.1, this.2.1, this.2.2.1, this.2.2.2.1⟩

theorem C12_edit_inv (d : D) (e : Edit) (h : DInv d) : DInv (applyEdit d e) :=
  applyEdit_inv d e h

theorem C12_query_inv (d : D) (q : Query) (h : DInv d) : DInv (runQuery d q).1 :=
  (runQuery_inv_strip h q).1

/-- lookups do not change the structure (everything except the lazy state).
Intended statement: `strip (runQuery d q).1 = strip d` for every `d`; that is
false of the model when two byte intervals share an id (`D.setBI` then
overwrites the attributes of the second one, see `C12_query_strip_needs_inv`
below), so well-formedness is assumed. -/
theorem C12_query_strip (d : D) (q : Query) (h : DInv d) : strip (runQuery d q).1 = strip d :=
  (runQuery_inv_strip h q).2

/-- the structural effect of an edit depends on the structure only (no
well-formedness needed) -/
theorem C12_edit_strip (d d' : D) (e : Edit) (h : strip d = strip d') :
    strip (applyEdit d e) = strip (applyEdit d' e) :=
  applyEdit_strip_congr e h

/-- answers are functions of the structure: two well-formed states with the
same structure answer every query with the same set of ids (and the same extent) -/
theorem C12_answer_of_strip (d d' : D) (q : Query) (h : DInv d) (h' : DInv d')
    (hs : strip d = strip d') : sameAnswer (runQuery d q).2 (runQuery d' q).2 :=
  answer_of_strip q h h' hs

/-- histories keep the invariant -/
theorem C12_exec_inv (d0 : D) (h0 : DInv d0) (a : List Act) : DInv (exec d0 a) :=
  (exec_spec a d0 d0 h0 rfl).1

/-- the structure after a history is the structure after its edits alone -/
theorem C12_exec_strip (d0 : D) (h0 : DInv d0) (a : List Act) :
    strip (exec d0 a) = strip ((editsOf a).foldl applyEdit d0) :=
  (exec_spec a d0 d0 h0 rfl).2

/-- schedule independence: two histories with the same edits, whatever lookups
are interleaved, give the same final answers -/
theorem C12_schedule (d0 : D) (h0 : DInv d0) (a1 a2 : List Act) (he : editsOf a1 = editsOf a2)
    (q : Query) : sameAnswer (runQuery (exec d0 a1) q).2 (runQuery (exec d0 a2) q).2 := by
  have h1 := exec_spec a1 d0 d0 h0 rfl
  have h2 := exec_spec a2 d0 d0 h0 rfl
  refine answer_of_strip q h1.1 h2.1 ?_
  rw [h1.2, h2.2, he]

theorem C12_init : DInv ({} : D) := dinv_init

/-- the driver's `blk` line: a fresh detached block -/
theorem C12_add_blk (d : D) (h : DInv d) (i : Nat) (k : Bool) (o z : Nat)
    (hi : i ∉ d.blks.map (·.id)) : DInv { d with blks := d.blks ++ [⟨i, k, o, z, none⟩] } :=
  dinv_add_blk h i k o z hi

/-- the driver's `bi` line: a fresh detached byte interval -/
theorem C12_add_bi (d : D) (h : DInv d) (i : Nat) (a : Option Nat) (z : Nat)
    (hi : i ∉ d.bis.map (·.id)) :
    DInv { d with bis := d.bis ++ [{ id := i, addr := a, size := z, sec := none }] } :=
  dinv_add_bi h i a z hi

/-- the driver's `sec` line: a fresh section -/
theorem C12_add_sec (d : D) (h : DInv d) (i : Nat) (hi : i ∉ d.secs.map (·.id)) :
    DInv { d with secs := d.secs ++ [{ id := i }] } :=
  dinv_add_sec h i hi

/-! ### concrete examples (non-vacuity) -/

/-- two overlapping blocks (1, 2) and a zero-sized one (3), one byte interval, one section -/
def exD0 : D :=
  { blks := [⟨1, true, 0, 8, none⟩, ⟨2, false, 4, 8, none⟩, ⟨3, true, 6, 0, none⟩],
    bis := [{ id := 10, addr := some 100, size := 32, sec := none }],
    secs := [{ id := 20 }] }

def exActs : List Act :=
  [.edit (.blkMove 1 (some 10) true), .edit (.blkMove 2 (some 10) true),
   .edit (.blkMove 3 (some 10) true), .edit (.biMove 10 (some 20) true),
   .look (.bono 10 ⟨0, 100, 1⟩), .edit (.blkSet 1 1 8)]

/-- the same edits, no lookup in between -/
def exActs' : List Act :=
  [.edit (.blkMove 1 (some 10) true), .edit (.blkMove 2 (some 10) true),
   .edit (.blkMove 3 (some 10) true), .edit (.biMove 10 (some 20) true),
   .edit (.blkSet 1 1 8)]

def exD : D := exec exD0 exActs
def exD' : D := exec exD0 exActs'

theorem exD0_inv : DInv exD0 where
  blk_ids := by decide
  bi_ids := by decide
  sec_ids := by decide
  bi_ok := by
    intro bi hbi
    simp only [exD0, List.mem_singleton] at hbi
    subst hbi; exact lazyOK_empty _
  sec_ok := by
    intro sc hsc
    simp only [exD0, List.mem_singleton] at hsc
    subst hsc; exact lazyOK_empty _

theorem exD_inv : DInv exD := C12_exec_inv exD0 exD0_inv exActs
theorem exD'_inv : DInv exD' := C12_exec_inv exD0 exD0_inv exActs'

/-- `exD` carries a built tree with two pending events (replay branch), `exD'`
no tree at all (first-build branch) -/
example : (exD.bi? 10).map (fun b => (b.lz.tree.isSome, b.lz.events.length)) = some (true, 2) := by
  decide
example : (exD'.bi? 10).map (fun b => (b.lz.tree.isSome, b.lz.events.length)) = some (false, 5) := by
  decide

/-- same ids, different order: the answers agree as sets only -/
example : (biBlocksOn exD 10 ⟨100, 107, 1⟩).2 = [2, 1] := by decide
example : (biBlocksOn exD' 10 ⟨100, 107, 1⟩).2 = [1, 2] := by decide
example : scanBlocksOn exD 10 ⟨100, 107, 1⟩ = [1, 2] := by decide
example : (biBlocksAt exD 10 ⟨100, 107, 1⟩).2 = [2, 3, 1] := by decide
example : (biBlocksAt exD' 10 ⟨100, 107, 1⟩).2 = [1, 2, 3] := by decide
example : (secBlocksOn exD 20 ⟨100, 107, 1⟩).2 = [2, 1] := by decide
example : (secExtent exD 20).2 = some (100, 32) := by decide

example : sameAnswer (runQuery exD (.bat 10 ⟨100, 107, 1⟩)).2 (runQuery exD' (.bat 10 ⟨100, 107, 1⟩)).2 :=
  C12_schedule exD0 exD0_inv exActs exActs' rfl _

/-- `C12_query_strip` needs well-formedness: with a duplicated interval id a
lookup changes the structure. -/
def exBad : D :=
  { bis := [{ id := 1, addr := some 5, size := 1, sec := none },
            { id := 1, addr := some 7, size := 2, sec := none }] }

theorem C12_query_strip_needs_inv :
    (strip (runQuery exBad (.bono 1 ⟨0, 10, 1⟩)).1).2 ≠ (strip exBad).2 := by decide

end Gtirb.Index
