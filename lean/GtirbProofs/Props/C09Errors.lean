import GtirbProofs.Props.C02Exact
/-! C09, the error *class* of a reference fault (review `msg`, finding F-D).

"A reference that names a missing node or a node of the wrong kind is rejected with a
`DeserializationError`" (the last clause of C09) had no theorem: `C17_accepted_refs` only
gives "not accepted". Here, at the value level (`fromMsg`):

* `C09_struct_errors`: on a structurally sound message (`structOK`: 16-byte UUIDs for nodes
  and references, pairwise distinct node UUIDs, the version, known enum numbers, stored
  bytes within size, one-ofs set) the *only* error the reader can raise is
  `DeserializationError` (no `ValueError`, `TypeError`, no duplicate).
* `C09_reference_fault_deser`: `structOK m → closedMsg m = false →
  fromMsg m = .error .deserializationError`, and `C09_deser_iff`: on such messages the
  reader raises `DeserializationError` *iff* the message is not referentially closed.
* per reference kind (`C09_entry_fault`, `C09_referent_fault`, `C09_expr_symbol_fault`,
  `C09_edge_fault`): the reference is not among the nodes of the right kind visible at that
  point (this covers a missing node, a node of the wrong kind, and - known finding K5 - a node
  of a later module); `C09_dangling`: the reference names no node of the message at all. -/
namespace Gtirb.Msg
open Gtirb

/-! ### node kinds: the value side and the message side agree on accepted modules -/

theorem mblockKinds_map_blockToMsg (bs : List BlockV) :
    mblockKinds (bs.map blockToMsg) = bs.map blockKind := by
  induction bs with
  | nil => rfl
  | cons b bs ih =>
    simp only [mblockKinds, List.map_cons] at ih ⊢
    cases b <;> simp [blockToMsg, mblockKind, blockKind, ih]

theorem mintervalKinds_intervalToMsg (x : IntervalV) :
    mintervalKinds (intervalToMsg x) = intervalKinds x := by
  simp [mintervalKinds, intervalKinds, intervalToMsg, mblockKinds_map_blockToMsg]

theorem msectionKinds_sectionToMsg (s : SectionV) : msectionKinds (sectionToMsg s) = sectionKinds s := by
  simp [msectionKinds, sectionKinds, sectionToMsg, List.flatMap_map, mintervalKinds_intervalToMsg]

theorem mmoduleKinds_moduleToMsg (m : ModuleV) : mmoduleKinds (moduleToMsg m) = moduleKinds m := by
  simp [mmoduleKinds, moduleKinds, moduleToMsg, List.flatMap_map, msectionKinds_sectionToMsg,
    symbolToMsg, Function.comp_def]

theorem mintervalKinds_norm (x : MByteInterval) : mintervalKinds (normInterval x) = mintervalKinds x := rfl

theorem msectionKinds_norm (s : MSection) : msectionKinds (normSection s) = msectionKinds s := by
  simp [msectionKinds, normSection, List.flatMap_map, mintervalKinds_norm]

theorem mmoduleKinds_norm (m : MModule) : mmoduleKinds (normModule m) = mmoduleKinds m := by
  simp [mmoduleKinds, normModule, List.flatMap_map, msectionKinds_norm]

theorem moduleKinds_of_rel {env : Env} {mv : ModuleV} {mm : MModule} (h : ModuleRel env mv mm) :
    moduleKinds mv = mmoduleKinds mm := by
  rw [← mmoduleKinds_moduleToMsg, moduleToMsg_of_rel h, mmoduleKinds_norm]

/-- an accepted module extends the table by the node kinds of its *message* -/
theorem decodeModule_env {env env' : Env} {mm : MModule} {mv : ModuleV}
    (h : decodeModule env mm = .ok (mv, env')) : env' = (mmoduleKinds mm).reverse ++ env := by
  obtain ⟨hr, he⟩ := decodeModule_ok h
  rw [he, moduleKinds_of_rel hr]

/-! ### errors of the single stages on structurally sound input -/

theorem symRef_err {env : Env} {u : Bytes} {e : Err} (h : symRef env u = .error e)
    (h16 : u.length = 16) : e = .deserializationError := by
  unfold symRef checkUuid at h
  simp only [h16, if_true] at h
  split at h
  · cases h
  · cases h; rfl

theorem cfgRef_err {env : Env} {u : Bytes} {e : Err} (h : cfgRef env u = .error e)
    (h16 : u.length = 16) : e = .deserializationError := by
  unfold cfgRef checkUuid at h
  simp only [h16, if_true] at h
  split at h
  · cases h
  · cases h
  · cases h; rfl

theorem decodeExpr_err {env : Env} {kv : Nat × MSymExpr} {e : Err} (h : decodeExpr env kv = .error e)
    (hs : kv.2.value.isSome = true) (h16 : ∀ u ∈ mexprSyms kv.2, u.length = 16) :
    e = .deserializationError := by
  obtain ⟨k, val, fl⟩ := kv
  cases val with
  | none => simp at hs
  | some ev =>
    unfold decodeExpr at h
    cases ev with
    | addrConst off s =>
      simp only at h
      split at h
      · next e' hs' => cases h; exact symRef_err hs' (h16 s (by simp [mexprSyms]))
      · cases h
    | addrAddr sc off s1 s2 =>
      simp only at h
      split at h
      · next e' hs' => cases h; exact symRef_err hs' (h16 s1 (by simp [mexprSyms]))
      · split at h
        · next e' hs' => cases h; exact symRef_err hs' (h16 s2 (by simp [mexprSyms]))
        · cases h

theorem decodeExprs_err {env : Env} : ∀ {kvs : List (Nat × MSymExpr)} {e : Err},
    decodeExprs env kvs = .error e →
    (∀ kv ∈ kvs, kv.2.value.isSome = true ∧ ∀ u ∈ mexprSyms kv.2, u.length = 16) →
    e = .deserializationError := by
  intro kvs
  induction kvs with
  | nil => intro e h; simp [decodeExprs] at h
  | cons kv kvs ih =>
    intro e h hg
    unfold decodeExprs at h
    split at h
    · next e' h1 =>
      cases h
      exact decodeExpr_err h1 (hg kv List.mem_cons_self).1 (hg kv List.mem_cons_self).2
    · split at h
      · next e' h2 => cases h; exact ih h2 (fun y hy => hg y (List.mem_cons_of_mem _ hy))
      · cases h

theorem fillExprsIntervals_err {env : Env} : ∀ {vs : List IntervalV} {xs : List MByteInterval} {e : Err},
    fillExprsIntervals env vs xs = .error e →
    (∀ x ∈ xs, ∀ kv ∈ x.symbolicExpressions,
      kv.2.value.isSome = true ∧ ∀ u ∈ mexprSyms kv.2, u.length = 16) →
    e = .deserializationError := by
  intro vs
  induction vs with
  | nil => intro xs e h; simp [fillExprsIntervals] at h
  | cons v vs ih =>
    intro xs e h hg
    cases xs with
    | nil => simp [fillExprsIntervals] at h
    | cons x xs =>
      unfold fillExprsIntervals at h
      split at h
      · next e' h1 => cases h; exact decodeExprs_err h1 (hg x List.mem_cons_self)
      · split at h
        · next e' h2 => cases h; exact ih h2 (fun y hy => hg y (List.mem_cons_of_mem _ hy))
        · cases h

theorem fillExprsSections_err {env : Env} : ∀ {vs : List SectionV} {ss : List MSection} {e : Err},
    fillExprsSections env vs ss = .error e →
    (∀ s ∈ ss, ∀ x ∈ s.byteIntervals, ∀ kv ∈ x.symbolicExpressions,
      kv.2.value.isSome = true ∧ ∀ u ∈ mexprSyms kv.2, u.length = 16) →
    e = .deserializationError := by
  intro vs
  induction vs with
  | nil => intro ss e h; simp [fillExprsSections] at h
  | cons v vs ih =>
    intro ss e h hg
    cases ss with
    | nil => simp [fillExprsSections] at h
    | cons s ss =>
      unfold fillExprsSections at h
      split at h
      · next e' h1 => cases h; exact fillExprsIntervals_err h1 (hg s List.mem_cons_self)
      · split at h
        · next e' h2 => cases h; exact ih h2 (fun y hy => hg y (List.mem_cons_of_mem _ hy))
        · cases h

theorem decodeSymbol_err {env : Env} {s : MSymbol} {e : Err} (h : decodeSymbol env s = .error e)
    (h16 : s.uuid.length = 16) (hf : s.uuid ∉ env.map (·.1))
    (hr16 : ∀ u, s.payload = some (.referentUuid u) → u.length = 16) :
    e = .deserializationError := by
  obtain ⟨su, sp, sn, sa⟩ := s
  have hfr : fresh env su .symbol = .ok () := fresh_eq_ok h16 hf
  unfold decodeSymbol at h
  simp only [hfr] at h
  cases sp with
  | none => simp at h
  | some p =>
    cases p with
    | value n => simp at h
    | referentUuid u =>
      have hu := hr16 u rfl
      simp only [checkUuid, hu, if_true] at h
      split at h
      · next e' hp =>
        cases h
        split at hp
        · split at hp
          · cases hp
          · cases hp; rfl
        · cases hp; rfl
      · cases h

theorem decodeSymbols_err : ∀ {ss : List MSymbol} {env : Env} {e : Err},
    decodeSymbols env ss = .error e →
    (∀ s ∈ ss, s.uuid.length = 16) →
    (∀ s ∈ ss, ∀ u, s.payload = some (.referentUuid u) → u.length = 16) →
    (((ss.map (fun s => (s.uuid, KindTag.symbol))).reverse ++ env).map (·.1)).Nodup →
    e = .deserializationError := by
  intro ss
  induction ss with
  | nil => intro env e h; simp [decodeSymbols] at h
  | cons s ss ih =>
    intro env e h h16 hr16 hnd
    have e1 : ((s :: ss).map (fun s => (s.uuid, KindTag.symbol))).reverse ++ env
        = (ss.map (fun s => (s.uuid, KindTag.symbol))).reverse ++ ((s.uuid, KindTag.symbol) :: env) := by
      simp
    rw [e1] at hnd
    have hf : s.uuid ∉ env.map (·.1) := fresh_of_nodup hnd
    unfold decodeSymbols at h
    split at h
    · next e' h1 =>
      cases h
      exact decodeSymbol_err h1 (h16 s List.mem_cons_self) hf (hr16 s List.mem_cons_self)
    · next v env1 h1 =>
      obtain ⟨hr, _, henv⟩ := decodeSymbol_ok h1
      have hu : v.uuid = s.uuid := hr.1
      rw [hu] at henv
      subst henv
      split at h
      · next e' h2 =>
        cases h
        exact ih h2 (fun y hy => h16 y (List.mem_cons_of_mem _ hy))
          (fun y hy => hr16 y (List.mem_cons_of_mem _ hy)) hnd
      · cases h

/-- the structural part of `structOK` for one module, as propositions -/
structure MModStruct (m : MModule) : Prop where
  enums : pyEnumHas "ISA" m.isa = true ∧ pyEnumHas "FileFormat" m.fileFormat = true
    ∧ pyEnumHas "ByteOrder" m.byteOrder = true
  all16 : ∀ u ∈ m.nodeUuids, u.length = 16
  refs16 : ∀ u ∈ m.refUuids, u.length = 16
  flags : ∀ s ∈ m.sections, s.sectionFlags.all (pyEnumHas "SectionFlag") = true
  ivs : ∀ s ∈ m.sections, ∀ x ∈ s.byteIntervals,
    x.contents.length ≤ x.size ∧ ∀ b ∈ x.blocks, mblockOK b = true
  exprs : ∀ s ∈ m.sections, ∀ x ∈ s.byteIntervals, ∀ kv ∈ x.symbolicExpressions,
    kv.2.value.isSome = true

theorem MModStruct.kinds16 {m : MModule} (h : MModStruct m) : ∀ k ∈ mmoduleKinds m, k.1.length = 16 := by
  intro k hk
  apply h.all16
  rw [← mmoduleKinds_fst]
  exact List.mem_map.2 ⟨k, hk, rfl⟩

theorem decodeModule_err {env : Env} {m : MModule} {e : Err} (h : decodeModule env m = .error e)
    (hok : MModStruct m) (hnd : (((mmoduleKinds m).reverse ++ env).map (·.1)).Nodup) :
    e = .deserializationError := by
  have hk16 := hok.kinds16
  rw [mmoduleKinds_env] at hnd
  have hnd2 := nodup_suffix hnd
  have hnd1 := nodup_suffix hnd2
  have hf : m.uuid ∉ env.map (·.1) := fresh_of_nodup hnd1
  have hfr : fresh env m.uuid .module = .ok () :=
    fresh_eq_ok (hok.all16 _ (by simp [MModule.nodeUuids])) hf
  have hen : (!(pyEnumHas "ISA" m.isa && pyEnumHas "FileFormat" m.fileFormat
      && pyEnumHas "ByteOrder" m.byteOrder)) = false := by
    simp [hok.enums.1, hok.enums.2.1, hok.enums.2.2]
  have hpx := decodeProxies_toMsg m.proxies ((m.uuid, KindTag.module) :: env)
    (fun p hp => hok.all16 p (by simp [MModule.nodeUuids, hp])) hnd1
  obtain ⟨secs, hsec⟩ := decodeSections_acc m.sections _ hok.flags hok.ivs
    (fun k hk => hk16 k (by
      simp only [mmoduleKinds, List.cons_append, List.mem_cons, List.mem_append]
      exact .inr (.inl (.inr hk)))) hnd2
  have hexprs : ∀ s ∈ m.sections, ∀ x ∈ s.byteIntervals, ∀ kv ∈ x.symbolicExpressions,
      kv.2.value.isSome = true ∧ ∀ u ∈ mexprSyms kv.2, u.length = 16 := by
    intro s hs x hx kv hkv
    refine ⟨hok.exprs s hs x hx kv hkv, fun u hu => hok.refs16 u ?_⟩
    simp only [MModule.refUuids, List.mem_append, List.mem_flatMap]
    exact .inr ⟨s, hs, x, hx, kv, hkv, hu⟩
  have hsym16 : ∀ s ∈ m.symbols, s.uuid.length = 16 := fun s hs => hok.all16 s.uuid (by
    simp only [MModule.nodeUuids, List.cons_append, List.mem_cons, List.mem_append, List.mem_map]
    exact .inr (.inr ⟨s, hs, rfl⟩))
  have hsymr16 : ∀ s ∈ m.symbols, ∀ u, s.payload = some (.referentUuid u) → u.length = 16 := by
    intro s hs u hu
    apply hok.refs16
    simp only [MModule.refUuids, List.mem_append, List.mem_flatMap]
    exact .inl (.inr ⟨s, hs, by simp [hu]⟩)
  unfold decodeModule at h
  simp only [hfr, hen, hpx, hsec, Bool.false_eq_true, if_false] at h
  split at h
  · next e' hentry =>
    cases h
    split at hentry
    · cases hentry
    · next hne =>
      have h16 : m.entryPoint.length = 16 := hok.refs16 _ (by
        simp only [MModule.refUuids, List.mem_append]
        exact .inl (.inl (by simp [hne])))
      simp only [checkUuid, h16, if_true] at hentry
      split at hentry
      · cases hentry
      · cases hentry; rfl
  · split at h
    · next e' hsy => cases h; exact decodeSymbols_err hsy hsym16 hsymr16 hnd
    · split at h
      · next e' hfill => cases h; exact fillExprsSections_err hfill hexprs
      · cases h

theorem decodeModules_err : ∀ {ms : List MModule} {env : Env} {e : Err},
    decodeModules env ms = .error e → (∀ m ∈ ms, MModStruct m) →
    (((ms.flatMap mmoduleKinds).reverse ++ env).map (·.1)).Nodup →
    e = .deserializationError := by
  intro ms
  induction ms with
  | nil => intro env e h; simp [decodeModules] at h
  | cons m ms ih =>
    intro env e h hok hnd
    have e1 : ((m :: ms).flatMap mmoduleKinds).reverse ++ env
        = (ms.flatMap mmoduleKinds).reverse ++ ((mmoduleKinds m).reverse ++ env) := by simp
    rw [e1] at hnd
    unfold decodeModules at h
    split at h
    · next e' h1 => cases h; exact decodeModule_err h1 (hok m List.mem_cons_self) (nodup_suffix hnd)
    · next v env1 h1 =>
      have := decodeModule_env h1
      subst this
      split at h
      · next e' h2 => cases h; exact ih h2 (fun y hy => hok y (List.mem_cons_of_mem _ hy)) hnd
      · cases h

theorem decodeEdge_err {env : Env} {me : MEdge} {e : Err} (h : decodeEdge env me = .error e)
    (hs : me.sourceUuid.length = 16) (ht : me.targetUuid.length = 16)
    (hl : ∀ l, me.label = some l → pyEnumHas "EdgeType" l.type = true) :
    e = .deserializationError := by
  obtain ⟨su, tu, lb⟩ := me
  unfold decodeEdge at h
  simp only at h
  split at h
  · next e' h1 => cases h; exact cfgRef_err h1 hs
  · split at h
    · next e' h2 => cases h; exact cfgRef_err h2 ht
    · cases lb with
      | none => simp at h
      | some l => simp [hl l rfl] at h

theorem decodeEdges_err {env : Env} : ∀ {es : List MEdge} {e : Err}, decodeEdges env es = .error e →
    (∀ me ∈ es, me.sourceUuid.length = 16 ∧ me.targetUuid.length = 16
      ∧ ∀ l, me.label = some l → pyEnumHas "EdgeType" l.type = true) →
    e = .deserializationError := by
  intro es
  induction es with
  | nil => intro e h; simp [decodeEdges] at h
  | cons me es ih =>
    intro e h hg
    unfold decodeEdges at h
    split at h
    · next e' h1 =>
      cases h
      obtain ⟨a, b, c⟩ := hg me List.mem_cons_self
      exact decodeEdge_err h1 a b c
    · split at h
      · next e' h2 => cases h; exact ih h2 (fun y hy => hg y (List.mem_cons_of_mem _ hy))
      · cases h

/-! ### from `structOK` to the stage hypotheses -/

theorem mmodStruct_of {m : MIR} (hs : structOK m = true) : ∀ mm ∈ m.modules, MModStruct mm := by
  simp only [structOK, Bool.and_eq_true, List.all_eq_true, beq_iff_eq] at hs
  obtain ⟨⟨⟨⟨⟨h16, hr16⟩, _⟩, _⟩, hmods⟩, _⟩ := hs
  intro mm hm
  have := hmods mm hm
  simp only [mmoduleStructOK, Bool.and_eq_true, List.all_eq_true, decide_eq_true_eq] at this
  obtain ⟨⟨⟨hisa, hff⟩, hbo⟩, hsecs⟩ := this
  refine ⟨⟨hisa, hff, hbo⟩, ?_, ?_, ?_, ?_, ?_⟩
  · intro u hu
    apply h16
    simp only [MIR.nodeUuids, List.mem_cons, List.mem_flatMap]
    exact .inr ⟨mm, hm, hu⟩
  · intro u hu
    apply hr16
    simp only [MIR.refUuids, List.mem_append, List.mem_flatMap]
    exact .inl ⟨mm, hm, hu⟩
  · intro s hs'
    simpa using (hsecs s hs').1
  · intro s hs' x hx
    have := (hsecs s hs').2 x hx
    exact ⟨this.1.1, this.1.2⟩
  · intro s hs' x hx kv hkv
    exact ((hsecs s hs').2 x hx).2 kv hkv

/-- on a structurally sound message every error of the reader is a `DeserializationError` -/
theorem fromMsg_err_deser {m : MIR} {e : Err} (h : fromMsg m = .error e) (hs : structOK m = true) :
    e = .deserializationError := by
  have hmods := mmodStruct_of hs
  simp only [structOK, Bool.and_eq_true, List.all_eq_true, beq_iff_eq, nodupM_iff] at hs
  obtain ⟨⟨⟨⟨⟨h16, hr16⟩, hnd⟩, hver⟩, _⟩, hlab⟩ := hs
  have hu16 : m.uuid.length = 16 := h16 _ (by simp [MIR.nodeUuids])
  have hndk : ((menvOf m.uuid m.modules).map (·.1)).Nodup := by
    have := menvOf_fst m
    rw [List.map_reverse] at this
    rw [← (List.reverse_perm _).nodup_iff, this]; exact hnd
  unfold fromMsg at h
  simp only [checkUuid, hu16, if_true, hver, ne_eq, not_true_eq_false, if_false] at h
  split at h
  · next e' h1 => cases h; exact decodeModules_err h1 hmods hndk
  · split at h
    · next e' h2 =>
      cases h
      apply decodeEdges_err h2
      intro me hme
      refine ⟨hr16 _ ?_, hr16 _ ?_, ?_⟩
      · simp only [MIR.refUuids, List.mem_append, List.mem_flatMap]
        exact .inr ⟨me, hme, by simp⟩
      · simp only [MIR.refUuids, List.mem_append, List.mem_flatMap]
        exact .inr ⟨me, hme, by simp⟩
      · intro l hl
        have := hlab me hme
        rw [hl] at this
        exact this
    · cases h

/-! ### the theorems -/

/-- on a structurally sound message the reader either accepts or raises
`DeserializationError`: no `ValueError`, no `TypeError`, no duplicate -/
theorem C09_struct_errors (m : MIR) (hs : structOK m = true) :
    (∃ v, fromMsg m = .ok v) ∨ fromMsg m = .error .deserializationError := by
  cases h : fromMsg m with
  | ok v => exact .inl ⟨v, rfl⟩
  | error e => rw [fromMsg_err_deser h hs]; exact .inr rfl

/-- a reference fault (and nothing else wrong) is rejected with `DeserializationError` -/
theorem C09_reference_fault_deser (m : MIR) (hs : structOK m = true) (hc : closedMsg m = false) :
    fromMsg m = .error .deserializationError := by
  rcases C09_struct_errors m hs with ⟨v, hv⟩ | h
  · have hnd : nodupM m.nodeUuids = true := by
      simp only [structOK, Bool.and_eq_true] at hs
      exact hs.1.1.1.2
    rw [C02_accepted_closed m v hv hnd] at hc
    cases hc
  · exact h

/-- on structurally sound messages `DeserializationError` is raised exactly for the
messages that are not referentially closed -/
theorem C09_deser_iff (m : MIR) (hs : structOK m = true) :
    fromMsg m = .error .deserializationError ↔ closedMsg m = false := by
  constructor
  · intro h
    cases hc : closedMsg m with
    | false => rfl
    | true =>
      obtain ⟨v, hv⟩ := C02_reader_accepts m hc
      rw [hv] at h; cases h
  · exact C09_reference_fault_deser m hs

/-! ### per reference kind -/

/-- an edge endpoint that is not a code block or proxy of the IR (missing node, or a node
of another kind: data block, symbol, section, ...) -/
theorem C09_edge_fault (m : MIR) (hs : structOK m = true) (e : MEdge) (he : e ∈ m.cfg.edges)
    (hbad : e.sourceUuid ∉ (m.modules.flatMap fun mm => mm.codeUuids ++ mm.proxies)
      ∨ e.targetUuid ∉ (m.modules.flatMap fun mm => mm.codeUuids ++ mm.proxies)) :
    fromMsg m = .error .deserializationError := by
  apply C09_reference_fault_deser m hs
  cases hc : closedMsg m with
  | false => rfl
  | true =>
    simp only [closedMsg, Bool.and_eq_true, List.all_eq_true, decide_eq_true_eq] at hc
    have := (hc.2 e he).1
    rcases hbad with h | h
    · exact absurd this.1 h
    · exact absurd this.2 h

theorem closed_moduleOK {m : MIR} (hc : closedMsg m = true) {pre post : List MModule} {mm : MModule}
    (hsplit : m.modules = pre ++ mm :: post) : mmoduleOK pre mm = true := by
  simp only [closedMsg, Bool.and_eq_true] at hc
  have := hc.1.2
  rw [hsplit] at this
  simpa using mmodulesOK_split pre [] mm post this

/-- an entry point that is not a code block of the same or an earlier module (`pre` = the
modules before `mm`): missing, of another kind, or of a later module (K5) -/
theorem C09_entry_fault (m : MIR) (hs : structOK m = true) (pre post : List MModule) (mm : MModule)
    (hsplit : m.modules = pre ++ mm :: post) (hne : mm.entryPoint.isEmpty = false)
    (hbad : mm.entryPoint ∉ pre.flatMap (·.codeUuids) ++ mm.codeUuids) :
    fromMsg m = .error .deserializationError := by
  apply C09_reference_fault_deser m hs
  cases hc : closedMsg m with
  | false => rfl
  | true =>
    have hok := closed_moduleOK hc hsplit
    simp only [mmoduleOK, Bool.and_eq_true, Bool.or_eq_true, decide_eq_true_eq] at hok
    rcases hok.1.1.2 with h | h
    · rw [hne] at h; cases h
    · exact absurd h hbad

/-- a symbol referent that is not a code block, data block or proxy of the same or an
earlier module -/
theorem C09_referent_fault (m : MIR) (hs : structOK m = true) (pre post : List MModule) (mm : MModule)
    (hsplit : m.modules = pre ++ mm :: post) (s : MSymbol) (hsym : s ∈ mm.symbols) (u : Bytes)
    (hp : s.payload = some (.referentUuid u))
    (hbad : u ∉ pre.flatMap (·.blockUuids) ++ mm.blockUuids) :
    fromMsg m = .error .deserializationError := by
  apply C09_reference_fault_deser m hs
  cases hc : closedMsg m with
  | false => rfl
  | true =>
    have hok := closed_moduleOK hc hsplit
    simp only [mmoduleOK, Bool.and_eq_true, List.all_eq_true] at hok
    have := hok.1.2 s hsym
    rw [hp] at this
    simp only [decide_eq_true_eq] at this
    exact absurd this hbad

/-- a symbol named by a symbolic expression that is not a symbol of the same or an earlier
module -/
theorem C09_expr_symbol_fault (m : MIR) (hs : structOK m = true) (pre post : List MModule)
    (mm : MModule) (hsplit : m.modules = pre ++ mm :: post) (s : MSection) (hsec : s ∈ mm.sections)
    (x : MByteInterval) (hx : x ∈ s.byteIntervals) (kv : Nat × MSymExpr)
    (hkv : kv ∈ x.symbolicExpressions) (u : Bytes) (hu : u ∈ mexprSyms kv.2)
    (hbad : u ∉ pre.flatMap (·.symbolUuids) ++ mm.symbolUuids) :
    fromMsg m = .error .deserializationError := by
  apply C09_reference_fault_deser m hs
  cases hc : closedMsg m with
  | false => rfl
  | true =>
    have hok := closed_moduleOK hc hsplit
    simp only [mmoduleOK, Bool.and_eq_true, List.all_eq_true, decide_eq_true_eq] at hok
    exact absurd ((((hok.2 s hsec).2 x hx).2 kv hkv).2 u hu) hbad

/-- a reference field (any of the four kinds) naming no node of the message at all -/
theorem C09_dangling (m : MIR) (hs : structOK m = true) (u : Bytes) (hu : u ∈ m.refUuids)
    (hbad : u ∉ m.nodeUuids) : fromMsg m = .error .deserializationError := by
  apply C09_reference_fault_deser m hs
  cases hc : closedMsg m with
  | false => rfl
  | true => exact absurd (closedMsg_refs_mem m hc u hu) hbad

/-! ### non-vacuity: the four reference kinds on mutations of `exClosedMsg` -/

/-- `exClosedMsg` with an additional edge whose target is the *data* block 7 -/
def exEdgeToData : MIR :=
  { exClosedMsg with cfg := ⟨[], exClosedMsg.cfg.edges ++ [⟨accU 5, accU 7, none⟩]⟩ }

/-- `exClosedMsg` with the entry point of the second module naming a node that does not exist -/
def exEntryDangling : MIR :=
  { exClosedMsg with modules := exClosedMsg.modules.map fun mm =>
      if mm.uuid = accU 20 then { mm with entryPoint := accU 99 } else mm }

/-- `exClosedMsg` with the entry point of the first module naming its *data* block -/
def exEntryData : MIR :=
  { exClosedMsg with modules := exClosedMsg.modules.map fun mm =>
      if mm.uuid = accU 2 then { mm with entryPoint := accU 7 } else mm }

example : structOK exEdgeToData = true ∧ closedMsg exEdgeToData = false := by decide
example : fromMsg exEdgeToData = .error .deserializationError :=
  C09_edge_fault exEdgeToData (by decide) ⟨accU 5, accU 7, none⟩ (by decide) (.inr (by decide))

example : structOK exEntryDangling = true ∧ closedMsg exEntryDangling = false := by decide
example : fromMsg exEntryDangling = .error .deserializationError :=
  C09_dangling exEntryDangling (by decide) (accU 99) (by decide) (by decide)

example : structOK exEntryData = true ∧ closedMsg exEntryData = false := by decide
example : fromMsg exEntryData = .error .deserializationError :=
  C09_reference_fault_deser exEntryData (by decide) (by decide)

/-- the forward reference of K5: a symbol of module 0 referring to a block of module 1 -/
example : fromMsg k5Msg = .error .deserializationError :=
  C09_referent_fault k5Msg (by decide) [] _ _ rfl ⟨accU 3, some (.referentUuid (accU 7)), "forward", false⟩
    (by decide) (accU 7) rfl (by decide)

/-- `structOK` is needed: with a 15-byte reference the error is `ValueError`, not
`DeserializationError`, although the message is not closed either -/
def exShortRef : MIR :=
  { exClosedMsg with cfg := ⟨[], [⟨accU 5, [1, 2, 3], none⟩]⟩ }
example : structOK exShortRef = false ∧ closedMsg exShortRef = false
    ∧ fromMsg exShortRef = .error .valueError := ⟨by decide, by decide, by rfl⟩

end Gtirb.Msg
