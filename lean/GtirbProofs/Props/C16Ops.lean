import GtirbModel.ForestOps
import GtirbProofs.Props.C16
import GtirbProofs.Props.C16Slices
/-! Property C16, return values and non-mutating operations (`GtirbModel/ForestOps.lean`).

C16: "Owning collections behave like the built-in list, set and dict ... with the return values,
resulting contents and exception types of the corresponding built-in operation ... Non-mutating
operations (comparisons, `|`, `&`, `-`, `^` and their reflected forms, slicing, index/count)
return plain values with the mathematically correct contents and leave ownership untouched."

* Return values: `stepR g op` is `step g op` plus the returned value (`C16_stepR_state`);
  `modules.pop(k)` returns the element at Python index `k` of the list before the call, which is
  gone afterwards (`C16_listPop_returns`), `IndexError` exactly for an index out of range
  (`C16_listPop_indexError`); a set's `pop()` returns a member, which is gone afterwards
  (`C16_setPop_returns`), `KeyError` exactly on the empty set (`C16_setPop_keyError`); the
  in-place operators return the collection itself (`C16_inplace_returns_same`), the plain
  methods `None` (`C16_method_returns_none`).
* Set algebra and comparisons: the results of `nmOr ...` have exactly the members of the
  mathematical operation and are duplicate-free (`C16_nmOr_mem` ...), the comparisons are the
  set-theoretic relations (`C16_nmLe_iff` ...). The argument `ys` is an arbitrary list: repeats
  and foreign elements are allowed.
* List reads: `index` is the first position or `ValueError` (`C16_nmIndex_some_iff/_none_iff`),
  `count` the number of occurrences, 0 or 1 here (`C16_nmCount_nodup`), `l[k]` follows `pyIndex`
  (`C16_nmGetItem_spec`), `l[a:b:c]` are the elements at the positions of `slice.indices` in
  `range` order (`C16_nmSlice_spec`).
* "Plain values": the results are `List Nat` / `Bool` / `Nat` / `Option`, not collections of a
  state. "Leave ownership untouched": the functions take the contents `g.kids p s`, not the state,
  and return no state: there is nothing they could change, so this is true by construction and
  not stated as a theorem. Its useful consequence is `C16_nm_frame`: a history with queries
  interleaved ends in the state of the history without them, and every query is answered from
  the contents at that point (`C16_nm_answer`). -/
namespace Gtirb.Forest

/-! ### return values -/

/-- the state component of `stepR` is `step` -/
theorem C16_stepR_state (g : G) (op : Op) : (stepR g op).map (·.1) = step g op := by
  unfold stepR
  cases step g op <;> rfl

theorem C16_stepROp_state (g : G) (op : Op) : (stepROp g op).map (·.1) = step g op := by
  unfold stepROp
  cases step g op <;> rfl

/-- `stepR` succeeds exactly when `step` does, with the value read off the pre-state -/
theorem C16_stepR_ok_iff (g g' : G) (op : Op) (r : Ret) :
    stepR g op = .ok (g', r) ↔ step g op = .ok g' ∧ r = retOf g op := by
  unfold stepR
  cases h : step g op with
  | error e => simp
  | ok g1 =>
    constructor
    · intro hh
      injection hh with hh
      injection hh with h1 h2
      exact ⟨congrArg _ h1, h2.symm⟩
    · rintro ⟨h1, h2⟩
      injection h1 with h1
      rw [h1, h2]

theorem C16_stepROp_ok_iff (g g' : G) (op : Op) (r : Ret) :
    stepROp g op = .ok (g', r) ↔ step g op = .ok g' ∧ r = retOfOp g op := by
  unfold stepROp
  cases h : step g op with
  | error e => simp
  | ok g1 =>
    constructor
    · intro hh
      injection hh with hh
      injection hh with h1 h2
      exact ⟨congrArg _ h1, h2.symm⟩
    · rintro ⟨h1, h2⟩
      injection h1 with h1
      rw [h1, h2]

/-- and raises exactly what `step` raises -/
theorem C16_stepR_error_iff (g : G) (op : Op) (e : Exc) :
    stepR g op = .error e ↔ step g op = .error e := by
  unfold stepR
  cases h : step g op with
  | error e' =>
    constructor
    · intro hh; injection hh with hh; rw [hh]
    · intro hh; injection hh with hh; rw [hh]
  | ok g1 => simp

theorem nodup_not_mem_eraseIdx {l : List Nat} (hl : l.Nodup) {idx v : Nat} (hv : l[idx]? = some v) :
    v ∉ l.eraseIdx idx := by
  induction l generalizing idx with
  | nil => simp
  | cons a t ih =>
    rw [List.nodup_cons] at hl
    cases idx with
    | zero =>
      simp only [List.getElem?_cons_zero, Option.some.injEq] at hv
      subst hv
      simpa using hl.1
    | succ n =>
      simp only [List.getElem?_cons_succ] at hv
      rw [List.eraseIdx_cons_succ, List.mem_cons]
      rintro (h1 | h1)
      · subst h1
        exact hl.1 (List.mem_of_getElem? hv)
      · exact ih hl.2 hv h1

/-- `modules.pop(k)`: the returned node is the element at Python index `k` of the list before the
call; afterwards it is not in the list (which is the old one without that position) and it is
detached -/
theorem C16_listPop_returns (g g' : G) (i : Nat) (k : Int) (r : Ret) (h : ForestInv g)
    (hs : stepR g (.listPop i k) = .ok (g', r)) :
    ∃ idx old, pyIndex (g.kids i .mods).length k = some idx ∧ (g.kids i .mods)[idx]? = some old ∧
      r = .node old ∧ nmGetItem (g.kids i .mods) k = some old ∧
      g'.kids i .mods = (g.kids i .mods).eraseIdx idx ∧ old ∉ g'.kids i .mods ∧ g'.par old = none := by
  obtain ⟨h1, h2⟩ := (C16_stepR_ok_iff _ _ _ _).1 hs
  obtain ⟨idx, old, hi, ho, hk, hp, _, _⟩ := C16_listPop_content g g' i k h1
  refine ⟨idx, old, hi, ho, ?_, ?_, hk, ?_, hp⟩
  · rw [h2]
    simp only [retOf, hi, ho]
  · simp only [nmGetItem, hi, ho]
  · rw [hk]
    exact nodup_not_mem_eraseIdx (h.nodup i .mods) ho

/-- `modules.pop(k)` raises `IndexError` exactly when `k` is out of range (`¬ (-len ≤ k < len)`) -/
theorem C16_listPop_indexError (g : G) (i : Nat) (k : Int) :
    stepR g (.listPop i k) = .error .indexError ↔
      ¬ (-((g.kids i .mods).length : Int) ≤ k ∧ k < (g.kids i .mods).length) := by
  rw [C16_stepR_error_iff, (C16_builtin_errors_pure g).2.2.2.2.1 i k, C16_pyIndex_spec]
  by_cases hk : -((g.kids i .mods).length : Int) ≤ k ∧ k < (g.kids i .mods).length
  · simp [hk]
  · simp [hk]

/-- a set's `pop()`: the returned element was a member and is not one afterwards; the other
members stay -/
theorem C16_setPop_returns (g g' : G) (p : Nat) (s : Slot) (v : Nat) (r : Ret) (h : ForestInv g)
    (hs : stepR g (.pop p s v) = .ok (g', r)) :
    r = .node v ∧ v ∈ g.kids p s ∧ v ∉ g'.kids p s ∧
      (∀ x, x ∈ g'.kids p s ↔ x ∈ g.kids p s ∧ x ≠ v) := by
  obtain ⟨h1, h2⟩ := (C16_stepR_ok_iff _ _ _ _).1 hs
  have hv : v ∈ g.kids p s := by
    simp only [step] at h1
    split at h1
    · cases h1
    · split at h1
      · assumption
      · cases h1
  rw [C16_pop_member g p s v hv] at h1
  have hc := (C16_discard_content g g' p s v h h1).1
  refine ⟨h2, hv, ?_, hc⟩
  intro hx
  exact ((hc v).1 hx).2 rfl

/-- `pop()` raises `KeyError` exactly on the empty set -/
theorem C16_setPop_keyError (g : G) (p : Nat) (s : Slot) (v : Nat) :
    stepR g (.pop p s v) = .error .keyError ↔ g.kids p s = [] := by
  rw [C16_stepR_error_iff]
  exact (C16_builtin_errors_pure g).2.1 p s v

/-- the operations with an operator spelling that must return the collection itself -/
def isInplace : Op → Bool
  | .update _ _ _ | .isub _ _ _ | .iand _ _ _ _ | .ixor _ _ _ | .extend _ _ => true
  | _ => false

/-- `|=`, `-=`, `&=`, `^=`, `+=` return the collection object itself (the attribute is not
rebound), with the state of `step` -/
theorem C16_inplace_returns_same (g g' : G) (op : Op) (r : Ret) (hop : isInplace op = true)
    (hs : stepROp g op = .ok (g', r)) : r = .same ∧ step g op = .ok g' := by
  obtain ⟨h1, h2⟩ := (C16_stepROp_ok_iff _ _ _ _).1 hs
  refine ⟨?_, h1⟩
  rw [h2]
  cases op <;> first | rfl | cases hop

/-- `-=`, `&=`, `^=` have no method spelling: `stepR` already returns the collection -/
theorem C16_inplace_returns_same' (g g' : G) (p : Nat) (s : Slot) (vs order : List Nat) (r : Ret) :
    (stepR g (.isub p s vs) = .ok (g', r) → r = .same) ∧
    (stepR g (.iand p s vs order) = .ok (g', r) → r = .same) ∧
    (stepR g (.ixor p s vs) = .ok (g', r) → r = .same) :=
  ⟨fun hs => ((C16_stepR_ok_iff _ _ _ _).1 hs).2, fun hs => ((C16_stepR_ok_iff _ _ _ _).1 hs).2,
   fun hs => ((C16_stepR_ok_iff _ _ _ _).1 hs).2⟩

/-- the methods and statements that return `None` -/
def returnsNone : Op → Bool
  | .setParent _ _ | .add _ _ _ | .discard _ _ _ | .remove _ _ _ | .clear _ _ _ | .update _ _ _
  | .insert _ _ _ | .append _ _ | .extend _ _ | .delItem _ _ | .setItem _ _ _ | .listRemove _ _
  | .reverse _ | .listClear _ | .setName _ _ | .setPayload _ _ => true
  | _ => false

theorem C16_method_returns_none (g g' : G) (op : Op) (r : Ret) (hop : returnsNone op = true)
    (hs : stepR g op = .ok (g', r)) : r = .none := by
  rw [((C16_stepR_ok_iff _ _ _ _).1 hs).2]
  cases op <;> first | rfl | cases hop

/-- constructors return the node they allocate -/
theorem C16_constructor_returns (g : G) :
    (∀ u, retOf g (.mkIR u) = .node g.n) ∧
    (∀ k u kids parent, retOf g (.mk k u kids parent) = .node g.n) ∧
    (∀ u nm pl parent, retOf g (.mkSym u nm pl parent) = .node g.n) :=
  ⟨fun _ => rfl, fun _ _ _ _ => rfl, fun _ _ _ _ => rfl⟩

/-! ### set algebra -/

theorem mem_addNew (x : Nat) : ∀ (ys acc : List Nat), x ∈ addNew acc ys ↔ x ∈ acc ∨ x ∈ ys
  | [], acc => by simp [addNew]
  | y :: ys, acc => by
    rw [addNew, mem_addNew x ys]
    by_cases hy : y ∈ acc
    · rw [if_pos hy, List.mem_cons]
      constructor
      · rintro (h | h)
        · exact .inl h
        · exact .inr (.inr h)
      · rintro (h | h | h)
        · exact .inl h
        · exact .inl (h ▸ hy)
        · exact .inr h
    · rw [if_neg hy, List.mem_append, List.mem_singleton, List.mem_cons, or_assoc]

theorem nodup_addNew : ∀ (ys acc : List Nat), acc.Nodup → (addNew acc ys).Nodup
  | [], _, h => h
  | y :: ys, acc, h => by
    rw [addNew]
    apply nodup_addNew ys
    by_cases hy : y ∈ acc
    · rw [if_pos hy]; exact h
    · rw [if_neg hy, List.nodup_append]
      refine ⟨h, by simp, ?_⟩
      intro a ha b hb
      rw [List.mem_singleton] at hb
      subst hb
      intro hab
      exact hy (hab ▸ ha)

theorem mem_distinct (x : Nat) (ys : List Nat) : x ∈ distinct ys ↔ x ∈ ys := by
  unfold distinct
  rw [mem_addNew]
  simp

theorem nodup_distinct (ys : List Nat) : (distinct ys).Nodup := nodup_addNew ys [] List.nodup_nil

/-- `coll | ys` -/
theorem C16_nmOr_mem (xs ys : List Nat) (x : Nat) : x ∈ nmOr xs ys ↔ x ∈ xs ∨ x ∈ ys :=
  mem_addNew x ys xs

theorem C16_nmOr_nodup (xs ys : List Nat) (hx : xs.Nodup) : (nmOr xs ys).Nodup := nodup_addNew ys xs hx

/-- `coll & ys` -/
theorem C16_nmAnd_mem (xs ys : List Nat) (x : Nat) : x ∈ nmAnd xs ys ↔ x ∈ xs ∧ x ∈ ys := by
  simp [nmAnd, List.mem_filter]

theorem C16_nmAnd_nodup (xs ys : List Nat) (hx : xs.Nodup) : (nmAnd xs ys).Nodup :=
  hx.sublist List.filter_sublist

/-- `coll - ys` -/
theorem C16_nmSub_mem (xs ys : List Nat) (x : Nat) : x ∈ nmSub xs ys ↔ x ∈ xs ∧ x ∉ ys := by
  simp [nmSub, List.mem_filter]

theorem C16_nmSub_nodup (xs ys : List Nat) (hx : xs.Nodup) : (nmSub xs ys).Nodup :=
  hx.sublist List.filter_sublist

/-- `ys - coll` -/
theorem C16_nmRSub_mem (ys xs : List Nat) (x : Nat) : x ∈ nmRSub ys xs ↔ x ∈ ys ∧ x ∉ xs := by
  simp [nmRSub, List.mem_filter, mem_distinct]

/-- duplicate-free whatever the argument looks like -/
theorem C16_nmRSub_nodup (ys xs : List Nat) : (nmRSub ys xs).Nodup :=
  (nodup_distinct ys).sublist List.filter_sublist

/-- `coll ^ ys`: in exactly one of the two -/
theorem C16_nmXor_mem (xs ys : List Nat) (x : Nat) : x ∈ nmXor xs ys ↔ ¬ (x ∈ xs ↔ x ∈ ys) := by
  unfold nmXor
  rw [List.mem_append, C16_nmSub_mem, C16_nmRSub_mem]
  by_cases h1 : x ∈ xs <;> by_cases h2 : x ∈ ys <;> simp [h1, h2]

theorem C16_nmXor_mem' (xs ys : List Nat) (x : Nat) : x ∈ nmXor xs ys ↔ (x ∈ xs) ≠ (x ∈ ys) := by
  rw [C16_nmXor_mem]
  constructor
  · intro h he
    exact h (he ▸ Iff.rfl)
  · intro h he
    exact h (propext he)

theorem C16_nmXor_nodup (xs ys : List Nat) (hx : xs.Nodup) : (nmXor xs ys).Nodup := by
  unfold nmXor
  rw [List.nodup_append]
  refine ⟨C16_nmSub_nodup xs ys hx, C16_nmRSub_nodup ys xs, ?_⟩
  intro a ha b hb hab
  subst hab
  exact ((C16_nmRSub_mem ys xs a).1 hb).2 ((C16_nmSub_mem xs ys a).1 ha).1

/-- the reflected forms have the members of the mirrored operation -/
theorem C16_nmROr_mem (ys xs : List Nat) (x : Nat) : x ∈ nmROr ys xs ↔ x ∈ ys ∨ x ∈ xs := by
  unfold nmROr
  rw [mem_addNew, mem_distinct]

theorem C16_nmROr_nodup (ys xs : List Nat) : (nmROr ys xs).Nodup := nodup_addNew xs _ (nodup_distinct ys)

theorem C16_nmRAnd_mem (ys xs : List Nat) (x : Nat) : x ∈ nmRAnd ys xs ↔ x ∈ ys ∧ x ∈ xs := by
  simp [nmRAnd, List.mem_filter, mem_distinct]

theorem C16_nmRAnd_nodup (ys xs : List Nat) : (nmRAnd ys xs).Nodup :=
  (nodup_distinct ys).sublist List.filter_sublist

theorem C16_nmRXor_mem (ys xs : List Nat) (x : Nat) : x ∈ nmRXor ys xs ↔ ¬ (x ∈ ys ↔ x ∈ xs) := by
  unfold nmRXor
  rw [List.mem_append, C16_nmSub_mem, C16_nmRSub_mem]
  by_cases h1 : x ∈ xs <;> by_cases h2 : x ∈ ys <;> simp [h1, h2]

theorem C16_nmRXor_nodup (ys xs : List Nat) (hx : xs.Nodup) : (nmRXor ys xs).Nodup := by
  unfold nmRXor
  rw [List.nodup_append]
  refine ⟨C16_nmRSub_nodup ys xs, C16_nmSub_nodup xs ys hx, ?_⟩
  intro a ha b hb hab
  subst hab
  exact ((C16_nmRSub_mem ys xs a).1 ha).2 ((C16_nmSub_mem xs ys a).1 hb).1

/-- the truth table of a binary set operator: is `x` in the result, given whether it is in the
collection (`a`) and in the argument (`b`) -/
def binSpec : SetBin → Bool → Bool → Bool
  | .or, a, b | .ror, a, b => a || b
  | .and, a, b | .rand, a, b => a && b
  | .sub, a, b => a && !b
  | .rsub, a, b => b && !a
  | .xor, a, b | .rxor, a, b => a != b

/-- all eight operators at once (what the driver's `nm <op>` answers): the result is a
duplicate-free plain list with exactly the members of the mathematical operation -/
theorem C16_evalBin_spec (op : SetBin) (xs ys : List Nat) (hx : xs.Nodup) :
    (evalBin op xs ys).Nodup ∧
    ∀ x, x ∈ evalBin op xs ys ↔ binSpec op (decide (x ∈ xs)) (decide (x ∈ ys)) = true := by
  cases op
  · exact ⟨C16_nmOr_nodup xs ys hx, fun x => by simp [evalBin, binSpec, C16_nmOr_mem]⟩
  · exact ⟨C16_nmAnd_nodup xs ys hx, fun x => by simp [evalBin, binSpec, C16_nmAnd_mem]⟩
  · exact ⟨C16_nmSub_nodup xs ys hx, fun x => by simp [evalBin, binSpec, C16_nmSub_mem]⟩
  · refine ⟨C16_nmXor_nodup xs ys hx, fun x => ?_⟩
    simp only [evalBin, binSpec, C16_nmXor_mem]
    by_cases h1 : x ∈ xs <;> by_cases h2 : x ∈ ys <;> simp [h1, h2]
  · exact ⟨C16_nmROr_nodup ys xs, fun x => by simp [evalBin, binSpec, C16_nmROr_mem, or_comm]⟩
  · exact ⟨C16_nmRAnd_nodup ys xs, fun x => by simp [evalBin, binSpec, C16_nmRAnd_mem, and_comm]⟩
  · exact ⟨C16_nmRSub_nodup ys xs, fun x => by simp [evalBin, binSpec, C16_nmRSub_mem]⟩
  · refine ⟨C16_nmRXor_nodup ys xs hx, fun x => ?_⟩
    simp only [evalBin, binSpec, C16_nmRXor_mem]
    by_cases h1 : x ∈ xs <;> by_cases h2 : x ∈ ys <;> simp [h1, h2]

/-! ### comparisons -/

/-- `coll <= ys`: subset -/
theorem C16_nmLe_iff (xs ys : List Nat) : nmLe xs ys = true ↔ ∀ x ∈ xs, x ∈ ys := by
  simp [nmLe, List.all_eq_true]

/-- `coll >= ys`: superset -/
theorem C16_nmGe_iff (xs ys : List Nat) : nmGe xs ys = true ↔ ∀ y ∈ ys, y ∈ xs := by
  simp [nmGe, List.all_eq_true]

/-- `coll < ys`: subset, and some element of `ys` is not in the collection -/
theorem C16_nmLt_iff (xs ys : List Nat) :
    nmLt xs ys = true ↔ (∀ x ∈ xs, x ∈ ys) ∧ ∃ y, y ∈ ys ∧ y ∉ xs := by
  simp [nmLt, nmLe, List.all_eq_true, List.any_eq_true]

/-- `coll > ys` -/
theorem C16_nmGt_iff (xs ys : List Nat) :
    nmGt xs ys = true ↔ (∀ y ∈ ys, y ∈ xs) ∧ ∃ x, x ∈ xs ∧ x ∉ ys := by
  simp [nmGt, nmGe, List.all_eq_true, List.any_eq_true]

/-- `coll == ys`: the same members -/
theorem C16_nmEq_iff (xs ys : List Nat) : nmEq xs ys = true ↔ ∀ x, x ∈ xs ↔ x ∈ ys := by
  unfold nmEq
  rw [Bool.and_eq_true, C16_nmLe_iff, C16_nmGe_iff]
  constructor
  · rintro ⟨h1, h2⟩ x
    exact ⟨h1 x, h2 x⟩
  · intro h
    exact ⟨fun x => (h x).1, fun x => (h x).2⟩

/-- `coll != ys` -/
theorem C16_nmNe_iff (xs ys : List Nat) : nmNe xs ys = true ↔ ¬ ∀ x, x ∈ xs ↔ x ∈ ys := by
  unfold nmNe
  rw [← C16_nmEq_iff]
  cases nmEq xs ys <;> simp

/-- `coll.isdisjoint(ys)`: no common member -/
theorem C16_nmIsDisjoint_iff (xs ys : List Nat) :
    nmIsDisjoint xs ys = true ↔ ∀ x, ¬ (x ∈ xs ∧ x ∈ ys) := by
  simp only [nmIsDisjoint, List.all_eq_true, Bool.not_eq_true', decide_eq_false_iff_not]
  constructor
  · intro h x hx
    exact h x hx.2 hx.1
  · intro h y hy hx
    exact h y ⟨hx, hy⟩

/-- the comparisons are consistent with each other and with the operators: `<` is `<=` and `!=`,
`>=` / `>` are `<=` / `<` mirrored on the members, disjoint = empty intersection -/
theorem C16_cmp_consistent (xs ys : List Nat) :
    (nmLt xs ys = (nmLe xs ys && nmNe xs ys)) ∧ (nmGt xs ys = (nmGe xs ys && nmNe xs ys)) ∧
    (nmGe xs ys = nmLe ys xs) ∧ (nmIsDisjoint xs ys = (nmAnd xs ys).isEmpty) := by
  refine ⟨?_, ?_, rfl, ?_⟩
  · rw [Bool.eq_iff_iff, Bool.and_eq_true, C16_nmLt_iff, C16_nmLe_iff, C16_nmNe_iff]
    constructor
    · rintro ⟨h1, y, hy, hn⟩
      exact ⟨h1, fun h => hn ((h y).2 hy)⟩
    · rintro ⟨h1, h2⟩
      refine ⟨h1, ?_⟩
      apply Classical.byContradiction
      intro hc
      apply h2
      intro x
      refine ⟨h1 x, fun hy => ?_⟩
      apply Classical.byContradiction
      intro hx
      exact hc ⟨x, hy, hx⟩
  · rw [Bool.eq_iff_iff, Bool.and_eq_true, C16_nmGt_iff, C16_nmGe_iff, C16_nmNe_iff]
    constructor
    · rintro ⟨h1, x, hx, hn⟩
      exact ⟨h1, fun h => hn ((h x).1 hx)⟩
    · rintro ⟨h1, h2⟩
      refine ⟨h1, ?_⟩
      apply Classical.byContradiction
      intro hc
      apply h2
      intro x
      refine ⟨fun hx => ?_, h1 x⟩
      apply Classical.byContradiction
      intro hy
      exact hc ⟨x, hx, hy⟩
  · rw [Bool.eq_iff_iff, C16_nmIsDisjoint_iff, List.isEmpty_iff]
    constructor
    · intro h
      apply List.eq_nil_iff_forall_not_mem.2
      intro x hx
      exact h x ((C16_nmAnd_mem xs ys x).1 hx)
    · intro h x hx
      have := (C16_nmAnd_mem xs ys x).2 hx
      rw [h] at this
      cases this

/-- `v in coll` -/
theorem C16_nmContains_iff (xs : List Nat) (v : Nat) : nmContains xs v = true ↔ v ∈ xs := by
  simp [nmContains]

/-! ### list reads -/

/-- `l.index(v) = i`: `v` is at position `i` and at no earlier position -/
theorem C16_nmIndex_some_iff (xs : List Nat) (v i : Nat) :
    nmIndex xs v = some i ↔ xs[i]? = some v ∧ ∀ j, j < i → xs[j]? ≠ some v := by
  induction xs generalizing i with
  | nil => simp [nmIndex]
  | cons a t ih =>
    unfold nmIndex
    by_cases ha : a = v
    · rw [if_pos ha]
      cases i with
      | zero => simp [ha]
      | succ n =>
        constructor
        · intro h; cases h
        · rintro ⟨_, h2⟩
          exact absurd (by simp [ha]) (h2 0 (Nat.succ_pos n))
    · rw [if_neg ha]
      cases i with
      | zero =>
        constructor
        · intro h
          rw [Option.map_eq_some_iff] at h
          obtain ⟨m, _, hm⟩ := h
          omega
        · rintro ⟨h1, _⟩
          simp only [List.getElem?_cons_zero, Option.some.injEq] at h1
          exact absurd h1 ha
      | succ n =>
        rw [List.getElem?_cons_succ]
        constructor
        · intro h
          rw [Option.map_eq_some_iff] at h
          obtain ⟨m, hm, hmn⟩ := h
          have hmn' : m = n := by omega
          subst hmn'
          obtain ⟨h1, h2⟩ := (ih m).1 hm
          refine ⟨h1, ?_⟩
          intro j hj
          cases j with
          | zero => simpa using ha
          | succ j' =>
            rw [List.getElem?_cons_succ]
            exact h2 j' (by omega)
        · rintro ⟨h1, h2⟩
          rw [Option.map_eq_some_iff]
          refine ⟨n, (ih n).2 ⟨h1, ?_⟩, rfl⟩
          intro j hj
          have := h2 (j + 1) (by omega)
          rwa [List.getElem?_cons_succ] at this

/-- `l.index(v)` raises `ValueError` exactly when `v` is not in the list -/
theorem C16_nmIndex_none_iff (xs : List Nat) (v : Nat) : nmIndex xs v = none ↔ v ∉ xs := by
  induction xs with
  | nil => simp [nmIndex]
  | cons a t ih =>
    unfold nmIndex
    by_cases ha : a = v
    · rw [if_pos ha]; simp [ha]
    · rw [if_neg ha, Option.map_eq_none_iff, ih, List.mem_cons]
      constructor
      · rintro h (h1 | h1)
        · exact ha h1.symm
        · exact h h1
      · intro h h1
        exact h (.inr h1)

/-- in a duplicate-free list (every reachable module list) the position is the unique one -/
theorem C16_nmIndex_nodup (xs : List Nat) (v i : Nat) (hx : xs.Nodup) :
    nmIndex xs v = some i ↔ xs[i]? = some v := by
  rw [C16_nmIndex_some_iff]
  constructor
  · exact fun h => h.1
  · intro h
    refine ⟨h, ?_⟩
    intro j hj hj'
    have hi := (List.getElem?_eq_some_iff.1 h)
    have hjj := (List.getElem?_eq_some_iff.1 hj')
    obtain ⟨h1, h2⟩ := hi
    obtain ⟨h3, h4⟩ := hjj
    have := (List.getElem_inj (h₀ := h3) (h₁ := h1) hx).1 (h4.trans h2.symm)
    omega

/-- `l.count(v)`: the number of occurrences -/
theorem C16_nmCount_eq (xs : List Nat) (v : Nat) : nmCount xs v = xs.count v := by
  induction xs with
  | nil => rfl
  | cons a t ih =>
    unfold nmCount at ih ⊢
    rw [List.filter_cons, List.count_cons]
    by_cases ha : a = v
    · simp [ha, ih]
    · simp [ha, ih]

/-- 0 or 1 in a duplicate-free list -/
theorem C16_nmCount_nodup (xs : List Nat) (v : Nat) (hx : xs.Nodup) :
    nmCount xs v = if v ∈ xs then 1 else 0 := by
  induction xs with
  | nil => rfl
  | cons a t ih =>
    rw [List.nodup_cons] at hx
    have ih' := ih hx.2
    unfold nmCount at ih' ⊢
    rw [List.filter_cons]
    by_cases ha : a = v
    · subst ha
      have hn : a ∉ t := hx.1
      rw [if_neg hn] at ih'
      simp [ih']
    · have : (v ∈ a :: t) ↔ v ∈ t := by
        rw [List.mem_cons]
        constructor
        · rintro (h | h)
          · exact absurd h.symm ha
          · exact h
        · exact .inr
      simp only [ha, decide_false, Bool.false_eq_true, if_false, ih', this]

/-- `count` and `index` agree with membership -/
theorem C16_nmCount_pos_iff (xs : List Nat) (v : Nat) : 0 < nmCount xs v ↔ v ∈ xs := by
  rw [C16_nmCount_eq, List.count_pos_iff]

/-- `l[k]`: Python's index rule (`pyIndex`), `IndexError` exactly when out of range -/
theorem C16_nmGetItem_spec (xs : List Nat) (k : Int) :
    nmGetItem xs k = (pyIndex xs.length k).bind (fun idx => xs[idx]?) ∧
    (nmGetItem xs k = none ↔ pyIndex xs.length k = none) ∧
    (nmGetItem xs k = none ↔ ¬ (-(xs.length : Int) ≤ k ∧ k < xs.length)) ∧
    (-(xs.length : Int) ≤ k ∧ k < xs.length → nmGetItem xs k = xs[(k % xs.length).toNat]?) := by
  have h0 : nmGetItem xs k = (pyIndex xs.length k).bind (fun idx => xs[idx]?) := by
    unfold nmGetItem
    cases pyIndex xs.length k <;> rfl
  have h1 : nmGetItem xs k = none ↔ pyIndex xs.length k = none := by
    rw [h0]
    cases hp : pyIndex xs.length k with
    | none => simp
    | some idx =>
      have := wr_pyIndex_lt hp
      simp [this]
  refine ⟨h0, h1, ?_, ?_⟩
  · rw [h1, C16_pyIndex_spec]
    by_cases hk : -(xs.length : Int) ≤ k ∧ k < xs.length <;> simp [hk]
  · intro hk
    rw [h0, C16_pyIndex_spec, if_pos hk]
    rfl

/-- a natural-number index is the plain list access -/
theorem C16_nmGetItem_nat (xs : List Nat) (n : Nat) : nmGetItem xs (n : Int) = xs[n]? := by
  by_cases hn : n < xs.length
  · rw [(C16_nmGetItem_spec xs n).1, pyIndex_nat hn]
    rfl
  · have : nmGetItem xs (n : Int) = none := by
      rw [(C16_nmGetItem_spec xs n).2.2.1]
      omega
    rw [this, eq_comm, List.getElem?_eq_none_iff]
    omega

/-- the last element is `l[-1]` -/
theorem C16_nmGetItem_last (xs : List Nat) : nmGetItem xs (-1) = xs.getLast? := by
  cases hx : xs with
  | nil => rfl
  | cons a t =>
    rw [← hx]
    have hl : 0 < xs.length := by rw [hx]; simp
    rw [(C16_nmGetItem_spec xs (-1)).2.2.2 (by omega), List.getLast?_eq_getElem?]
    congr 1
    have : ((-1 : Int) % (xs.length : Int)) = (xs.length : Int) - 1 := by
      rw [Int.emod_eq_add_self_emod]
      rw [Int.emod_eq_of_lt] <;> omega
    rw [this]
    omega

theorem pick_spec (xs : List Nat) : ∀ (sel : List Nat), (∀ p ∈ sel, p < xs.length) →
    (pick xs sel).length = sel.length ∧ ∀ j : Nat, (pick xs sel)[j]? = (sel[j]?).bind (fun (p : Nat) => xs[p]?)
  | [], _ => by simp [pick]
  | p :: t, h => by
    have hp : p < xs.length := h p (List.mem_cons_self)
    obtain ⟨h1, h2⟩ := pick_spec xs t (fun q hq => h q (List.mem_cons_of_mem _ hq))
    have hc : pick xs (p :: t) = xs[p] :: pick xs t := by
      unfold pick
      rw [List.filterMap_cons_some (List.getElem?_eq_getElem hp)]
    rw [hc]
    refine ⟨by simp [h1], ?_⟩
    intro j
    cases j with
    | zero => simp [List.getElem?_eq_getElem hp]
    | succ n => simpa using h2 n

/-- `l[start:stop:step]`: `ValueError` exactly for step 0; otherwise the elements at the positions
`range(*slice.indices(len(l)))` (all of them list positions, pairwise different), in that order -/
theorem C16_nmSlice_spec (xs : List Nat) (start stop step : Option Int) :
    (nmSlice xs start stop step = none ↔ step = some 0) ∧
    ∀ l, nmSlice xs start stop step = some l →
      ∃ sel, sliceSelected xs.length start stop step = some sel ∧ sel.Nodup ∧ (∀ p ∈ sel, p < xs.length) ∧
        l.length = sel.length ∧ (∀ j : Nat, l[j]? = (sel[j]?).bind (fun (p : Nat) => xs[p]?)) ∧
        (∀ x, x ∈ l → x ∈ xs) := by
  constructor
  · rw [← C16_sliceIndices_none_iff xs.length start stop step]
    unfold nmSlice sliceSelected
    cases sliceIndices xs.length start stop step with
    | none => simp
    | some t => obtain ⟨a, b, st⟩ := t; simp
  · intro l hl
    unfold nmSlice at hl
    cases hsel : sliceSelected xs.length start stop step with
    | none => rw [hsel] at hl; cases hl
    | some sel =>
      rw [hsel] at hl
      injection hl with hl
      subst hl
      obtain ⟨hnd, hb, _, _⟩ := C16_sliceSelected_bounds xs.length start stop step sel hsel
      obtain ⟨h1, h2⟩ := pick_spec xs sel hb
      refine ⟨sel, rfl, hnd, hb, h1, h2, ?_⟩
      intro x hx
      unfold pick at hx
      rw [List.mem_filterMap] at hx
      obtain ⟨p, _, hp⟩ := hx
      exact List.mem_of_getElem? hp

theorem pick_range' (xs : List Nat) : ∀ (n s : Nat), s + n ≤ xs.length →
    pick xs (List.range' s n) = (xs.drop s).take n
  | 0, s, _ => by simp [pick]
  | n + 1, s, h => by
    have hs : s < xs.length := by omega
    have ih := pick_range' xs n (s + 1) (by omega)
    have hc : pick xs (List.range' s (n + 1)) = xs[s] :: pick xs (List.range' (s + 1) n) := by
      unfold pick
      rw [List.range'_succ, List.filterMap_cons_some (List.getElem?_eq_getElem hs)]
    rw [hc, ih, List.drop_eq_getElem_cons hs, List.take_succ_cons]

/-- a plain slice (step 1): the segment between the normalised bounds -/
theorem C16_nmSlice_step1 (xs : List Nat) (start stop step : Option Int) (a b : Int)
    (h : sliceIndices xs.length start stop step = some (a, b, 1)) :
    nmSlice xs start stop step = some ((xs.drop a.toNat).take (b - a).toNat) := by
  obtain ⟨h1, h2, h3, h4, h5⟩ := C16_sliceSelected_step1 xs.length start stop step a b h
  unfold nmSlice
  rw [h5]
  simp only
  by_cases hab : a ≤ b
  · rw [pick_range' xs _ _ (by omega)]
  · have : (b - a).toNat = 0 := by omega
    rw [this]
    simp [pick]

/-- `l[:]` is a copy of the list -/
theorem C16_nmSlice_full (xs : List Nat) : nmSlice xs none none none = some xs := by
  have h : sliceIndices xs.length none none none = some (0, (xs.length : Int), 1) := by
    simp [sliceIndices]
  rw [C16_nmSlice_step1 xs none none none 0 xs.length h]
  simp

/-! ### queries do not disturb histories -/

/-- a query reads the contents of its collection and nothing else -/
theorem C16_nm_reads_contents_only (g g' : G) (p : Nat) (s : Slot) (q : NmQ)
    (h : g'.kids p s = g.kids p s) : evalNm g' p s q = evalNm g p s q := by
  unfold evalNm
  rw [h]

/-- a history with non-mutating operations interleaved ends in exactly the state (or the
exception) of the history with those operations deleted: evaluating them changes nothing any later
operation can see -/
theorem C16_nm_frame (cs : List Cmd) : ∀ (g : G),
    (runCmds g cs).map (·.1) = runE g (cs.filterMap Cmd.op?) := by
  induction cs with
  | nil => intro g; rfl
  | cons c cs ih =>
    intro g
    cases c with
    | op o =>
      simp only [runCmds, List.filterMap_cons, Cmd.op?, runE]
      cases step g o with
      | error e => rfl
      | ok g1 => exact ih g1
    | query p s q =>
      simp only [runCmds, List.filterMap_cons, Cmd.op?]
      rw [← ih g]
      cases runCmds g cs with
      | error e => rfl
      | ok r => rfl

/-- the two-step form: a query between two mutating operations does not change the result of the
second -/
theorem C16_nm_frame_between (g : G) (a b : Op) (p : Nat) (s : Slot) (q : NmQ) :
    (runCmds g [.op a, .query p s q, .op b]).map (·.1) = runE g [a, b] :=
  C16_nm_frame _ g

/-- the number of queries in a history -/
def nQueries (cs : List Cmd) : Nat := (cs.filter (fun c => c.op?.isNone)).length

/-- and every query of a history is answered from the contents at that point: the state reached
by the mutating operations before it -/
theorem C16_nm_answer (cs1 cs2 : List Cmd) (p : Nat) (s : Slot) (q : NmQ) : ∀ (g g' : G) (vs : List NmVal),
    runCmds g (cs1 ++ .query p s q :: cs2) = .ok (g', vs) →
    ∃ g1, runE g (cs1.filterMap Cmd.op?) = .ok g1 ∧ vs[nQueries cs1]? = some (evalNm g1 p s q) := by
  induction cs1 with
  | nil =>
    intro g g' vs h
    refine ⟨g, rfl, ?_⟩
    simp only [List.nil_append, runCmds] at h
    cases hr : runCmds g cs2 with
    | error e => rw [hr] at h; cases h
    | ok r =>
      rw [hr] at h
      obtain ⟨g2, vs2⟩ := r
      injection h with h
      injection h with _ h2
      rw [← h2]
      rfl
  | cons c cs ih =>
    intro g g' vs h
    cases c with
    | op o =>
      simp only [List.cons_append, runCmds] at h
      cases hs : step g o with
      | error e => rw [hs] at h; cases h
      | ok g2 =>
        rw [hs] at h
        obtain ⟨g1, h1, h2⟩ := ih g2 g' vs h
        refine ⟨g1, ?_, ?_⟩
        · simp only [List.filterMap_cons, Cmd.op?, runE, hs]
          exact h1
        · simpa [nQueries, Cmd.op?] using h2
    | query p' s' q' =>
      simp only [List.cons_append, runCmds] at h
      cases hr : runCmds g (cs ++ .query p s q :: cs2) with
      | error e => rw [hr] at h; cases h
      | ok r =>
        rw [hr] at h
        obtain ⟨g2, vs2⟩ := r
        injection h with h
        injection h with hg hv
        obtain ⟨g1, h1, h2⟩ := ih g g2 vs2 hr
        refine ⟨g1, ?_, ?_⟩
        · simpa [List.filterMap_cons, Cmd.op?] using h1
        · rw [← hv]
          have : nQueries (Cmd.query p' s' q' :: cs) = nQueries cs + 1 := by
            simp [nQueries, Cmd.op?]
          rw [this, List.getElem?_cons_succ]
          exact h2

/-! ### non-vacuity: concrete instances -/

/-- IR 0 with modules 1, 2, 3; sections 4, 5 in module 1, section 6 in module 2; module 3 empty;
IR 7 without modules -/
def opsBase : List Op :=
  [.mkIR 100, .mk .module 101 [] (some 0), .mk .module 102 [] (some 0), .mk .module 103 [] (some 0),
   .mk .section 104 [] (some 1), .mk .section 105 [] (some 1), .mk .section 106 [] (some 2), .mkIR 107]

/-- what a call shows: the exception or the returned value -/
def retOutcome (r : Except Exc (G × Ret)) : Option Exc × Option Ret :=
  match r with
  | .ok (_, v) => (none, some v)
  | .error e => (some e, none)

/-- the list after the call (`none` when it raised) -/
def modsAfter (r : Except Exc (G × Ret)) (i : Nat) : Option (List Nat) :=
  match r with
  | .ok (g, _) => some (g.kids i .mods)
  | .error _ => none

example : (run {} opsBase).kids 0 .mods = [1, 2, 3] ∧ (run {} opsBase).kids 1 .secs = [4, 5] ∧
    (run {} opsBase).kids 3 .secs = [] ∧ (run {} opsBase).kids 7 .mods = [] := by decide

/-- `modules.pop(-1)`, `pop(0)`, `pop(-3)` return the last / first / first module and remove it -/
example : retOutcome (stepR (run {} opsBase) (.listPop 0 (-1))) = (none, some (.node 3)) ∧
    modsAfter (stepR (run {} opsBase) (.listPop 0 (-1))) 0 = some [1, 2] ∧
    retOutcome (stepR (run {} opsBase) (.listPop 0 0)) = (none, some (.node 1)) ∧
    retOutcome (stepR (run {} opsBase) (.listPop 0 (-3))) = (none, some (.node 1)) ∧
    modsAfter (stepR (run {} opsBase) (.listPop 0 (-3))) 0 = some [2, 3] := by decide

/-- out of range on both sides, and on the empty list: `IndexError` -/
example : retOutcome (stepR (run {} opsBase) (.listPop 0 3)) = (some .indexError, none) ∧
    retOutcome (stepR (run {} opsBase) (.listPop 0 (-4))) = (some .indexError, none) ∧
    retOutcome (stepR (run {} opsBase) (.listPop 7 (-1))) = (some .indexError, none) := by decide

/-- a set's `pop()` returns the reported member; `KeyError` on the empty set -/
example : retOutcome (stepR (run {} opsBase) (.pop 1 .secs 5)) = (none, some (.node 5)) ∧
    retOutcome (stepR (run {} opsBase) (.pop 3 .secs 5)) = (some .keyError, none) := by decide

/-- `secs -= {4, 6, 6}`, `&=`, `^=`, `|=`, `modules += [..]` return the collection; `update`,
`extend`, `add`, `discard`, `remove`, `insert`, `del`, `clear` return `None`; a failed `remove`
returns nothing -/
example : retOutcome (stepR (run {} opsBase) (.isub 1 .secs [4, 6, 6])) = (none, some .same) ∧
    retOutcome (stepR (run {} opsBase) (.iand 1 .secs [4, 9] [5])) = (none, some .same) ∧
    retOutcome (stepR (run {} opsBase) (.ixor 1 .secs [4, 6])) = (none, some .same) ∧
    retOutcome (stepROp (run {} opsBase) (.update 1 .secs [6])) = (none, some .same) ∧
    retOutcome (stepROp (run {} opsBase) (.extend 7 [3, 3])) = (none, some .same) ∧
    retOutcome (stepR (run {} opsBase) (.update 1 .secs [6])) = (none, some .none) ∧
    retOutcome (stepR (run {} opsBase) (.extend 7 [3, 3])) = (none, some .none) ∧
    retOutcome (stepR (run {} opsBase) (.add 3 .secs 4)) = (none, some .none) ∧
    retOutcome (stepR (run {} opsBase) (.discard 3 .secs 4)) = (none, some .none) ∧
    retOutcome (stepR (run {} opsBase) (.remove 1 .secs 4)) = (none, some .none) ∧
    retOutcome (stepR (run {} opsBase) (.remove 1 .secs 6)) = (some .keyError, none) ∧
    retOutcome (stepR (run {} opsBase) (.insert 7 0 2)) = (none, some .none) ∧
    retOutcome (stepR (run {} opsBase) (.delItem 0 1)) = (none, some .none) ∧
    retOutcome (stepR (run {} opsBase) (.listClear 0)) = (none, some .none) ∧
    retOutcome (stepR (run {} opsBase) (.mk .section 108 [] none)) = (none, some (.node 8)) := by decide

/-- set operators: repeats in the argument, elements that are not (and could not be) members, an
empty collection, an empty argument -/
example : nmOr [4, 5] [5, 9, 5, 7, 9] = [4, 5, 9, 7] ∧ nmAnd [4, 5] [5, 9, 5] = [5] ∧
    nmSub [4, 5] [5, 9, 5] = [4] ∧ nmRSub [5, 9, 5, 7, 9] [4, 5] = [9, 7] ∧
    nmXor [4, 5] [5, 9, 5, 9] = [4, 9] ∧ nmROr [9, 5, 9] [4, 5] = [9, 5, 4] ∧
    nmRAnd [9, 5, 9, 5] [4, 5] = [5] ∧ nmRXor [9, 5, 9] [4, 5] = [9, 4] ∧
    nmOr [] [2, 2] = [2] ∧ nmAnd [] [2, 2] = [] ∧ nmSub [] [2] = [] ∧ nmRSub [2, 2] [] = [2] ∧
    nmXor [] [2, 2, 3] = [2, 3] ∧ nmOr [4, 5] [] = [4, 5] ∧ nmAnd [4, 5] [] = [] ∧
    nmXor [4, 5] [] = [4, 5] ∧ nmXor [4, 5] [5, 4, 4] = [] := by decide

example : nmLe [4, 5] [5, 4, 4, 9] = true ∧ nmLt [4, 5] [5, 4, 4, 9] = true ∧ nmLt [4, 5] [5, 4, 4] = false ∧
    nmEq [4, 5] [5, 4, 4] = true ∧ nmNe [4, 5] [5, 4, 4] = false ∧ nmEq [4, 5] [5] = false ∧
    nmGe [4, 5] [5, 5] = true ∧ nmGt [4, 5] [5, 5] = true ∧ nmGt [4, 5] [5, 4] = false ∧
    nmGe [4, 5] [9] = false ∧ nmLe [] [] = true ∧ nmLt [] [] = false ∧ nmLt [] [1] = true ∧
    nmEq [] [] = true ∧ nmGe [] [1] = false ∧ nmGe [4] [] = true ∧
    nmIsDisjoint [4, 5] [9, 9] = true ∧ nmIsDisjoint [4, 5] [9, 5] = false ∧
    nmIsDisjoint [] [1] = true ∧ nmIsDisjoint [4] [] = true := by decide

/-- list reads on `[1, 2, 3]`, the empty list, and a node that is not in the list -/
example : nmIndex [1, 2, 3] 3 = some 2 ∧ nmIndex [1, 2, 3] 9 = none ∧ nmIndex [] 1 = none ∧
    nmIndex [7, 8, 7] 7 = some 0 ∧ nmCount [1, 2, 3] 2 = 1 ∧ nmCount [1, 2, 3] 9 = 0 ∧ nmCount [] 2 = 0 ∧
    nmCount [7, 8, 7] 7 = 2 ∧
    nmGetItem [1, 2, 3] 0 = some 1 ∧ nmGetItem [1, 2, 3] (-1) = some 3 ∧ nmGetItem [1, 2, 3] (-3) = some 1 ∧
    nmGetItem [1, 2, 3] 3 = none ∧ nmGetItem [1, 2, 3] (-4) = none ∧ nmGetItem [] 0 = none ∧
    nmGetItem [] (-1) = none := by decide

example : nmSlice [1, 2, 3, 4, 5] none none (some (-1)) = some [5, 4, 3, 2, 1] ∧
    nmSlice [1, 2, 3, 4, 5] (some 1) none (some 2) = some [2, 4] ∧
    nmSlice [1, 2, 3, 4, 5] (some (-2)) (some (-10)) (some (-2)) = some [4, 2] ∧
    nmSlice [1, 2, 3, 4, 5] (some 1) (some (-1)) none = some [2, 3, 4] ∧
    nmSlice [1, 2, 3, 4, 5] (some 3) (some 1) none = some [] ∧
    nmSlice [1, 2, 3, 4, 5] none none (some 0) = none ∧
    nmSlice [] none none none = some [] ∧ nmSlice [] (some 2) (some (-2)) (some (-1)) = some [] := by decide

/-- queries against the state: `m1.sections ^ {5, 6, 6}`, `m3.sections <= {4}` (empty set),
`ir.modules[-1]`, `ir7.modules.index(m1)` -/
example : evalNm (run {} opsBase) 1 .secs (.bin .xor [5, 6, 6]) = .set [4, 6] ∧
    evalNm (run {} opsBase) 1 .secs (.bin .rsub [5, 6, 6]) = .set [6] ∧
    evalNm (run {} opsBase) 3 .secs (.cmp .le [4]) = .bool true ∧
    evalNm (run {} opsBase) 1 .secs (.cmp .eq [5, 4, 5]) = .bool true ∧
    evalNm (run {} opsBase) 0 .mods (.getItem (-1)) = .item (some 3) ∧
    evalNm (run {} opsBase) 7 .mods (.index 1) = .idx none ∧
    evalNm (run {} opsBase) 0 .mods (.slice none none (some (-2))) = .list (some [3, 1]) := by decide

/-- a history with queries: the answers are those of the state at that point (`m1.sections`
before and after `discard(4)`; `m2.sections` after the move of 5), and the final state is the one
of the history without the queries -/
example :
    (match runCmds (run {} opsBase)
        [.query 1 .secs (.bin .or [6]), .op (.discard 1 .secs 4), .query 1 .secs (.bin .or [6]),
         .op (.add 2 .secs 5), .query 2 .secs (.cmp .ge [5, 6]), .query 1 .secs .len] with
     | .ok (g, vs) => some (g.kids 1 .secs, g.kids 2 .secs, vs)
     | .error _ => none) =
    some ([], [6, 5], [.set [4, 5, 6], .set [5, 6], .bool true, .nat 0]) ∧
    (match runE (run {} opsBase) [.discard 1 .secs 4, .add 2 .secs 5] with
     | .ok g => some (g.kids 1 .secs, g.kids 2 .secs)
     | .error _ => none) = some ([], [6, 5]) := by decide

end Gtirb.Forest
