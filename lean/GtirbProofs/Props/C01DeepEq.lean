import GtirbProofs.Lemmas.WfDeepEq
import GtirbProofs.Props.C01
import GtirbProofs.Props.C18
/-! C01, last clause: "the original and the loaded IR are `deep_eq` in both
directions".

`wfir` (the precondition of C01) implies the two hypotheses of the `deep_eq`
theorems of C18 (`SelfContained`, `DistinctSiblings`); with them, the loaded IR
(which is the saved content, `C01_loadBytes_saveBytes`) is `deep_eq` to the
original both ways, and `deep_eq` between self-contained IRs is equality of the
canonical forms. -/
namespace Gtirb.Msg
open Gtirb

/-- a self-contained IR satisfies the hypotheses of the deep_eq theorems -/
theorem C01_wfir_selfContained (v : IRV) (h : wfir v = true) : SelfContained v :=
  selfContained_of_wfParts (wfParts_of_wfir h)

theorem C01_wfir_distinctSiblings (v : IRV) (h : wfir v = true) : DistinctSiblings v :=
  distinctSiblings_of_wfParts (wfParts_of_wfir h)

/-- save, load, compare: deep_eq both ways (at the value level the loaded content IS the
saved content, so this is reflexivity, but it needs the two facts above) -/
theorem C01_deepEq_both (serialize : MIR → Bytes) (parse : Bytes → Option MIR)
    (hps : ∀ m, parse (serialize m) = some m)
    (v v' : IRV) (h : wfir v = true) (hl : loadBytes parse (saveBytes serialize v) = .ok v') :
    deepEq v v' = true ∧ deepEq v' v = true := by
  rw [C01_loadBytes_saveBytes serialize parse hps v h] at hl
  cases hl
  have := C18_refl v (C01_wfir_selfContained v h)
  exact ⟨this, this⟩

/-- the same at the message level -/
theorem C01_deepEq_both_msg (v v' : IRV) (h : wfir v = true) (hl : fromMsg (toMsg v) = .ok v') :
    deepEq v v' = true ∧ deepEq v' v = true := by
  rw [C01_roundtrip v h] at hl
  cases hl
  have := C18_refl v (C01_wfir_selfContained v h)
  exact ⟨this, this⟩

/-- and any IR that is deep_eq to a self-contained one has the same canonical form
(link to C18) -/
theorem C01_deepEq_canon (v w : IRV) (h : wfir v = true) (hw : wfir w = true) :
    deepEq v w = true ↔ canon v = canon w :=
  C18_iff v w (C01_wfir_distinctSiblings v h) (C01_wfir_distinctSiblings w hw)
    (C01_wfir_selfContained v h) (C01_wfir_selfContained w hw)

/-- so the loaded IR and the original have the same canonical form, in particular -/
theorem C01_canon_loaded (serialize : MIR → Bytes) (parse : Bytes → Option MIR)
    (hps : ∀ m, parse (serialize m) = some m)
    (v v' : IRV) (h : wfir v = true) (hl : loadBytes parse (saveBytes serialize v) = .ok v') :
    wfir v' = true ∧ canon v = canon v' := by
  rw [C01_loadBytes_saveBytes serialize parse hps v h] at hl
  cases hl
  exact ⟨h, rfl⟩

/-! ### non-vacuity: the concrete `exIR` of Props/C01.lean -/

example : SelfContained exIR ∧ DistinctSiblings exIR :=
  ⟨C01_wfir_selfContained exIR (by decide), C01_wfir_distinctSiblings exIR (by decide)⟩

/-- the theorem applies to `exIR`, for any wire format whose `parse` inverts `serialize` -/
example (serialize : MIR → Bytes) (parse : Bytes → Option MIR)
    (hps : ∀ m, parse (serialize m) = some m) (v' : IRV)
    (hl : loadBytes parse (saveBytes serialize exIR) = .ok v') :
    deepEq exIR v' = true ∧ deepEq v' exIR = true :=
  C01_deepEq_both serialize parse hps exIR v' (by decide) hl

example : deepEq exIR exIR = true := (C01_deepEq_both_msg exIR exIR (by decide)
  (C01_roundtrip exIR (by decide))).1

/-- the hypothesis matters: the IR with a dangling referent (not `wfir`) is not even
`deep_eq` to itself -/
example : wfir exDangling = false ∧ deepEq exDangling exDangling = false := by decide

#print axioms C01_wfir_selfContained
#print axioms C01_wfir_distinctSiblings
#print axioms C01_deepEq_both
#print axioms C01_deepEq_both_msg
#print axioms C01_deepEq_canon
#print axioms C01_canon_loaded

end Gtirb.Msg
