import GtirbModel.PbMsg
import GtirbProofs.Lemmas.PbMsgProofs
import GtirbProofs.Props.C01
/-! C01 on files: with the protobuf layer instantiated by the wire model
(`Pb.serMIR` / `Pb.parseMIR`, GtirbModel/PbWire.lean + PbMsg.lean), saving an IR
to bytes and loading those bytes yields the same observable content.

`wfir` is self-containedness (references resolve, UUIDs 16 bytes and distinct, enum
members known, ...); `wfW` is the range of the wire format (uint64 < 2^64, version
< 2^32, enum numbers < 2^31, int64 in [-2^63, 2^63), every length-delimited payload
shorter than 2^64 bytes). -/
namespace Gtirb.Msg
open Gtirb Gtirb.Pb

/-- save to bytes, load from bytes: the same observable content -/
theorem C01_roundtrip_bytes (v : IRV) (h : wfir v = true) (hw : wfW (toMsg v) = true) :
    loadBytes parseMIR (saveBytes serMIR v) = .ok v :=
  loadBytes_ok (parseMIR_serMIR (toMsg v) hw) (C01_roundtrip v h)

/-- saving the loaded IR again yields the same file -/
theorem C01_resave_bytes_wire (v v' : IRV) (h : wfir v = true) (hw : wfW (toMsg v) = true)
    (hl : loadBytes parseMIR (saveBytes serMIR v) = .ok v') :
    saveBytes serMIR v' = saveBytes serMIR v := by
  rw [C01_roundtrip_bytes v h hw] at hl
  cases hl
  rfl

/-- every field number the serializer and the parser use is the schema's: it exists, is a
legal field number, and the order written is the ascending one (hence pairwise distinct
per message) -/
theorem C01_fno_table : fnoTableOK = true := by decide

/-! ### non-vacuity -/

example : wfW (toMsg exIR) = true := by decide +kernel

example : loadBytes parseMIR (saveBytes serMIR exIR) = .ok exIR :=
  C01_roundtrip_bytes exIR (by decide) (by decide +kernel)

/-- the same, by evaluation alone (kernel reduction, no theorem involved) -/
example : parseMIR (serMIR (toMsg exIR)) = some (toMsg exIR) := by decide +kernel

/-- the file is not trivial: 8 header bytes and 908 bytes of message -/
example : (saveBytes serMIR exIR).length = 916 := by decide +kernel

/-- the range condition is needed: a uint64 field of `2^64` is written as a varint the reader
takes modulo `2^64`, so the message read back differs -/
def exWide : MIR :=
  { uuid := [], modules := [], auxData := [], version := 2 ^ 32 + 4, cfg := ⟨[], []⟩ }

example : wfW exWide = false := by decide +kernel
example : parseMIR (serMIR exWide) = some { exWide with version := 4 } := by decide +kernel

/-- the reader alone: a hand-made message whose `cfg` field occurs twice (merged), whose
`version` occurs twice (last wins) and which carries an unknown field 2 -/
example :
    parseMIR [0x3a, 0x03, 0x1a, 0x01, 0xaa,   -- cfg { vertices: aa }
              0x30, 0x07,                     -- version 7
              0x12, 0x01, 0x00,               -- unknown field 2
              0x3a, 0x03, 0x1a, 0x01, 0xbb,   -- cfg { vertices: bb }
              0x30, 0x04]                     -- version 4
      = some { uuid := [], modules := [], auxData := [], version := 4,
               cfg := ⟨[[0xaa], [0xbb]], []⟩ } := by decide +kernel

end Gtirb.Msg
