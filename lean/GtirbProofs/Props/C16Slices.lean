import GtirbProofs.Lemmas.SliceProofs
/-! Property C16, sequence interface "with int and slice indices": `del ir.modules[slice]` and
`ir.modules[slice] = vs`.

`ListWrapper.__delitem__` / `__setitem__` with a `slice` compute
`indices = range(*i.indices(len(self)))`, run the `_remove` hook for the element at every index, (for
assignment) the `_add` hook for every new value, and then perform the built-in slice operation. The
model (`GtirbModel/Slices.lean`) follows them as the sequence of existing operations the harness
emits: `delItem` of the selected positions from the highest down (`delSliceOps`), then `insert` of
the new values (`setSliceOps`). This file proves that these sequences compute the built-in
operation:

* `C16_delSlice_content`: `del l[slice]` keeps exactly the elements at unselected positions, in
  order; every removed module is detached, nothing else moves;
* `C16_setSlice_content_step1`: `l[a:b] = vs` gives `l[:a] + vs + l[max(a,b):]`;
* `C16_setSlice_content_ext`: an extended slice of matching length replaces position `sel[k]` by
  `vs[k]` and nothing else;
* `C16_slice_forestInv`, `C16_runE_eq_run`, `C16_*_opsOK`: the sequences are histories of well-typed
  operations, so every history theorem (C03, C04, C10) applies to them;
* `C16_sliceIndices_bounds`, `C16_sliceSelected_bounds`, `C16_sliceSelected_step1`,
  `C16_sliceSelected_single`: facts about `slice.indices`.

For assignment the hypotheses are those under which the code is inside the model (known finding K1):
the new values are pairwise different modules and none of them is in the list at an unselected
position. Helpers: `Lemmas/SliceProofs.lean`. -/
namespace Gtirb.Forest

/-! ### `slice.indices`, concretely -/

example : sliceSelected 5 (some 1) none (some 2) = some [1, 3] := by decide
example : sliceSelected 5 none none (some (-1)) = some [4, 3, 2, 1, 0] := by decide
example : sliceSelected 3 (some 5) (some 1) none = some [] := by decide
example : sliceSelected 5 none none none = some [0, 1, 2, 3, 4] := by decide
example : sliceSelected 5 (some (-2)) none none = some [3, 4] := by decide
example : sliceSelected 5 (some (-100)) (some 100) (some 3) = some [0, 3] := by decide
example : sliceSelected 5 (some 100) (some (-100)) (some (-2)) = some [4, 2, 0] := by decide
example : sliceSelected 5 (some 3) (some 0) (some (-1)) = some [3, 2, 1] := by decide
example : sliceSelected 5 (some (-1)) (some (-6)) (some (-2)) = some [4, 2, 0] := by decide
example : sliceSelected 0 none none (some (-1)) = some [] := by decide
example : sliceSelected 4 none none (some 0) = none := by decide
example : sliceIndices 5 none none (some (-1)) = some (4, -1, -1) := by decide
example : sliceIndices 5 (some (-7)) (some 9) none = some (0, 5, 1) := by decide
example : sliceIndices 5 (some 9) (some (-9)) (some (-3)) = some (4, -1, -3) := by decide
example : sliceIndices 0 none none (some (-2)) = some (-1, -1, -2) := by decide
example : sliceIndices 3 (some 2) (some 1) none = some (2, 1, 1) := by decide

/-! ### the specification side: built-in operations on plain lists -/

/-- `del l[slice]` on a plain list: the elements whose position is not selected, in order -/
def removePositions (l sel : List Nat) : List Nat :=
  ((l.zipIdx).filter (fun p => !(decide (p.2 ∈ sel)))).map (fun p => p.1)

/-- `l[slice] = vs` for an extended slice of matching length: position `sel[k]` is replaced by `vs[k]` -/
def replacePositions (l sel vs : List Nat) : List Nat :=
  (sel.zip vs).foldl (fun acc pw => acc.set pw.1 pw.2) l

/-! ### `slice.indices` -/

/-- the normalised bounds: the step is the given one (default 1, never 0); for a positive step both
bounds are within `[0, len]`, for a negative step within `[-1, len - 1]` -/
theorem C16_sliceIndices_bounds (len : Nat) (start stop step : Option Int) (a b st : Int)
    (h : sliceIndices len start stop step = some (a, b, st)) :
    st ≠ 0 ∧ step.getD 1 = st ∧
    (0 < st → 0 ≤ a ∧ a ≤ len ∧ 0 ≤ b ∧ b ≤ len) ∧
    (st < 0 → -1 ≤ a ∧ a ≤ (len : Int) - 1 ∧ -1 ≤ b ∧ b ≤ (len : Int) - 1) :=
  sliceIndices_bounds h

/-- `slice.indices` raises exactly for step 0 -/
theorem C16_sliceIndices_none_iff (len : Nat) (start stop step : Option Int) :
    sliceIndices len start stop step = none ↔ step = some 0 := by
  rw [sliceIndices_getD]
  constructor
  · intro h
    split at h
    · rename_i h0
      cases step with
      | none => cases h0
      | some s => exact congrArg some h0
    · cases h
  · intro h
    subst h
    rfl

/-- the selected positions are pairwise different list positions, increasing for a positive and
decreasing for a negative step -/
theorem C16_sliceSelected_bounds (len : Nat) (start stop step : Option Int) (sel : List Nat)
    (h : sliceSelected len start stop step = some sel) :
    sel.Nodup ∧ (∀ p ∈ sel, p < len) ∧
    (0 < step.getD 1 → sel.Pairwise (fun x y => x < y)) ∧
    (step.getD 1 < 0 → sel.Pairwise (fun x y => y < x)) := by
  unfold sliceSelected at h
  split at h
  · cases h
  · rename_i a b st hidx
    cases h
    obtain ⟨h0, hst, hpos, hneg⟩ := sliceIndices_bounds hidx
    rw [hst]
    by_cases hp : 0 < st
    · obtain ⟨ha, _, _, hb⟩ := hpos hp
      obtain ⟨hpw, hmem⟩ := rangeList_pos (a := a) (b := b) hp ha
      refine ⟨pairwise_lt_nodup hpw, ?_, fun _ => hpw, fun hh => by omega⟩
      intro p hm
      have := hmem p hm
      omega
    · have hn : st < 0 := by omega
      obtain ⟨_, ha, hb, _⟩ := hneg hn
      obtain ⟨hpw, hmem⟩ := rangeList_neg (a := a) (b := b) hn hb
      refine ⟨pairwise_gt_nodup hpw, ?_, fun hh => by omega, fun _ => hpw⟩
      intro p hm
      have := hmem p hm
      omega

/-- step 1: the selected positions are `start, start+1, ..., stop-1` -/
theorem C16_sliceSelected_step1 (len : Nat) (start stop step : Option Int) (a b : Int)
    (h : sliceIndices len start stop step = some (a, b, 1)) :
    0 ≤ a ∧ a ≤ len ∧ 0 ≤ b ∧ b ≤ len ∧
    sliceSelected len start stop step = some (List.range' a.toNat (b - a).toNat) := by
  obtain ⟨_, _, hpos, _⟩ := sliceIndices_bounds h
  obtain ⟨h1, h2, h3, h4⟩ := hpos (by omega)
  refine ⟨h1, h2, h3, h4, ?_⟩
  unfold sliceSelected
  rw [h]
  simp only
  rw [rangeList_one h1]

/-- `slice.indices` agrees with the index rule of a single position (`pyIndex`): the slice `k:k+1`
(`k:` for `k = -1`) selects exactly the position `l[k]` names, and nothing when `l[k]` is an
`IndexError` -/
theorem C16_sliceSelected_single (len : Nat) (k : Int) :
    sliceSelected len (some k) (if k = -1 then none else some (k + 1)) none =
      some (match pyIndex len k with
            | some idx => [idx]
            | none => []) := by
  have hidx : ∃ a b, sliceIndices len (some k) (if k = -1 then none else some (k + 1)) none = some (a, b, 1) ∧
      a = sliceAdjust len 0 len k ∧ b = (if k = -1 then (len : Int) else sliceAdjust len 0 len (k + 1)) := by
    refine ⟨sliceAdjust len 0 len k, (if k = -1 then (len : Int) else sliceAdjust len 0 len (k + 1)), ?_, rfl, rfl⟩
    rw [sliceIndices_getD]
    by_cases hk : k = -1
    · subst hk; simp
    · simp [hk]
  obtain ⟨a, b, h1, ha, hb⟩ := hidx
  obtain ⟨h0, _, _, _, hsel⟩ := C16_sliceSelected_step1 len _ _ _ a b h1
  rw [hsel]
  congr 1
  unfold sliceAdjust at ha hb
  unfold pyIndex
  by_cases c1 : 0 ≤ k ∧ k < len
  · rw [if_pos c1]
    have hA : a.toNat = k.toNat := by
      rw [ha]; split <;> split <;> omega
    have hN : (b - a).toNat = 1 := by
      rw [ha, hb]; split <;> split <;> split <;> (try split) <;> omega
    rw [hA, hN]; rfl
  · rw [if_neg c1]
    by_cases c2 : k < 0 ∧ 0 ≤ k + len
    · rw [if_pos c2]
      have hA : a.toNat = (k + len).toNat := by
        rw [ha]; split <;> split <;> omega
      have hN : (b - a).toNat = 1 := by
        rw [ha, hb]; split <;> split <;> split <;> (try split) <;> omega
      rw [hA, hN]; rfl
    · rw [if_neg c2]
      have hN : (b - a).toNat = 0 := by
        rw [ha, hb]; split <;> split <;> split <;> (try split) <;> omega
      rw [hN]; rfl

/-! ### the sequences are histories of well-typed operations -/

/-- link to the `run` of `ForestDefs.lean`: a sequence that runs through without an exception is a
history in which nothing was skipped -/
theorem C16_runE_eq_run (g : G) (ops : List Op) (g' : G) (hs : runE g ops = .ok g') : run g ops = g' :=
  runE_eq_run ops g g' hs

/-- the invariants of the containment forest are kept (corollary of `C04_run`) -/
theorem C16_slice_forestInv (g : G) (ops : List Op) (g' : G) (h : ForestInv g) (hok : OpsOK g ops)
    (hs : runE g ops = .ok g') : ForestInv g' := by
  rw [← C16_runE_eq_run g ops g' hs]
  exact C04_run ops g h hok

/-- the deletions of `del ir.modules[slice]` respect the typing contract when `i` is an IR -/
theorem C16_delSliceOps_opsOK (g : G) (i : Nat) (sel : List Nat) (hi : i < g.n ∧ g.kind i = .ir) :
    OpsOK g (delSliceOps i sel) := by
  refine opsOK_slice (vs := []) _ g hi (fun _ hm => by cases hm) ?_
  intro op hm
  unfold delSliceOps at hm
  obtain ⟨k, _, rfl⟩ := List.mem_map.1 hm
  exact .inl ⟨_, rfl⟩

/-- the deletions and insertions of `ir.modules[slice] = vs` respect the typing contract when `i` is
an IR and the values are modules -/
theorem C16_setSliceOps_opsOK (g : G) (i len : Nat) (start stop step : Option Int) (vs : List Nat) (ops : List Op)
    (hi : i < g.n ∧ g.kind i = .ir) (hvs : ∀ v ∈ vs, ChildOK g i .mods v)
    (hops : setSliceOps i len start stop step vs = some ops) : OpsOK g ops := by
  refine opsOK_slice (vs := vs) _ g hi hvs ?_
  have hdel : ∀ sel, ∀ op ∈ delSliceOps i sel, (∃ k, op = Op.delItem i k) ∨ (∃ k v, v ∈ vs ∧ op = Op.insert i k v) := by
    intro sel op hm
    unfold delSliceOps at hm
    obtain ⟨k, _, rfl⟩ := List.mem_map.1 hm
    exact .inl ⟨_, rfl⟩
  have hins : ∀ pairs : List (Nat × Nat), (∀ pv ∈ pairs, pv.2 ∈ vs) → ∀ op ∈ insAtOps i pairs,
      (∃ k, op = Op.delItem i k) ∨ (∃ k v, v ∈ vs ∧ op = Op.insert i k v) := by
    intro pairs hp op hm
    unfold insAtOps at hm
    obtain ⟨pv, hpv, rfl⟩ := List.mem_map.1 hm
    exact .inr ⟨_, _, hp pv hpv, rfl⟩
  unfold setSliceOps at hops
  split at hops
  · cases hops
  · rename_i a b st hidx
    simp only at hops
    split at hops
    · cases hops
      intro op hm
      rcases List.mem_append.1 hm with h1 | h1
      · exact hdel _ op h1
      · rw [insSeqOps_eq] at h1
        exact hins _ (fun pv hpv => (List.of_mem_zip (a := pv.1) (b := pv.2) hpv).2) op h1
    · split at hops
      · cases hops
        intro op hm
        rcases List.mem_append.1 hm with h1 | h1
        · exact hdel _ op h1
        · refine hins _ ?_ op h1
          intro pv hpv
          unfold extPairs at hpv
          split at hpv
          · exact (List.of_mem_zip (a := pv.1) (b := pv.2) hpv).2
          · exact (List.of_mem_zip (a := pv.1) (b := pv.2) (List.mem_reverse.1 hpv)).2
      · cases hops

/-! ### `del ir.modules[slice]` -/

/-- built-in semantics of `del l[slice]`: with `sel` the selected positions (pairwise different,
within the list) the list keeps exactly the elements at the other positions, in order; every removed
module is detached; no other back-pointer, no other collection, no kind / UUID / allocation changes -/
theorem C16_delSlice_content (g g' : G) (i : Nat) (sel : List Nat) (hnd : sel.Nodup)
    (hlt : ∀ p ∈ sel, p < (g.kids i .mods).length) (hs : runE g (delSliceOps i sel) = .ok g') :
    g'.kids i .mods = removePositions (g.kids i .mods) sel ∧
    (∀ p ∈ sel, ∀ c, (g.kids i .mods)[p]? = some c → g'.par c = none) ∧
    (∀ c, (∀ p ∈ sel, (g.kids i .mods)[p]? ≠ some c) → g'.par c = g.par c) ∧
    (∀ q s', (q ≠ i ∨ s' ≠ .mods) → g'.kids q s' = g.kids q s') ∧
    g'.n = g.n ∧ g'.kind = g.kind ∧ g'.uuid = g.uuid := by
  unfold delSliceOps at hs
  have hpw := sortDesc_pairwise sel hnd
  obtain ⟨h1, h2, h3, h4, h5⟩ := runE_dels (sortDesc sel) g g' hpw
    (fun d hd => hlt d ((sortDesc_mem sel d).1 hd)) hs
  refine ⟨?_, ?_, ?_, h4, h5.n, h5.kind, h5.uuid⟩
  · rw [h1, foldl_eraseIdx_eq_dropAt _ _ hpw, dropAt_congr _ 0 (fun j _ => sortDesc_mem sel j)]
    exact dropAt_eq_filter sel _ 0
  · intro p hp
    exact h2 p ((sortDesc_mem sel p).2 hp)
  · intro c hc
    exact h3 c (fun d hd => hc d ((sortDesc_mem sel d).1 hd))

/-- `del ir.modules[start:stop:step]`: the hypotheses on the positions are facts of `slice.indices` -/
theorem C16_delSlice_of_slice (g g' : G) (i : Nat) (start stop step : Option Int) (sel : List Nat)
    (hsel : sliceSelected (g.kids i .mods).length start stop step = some sel)
    (hs : runE g (delSliceOps i sel) = .ok g') :
    g'.kids i .mods = removePositions (g.kids i .mods) sel ∧
    (∀ p ∈ sel, ∀ c, (g.kids i .mods)[p]? = some c → g'.par c = none) ∧
    (∀ c, (∀ p ∈ sel, (g.kids i .mods)[p]? ≠ some c) → g'.par c = g.par c) ∧
    (∀ q s', (q ≠ i ∨ s' ≠ .mods) → g'.kids q s' = g.kids q s') ∧
    g'.n = g.n ∧ g'.kind = g.kind ∧ g'.uuid = g.uuid := by
  obtain ⟨hnd, hlt, _, _⟩ := C16_sliceSelected_bounds _ start stop step sel hsel
  exact C16_delSlice_content g g' i sel hnd hlt hs

/-- removing a contiguous block of positions -/
theorem C16_removePositions_range (l : List Nat) (a n : Nat) :
    removePositions l (List.range' a n) = l.take a ++ l.drop (a + n) := by
  unfold removePositions
  rw [← dropAt_eq_filter (List.range' a n) l 0, dropAt_range' l a n 0 (Nat.zero_le a)]
  rfl

/-- `del l[a:b]` (step 1): `l[:a] + l[max(a,b):]` -/
theorem C16_delSlice_step1 (g g' : G) (i : Nat) (start stop step : Option Int) (a b : Int) (sel : List Nat)
    (hidx : sliceIndices (g.kids i .mods).length start stop step = some (a, b, 1))
    (hsel : sliceSelected (g.kids i .mods).length start stop step = some sel)
    (hs : runE g (delSliceOps i sel) = .ok g') :
    g'.kids i .mods = (g.kids i .mods).take a.toNat ++ (g.kids i .mods).drop (max a b).toNat := by
  obtain ⟨h1, h2, h3, h4, h5⟩ := C16_sliceSelected_step1 _ start stop step a b hidx
  rw [h5] at hsel
  cases hsel
  rw [(C16_delSlice_of_slice g g' i start stop step _ h5 hs).1, C16_removePositions_range]
  have : a.toNat + (b - a).toNat = (max a b).toNat := by omega
  rw [this]

/-! ### `ir.modules[slice] = vs` -/

/-- built-in semantics of `l[a:b] = vs` (step 1), `(a, b, 1) = slice.indices(len(l))`: the list becomes
`l[:a] + vs + l[max(a,b):]`; every new value is attached to `i` (and has left the list of any other
IR); the replaced modules that are not assigned again are detached; nothing else moves. Hypotheses
(the code is inside the model, K1): `vs` are pairwise different modules, none of them in the list
outside `a..b-1`. -/
theorem C16_setSlice_content_step1 (g g' : G) (i : Nat) (start stop step : Option Int) (vs : List Nat)
    (a b : Int) (ops : List Op) (h : ForestInv g) (hi : i < g.n ∧ g.kind i = .ir)
    (hvs : ∀ v ∈ vs, ChildOK g i .mods v) (hnd : vs.Nodup)
    (hidx : sliceIndices (g.kids i .mods).length start stop step = some (a, b, 1))
    (hK1 : ∀ v ∈ vs, ∀ p : Nat, (g.kids i .mods)[p]? = some v → a ≤ p ∧ (p : Int) < b)
    (hops : setSliceOps i (g.kids i .mods).length start stop step vs = some ops)
    (hs : runE g ops = .ok g') :
    g'.kids i .mods = (g.kids i .mods).take a.toNat ++ vs ++ (g.kids i .mods).drop (max a b).toNat ∧
    (∀ v ∈ vs, g'.par v = some i) ∧
    (∀ p : Nat, a ≤ p → (p : Int) < b → ∀ c, (g.kids i .mods)[p]? = some c → c ∉ vs → g'.par c = none) ∧
    (∀ c, c ∉ vs → (∀ p : Nat, a ≤ p → (p : Int) < b → (g.kids i .mods)[p]? ≠ some c) → g'.par c = g.par c) ∧
    (∀ j, j ≠ i → g'.kids j .mods = (g.kids j .mods).filter (fun x => !(decide (x ∈ vs)))) ∧
    (∀ q s', s' ≠ .mods → g'.kids q s' = g.kids q s') ∧
    ForestInv g' := by
  obtain ⟨ha0, ha1, hb0, hb1, hsel⟩ := C16_sliceSelected_step1 _ start stop step a b hidx
  have hrl : rangeList a b 1 = List.range' a.toNat (b - a).toNat := rangeList_one ha0
  have hmemsel : ∀ p : Nat, p ∈ List.range' a.toNat (b - a).toNat ↔ (a ≤ p ∧ (p : Int) < b) := by
    intro p
    rw [List.mem_range'_1]
    omega
  unfold setSliceOps at hops
  rw [hidx] at hops
  simp only [if_true] at hops
  cases hops
  rw [hrl] at hs
  obtain ⟨g1, hs1, hs2⟩ := (runE_append _ _ g).1 hs
  obtain ⟨d1, d2, d3, d4, dn, dk, du⟩ := C16_delSlice_of_slice g g1 i start stop step _ hsel hs1
  have hst : Stable g g1 := ⟨dn, dk, du⟩
  have hf1 : ForestInv g1 := by
    unfold delSliceOps at hs1
    exact runE_dels_inv _ g g1 h hi hs1
  rw [C16_removePositions_range] at d1
  have hlen : a.toNat + (b - a).toNat = (max a b).toNat := by omega
  rw [hlen] at d1
  -- the insertions
  rw [insSeqOps_eq] at hs2
  have hsnd : ((List.range' a.toNat vs.length).zip vs).map (fun pv => pv.2) = vs :=
    List.map_snd_zip (by simp)
  have hnot1 : ∀ pv ∈ (List.range' a.toNat vs.length).zip vs, pv.2 ∉ g1.kids i .mods := by
    intro pv hm hin
    have hv : pv.2 ∈ vs := (List.of_mem_zip (a := pv.1) (b := pv.2) hm).2
    have hd := dropAt_range' (g.kids i .mods) a.toNat (b - a).toNat 0 (Nat.zero_le _)
    rw [Nat.sub_zero] at hd
    rw [d1, ← hlen, ← hd] at hin
    obtain ⟨p, _, hp2, hp3⟩ := mem_dropAt _ 0 hin
    rw [Nat.sub_zero] at hp3
    exact hp2 ((hmemsel p).2 (hK1 pv.2 hv p hp3))
  obtain ⟨r1, r2, r3, r4, r5, _⟩ := runE_insAt _ g1 g' hf1
    (fun pv hm => (childOK_stable hst i .mods pv.2).2 (hvs pv.2 (List.of_mem_zip (a := pv.1) (b := pv.2) hm).2))
    (by rw [hsnd]; exact hnd) hnot1 hs2
  rw [hsnd] at r2 r4
  refine ⟨?_, ?_, ?_, ?_, ?_, ?_, r5⟩
  · have hle : a.toNat ≤ (g1.kids i .mods).length := by
      rw [d1, List.length_append, List.length_take, List.length_drop]
      omega
    rw [r1, insAll_seq vs _ _ hle, d1]
    have hta : ((g.kids i .mods).take a.toNat).length = a.toNat := by
      rw [List.length_take]; omega
    rw [List.take_left' hta, List.drop_left' hta]
  · intro v hv
    rw [r4 v, if_pos hv]
  · intro p hp1 hp2 c hc hcv
    rw [r4 c, if_neg hcv]
    exact d2 p ((hmemsel p).2 ⟨hp1, hp2⟩) c hc
  · intro c hcv hc
    rw [r4 c, if_neg hcv]
    exact d3 c (fun p hp => hc p ((hmemsel p).1 hp).1 ((hmemsel p).1 hp).2)
  · intro j hj
    rw [r2 j hj, d4 j .mods (.inl hj)]
  · intro q s' hne
    rw [r3 q s' hne, d4 q s' (.inr hne)]

/-- built-in semantics of `l[start:stop:step] = vs` for an extended slice (normalised step ≠ 1) of
matching length: with `sel` the selected positions, position `sel[k]` holds `vs[k]` afterwards and
every other position is unchanged (`replacePositions`, and position by position); every new value is
attached to `i`; the replaced modules that are not assigned again are detached; nothing else moves.
That `setSliceOps` is defined at all means that the lengths match. Hypotheses as for step 1. -/
theorem C16_setSlice_content_ext (g g' : G) (i : Nat) (start stop step : Option Int) (vs : List Nat)
    (a b st : Int) (sel : List Nat) (ops : List Op) (h : ForestInv g) (hi : i < g.n ∧ g.kind i = .ir)
    (hvs : ∀ v ∈ vs, ChildOK g i .mods v) (hnd : vs.Nodup)
    (hidx : sliceIndices (g.kids i .mods).length start stop step = some (a, b, st)) (hst1 : st ≠ 1)
    (hsel : sliceSelected (g.kids i .mods).length start stop step = some sel)
    (hK1 : ∀ v ∈ vs, ∀ p : Nat, (g.kids i .mods)[p]? = some v → p ∈ sel)
    (hops : setSliceOps i (g.kids i .mods).length start stop step vs = some ops)
    (hs : runE g ops = .ok g') :
    vs.length = sel.length ∧
    g'.kids i .mods = replacePositions (g.kids i .mods) sel vs ∧
    (g'.kids i .mods).length = (g.kids i .mods).length ∧
    (∀ k, k < sel.length → ∀ p, sel[k]? = some p → (g'.kids i .mods)[p]? = vs[k]?) ∧
    (∀ p, p ∉ sel → (g'.kids i .mods)[p]? = (g.kids i .mods)[p]?) ∧
    (∀ v ∈ vs, g'.par v = some i) ∧
    (∀ p ∈ sel, ∀ c, (g.kids i .mods)[p]? = some c → c ∉ vs → g'.par c = none) ∧
    (∀ c, c ∉ vs → (∀ p ∈ sel, (g.kids i .mods)[p]? ≠ some c) → g'.par c = g.par c) ∧
    (∀ j, j ≠ i → g'.kids j .mods = (g.kids j .mods).filter (fun x => !(decide (x ∈ vs)))) ∧
    (∀ q s', s' ≠ .mods → g'.kids q s' = g.kids q s') ∧
    ForestInv g' := by
  obtain ⟨hselnd, hsellt, hselpos, hselneg⟩ := C16_sliceSelected_bounds _ start stop step sel hsel
  obtain ⟨hst0, hstep, _, _⟩ := sliceIndices_bounds hidx
  rw [hstep] at hselpos hselneg
  have hselrl : sel = rangeList a b st := by
    unfold sliceSelected at hsel
    rw [hidx] at hsel
    cases hsel
    rfl
  unfold setSliceOps at hops
  rw [hidx] at hops
  simp only [if_neg hst1] at hops
  rw [← hselrl] at hops
  split at hops
  · rename_i hlen
    cases hops
    obtain ⟨g1, hs1, hs2⟩ := (runE_append _ _ g).1 hs
    obtain ⟨d1, d2, d3, d4, dn, dk, du⟩ := C16_delSlice_of_slice g g1 i start stop step _ hsel hs1
    have hst : Stable g g1 := ⟨dn, dk, du⟩
    have hf1 : ForestInv g1 := by
      unfold delSliceOps at hs1
      exact runE_dels_inv _ g g1 h hi hs1
    -- the pairs, in increasing order of position
    have hfst : (sel.zip vs).map (fun pv => pv.1) = sel := List.map_fst_zip (by omega)
    have hsnd : (sel.zip vs).map (fun pv => pv.2) = vs := List.map_snd_zip (by omega)
    have hpmem : ∀ pv, pv ∈ extPairs st sel vs ↔ pv ∈ sel.zip vs := by
      intro pv
      unfold extPairs
      split
      · exact Iff.rfl
      · exact List.mem_reverse
    have hpfst_mem : ∀ p, p ∈ (extPairs st sel vs).map (fun pv => pv.1) ↔ p ∈ sel := by
      intro p
      constructor
      · intro hm
        obtain ⟨pv, h1, h2⟩ := List.mem_map.1 hm
        rw [← h2]
        exact (List.of_mem_zip (a := pv.1) (b := pv.2) ((hpmem pv).1 h1)).1
      · intro hp
        rw [← hfst] at hp
        obtain ⟨pv, h1, h2⟩ := List.mem_map.1 hp
        exact List.mem_map.2 ⟨pv, (hpmem pv).2 h1, h2⟩
    have hpsnd_mem : ∀ v, v ∈ (extPairs st sel vs).map (fun pv => pv.2) ↔ v ∈ vs := by
      intro p
      constructor
      · intro hm
        obtain ⟨pv, h1, h2⟩ := List.mem_map.1 hm
        rw [← h2]
        exact (List.of_mem_zip (a := pv.1) (b := pv.2) ((hpmem pv).1 h1)).2
      · intro hp
        rw [← hsnd] at hp
        obtain ⟨pv, h1, h2⟩ := List.mem_map.1 hp
        exact List.mem_map.2 ⟨pv, (hpmem pv).2 h1, h2⟩
    have hasc : ((extPairs st sel vs).map (fun pv => pv.1)).Pairwise (fun x y => x < y) := by
      unfold extPairs
      split
      · rename_i hp
        rw [hfst]; exact hselpos hp
      · rename_i hp
        rw [List.map_reverse, hfst, List.pairwise_reverse]
        exact hselneg (by omega)
    have hsndnd : ((extPairs st sel vs).map (fun pv => pv.2)).Nodup := by
      unfold extPairs
      split
      · rw [hsnd]; exact hnd
      · rw [List.map_reverse, hsnd]
        exact (List.reverse_perm _).nodup_iff.2 hnd
    have hplt : ∀ pv ∈ extPairs st sel vs, pv.1 < (g.kids i .mods).length := by
      intro pv hm
      exact hsellt pv.1 (List.of_mem_zip (a := pv.1) (b := pv.2) ((hpmem pv).1 hm)).1
    have hg1 : g1.kids i .mods = dropAt ((extPairs st sel vs).map (fun pv => pv.1)) (g.kids i .mods) 0 := by
      rw [d1]
      unfold removePositions
      rw [← dropAt_eq_filter sel _ 0]
      exact (dropAt_congr _ 0 (fun j _ => hpfst_mem j)).symm
    have hnot1 : ∀ pv ∈ extPairs st sel vs, pv.2 ∉ g1.kids i .mods := by
      intro pv hm hin
      have hv : pv.2 ∈ vs := (List.of_mem_zip (a := pv.1) (b := pv.2) ((hpmem pv).1 hm)).2
      rw [hg1] at hin
      obtain ⟨p, _, hp2, hp3⟩ := mem_dropAt _ 0 hin
      rw [Nat.sub_zero] at hp3
      exact hp2 ((hpfst_mem p).2 (hK1 pv.2 hv p hp3))
    obtain ⟨r1, r2, r3, r4, r5, _⟩ := runE_insAt _ g1 g' hf1
      (fun pv hm => (childOK_stable hst i .mods pv.2).2
        (hvs pv.2 (List.of_mem_zip (a := pv.1) (b := pv.2) ((hpmem pv).1 hm)).2))
      hsndnd hnot1 hs2
    have hcontent : g'.kids i .mods = setAll (g.kids i .mods) (sel.zip vs) := by
      rw [r1, hg1, insAll_dropAt _ _ hasc hplt]
      unfold extPairs
      split
      · rfl
      · exact setAll_reverse _ _ (by rw [hfst]; exact hselnd)
          (fun pv hm => hsellt pv.1 (List.of_mem_zip (a := pv.1) (b := pv.2) hm).1)
    obtain ⟨e1, e2⟩ := getElem?_setAll (sel.zip vs) (g.kids i .mods) (by rw [hfst]; exact hselnd)
      (fun pv hm => hsellt pv.1 (List.of_mem_zip (a := pv.1) (b := pv.2) hm).1)
    rw [hfst] at e2
    refine ⟨hlen, hcontent, ?_, ?_, ?_, ?_, ?_, ?_, ?_, ?_, r5⟩
    · rw [hcontent, length_setAll]
    · intro k hk p hp
      have hk2 : k < vs.length := by omega
      have hz : (sel.zip vs)[k]? = some (p, vs[k]) :=
        List.getElem?_zip_eq_some.2 ⟨hp, List.getElem?_eq_getElem hk2⟩
      have hm : (p, vs[k]) ∈ sel.zip vs := List.mem_iff_getElem?.2 ⟨k, hz⟩
      rw [hcontent, e1 _ hm, List.getElem?_eq_getElem hk2]
    · intro p hp
      rw [hcontent, e2 p hp]
    · intro v hv
      rw [r4 v, if_pos ((hpsnd_mem v).2 hv)]
    · intro p hp c hc hcv
      rw [r4 c, if_neg (fun hh => hcv ((hpsnd_mem c).1 hh))]
      exact d2 p hp c hc
    · intro c hcv hc
      rw [r4 c, if_neg (fun hh => hcv ((hpsnd_mem c).1 hh))]
      exact d3 c hc
    · intro j hj
      rw [r2 j hj, d4 j .mods (.inl hj)]
      apply List.filter_congr
      intro x _
      exact congrArg (fun b => !b) (decide_eq_decide.2 (hpsnd_mem x))
    · intro q s' hne
      rw [r3 q s' hne, d4 q s' (.inr hne)]
  · cases hops

/-! ### exceptions -/

/-- a slice deletion raises none of the built-in's exceptions (a slice never gives `IndexError`); the
only exception the sequence could raise is the `KeyError` of `del cache[uuid]`, which C03 excludes -/
theorem C16_delSlice_error (g : G) (i : Nat) (sel : List Nat) (e : Exc) (hnd : sel.Nodup)
    (hlt : ∀ p ∈ sel, p < (g.kids i .mods).length) (he : runE g (delSliceOps i sel) = .error e) :
    e = .cacheKeyError := by
  unfold delSliceOps at he
  exact runE_dels_err (sortDesc sel) g (sortDesc_pairwise sel hnd)
    (fun d hd => hlt d ((sortDesc_mem sel d).1 hd)) he

/-- the same for a slice assignment inside the model (plain or extended slice) -/
theorem C16_setSlice_error (g : G) (i : Nat) (start stop step : Option Int) (vs sel : List Nat) (ops : List Op)
    (e : Exc) (h : ForestInv g) (hi : i < g.n ∧ g.kind i = .ir)
    (hvs : ∀ v ∈ vs, ChildOK g i .mods v) (hnd : vs.Nodup)
    (hsel : sliceSelected (g.kids i .mods).length start stop step = some sel)
    (hK1 : ∀ v ∈ vs, ∀ p : Nat, (g.kids i .mods)[p]? = some v → p ∈ sel)
    (hops : setSliceOps i (g.kids i .mods).length start stop step vs = some ops)
    (he : runE g ops = .error e) : e = .cacheKeyError := by
  obtain ⟨hselnd, hsellt, _, _⟩ := C16_sliceSelected_bounds _ start stop step sel hsel
  have hidx : ∃ a b st, sliceIndices (g.kids i .mods).length start stop step = some (a, b, st) ∧
      sel = rangeList a b st := by
    unfold sliceSelected at hsel
    split at hsel
    · cases hsel
    · rename_i a b st hidx
      cases hsel
      exact ⟨a, b, st, hidx, rfl⟩
  obtain ⟨a, b, st, hidx, hselrl⟩ := hidx
  obtain ⟨pairs, hshape, hperm⟩ := setSliceOps_shape hidx hops
  rw [← hselrl] at hshape
  subst hshape
  rcases runE_append_err _ _ g he with h1 | ⟨g1, hs1, h2⟩
  · exact C16_delSlice_error g i sel e hselnd hsellt h1
  · obtain ⟨d1, _, _, _, dn, dk, du⟩ := C16_delSlice_content g g1 i sel hselnd hsellt hs1
    have hst : Stable g g1 := ⟨dn, dk, du⟩
    have hf1 : ForestInv g1 := by
      unfold delSliceOps at hs1
      exact runE_dels_inv _ g g1 h hi hs1
    have hmem : ∀ pv ∈ pairs, pv.2 ∈ vs := fun pv hm =>
      hperm.mem_iff.1 (List.mem_map.2 ⟨pv, hm, rfl⟩)
    refine runE_insAt_err pairs g1 hf1
      (fun pv hm => (childOK_stable hst i .mods pv.2).2 (hvs pv.2 (hmem pv hm)))
      (hperm.nodup_iff.2 hnd) ?_ h2
    intro pv hm hin
    rw [d1] at hin
    unfold removePositions at hin
    rw [← dropAt_eq_filter sel _ 0] at hin
    obtain ⟨p, _, hp2, hp3⟩ := mem_dropAt _ 0 hin
    rw [Nat.sub_zero] at hp3
    exact hp2 (hK1 pv.2 (hmem pv hm) p hp3)

end Gtirb.Forest
