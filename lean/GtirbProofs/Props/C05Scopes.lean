import GtirbProofs.Props.C05
import GtirbProofs.Props.C06
/-! C05 / C06 / C12 at module and IR scope.

`Module.byte_blocks_on(addrs) = chain(s.byte_blocks_on(addrs) for s in self.sections)`
and `IR.… = chain(m.… for m in self.modules)`: a chain over the list of all
sections of the scope, every section lookup refreshing the lazy indexes it
visits. In the model: `chain (fun d s => secBlocksOn d s r) d sections`.

The generic part (`C05_chain_*`) says that a chain of lookups, each of which
keeps `DInv` and the structure (`strip`) and whose answer is a function of the
structure, answers with the concatenation of what each member answers on the
ORIGINAL state; the scope theorems instantiate it with the four section
lookups. -/
namespace Gtirb.Index

/-! ### generic chains -/

/-- a chain of lookups keeps the invariant -/
theorem C05_chain_inv (f : D → Nat → D × List Nat) (hf : ∀ d x, DInv d → DInv (f d x).1)
    (d : D) (xs : List Nat) (h : DInv d) : DInv (chain f d xs).1 := by
  induction xs generalizing d with
  | nil => exact h
  | cons x xs ih => rw [chain_cons]; exact ih _ (hf d x h)

/-- ... and the invariant together with the structure -/
theorem C05_chain_inv_strip (f : D → Nat → D × List Nat)
    (hf : ∀ d x, DInv d → DInv (f d x).1 ∧ strip (f d x).1 = strip d)
    (d : D) (xs : List Nat) (h : DInv d) :
    DInv (chain f d xs).1 ∧ strip (chain f d xs).1 = strip d := by
  induction xs generalizing d with
  | nil => exact ⟨h, rfl⟩
  | cons x xs ih =>
    rw [chain_cons]
    have := ih _ (hf d x h).1
    exact ⟨this.1, this.2.trans (hf d x h).2⟩

/-- a chain of lookups keeps the structure -/
theorem C05_chain_strip (f : D → Nat → D × List Nat)
    (hf : ∀ d x, DInv d → DInv (f d x).1 ∧ strip (f d x).1 = strip d)
    (d : D) (xs : List Nat) (h : DInv d) : strip (chain f d xs).1 = strip d :=
  (C05_chain_inv_strip f hf d xs h).2

/-- the answer of a chain is the concatenation of the answers each member gives
on the ORIGINAL state (as sets): earlier lookups of the chain do not influence
later ones -/
theorem C05_chain_mem (f : D → Nat → D × List Nat)
    (hinv : ∀ d x, DInv d → DInv (f d x).1 ∧ strip (f d x).1 = strip d)
    (hans : ∀ d d' x, DInv d → DInv d' → strip d = strip d' → ∀ b, b ∈ (f d x).2 ↔ b ∈ (f d' x).2)
    (d : D) (xs : List Nat) (h : DInv d) (b : Nat) :
    b ∈ (chain f d xs).2 ↔ ∃ x ∈ xs, b ∈ (f d x).2 :=
  (chain_spec (I := fun d1 => DInv d1 ∧ strip d1 = strip d) (f := f) (g := fun x => (f d x).2)
    (fun d1 x hd => ⟨(hinv d1 x hd.1).1, (hinv d1 x hd.1).2.trans hd.2⟩)
    (fun d1 x b hd => hans d1 d x hd.1 h hd.2 b) xs d ⟨h, rfl⟩).2 b

/-- no duplicates in a chain over pairwise distinct members whose individual
answers (on the original state) are duplicate free and pairwise disjoint -/
theorem C05_chain_nodup (f : D → Nat → D × List Nat)
    (hinv : ∀ d x, DInv d → DInv (f d x).1 ∧ strip (f d x).1 = strip d)
    (hans : ∀ d d' x, DInv d → DInv d' → strip d = strip d' → ∀ b, b ∈ (f d x).2 ↔ b ∈ (f d' x).2)
    (hnd : ∀ d x, DInv d → (f d x).2.Nodup)
    (d : D) (xs : List Nat) (h : DInv d)
    (hdis : ∀ x y b, x ≠ y → b ∈ (f d x).2 → b ∉ (f d y).2) (hxs : xs.Nodup) :
    (chain f d xs).2.Nodup :=
  chain_nodup (I := fun d1 => DInv d1 ∧ strip d1 = strip d) (f := f) (g := fun x => (f d x).2)
    (fun d1 x hd => ⟨(hinv d1 x hd.1).1, (hinv d1 x hd.1).2.trans hd.2⟩)
    (fun d1 x b hd => hans d1 d x hd.1 h hd.2 b)
    (fun d1 x hd => hnd d1 x hd.1) hdis xs d ⟨h, rfl⟩ hxs

/-- chaining over `xs ++ ys` is chaining over `xs`, then over `ys` -/
theorem C05_chain_append (f : D → Nat → D × List Nat) (d : D) (xs ys : List Nat) :
    chain f d (xs ++ ys) =
      ((chain f (chain f d xs).1 ys).1, (chain f d xs).2 ++ (chain f (chain f d xs).1 ys).2) := by
  induction xs generalizing d with
  | nil => simp [chain_nil]
  | cons x xs ih =>
    rw [List.cons_append, chain_cons, chain_cons, ih]
    simp [List.append_assoc]

/-- the nested chain of the code (`IR` chains over modules, each `Module` over
its sections) -/
def chainL (f : D → Nat → D × List Nat) (d : D) (xss : List (List Nat)) : D × List Nat :=
  xss.foldl (fun acc xs => let (d', r) := chain f acc.1 xs; (d', acc.2 ++ r)) (d, [])

theorem chainL_acc (f : D → Nat → D × List Nat) : ∀ (xss : List (List Nat)) (d : D) (acc : List Nat),
    xss.foldl (fun acc xs => let (d', r) := chain f acc.1 xs; (d', acc.2 ++ r)) (d, acc) =
      ((chain f d xss.flatten).1, acc ++ (chain f d xss.flatten).2) := by
  intro xss
  induction xss with
  | nil => intro d acc; simp [chain_nil]
  | cons xs xss ih =>
    intro d acc
    rw [List.foldl_cons]
    show List.foldl _ ((chain f d xs).1, acc ++ (chain f d xs).2) xss = _
    rw [ih, List.flatten_cons, C05_chain_append]
    simp [List.append_assoc]

/-- IR scope is a flat chain over all sections of all modules: the nested chain
equals (state and answer list) the chain over the flattened list -/
theorem C05_chain_flatten (f : D → Nat → D × List Nat) (d : D) (xss : List (List Nat)) :
    chainL f d xss = chain f d xss.flatten := by
  unfold chainL
  rw [chainL_acc]; simp

/-! ### the four section lookups satisfy the chain hypotheses -/

theorem secBlocksOn_keeps (r : Rng) (d : D) (s : Nat) (h : DInv d) :
    DInv (secBlocksOn d s r).1 ∧ strip (secBlocksOn d s r).1 = strip d := (secBlocksOn_spec h s r).1
theorem secBlocksAt_keeps (r : Rng) (d : D) (s : Nat) (h : DInv d) :
    DInv (secBlocksAt d s r).1 ∧ strip (secBlocksAt d s r).1 = strip d := (secBlocksAt_spec h s r).1
theorem secBisOn_keeps (r : Rng) (d : D) (s : Nat) (h : DInv d) :
    DInv (secBisOn d s r).1 ∧ strip (secBisOn d s r).1 = strip d := secBisOn_inv h s r
theorem secBisAt_keeps (r : Rng) (d : D) (s : Nat) (h : DInv d) :
    DInv (secBisAt d s r).1 ∧ strip (secBisAt d s r).1 = strip d := secBisAt_inv h s r

theorem secBlocksOn_congr (r : Rng) (d d' : D) (s : Nat) (h : DInv d) (h' : DInv d')
    (hs : strip d = strip d') (b : Nat) : b ∈ (secBlocksOn d s r).2 ↔ b ∈ (secBlocksOn d' s r).2 :=
  C12_answer_of_strip d d' (.sbon s r) h h' hs b
theorem secBlocksAt_congr (r : Rng) (d d' : D) (s : Nat) (h : DInv d) (h' : DInv d')
    (hs : strip d = strip d') (b : Nat) : b ∈ (secBlocksAt d s r).2 ↔ b ∈ (secBlocksAt d' s r).2 :=
  C12_answer_of_strip d d' (.sbat s r) h h' hs b
theorem secBisOn_congr (r : Rng) (d d' : D) (s : Nat) (h : DInv d) (h' : DInv d')
    (hs : strip d = strip d') (b : Nat) : b ∈ (secBisOn d s r).2 ↔ b ∈ (secBisOn d' s r).2 :=
  C12_answer_of_strip d d' (.sbison s r) h h' hs b
theorem secBisAt_congr (r : Rng) (d d' : D) (s : Nat) (h : DInv d) (h' : DInv d')
    (hs : strip d = strip d') (b : Nat) : b ∈ (secBisAt d s r).2 ↔ b ∈ (secBisAt d' s r).2 :=
  C12_answer_of_strip d d' (.sbisat s r) h h' hs b

/-! ### an interval belongs to one section -/

theorem bisOf_sec_unique {d : D} (h : DInv d) {s s' : Nat} {y y' : BI}
    (hy : y ∈ d.bis) (hys : y.sec = some s) (hy' : y' ∈ d.bis) (hys' : y'.sec = some s')
    (hid : y.id = y'.id) : s = s' := by
  have : y = y' := key_inj BI.id h.bi_ids hy hy' hid
  subst this
  exact Option.some.inj (hys.symm.trans hys')

theorem scanBisOn_disjoint {d : D} (h : DInv d) (r : Rng) (s s' x : Nat) (hne : s ≠ s')
    (hx : x ∈ scanBisOn d s r) : x ∉ scanBisOn d s' r := by
  intro hx'
  rcases mem_scanBisOn.1 hx with ⟨y, hy, hys, hid, _⟩
  rcases mem_scanBisOn.1 hx' with ⟨y', hy', hys', hid', _⟩
  exact hne (bisOf_sec_unique h hy hys hy' hys' (hid.trans hid'.symm))

theorem scanBisAt_disjoint {d : D} (h : DInv d) (r : Rng) (s s' x : Nat) (hne : s ≠ s')
    (hx : x ∈ scanBisAt d s r) : x ∉ scanBisAt d s' r := by
  intro hx'
  rcases mem_scanBisAt.1 hx with ⟨y, hy, hys, hid, _⟩
  rcases mem_scanBisAt.1 hx' with ⟨y', hy', hys', hid', _⟩
  exact hne (bisOf_sec_unique h hy hys hy' hys' (hid.trans hid'.symm))

/-! ### module / IR scope: block lookups (C05) -/

/-- without hypotheses on the section ids: an id that names no section
contributes nothing -/
theorem C05_scope_on_any (d : D) (ss : List Nat) (r : Rng) (h : DInv d) (b : Nat) :
    b ∈ (chain (fun d s => secBlocksOn d s r) d ss).2 ↔
      ∃ s ∈ ss, (d.sec? s).isSome ∧ ∃ x, x ∈ scanBisOn d s r ∧ b ∈ scanBlocksOn d x r := by
  rw [C05_chain_mem (fun d s => secBlocksOn d s r) (secBlocksOn_keeps r) (fun d d' => secBlocksOn_congr r d d')
    d ss h b]
  constructor
  · rintro ⟨s, hs, hb⟩; exact ⟨s, hs, (C05_section_on_any d s r h b).1 hb⟩
  · rintro ⟨s, hs, hb⟩; exact ⟨s, hs, (C05_section_on_any d s r h b).2 hb⟩

theorem C05_scope_at_any (d : D) (ss : List Nat) (r : Rng) (h : DInv d) (b : Nat) :
    b ∈ (chain (fun d s => secBlocksAt d s r) d ss).2 ↔
      ∃ s ∈ ss, (d.sec? s).isSome ∧ ∃ x, x ∈ scanBisOn d s r ∧ b ∈ scanBlocksAt d x r := by
  rw [C05_chain_mem (fun d s => secBlocksAt d s r) (secBlocksAt_keeps r) (fun d d' => secBlocksAt_congr r d d')
    d ss h b]
  constructor
  · rintro ⟨s, hs, hb⟩; exact ⟨s, hs, (C05_section_at_any d s r h b).1 hb⟩
  · rintro ⟨s, hs, hb⟩; exact ⟨s, hs, (C05_section_at_any d s r h b).2 hb⟩

/-- module / IR scope, exact characterisation: the union, over the sections of
the scope and their intervals that are 'on' the query, of the qualifying blocks
of that interval. `hss`: the scope lists existing sections (false of the model
otherwise, see the example at the end). -/
theorem C05_scope_on (d : D) (ss : List Nat) (r : Rng) (h : DInv d)
    (hss : ∀ s ∈ ss, (d.sec? s).isSome) (b : Nat) :
    b ∈ (chain (fun d s => secBlocksOn d s r) d ss).2 ↔
      ∃ s ∈ ss, ∃ x, x ∈ scanBisOn d s r ∧ b ∈ scanBlocksOn d x r := by
  rw [C05_scope_on_any d ss r h b]
  constructor
  · rintro ⟨s, hs, _, hb⟩; exact ⟨s, hs, hb⟩
  · rintro ⟨s, hs, hb⟩; exact ⟨s, hs, hss s hs, hb⟩

theorem C05_scope_at (d : D) (ss : List Nat) (r : Rng) (h : DInv d)
    (hss : ∀ s ∈ ss, (d.sec? s).isSome) (b : Nat) :
    b ∈ (chain (fun d s => secBlocksAt d s r) d ss).2 ↔
      ∃ s ∈ ss, ∃ x, x ∈ scanBisOn d s r ∧ b ∈ scanBlocksAt d x r := by
  rw [C05_scope_at_any d ss r h b]
  constructor
  · rintro ⟨s, hs, _, hb⟩; exact ⟨s, hs, hb⟩
  · rintro ⟨s, hs, hb⟩; exact ⟨s, hs, hss s hs, hb⟩

/-- each block once, when the sections of the scope are pairwise distinct (an
interval belongs to one section, a block to one interval) -/
theorem C05_scope_on_nodup (d : D) (ss : List Nat) (r : Rng) (h : DInv d) (hnd : ss.Nodup) :
    (chain (fun d s => secBlocksOn d s r) d ss).2.Nodup := by
  refine C05_chain_nodup (fun d s => secBlocksOn d s r) (secBlocksOn_keeps r)
    (fun d d' => secBlocksOn_congr r d d') (fun d s hd => C05_section_on_nodup d s r hd) d ss h ?_ hnd
  intro s s' b hne hb hb'
  rcases (C05_section_on_any d s r h b).1 hb with ⟨_, x, hx, hbx⟩
  rcases (C05_section_on_any d s' r h b).1 hb' with ⟨_, x', hx', hbx'⟩
  have hxx : x = x' := by
    apply Classical.byContradiction
    intro hn
    exact scanBlocksOn_disjoint h r x x' b hn hbx hbx'
  subst hxx
  exact scanBisOn_disjoint h r s s' x hne hx hx'

theorem C05_scope_at_nodup (d : D) (ss : List Nat) (r : Rng) (h : DInv d) (hnd : ss.Nodup) :
    (chain (fun d s => secBlocksAt d s r) d ss).2.Nodup := by
  refine C05_chain_nodup (fun d s => secBlocksAt d s r) (secBlocksAt_keeps r)
    (fun d d' => secBlocksAt_congr r d d') (fun d s hd => C05_section_at_nodup d s r hd) d ss h ?_ hnd
  intro s s' b hne hb hb'
  rcases (C05_section_at_any d s r h b).1 hb with ⟨_, x, hx, hbx⟩
  rcases (C05_section_at_any d s' r h b).1 hb' with ⟨_, x', hx', hbx'⟩
  have hxx : x = x' := by
    apply Classical.byContradiction
    intro hn
    exact scanBlocksAt_disjoint h r x x' b hn hbx hbx'
  subst hxx
  exact scanBisOn_disjoint h r s s' x hne hx hx'

/-! ### module / IR scope: interval lookups are exact (C06) -/

theorem C06_scope_bis_on_any (d : D) (ss : List Nat) (r : Rng) (h : DInv d) (x : Nat) :
    x ∈ (chain (fun d s => secBisOn d s r) d ss).2 ↔
      ∃ s ∈ ss, (d.sec? s).isSome ∧ x ∈ scanBisOn d s r := by
  rw [C05_chain_mem (fun d s => secBisOn d s r) (secBisOn_keeps r) (fun d d' => secBisOn_congr r d d')
    d ss h x]
  constructor
  · rintro ⟨s, hs, hb⟩; exact ⟨s, hs, (C06_bis_on_any d s r h x).1 hb⟩
  · rintro ⟨s, hs, hb⟩; exact ⟨s, hs, (C06_bis_on_any d s r h x).2 hb⟩

theorem C06_scope_bis_at_any (d : D) (ss : List Nat) (r : Rng) (h : DInv d) (x : Nat) :
    x ∈ (chain (fun d s => secBisAt d s r) d ss).2 ↔
      ∃ s ∈ ss, (d.sec? s).isSome ∧ x ∈ scanBisAt d s r := by
  rw [C05_chain_mem (fun d s => secBisAt d s r) (secBisAt_keeps r) (fun d d' => secBisAt_congr r d d')
    d ss h x]
  constructor
  · rintro ⟨s, hs, hb⟩; exact ⟨s, hs, (C06_bis_at_any d s r h x).1 hb⟩
  · rintro ⟨s, hs, hb⟩; exact ⟨s, hs, (C06_bis_at_any d s r h x).2 hb⟩

theorem C06_scope_bis_on (d : D) (ss : List Nat) (r : Rng) (h : DInv d)
    (hss : ∀ s ∈ ss, (d.sec? s).isSome) (x : Nat) :
    x ∈ (chain (fun d s => secBisOn d s r) d ss).2 ↔ ∃ s ∈ ss, x ∈ scanBisOn d s r := by
  rw [C06_scope_bis_on_any d ss r h x]
  constructor
  · rintro ⟨s, hs, _, hb⟩; exact ⟨s, hs, hb⟩
  · rintro ⟨s, hs, hb⟩; exact ⟨s, hs, hss s hs, hb⟩

theorem C06_scope_bis_at (d : D) (ss : List Nat) (r : Rng) (h : DInv d)
    (hss : ∀ s ∈ ss, (d.sec? s).isSome) (x : Nat) :
    x ∈ (chain (fun d s => secBisAt d s r) d ss).2 ↔ ∃ s ∈ ss, x ∈ scanBisAt d s r := by
  rw [C06_scope_bis_at_any d ss r h x]
  constructor
  · rintro ⟨s, hs, _, hb⟩; exact ⟨s, hs, hb⟩
  · rintro ⟨s, hs, hb⟩; exact ⟨s, hs, hss s hs, hb⟩

/-- each interval once, when the sections of the scope are pairwise distinct -/
theorem C06_scope_bis_on_nodup (d : D) (ss : List Nat) (r : Rng) (h : DInv d) (hnd : ss.Nodup) :
    (chain (fun d s => secBisOn d s r) d ss).2.Nodup := by
  refine C05_chain_nodup (fun d s => secBisOn d s r) (secBisOn_keeps r)
    (fun d d' => secBisOn_congr r d d') (fun d s hd => nodup_secBisOn hd s r) d ss h ?_ hnd
  intro s s' x hne hx hx'
  exact scanBisOn_disjoint h r s s' x hne ((C06_bis_on_any d s r h x).1 hx).2
    ((C06_bis_on_any d s' r h x).1 hx').2

theorem C06_scope_bis_at_nodup (d : D) (ss : List Nat) (r : Rng) (h : DInv d) (hnd : ss.Nodup) :
    (chain (fun d s => secBisAt d s r) d ss).2.Nodup := by
  refine C05_chain_nodup (fun d s => secBisAt d s r) (secBisAt_keeps r)
    (fun d d' => secBisAt_congr r d d') (fun d s hd => nodup_secBisAt hd s r) d ss h ?_ hnd
  intro s s' x hne hx hx'
  exact scanBisAt_disjoint h r s s' x hne ((C06_bis_at_any d s r h x).1 hx).2
    ((C06_bis_at_any d s' r h x).1 hx').2

/-! ### the may / must sandwich at module and IR scope -/

/-- upper side: everything reported is a qualifying block of an interval of an
(existing) section of the scope -/
theorem C05_scope_on_sound (d : D) (ss : List Nat) (r : Rng) (h : DInv d) (b : Nat)
    (hb : b ∈ (chain (fun d s => secBlocksOn d s r) d ss).2) :
    ∃ s ∈ ss, (d.sec? s).isSome ∧ ∃ y ∈ d.bisOf s, b ∈ scanBlocksOn d y.id r := by
  rcases (C05_scope_on_any d ss r h b).1 hb with ⟨s, hs, hsome, x, hx, hbx⟩
  rcases mem_scanBisOn.1 hx with ⟨y, hy, hys, rfl, _⟩
  exact ⟨s, hs, hsome, y, mem_bisOf.2 ⟨hy, hys⟩, hbx⟩

theorem C05_scope_at_sound (d : D) (ss : List Nat) (r : Rng) (h : DInv d) (b : Nat)
    (hb : b ∈ (chain (fun d s => secBlocksAt d s r) d ss).2) :
    ∃ s ∈ ss, (d.sec? s).isSome ∧ ∃ y ∈ d.bisOf s, b ∈ scanBlocksAt d y.id r := by
  rcases (C05_scope_at_any d ss r h b).1 hb with ⟨s, hs, hsome, x, hx, hbx⟩
  rcases mem_scanBisOn.1 hx with ⟨y, hy, hys, rfl, _⟩
  exact ⟨s, hs, hsome, y, mem_bisOf.2 ⟨hy, hys⟩, hbx⟩

/-- lower side: a qualifying block whose interval is itself 'on' the query is
reported, whatever else the scope contains -/
theorem C05_scope_on_complete (d : D) (ss : List Nat) (r : Rng) (h : DInv d) (s : Nat) (hs : s ∈ ss)
    (hsome : (d.sec? s).isSome) (x b : Nat) (hx : x ∈ scanBisOn d s r)
    (hb : b ∈ scanBlocksOn d x r) : b ∈ (chain (fun d s => secBlocksOn d s r) d ss).2 :=
  (C05_scope_on_any d ss r h b).2 ⟨s, hs, hsome, x, hx, hb⟩

theorem C05_scope_at_complete (d : D) (ss : List Nat) (r : Rng) (h : DInv d) (s : Nat) (hs : s ∈ ss)
    (hsome : (d.sec? s).isSome) (x b : Nat) (hx : x ∈ scanBisOn d s r)
    (hb : b ∈ scanBlocksAt d x r) : b ∈ (chain (fun d s => secBlocksAt d s r) d ss).2 :=
  (C05_scope_at_any d ss r h b).2 ⟨s, hs, hsome, x, hx, hb⟩

/-- a block within its interval's declared extent that is 'on' the query is
always reported at module / IR scope -/
theorem C05_scope_on_inside (d : D) (ss : List Nat) (r : Rng) (h : DInv d) (s : Nat) (hs : s ∈ ss)
    (hsome : (d.sec? s).isSome) (y : BI) (blk : Blk) (hy : y ∈ d.bisOf s)
    (hblk : blk ∈ d.blocksOf y.id) (hin : blk.offset + blk.size ≤ y.size)
    (hb : blk.id ∈ scanBlocksOn d y.id r) :
    blk.id ∈ (chain (fun d s => secBlocksOn d s r) d ss).2 := by
  rw [C05_chain_mem (fun d s => secBlocksOn d s r) (secBlocksOn_keeps r)
    (fun d d' => secBlocksOn_congr r d d') d ss h]
  exact ⟨s, hs, C05_section_on_inside d s r h hsome y blk hy hblk hin hb⟩

/-! ### schedule independence for scope lookups (C12) -/

/-- any chain of structure-preserving lookups is unobservable by later queries -/
theorem C12_chain_lookup_unobservable (f : D → Nat → D × List Nat)
    (hf : ∀ d x, DInv d → DInv (f d x).1 ∧ strip (f d x).1 = strip d)
    (d : D) (xs : List Nat) (q : Query) (h : DInv d) :
    sameAnswer (runQuery (chain f d xs).1 q).2 (runQuery d q).2 :=
  C12_answer_of_strip _ _ q (C05_chain_inv_strip f hf d xs h).1 h (C05_chain_inv_strip f hf d xs h).2

theorem C12_scope_lookup_unobservable (d : D) (ss : List Nat) (r : Rng) (q : Query) (h : DInv d) :
    sameAnswer (runQuery (chain (fun d s => secBlocksOn d s r) d ss).1 q).2 (runQuery d q).2 :=
  C12_chain_lookup_unobservable _ (secBlocksOn_keeps r) d ss q h

theorem C12_scope_lookup_unobservable_at (d : D) (ss : List Nat) (r : Rng) (q : Query) (h : DInv d) :
    sameAnswer (runQuery (chain (fun d s => secBlocksAt d s r) d ss).1 q).2 (runQuery d q).2 :=
  C12_chain_lookup_unobservable _ (secBlocksAt_keeps r) d ss q h

theorem C12_scope_lookup_unobservable_bis_on (d : D) (ss : List Nat) (r : Rng) (q : Query) (h : DInv d) :
    sameAnswer (runQuery (chain (fun d s => secBisOn d s r) d ss).1 q).2 (runQuery d q).2 :=
  C12_chain_lookup_unobservable _ (secBisOn_keeps r) d ss q h

theorem C12_scope_lookup_unobservable_bis_at (d : D) (ss : List Nat) (r : Rng) (q : Query) (h : DInv d) :
    sameAnswer (runQuery (chain (fun d s => secBisAt d s r) d ss).1 q).2 (runQuery d q).2 :=
  C12_chain_lookup_unobservable _ (secBisAt_keeps r) d ss q h

/-- a scope lookup is also unobservable by a later scope lookup -/
theorem C12_scope_then_scope (d : D) (ss ss' : List Nat) (r r' : Rng) (h : DInv d) (b : Nat) :
    b ∈ (chain (fun d s => secBlocksOn d s r') (chain (fun d s => secBlocksOn d s r) d ss).1 ss').2 ↔
      b ∈ (chain (fun d s => secBlocksOn d s r') d ss').2 := by
  have hk := C05_chain_inv_strip (fun d s => secBlocksOn d s r) (secBlocksOn_keeps r) d ss h
  rw [C05_scope_on_any _ ss' r' hk.1 b, C05_scope_on_any d ss' r' h b]
  simp only [sec?_of_strip hk.2, scanBisOn_of_strip hk.2, scanBlocksOn_of_strip hk.2]

/-! ### concrete example: two sections -/

/-- blocks 1, 2 (overlapping) in interval 10 of section 20; block 3 and the
zero-sized block 4 in interval 11 of section 21; block 5 in the address-less
interval 12 of section 21 -/
def exS0 : D :=
  { blks := [⟨1, true, 0, 8, none⟩, ⟨2, false, 4, 8, none⟩, ⟨3, true, 0, 4, none⟩,
             ⟨4, true, 2, 0, none⟩, ⟨5, false, 0, 4, none⟩],
    bis := [{ id := 10, addr := some 100, size := 32, sec := none },
            { id := 11, addr := some 200, size := 16, sec := none },
            { id := 12, addr := none, size := 16, sec := none }],
    secs := [{ id := 20 }, { id := 21 }] }

def exSActs : List Act :=
  [.edit (.blkMove 1 (some 10) true), .edit (.blkMove 2 (some 10) true),
   .edit (.blkMove 3 (some 11) true), .edit (.blkMove 4 (some 11) true),
   .edit (.blkMove 5 (some 12) true),
   .edit (.biMove 10 (some 20) true), .edit (.biMove 11 (some 21) true),
   .edit (.biMove 12 (some 21) true),
   .look (.sbon 20 ⟨0, 1000, 1⟩), .edit (.blkSet 1 1 8), .edit (.biSet 11 (some 204) 16)]

def exS : D := exec exS0 exSActs

theorem exS0_inv : DInv exS0 where
  blk_ids := by decide
  bi_ids := by decide
  sec_ids := by decide
  bi_ok := by
    intro bi hbi
    simp only [exS0, List.mem_cons, List.not_mem_nil, or_false] at hbi
    rcases hbi with rfl | rfl | rfl <;> exact lazyOK_empty _
  sec_ok := by
    intro sc hsc
    simp only [exS0, List.mem_cons, List.not_mem_nil, or_false] at hsc
    rcases hsc with rfl | rfl <;> exact lazyOK_empty _

theorem exS_inv : DInv exS := C12_exec_inv exS0 exS0_inv exSActs

/-- section 20 carries a built index with no pending event, section 21 none at
all with three pending events, interval 10 a built block index with two pending
events: the chain refreshes all of them -/
example : (exS.sec? 20).map (fun s => (s.lz.tree.isSome, s.lz.events.length)) = some (true, 0) ∧
    (exS.sec? 21).map (fun s => (s.lz.tree.isSome, s.lz.events.length)) = some (false, 3) ∧
    (exS.bi? 10).map (fun x => (x.lz.tree.isSome, x.lz.events.length)) = some (true, 2) := by decide

example : (chain (fun d s => secBlocksOn d s ⟨0, 1000, 1⟩) exS [20, 21]).2 = [1, 2, 3] ∧
    (chain (fun d s => secBlocksAt d s ⟨0, 1000, 1⟩) exS [20, 21]).2 = [1, 2, 3, 4] ∧
    (chain (fun d s => secBisOn d s ⟨0, 1000, 1⟩) exS [20, 21]).2 = [10, 11] ∧
    (chain (fun d s => secBisAt d s ⟨0, 1000, 1⟩) exS [20, 21]).2 = [10, 11] := by decide

/-- only section 21 is hit -/
example : (chain (fun d s => secBlocksOn d s ⟨204, 206, 1⟩) exS [20, 21]).2 = [3] ∧
    (chain (fun d s => secBlocksAt d s ⟨204, 207, 2⟩) exS [20, 21]).2 = [3, 4] := by decide

example (b : Nat) : b ∈ (chain (fun d s => secBlocksOn d s ⟨0, 1000, 1⟩) exS [20, 21]).2 ↔
    ∃ s ∈ [20, 21], ∃ x, x ∈ scanBisOn exS s ⟨0, 1000, 1⟩ ∧ b ∈ scanBlocksOn exS x ⟨0, 1000, 1⟩ :=
  C05_scope_on exS [20, 21] _ exS_inv (by decide) b

example : (chain (fun d s => secBlocksOn d s ⟨0, 1000, 1⟩) exS [20, 21]).2.Nodup :=
  C05_scope_on_nodup exS [20, 21] _ exS_inv (by decide)

/-- `_nodup` needs pairwise distinct sections: a section listed twice is
reported twice -/
example : (chain (fun d s => secBlocksOn d s ⟨0, 1000, 1⟩) exS [20, 20]).2 = [1, 2, 1, 2] := by decide

/-- `C05_scope_on` / `C06_scope_bis_on` need the listed sections to exist: after
moving interval 10 to the non-existing section 99 the chain over `[99]` answers
nothing, the scan finds the interval and its blocks -/
example : (chain (fun d s => secBlocksOn d s ⟨0, 1000, 1⟩) (biMove exS 10 (some 99) true) [99]).2 = [] ∧
    (chain (fun d s => secBisOn d s ⟨0, 1000, 1⟩) (biMove exS 10 (some 99) true) [99]).2 = [] ∧
    scanBisOn (biMove exS 10 (some 99) true) 99 ⟨0, 1000, 1⟩ = [10] ∧
    scanBlocksOn (biMove exS 10 (some 99) true) 10 ⟨0, 1000, 1⟩ = [1, 2] := by decide

/-- the nested (IR over modules over sections) chain is the flat one -/
example : chainL (fun d s => secBlocksOn d s ⟨0, 1000, 1⟩) exS [[20], [21]] =
    chain (fun d s => secBlocksOn d s ⟨0, 1000, 1⟩) exS [20, 21] :=
  C05_chain_flatten _ _ _

/-- a scope lookup does not change what a later lookup answers -/
example : sameAnswer
    (runQuery (chain (fun d s => secBlocksOn d s ⟨0, 1000, 1⟩) exS [20, 21]).1 (.sbat 21 ⟨200, 210, 1⟩)).2
    (runQuery exS (.sbat 21 ⟨200, 210, 1⟩)).2 :=
  C12_scope_lookup_unobservable exS [20, 21] _ _ exS_inv

end Gtirb.Index
