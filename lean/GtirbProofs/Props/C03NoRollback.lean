import GtirbProofs.Props.C03Full
import GtirbProofs.Props.C16
/-! What the history theorems of C03 / C04 / C10 / C16 say about the *code*: no roll-back.

`run` (ForestDefs.lean) skips an operation that raises and keeps the state of before the call. That
is what the Python code does for the built-ins' own guard exceptions (`KeyError` of `remove`/`pop`,
`ValueError`, `IndexError`: raised before any mutation, `C16_builtin_errors_pure`; `badOp` is an
ill-formed test input, never sent to the code). It is **not** what the code does for

* `Exc.cacheKeyError`, the `KeyError` of `del cache[uuid]`: raised in the middle of `discard` /
  the `_remove` hook, after the back-pointer and the indexes were already changed;
* `Exc.outside`, the known finding K1 (`modules[k] = v` with `v` elsewhere in the same list): the
  code damages the list, the model does not follow.

So `C04_history`, `C10_history_full`, `C03_history_full` are statements about the code only for
histories in which no step fails with one of these two. This file proves that

* under the hypothesis of C03 (`DistinctAlongFine`) the first never happens (`C03_history_no_keyerror`,
  review `graph` P1), and with the explicit no-K1 hypothesis the only skipped operations are the
  built-ins' own exceptions (`C16_history_skips_only_builtin`, P3);
* restates the headline theorems over `runStrict`, which stops (answers `none`) at the first
  `cacheKeyError` / `outside` instead of rolling back: `C04_history_strict`, `C10_history_strict`,
  `C03_history_strict`, with the bridge `C03_runStrict_total` (under `DistinctAlongFine` and no K1 the
  strict run never stops and equals `run`), and `runStrict_none_iff` (it stops exactly when some step
  fails with one of the two).

Read together: either the history stays inside C03's quantifier and never hits K1 - then all three
invariants hold after every prefix (`C03_C04_C10_strict_prefixes`) - or the strict run stops at the
first such exception and nothing is claimed afterwards. -/
namespace Gtirb.Forest

/-! ### bookkeeping about `run`, `OpsOK`, `DistinctAlongFine` -/

theorem nr_run_cons (g : G) (op : Op) (ops : List Op) :
    run g (op :: ops) = run (match step g op with | .ok g' => g' | .error _ => g) ops := rfl

theorem nr_run_append (g : G) (a b : List Op) : run g (a ++ b) = run (run g a) b := by
  unfold run; rw [List.foldl_append]

theorem nr_distinct_head : ∀ {g : G} {ops : List Op}, DistinctAlongFine g ops → Distinct g
  | _, [], h => h
  | _, _ :: _, h => h.1

/-- a prefix followed by one more operation, inside `op :: ops` -/
theorem nr_snoc_prefix_cons {pre : List Op} {x op : Op} {ops : List Op} (h : pre ++ [x] <+: op :: ops) :
    (pre = [] ∧ x = op) ∨ ∃ pre', pre = op :: pre' ∧ pre' ++ [x] <+: ops := by
  cases pre with
  | nil =>
    left
    have := List.cons_prefix_cons.1 (show x :: [] <+: op :: ops from h)
    exact ⟨rfl, this.1⟩
  | cons p pre' =>
    right
    have := List.cons_prefix_cons.1 (show p :: (pre' ++ [x]) <+: op :: ops from h)
    exact ⟨pre', by rw [this.1], this.2⟩

/-- all the invariants, and the remaining hypotheses, at every cut of a history -/
theorem nr_invs_at_cut : ∀ (pre suf : List Op) (g : G), ForestInv g → CacheInv g →
    OpsOK g (pre ++ suf) → DistinctAlongFine g (pre ++ suf) →
    ForestInv (run g pre) ∧ CacheInv (run g pre) ∧ OpsOK (run g pre) suf ∧
      DistinctAlongFine (run g pre) suf
  | [], _, _, hf, hc, hops, hd => ⟨hf, hc, hops, hd⟩
  | op :: pre, suf, g, hf, hc, hops, hd => by
    obtain ⟨hop, hops'⟩ := hops
    obtain ⟨hdg, hfine, hd'⟩ := hd
    rw [nr_run_cons]
    have hd1 := nr_distinct_head hd'
    refine nr_invs_at_cut pre suf _ ?_ ?_ hops' hd'
    · cases hs : step g op with
      | ok g' => exact C04_step g g' op hf hop hs
      | error e => exact hf
    · cases hs : step g op with
      | ok g' =>
        rw [hs] at hd1
        exact C03_step_fine g g' op hf hc hdg hd1 hop hfine hs
      | error e => exact hc

/-- the same, for a state reached after `pre` when `pre ++ [op]` is a prefix of the history: the
operation `op` is issued in a state that satisfies every hypothesis of the step theorems -/
theorem nr_step_hyps (g : G) (hf : ForestInv g) (hc : CacheInv g) (ops : List Op) (hops : OpsOK g ops)
    (hd : DistinctAlongFine g ops) (pre : List Op) (op : Op) (hpre : pre ++ [op] <+: ops) :
    ForestInv (run g pre) ∧ CacheInv (run g pre) ∧ Distinct (run g pre) ∧ OpOK (run g pre) op ∧
      DistinctFine (run g pre) op := by
  obtain ⟨t, ht⟩ := hpre
  have hcut : ops = pre ++ (op :: t) := by rw [← ht]; simp
  subst hcut
  obtain ⟨h1, h2, h3, h4⟩ := nr_invs_at_cut pre (op :: t) g hf hc hops hd
  exact ⟨h1, h2, h4.1, h3.1, h4.2.1⟩

/-! ### P1: under C03's hypothesis nothing is ever rolled back for the table's `KeyError` -/

/-- generalised form: any start state that satisfies the invariants (e.g. a loaded IR) -/
theorem C03_history_no_keyerror_from (g : G) (hf : ForestInv g) (hc : CacheInv g) (ops : List Op)
    (hops : OpsOK g ops) (hd : DistinctAlongFine g ops) :
    ∀ pre op, pre ++ [op] <+: ops → step (run g pre) op ≠ .error .cacheKeyError := by
  intro pre op hpre
  obtain ⟨h1, h2, h3, h4, h5⟩ := nr_step_hyps g hf hc ops hops hd pre op hpre
  exact C03_no_cache_keyerror_fine _ op h1 h2 h3 h4 h5

/-- P1. In a history of well-typed operations from the empty state during which UUIDs stay pairwise
distinct per IR at every moment, no operation fails with the `KeyError` of `del cache[uuid]`: the
one exception for which the model's "state unchanged" differs from the code never occurs. -/
theorem C03_history_no_keyerror (ops : List Op) (hops : OpsOK {} ops) (hd : DistinctAlongFine {} ops) :
    ∀ pre op, pre ++ [op] <+: ops → step (run {} pre) op ≠ .error .cacheKeyError :=
  C03_history_no_keyerror_from {} C04_init C03_init ops hops hd

/-! ### P3: the only operations a history skips are the built-in's own exceptions -/

theorem C16_history_skips_only_builtin_from (g : G) (hf : ForestInv g) (hc : CacheInv g) (ops : List Op)
    (hops : OpsOK g ops) (hd : DistinctAlongFine g ops)
    (hK1 : ∀ pre op, pre ++ [op] <+: ops → step (run g pre) op ≠ .error .outside) :
    ∀ pre op e, pre ++ [op] <+: ops → step (run g pre) op = .error e →
      e = .keyError ∨ e = .valueError ∨ e = .indexError ∨ e = .badOp := by
  intro pre op e hpre he
  cases e with
  | keyError => exact .inl rfl
  | valueError => exact .inr (.inl rfl)
  | indexError => exact .inr (.inr (.inl rfl))
  | badOp => exact .inr (.inr (.inr rfl))
  | outside => exact absurd he (hK1 pre op hpre)
  | cacheKeyError => exact absurd he (C03_history_no_keyerror_from g hf hc ops hops hd pre op hpre)

/-- P3. Under C03's hypothesis and without the pattern of the known finding K1 (`hK1`; by
`C16_setItem_outside_iff` that is `modules[k] = v` with `v` at another position of the same list),
every operation that `run` skips failed with the built-in's own exception, raised by a guard before
any mutation (`C16_builtin_errors_pure`), or is an ill-formed test input (`badOp`). -/
theorem C16_history_skips_only_builtin (ops : List Op) (hops : OpsOK {} ops) (hd : DistinctAlongFine {} ops)
    (hK1 : ∀ pre op, pre ++ [op] <+: ops → step (run {} pre) op ≠ .error .outside) :
    ∀ pre op e, pre ++ [op] <+: ops → step (run {} pre) op = .error e →
      e = .keyError ∨ e = .valueError ∨ e = .indexError ∨ e = .badOp :=
  C16_history_skips_only_builtin_from {} C04_init C03_init ops hops hd hK1

/-! ### the strict runner: stop instead of rolling back -/

/-- the exceptions after which the code's state is *not* the state of before the call -/
def strictStops : Exc → Bool
  | .cacheKeyError | .outside => true
  | _ => false

/-- run a history as far as the model is faithful to the code: an operation failing with the
built-in's guard exception is skipped (state unchanged, as in the code); at the first
`cacheKeyError` / `outside` the run stops and there is no state to speak about -/
def runStrict : G → List Op → Option G
  | g, [] => some g
  | g, op :: ops =>
    match step g op with
    | .ok g' => runStrict g' ops
    | .error e => if strictStops e then none else runStrict g ops

/-- the strict run, if it does not stop, is the run -/
theorem runStrict_some : ∀ (ops : List Op) (g g' : G), runStrict g ops = some g' →
    g' = run g ops ∧ ∀ pre op, pre ++ [op] <+: ops →
      step (run g pre) op ≠ .error .cacheKeyError ∧ step (run g pre) op ≠ .error .outside
  | [], g, g', h => by
    refine ⟨by cases h; rfl, ?_⟩
    intro pre op hpre
    have := List.eq_nil_of_prefix_nil hpre
    simp at this
  | op :: ops, g, g', h => by
    rw [nr_run_cons]
    unfold runStrict at h
    cases hs : step g op with
    | ok g1 =>
      rw [hs] at h
      obtain ⟨h1, h2⟩ := runStrict_some ops g1 g' h
      refine ⟨h1, ?_⟩
      intro pre x hpre
      rcases nr_snoc_prefix_cons hpre with ⟨rfl, rfl⟩ | ⟨pre', rfl, hp'⟩
      · show step g x ≠ _ ∧ step g x ≠ _
        rw [hs]; exact ⟨(by intro hh; cases hh), (by intro hh; cases hh)⟩
      · rw [nr_run_cons, hs]; exact h2 pre' x hp'
    | error e =>
      rw [hs] at h
      simp only at h
      by_cases hst : strictStops e = true
      · rw [if_pos hst] at h; cases h
      · rw [if_neg hst] at h
        obtain ⟨h1, h2⟩ := runStrict_some ops g g' h
        refine ⟨h1, ?_⟩
        intro pre x hpre
        rcases nr_snoc_prefix_cons hpre with ⟨rfl, rfl⟩ | ⟨pre', rfl, hp'⟩
        · show step g x ≠ _ ∧ step g x ≠ _
          rw [hs]
          refine ⟨?_, ?_⟩ <;> intro hh <;> cases hh <;> exact hst rfl
        · rw [nr_run_cons, hs]; exact h2 pre' x hp'

/-- if no step fails with `cacheKeyError` or `outside`, the strict run does not stop and equals `run` -/
theorem runStrict_eq_run : ∀ (ops : List Op) (g : G),
    (∀ pre op, pre ++ [op] <+: ops → step (run g pre) op ≠ .error .cacheKeyError) →
    (∀ pre op, pre ++ [op] <+: ops → step (run g pre) op ≠ .error .outside) →
    runStrict g ops = some (run g ops)
  | [], _, _, _ => rfl
  | op :: ops, g, hk, ho => by
    rw [nr_run_cons]
    unfold runStrict
    have hk0 := hk [] op (by simp)
    have ho0 := ho [] op (by simp)
    have hk' : ∀ pre x, pre ++ [x] <+: ops →
        step (run (match step g op with | .ok g' => g' | .error _ => g) pre) x ≠ .error .cacheKeyError := by
      intro pre x hp
      have := hk (op :: pre) x (List.cons_prefix_cons.2 ⟨rfl, hp⟩)
      rwa [nr_run_cons] at this
    have ho' : ∀ pre x, pre ++ [x] <+: ops →
        step (run (match step g op with | .ok g' => g' | .error _ => g) pre) x ≠ .error .outside := by
      intro pre x hp
      have := ho (op :: pre) x (List.cons_prefix_cons.2 ⟨rfl, hp⟩)
      rwa [nr_run_cons] at this
    have ih := runStrict_eq_run ops _ hk' ho'
    cases hs : step g op with
    | ok g1 => rw [hs] at ih; exact ih
    | error e =>
      rw [hs] at ih
      simp only
      have hst : ¬ strictStops e = true := by
        intro hst
        cases e <;> simp [strictStops] at hst
        · exact hk0 hs
        · exact ho0 hs
      rw [if_neg hst]; exact ih

/-- the strict run stops exactly when some step of the (rolled-back) run fails with the table's
`KeyError` or with K1: up to the first such step the two runs coincide -/
theorem runStrict_none_iff (g : G) (ops : List Op) :
    runStrict g ops = none ↔ ∃ pre op, pre ++ [op] <+: ops ∧
      (step (run g pre) op = .error .cacheKeyError ∨ step (run g pre) op = .error .outside) := by
  constructor
  · intro hn
    apply Classical.byContradiction
    intro hne
    have hall : ∀ pre op, pre ++ [op] <+: ops →
        step (run g pre) op ≠ .error .cacheKeyError ∧ step (run g pre) op ≠ .error .outside := by
      intro pre op hp
      exact ⟨fun h => hne ⟨pre, op, hp, .inl h⟩, fun h => hne ⟨pre, op, hp, .inr h⟩⟩
    have := runStrict_eq_run ops g (fun pre op hp => (hall pre op hp).1) (fun pre op hp => (hall pre op hp).2)
    rw [hn] at this; cases this
  · rintro ⟨pre, op, hp, h⟩
    cases hr : runStrict g ops with
    | none => rfl
    | some g' =>
      have := (runStrict_some ops g g' hr).2 pre op hp
      rcases h with h | h
      · exact absurd h this.1
      · exact absurd h this.2

/-- a strict run that does not stop did not stop on any prefix either -/
theorem runStrict_prefix (g g' : G) (ops pre : List Op) (h : runStrict g ops = some g') (hpre : pre <+: ops) :
    runStrict g pre = some (run g pre) := by
  have h2 := (runStrict_some ops g g' h).2
  exact runStrict_eq_run pre g
    (fun p x hp => (h2 p x (List.IsPrefix.trans hp hpre)).1)
    (fun p x hp => (h2 p x (List.IsPrefix.trans hp hpre)).2)

/-! ### the bridge: inside C03's quantifier and without K1 the strict run never stops -/

theorem C03_runStrict_total_from (g : G) (hf : ForestInv g) (hc : CacheInv g) (ops : List Op)
    (hops : OpsOK g ops) (hd : DistinctAlongFine g ops)
    (hK1 : ∀ pre op, pre ++ [op] <+: ops → step (run g pre) op ≠ .error .outside) :
    runStrict g ops = some (run g ops) :=
  runStrict_eq_run ops g (C03_history_no_keyerror_from g hf hc ops hops hd) hK1

/-- under `DistinctAlongFine` and no K1 the strict run is total and equals `run`: for such histories
the theorems about `run` (`C04_history`, `C10_history_full`, `C03_history_full`) are statements about
the code -/
theorem C03_runStrict_total (ops : List Op) (hops : OpsOK {} ops) (hd : DistinctAlongFine {} ops)
    (hK1 : ∀ pre op, pre ++ [op] <+: ops → step (run {} pre) op ≠ .error .outside) :
    runStrict {} ops = some (run {} ops) :=
  C03_runStrict_total_from {} C04_init C03_init ops hops hd hK1

theorem C03_runStrict_ne_none (ops : List Op) (hops : OpsOK {} ops) (hd : DistinctAlongFine {} ops)
    (hK1 : ∀ pre op, pre ++ [op] <+: ops → step (run {} pre) op ≠ .error .outside) :
    runStrict {} ops ≠ none := by
  rw [C03_runStrict_total ops hops hd hK1]; intro h; cases h

/-- under `DistinctAlongFine` alone the strict run can stop only at K1 -/
theorem C03_runStrict_none_only_K1 (ops : List Op) (hops : OpsOK {} ops) (hd : DistinctAlongFine {} ops)
    (hn : runStrict {} ops = none) :
    ∃ pre op, pre ++ [op] <+: ops ∧ step (run {} pre) op = .error .outside := by
  obtain ⟨pre, op, hp, h | h⟩ := (runStrict_none_iff {} ops).1 hn
  · exact absurd h (C03_history_no_keyerror ops hops hd pre op hp)
  · exact ⟨pre, op, hp, h⟩

/-! ### the headline history theorems, over the strict runner -/

/-- C04, honest form: if the history runs to its end without the table's `KeyError` and without K1
(`runStrict` answers a state), the containment forest of that state is consistent. No UUID
hypothesis: a clash that never makes `del cache[uuid]` fail does not disturb the forest. -/
theorem C04_history_strict (ops : List Op) (hops : OpsOK {} ops) (g : G) (hs : runStrict {} ops = some g) :
    ForestInv g := by
  rw [(runStrict_some ops {} g hs).1]; exact C04_history ops hops

/-- C10, honest form -/
theorem C10_history_strict (ops : List Op) (hops : OpsOK {} ops) (g : G) (hs : runStrict {} ops = some g) :
    IndexInv g := by
  rw [(runStrict_some ops {} g hs).1]; exact C10_history_full ops hops

/-- C03, honest form: with UUIDs distinct per IR at every moment (which by `C03_runStrict_none_only_K1`
leaves K1 as the only way for the strict run to stop) -/
theorem C03_history_strict (ops : List Op) (hops : OpsOK {} ops) (hd : DistinctAlongFine {} ops) (g : G)
    (hs : runStrict {} ops = some g) : CacheInv g := by
  rw [(runStrict_some ops {} g hs).1]; exact C03_history_full ops hops hd

theorem nr_distinctAlongFine_prefix : ∀ (pre suf : List Op) (g : G), DistinctAlongFine g (pre ++ suf) →
    DistinctAlongFine g pre
  | [], _, _, h => nr_distinct_head h
  | _ :: pre, suf, _, h => ⟨h.1, h.2.1, nr_distinctAlongFine_prefix pre suf _ h.2.2⟩

/-- all three, after every prefix: a history inside C03's quantifier that never hits K1 never stops,
and every state it passes through satisfies C04, C10 and C03; each of those states is the state the
code is in (nothing was rolled back except the built-ins' guard exceptions) -/
theorem C03_C04_C10_strict_prefixes (ops : List Op) (hops : OpsOK {} ops) (hd : DistinctAlongFine {} ops)
    (hK1 : ∀ pre op, pre ++ [op] <+: ops → step (run {} pre) op ≠ .error .outside) :
    ∀ pre, pre <+: ops → runStrict {} pre = some (run {} pre) ∧
      ForestInv (run {} pre) ∧ IndexInv (run {} pre) ∧ CacheInv (run {} pre) ∧ Distinct (run {} pre) := by
  intro pre hpre
  have hs := C03_runStrict_total ops hops hd hK1
  have hp := runStrict_prefix {} _ ops pre hs hpre
  have hops' := OpsOK_prefix pre ops {} hpre hops
  obtain ⟨t, ht⟩ := hpre
  subst ht
  have hd' := nr_distinctAlongFine_prefix pre t {} hd
  obtain ⟨_, _, _, h4⟩ := nr_invs_at_cut pre t {} C04_init C03_init hops hd
  exact ⟨hp, C04_history_strict pre hops' _ hp, C10_history_strict pre hops' _ hp,
    C03_history_strict pre hops' hd' _ hp, nr_distinct_head h4⟩

/-! ### concrete histories -/

def nrIsNone : Option G → Bool
  | none => true
  | some _ => false

/-- the review's example: two symbols with the same UUID in one module; the first `discard` deletes
the shared table entry, the second one raises the `KeyError` of `del cache[uuid]` in the middle.
`run` rolls the second `discard` back (and its state satisfies `ForestInv`, which the code's state
does not); the strict run stops there and claims nothing. -/
def nrClashOps : List Op :=
  [.mkIR 100, .mk .module 101 [] (some 0), .mkSym 5 0 .none (some 1), .mkSym 5 0 .none (some 1),
   .discard 1 .syms 2, .discard 1 .syms 3]

example : nrIsNone (runStrict {} nrClashOps) = true := by decide
example : cacheIsKeyError (step (run {} (nrClashOps.take 5)) (.discard 1 .syms 3)) = true := by decide
example : (run {} nrClashOps).kids 1 .syms = [3] ∧ (run {} nrClashOps).par 3 = some 1 := by decide
/-- up to the exception the strict run is the run -/
example : nrIsNone (runStrict {} (nrClashOps.take 5)) = false := by decide
/-- and the hypothesis of C03 indeed fails in this history (after the fourth operation) -/
example : cacheDistinctB (run {} (nrClashOps.take 4)) = false := by decide

/-- K1: `modules[0] = m2` while `m2` is at position 1 of the same list -/
def nrK1Ops : List Op :=
  [.mkIR 100, .mk .module 101 [] (some 0), .mk .module 102 [] (some 0), .setItem 0 0 2]

example : nrIsNone (runStrict {} nrK1Ops) = true := by decide
example : nrIsNone (runStrict {} (nrK1Ops.take 3)) = false := by decide

/-- non-vacuity of the positive side: a history with guard exceptions (`remove` of an absent element,
`del modules[7]`), skipped by both runs; the strict run reaches the end -/
def nrGoodOps : List Op :=
  [.mkIR 100, .mk .module 101 [] (some 0), .mkSym 5 0 .none (some 1), .mkSym 6 0 .none none,
   .remove 1 .syms 3, .delItem 0 7, .add 1 .syms 3, .discard 1 .syms 2, .setItem 0 0 1]

example : nrIsNone (runStrict {} nrGoodOps) = false := by decide
example : (run {} nrGoodOps).kids 1 .syms = [3] ∧ (run {} nrGoodOps).kids 0 .mods = [1] ∧
    getByUuid (run {} nrGoodOps) 0 6 = some 3 ∧ getByUuid (run {} nrGoodOps) 0 5 = none := by decide

end Gtirb.Forest
