import GtirbProofs.Props.C17Loader
import GtirbProofs.Props.C03Full
/-! Property C03, the clause "for IRs produced by loading a file" (review `graph`, C03 gap 1,
proposal P2), and a loaded start state for the history theorems of C03 / C04 / C10.

The loader is not a sequence of constructor calls: `Node._from_protobuf` registers a fresh node
in the IR's table *before* it is attached (`module.py`, `section.py`, `symbol.py`), re-uses nodes
found in the table, and `Symbol._from_protobuf` writes name and payload of the still detached symbol
directly (no index hook runs; the hooks run when `m.symbols.update(...)` adds it). The mechanism is
`GtirbModel/Loader.lean`; this file proves that `load` of a message whose node UUIDs are pairwise
distinct takes a state satisfying the invariants of C03 / C04 / C10 (`CacheInv`, `ForestInv`,
`IndexInv`; `Distinct`) to a state satisfying them - for *all* IRs of the process, not only the new
one - so that the history theorems can be started from a loaded state.

`IndexInv` needs no hypothesis on the message at all (`load_indexInv`: duplicated UUIDs included). -/
namespace Gtirb.Loader
open Gtirb.Forest

/-! ### `irOf` of the nodes that existed before -/

private theorem bind_par_frame {g g' : G} (hf : ForestInv g)
    (hfr : ∀ x, x < g.n → g'.par x = g.par x) (o : Option Nat) (ho : ∀ a, o = some a → a < g.n) :
    o.bind g'.par = o.bind g.par ∧ ∀ a, o.bind g.par = some a → a < g.n := by
  cases o with
  | none => exact ⟨rfl, fun a h => by cases h⟩
  | some b =>
    refine ⟨hfr b (ho b rfl), ?_⟩
    intro a h
    exact (hf.alloc b a h).2

/-- back-pointers and kinds of the old nodes are untouched, so are their `.ir` -/
theorem irOf_frame {g g' : G} (hf : ForestInv g)
    (hfr : ∀ x, x < g.n → g'.par x = g.par x ∧ g'.kind x = g.kind x) {x : Nat} (hx : x < g.n) :
    irOf g' x = irOf g x := by
  have hp : ∀ x, x < g.n → g'.par x = g.par x := fun x hx => (hfr x hx).1
  have b1 := bind_par_frame hf hp (some x) (fun a h => by cases h; exact hx)
  have b2 := bind_par_frame hf hp _ b1.2
  have b3 := bind_par_frame hf hp _ b2.2
  have b4 := bind_par_frame hf hp _ b3.2
  have e1 : g'.par x = g.par x := hp x hx
  have e2 : (g'.par x).bind g'.par = (g.par x).bind g.par := by rw [e1]; exact b2.1
  have e3 : ((g'.par x).bind g'.par).bind g'.par = ((g.par x).bind g.par).bind g.par := by
    rw [e2]; exact b3.1
  have e4 : (((g'.par x).bind g'.par).bind g'.par).bind g'.par =
      (((g.par x).bind g.par).bind g.par).bind g.par := by
    rw [e3]; exact b4.1
  unfold irOf
  rw [(hfr x hx).2]
  cases g.kind x <;> first | rfl | exact e1 | exact e2 | exact e3 | exact e4

/-! ### state predicates carried through the load

A predicate `P` on states that is kept by each elementary step of the decoder (`LoadInv`; `S`: the symbol
messages the step `Symbol._from_protobuf` may be run on) holds after
`load` (`load_keeps`). The forest facts a step may need come from the invariant `Mid` of the middle of a load,
which the lemmas of `LoaderProofs.lean` provide at every intermediate state. Used for `IndexInv` here and for
the referents of symbols in `C09Identity.lean`. -/

/-- `P` is kept by every elementary step of the loader (`g0`: the state before the load) -/
structure LoadInv (g0 : G) (S : SkSymbol → Prop) (P : G → Prop) : Prop where
  /-- `Node.__init__` of a fresh non-symbol node -/
  onAlloc : ∀ g k u, Mid g0 g → k ≠ .symbol → P g → P (alloc g k u).1
  /-- writes to the UUID table only -/
  onCache : ∀ g g', IdxOC g g' → P g → P g'
  /-- `SetWrapper.add` of a decoded child -/
  onSetAdd : ∀ g g' p s v, Mid g0 g → slotOf (g.kind v) = some s → P g → setAdd g p s v = .ok g' → P g'
  onBlkUpdate : ∀ g g' p vs, Mid g0 g → P g → blkUpdate g p vs = .ok g' → P g'
  onModAppend : ∀ g g' v, Mid g0 g → P g → modAppend g g0.n v = .ok g' → P g'
  /-- `Symbol._from_protobuf`, for the symbol messages `S` of the file -/
  onSymbol : ∀ g x g' v, S x → Mid g0 g → P g → decodeSymbol g g0.n x = .ok (g', v) → P g'

theorem LoadInv.alloc_reg {g0 : G} {S : SkSymbol → Prop} {P : G → Prop} (L : LoadInv g0 S P) {g : G} (hm : Mid g0 g) (hp : P g) (k : Kind)
    (hk : k ≠ .symbol) (u i : Nat) : P (cacheSet (alloc g k u).1 i u g.n) :=
  L.onCache _ _ (idx_oc_cacheSet _ _ _ _) (L.onAlloc g k u hm hk hp)

theorem decodeBlock_keeps {g0 : G} {S : SkSymbol → Prop} {P : G → Prop} (L : LoadInv g0 S P) {g g' : G} {i : Nat} {b : Nat × Bool} {v : Nat}
    (hm : Mid g0 g) (hp : P g) (h : decodeBlock g i b = .ok (g', v)) : P g' := by
  unfold decodeBlock at h
  split at h
  · cases h
  · rename_i g1 v1 fresh hfp
    rcases fromProto_cases hfp with ⟨rfl, rfl, _, _⟩ | ⟨rfl, rfl, rfl, _⟩
    · simp only [Bool.false_eq_true, if_false] at h
      cases h; exact hp
    · simp only [if_true] at h
      cases h
      exact L.alloc_reg hm hp (if b.2 = true then Kind.code else Kind.data) (by cases b.2 <;> simp) _ _

theorem decodeProxy_keeps {g0 : G} {S : SkSymbol → Prop} {P : G → Prop} (L : LoadInv g0 S P) {g g' : G} {i u v : Nat}
    (hm : Mid g0 g) (hp : P g) (h : decodeProxy g i u = .ok (g', v)) : P g' := by
  unfold decodeProxy at h
  split at h
  · cases h
  · rename_i g1 v1 fresh hfp
    rcases fromProto_cases hfp with ⟨rfl, rfl, _, _⟩ | ⟨rfl, rfl, rfl, _⟩
    · simp only [Bool.false_eq_true, if_false] at h
      cases h; exact hp
    · simp only [if_true] at h
      cases h
      exact L.alloc_reg hm hp .proxy (by decide) _ _

/-- the shape of the per-element hypotheses below -/
abbrev DecSpec {α : Type} (g0 : G) (k : Nat) (K : Kind → Prop) (f : G → α → Except LErr (G × Nat)) : Prop :=
  ∀ (R : Nat → Prop) g a g' v, Mid g0 g → AllCov g0.n g R → f g a = .ok (g', v) → DecOk g0 k K R g g' v

abbrev DecInv {α : Type} (g0 : G) (P : G → Prop) (f : G → α → Except LErr (G × Nat)) : Prop :=
  ∀ (R : Nat → Prop) g a g' v, Mid g0 g → AllCov g0.n g R → P g → f g a = .ok (g', v) → P g'

theorem decodeList_keeps {α : Type} {f : G → α → Except LErr (G × Nat)} {g0 : G} {P : G → Prop} {k : Nat}
    {K : Kind → Prop} (hf : DecSpec g0 k K f) (hfi : DecInv g0 P f) :
    ∀ (as : List α) (R : Nat → Prop) (g g' : G) (vs : List Nat), Mid g0 g → AllCov g0.n g R → P g →
      decodeList f g as = .ok (g', vs) → P g' := by
  intro as
  induction as with
  | nil => intro R g g' vs _ _ hi h; cases h; exact hi
  | cons a as ih =>
    intro R g g' vs hm hc hi h
    simp only [decodeList] at h
    split at h
    · cases h
    · rename_i g1 v h1
      split at h
      · cases h
      · rename_i g2 vs' h2
        have d1 := hf R g a g1 v hm hc h1
        have := ih _ g1 g2 vs' d1.mid d1.cov (hfi R g a g1 v hm hc hi h1) h2
        cases h
        exact this

theorem decodeInterval_keeps {g0 : G} {S : SkSymbol → Prop} {P : G → Prop} (L : LoadInv g0 S P) (R : Nat → Prop) (g : G) (x : SkInterval)
    (g' : G) (v : Nat) (hm : Mid g0 g) (hc : AllCov g0.n g R) (hi : P g)
    (h : decodeInterval g g0.n x = .ok (g', v)) : P g' := by
  unfold decodeInterval at h
  split at h
  · cases h
  · rename_i g1 v1 fresh hfp
    rcases fromProto_cases hfp with ⟨rfl, rfl, _, _⟩ | ⟨rfl, rfl, rfl, _⟩
    · simp only [Bool.not_false, if_true] at h
      cases h; exact hi
    · simp only [Bool.not_true, Bool.false_eq_true, if_false] at h
      split at h
      · cases h
      · rename_i g2 bs hbs
        split at h
        · cases h
        · rename_i g3 hblk
          cases h
          have hm1 : Mid g0 (alloc g .interval x.uuid).1 := hm.of_alloc _ _ (by decide) (by decide)
          have hc1 := AllCov.alloc' hm hc .interval x.uuid rfl rfl
          have hi1 : P (alloc g .interval x.uuid).1 := L.onAlloc _ _ _ hm (by decide) hi
          rw [decodeBlocks_eq] at hbs
          have d := decodeList_ok (fun R g a g' v => decodeBlock_ok R g a g' v) _ _ _ _ _ hm1 hc1 hbs
          have hi2 : P g2 :=
            decodeList_keeps (fun R g a g' v => decodeBlock_ok R g a g' v)
              (fun _ g _ _ _ hm' _ hi' hh => decodeBlock_keeps L hm' hi' hh) _ _ _ _ _ hm1 hc1 hi1 hbs
          have hi3 : P g3 := L.onBlkUpdate _ _ _ _ d.mid hi2 (liftE_ok hblk)
          exact L.onCache _ _ (idx_oc_cacheAddInterval _ _ _) hi3

theorem decodeAttach_one {α : Type} {dec : G → Nat → α → Except LErr (G × Nat)} {i p : Nat} {s : Slot}
    {g g1 g2 : G} {a : α} {v : Nat} (h1 : dec g i a = .ok (g1, v)) (h2 : liftE (setAdd g1 p s v) = .ok g2) :
    decodeAttach dec i p s g [a] = .ok g2 := by
  simp only [decodeAttach, h1, h2]

/-- `decodeAttach` keeps `P`: each child is decoded (`hfi`) and added through the wrapper's `add` -/
theorem decodeAttach_keeps {α : Type} {dec : G → Nat → α → Except LErr (G × Nat)} {g0 : G} {S : SkSymbol → Prop}
    {P : G → Prop} (L : LoadInv g0 S P) {k : Nat} {K : Kind → Prop} {p : Nat} {s : Slot} {kp : Kind}
    (hf : DecSpec g0 k K (fun g a => dec g g0.n a)) (Q : α → Prop)
    (hfi : ∀ (R : Nat → Prop) g a g' v, Q a → Mid g0 g → AllCov g0.n g R → P g → dec g g0.n a = .ok (g', v) → P g')
    (hp0 : g0.n ≤ p) (hkp : kp ≠ .ir) (hrk : cache_rank kp ≤ k)
    (hK : ∀ kd, K kd → slotOf kd = some s ∧ parentKind kd = some kp) :
    ∀ (as : List α) (R : Nat → Prop) (g g' : G), (∀ a, a ∈ as → Q a) → Mid g0 g → AllCov g0.n g R → R p → p < g.n →
      g.par p = none → g.kind p = kp → P g → decodeAttach dec g0.n p s g as = .ok g' → P g' := by
  intro as
  induction as with
  | nil => intro R g g' _ _ _ _ _ _ _ hi h; cases h; exact hi
  | cons a as ih =>
    intro R g g' hQ hm hc hRp hpn hpp hkind hi h
    simp only [decodeAttach] at h
    split at h
    · cases h
    · rename_i g1 v h1
      split at h
      · cases h
      · rename_i g2 h2
        have d1 := hf R g a g1 v hm hc h1
        have hi1 : P g1 := hfi R g a g1 v (hQ a List.mem_cons_self) hm hc hi h1
        have hi2 : P g2 := L.onSetAdd _ _ _ _ _ d1.mid (hK _ d1.kind).1 hi1 (liftE_ok h2)
        obtain ⟨m2, c2, st⟩ := decodeAttach_ok hf hp0 hkp hrk hK [a] R g g2 hm hc hRp hpn hpp hkind
          (decodeAttach_one h1 h2)
        obtain ⟨q1, q2, q3⟩ := st.keep hpn (by rw [hkind]; exact Nat.le_refl _)
        exact ih R g2 g' (fun b hb => hQ b (List.mem_cons_of_mem _ hb)) m2 c2 hRp q1 (q2.trans hpp)
          (q3.trans hkind) hi2 h

theorem decodeSection_keeps {g0 : G} {S : SkSymbol → Prop} {P : G → Prop} (L : LoadInv g0 S P) (R : Nat → Prop) (g : G) (x : SkSection)
    (g' : G) (v : Nat) (hm : Mid g0 g) (hc : AllCov g0.n g R) (hi : P g)
    (h : decodeSection g g0.n x = .ok (g', v)) : P g' := by
  unfold decodeSection at h
  split at h
  · cases h
  · rename_i g1 v1 fresh hfp
    rcases fromProto_cases hfp with ⟨rfl, rfl, _, _⟩ | ⟨rfl, rfl, rfl, _⟩
    · simp only [Bool.not_false, if_true] at h
      cases h; exact hi
    · simp only [Bool.not_true, Bool.false_eq_true, if_false] at h
      split at h
      · cases h
      · rename_i g4 hatt
        cases h
        obtain ⟨a1, a2, _⟩ := fresh_reg hm hc .section x.uuid (by decide) (by decide)
        exact decodeAttach_keeps L (s := .bis) (kp := .section) (k := 3) (K := fun kd => kd = .interval)
          (fun R g a g' v => decodeInterval_ok R g a g' v) (fun _ => True)
          (fun R g a g' v _ => decodeInterval_keeps L R g a g' v)
          (Nat.le_of_lt hm.lt) (by decide) (by decide)
          (by intro kd hkd; subst hkd; exact ⟨rfl, rfl⟩) _ _ _ _ (fun _ _ => trivial) a1 a2 (.inr rfl) (Nat.lt_succ_self _)
          (by show (alloc g .section x.uuid).1.par g.n = _; simp)
          (by show (alloc g .section x.uuid).1.kind g.n = _; simp)
          (L.alloc_reg hm hi .section (by decide) _ _) hatt

/-- the states of a module message that is really decoded: `g4` proxies added, `g6` sections added (the
entry point is resolved here), `g8` symbols added (the symbols of the expressions are resolved here) -/
structure ModStages (g0 g : G) (R : Nat → Prop) (mu : Nat) (g4 g6 g8 : G) : Prop where
  mid4 : Mid g0 g4
  cov4 : AllCov g0.n g4 (fun r => R r ∨ r = g.n)
  at4 : g.n < g4.n ∧ g4.par g.n = none ∧ g4.kind g.n = .module
  mid6 : Mid g0 g6
  cov6 : AllCov g0.n g6 (fun r => R r ∨ r = g.n)
  at6 : g.n < g6.n ∧ g6.par g.n = none ∧ g6.kind g.n = .module
  mid8 : Mid g0 g8
  cov8 : AllCov g0.n g8 (fun r => R r ∨ r = g.n)
  at8 : g.n < g8.n ∧ g8.kind g.n = .module
  grows68 : Grows g6 g8
  grows08 : Grows g g8
  uuid8 : g8.uuid g.n = mu

theorem modStages {g0 g : G} {R : Nat → Prop} (hm : Mid g0 g) (hc : AllCov g0.n g R) (m : SkModule) {g4 g6 g8 : G}
    (hat4 : decodeAttach decodeProxy g0.n g.n .proxies (cacheSet (alloc g .module m.uuid).1 g0.n m.uuid g.n)
      m.proxies = .ok g4)
    (hat6 : decodeAttach decodeSection g0.n g.n .secs g4 m.sections = .ok g6)
    (hat8 : decodeAttach decodeSymbol g0.n g.n .syms g6 m.symbols = .ok g8) :
    ModStages g0 g R m.uuid g4 g6 g8 := by
  obtain ⟨a1, a2, a3⟩ := fresh_reg hm hc .module m.uuid (by decide) (by decide)
  have hM0 : g0.n ≤ g.n := Nat.le_of_lt hm.lt
  have hM2 : g.n < (cacheSet (alloc g .module m.uuid).1 g0.n m.uuid g.n).n := Nat.lt_succ_self _
  have hk2 : (cacheSet (alloc g .module m.uuid).1 g0.n m.uuid g.n).kind g.n = .module := by
    show (alloc g .module m.uuid).1.kind g.n = _; simp
  have hp2 : (cacheSet (alloc g .module m.uuid).1 g0.n m.uuid g.n).par g.n = none := by
    show (alloc g .module m.uuid).1.par g.n = _; simp
  have hu2 : (cacheSet (alloc g .module m.uuid).1 g0.n m.uuid g.n).uuid g.n = m.uuid := by
    show (alloc g .module m.uuid).1.uuid g.n = _; simp
  obtain ⟨m4, c4, s24⟩ := decodeAttach_ok (s := .proxies) (kp := .module) (k := 4)
    (K := fun kd => kd = .proxy)
    (fun R g a g' v => decodeProxy_ok R g a g' v) hM0 (by decide) (by decide)
    (by intro kd hkd; subst hkd; exact ⟨rfl, rfl⟩) _ _ _ _ a1 a2 (.inr rfl) hM2 hp2 hk2 hat4
  have s24' : Step 1 _ g4 := s24
  obtain ⟨hM4, hp4, hk4⟩ := s24'.keep hM2 (by rw [hk2]; decide)
  rw [hp2] at hp4; rw [hk2] at hk4
  obtain ⟨m6, c6, s46⟩ := decodeAttach_ok (s := .secs) (kp := .module) (k := 2)
    (K := fun kd => kd = .section)
    (fun R g a g' v => decodeSection_ok R g a g' v) hM0 (by decide) (by decide)
    (by intro kd hkd; subst hkd; exact ⟨rfl, rfl⟩) _ _ _ _ m4 c4 (.inr rfl) hM4 hp4 hk4 hat6
  have s46' : Step 1 g4 g6 := s46
  obtain ⟨hM6, hp6, hk6⟩ := s46'.keep hM4 (by rw [hk4]; decide)
  rw [hp4] at hp6; rw [hk4] at hk6
  obtain ⟨m8, c8, s68⟩ := decodeAttach_ok (s := .syms) (kp := .module) (k := 4)
    (K := fun kd => kd = .symbol)
    (fun R g a g' v => decodeSymbol_ok R g a g' v) hM0 (by decide) (by decide)
    (by intro kd hkd; subst hkd; exact ⟨rfl, rfl⟩) _ _ _ _ m6 c6 (.inr rfl) hM6 hp6 hk6 hat8
  have s68' : Step 1 g6 g8 := s68
  obtain ⟨hM8, _, hk8⟩ := s68'.keep hM6 (by rw [hk6]; decide)
  rw [hk6] at hk8
  have g28 := s24'.grows.trans (s46'.grows.trans s68'.grows)
  exact ⟨m4, c4, ⟨hM4, hp4, hk4⟩, m6, c6, ⟨hM6, hp6, hk6⟩, m8, c8, ⟨hM8, hk8⟩, s68'.grows,
    a3.grows.trans g28, by rw [(g28.2 g.n hM2).2]; exact hu2⟩

theorem decodeModule_keeps {g0 : G} {S : SkSymbol → Prop} {P : G → Prop} (L : LoadInv g0 S P) (R : Nat → Prop) (g : G) (m : SkModule)
    (g' : G) (v : Nat) (hS : ∀ x, x ∈ m.symbols → S x) (hm : Mid g0 g) (hc : AllCov g0.n g R) (hi : P g)
    (h : decodeModule g g0.n m = .ok (g', v)) : P g' := by
  unfold decodeModule at h
  split at h
  · cases h
  · rename_i g1 v1 fresh hfp
    rcases fromProto_cases hfp with ⟨rfl, rfl, _, _⟩ | ⟨rfl, rfl, rfl, _⟩
    · simp only [Bool.not_false, if_true] at h
      cases h; exact hi
    · simp only [Bool.not_true, Bool.false_eq_true, if_false] at h
      split at h
      · cases h
      · rename_i g4 hat4
        split at h
        · cases h
        · rename_i g6 hat6
          split at h
          · cases h
          · split at h
            · cases h
            · rename_i g8 hat8
              split at h
              · cases h
              · cases h
                have st := modStages hm hc m hat4 hat6 hat8
                obtain ⟨a1, a2, _⟩ := fresh_reg hm hc .module m.uuid (by decide) (by decide)
                have hM0 : g0.n ≤ g.n := Nat.le_of_lt hm.lt
                have hi2 := L.alloc_reg hm hi .module (by decide) m.uuid g0.n
                have hi4 : P g4 :=
                  decodeAttach_keeps L (s := .proxies) (kp := .module) (k := 4) (K := fun kd => kd = .proxy)
                    (fun R g a g' v => decodeProxy_ok R g a g' v) (fun _ => True)
                    (fun _ g _ _ _ _ hm' _ hi' hh => decodeProxy_keeps L hm' hi' hh) hM0 (by decide) (by decide)
                    (by intro kd hkd; subst hkd; exact ⟨rfl, rfl⟩) _ _ _ _ (fun _ _ => trivial) a1 a2 (.inr rfl) (Nat.lt_succ_self _)
                    (by show (alloc g .module m.uuid).1.par g.n = _; simp)
                    (by show (alloc g .module m.uuid).1.kind g.n = _; simp) hi2 hat4
                have hi6 : P g6 :=
                  decodeAttach_keeps L (s := .secs) (kp := .module) (k := 2) (K := fun kd => kd = .section)
                    (fun R g a g' v => decodeSection_ok R g a g' v) (fun _ => True)
                    (fun R g a g' v _ => decodeSection_keeps L R g a g' v) hM0 (by decide) (by decide)
                    (by intro kd hkd; subst hkd; exact ⟨rfl, rfl⟩) _ _ _ _ (fun _ _ => trivial) st.mid4 st.cov4 (.inr rfl)
                    st.at4.1 st.at4.2.1 st.at4.2.2 hi4 hat6
                exact
                  decodeAttach_keeps L (s := .syms) (kp := .module) (k := 4) (K := fun kd => kd = .symbol)
                    (fun R g a g' v => decodeSymbol_ok R g a g' v) S
                    (fun _ g _ _ _ hs' hm' _ hi' hh => L.onSymbol _ _ _ _ hs' hm' hi' hh) hM0 (by decide) (by decide)
                    (by intro kd hkd; subst hkd; exact ⟨rfl, rfl⟩) _ _ _ _ hS st.mid6 st.cov6 (.inr rfl)
                    st.at6.1 st.at6.2.1 st.at6.2.2 hi6 hat8

theorem decodeModules_keeps {g0 : G} {S : SkSymbol → Prop} {P : G → Prop} (L : LoadInv g0 S P) : ∀ (ms : List SkModule) (g g' : G),
    (∀ md, md ∈ ms → ∀ x, x ∈ md.symbols → S x) → Mid g0 g → AllAtt g0 g → P g →
    decodeModules g0.n g ms = .ok g' → P g' := by
  intro ms
  induction ms with
  | nil => intro g g' _ _ _ hi h; cases h; exact hi
  | cons m ms ih =>
    intro g g' hS hm ha hi h
    simp only [decodeModules] at h
    split at h
    · cases h
    · rename_i g1 v hdm
      split at h
      · cases h
      · rename_i g2 happ
        have d := decodeModule_ok _ g m g1 v hm (ha.cov hm) hdm
        have hi1 := decodeModule_keeps L _ g m g1 v (hS m List.mem_cons_self) hm (ha.cov hm) hi hdm
        obtain ⟨m2, a2⟩ := modAppend_outer d.mid d.new d.lt d.kind d.cov (liftE_ok happ)
        have hi2 : P g2 := L.onModAppend _ _ _ d.mid hi1 (liftE_ok happ)
        exact ih g2 g' (fun md hmd => hS md (List.mem_cons_of_mem _ hmd)) m2 a2 hi2 h

/-- a predicate kept by every elementary step and true after `IR.__init__` holds in the loaded state -/
theorem load_keeps {g g' : G} {S : SkSymbol → Prop} {P : G → Prop} (L : LoadInv g S P) {m : SkIR} {ir : Nat}
    (hS : ∀ md, md ∈ m.modules → ∀ x, x ∈ md.symbols → S x) (hf : ForestInv g)
    (h0 : P (mkIR g m.uuid)) (hl : load g m = .ok (g', ir)) : P g' := by
  unfold load at hl
  simp only [] at hl
  split at hl
  · cases hl
  · rename_i g2 hdm
    split at hl
    · cases hl
    · cases hl
      obtain ⟨m1, a1⟩ := mid_mkIR hf m.uuid
      exact decodeModules_keeps L m.modules _ _ hS m1 a1 h0 hdm

/-! ### the symbol indexes through the load -/

theorem idx_of_oc {g g' : G} (h : IdxOC g g') (hi : IndexInv g) : IndexInv g' := by
  obtain ⟨c, rfl⟩ := h
  exact ⟨hi.name_iff, hi.ref_iff, hi.name_nodup, hi.ref_nodup⟩

theorem idxSt_of {g : G} (hf : ForestInv g) (hi : IndexInv g) : IdxSt g.kind g :=
  ⟨hi, idx_side_of_forest hf, rfl⟩

/-- `Symbol._from_protobuf`: name and payload of the fresh, still detached symbol are written directly;
no index can contain it yet -/
theorem decodeSymbol_idx {g g' : G} {i : Nat} {x : SkSymbol} {v : Nat} (hf : ForestInv g) (hi : IndexInv g)
    (h : decodeSymbol g i x = .ok (g', v)) : IndexInv g' := by
  unfold decodeSymbol at h
  split at h
  · cases h
  · rename_i g1 v1 fresh hfp
    rcases fromProto_cases hfp with ⟨rfl, rfl, _, _⟩ | ⟨rfl, rfl, rfl, _⟩
    · simp only [Bool.not_false, if_true] at h
      cases h; exact hi
    · simp only [Bool.not_true, Bool.false_eq_true, if_false] at h
      split at h
      · cases h
      · rename_i pl hpl
        cases h
        have h3 := idx_st_alloc hf hi .symbol x.uuid
          (fun y => if y = g.n then x.name else (alloc g .symbol x.uuid).1.name y)
          (fun y => if y = g.n then pl else (alloc g .symbol x.uuid).1.payload y)
          (fun y hy => if_neg hy) (fun y hy => if_neg hy)
        exact idx_of_oc (idx_oc_cacheSet _ _ _ _) h3.1

/-- every elementary step of the loader keeps the symbol indexes exact: fresh nodes are in no collection; the
wrappers' `add` runs the index hooks of the public API; a fresh symbol gets name and payload while detached -/
theorem loadInv_index (g0 : G) : LoadInv g0 (fun _ => True) IndexInv where
  onAlloc := fun _ k u hm _ hi => (idx_st_alloc_plain hm.forest hi k u).1
  onCache := fun _ _ h hi => idx_of_oc h hi
  onSetAdd := fun _ _ _ _ _ hm hs hi h => (idx_st_setAdd (idxSt_of hm.forest hi) hs h).1
  onBlkUpdate := fun _ _ _ _ hm hi h => (idx_st_blkUpdate (idxSt_of hm.forest hi) h).1
  onModAppend := fun _ _ _ hm hi h => (idx_st_modAppend (idxSt_of hm.forest hi) h).1
  onSymbol := fun _ _ _ _ _ hm hi h => decodeSymbol_idx hm.forest hi h

/-- the symbol indexes of every module of the process (`_symbol_name_index`, `_symbol_referent_index`) equal
the scan after a load, whatever the message (duplicated UUIDs, re-used and moved symbols included) -/
theorem load_indexInv {g g' : G} {m : SkIR} {ir : Nat} (hf : ForestInv g) (hi : IndexInv g)
    (hl : load g m = .ok (g', ir)) : IndexInv g' :=
  load_keeps (loadInv_index g) (fun _ _ _ _ => trivial) hf
    (idx_st_oc (idx_oc_mkIR g m.uuid) (idx_st_alloc_plain hf hi .ir m.uuid)).1 hl

/-! ### C03: the load clause -/

/-- **C03, "for IRs produced by loading a file"** (and C04 / C10 for the loaded state). Loading a message
whose node UUIDs are pairwise distinct, in any process state that satisfies the invariants, yields a state
in which the UUID table of *every* IR is exact (`CacheInv`: `get_by_uuid` = scan, for the new IR and for all
the others), the forest is consistent, the hypothesis of C03 (`Distinct`) is kept, and the symbol indexes are
exact. (`hnd` is needed for `CacheInv` and `Distinct` only: with a duplicated UUID two attached nodes share
one key, `C17_load_dup_block_example`.) -/
theorem C03_load (g g' : G) (m : Loader.SkIR) (ir : Nat) (hf : ForestInv g) (hc : CacheInv g)
    (hl : Loader.load g m = .ok (g', ir)) (hnd : m.nodeUuids.Nodup) :
    ForestInv g' ∧ CacheInv g' ∧ (Distinct g → Distinct g') ∧ (IndexInv g → IndexInv g') := by
  obtain ⟨hdn, hex⟩ := C17_load_exact_nodup g g' m ir hf hl hnd
  obtain ⟨rfl, hm, ha, _⟩ := load_ok hf hl
  have hfr : ∀ x, x < g.n → g'.par x = g.par x ∧ g'.kind x = g.kind x :=
    fun x hx => ⟨(hm.frame x hx).1, (hm.frame x hx).2.1⟩
  have hold : ∀ x, x < g.n → irOf g' x = irOf g x := fun x hx => irOf_frame hf hfr hx
  refine ⟨hm.forest, ?_, ?_, fun hi => load_indexInv hf hi hl⟩
  · intro i u x
    by_cases hi : i = g.n
    · subst hi
      rw [hex u x]
      constructor
      · rintro ⟨h1, h2, h3⟩; exact ⟨hm.lt, hm.kind_ir, h1, h2, h3⟩
      · rintro ⟨_, _, h1, h2, h3⟩; exact ⟨h1, h2, h3⟩
    · rw [hm.rows i hi u, hc i u x]
      constructor
      · rintro ⟨h1, h2, h3, h4, h5⟩
        exact ⟨Nat.lt_trans h1 hm.lt, by rw [(hfr i h1).2]; exact h2, Nat.lt_trans h3 hm.lt,
          by rw [hold x h3]; exact h4, by rw [(hm.frame x h3).2.2.1]; exact h5⟩
      · rintro ⟨h1, h2, h3, h4, h5⟩
        have hx : x < g.n := by
          apply Classical.byContradiction
          intro hx
          have := ha x (by omega) h3
          rw [h4] at this
          exact hi (Option.some.inj this)
        have hi' : i < g.n := by
          apply Classical.byContradiction
          intro hi'
          exact hi (hm.only_ir i (by omega) h1 h2)
        exact ⟨hi', by rw [← (hfr i hi').2]; exact h2, hx, by rw [← hold x hx]; exact h4,
          by rw [← (hm.frame x hx).2.2.1]; exact h5⟩
  · intro hd a b i ha' hb' hia hib hab
    by_cases hao : a < g.n
    · by_cases hbo : b < g.n
      · rw [hold a hao] at hia; rw [hold b hbo] at hib
        rw [(hm.frame a hao).2.2.1, (hm.frame b hbo).2.2.1] at hab
        exact hd a b i hao hbo hia hib hab
      · have := ha b (by omega) hb'
        rw [hib] at this; cases this
        exact absurd hia (hm.old_not_att hao)
    · have := ha a (by omega) ha'
      rw [hia] at this; cases this
      have hbo : ¬ b < g.n := fun hbo => hm.old_not_att hbo hib
      exact hdn a b (by omega) ha' (by omega) hb' hab

/-- the first load of a process -/
theorem C03_load_init (g' : G) (m : SkIR) (ir : Nat) (hl : load {} m = .ok (g', ir)) (hnd : m.nodeUuids.Nodup) :
    ForestInv g' ∧ CacheInv g' ∧ Distinct g' ∧ IndexInv g' := by
  obtain ⟨h1, h2, h3, h4⟩ := C03_load {} g' m ir C04_init C03_init hl hnd
  refine ⟨h1, h2, h3 ?_, h4 C10_init⟩
  intro a b i ha; exact absurd ha (Nat.not_lt_zero a)

/-- **histories started from a loaded state** (C03, C04, C10): after a load in a state satisfying the
invariants, every history of well-typed public operations during which UUIDs stay pairwise distinct among the
nodes attached to one IR keeps every IR's UUID table exact, the forest consistent and the symbol indexes
exact. (`DistinctAlongFine g' ops` contains `Distinct g'`; by `C03_load` it holds for the loaded state as soon
as it held before the load.) -/
theorem C03_history_after_load (g g' : G) (m : SkIR) (ir : Nat) (hf : ForestInv g) (hc : CacheInv g)
    (hl : load g m = .ok (g', ir)) (hnd : m.nodeUuids.Nodup)
    (ops : List Op) (hops : OpsOK g' ops) (hd : DistinctAlongFine g' ops) :
    CacheInv (run g' ops) ∧ ForestInv (run g' ops) ∧ (IndexInv g → IndexInv (run g' ops)) := by
  obtain ⟨hf', hc', _, hi'⟩ := C03_load g g' m ir hf hc hl hnd
  have hforest : ∀ (pre : List Op), pre <+: ops → ForestInv (run g' pre) :=
    fun pre hpre => C04_run pre g' hf' (OpsOK_prefix pre ops g' hpre hops)
  exact ⟨C03_history_from ops g' hc' hops hd hforest, C04_run ops g' hf' hops,
    fun hi => C10_history_from g' (hi' hi) ops hops hforest⟩

/-- lookup = scan in every state reachable from a loaded state -/
theorem C03_lookup_after_load (g g' : G) (m : SkIR) (ir : Nat) (hf : ForestInv g) (hc : CacheInv g)
    (hl : load g m = .ok (g', ir)) (hnd : m.nodeUuids.Nodup)
    (ops : List Op) (hops : OpsOK g' ops) (hd : DistinctAlongFine g' ops) (i u x : Nat) :
    getByUuid (run g' ops) i u = some x ↔
      (i < (run g' ops).n ∧ (run g' ops).kind i = .ir ∧ x < (run g' ops).n ∧
       irOf (run g' ops) x = some i ∧ (run g' ops).uuid x = u) :=
  C03_lookup_iff _ (C03_history_after_load g g' m ir hf hc hl hnd ops hops hd).1 i u x

/-- C04 / C10 alone need no hypothesis on UUIDs: any message, any history -/
theorem C04_C10_history_after_load (g g' : G) (m : SkIR) (ir : Nat) (hf : ForestInv g) (hi : IndexInv g)
    (hl : load g m = .ok (g', ir)) (ops : List Op) (hops : OpsOK g' ops) :
    ForestInv (run g' ops) ∧ IndexInv (run g' ops) := by
  have hf' : ForestInv g' := (C17_load_coherent' g g' m ir hf hl).2.2.1
  have hforest : ∀ (pre : List Op), pre <+: ops → ForestInv (run g' pre) :=
    fun pre hpre => C04_run pre g' hf' (OpsOK_prefix pre ops g' hpre hops)
  exact ⟨C04_run ops g' hf' hops, C10_history_from g' (load_indexInv hf hi hl) ops hops hforest⟩

/-! ### non-vacuity -/

/-- a message with all node kinds and all four reference kinds: proxy 20; section 30 / interval 31 with
code block 32 and data block 33; symbols 40 (referent: code block 32), 41 (referent: proxy 20), 42 (value);
entry point 32; an expression using symbol 40; an edge 32 -> 20 -/
def skFull : SkIR :=
  { uuid := 1,
    modules := [{ uuid := 10, proxies := [20],
                  sections := [{ uuid := 30, intervals := [{ uuid := 31, blocks := [(32, true), (33, false)] }] }],
                  symbols := [{ uuid := 40, name := 7, payload := .ref 32 }, { uuid := 41, name := 7, payload := .ref 20 },
                              { uuid := 42, name := 8, payload := .int 5 }],
                  entry := some 32, exprSyms := [40] }],
    edges := [(32, 20)] }

def loadOk (r : Except LErr (G × Nat)) : Bool :=
  match r with
  | .ok _ => true
  | .error _ => false

theorem skFull_loads : loadOk (load {} skFull) = true := by decide

theorem skFull_nodup : skFull.nodeUuids.Nodup := by decide

/-- `C03_load` is not vacuous: `skFull` is accepted and its node UUIDs are pairwise distinct -/
example : ∃ g' ir, load {} skFull = .ok (g', ir) ∧ ForestInv g' ∧ CacheInv g' ∧ Distinct g' ∧ IndexInv g' := by
  cases h : load {} skFull with
  | error e => have := skFull_loads; rw [h] at this; cases this
  | ok r => exact ⟨r.1, r.2, rfl, C03_load_init r.1 skFull r.2 h skFull_nodup⟩

/-- what the loaded state answers: the table of the new IR (node 0) maps UUID 32 to the code block (node 5);
module node 1 indexes symbols 7, 8 (nodes) under name 7 and symbol 7 under referent 5; a second load of the
same message into that state (IR node 10) leaves the first IR's table alone and answers with its own nodes -/
example :
    (match load {} skFull with
      | .ok (g, ir) => some (ir, getByUuid g ir 32, symbolsNamed g 1 7, references g 5, getByUuid g ir 99)
      | .error _ => none) = some (0, some 5, [7, 8], [7], none) ∧
    (match load {} skFull with
      | .ok (g, _) =>
        (match load g skFull with
          | .ok (g2, ir2) => some (ir2, getByUuid g2 0 32, getByUuid g2 ir2 32, symbolsNamed g2 11 7)
          | .error _ => none)
      | .error _ => none) = some (10, some 5, some 15, [17, 18]) := by decide

end Gtirb.Loader
