import GtirbProofs.Props.C03Full
/-! C03 as worded: `ir.get_by_uuid(u)` equals the *scan over the owning collections*.

`C03_lookup_iff` characterises the lookup through the chained back-pointer accessor `irOf`;
the property speaks about reachability "through containment", i.e. through the collections
(`reachable`, `scanByUuid` in `Forest.lean`: computed from `kids` only). The bridge is
`C04_reachable_iff`. This file composes the two (review `graph`, proposal P9). -/
namespace Gtirb.Forest

/-- everything found by walking the collections from an IR is allocated -/
theorem C03_reachable_lt (g : G) (hf : ForestInv g) (i x : Nat) (hi : i < g.n) (hk : g.kind i = .ir)
    (hx : x ∈ reachable g i) : x < g.n := by
  have hir : irOf g x = some i := (C04_reachable_iff g hf i x hk).1 hx
  cases hp : g.par x with
  | some p => exact (hf.alloc x p hp).1
  | none =>
    -- a root: `irOf` answers only for an IR node, which is then `i` itself
    unfold irOf at hir
    cases hkx : g.kind x <;> rw [hkx] at hir <;> simp [hp] at hir
    subst hir; exact hi

/-- lookup = scan over the owning collections (P9): for an allocated IR node `i`, the table answers
`x` for `u` iff the walk over `modules / sections / byte_intervals / blocks / symbols / proxies`
from `i` meets `x` and `x.uuid == u` -/
theorem C03_lookup_scan (g : G) (hf : ForestInv g) (hc : CacheInv g) (i u x : Nat) (hi : i < g.n)
    (hk : g.kind i = .ir) : getByUuid g i u = some x ↔ x ∈ scanByUuid g i u := by
  rw [C03_lookup_iff g hc i u x]
  unfold scanByUuid
  rw [List.mem_filter, C04_reachable_iff g hf i x hk]
  constructor
  · rintro ⟨_, _, _, h4, h5⟩
    exact ⟨h4, by simpa using h5⟩
  · rintro ⟨h4, h5⟩
    refine ⟨hi, hk, ?_, h4, by simpa using h5⟩
    exact C03_reachable_lt g hf i x hi hk ((C04_reachable_iff g hf i x hk).2 h4)

/-- under the property's hypothesis the scan has at most one hit, so the lookup is *the* element of
the scan: `get_by_uuid` returns `x` iff the scan is exactly `[x]`, and `None` iff the scan is empty -/
theorem C03_scan_unique (g : G) (hf : ForestInv g) (hd : Distinct g) (i u x y : Nat) (hi : i < g.n)
    (hk : g.kind i = .ir) (hx : x ∈ scanByUuid g i u) (hy : y ∈ scanByUuid g i u) : x = y := by
  unfold scanByUuid at hx hy
  rw [List.mem_filter] at hx hy
  have hxi := (C04_reachable_iff g hf i x hk).1 hx.1
  have hyi := (C04_reachable_iff g hf i y hk).1 hy.1
  have hxu : g.uuid x = u := by simpa using hx.2
  have hyu : g.uuid y = u := by simpa using hy.2
  exact hd x y i (C03_reachable_lt g hf i x hi hk hx.1) (C03_reachable_lt g hf i y hi hk hy.1) hxi hyi
    (hxu.trans hyu.symm)

theorem C03_lookup_scan_none (g : G) (hf : ForestInv g) (hc : CacheInv g) (i u : Nat) (hi : i < g.n)
    (hk : g.kind i = .ir) : getByUuid g i u = none ↔ scanByUuid g i u = [] := by
  constructor
  · intro h
    apply List.eq_nil_iff_forall_not_mem.2
    intro x hx
    have := (C03_lookup_scan g hf hc i u x hi hk).2 hx
    rw [h] at this; cases this
  · intro h
    cases hx : getByUuid g i u with
    | none => rfl
    | some x =>
      have := (C03_lookup_scan g hf hc i u x hi hk).1 hx
      rw [h] at this; cases this

/-- in every reachable state (history form) -/
theorem C03_lookup_scan_history (ops : List Op) (hops : OpsOK {} ops) (hd : DistinctAlongFine {} ops)
    (i u x : Nat) (hi : i < (run {} ops).n) (hk : (run {} ops).kind i = .ir) :
    getByUuid (run {} ops) i u = some x ↔ x ∈ scanByUuid (run {} ops) i u :=
  C03_lookup_scan _ (C04_history ops hops) (C03_history_full ops hops hd) i u x hi hk

/-! ### non-vacuity: IR 0 (uuid 100), module 1 (uuid 101), symbol 2 (uuid 5) in it, detached symbol 3
(uuid 5): the scan for uuid 5 from IR 0 walks `modules` then `symbols` and finds node 2 only -/

example : scanByUuid (run {} cacheCexOps) 0 5 = [2] ∧ getByUuid (run {} cacheCexOps) 0 5 = some 2 ∧
    scanByUuid (run {} cacheCexOps) 0 101 = [1] ∧ getByUuid (run {} cacheCexOps) 0 101 = some 1 ∧
    scanByUuid (run {} cacheCexOps) 0 7 = [] ∧ getByUuid (run {} cacheCexOps) 0 7 = none := by decide

end Gtirb.Forest
