import GtirbModel.AuxTable
import GtirbProofs.Props.C07
/-! C14: what `save` writes for one AuxData table.

(1) a table that is loaded and saved without its data being read is written back
byte for byte under the same type name, whatever the type name is;
(2) once the value was read, replaced, or the type name changed, `save` writes the
encoding of the current value under the current type name;
(3) a table whose decoding *reaches* a head without codec becomes `UnknownData` and
keeps its bytes; the corner where decoding never reaches the unknown head is a
counterexample (`C14_unknown_counterexample`). -/
namespace Gtirb.AuxTable
open Gtirb.Codec

/-! ### (1) untouched tables -/

/-- (1) untouched tables: any name (parseable or not), any bytes -/
theorem C14_untouched (lookup : Bytes → Option Nat) (nu : Nat → Bytes) (name : String)
    (bs : Bytes) :
    save lookup nu (load name bs) = (load name bs, .ok (name, bs)) := by
  simp [save, load]

/-- re-assigning the same type name to a still-lazy table changes nothing -/
theorem C14_untouched_same_name (lookup : Bytes → Option Nat) (nu : Nat → Bytes) (name : String)
    (bs : Bytes) :
    save lookup nu (assignType (load name bs) name) = (load name bs, .ok (name, bs)) := by
  simp [save, load, assignType]

/-- one generation: load, re-assign the same type name, save, take what was written -/
def generation (lookup : Bytes → Option Nat) (nu : Nat → Bytes) (name : String) (bs : Bytes) :
    Option (String × Bytes) :=
  match (save lookup nu (assignType (load name bs) name)).2 with
  | .ok out => some out
  | .error _ => none

/-- `n` generations of load / (assign the same type name) / save, each one loading what
the previous one wrote -/
def generations (lookup : Bytes → Option Nat) (nu : Nat → Bytes) :
    Nat → String → Bytes → Option (String × Bytes)
  | 0, name, bs => some (name, bs)
  | n + 1, name, bs =>
    match generation lookup nu name bs with
    | some (name', bs') => generations lookup nu n name' bs'
    | none => none

theorem C14_untouched_generations (lookup : Bytes → Option Nat) (nu : Nat → Bytes)
    (name : String) (bs : Bytes) (n : Nat) :
    generations lookup nu n name bs = some (name, bs) := by
  induction n with
  | zero => rfl
  | succ n ih =>
    simp [generations, generation, C14_untouched_same_name, ih]

/-! ### every path that hands the value out or replaces it drops the raw bytes -/

theorem C14_read_drops_raw (lookup : Bytes → Option Nat) (t t' : Table) (d : Data)
    (h : read lookup t = .ok (t', d)) :
    t'.raw = none ∧ t'.data = some d ∧ t'.typeName = t.typeName := by
  unfold read at h
  split at h
  · split at h
    · cases h; simp
    · cases h
  · rename_i hraw
    split at h
    · rename_i hd
      cases h
      exact ⟨hraw, hd, rfl⟩
    · cases h

/-- a failed read leaves `save` with nothing to drop: the state is unchanged -/
theorem C14_save_read_error_state (lookup : Bytes → Option Nat) (nu : Nat → Bytes) (t : Table)
    (hr : ∃ e', read lookup t = .error e') : (save lookup nu t).1 = t := by
  obtain ⟨e', hr⟩ := hr
  unfold save
  split
  · split
    · rfl
    · simp [hr]
  · split
    · split <;> rfl
    · rfl

/-- a lazy table whose type name changed and whose bytes do not decode under the name they
were loaded with: `save` returns the table unchanged and that error -/
theorem C14_save_read_error (lookup : Bytes → Option Nat) (nu : Nat → Bytes) (t : Table)
    (bs : Bytes) (tn : String) (e : Err)
    (hraw : t.raw = some (bs, tn)) (hne : t.typeName ≠ tn) (hr : read lookup t = .error e) :
    save lookup nu t = (t, .error e) := by
  unfold save
  simp [hraw, hne, hr]

/-- the state `save` leaves behind is the table itself or the table `read` leaves behind -/
theorem C14_save_state (lookup : Bytes → Option Nat) (nu : Nat → Bytes) (t : Table) :
    (save lookup nu t).1 = t ∨ ∃ d, read lookup t = .ok ((save lookup nu t).1, d) := by
  unfold save
  split
  · split
    · exact .inl rfl
    · split
      · rename_i t' d hrd
        right
        refine ⟨d, ?_⟩
        split <;> exact hrd
      · exact .inl rfl
  · split
    · split <;> exact .inl rfl
    · exact .inl rfl

theorem C14_assign_drops_raw (t : Table) (d : Data) :
    (assignData t d).raw = none ∧ (assignData t d).data = some d ∧
      (assignData t d).typeName = t.typeName := by
  simp [assignData]

/-! ### (2) the current value under the current name -/

theorem encodeTop_val (nu : Nat → Bytes) (name : String) (ty : Ty) (v : Val)
    (hty : tyOfName name = some ty) :
    encodeTop nu name (.val v) =
      (match encode nu ty v with | some bs => .ok bs | none => .error .encode) := by
  unfold tyOfName at hty
  unfold encodeTop
  split at hty
  · rename_i tr hp
    simp only [hp, hty]
    cases encode nu ty v <;> rfl
  · cases hty

theorem decodeTop_eq (lookup : Bytes → Option Nat) (name : String) (ty : Ty) (bs : Bytes)
    (hty : tyOfName name = some ty) :
    decodeTop lookup name bs =
      (match decode lookup ty bs with
       | .ok (v, _) => .ok (.val v)
       | .unknownCodec _ => .ok (.unknownData bs)
       | .short => .error (.decode "short")
       | .badUtf8 => .error (.decode "utf8")
       | .badIndex => .error (.decode "index")
       | .badArity => .error .unsupported) := by
  unfold tyOfName at hty
  unfold decodeTop
  split at hty
  · rename_i tr hp
    simp only [hp, hty]
    rcases decode lookup ty bs with ⟨v, r⟩ | _ | _ | _ | _ | _ <;> rfl
  · cases hty

theorem decodeTop_ok (lookup : Bytes → Option Nat) (name : String) (ty : Ty) (v : Val)
    (bs rest : Bytes) (hty : tyOfName name = some ty) (hdec : decode lookup ty bs = .ok (v, rest)) :
    decodeTop lookup name bs = .ok (.val v) := by
  unfold tyOfName at hty
  unfold decodeTop
  split at hty
  · rename_i tr hp
    simp [hp, hty, hdec]
  · cases hty

/-- (2) once the value was read / replaced, save writes the encoding of the CURRENT value
under the CURRENT name -/
theorem C14_current (lookup : Bytes → Option Nat) (nu : Nat → Bytes) (t : Table) (v : Val)
    (ty : Ty) (bs : Bytes)
    (hraw : t.raw = none) (hd : t.data = some (.val v)) (hty : tyOfName t.typeName = some ty)
    (henc : encode nu ty v = some bs) : (save lookup nu t).2 = .ok (t.typeName, bs) := by
  unfold save
  simp [hraw, hd, encodeTop_val nu _ ty v hty, henc]

/-- (2) the state is left as it is, and a value that does not fit the current type is an
encode error, never the old bytes -/
theorem C14_current_full (lookup : Bytes → Option Nat) (nu : Nat → Bytes) (t : Table) (d : Data)
    (hraw : t.raw = none) (hd : t.data = some d) :
    save lookup nu t =
      (t, match encodeTop nu t.typeName d with
          | .ok out => .ok (t.typeName, out)
          | .error e => .error e) := by
  unfold save
  simp only [hraw, hd]
  cases encodeTop nu t.typeName d <;> rfl

/-- (2) after any successful read (of a lazy table or of an already decoded one) `save` writes
the encoding of the value that was handed out, under the current type name, and leaves the
state alone; the loaded bytes are not consulted -/
theorem C14_read_then_save (lookup : Bytes → Option Nat) (nu : Nat → Bytes) (t t' : Table)
    (d : Data) (h : read lookup t = .ok (t', d)) :
    save lookup nu t' =
      (t', match encodeTop nu t.typeName d with
           | .ok out => .ok (t.typeName, out)
           | .error e => .error e) := by
  obtain ⟨hraw, hd, hn⟩ := C14_read_drops_raw lookup t t' d h
  rw [C14_current_full lookup nu t' d hraw hd, hn]

/-- (2) `assignData` then `save`: the encoding of the new value, whatever was loaded -/
theorem C14_assign_save (lookup : Bytes → Option Nat) (nu : Nat → Bytes) (t : Table) (v : Val)
    (ty : Ty) (bs : Bytes) (hty : tyOfName t.typeName = some ty)
    (henc : encode nu ty v = some bs) :
    (save lookup nu (assignData t (.val v))).2 = .ok (t.typeName, bs) :=
  C14_current lookup nu (assignData t (.val v)) v ty bs rfl rfl hty henc

/-- a type-name change on a still-lazy table decodes under the OLD name and encodes under
the NEW one -/
theorem C14_retype (lookup : Bytes → Option Nat) (nu : Nat → Bytes) (name name' : String)
    (bs : Bytes) (d : Data) (hne : name' ≠ name)
    (hdec : decodeTop lookup name bs = .ok d) :
    (save lookup nu (assignType (load name bs) name')).2 =
      (match encodeTop nu name' d with | .ok out => .ok (name', out) | .error e => .error e) := by
  unfold save
  simp only [assignType, load, read, hdec, if_neg hne]
  cases encodeTop nu name' d <;> rfl

/-- read then save of a supported, well-typed, canonically encoded table gives the same
bytes back (uses `C07_roundtrip`) -/
theorem C14_read_save_canonical (lookup : Bytes → Option Nat) (nu : Nat → Bytes) (name : String)
    (ty : Ty) (v : Val) (bs : Bytes) (hty : tyOfName name = some ty)
    (hv : hasType lookup nu ty v = true) (henc : encode nu ty v = some bs) :
    ∃ t', read lookup (load name bs) = .ok (t', .val v) ∧
      (save lookup nu t').2 = .ok (name, bs) := by
  obtain ⟨bs', hb, hdec⟩ := C07_roundtrip lookup nu ty v hv
  rw [henc] at hb
  cases hb
  have hdec' : decode lookup ty bs = .ok (v, []) := by simpa using hdec []
  have htop := decodeTop_ok lookup name ty v bs [] hty hdec'
  refine ⟨{ typeName := name, raw := none, data := some (.val v) }, ?_, ?_⟩
  · simp [read, load, htop]
  · exact C14_current lookup nu { typeName := name, raw := none, data := some (.val v) } v ty bs
      rfl rfl hty henc

/-! ### (3) names without codec -/

theorem decodeTop_unknown (lookup : Bytes → Option Nat) (name : String) (bs b : Bytes)
    (hdec : decodeTop lookup name bs = .ok (.unknownData b)) : b = bs := by
  unfold decodeTop at hdec
  split at hdec
  · cases hdec
  · split at hdec
    · cases hdec
    · split at hdec <;> cases hdec
      rfl

/-- (3, provable part) if decoding REACHES a head without codec the table becomes
`UnknownData` and its bytes are written verbatim, after a read, under any later type name -/
theorem C14_unknown_verbatim_partial (lookup : Bytes → Option Nat) (nu : Nat → Bytes)
    (name : String) (bs : Bytes) (d : Data) (hdec : decodeTop lookup name bs = .ok d)
    (hunk : ∃ b, d = .unknownData b) :
    d = .unknownData bs ∧
    ∀ t', read lookup (load name bs) = .ok (t', d) →
      (save lookup nu t').2 = .ok (name, bs) ∧
      ∀ name'', (save lookup nu (assignType t' name'')).2 = .ok (name'', bs) := by
  obtain ⟨b, rfl⟩ := hunk
  have hb := decodeTop_unknown lookup name bs b hdec
  subst hb
  refine ⟨rfl, ?_⟩
  intro t' hr
  simp only [read, load, hdec] at hr
  cases hr
  simp [save, assignType, encodeTop]

/-- (3) decoding reaches the unknown head exactly when the codec decoder says so -/
theorem C14_unknown_reached_iff (lookup : Bytes → Option Nat) (name : String) (ty : Ty)
    (bs : Bytes) (hty : tyOfName name = some ty) :
    (∃ b, decodeTop lookup name bs = .ok (.unknownData b)) ↔
      ∃ nm, decode lookup ty bs = .unknownCodec nm := by
  unfold tyOfName at hty
  unfold decodeTop
  split at hty
  · rename_i tr hp
    simp only [hp, hty]
    constructor
    · rintro ⟨b, h⟩
      split at h
      · cases h
      · exact ⟨_, ‹_›⟩
      all_goals cases h
    · rintro ⟨nm, h⟩
      simp [h]
  · cases hty

/-! ### (3, the false corner) -/

section Counterexample
open Gtirb.TypeName

/-- a type that mentions the head `foo`, which has no codec, below a sequence -/
def cexName : String := "tuple<set<uint8_t>,sequence<foo>>"
def cexTree : Tree :=
  .node "tuple".toList [.node "set".toList [.node "uint8_t".toList []],
    .node "sequence".toList [.node "foo".toList []]]
def cexTy : Ty := .tuple [.set (.leaf .u8), .seq (.unknown "foo" [])]
/-- the set lists the element 5 twice; the sequence is empty, so decoding never reaches `foo` -/
def cexBytes : Bytes := u64 2 ++ [5, 5] ++ u64 0
def cexVal : Val := .tuple [.set [.int 5], .seq []]
def cexOut : Bytes := u64 1 ++ [5] ++ u64 0

theorem cex_parse : parseType cexName.toList = some cexTree := by
  simp [cexName, cexTree, parseType, tokenize, tokenizeAux, isDelim, delimTok, parseT, parseArgs]

theorem cex_tree : tyOfTree cexTree = some cexTy := by
  simp [cexTree, cexTy, tyOfTree, tysOfTrees, leafOfName]

theorem cex_ty : tyOfName cexName = some cexTy := by
  simp only [tyOfName, cex_parse, cex_tree]

theorem cex_decode : decode (fun _ => none) cexTy cexBytes = .ok (cexVal, []) := by rfl
theorem cex_encode : encode (fun _ => []) cexTy cexVal = some cexOut := by decide
theorem cex_ne : cexOut ≠ cexBytes := by decide

/-- (3, the false corner) a concrete table whose type mentions an unknown head that decoding
never reaches, with a non-canonical but decodable encoding: read + save rewrites the bytes -/
theorem C14_unknown_counterexample : ∃ name bs t' d out,
    read (fun _ => none) (load name bs) = .ok (t', d) ∧
    (save (fun _ => none) (fun _ => []) t').2 = .ok (name, out) ∧ out ≠ bs := by
  refine ⟨cexName, cexBytes, { typeName := cexName, raw := none, data := some (.val cexVal) },
    .val cexVal, cexOut, ?_, ?_, cex_ne⟩
  · simp only [read, load, decodeTop_eq _ _ _ _ cex_ty, cex_decode]
  · exact C14_current _ _ _ cexVal cexTy cexOut rfl rfl cex_ty cex_encode

/-- the same corner spelled out: the type name does mention a head without codec, the bytes
are written back untouched as long as the data is not read, and are rewritten once it is -/
theorem C14_unknown_counterexample_explicit :
    tyOfName cexName = some (.tuple [.set (.leaf .u8), .seq (.unknown "foo" [])]) ∧
    cexBytes = [2, 0, 0, 0, 0, 0, 0, 0, 5, 5, 0, 0, 0, 0, 0, 0, 0, 0] ∧
    (save (fun _ => none) (fun _ => []) (load cexName cexBytes)).2 = .ok (cexName, cexBytes) ∧
    ∃ t', read (fun _ => none) (load cexName cexBytes) = .ok (t', .val (.tuple [.set [.int 5], .seq []])) ∧
      (save (fun _ => none) (fun _ => []) t').2 =
        .ok (cexName, [1, 0, 0, 0, 0, 0, 0, 0, 5, 0, 0, 0, 0, 0, 0, 0, 0]) := by
  refine ⟨cex_ty, by decide, by rw [C14_untouched],
    { typeName := cexName, raw := none, data := some (.val cexVal) }, ?_, ?_⟩
  · simp only [read, load, decodeTop_eq _ _ _ _ cex_ty, cex_decode]; rfl
  · exact C14_current _ _ _ cexVal cexTy _ rfl rfl cex_ty cex_encode

end Counterexample

/-! ### non-vacuity -/

section Examples
open Gtirb.TypeName

def exName : String := "mapping<uint8_t,sequence<int16_t>>"
def exTy : Ty := .map (.leaf .u8) (.seq (.leaf .i16))
/-- `{7: [-2, 1]}` -/
def exBytes : Bytes := u64 1 ++ [7] ++ u64 2 ++ [0xfe, 0xff, 0x01, 0x00]
def exVal : Val := .map [.int 7] [.seq [.int (-2), .int 1]]
/-- `{7: [], 9: [3]}` -/
def exVal' : Val := .map [.int 7, .int 9] [.seq [], .seq [.int 3]]
def exBytes' : Bytes := u64 2 ++ [7] ++ u64 0 ++ [9] ++ u64 1 ++ [3, 0]

theorem ex_ty : tyOfName exName = some exTy := by
  have hp : parseType exName.toList = some (.node "mapping".toList [.node "uint8_t".toList [],
      .node "sequence".toList [.node "int16_t".toList []]]) := by
    simp [exName, parseType, tokenize, tokenizeAux, isDelim, delimTok, parseT, parseArgs]
  simp only [tyOfName, hp]
  simp [exTy, tyOfTree, tysOfTrees, leafOfName]

/-- the table is read ... -/
example : read (fun _ => none) (load exName exBytes) =
    .ok ({ typeName := exName, raw := none, data := some (.val exVal) }, .val exVal) := by
  have hd : decode (fun _ => none) exTy exBytes = .ok (exVal, []) := by rfl
  simp only [read, load, decodeTop_eq _ _ _ _ ex_ty, hd]

/-- ... saved after the read: the same bytes, because they were canonical (`C14_read_save_canonical`
applies: the value has the type and the bytes are its encoding) ... -/
example : ∃ t', read (fun _ => none) (load exName exBytes) = .ok (t', .val exVal) ∧
    (save (fun _ => none) (fun _ => []) t').2 = .ok (exName, exBytes) :=
  C14_read_save_canonical _ _ exName exTy exVal exBytes ex_ty (by decide) (by decide)

/-- ... given another value and saved: the encoding of the new value -/
example : (save (fun _ => none) (fun _ => [])
    (assignData { typeName := exName, raw := none, data := some (.val exVal) } (.val exVal'))).2 =
    .ok (exName, [2, 0, 0, 0, 0, 0, 0, 0, 7, 0, 0, 0, 0, 0, 0, 0, 0, 9, 1, 0, 0, 0, 0, 0, 0, 0, 3, 0]) :=
  C14_assign_save _ _ _ exVal' exTy _ ex_ty (by decide)

/-- the same on the still-lazy table: assigning drops the loaded bytes without decoding them -/
example : (save (fun _ => none) (fun _ => []) (assignData (load exName exBytes) (.val exVal'))).2 =
    .ok (exName, exBytes') :=
  C14_assign_save _ _ (load exName exBytes) exVal' exTy _ ex_ty (by decide)

/-- a value that does not fit the current type is an encode error, not the old bytes -/
example : (save (fun _ => none) (fun _ => [])
    (assignData (load exName exBytes) (.val (.map [.int 256] [.seq []])))).2 = .error .encode := by
  rw [C14_current_full _ _ _ (.val (.map [.int 256] [.seq []])) rfl rfl]
  have he : encode (fun _ => []) exTy (.map [.int 256] [.seq []]) = none := by decide
  simp only [assignData, load, encodeTop_val _ _ _ _ ex_ty, he]

/-- untouched tables with a malformed name, and with a name without codec, across 3 generations -/
example : generations (fun _ => none) (fun _ => []) 3 "mapping<<" [1, 2, 3] =
    some ("mapping<<", [1, 2, 3]) := C14_untouched_generations _ _ _ _ _
example : save (fun _ => none) (fun _ => []) (load "sequence<foo<bar>>" [9, 9]) =
    (load "sequence<foo<bar>>" [9, 9], .ok ("sequence<foo<bar>>", [9, 9])) := C14_untouched _ _ _ _

/-- `sequence<foo>` with one element: decoding reaches `foo`, the hypothesis of
`C14_unknown_verbatim_partial` is met -/
example : decodeTop (fun _ => none) "sequence<foo>" (u64 1 ++ [1, 2, 3]) =
    .ok (.unknownData (u64 1 ++ [1, 2, 3])) := by
  have hp : parseType "sequence<foo>".toList = some (.node "sequence".toList [.node "foo".toList []]) := by
    simp [parseType, tokenize, tokenizeAux, isDelim, delimTok, parseT, parseArgs]
  have ht : tyOfName "sequence<foo>" = some (.seq (.unknown "foo" [])) := by
    simp only [tyOfName, hp]
    simp [tyOfTree, tysOfTrees, leafOfName]
  have hd : decode (fun _ => none) (.seq (.unknown "foo" [])) (u64 1 ++ [1, 2, 3]) = .unknownCodec "foo" := by
    rfl
  simp only [decodeTop_eq _ _ _ _ ht, hd]

/-- a retyped lazy table: `uint8_t` bytes re-encoded as `uint16_t` -/
example : (save (fun _ => none) (fun _ => []) (assignType (load "uint8_t" [7]) "uint16_t")).2 =
    .ok ("uint16_t", [7, 0]) := by
  have hp8 : parseType "uint8_t".toList = some (.node "uint8_t".toList []) := by
    simp [parseType, tokenize, tokenizeAux, isDelim, parseT]
  have hp16 : parseType "uint16_t".toList = some (.node "uint16_t".toList []) := by
    simp [parseType, tokenize, tokenizeAux, isDelim, parseT]
  have ht8 : tyOfName "uint8_t" = some (.leaf .u8) := by
    simp only [tyOfName, hp8]; simp [tyOfTree, tysOfTrees, leafOfName]
  have ht16 : tyOfName "uint16_t" = some (.leaf .u16) := by
    simp only [tyOfName, hp16]; simp [tyOfTree, tysOfTrees, leafOfName]
  have hd : decodeTop (fun _ => none) "uint8_t" [7] = .ok (.val (.int 7)) :=
    decodeTop_ok _ _ (.leaf .u8) (.int 7) [7] [] ht8 (by rfl)
  rw [C14_retype _ _ "uint8_t" "uint16_t" [7] _ (by decide) hd]
  have he : encode (fun _ => []) (.leaf .u16) (.int 7) = some [7, 0] := by decide
  simp only [encodeTop_val _ _ _ _ ht16, he]

end Examples

end Gtirb.AuxTable
