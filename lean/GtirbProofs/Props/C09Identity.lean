import GtirbModel.LoaderRefs
import GtirbProofs.Props.C03Load
/-! Property C09 at the level of the staged decoder: "symbol referents, module entry points, CFG edge
endpoints and the symbols of symbolic expressions are the very objects reachable through the containment
tree" (review `msg`, findings F-D / F-E).

`Loader.load` checks entry points, expression symbols and edge ends and drops them; `LoaderRefs.loadR` does
the same steps and keeps the node each reference resolved to (in the table as filled so far). This file:

1. `C09_loadR_load`: `loadR` projects onto `load`, so every theorem about `load` transfers.
2. `C09_loadR_sound` (any message): every recorded node is a node created by this load, of the required
   kind, carrying the UUID the message names, attached to the loaded IR in the final state; edge ends are in
   addition what the final table answers. `C09_loadR_identity` (pairwise distinct node UUIDs): the records are
   complete (one per reference of the message, in order) and every recorded node IS what
   `getByUuid g' ir u` answers in the final state. Without distinctness the final table may answer another
   node (`C09_entry_moved_example`).
3. `C09_load_referent_identity`: the same statement for symbol referents (stored in `G.payload`), including
   the tie to the message symbol that named the UUID.
4. the error class: a reference without table entry, or with an entry of the wrong kind, at resolution time
   makes `load` return `.error .deser` (`C09_fault_entry`, `C09_fault_exprSym`, `C09_fault_referent`,
   `C09_fault_edge_iff`); resolution steps never raise anything else (`resolve_error`). -/
namespace Gtirb.Loader
open Gtirb.Forest

/-! ### lists related element by element -/

inductive Forall2 {α β : Type} (R : α → β → Prop) : List α → List β → Prop
  | nil : Forall2 R [] []
  | cons {a : α} {b : β} {as : List α} {bs : List β} : R a b → Forall2 R as bs → Forall2 R (a :: as) (b :: bs)

theorem Forall2.imp {α β : Type} {R R' : α → β → Prop} {as : List α} {bs : List β} (h : Forall2 R as bs)
    (hi : ∀ a b, R a b → R' a b) : Forall2 R' as bs := by
  induction h with
  | nil => exact .nil
  | cons h _ ih => exact .cons (hi _ _ h) ih

theorem Forall2.append {α β : Type} {R : α → β → Prop} {as as' : List α} {bs bs' : List β}
    (h : Forall2 R as bs) (h' : Forall2 R as' bs') : Forall2 R (as ++ as') (bs ++ bs') := by
  induction h with
  | nil => exact h'
  | cons h _ ih => exact .cons h ih

theorem Forall2.length_eq {α β : Type} {R : α → β → Prop} {as : List α} {bs : List β} (h : Forall2 R as bs) :
    as.length = bs.length := by
  induction h with
  | nil => rfl
  | cons _ _ ih => simp [ih]

theorem Forall2.mem_right {α β : Type} {R : α → β → Prop} {as : List α} {bs : List β} (h : Forall2 R as bs) :
    ∀ b, b ∈ bs → ∃ a, a ∈ as ∧ R a b := by
  induction h with
  | nil => intro b hb; cases hb
  | cons h _ ih =>
    intro b hb
    rcases List.mem_cons.1 hb with rfl | hb
    · exact ⟨_, List.mem_cons_self, h⟩
    · obtain ⟨a, ha, hr⟩ := ih b hb
      exact ⟨a, List.mem_cons_of_mem _ ha, hr⟩

theorem Forall2.mem_left {α β : Type} {R : α → β → Prop} {as : List α} {bs : List β} (h : Forall2 R as bs) :
    ∀ a, a ∈ as → ∃ b, b ∈ bs ∧ R a b := by
  induction h with
  | nil => intro a ha; cases ha
  | cons h _ ih =>
    intro a ha
    rcases List.mem_cons.1 ha with rfl | ha
    · exact ⟨_, List.mem_cons_self, h⟩
    · obtain ⟨b, hb, hr⟩ := ih a ha
      exact ⟨b, List.mem_cons_of_mem _ hb, hr⟩

theorem Forall2.map_right {α β γ : Type} {R : α → β → Prop} {R' : α → γ → Prop} {f : β → γ} {as : List α}
    {bs : List β} (h : Forall2 R as bs) (hf : ∀ a b, R a b → R' a (f b)) : Forall2 R' as (bs.map f) := by
  induction h with
  | nil => exact .nil
  | cons h _ ih => exact .cons (hf _ _ h) ih

theorem Forall2.map_left {α β γ : Type} {R : α → β → Prop} {R' : γ → β → Prop} {f : α → γ} {as : List α}
    {bs : List β} (h : Forall2 R as bs) (hf : ∀ a b, R a b → R' (f a) b) : Forall2 R' (as.map f) bs := by
  induction h with
  | nil => exact .nil
  | cons h _ ih => exact .cons (hf _ _ h) ih

/-! ### resolution steps -/

/-- the table of `ir` has an entry for `u` and it names a node of an accepted kind -/
def RefResolves (g : G) (ir : Nat) (ok : Kind → Bool) (u : Nat) : Prop :=
  ∃ n, g.cache ir u = some n ∧ ok (g.kind n) = true

/-- `resolve` and `refKind` take the same branch; the only error is `DeserializationError` -/
theorem resolve_cases (g : G) (ir : Nat) (ok : Kind → Bool) (u : Nat) :
    (∃ n, resolve g ir ok u = .ok n ∧ refKind g ir ok u = .ok () ∧ g.cache ir u = some n ∧ ok (g.kind n) = true) ∨
    (resolve g ir ok u = .error .deser ∧ refKind g ir ok u = .error .deser ∧ ¬ RefResolves g ir ok u) := by
  unfold resolve refKind RefResolves
  cases hc : g.cache ir u with
  | none => right; exact ⟨rfl, rfl, fun ⟨n, h, _⟩ => by cases h⟩
  | some n =>
    by_cases hk : ok (g.kind n) = true
    · left; exact ⟨n, by simp [hk], by simp [hk], rfl, hk⟩
    · right
      refine ⟨by simp [hk], by simp [hk], ?_⟩
      rintro ⟨n', h, hk'⟩
      cases h; exact hk hk'

/-- **error class of a resolution step**: only `DeserializationError`, and exactly when the table has no entry
of an accepted kind -/
theorem refKind_error_iff (g : G) (ir : Nat) (ok : Kind → Bool) (u : Nat) :
    (refKind g ir ok u = .error .deser ↔ ¬ RefResolves g ir ok u) ∧
    (refKind g ir ok u = .ok () ↔ RefResolves g ir ok u) ∧
    (∀ e, refKind g ir ok u = .error e → e = .deser) := by
  rcases resolve_cases g ir ok u with ⟨n, _, h2, h3, h4⟩ | ⟨_, h2, h3⟩
  · have hr : RefResolves g ir ok u := ⟨n, h3, h4⟩
    rw [h2]
    exact ⟨⟨fun h => (by cases h), fun h => absurd hr h⟩, ⟨fun _ => hr, fun _ => rfl⟩, fun e h => (by cases h)⟩
  · rw [h2]
    exact ⟨⟨fun _ => h3, fun _ => rfl⟩, ⟨fun h => (by cases h), fun h => absurd h h3⟩, fun e h => (by cases h; rfl)⟩

theorem resolve_error {g : G} {ir : Nat} {ok : Kind → Bool} {u : Nat} {e : LErr} (h : resolve g ir ok u = .error e) :
    e = .deser := by
  rcases resolve_cases g ir ok u with ⟨n, h1, _⟩ | ⟨h1, _⟩
  · rw [h1] at h; cases h
  · rw [h1] at h; cases h; rfl

theorem resolveAll_cases (g : G) (ir : Nat) (ok : Kind → Bool) : ∀ (us : List Nat),
    (∃ ns, resolveAll g ir ok us = .ok ns ∧ checkAll g ir ok us = .ok () ∧
      Forall2 (fun u n => g.cache ir u = some n ∧ ok (g.kind n) = true) us ns) ∨
    (resolveAll g ir ok us = .error .deser ∧ checkAll g ir ok us = .error .deser ∧
      ∃ u, u ∈ us ∧ ¬ RefResolves g ir ok u)
  | [] => .inl ⟨[], rfl, rfl, .nil⟩
  | u :: us => by
    simp only [resolveAll, checkAll]
    rcases resolve_cases g ir ok u with ⟨n, h1, h2, h3, h4⟩ | ⟨h1, h2, h3⟩
    · rw [h1, h2]
      rcases resolveAll_cases g ir ok us with ⟨ns, a1, a2, a3⟩ | ⟨a1, a2, w, hw, hbad⟩
      · left; rw [a1, a2]; exact ⟨n :: ns, rfl, rfl, .cons ⟨h3, h4⟩ a3⟩
      · right; rw [a1, a2]; exact ⟨rfl, rfl, w, List.mem_cons_of_mem _ hw, hbad⟩
    · right; rw [h1, h2]; exact ⟨rfl, rfl, u, List.mem_cons_self, h3⟩

theorem resolveEdges_cases (g : G) (ir : Nat) (ok : Kind → Bool) : ∀ (es : List (Nat × Nat)),
    (∃ ps, resolveEdges g ir ok es = .ok ps ∧ checkAll g ir ok (es.flatMap fun e => [e.1, e.2]) = .ok () ∧
      Forall2 (fun (e p : Nat × Nat) => (g.cache ir e.1 = some p.1 ∧ ok (g.kind p.1) = true) ∧
        (g.cache ir e.2 = some p.2 ∧ ok (g.kind p.2) = true)) es ps) ∨
    (resolveEdges g ir ok es = .error .deser ∧ checkAll g ir ok (es.flatMap fun e => [e.1, e.2]) = .error .deser ∧
      ∃ e, e ∈ es ∧ ∃ u, u ∈ [e.1, e.2] ∧ ¬ RefResolves g ir ok u)
  | [] => .inl ⟨[], rfl, rfl, .nil⟩
  | e :: es => by
    simp only [resolveEdges, List.flatMap_cons, List.cons_append, List.nil_append, checkAll]
    rcases resolve_cases g ir ok e.1 with ⟨a, h1, h2, h3, h4⟩ | ⟨h1, h2, h3⟩
    · rw [h1, h2]
      rcases resolve_cases g ir ok e.2 with ⟨b, k1, k2, k3, k4⟩ | ⟨k1, k2, k3⟩
      · rw [k1, k2]
        rcases resolveEdges_cases g ir ok es with ⟨ps, a1, a2, a3⟩ | ⟨a1, a2, w, hw, hbad⟩
        · left; rw [a1, a2]; exact ⟨(a, b) :: ps, rfl, rfl, .cons ⟨⟨h3, h4⟩, ⟨k3, k4⟩⟩ a3⟩
        · right; rw [a1, a2]; exact ⟨rfl, rfl, w, List.mem_cons_of_mem _ hw, hbad⟩
      · right; rw [k1, k2]
        exact ⟨rfl, rfl, e, List.mem_cons_self, e.2, by simp, k3⟩
    · right; rw [h1, h2]
      exact ⟨rfl, rfl, e, List.mem_cons_self, e.1, by simp, h3⟩

/-! ### (1) `loadR` projects onto `load` -/

theorem decodeModuleR_proj (g : G) (ir : Nat) (m : SkModule) :
    (decodeModuleR g ir m).map (fun r => (r.1, r.2.1)) = decodeModule g ir m := by
  unfold decodeModuleR decodeModule
  cases fromProto g ir .module m.uuid with
  | error e => rfl
  | ok r =>
    obtain ⟨g1, v, fresh⟩ := r
    cases fresh
    · rfl
    · simp only [Bool.not_true, Bool.false_eq_true, if_false]
      cases decodeAttach decodeProxy ir v .proxies (cacheSet g1 ir m.uuid v) m.proxies with
      | error e => rfl
      | ok g4 =>
        simp only []
        cases decodeAttach decodeSection ir v .secs g4 m.sections with
        | error e => rfl
        | ok g6 =>
          simp only []
          have hentry : ∀ (X : Except LErr (List (Nat × Nat))) (Y : Except LErr Unit),
              ((∃ es, X = .ok es ∧ Y = .ok ()) ∨ (∃ e, X = .error e ∧ Y = .error e)) →
              (match X with
                | .error e => (.error e : Except LErr (G × Nat × Refs))
                | .ok es =>
                  match decodeAttach decodeSymbol ir v .syms g6 m.symbols with
                  | .error e => .error e
                  | .ok g8 =>
                    match resolveAll g8 ir (fun k => k == Kind.symbol) m.exprSyms with
                    | .error e => .error e
                    | .ok ns => .ok (g8, v, { entries := es, exprSyms := ns.map (fun n => (v, n)) })).map
                (fun r : G × Nat × Refs => (r.1, r.2.1)) =
              (match Y with
                | .error e => (.error e : Except LErr (G × Nat))
                | .ok _ =>
                  match decodeAttach decodeSymbol ir v .syms g6 m.symbols with
                  | .error e => .error e
                  | .ok g8 =>
                    match checkAll g8 ir (fun k => k == Kind.symbol) m.exprSyms with
                    | .error e => .error e
                    | .ok _ => .ok (g8, v)) := by
            intro X Y hXY
            rcases hXY with ⟨es, rfl, rfl⟩ | ⟨e, rfl, rfl⟩
            · simp only []
              cases decodeAttach decodeSymbol ir v .syms g6 m.symbols with
              | error e => rfl
              | ok g8 =>
                simp only []
                rcases resolveAll_cases g8 ir (fun k => k == Kind.symbol) m.exprSyms with
                  ⟨ns, a1, a2, _⟩ | ⟨a1, a2, _⟩
                · rw [a1, a2]; rfl
                · rw [a1, a2]; rfl
            · rfl
          apply hentry
          cases m.entry with
          | none => exact .inl ⟨[], rfl, rfl⟩
          | some u =>
            simp only []
            rcases resolve_cases g6 ir (fun k => k == Kind.code) u with ⟨n, h1, h2, _⟩ | ⟨h1, h2, _⟩
            · rw [h1, h2]; exact .inl ⟨_, rfl, rfl⟩
            · rw [h1, h2]; exact .inr ⟨_, rfl, rfl⟩

theorem decodeModulesR_proj (ir : Nat) : ∀ (ms : List SkModule) (g : G),
    (decodeModulesR ir g ms).map (fun r => r.1) = decodeModules ir g ms
  | [], _ => rfl
  | m :: ms, g => by
    simp only [decodeModulesR, decodeModules]
    rw [← decodeModuleR_proj g ir m]
    cases decodeModuleR g ir m with
    | error e => rfl
    | ok r =>
      obtain ⟨g1, v, r1⟩ := r
      simp only [Except.map]
      cases liftE (modAppend g1 ir v) with
      | error e => rfl
      | ok g2 =>
        simp only []
        rw [← decodeModulesR_proj ir ms g2]
        cases decodeModulesR ir g2 ms with
        | error e => rfl
        | ok r2 => rfl

/-- **(1)** `loadR` performs the steps of `load`: forgetting the records gives `load` (same state, same IR, same
error) -/
theorem C09_loadR_load (g : G) (m : SkIR) : (loadR g m).map (fun r => (r.1, r.2.1)) = load g m := by
  unfold loadR load
  simp only []
  rw [← decodeModulesR_proj g.n m.modules (mkIR g m.uuid)]
  cases decodeModulesR g.n (mkIR g m.uuid) m.modules with
  | error e => rfl
  | ok r =>
    obtain ⟨g2, r⟩ := r
    simp only [Except.map]
    rcases resolveEdges_cases g2 g.n (fun k => k == Kind.code || k == Kind.proxy) m.edges with
      ⟨ps, a1, a2, _⟩ | ⟨a1, a2, _⟩
    · rw [a1, a2]
    · rw [a1, a2]

theorem loadR_ok_load {g g' : G} {m : SkIR} {ir : Nat} {r : Refs} (h : loadR g m = .ok (g', ir, r)) :
    load g m = .ok (g', ir) := by
  rw [← C09_loadR_load, h]; rfl

theorem load_ok_loadR {g g' : G} {m : SkIR} {ir : Nat} (h : load g m = .ok (g', ir)) :
    ∃ r, loadR g m = .ok (g', ir, r) := by
  have := C09_loadR_load g m
  rw [h] at this
  cases hr : loadR g m with
  | error e => rw [hr] at this; cases this
  | ok x =>
    obtain ⟨g1, i1, r⟩ := x
    rw [hr] at this
    injection this with this
    injection this with h1 h2
    subst h1; subst h2
    exact ⟨r, rfl⟩

/-! ### (2) what the recorded nodes are -/

/-- node `n`, created by the load that started in state `g0`, has in state `g` a kind in `K` and UUID `u` -/
def New (g0 g : G) (K : Kind → Prop) (u n : Nat) : Prop := g0.n ≤ n ∧ n < g.n ∧ K (g.kind n) ∧ g.uuid n = u

theorem New.of_grows {g0 g g' : G} {K : Kind → Prop} {u n : Nat} (hg : Grows g g') (h : New g0 g K u n) :
    New g0 g' K u n := by
  obtain ⟨h1, h2, h3, h4⟩ := h
  exact ⟨h1, Nat.lt_of_lt_of_le h2 hg.1, by rw [(hg.2 n h2).1]; exact h3, by rw [(hg.2 n h2).2]; exact h4⟩

/-- a table answer in the middle of a load is a new node of that UUID -/
theorem New.of_entry {g0 g : G} (hm : Mid g0 g) {ok : Kind → Bool} {u n : Nat} (hc : g.cache g0.n u = some n)
    (hk : ok (g.kind n) = true) : New g0 g (fun k => ok k = true) u n := by
  obtain ⟨h1, h2, h3⟩ := hm.entries u n hc
  exact ⟨h1, h2, hk, h3⟩

theorem New.imp {g0 g : G} {K K' : Kind → Prop} {u n : Nat} (h : New g0 g K u n) (hK : ∀ k, K k → K' k) :
    New g0 g K' u n := ⟨h.1, h.2.1, hK _ h.2.2.1, h.2.2.2⟩

/-- the (module UUID, entry point UUID) pair of a module message -/
def entryOf (md : SkModule) : Option (Nat × Nat) := md.entry.map fun u => (md.uuid, u)

/-- the (module UUID, symbol UUID) pairs of the expressions of a module message, in message order -/
def exprsOf (md : SkModule) : List (Nat × Nat) := md.exprSyms.map fun u => (md.uuid, u)

/-- the records of one module message: none if the message was not decoded (its UUID was in the table), else
one per reference, resolved to new nodes of the right kind and UUID -/
theorem decodeModuleR_spec {g0 : G} (R : Nat → Prop) (g : G) (m : SkModule) (g' : G) (v : Nat) (r : Refs)
    (hm : Mid g0 g) (hc : AllCov g0.n g R) (h : decodeModuleR g g0.n m = .ok (g', v, r)) :
    decodeModule g g0.n m = .ok (g', v) ∧ r.edges = [] ∧
    ((r.entries = [] ∧ r.exprSyms = [] ∧ ∃ n, g.cache g0.n m.uuid = some n) ∨
     (g.cache g0.n m.uuid = none ∧ New g0 g' (· = .module) m.uuid v ∧
      Forall2 (fun u p => p.1 = v ∧ New g0 g' (· = .code) u p.2) m.entry.toList r.entries ∧
      Forall2 (fun u p => p.1 = v ∧ New g0 g' (· = .symbol) u p.2) m.exprSyms r.exprSyms)) := by
  have hproj : decodeModule g g0.n m = .ok (g', v) := by
    rw [← decodeModuleR_proj, h]; rfl
  refine ⟨hproj, ?_⟩
  unfold decodeModuleR at h
  split at h
  · cases h
  · rename_i g1 v1 fresh hfp
    rcases fromProto_cases hfp with ⟨rfl, rfl, hcv, _⟩ | ⟨rfl, rfl, rfl, hno⟩
    · simp only [Bool.not_false, if_true] at h
      cases h
      exact ⟨rfl, .inl ⟨rfl, rfl, _, hcv⟩⟩
    · simp only [Bool.not_true, Bool.false_eq_true, if_false] at h
      split at h
      · cases h
      · rename_i g4 hat4
        split at h
        · cases h
        · rename_i g6 hat6
          split at h
          · cases h
          · rename_i es hes
            split at h
            · cases h
            · rename_i g8 hat8
              split at h
              · cases h
              · rename_i ns hns
                cases h
                have st := modStages hm hc m hat4 hat6 hat8
                refine ⟨rfl, .inr ⟨hno, ⟨Nat.le_of_lt hm.lt, st.at8.1, st.at8.2, st.uuid8⟩, ?_, ?_⟩⟩
                · show Forall2 _ m.entry.toList es
                  cases hent : m.entry with
                  | none =>
                    rw [hent] at hes
                    cases hes
                    exact .nil
                  | some u =>
                    rw [hent] at hes
                    simp only [] at hes
                    rcases resolve_cases g6 g0.n (fun k => k == Kind.code) u with ⟨n, h1, _, h3, h4⟩ | ⟨h1, _⟩
                    · rw [h1] at hes
                      cases hes
                      refine .cons ⟨rfl, ?_⟩ .nil
                      exact ((New.of_entry (ok := fun k => k == Kind.code) st.mid6 h3 h4).of_grows st.grows68).imp
                        (fun k hk => by simpa using hk)
                    · rw [h1] at hes; cases hes
                · show Forall2 _ m.exprSyms (ns.map fun n => (g.n, n))
                  rcases resolveAll_cases g' g0.n (fun k => k == Kind.symbol) m.exprSyms with
                    ⟨ns', a1, _, a3⟩ | ⟨a1, _⟩
                  · rw [a1] at hns
                    cases hns
                    refine a3.map_right ?_
                    rintro u n ⟨h3, h4⟩
                    exact ⟨rfl, (New.of_entry (ok := fun k => k == Kind.symbol) st.mid8 h3 h4).imp
                      (fun k hk => by simpa using hk)⟩
                  · rw [a1] at hns; cases hns

theorem decodeModulesR_ok_proj {ir : Nat} {ms : List SkModule} {g g' : G} {r : Refs}
    (h : decodeModulesR ir g ms = .ok (g', r)) : decodeModules ir g ms = .ok g' := by
  rw [← decodeModulesR_proj, h]; rfl

/-- one step of `decodeModulesR`, with everything the existing lemmas say about it -/
theorem decodeModulesR_cons {g0 : G} {m : SkModule} {ms : List SkModule} {g g' : G} {r : Refs} (hm : Mid g0 g)
    (ha : AllAtt g0 g) (h : decodeModulesR g0.n g (m :: ms) = .ok (g', r)) :
    ∃ g1 v r1 g2 r2, decodeModuleR g g0.n m = .ok (g1, v, r1) ∧ modAppend g1 g0.n v = .ok g2 ∧
      decodeModulesR g0.n g2 ms = .ok (g', r2) ∧ r = r1.append r2 ∧ Mid g0 g2 ∧ AllAtt g0 g2 ∧ Grows g1 g' ∧
      Stable g1 g2 := by
  simp only [decodeModulesR] at h
  split at h
  · cases h
  · rename_i g1 v r1 hdm
    split at h
    · cases h
    · rename_i g2 happ
      split at h
      · cases h
      · rename_i g3 r2 hrest
        cases h
        have hdm' : decodeModule g g0.n m = .ok (g1, v) := by rw [← decodeModuleR_proj, hdm]; rfl
        have d := decodeModule_ok _ g m g1 v hm (ha.cov hm) hdm'
        obtain ⟨m2, a2⟩ := modAppend_outer d.mid d.new d.lt d.kind d.cov (liftE_ok happ)
        have hst := modAppend_stable (liftE_ok happ)
        exact ⟨g1, v, r1, g2, r2, hdm, liftE_ok happ, hrest, rfl, m2, a2,
          hst.grows.trans (decodeModules_grows g0.n ms g2 g' (decodeModulesR_ok_proj hrest)), hst⟩

/-- any message: every record of the modules is a pair of new nodes of the right kinds carrying the UUIDs of
some module message and of its entry point / one of its expression symbols -/
theorem decodeModulesR_sound {g0 : G} : ∀ (ms : List SkModule) (g g' : G) (r : Refs), Mid g0 g → AllAtt g0 g →
    decodeModulesR g0.n g ms = .ok (g', r) →
    r.edges = [] ∧
    (∀ p, p ∈ r.entries → ∃ md, md ∈ ms ∧ ∃ u, md.entry = some u ∧
      New g0 g' (· = .module) md.uuid p.1 ∧ New g0 g' (· = .code) u p.2) ∧
    (∀ p, p ∈ r.exprSyms → ∃ md, md ∈ ms ∧ ∃ u, u ∈ md.exprSyms ∧
      New g0 g' (· = .module) md.uuid p.1 ∧ New g0 g' (· = .symbol) u p.2) := by
  intro ms
  induction ms with
  | nil =>
    intro g g' r _ _ h
    cases h
    exact ⟨rfl, fun p hp => (by cases hp), fun p hp => (by cases hp)⟩
  | cons m ms ih =>
    intro g g' r hm ha h
    obtain ⟨g1, v, r1, g2, r2, hdm, _, hrest, rfl, m2, a2, hg, _⟩ := decodeModulesR_cons hm ha h
    obtain ⟨_, he1, hspec⟩ := decodeModuleR_spec _ g m g1 v r1 hm (ha.cov hm) hdm
    obtain ⟨he2, i1, i2⟩ := ih g2 g' r2 m2 a2 hrest
    refine ⟨by show r1.edges ++ r2.edges = []; rw [he1, he2]; rfl, ?_, ?_⟩
    · intro p hp
      rcases List.mem_append.1 hp with hp | hp
      · rcases hspec with ⟨e1, _, _⟩ | ⟨_, hv, f1, _⟩
        · rw [e1] at hp; cases hp
        · obtain ⟨u, hu, hp1, hp2⟩ := f1.mem_right p hp
          refine ⟨m, List.mem_cons_self, u, ?_, ?_, hp2.of_grows hg⟩
          · cases hent : m.entry with
            | none => rw [hent] at hu; cases hu
            | some w => rw [hent] at hu; simp at hu; rw [hu]
          · rw [hp1]; exact hv.of_grows hg
      · obtain ⟨md, hmd, rest⟩ := i1 p hp
        exact ⟨md, List.mem_cons_of_mem _ hmd, rest⟩
    · intro p hp
      rcases List.mem_append.1 hp with hp | hp
      · rcases hspec with ⟨_, e2, _⟩ | ⟨_, hv, _, f2⟩
        · rw [e2] at hp; cases hp
        · obtain ⟨u, hu, hp1, hp2⟩ := f2.mem_right p hp
          exact ⟨m, List.mem_cons_self, u, hu, by rw [hp1]; exact hv.of_grows hg, hp2.of_grows hg⟩
      · obtain ⟨md, hmd, rest⟩ := i2 p hp
        exact ⟨md, List.mem_cons_of_mem _ hmd, rest⟩

theorem filterMap_entryOf_cons (md : SkModule) (ms : List SkModule) :
    (md :: ms).filterMap entryOf = md.entry.toList.map (fun u => (md.uuid, u)) ++ ms.filterMap entryOf := by
  rw [List.filterMap_cons]
  unfold entryOf
  cases md.entry <;> rfl

/-- pairwise distinct module UUIDs: every module message is decoded, so the records are complete - one per
entry point and per expression symbol of the message, in message order -/
theorem decodeModulesR_complete {g0 : G} : ∀ (ms : List SkModule) (g g' : G) (r : Refs) (done : List Nat),
    Mid g0 g → AllAtt g0 g →
    (∀ x, g0.n ≤ x → x < g.n → g.kind x = .module → g.uuid x ∈ done) → (∀ m, m ∈ ms → m.uuid ∉ done) →
    (ms.map (·.uuid)).Nodup → decodeModulesR g0.n g ms = .ok (g', r) →
    Forall2 (fun (q p : Nat × Nat) => New g0 g' (· = .module) q.1 p.1 ∧ New g0 g' (· = .code) q.2 p.2)
      (ms.filterMap entryOf) r.entries ∧
    Forall2 (fun (q p : Nat × Nat) => New g0 g' (· = .module) q.1 p.1 ∧ New g0 g' (· = .symbol) q.2 p.2)
      (ms.flatMap exprsOf) r.exprSyms := by
  intro ms
  induction ms with
  | nil =>
    intro g g' r done _ _ _ _ _ h
    cases h
    exact ⟨.nil, .nil⟩
  | cons m ms ih =>
    intro g g' r done hm ha hmods hnot hnd h
    obtain ⟨g1, v, r1, g2, r2, hdm, _, hrest, rfl, m2, a2, hg, hst⟩ := decodeModulesR_cons hm ha h
    obtain ⟨hdm', _, hspec⟩ := decodeModuleR_spec _ g m g1 v r1 hm (ha.cov hm) hdm
    have hmade := decodeModule_made hdm'
    rw [List.map_cons, List.nodup_cons] at hnd
    obtain ⟨i1, i2⟩ := ih g2 g' r2 (m.uuid :: done) m2 a2 (by
        intro x hx hlt hk
        rw [hst.n] at hlt; rw [hst.kind] at hk; rw [hst.uuid]
        by_cases hxg : x < g.n
        · rw [(hmade.1.2 x hxg).1] at hk; rw [(hmade.1.2 x hxg).2]
          exact List.mem_cons_of_mem _ (hmods x hx hxg hk)
        · rw [(hmade.2 x (by omega) hlt hk).2]; exact List.mem_cons_self) (by
        intro m' hm' hmem
        rcases List.mem_cons.1 hmem with e | e
        · exact hnd.1 (List.mem_map.2 ⟨m', hm', e⟩)
        · exact hnot m' (List.mem_cons_of_mem _ hm') e) hnd.2 hrest
    rcases hspec with ⟨_, _, n, hcn⟩ | ⟨_, hv, f1, f2⟩
    · -- impossible: the module UUID is new
      obtain ⟨e1, e2, e3⟩ := hm.entries _ _ hcn
      have := hmods n e1 e2 (decodeModule_reused hdm' hcn)
      rw [e3] at this
      exact absurd this (hnot m List.mem_cons_self)
    · refine ⟨?_, ?_⟩
      · rw [filterMap_entryOf_cons]
        refine Forall2.append (f1.map_left ?_) i1
        rintro u p ⟨hp1, hp2⟩
        exact ⟨by rw [hp1]; exact hv.of_grows hg, hp2.of_grows hg⟩
      · rw [List.flatMap_cons]
        refine Forall2.append ?_ i2
        unfold exprsOf
        refine f2.map_left ?_
        rintro u p ⟨hp1, hp2⟩
        exact ⟨by rw [hp1]; exact hv.of_grows hg, hp2.of_grows hg⟩

theorem moduleUuids_sublist (ms : List SkModule) : (ms.map (·.uuid)).Sublist (ms.flatMap SkModule.nodeUuids) := by
  induction ms with
  | nil => exact List.Sublist.slnil
  | cons m ms ih =>
    rw [List.map_cons, List.flatMap_cons]
    show (m.uuid :: ms.map (·.uuid)).Sublist ((m.uuid :: _) ++ _)
    rw [List.cons_append]
    exact List.Sublist.cons_cons _ (ih.trans (List.sublist_append_right _ _))

theorem moduleUuids_nodup {m : SkIR} (h : m.nodeUuids.Nodup) : (m.modules.map (·.uuid)).Nodup := by
  unfold SkIR.nodeUuids at h
  exact (moduleUuids_sublist m.modules).nodup (List.nodup_cons.1 h).2

/-- `n` is a node created by this load (`g.n ≤ n`; `g`: the state before), allocated in the loaded state `g'`,
of a kind in `K`, carrying UUID `u`, and attached to the loaded IR (node `g.n`) -/
structure IsLoaded (g g' : G) (K : Kind → Prop) (u n : Nat) : Prop where
  new : g.n ≤ n
  lt : n < g'.n
  kind : K (g'.kind n)
  uuid : g'.uuid n = u
  att : irOf g' n = some g.n

theorem IsLoaded.of_new {g g' : G} {K : Kind → Prop} {u n : Nat} (ha : AllAtt g g') (h : New g g' K u n) :
    IsLoaded g g' K u n := ⟨h.1, h.2.1, h.2.2.1, h.2.2.2, ha n h.1 h.2.1⟩

/-- under pairwise distinct UUIDs, a loaded node is what the final table answers for its UUID -/
theorem IsLoaded.lookup {g g' : G} {m : SkIR} {ir : Nat} (hf : ForestInv g) (hl : load g m = .ok (g', ir))
    (hnd : m.nodeUuids.Nodup) {K : Kind → Prop} {u n : Nat} (h : IsLoaded g g' K u n) :
    getByUuid g' ir u = some n := by
  have hir : ir = g.n := (load_ok hf hl).1
  exact ((C17_load_exact_nodup g g' m ir hf hl hnd).2 u n).2 ⟨h.lt, by rw [hir]; exact h.att, h.uuid⟩

def codeOrProxy (k : Kind) : Prop := k = .code ∨ k = .proxy

theorem loadR_unfold {g g' : G} {m : SkIR} {ir : Nat} {r : Refs} (hl : loadR g m = .ok (g', ir, r)) :
    ∃ r0, decodeModulesR g.n (mkIR g m.uuid) m.modules = .ok (g', r0) ∧ ir = g.n ∧
      resolveEdges g' g.n (fun k => k == Kind.code || k == Kind.proxy) m.edges = .ok r.edges ∧
      r.entries = r0.entries ∧ r.exprSyms = r0.exprSyms := by
  unfold loadR at hl
  simp only [] at hl
  split at hl
  · cases hl
  · rename_i g2 r0 hdm
    split at hl
    · cases hl
    · rename_i es hes
      cases hl
      exact ⟨r0, hdm, rfl, hes, rfl, rfl⟩

/-- the recorded edge ends: resolved in the final state, so they are what the final table answers - for any
message -/
theorem loadR_edges {g g' : G} {m : SkIR} {ir : Nat} {r : Refs} (hf : ForestInv g)
    (hl : loadR g m = .ok (g', ir, r)) :
    Forall2 (fun (e p : Nat × Nat) =>
        (IsLoaded g g' codeOrProxy e.1 p.1 ∧ getByUuid g' ir e.1 = some p.1) ∧
        (IsLoaded g g' codeOrProxy e.2 p.2 ∧ getByUuid g' ir e.2 = some p.2)) m.edges r.edges := by
  obtain ⟨_, hm, ha, _⟩ := load_ok hf (loadR_ok_load hl)
  obtain ⟨r0, _, rfl, hes, _, _⟩ := loadR_unfold hl
  rcases resolveEdges_cases g' g.n (fun k => k == Kind.code || k == Kind.proxy) m.edges with
    ⟨ps, a1, _, a3⟩ | ⟨a1, _⟩
  · rw [a1] at hes
    cases hes
    refine a3.imp ?_
    rintro e p ⟨⟨c1, k1⟩, ⟨c2, k2⟩⟩
    have hK : ∀ k : Kind, (k == Kind.code || k == Kind.proxy) = true → codeOrProxy k := by
      intro k hk
      simpa [codeOrProxy] using hk
    exact ⟨⟨IsLoaded.of_new ha ((New.of_entry hm c1 k1).imp hK), c1⟩,
      ⟨IsLoaded.of_new ha ((New.of_entry hm c2 k2).imp hK), c2⟩⟩
  · rw [a1] at hes; cases hes

/-- **(2), any message** (duplicated UUIDs included). Every node `loadR` recorded is, in the final state, an
allocated node created by this load, of the required kind (module / code / symbol / code-or-proxy), carrying the
UUID the message names, attached to the loaded IR. Edge ends are resolved last, so they are moreover exactly
what the final table answers. For entry points and expression symbols the final table may answer *another*
node of that UUID when UUIDs are duplicated (`C09_entry_moved_example`); kind and UUID were fixed at
resolution time and never change. -/
theorem C09_loadR_sound (g g' : G) (m : SkIR) (ir : Nat) (r : Refs) (hf : ForestInv g)
    (hl : loadR g m = .ok (g', ir, r)) :
    ir = g.n ∧
    (∀ p, p ∈ r.entries → ∃ md, md ∈ m.modules ∧ ∃ u, md.entry = some u ∧
      IsLoaded g g' (· = .module) md.uuid p.1 ∧ IsLoaded g g' (· = .code) u p.2) ∧
    (∀ p, p ∈ r.exprSyms → ∃ md, md ∈ m.modules ∧ ∃ u, u ∈ md.exprSyms ∧
      IsLoaded g g' (· = .module) md.uuid p.1 ∧ IsLoaded g g' (· = .symbol) u p.2) ∧
    Forall2 (fun (e p : Nat × Nat) =>
        (IsLoaded g g' codeOrProxy e.1 p.1 ∧ getByUuid g' ir e.1 = some p.1) ∧
        (IsLoaded g g' codeOrProxy e.2 p.2 ∧ getByUuid g' ir e.2 = some p.2)) m.edges r.edges := by
  have hedges := loadR_edges hf hl
  obtain ⟨_, _, ha, _⟩ := load_ok hf (loadR_ok_load hl)
  obtain ⟨r0, hdm, rfl, _, e1, e2⟩ := loadR_unfold hl
  obtain ⟨m1, a1⟩ := mid_mkIR hf m.uuid
  obtain ⟨_, s1, s2⟩ := decodeModulesR_sound m.modules _ _ r0 m1 a1 hdm
  refine ⟨rfl, ?_, ?_, hedges⟩
  · intro p hp
    rw [e1] at hp
    obtain ⟨md, hmd, u, hu, n1, n2⟩ := s1 p hp
    exact ⟨md, hmd, u, hu, IsLoaded.of_new ha n1, IsLoaded.of_new ha n2⟩
  · intro p hp
    rw [e2] at hp
    obtain ⟨md, hmd, u, hu, n1, n2⟩ := s2 p hp
    exact ⟨md, hmd, u, hu, IsLoaded.of_new ha n1, IsLoaded.of_new ha n2⟩

/-- **(2), pairwise distinct node UUIDs: reference identity.** The records are complete - one per entry point,
per expression symbol (in message order) and per edge of the message - and every recorded node IS the object the
loaded IR's table answers for the UUID the message names (`getByUuid g' ir u`), an allocated node of the
required kind attached to the loaded IR. -/
theorem C09_loadR_identity (g g' : G) (m : SkIR) (ir : Nat) (r : Refs) (hf : ForestInv g)
    (hl : loadR g m = .ok (g', ir, r)) (hnd : m.nodeUuids.Nodup) :
    Forall2 (fun (q p : Nat × Nat) =>
        (IsLoaded g g' (· = .module) q.1 p.1 ∧ getByUuid g' ir q.1 = some p.1) ∧
        (IsLoaded g g' (· = .code) q.2 p.2 ∧ getByUuid g' ir q.2 = some p.2))
      (m.modules.filterMap entryOf) r.entries ∧
    Forall2 (fun (q p : Nat × Nat) =>
        (IsLoaded g g' (· = .module) q.1 p.1 ∧ getByUuid g' ir q.1 = some p.1) ∧
        (IsLoaded g g' (· = .symbol) q.2 p.2 ∧ getByUuid g' ir q.2 = some p.2))
      (m.modules.flatMap exprsOf) r.exprSyms ∧
    Forall2 (fun (e p : Nat × Nat) =>
        (IsLoaded g g' codeOrProxy e.1 p.1 ∧ getByUuid g' ir e.1 = some p.1) ∧
        (IsLoaded g g' codeOrProxy e.2 p.2 ∧ getByUuid g' ir e.2 = some p.2)) m.edges r.edges := by
  have hedges := loadR_edges hf hl
  have hload := loadR_ok_load hl
  obtain ⟨_, _, ha, _⟩ := load_ok hf hload
  obtain ⟨r0, hdm, _, _, e1, e2⟩ := loadR_unfold hl
  obtain ⟨m1, a1⟩ := mid_mkIR hf m.uuid
  obtain ⟨c1, c2⟩ := decodeModulesR_complete m.modules _ _ r0 [] m1 a1 (by
      intro x hx hlt hk
      have : x = g.n := by have : (mkIR g m.uuid).n = g.n + 1 := rfl; omega
      subst this
      rw [m1.kind_ir] at hk; cases hk) (fun _ _ h => by cases h) (moduleUuids_nodup hnd) hdm
  rw [e1, e2]
  refine ⟨c1.imp ?_, c2.imp ?_, hedges⟩
  · rintro q p ⟨n1, n2⟩
    have l1 := IsLoaded.of_new ha n1
    have l2 := IsLoaded.of_new ha n2
    exact ⟨⟨l1, l1.lookup hf hload hnd⟩, ⟨l2, l2.lookup hf hload hnd⟩⟩
  · rintro q p ⟨n1, n2⟩
    have l1 := IsLoaded.of_new ha n1
    have l2 := IsLoaded.of_new ha n2
    exact ⟨⟨l1, l1.lookup hf hload hnd⟩, ⟨l2, l2.lookup hf hload hnd⟩⟩

/-! ### (3) symbol referents -/

theorem fromProto_none {g : G} {ir u : Nat} (k : Kind) (h : g.cache ir u = none) :
    fromProto g ir k u = .ok ((alloc g k u).1, g.n, true) := by
  unfold fromProto; rw [h]; rfl

/-- what `Symbol._from_protobuf` stores as payload of a fresh symbol: the referent is looked up in the table
(`kind`: the kinds at that moment) -/
def resolvePayload (cache : Nat → Option Nat) (kind : Nat → Kind) : SkPayload → Except LErr Payload
  | .none => .ok .none
  | .int n => .ok (.int n)
  | .ref u =>
    match cache u with
    | some b => if isBlock (kind b) then .ok (.block b) else .error .deser
    | none => .error .deser

/-- `decodeSymbol` on a symbol message whose UUID is not in the table -/
theorem decodeSymbol_fresh_eq {g : G} {ir : Nat} (x : SkSymbol) (h : g.cache ir x.uuid = none) :
    decodeSymbol g ir x =
      match resolvePayload (g.cache ir) (alloc g .symbol x.uuid).1.kind x.payload with
      | .error e => .error e
      | .ok pl =>
        .ok (cacheSet { (alloc g .symbol x.uuid).1 with
              name := fun y => if y = g.n then x.name else (alloc g .symbol x.uuid).1.name y,
              payload := fun y => if y = g.n then pl else (alloc g .symbol x.uuid).1.payload y } ir x.uuid g.n,
            g.n) := by
  unfold decodeSymbol
  rw [fromProto_none .symbol h]
  simp only [Bool.not_true, Bool.false_eq_true, if_false]
  unfold resolvePayload
  cases x.payload <;> rfl

theorem resolvePayload_block {cache : Nat → Option Nat} {kind : Nat → Kind} {p : SkPayload} {b : Nat}
    (h : resolvePayload cache kind p = .ok (.block b)) :
    ∃ u, p = .ref u ∧ cache u = some b ∧ isBlock (kind b) = true := by
  unfold resolvePayload at h
  cases p with
  | none => cases h
  | int n => cases h
  | ref u =>
    simp only [] at h
    cases hc : cache u with
    | none => rw [hc] at h; cases h
    | some b' =>
      rw [hc] at h
      simp only [] at h
      by_cases hk : isBlock (kind b') = true
      · rw [if_pos hk] at h
        cases h
        exact ⟨u, rfl, hc, hk⟩
      · rw [if_neg hk] at h; cases h

/-- every symbol created by the load that has a referent was made from a symbol message (one of `S`) with the
symbol's UUID whose payload names the referent's UUID -/
def SymRefsOK (g0 : G) (S : SkSymbol → Prop) (g : G) : Prop :=
  ∀ y b, g0.n ≤ y → y < g.n → g.kind y = .symbol → g.payload y = .block b →
    ∃ s, S s ∧ s.uuid = g.uuid y ∧ s.payload = .ref (g.uuid b)

theorem SymRefsOK.of_stable {g0 : G} {S : SkSymbol → Prop} {g g' : G} (h : SymRefsOK g0 S g) (hs : Stable g g')
    (hp : g'.payload = g.payload) : SymRefsOK g0 S g' := by
  intro y b hy hlt hk hpl
  rw [hs.n] at hlt; rw [hs.kind] at hk; rw [hp] at hpl; rw [hs.uuid]
  exact h y b hy hlt hk hpl

/-- allocation of one more node whose payload, if it is a symbol with a referent, is justified by `hnew` -/
theorem SymRefsOK.of_alloc {g0 : G} {S : SkSymbol → Prop} {g g' : G} (hm : Mid g0 g) (h : SymRefsOK g0 S g)
    (k : Kind) (u : Nat) (hn : g'.n = g.n + 1) (hkind : g'.kind = (alloc g k u).1.kind)
    (huuid : g'.uuid = (alloc g k u).1.uuid) (hpl : ∀ x, x ≠ g.n → g'.payload x = g.payload x)
    (hnew : k = .symbol → ∀ b, g'.payload g.n = .block b →
      b < g.n ∧ ∃ s, S s ∧ s.uuid = u ∧ s.payload = .ref (g.uuid b)) : SymRefsOK g0 S g' := by
  intro y b hy hlt hk hplb
  rw [hkind] at hk
  rw [huuid]
  by_cases hyn : y = g.n
  · subst hyn
    simp only [alloc_kind, if_true] at hk
    obtain ⟨hb, s, hs, hsu, hsp⟩ := hnew hk b hplb
    refine ⟨s, hs, by simp [hsu], ?_⟩
    simp only [alloc_uuid, if_neg (Nat.ne_of_lt hb)]
    exact hsp
  · simp only [alloc_kind, if_neg hyn] at hk
    rw [hpl y hyn] at hplb
    have hylt : y < g.n := by omega
    obtain ⟨_, hb, _⟩ := hm.refs y b hy hylt hk hplb
    obtain ⟨s, hs, hsu, hsp⟩ := h y b hy hylt hk hplb
    refine ⟨s, hs, ?_, ?_⟩
    · simp only [alloc_uuid, if_neg hyn]; exact hsu
    · simp only [alloc_uuid, if_neg (Nat.ne_of_lt hb)]; exact hsp

theorem loadInv_symRefs (g0 : G) (S : SkSymbol → Prop) : LoadInv g0 S (SymRefsOK g0 S) where
  onAlloc := by
    intro g k u hm hk hp
    exact hp.of_alloc hm k u rfl rfl rfl (fun _ _ => rfl) (fun h => absurd h hk)
  onCache := by
    rintro g g' ⟨c, rfl⟩ hp
    exact hp
  onSetAdd := fun _ _ _ _ _ _ _ hp h => hp.of_stable (setAdd_stable h) (setAdd_payload h)
  onBlkUpdate := fun _ _ _ _ _ hp h => hp.of_stable (blkUpdate_stable h) (blkUpdate_payload h)
  onModAppend := fun _ _ _ _ hp h => hp.of_stable (modAppend_stable h) (modAppend_payload h)
  onSymbol := by
    intro g x g' v hS hm hp h
    have h0 := h
    unfold decodeSymbol at h
    split at h
    · cases h
    · rename_i g1 v1 fresh hfp
      rcases fromProto_cases hfp with ⟨rfl, rfl, _, _⟩ | ⟨rfl, rfl, rfl, hc⟩
      · -- re-used: nothing changes
        simp only [Bool.not_false, if_true] at h
        cases h; exact hp
      · clear h
        rw [decodeSymbol_fresh_eq x hc] at h0
        split at h0
        · cases h0
        · rename_i pl hpl
          cases h0
          refine hp.of_alloc hm .symbol x.uuid rfl rfl rfl (fun y hy => if_neg hy) ?_
          intro _ b hb
          have hb' : pl = .block b := by
            have e : (if g.n = g.n then pl else g.payload g.n) = .block b := hb
            rw [if_pos rfl] at e; exact e
          subst hb'
          obtain ⟨u, hu, hcu, _⟩ := resolvePayload_block hpl
          obtain ⟨_, e2, e3⟩ := hm.entries _ _ hcu
          exact ⟨e2, x, hS, rfl, by rw [hu, e3]⟩

def blockKind (k : Kind) : Prop := k = .code ∨ k = .data ∨ k = .proxy

/-- **(3) symbol referents**, in the form of the other three reference kinds. The referent `b` stored in a
symbol `y` created by the load is an allocated code / data / proxy block created by this load and attached to
the loaded IR; the symbol was made from a symbol message with `y`'s UUID whose payload names `b`'s UUID; and if
the node UUIDs of the message are pairwise distinct, `b` and `y` ARE what the loaded IR's table answers for these
UUIDs. (Any message for the first two parts: a duplicated UUID can only make the final table answer another
node.) -/
theorem C09_load_referent_identity (g g' : G) (m : SkIR) (ir : Nat) (hf : ForestInv g)
    (hl : load g m = .ok (g', ir)) :
    ∀ y, g.n ≤ y → y < g'.n → g'.kind y = .symbol → ∀ b, g'.payload y = .block b →
      IsLoaded g g' blockKind (g'.uuid b) b ∧
      (∃ md, md ∈ m.modules ∧ ∃ s, s ∈ md.symbols ∧ s.uuid = g'.uuid y ∧ s.payload = .ref (g'.uuid b)) ∧
      (m.nodeUuids.Nodup → getByUuid g' ir (g'.uuid b) = some b ∧ getByUuid g' ir (g'.uuid y) = some y) := by
  intro y hy hlt hk b hb
  obtain ⟨hbk, hbi⟩ := C17_load_referents g g' m ir hf hl y hy hlt hk b hb
  obtain ⟨hir, hm, ha, _⟩ := load_ok hf hl
  obtain ⟨hb0, hbn, _⟩ := hm.refs y b hy hlt hk hb
  have lb : IsLoaded g g' blockKind (g'.uuid b) b := ⟨hb0, hbn, hbk, rfl, by rw [← hir]; exact hbi⟩
  have ly : IsLoaded g g' (· = .symbol) (g'.uuid y) y := ⟨hy, hlt, hk, rfl, ha y hy hlt⟩
  have hP : SymRefsOK g (fun s => ∃ md, md ∈ m.modules ∧ s ∈ md.symbols) g' := by
    refine load_keeps (loadInv_symRefs g _) (fun md hmd x hx => ⟨md, hmd, hx⟩) hf ?_ hl
    intro y' b' hy' hlt' hk' _
    have hn : (mkIR g m.uuid).n = g.n + 1 := rfl
    have : y' = g.n := by omega
    subst this
    have : (mkIR g m.uuid).kind g.n = .ir := by show (alloc g .ir m.uuid).1.kind g.n = _; simp
    rw [this] at hk'; cases hk'
  obtain ⟨s, ⟨md, hmd, hs⟩, hsu, hsp⟩ := hP y b hy hlt hk hb
  exact ⟨lb, ⟨md, hmd, s, hs, hsu, hsp⟩, fun hnd => ⟨lb.lookup hf hl hnd, ly.lookup hf hl hnd⟩⟩

/-! ### (4) the error class of a reference fault -/

theorem decodeAttach_append {α : Type} (dec : G → Nat → α → Except LErr (G × Nat)) (ir p : Nat) (s : Slot) :
    ∀ (xs ys : List α) (g : G), decodeAttach dec ir p s g (xs ++ ys) =
      match decodeAttach dec ir p s g xs with
      | .error e => .error e
      | .ok g' => decodeAttach dec ir p s g' ys
  | [], ys, g => rfl
  | x :: xs, ys, g => by
    simp only [List.cons_append, decodeAttach]
    cases dec g ir x with
    | error e => rfl
    | ok r =>
      obtain ⟨g1, v⟩ := r
      simp only []
      cases liftE (setAdd g1 p s v) with
      | error e => rfl
      | ok g2 => exact decodeAttach_append dec ir p s xs ys g2

theorem decodeModules_append (ir : Nat) : ∀ (xs ys : List SkModule) (g : G), decodeModules ir g (xs ++ ys) =
      match decodeModules ir g xs with
      | .error e => .error e
      | .ok g' => decodeModules ir g' ys
  | [], ys, g => rfl
  | x :: xs, ys, g => by
    simp only [List.cons_append, decodeModules]
    cases decodeModule g ir x with
    | error e => rfl
    | ok r =>
      obtain ⟨g1, v⟩ := r
      simp only []
      cases liftE (modAppend g1 ir v) with
      | error e => rfl
      | ok g2 => exact decodeModules_append ir xs ys g2

/-- an error while decoding one module message is the error of the load -/
theorem load_error_at {g : G} {m : SkIR} {pre post : List SkModule} {md : SkModule} {g1 : G} {e : LErr}
    (hsplit : m.modules = pre ++ md :: post) (hpre : decodeModules g.n (mkIR g m.uuid) pre = .ok g1)
    (herr : decodeModule g1 g.n md = .error e) : load g m = .error e := by
  unfold load
  simp only []
  rw [hsplit, decodeModules_append, hpre]
  simp only [decodeModules, herr]

/-- `decodeModule` on a module message whose UUID is not in the table, in stages: the head (`moduleHead`:
allocate, register, proxies, sections), the entry point, the symbols, the symbols of the expressions -/
theorem decodeModule_fresh_eq {g : G} {ir : Nat} (m : SkModule) (h : g.cache ir m.uuid = none) :
    decodeModule g ir m =
      match moduleHead g ir m with
      | .error e => .error e
      | .ok g6 =>
        match (match m.entry with
               | none => (.ok () : Except LErr Unit)
               | some u => refKind g6 ir (fun k => k == Kind.code) u) with
        | .error e => .error e
        | .ok _ =>
          match decodeAttach decodeSymbol ir g.n .syms g6 m.symbols with
          | .error e => .error e
          | .ok g8 =>
            match checkAll g8 ir (fun k => k == Kind.symbol) m.exprSyms with
            | .error e => .error e
            | .ok _ => .ok (g8, g.n) := by
  unfold decodeModule moduleHead
  rw [fromProto_none .module h]
  simp only [Bool.not_true, Bool.false_eq_true, if_false]
  cases decodeAttach decodeProxy ir g.n .proxies (cacheSet (alloc g .module m.uuid).1 ir m.uuid g.n) m.proxies with
  | error e => rfl
  | ok g4 => rfl

/-- the entry point of a module message names a UUID that, when it is resolved, has no table entry or an entry
that is not a code block: the load raises `DeserializationError` -/
theorem C09_fault_entry (g : G) (m : SkIR) (pre post : List SkModule) (md : SkModule) (g1 g6 : G) (u : Nat)
    (hsplit : m.modules = pre ++ md :: post) (hpre : decodeModules g.n (mkIR g m.uuid) pre = .ok g1)
    (hfresh : g1.cache g.n md.uuid = none) (hhead : moduleHead g1 g.n md = .ok g6)
    (hu : md.entry = some u) (hbad : ¬ RefResolves g6 g.n (fun k => k == Kind.code) u) :
    load g m = .error .deser := by
  apply load_error_at hsplit hpre
  rw [decodeModule_fresh_eq md hfresh, hhead, hu]
  simp only []
  rw [((refKind_error_iff g6 g.n _ u).1).2 hbad]

/-- a symbolic expression of a module message uses a symbol UUID that, when it is resolved (after the module's
symbols are decoded), has no table entry or an entry that is not a symbol -/
theorem C09_fault_exprSym (g : G) (m : SkIR) (pre post : List SkModule) (md : SkModule) (g1 g6 g8 : G) (u : Nat)
    (hsplit : m.modules = pre ++ md :: post) (hpre : decodeModules g.n (mkIR g m.uuid) pre = .ok g1)
    (hfresh : g1.cache g.n md.uuid = none) (hhead : moduleHead g1 g.n md = .ok g6)
    (hentry : ∀ w, md.entry = some w → RefResolves g6 g.n (fun k => k == Kind.code) w)
    (hsyms : decodeAttach decodeSymbol g.n g1.n .syms g6 md.symbols = .ok g8)
    (hu : u ∈ md.exprSyms) (hbad : ¬ RefResolves g8 g.n (fun k => k == Kind.symbol) u) :
    load g m = .error .deser := by
  apply load_error_at hsplit hpre
  rw [decodeModule_fresh_eq md hfresh, hhead]
  simp only []
  have he : (match md.entry with
      | none => (.ok () : Except LErr Unit)
      | some u => refKind g6 g.n (fun k => k == Kind.code) u) = .ok () := by
    cases hent : md.entry with
    | none => rfl
    | some w => exact ((refKind_error_iff g6 g.n _ w).2.1).2 (hentry w hent)
  rw [he, hsyms]
  simp only []
  rcases resolveAll_cases g8 g.n (fun k => k == Kind.symbol) md.exprSyms with ⟨ns, _, _, a3⟩ | ⟨_, a2, _⟩
  · obtain ⟨n, _, h1, h2⟩ := a3.mem_left u hu
    exact absurd ⟨n, h1, h2⟩ hbad
  · rw [a2]

/-- a fresh symbol message names a referent UUID that, when it is resolved, has no table entry or an entry that
is not a code / data / proxy block -/
theorem C09_fault_referent (g : G) (m : SkIR) (pre post : List SkModule) (md : SkModule) (g1 g6 gs : G)
    (spre spost : List SkSymbol) (s : SkSymbol) (u : Nat)
    (hsplit : m.modules = pre ++ md :: post) (hpre : decodeModules g.n (mkIR g m.uuid) pre = .ok g1)
    (hfresh : g1.cache g.n md.uuid = none) (hhead : moduleHead g1 g.n md = .ok g6)
    (hentry : ∀ w, md.entry = some w → RefResolves g6 g.n (fun k => k == Kind.code) w)
    (hssplit : md.symbols = spre ++ s :: spost)
    (hspre : decodeAttach decodeSymbol g.n g1.n .syms g6 spre = .ok gs)
    (hsfresh : gs.cache g.n s.uuid = none) (hu : s.payload = .ref u)
    (hbad : ¬ RefResolves gs g.n isBlock u) :
    load g m = .error .deser := by
  apply load_error_at hsplit hpre
  rw [decodeModule_fresh_eq md hfresh, hhead]
  simp only []
  have he : (match md.entry with
      | none => (.ok () : Except LErr Unit)
      | some u => refKind g6 g.n (fun k => k == Kind.code) u) = .ok () := by
    cases hent : md.entry with
    | none => rfl
    | some w => exact ((refKind_error_iff g6 g.n _ w).2.1).2 (hentry w hent)
  have hsym : decodeSymbol gs g.n s = .error .deser := by
    rw [decodeSymbol_fresh_eq s hsfresh, hu]
    unfold resolvePayload
    simp only []
    cases hc : gs.cache g.n u with
    | none => rfl
    | some b =>
      simp only []
      by_cases hb : b = gs.n
      · subst hb
        simp [isBlock]
      · simp only [alloc_kind, if_neg hb]
        have : isBlock (gs.kind b) = false := by
          cases hk : isBlock (gs.kind b) with
          | false => rfl
          | true => exact absurd ⟨b, hc, hk⟩ hbad
        rw [this]
        rfl
  rw [he, hssplit, decodeAttach_append, hspre]
  simp only [decodeAttach, hsym]

/-- CFG edges are resolved last: once the modules are decoded, the load succeeds iff every edge end resolves
to a code block or proxy block, fails with `DeserializationError` iff one does not, and fails with nothing else -/
theorem C09_fault_edge_iff (g : G) (m : SkIR) (g2 : G)
    (hmods : decodeModules g.n (mkIR g m.uuid) m.modules = .ok g2) :
    (load g m = .error .deser ↔
      ∃ e, e ∈ m.edges ∧ ∃ u, u ∈ [e.1, e.2] ∧ ¬ RefResolves g2 g.n (fun k => k == Kind.code || k == Kind.proxy) u) ∧
    (load g m = .ok (g2, g.n) ↔
      ∀ e, e ∈ m.edges → ∀ u, u ∈ [e.1, e.2] → RefResolves g2 g.n (fun k => k == Kind.code || k == Kind.proxy) u) ∧
    (∀ e, load g m = .error e → e = .deser) := by
  have hl : load g m = match checkAll g2 g.n (fun k => k == Kind.code || k == Kind.proxy)
      (m.edges.flatMap fun e => [e.1, e.2]) with
      | .error e => .error e
      | .ok _ => .ok (g2, g.n) := by
    unfold load
    simp only []
    rw [hmods]
    rfl
  rw [hl]
  rcases resolveEdges_cases g2 g.n (fun k => k == Kind.code || k == Kind.proxy) m.edges with
    ⟨ps, _, a2, a3⟩ | ⟨_, a2, e, he, u, hu, hbad⟩
  · rw [a2]
    have hall : ∀ e, e ∈ m.edges → ∀ u, u ∈ [e.1, e.2] →
        RefResolves g2 g.n (fun k => k == Kind.code || k == Kind.proxy) u := by
      intro e he u hu
      obtain ⟨p, _, ⟨c1, k1⟩, ⟨c2, k2⟩⟩ := a3.mem_left e he
      simp only [List.mem_cons, List.not_mem_nil, or_false] at hu
      rcases hu with rfl | rfl
      · exact ⟨p.1, c1, k1⟩
      · exact ⟨p.2, c2, k2⟩
    refine ⟨⟨fun h => (by cases h), ?_⟩, ⟨fun _ => hall, fun _ => rfl⟩, fun e h => (by cases h)⟩
    rintro ⟨e, he, u, hu, hbad⟩
    exact absurd (hall e he u hu) hbad
  · rw [a2]
    refine ⟨⟨fun _ => ⟨e, he, u, hu, hbad⟩, fun _ => rfl⟩, ⟨fun h => (by cases h), ?_⟩, fun e h => (by cases h; rfl)⟩
    intro hall
    exact absurd (hall e he u hu) hbad

/-- the step that resolves a referent: only `DeserializationError`, exactly when the table has no entry that is
a block (`decodeSymbol_fresh_eq`: this is the step `decodeSymbol` runs on a fresh symbol message) -/
theorem resolvePayload_error_iff (cache : Nat → Option Nat) (kind : Nat → Kind) (u : Nat) :
    (resolvePayload cache kind (.ref u) = .error .deser ↔ ¬ ∃ b, cache u = some b ∧ isBlock (kind b) = true) ∧
    (∀ p e, resolvePayload cache kind p = .error e → e = .deser) := by
  refine ⟨?_, ?_⟩
  · unfold resolvePayload
    simp only []
    cases hc : cache u with
    | none => exact ⟨fun _ ⟨b, h, _⟩ => (by cases h), fun _ => rfl⟩
    | some b =>
      simp only []
      by_cases hk : isBlock (kind b) = true
      · rw [if_pos hk]
        exact ⟨fun h => (by cases h), fun h => absurd ⟨b, rfl, hk⟩ h⟩
      · rw [if_neg hk]
        refine ⟨fun _ => ?_, fun _ => rfl⟩
        rintro ⟨b', h, hk'⟩
        cases h; exact hk hk'
  · intro p e h
    unfold resolvePayload at h
    cases p with
    | none => cases h
    | int n => cases h
    | ref u =>
      simp only [] at h
      cases hc : cache u with
      | none => rw [hc] at h; cases h; rfl
      | some b =>
        rw [hc] at h
        simp only [] at h
        by_cases hk : isBlock (kind b) = true
        · rw [if_pos hk] at h; cases h
        · rw [if_neg hk] at h; cases h; rfl

/-! ### non-vacuity and examples

`skFull` (`C03Load.lean`): proxy 20 (node 2); section 30 / interval 31 with code block 32 (node 5) and data block
33 (node 6); symbols 40 (node 7, referent 32), 41 (node 8, referent 20), 42 (value); entry point 32; an
expression using symbol 40; an edge 32 -> 20. -/

def refsOf (r : Except LErr (G × Nat × Refs)) : Option (Nat × Refs) :=
  match r with
  | .ok (_, ir, r) => some (ir, r)
  | .error _ => none

def isDeser {α : Type} (r : Except LErr α) : Bool :=
  match r with
  | .error .deser => true
  | _ => false

/-- what `loadR` records for `skFull`: the entry point of module node 1 is code block node 5, its expression uses
symbol node 7, the edge joins node 5 and proxy node 2; the symbols 7 and 8 hold the referents 5 and 2 -/
theorem skFull_refs :
    refsOf (loadR {} skFull) = some (0, { entries := [(1, 5)], exprSyms := [(1, 7)], edges := [(5, 2)] }) ∧
    (match loadR {} skFull with
      | .ok (g, _, _) => some (g.payload 7, g.payload 8, g.payload 9)
      | .error _ => none) = some (.block 5, .block 2, .int 5) := by decide

/-- `C09_loadR_identity` and `C09_load_referent_identity` are not vacuous: `skFull` is accepted, has an entry
point, an expression symbol, an edge and two referents, and pairwise distinct node UUIDs -/
example : ∃ g' ir r, loadR {} skFull = .ok (g', ir, r) ∧ r.entries = [(1, 5)] ∧ r.exprSyms = [(1, 7)] ∧
    r.edges = [(5, 2)] ∧
    getByUuid g' ir 10 = some 1 ∧ getByUuid g' ir 32 = some 5 ∧ getByUuid g' ir 40 = some 7 ∧
    getByUuid g' ir 20 = some 2 ∧ IsLoaded {} g' (· = .code) 32 5 ∧ IsLoaded {} g' (· = .symbol) 40 7 ∧
    IsLoaded {} g' codeOrProxy 20 2 := by
  cases h : loadR {} skFull with
  | error e => have := skFull_refs.1; rw [h] at this; cases this
  | ok x =>
    obtain ⟨g', ir, r⟩ := x
    have hs := skFull_refs.1
    rw [h] at hs
    simp only [refsOf, Option.some.injEq, Prod.mk.injEq] at hs
    obtain ⟨rfl, rfl⟩ := hs
    obtain ⟨i1, i2, i3⟩ := C09_loadR_identity {} g' skFull 0 _ C04_init h skFull_nodup
    -- the three lists have one element each
    have e1 : skFull.modules.filterMap entryOf = [(10, 32)] := by decide
    have e2 : skFull.modules.flatMap exprsOf = [(10, 40)] := by decide
    rw [e1] at i1; rw [e2] at i2
    cases i1 with
    | cons a1 _ =>
      cases i2 with
      | cons a2 _ =>
        have i3' : Forall2 _ [(32, 20)] [(5, 2)] := i3
        cases i3' with
        | cons a3 _ =>
          exact ⟨g', 0, _, rfl, rfl, rfl, rfl, a1.1.2, a1.2.2, a2.2.2, a3.2.2, a1.2.1, a2.2.1, a3.2.1⟩

/-- the referents of `skFull`, through `C09_load_referent_identity`: symbol node 7 refers to node 5, which is the
table's answer for UUID 32, the UUID the symbol message 40 names -/
example : ∃ g' ir, load {} skFull = .ok (g', ir) ∧ g'.payload 7 = .block 5 ∧
    IsLoaded {} g' blockKind (g'.uuid 5) 5 ∧ getByUuid g' ir (g'.uuid 5) = some 5 ∧
    ∃ md, md ∈ skFull.modules ∧ ∃ s, s ∈ md.symbols ∧ s.uuid = g'.uuid 7 ∧ s.payload = .ref (g'.uuid 5) := by
  cases h : loadR {} skFull with
  | error e => have := skFull_refs.1; rw [h] at this; cases this
  | ok x =>
    obtain ⟨g', ir, r⟩ := x
    have hp := skFull_refs.2
    rw [h] at hp
    simp only [Option.some.injEq, Prod.mk.injEq] at hp
    have hl := loadR_ok_load h
    have hk : g'.kind 7 = .symbol ∧ 7 < g'.n := by
      have hs : (match loadR {} skFull with
          | .ok (g, _, _) => decide (g.kind 7 = .symbol ∧ 7 < g.n)
          | .error _ => false) = true := by decide
      rw [h] at hs
      simpa using hs
    obtain ⟨a, b, c⟩ := C09_load_referent_identity {} g' skFull ir C04_init hl 7 (Nat.zero_le _) hk.2 hk.1 5 hp.1
    exact ⟨g', ir, hl, hp.1, a, (c skFull_nodup).1, b⟩

/-- a message with a duplicated UUID in which the final table does NOT answer the recorded entry point: module 10
has code block 32 (node 4) as entry point and as referent of symbol 40; module 11 re-uses section 30 - moving it
out of the IR deletes the keys 30, 31, 32 - and then declares another code block with UUID 32 (node 9), which is
created fresh and registered last -/
def skMoved : SkIR :=
  { uuid := 1, edges := [],
    modules := [{ uuid := 10, proxies := [], symbols := [{ uuid := 40, name := 1, payload := .ref 32 }],
                  entry := some 32, exprSyms := [40],
                  sections := [{ uuid := 30, intervals := [{ uuid := 31, blocks := [(32, true)] }] }] },
                { uuid := 11, proxies := [], symbols := [], entry := none, exprSyms := [],
                  sections := [{ uuid := 30, intervals := [] },
                               { uuid := 35, intervals := [{ uuid := 36, blocks := [(32, true)] }] }] }] }

/-- accepted; the recorded entry point of module node 1 is node 4 and symbol node 5 refers to node 4; node 4 and
node 9 are both code blocks with UUID 32 attached to the loaded IR (as `C09_loadR_sound` says of node 4); but the
final table answers node 9 for UUID 32. So `getByUuid g' ir u = some n` needs the distinctness hypothesis of
`C09_loadR_identity`; kind, UUID and membership in the IR do not. -/
theorem C09_entry_moved_example :
    (match loadR {} skMoved with
      | .ok (g, ir, r) => some (r.entries, r.exprSyms, g.payload 5, getByUuid g ir 32)
      | .error _ => none) = some ([(1, 4)], [(1, 5)], .block 4, some 9) ∧
    (match loadR {} skMoved with
      | .ok (g, _, _) => some (g.kind 4, g.kind 9, g.uuid 4, g.uuid 9)
      | .error _ => none) = some (.code, .code, 32, 32) ∧
    (match loadR {} skMoved with
      | .ok (g, _, _) => some (irOf g 4, irOf g 9)
      | .error _ => none) = some (some 0, some 0) := by
  refine ⟨?_, ?_, ?_⟩ <;> decide

/-! reference faults: each of the four kinds, "no entry" and "entry of the wrong kind" -/

def skBadEntry : SkIR := { skFull with modules := skFull.modules.map fun md => { md with entry := some 99 } }
/-- the entry point names the data block 33 -/
def skBadEntryKind : SkIR := { skFull with modules := skFull.modules.map fun md => { md with entry := some 33 } }
def skBadExpr : SkIR := { skFull with modules := skFull.modules.map fun md => { md with exprSyms := [40, 99] } }
/-- an expression uses the code block 32 as a symbol -/
def skBadExprKind : SkIR := { skFull with modules := skFull.modules.map fun md => { md with exprSyms := [32] } }
def skBadRef : SkIR :=
  { skFull with modules := skFull.modules.map fun md =>
      { md with symbols := md.symbols ++ [{ uuid := 43, name := 9, payload := .ref 99 }] } }
/-- a symbol refers to the section 30 -/
def skBadRefKind : SkIR :=
  { skFull with modules := skFull.modules.map fun md =>
      { md with symbols := md.symbols ++ [{ uuid := 43, name := 9, payload := .ref 30 }] } }
def skBadEdge : SkIR := { skFull with edges := [(32, 20), (99, 32)] }
/-- an edge ends in the data block 33 -/
def skBadEdgeKind : SkIR := { skFull with edges := [(32, 33)] }

/-- every reference fault is a `DeserializationError` (never an exception of the object graph, never success);
in `skBadExpr` the entry point and the first expression symbol resolve and the load still fails with
`DeserializationError` for a later reference - which is why, for the references resolved in the middle of the
load, "fault iff `load = .error .deser`" holds per resolution step (`refKind_error_iff`,
`resolvePayload_error_iff`) and as an implication for the whole load (`C09_fault_entry`, `C09_fault_exprSym`,
`C09_fault_referent`), and as an equivalence only for the edges, which are resolved last (`C09_fault_edge_iff`) -/
theorem C09_fault_examples :
    isDeser (load {} skBadEntry) = true ∧ isDeser (load {} skBadEntryKind) = true ∧
    isDeser (load {} skBadExpr) = true ∧ isDeser (load {} skBadExprKind) = true ∧
    isDeser (load {} skBadRef) = true ∧ isDeser (load {} skBadRefKind) = true ∧
    isDeser (load {} skBadEdge) = true ∧ isDeser (load {} skBadEdgeKind) = true := by decide

def resolvesB (g : G) (ir : Nat) (ok : Kind → Bool) (u : Nat) : Bool :=
  match g.cache ir u with
  | some n => ok (g.kind n)
  | none => false

theorem resolves_iff (g : G) (ir : Nat) (ok : Kind → Bool) (u : Nat) :
    RefResolves g ir ok u ↔ resolvesB g ir ok u = true := by
  unfold RefResolves resolvesB
  cases g.cache ir u with
  | none => simp
  | some n => simp

/-- the hypotheses of `C09_fault_entry` are satisfiable: the module head of `skBadEntryKind` decodes, and in the
state reached UUID 33 resolves to a data block -/
example : load {} skBadEntryKind = .error .deser := by
  have key : (match skBadEntryKind.modules with
      | [md] =>
        (match moduleHead (mkIR {} 1) 0 md with
          | .ok g6 => resolvesB g6 0 (fun k => k == Kind.data) 33 && !resolvesB g6 0 (fun k => k == Kind.code) 33
          | .error _ => false)
      | _ => false) = true := by decide
  have hmods : ∃ md, skBadEntryKind.modules = [md] ∧ md.entry = some 33 ∧ md.uuid = 10 :=
    ⟨_, rfl, rfl, rfl⟩
  obtain ⟨md, hmd, hent, hmu⟩ := hmods
  rw [hmd] at key
  simp only [] at key
  cases h : moduleHead (mkIR ({} : G) 1) 0 md with
  | error e => rw [h] at key; cases key
  | ok g6 =>
    rw [h] at key
    simp only [Bool.and_eq_true, Bool.not_eq_true'] at key
    refine C09_fault_entry {} skBadEntryKind [] [] md (mkIR {} 1) g6 33 hmd rfl ?_ h hent ?_
    · rw [hmu]; rfl
    · rw [resolves_iff, key.2]; simp

/-- the hypothesis of `C09_fault_edge_iff` is satisfiable, on an accepted and on a rejected message -/
example : (∃ g2, decodeModules 0 (mkIR {} 1) skFull.modules = .ok g2) ∧
    (∃ g2, decodeModules 0 (mkIR {} 1) skBadEdge.modules = .ok g2) := by
  have key : (match decodeModules 0 (mkIR {} 1) skFull.modules with
      | .ok _ => true
      | .error _ => false) = true := by decide
  cases h : decodeModules 0 (mkIR ({} : G) 1) skFull.modules with
  | error e => rw [h] at key; cases key
  | ok g2 => exact ⟨⟨g2, rfl⟩, ⟨g2, h⟩⟩

end Gtirb.Loader
