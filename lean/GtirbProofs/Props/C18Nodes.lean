import GtirbProofs.Props.C18
import GtirbModel.DeepEqNodes
/-! C18 below the IR level: `deep_eq` between two *nodes of one kind* (blocks,
symbols, symbolic expressions, byte intervals, sections, modules) holds exactly
when the two nodes *show* the same thing (`GtirbModel/DeepEqNodes.lean`): their
own compared fields, their children in canonical order, and for every reference
the content of the node it denotes in the node's own IR.

Each `C18_node_*` theorem is split into its two directions, because they need
different hypotheses:

* `*_obs` (`deep_eq = true → observations equal`) needs only that the
  collections compared *as sets* (attributes, flags, AuxData keys) have no
  duplicates (`Distinct*`), on both sides;
* `*_of_obs` (`observations equal → deep_eq = true`) needs only that the
  references of the *left* node resolve (`SymbolOk`, `ExprDeepOk`, `ModuleOk`),
  because a dangling reference is not `deep_eq` to itself while its observation
  (`none`) is equal to itself. -/
namespace Gtirb.Msg

/-! ### `allZip` with a different projection on either side -/
section AllZip2
variable {α β : Type}

theorem map_eq_of_allZip₂ {f : α → α → Bool} {g g' : α → β} : ∀ {l1 l2 : List α},
    allZip f l1 l2 = true → (∀ x ∈ l1, ∀ y ∈ l2, f x y = true → g x = g' y) →
    l1.map g = l2.map g'
  | [], [], _, _ => rfl
  | [], _ :: _, h, _ => by simp [allZip] at h
  | _ :: _, [], h, _ => by simp [allZip] at h
  | a :: as, b :: bs, h, hf => by
    simp only [allZip, Bool.and_eq_true] at h
    rw [List.map_cons, List.map_cons, hf a List.mem_cons_self b List.mem_cons_self h.1,
      map_eq_of_allZip₂ h.2
        (fun x hx y hy => hf x (List.mem_cons_of_mem _ hx) y (List.mem_cons_of_mem _ hy))]

theorem allZip_of_map_eq₂ {f : α → α → Bool} {g g' : α → β} : ∀ {l1 l2 : List α},
    l1.map g = l2.map g' → (∀ x ∈ l1, ∀ y ∈ l2, g x = g' y → f x y = true) →
    allZip f l1 l2 = true
  | [], [], _, _ => rfl
  | [], _ :: _, h, _ => by simp at h
  | _ :: _, [], h, _ => by simp at h
  | a :: as, b :: bs, h, hf => by
    simp only [List.map_cons, List.cons.injEq] at h
    simp only [allZip, Bool.and_eq_true]
    exact ⟨hf a List.mem_cons_self b List.mem_cons_self h.1,
      allZip_of_map_eq₂ h.2
        (fun x hx y hy => hf x (List.mem_cons_of_mem _ hx) y (List.mem_cons_of_mem _ hy))⟩

/-- every member of the left list is zipped with some member of the right list -/
theorem exists_of_allZip {f : α → α → Bool} : ∀ {l1 l2 : List α} {x : α},
    allZip f l1 l2 = true → x ∈ l1 → ∃ y ∈ l2, f x y = true
  | [], _, _, _, hx => by cases hx
  | _ :: _, [], _, h, _ => by simp [allZip] at h
  | a :: as, b :: bs, x, h, hx => by
    simp only [allZip, Bool.and_eq_true] at h
    rcases List.mem_cons.1 hx with rfl | hx'
    · exact ⟨b, List.mem_cons_self, h.1⟩
    · obtain ⟨y, hy, hxy⟩ := exists_of_allZip h.2 hx'
      exact ⟨y, List.mem_cons_of_mem _ hy, hxy⟩

theorem length_eq_of_map_eq {g g' : α → β} {l1 l2 : List α} (h : l1.map g = l2.map g') :
    l1.length = l2.length := by
  have := congrArg List.length h
  simpa only [List.length_map] using this

end AllZip2

/-! ### blocks -/

theorem C18_node_block (x y : BlockV) : blockDeepEq x y = true ↔ x = y := blockDeepEq_iff x y

theorem C18_node_block_symm (x y : BlockV) : blockDeepEq x y = blockDeepEq y x := blockDeepEq_comm x y

theorem C18_node_block_refl (x : BlockV) : blockDeepEq x x = true := (blockDeepEq_iff x x).2 rfl

/-! ### symbols -/

theorem symbolDeepEq_obs {va vb : IRV} {a b : SymbolV} (h : symbolDeepEq va vb a b = true) :
    symObs va a = symObs vb b := by
  obtain ⟨u, n, p, e⟩ := a; obtain ⟨u', n', p', e'⟩ := b
  simp only [symbolDeepEq, Bool.and_eq_true, beq_iff_eq] at h
  obtain ⟨⟨⟨hp, hn⟩, he⟩, hu⟩ := h
  subst hn he hu
  cases p <;> cases p' <;> simp [symObs] at hp ⊢
  · exact hp
  · exact ((refDeepEq_iff _ _).1 hp).1

theorem symbolDeepEq_of_obs {va vb : IRV} {a b : SymbolV} (ha : SymbolOk va a)
    (h : symObs va a = symObs vb b) : symbolDeepEq va vb a b = true := by
  obtain ⟨u, n, p, e⟩ := a; obtain ⟨u', n', p', e'⟩ := b
  simp only [symObs, SymObs.mk.injEq] at h
  obtain ⟨hu, hn, he, hp⟩ := h
  subst hu hn he
  simp only [symbolDeepEq, Bool.and_eq_true, beq_self_eq_true, and_true]
  cases p <;> cases p' <;> simp at hp ⊢
  · exact hp
  · rename_i r r'
    exact (refDeepEq_iff _ _).2 ⟨hp, ha r (by simp [PayloadV.refs])⟩

theorem C18_node_symbol (va vb : IRV) (a b : SymbolV) (ha : SymbolOk va a) :
    symbolDeepEq va vb a b = true ↔ symObs va a = symObs vb b :=
  ⟨symbolDeepEq_obs, symbolDeepEq_of_obs ha⟩

theorem C18_node_symbol_symm (va vb : IRV) (a b : SymbolV) :
    symbolDeepEq va vb a b = symbolDeepEq vb va b a := symbolDeepEq_comm va vb a b

/-! ### symbol references and symbolic expressions -/

/-- every symbol an expression mentions resolves, and that symbol's referent resolves -/
def ExprDeepOk (v : IRV) (e : ExprEntryV) : Prop :=
  ∀ u ∈ e.expr.syms, ∃ s, v.findSymbol u = some s ∧ SymbolOk v s

theorem symRefDeepEq_obs {va vb : IRV} {u u' : U} (h : symRefDeepEq va vb u u' = true) :
    symRefObs va u = symRefObs vb u' := by
  unfold symRefDeepEq at h
  split at h
  · rename_i a b ha hb
    simp only [symRefObs, ha, hb, Option.map_some, symbolDeepEq_obs h]
  · cases h

/-- `symRefDeepEq` also says that both references resolve -/
theorem symRefDeepEq_isSome {va vb : IRV} {u u' : U} (h : symRefDeepEq va vb u u' = true) :
    (symRefObs va u).isSome = true ∧ (symRefObs vb u').isSome = true := by
  unfold symRefDeepEq at h
  split at h
  · rename_i a b ha hb
    simp [symRefObs, ha, hb]
  · cases h

theorem symRefDeepEq_of_obs {va vb : IRV} {u u' : U}
    (ha : ∃ s, va.findSymbol u = some s ∧ SymbolOk va s)
    (h : symRefObs va u = symRefObs vb u') : symRefDeepEq va vb u u' = true := by
  obtain ⟨s, hs, hok⟩ := ha
  simp only [symRefObs, hs, Option.map_some] at h
  cases hb : vb.findSymbol u' with
  | none => simp [hb] at h
  | some s' =>
    simp only [hb, Option.map_some, Option.some.injEq] at h
    simp only [symRefDeepEq, hs, hb]
    exact symbolDeepEq_of_obs hok h

theorem exprDeepEq_obs {va vb : IRV} {a b : ExprEntryV} (hna : a.attrs.Nodup) (hnb : b.attrs.Nodup)
    (h : exprDeepEq va vb a b = true) : exprObs va a = exprObs vb b := by
  obtain ⟨k, x, at1⟩ := a; obtain ⟨k', x', at2⟩ := b
  simp only [exprDeepEq, Bool.and_eq_true, beq_iff_eq] at h
  obtain ⟨⟨hk, hx⟩, hat⟩ := h
  have hat' := sortNats_eq_of_sameSet hna hnb hat
  simp only [exprObs, ExprEntryObs.mk.injEq]
  refine ⟨hk, ?_, hat'⟩
  cases x <;> cases x' <;> simp only [Bool.and_eq_true, beq_iff_eq] at hx
  · show ExprObs.addrConst _ (symRefObs va _) = ExprObs.addrConst _ (symRefObs vb _)
    rw [hx.1, symRefDeepEq_obs hx.2]
  · cases hx
  · cases hx
  · obtain ⟨⟨⟨h1, h2⟩, h3⟩, h4⟩ := hx
    show ExprObs.addrAddr _ _ (symRefObs va _) (symRefObs va _)
      = ExprObs.addrAddr _ _ (symRefObs vb _) (symRefObs vb _)
    rw [h1, h2, symRefDeepEq_obs h3, symRefDeepEq_obs h4]

theorem exprDeepEq_of_obs {va vb : IRV} {a b : ExprEntryV} (ha : ExprDeepOk va a)
    (h : exprObs va a = exprObs vb b) : exprDeepEq va vb a b = true := by
  obtain ⟨k, x, at1⟩ := a; obtain ⟨k', x', at2⟩ := b
  simp only [exprObs, ExprEntryObs.mk.injEq] at h
  obtain ⟨hk, hx, hat⟩ := h
  simp only [exprDeepEq, Bool.and_eq_true, beq_iff_eq]
  refine ⟨⟨hk, ?_⟩, sameSet_of_sortNats_eq hat⟩
  cases x with
  | addrConst o s =>
    cases x' with
    | addrConst o' s' =>
      simp only [ExprObs.addrConst.injEq] at hx
      simp only [Bool.and_eq_true, beq_iff_eq]
      exact ⟨hx.1, symRefDeepEq_of_obs (ha s (by simp [SymExprV.syms])) hx.2⟩
    | addrAddr c' o' s1' s2' => cases hx
  | addrAddr c o s1 s2 =>
    cases x' with
    | addrConst o' s' => cases hx
    | addrAddr c' o' s1' s2' =>
      simp only [ExprObs.addrAddr.injEq] at hx
      simp only [Bool.and_eq_true, beq_iff_eq]
      exact ⟨⟨⟨hx.1, hx.2.1⟩, symRefDeepEq_of_obs (ha s1 (by simp [SymExprV.syms])) hx.2.2.1⟩,
        symRefDeepEq_of_obs (ha s2 (by simp [SymExprV.syms])) hx.2.2.2⟩

theorem C18_node_expr (va vb : IRV) (a b : ExprEntryV) (hna : a.attrs.Nodup) (hnb : b.attrs.Nodup)
    (ha : ExprDeepOk va a) :
    exprDeepEq va vb a b = true ↔ exprObs va a = exprObs vb b :=
  ⟨exprDeepEq_obs hna hnb, exprDeepEq_of_obs ha⟩

theorem C18_node_expr_symm (va vb : IRV) (a b : ExprEntryV) :
    exprDeepEq va vb a b = exprDeepEq vb va b a := exprDeepEq_comm va vb a b

/-! ### byte intervals -/

theorem intervalDeepEq_obs {va vb : IRV} {a b : IntervalV}
    (hna : ∀ e ∈ a.exprs, e.attrs.Nodup) (hnb : ∀ e ∈ b.exprs, e.attrs.Nodup)
    (h : intervalDeepEq va vb a b = true) : intervalObs va a = intervalObs vb b := by
  simp only [intervalDeepEq, Bool.and_eq_true, beq_iff_eq] at h
  obtain ⟨⟨⟨⟨⟨⟨⟨h1, h2⟩, h3⟩, h4⟩, _⟩, h6⟩, _⟩, h8⟩ := h
  have hb := eq_of_allZip h6 (fun x _ y _ => (blockDeepEq_iff x y).1)
  have he := map_eq_of_allZip₂ (g := exprObs va) (g' := exprObs vb) h8 (fun x hx y hy hxy =>
    exprDeepEq_obs (hna x ((mem_sortBy _).1 hx)) (hnb y ((mem_sortBy _).1 hy)) hxy)
  simp only [intervalObs, IntervalObs.mk.injEq]
  exact ⟨h1, h2, h4, h3, hb, he⟩

theorem intervalDeepEq_of_obs {va vb : IRV} {a b : IntervalV} (ha : ∀ e ∈ a.exprs, ExprDeepOk va e)
    (h : intervalObs va a = intervalObs vb b) : intervalDeepEq va vb a b = true := by
  simp only [intervalObs, IntervalObs.mk.injEq] at h
  obtain ⟨h1, h2, h3, h4, h5, h6⟩ := h
  have l5 : a.blocks.length = b.blocks.length := by
    have := congrArg List.length h5; simpa only [length_sortBy] using this
  have l6 : a.exprs.length = b.exprs.length := by
    have := length_eq_of_map_eq h6; simpa only [length_sortBy] using this
  simp only [intervalDeepEq, Bool.and_eq_true, beq_iff_eq]
  refine ⟨⟨⟨⟨⟨⟨⟨h1, h2⟩, h4⟩, h3⟩, l5⟩, ?_⟩, l6⟩, ?_⟩
  · rw [h5]; exact allZip_self (fun x _ => (blockDeepEq_iff x x).2 rfl)
  · exact allZip_of_map_eq₂ h6 (fun e he e' _ hee =>
      exprDeepEq_of_obs (ha e ((mem_sortBy _).1 he)) hee)

theorem C18_node_interval (va vb : IRV) (a b : IntervalV) (hda : DistinctInterval a)
    (hdb : DistinctInterval b) (ha : ∀ e ∈ a.exprs, ExprDeepOk va e) :
    intervalDeepEq va vb a b = true ↔ intervalObs va a = intervalObs vb b :=
  ⟨intervalDeepEq_obs hda.2.2 hdb.2.2, intervalDeepEq_of_obs ha⟩

theorem C18_node_interval_symm (va vb : IRV) (a b : IntervalV) :
    intervalDeepEq va vb a b = intervalDeepEq vb va b a := intervalDeepEq_comm va vb a b

/-! ### sections -/

theorem sectionDeepEq_obs {va vb : IRV} {a b : SectionV} (hda : DistinctSection a)
    (hdb : DistinctSection b) (h : sectionDeepEq va vb a b = true) :
    sectionObs va a = sectionObs vb b := by
  simp only [sectionDeepEq, Bool.and_eq_true, beq_iff_eq] at h
  obtain ⟨⟨⟨⟨h1, h2⟩, _⟩, h4⟩, h5⟩ := h
  have hi := map_eq_of_allZip₂ (g := intervalObs va) (g' := intervalObs vb) h4 (fun x hx y hy hxy =>
    intervalDeepEq_obs (hda.2.2 x ((mem_sortBy _).1 hx)).2.2 (hdb.2.2 y ((mem_sortBy _).1 hy)).2.2 hxy)
  have hf := sortNats_eq_of_sameSet hda.1 hdb.1 h5
  simp only [sectionObs, SectionObs.mk.injEq]
  exact ⟨h1, h2, hf, hi⟩

theorem sectionDeepEq_of_obs {va vb : IRV} {a b : SectionV}
    (ha : ∀ i ∈ a.intervals, ∀ e ∈ i.exprs, ExprDeepOk va e)
    (h : sectionObs va a = sectionObs vb b) : sectionDeepEq va vb a b = true := by
  simp only [sectionObs, SectionObs.mk.injEq] at h
  obtain ⟨h1, h2, h3, h4⟩ := h
  have l4 : a.intervals.length = b.intervals.length := by
    have := length_eq_of_map_eq h4; simpa only [length_sortBy] using this
  simp only [sectionDeepEq, Bool.and_eq_true, beq_iff_eq]
  refine ⟨⟨⟨⟨h1, h2⟩, l4⟩, ?_⟩, sameSet_of_sortNats_eq h3⟩
  exact allZip_of_map_eq₂ h4 (fun i hi i' _ hii =>
    intervalDeepEq_of_obs (ha i ((mem_sortBy _).1 hi)) hii)

theorem C18_node_section (va vb : IRV) (a b : SectionV) (hda : DistinctSection a)
    (hdb : DistinctSection b) (ha : ∀ i ∈ a.intervals, ∀ e ∈ i.exprs, ExprDeepOk va e) :
    sectionDeepEq va vb a b = true ↔ sectionObs va a = sectionObs vb b :=
  ⟨sectionDeepEq_obs hda hdb, sectionDeepEq_of_obs ha⟩

theorem C18_node_section_symm (va vb : IRV) (a b : SectionV) :
    sectionDeepEq va vb a b = sectionDeepEq vb va b a := sectionDeepEq_comm va vb a b

/-! ### modules -/

theorem sortStrs_keys_eq_of_sameKeys {a b : List AuxV} (ha : (a.map (·.key)).Nodup)
    (hb : (b.map (·.key)).Nodup) (h : sameKeys a b = true) :
    (a.map (·.key)).foldr insertStr [] = (b.map (·.key)).foldr insertStr [] :=
  canonAux_inj.1 (canonAux_eq_of_sameKeys ha hb h)

theorem sameKeys_of_sortStrs_keys_eq {a b : List AuxV}
    (h : (a.map (·.key)).foldr insertStr [] = (b.map (·.key)).foldr insertStr []) :
    sameKeys a b = true :=
  sameKeys_of_canonAux_eq (canonAux_inj.2 h)

theorem moduleDeepEq_obs {va vb : IRV} {a b : ModuleV} (hda : DistinctModule a)
    (hdb : DistinctModule b) (h : moduleDeepEq va vb a b = true) :
    moduleObs va a = moduleObs vb b := by
  simp only [moduleDeepEq, Bool.and_eq_true, beq_iff_eq] at h
  obtain ⟨⟨⟨⟨⟨⟨⟨⟨⟨⟨⟨⟨⟨⟨⟨h1, h2⟩, h3⟩, h4⟩, h5⟩, h6⟩, h7⟩, h8⟩, h9⟩, _⟩, h11⟩, _⟩, h13⟩, _⟩, h15⟩, h16⟩ := h
  have hp := eq_of_allZip h11 (fun x _ y _ hxy => by simpa using hxy)
  have hs := map_eq_of_allZip₂ (g := sectionObs va) (g' := sectionObs vb) h13 (fun x hx y hy hxy =>
    sectionDeepEq_obs (hda.2.2.2.2 x ((mem_sortBy _).1 hx)) (hdb.2.2.2.2 y ((mem_sortBy _).1 hy)) hxy)
  have hy := map_eq_of_allZip₂ (g := symObs va) (g' := symObs vb) h15
    (fun x _ y _ hxy => symbolDeepEq_obs hxy)
  have hk := sortStrs_keys_eq_of_sameKeys hda.2.2.2.1 hdb.2.2.2.1 h2
  have hep : a.entryPoint.map va.findBlock = b.entryPoint.map vb.findBlock := by
    revert h16
    cases a.entryPoint <;> cases b.entryPoint <;> simp
    intro h; exact ((refDeepEq_iff _ _).1 h).1
  simp only [moduleObs, ModuleObs.mk.injEq]
  exact ⟨h1, h7, h3, h8, h9, h6, h4, h5, hep, hp, hs, hy, hk⟩

theorem moduleDeepEq_of_obs {va vb : IRV} {a b : ModuleV} (ha : ModuleOk va a)
    (hae : ∀ s ∈ a.sections, ∀ i ∈ s.intervals, ∀ e ∈ i.exprs, ExprDeepOk va e)
    (h : moduleObs va a = moduleObs vb b) : moduleDeepEq va vb a b = true := by
  simp only [moduleObs, ModuleObs.mk.injEq] at h
  obtain ⟨h1, h2, h3, h4, h5, h6, h7, h8, h9, h10, h11, h12, h13⟩ := h
  have l10 : a.proxies.length = b.proxies.length := by
    have := congrArg List.length h10; simpa only [length_sortBy] using this
  have l11 : a.sections.length = b.sections.length := by
    have := length_eq_of_map_eq h11; simpa only [length_sortBy] using this
  have l12 : a.symbols.length = b.symbols.length := by
    have := length_eq_of_map_eq h12; simpa only [length_sortBy] using this
  simp only [moduleDeepEq, Bool.and_eq_true, beq_iff_eq]
  refine ⟨⟨⟨⟨⟨⟨⟨⟨⟨⟨⟨⟨⟨⟨⟨h1, sameKeys_of_sortStrs_keys_eq h13⟩, h3⟩, h7⟩, h8⟩, h6⟩, h2⟩, h4⟩, h5⟩, l10⟩, ?_⟩,
    l11⟩, ?_⟩, l12⟩, ?_⟩, ?_⟩
  · rw [h10]; exact allZip_self (fun u _ => by simp)
  · exact allZip_of_map_eq₂ h11 (fun s hs s' _ hss =>
      sectionDeepEq_of_obs (hae s ((mem_sortBy _).1 hs)) hss)
  · exact allZip_of_map_eq₂ h12 (fun s hs s' _ hss =>
      symbolDeepEq_of_obs (ha.2.1 s ((mem_sortBy _).1 hs)) hss)
  · revert h9
    cases hep : a.entryPoint with
    | none => cases b.entryPoint <;> simp
    | some u =>
      cases b.entryPoint with
      | none => simp
      | some u' =>
        simp only [Option.map_some, Option.some.injEq]
        intro h9
        exact (refDeepEq_iff _ _).2 ⟨h9, ha.2.2 u (by simp [hep])⟩

theorem C18_node_module (va vb : IRV) (a b : ModuleV) (hda : DistinctModule a) (hdb : DistinctModule b)
    (ha : ModuleOk va a)
    (hae : ∀ s ∈ a.sections, ∀ i ∈ s.intervals, ∀ e ∈ i.exprs, ExprDeepOk va e) :
    moduleDeepEq va vb a b = true ↔ moduleObs va a = moduleObs vb b :=
  ⟨moduleDeepEq_obs hda hdb, moduleDeepEq_of_obs ha hae⟩

theorem C18_node_module_symm (va vb : IRV) (a b : ModuleV) :
    moduleDeepEq va vb a b = moduleDeepEq vb va b a := moduleDeepEq_comm va vb a b

/-! ### the node-local side conditions follow from the IR-level hypotheses -/

theorem exprDeepOk_of_selfContained (v : IRV) (hs : SelfContained v) {m : ModuleV} {s : SectionV}
    {i : IntervalV} {e : ExprEntryV} (hm : m ∈ v.modules) (hs' : s ∈ m.sections)
    (hi : i ∈ s.intervals) (he : e ∈ i.exprs) : ExprDeepOk v e := by
  intro u hu
  have hok : (v.findSymbol u).isSome = true := (hs.2.2.1 m hm).1 s hs' i hi e he u hu
  obtain ⟨y, hy⟩ := Option.isSome_iff_exists.1 hok
  exact ⟨y, hy, symbols_ok hs y (List.mem_of_find?_eq_some hy)⟩

theorem C18_node_module_of_ir (va vb : IRV) (hsa : SelfContained va) (hda : DistinctSiblings va)
    (hdb : DistinctSiblings vb) {a b : ModuleV} (ha : a ∈ va.modules) (hb : b ∈ vb.modules) :
    moduleDeepEq va vb a b = true ↔ moduleObs va a = moduleObs vb b :=
  C18_node_module va vb a b (hda.2.2.2 a ha) (hdb.2.2.2 b hb) (hsa.2.2.1 a ha)
    (fun _ hs _ hi _ he => exprDeepOk_of_selfContained va hsa ha hs hi he)

theorem C18_node_section_of_ir (va vb : IRV) (hsa : SelfContained va) (hda : DistinctSiblings va)
    (hdb : DistinctSiblings vb) {ma mb : ModuleV} (hma : ma ∈ va.modules) (hmb : mb ∈ vb.modules)
    {a b : SectionV} (ha : a ∈ ma.sections) (hb : b ∈ mb.sections) :
    sectionDeepEq va vb a b = true ↔ sectionObs va a = sectionObs vb b :=
  C18_node_section va vb a b ((hda.2.2.2 ma hma).2.2.2.2 a ha) ((hdb.2.2.2 mb hmb).2.2.2.2 b hb)
    (fun _ hi _ he => exprDeepOk_of_selfContained va hsa hma ha hi he)

theorem C18_node_interval_of_ir (va vb : IRV) (hsa : SelfContained va) (hda : DistinctSiblings va)
    (hdb : DistinctSiblings vb) {ma mb : ModuleV} (hma : ma ∈ va.modules) (hmb : mb ∈ vb.modules)
    {sa sb : SectionV} (hsa' : sa ∈ ma.sections) (hsb' : sb ∈ mb.sections)
    {a b : IntervalV} (ha : a ∈ sa.intervals) (hb : b ∈ sb.intervals) :
    intervalDeepEq va vb a b = true ↔ intervalObs va a = intervalObs vb b :=
  C18_node_interval va vb a b (((hda.2.2.2 ma hma).2.2.2.2 sa hsa').2.2 a ha)
    (((hdb.2.2.2 mb hmb).2.2.2.2 sb hsb').2.2 b hb)
    (fun _ he => exprDeepOk_of_selfContained va hsa hma hsa' ha he)

theorem C18_node_expr_of_ir (va vb : IRV) (hsa : SelfContained va) (hda : DistinctSiblings va)
    (hdb : DistinctSiblings vb) {ma mb : ModuleV} (hma : ma ∈ va.modules) (hmb : mb ∈ vb.modules)
    {sa sb : SectionV} (hsa' : sa ∈ ma.sections) (hsb' : sb ∈ mb.sections)
    {ia ib : IntervalV} (hia : ia ∈ sa.intervals) (hib : ib ∈ sb.intervals)
    {a b : ExprEntryV} (ha : a ∈ ia.exprs) (hb : b ∈ ib.exprs) :
    exprDeepEq va vb a b = true ↔ exprObs va a = exprObs vb b :=
  C18_node_expr va vb a b ((((hda.2.2.2 ma hma).2.2.2.2 sa hsa').2.2 ia hia).2.2 a ha)
    ((((hdb.2.2.2 mb hmb).2.2.2.2 sb hsb').2.2 ib hib).2.2 b hb)
    (exprDeepOk_of_selfContained va hsa hma hsa' hia ha)

/-- (nothing is asked of `b`: it need not even be a symbol of `vb`) -/
theorem C18_node_symbol_of_ir (va vb : IRV) (hsa : SelfContained va) {ma : ModuleV}
    (hma : ma ∈ va.modules) {a : SymbolV} (ha : a ∈ ma.symbols) (b : SymbolV) :
    symbolDeepEq va vb a b = true ↔ symObs va a = symObs vb b :=
  C18_node_symbol va vb a b ((hsa.2.2.1 ma hma).2.1 a ha)

/-! ### reflexivity for the nodes of a self-contained IR -/

theorem C18_node_symbol_refl (v : IRV) (hs : SelfContained v) {m : ModuleV} (hm : m ∈ v.modules)
    {a : SymbolV} (ha : a ∈ m.symbols) : symbolDeepEq v v a a = true :=
  symbolDeepEq_of_obs ((hs.2.2.1 m hm).2.1 a ha) rfl

theorem C18_node_expr_refl (v : IRV) (hs : SelfContained v) {m : ModuleV} (hm : m ∈ v.modules)
    {s : SectionV} (hs' : s ∈ m.sections) {i : IntervalV} (hi : i ∈ s.intervals)
    {a : ExprEntryV} (ha : a ∈ i.exprs) : exprDeepEq v v a a = true :=
  exprDeepEq_of_obs (exprDeepOk_of_selfContained v hs hm hs' hi ha) rfl

theorem C18_node_interval_refl (v : IRV) (hs : SelfContained v) {m : ModuleV} (hm : m ∈ v.modules)
    {s : SectionV} (hs' : s ∈ m.sections) {a : IntervalV} (ha : a ∈ s.intervals) :
    intervalDeepEq v v a a = true :=
  intervalDeepEq_of_obs (fun _ he => exprDeepOk_of_selfContained v hs hm hs' ha he) rfl

theorem C18_node_section_refl (v : IRV) (hs : SelfContained v) {m : ModuleV} (hm : m ∈ v.modules)
    {a : SectionV} (ha : a ∈ m.sections) : sectionDeepEq v v a a = true :=
  sectionDeepEq_of_obs (fun _ hi _ he => exprDeepOk_of_selfContained v hs hm ha hi he) rfl

theorem C18_node_module_refl (v : IRV) (hs : SelfContained v) {a : ModuleV} (ha : a ∈ v.modules) :
    moduleDeepEq v v a a = true :=
  moduleDeepEq_of_obs (hs.2.2.1 a ha)
    (fun _ hs' _ hi _ he => exprDeepOk_of_selfContained v hs ha hs' hi he) rfl

/-! ### `deep_eq` of a parent descends to the children with the same UUID / key -/

theorem corr_of_allZip_sortBy {α κ : Type} {f : α → α → Bool} {k : α → κ} {le le' : α → α → Bool}
    {l l' : List α} (hf : ∀ x y, f x y = true → k x = k y) (hn : (l'.map k).Nodup)
    (h : allZip f (sortBy le l) (sortBy le' l') = true) {x y : α} (hx : x ∈ l) (hy : y ∈ l')
    (hxy : k x = k y) : f x y = true := by
  obtain ⟨y', hy', hxy'⟩ := exists_of_allZip h ((mem_sortBy _).2 hx)
  have e : y' = y := inj_of_nodup_map hn y' ((mem_sortBy _).1 hy') y hy (by rw [← hf x y' hxy', hxy])
  rw [← e]; exact hxy'

theorem exprDeepEq_key {va vb : IRV} {e e' : ExprEntryV} (h : exprDeepEq va vb e e' = true) :
    e.key = e'.key := by
  simp only [exprDeepEq, Bool.and_eq_true, beq_iff_eq] at h
  exact h.1.1

theorem intervalDeepEq_uuid {va vb : IRV} {a b : IntervalV} (h : intervalDeepEq va vb a b = true) :
    a.uuid = b.uuid := by
  simp only [intervalDeepEq, Bool.and_eq_true, beq_iff_eq] at h
  exact h.1.1.1.1.1.1.1

theorem sectionDeepEq_uuid {va vb : IRV} {a b : SectionV} (h : sectionDeepEq va vb a b = true) :
    a.uuid = b.uuid := by
  simp only [sectionDeepEq, Bool.and_eq_true, beq_iff_eq] at h
  exact h.1.1.1.1

theorem symbolDeepEq_uuid {va vb : IRV} {a b : SymbolV} (h : symbolDeepEq va vb a b = true) :
    a.uuid = b.uuid := by
  simp only [symbolDeepEq, Bool.and_eq_true, beq_iff_eq] at h
  exact h.2

theorem C18_node_interval_expr (va vb : IRV) (a b : IntervalV) (hkb : (b.exprs.map (·.key)).Nodup)
    (h : intervalDeepEq va vb a b = true) {e e' : ExprEntryV} (he : e ∈ a.exprs) (he' : e' ∈ b.exprs)
    (hk : e.key = e'.key) : exprDeepEq va vb e e' = true := by
  simp only [intervalDeepEq, Bool.and_eq_true] at h
  exact corr_of_allZip_sortBy (k := (·.key)) (fun _ _ => exprDeepEq_key) hkb h.2 he he' hk

theorem C18_node_section_interval (va vb : IRV) (a b : SectionV)
    (hkb : (b.intervals.map (·.uuid)).Nodup) (h : sectionDeepEq va vb a b = true)
    {i i' : IntervalV} (hi : i ∈ a.intervals) (hi' : i' ∈ b.intervals) (hu : i.uuid = i'.uuid) :
    intervalDeepEq va vb i i' = true := by
  simp only [sectionDeepEq, Bool.and_eq_true] at h
  exact corr_of_allZip_sortBy (k := (·.uuid)) (fun _ _ => intervalDeepEq_uuid) hkb h.1.2 hi hi' hu

theorem C18_node_module_section (va vb : IRV) (a b : ModuleV)
    (hkb : (b.sections.map (·.uuid)).Nodup) (h : moduleDeepEq va vb a b = true)
    {s s' : SectionV} (hs : s ∈ a.sections) (hs' : s' ∈ b.sections) (hu : s.uuid = s'.uuid) :
    sectionDeepEq va vb s s' = true := by
  simp only [moduleDeepEq, Bool.and_eq_true] at h
  exact corr_of_allZip_sortBy (k := (·.uuid)) (fun _ _ => sectionDeepEq_uuid) hkb h.1.1.1.2 hs hs' hu

theorem C18_node_module_symbol (va vb : IRV) (a b : ModuleV)
    (hkb : (b.symbols.map (·.uuid)).Nodup) (h : moduleDeepEq va vb a b = true)
    {s s' : SymbolV} (hs : s ∈ a.symbols) (hs' : s' ∈ b.symbols) (hu : s.uuid = s'.uuid) :
    symbolDeepEq va vb s s' = true := by
  simp only [moduleDeepEq, Bool.and_eq_true] at h
  exact corr_of_allZip_sortBy (k := (·.uuid)) (fun _ _ => symbolDeepEq_uuid) hkb h.1.2 hs hs' hu

/-! ### a symbol mentioned by an expression is part of what the interval shows -/

/-- `deep_eq` expressions mention, position by position, symbols that resolve on
both sides and show the same thing (name, at_end, payload, referent content) -/
theorem exprDeepEq_syms {va vb : IRV} {e e' : ExprEntryV} (h : exprDeepEq va vb e e' = true) :
    e.expr.syms.map (symRefObs va) = e'.expr.syms.map (symRefObs vb)
      ∧ ∀ u ∈ e.expr.syms, (symRefObs va u).isSome = true := by
  obtain ⟨k, x, at1⟩ := e; obtain ⟨k', x', at2⟩ := e'
  simp only [exprDeepEq, Bool.and_eq_true, beq_iff_eq] at h
  obtain ⟨⟨_, hx⟩, _⟩ := h
  cases x <;> cases x' <;> simp only [Bool.and_eq_true, beq_iff_eq] at hx
  · simp only [SymExprV.syms, List.map_cons, List.map_nil, List.mem_singleton, forall_eq]
    exact ⟨by rw [symRefDeepEq_obs hx.2], (symRefDeepEq_isSome hx.2).1⟩
  · cases hx
  · cases hx
  · obtain ⟨⟨_, h3⟩, h4⟩ := hx
    simp only [SymExprV.syms, List.map_cons, List.map_nil, List.mem_cons, List.not_mem_nil, or_false,
      forall_eq_or_imp, forall_eq]
    exact ⟨by rw [symRefDeepEq_obs h3, symRefDeepEq_obs h4],
      (symRefDeepEq_isSome h3).1, (symRefDeepEq_isSome h4).1⟩

/-- if two intervals are `deep_eq`, their expressions at the same offset mention
symbols that show the same thing in their respective IRs: a symbol is observed
through every interval with an expression that mentions it, although it is not
a child of the interval -/
theorem C18_node_interval_symbol_change (va vb : IRV) (a b : IntervalV)
    (hkb : (b.exprs.map (·.key)).Nodup) (h : intervalDeepEq va vb a b = true)
    {e e' : ExprEntryV} (he : e ∈ a.exprs) (he' : e' ∈ b.exprs) (hk : e.key = e'.key) :
    e.expr.syms.map (symRefObs va) = e'.expr.syms.map (symRefObs vb) :=
  (exprDeepEq_syms (C18_node_interval_expr va vb a b hkb h he he' hk)).1

/-- contrapositive: renaming, re-pointing or flipping `at_end` of a symbol that
an expression of the interval mentions (or changing the block it refers to)
makes the interval's `deep_eq` false -/
theorem C18_node_interval_symbol_change_false (va vb : IRV) (a b : IntervalV)
    (hkb : (b.exprs.map (·.key)).Nodup)
    {e e' : ExprEntryV} (he : e ∈ a.exprs) (he' : e' ∈ b.exprs) (hk : e.key = e'.key)
    (hne : e.expr.syms.map (symRefObs va) ≠ e'.expr.syms.map (symRefObs vb)) :
    intervalDeepEq va vb a b = false := by
  cases h : intervalDeepEq va vb a b with
  | false => rfl
  | true => exact absurd (C18_node_interval_symbol_change va vb a b hkb h he he' hk) hne

/-- the same, one level up: the section's `deep_eq` is false as well -/
theorem C18_node_section_symbol_change_false (va vb : IRV) (a b : SectionV)
    (hdb : DistinctSection b) {i i' : IntervalV} (hi : i ∈ a.intervals) (hi' : i' ∈ b.intervals)
    (hu : i.uuid = i'.uuid)
    {e e' : ExprEntryV} (he : e ∈ i.exprs) (he' : e' ∈ i'.exprs) (hk : e.key = e'.key)
    (hne : e.expr.syms.map (symRefObs va) ≠ e'.expr.syms.map (symRefObs vb)) :
    sectionDeepEq va vb a b = false := by
  cases h : sectionDeepEq va vb a b with
  | false => rfl
  | true =>
    have h' := C18_node_section_interval va vb a b hdb.2.1 h hi hi' hu
    rw [C18_node_interval_symbol_change_false va vb i i' (hdb.2.2 i' hi').2.1 he he' hk hne] at h'
    cases h'

/-- a dangling symbol reference in an expression makes the interval not `deep_eq`
to anything (in particular not to itself) -/
theorem C18_node_interval_dangling (va vb : IRV) (a b : IntervalV) {e : ExprEntryV} (he : e ∈ a.exprs)
    {u : U} (hu : u ∈ e.expr.syms) (hd : va.findSymbol u = none) :
    intervalDeepEq va vb a b = false := by
  cases h : intervalDeepEq va vb a b with
  | false => rfl
  | true =>
    simp only [intervalDeepEq, Bool.and_eq_true] at h
    obtain ⟨y, _, hey⟩ := exists_of_allZip h.2 ((mem_sortBy _).2 he)
    have := (exprDeepEq_syms hey).2 u hu
    simp [symRefObs, hd] at this

/-! ### `ExprDeepOk` is decidable -/

def exprDeepOkB (v : IRV) (e : ExprEntryV) : Bool :=
  e.expr.syms.all fun u => match v.findSymbol u with
    | some s => decide (SymbolOk v s)
    | none => false

theorem exprDeepOk_iff (v : IRV) (e : ExprEntryV) : ExprDeepOk v e ↔ exprDeepOkB v e = true := by
  simp only [ExprDeepOk, exprDeepOkB, List.all_eq_true]
  refine forall_congr' (fun u => forall_congr' (fun _ => ?_))
  cases v.findSymbol u with
  | none => simp
  | some s => simp

instance (v : IRV) (e : ExprEntryV) : Decidable (ExprDeepOk v e) :=
  decidable_of_iff _ (exprDeepOk_iff v e).symm

/-! ### non-vacuity: concrete nodes -/
namespace C18NodesEx

def nU (n : UInt8) : U := List.replicate 15 0 ++ [n]

/-- interval 5 holds the code block 10 (the referent of symbol 30) -/
def nI1 (size : Nat) : IntervalV :=
  { uuid := nU 5, addr := some 4096, size := 8, contents := [1, 2, 3, 4],
    blocks := [.code (nU 10) 0 size 0], exprs := [] }

/-- interval 6 holds a data block and one expression mentioning symbol 30; it
contains neither the symbol nor the symbol's referent -/
def nI2 : IntervalV :=
  { uuid := nU 6, addr := some 8192, size := 8, contents := [9, 9, 9, 9, 9, 9, 9, 9],
    blocks := [.data (nU 11) 0 8], exprs := [⟨0, .addrConst 4 (nU 30), [1]⟩] }

/-- the smallest shape asked for: one interval with the code block and the
expression together -/
def nI0 (size : Nat) : IntervalV :=
  { uuid := nU 7, addr := none, size := 4, contents := [],
    blocks := [.code (nU 12) 0 size 0], exprs := [⟨2, .addrConst 0 (nU 33), [3, 1]⟩] }

def nS1 (size : Nat) : SectionV := ⟨nU 3, ".text", [1, 2], [nI1 size]⟩
def nS2 : SectionV := ⟨nU 4, ".data", [2], [nI2]⟩
def nS0 (size : Nat) : SectionV := ⟨nU 8, ".s0", [], [nI0 size]⟩

def nSym : SymbolV := ⟨nU 30, "main", .referent (nU 10), false⟩
def nSym0 : SymbolV := ⟨nU 33, "f", .referent (nU 12), false⟩

def nM (sym : SymbolV) (size : Nat) : ModuleV :=
  { uuid := nU 2, name := "m", binaryPath := "/bin/x", preferredAddr := 4096, rebaseDelta := 0,
    fileFormat := 2, isa := 3, byteOrder := 2, entryPoint := some (nU 10),
    proxies := [nU 20], sections := [nS1 size, nS2, nS0 size], symbols := [sym, nSym0],
    aux := [⟨"a", "t", [1]⟩] }

def nV (sym : SymbolV) (size : Nat) : IRV :=
  { uuid := nU 1, version := 4, modules := [nM sym size], edges := [], aux := [] }

def v : IRV := nV nSym 4
/-- the symbol renamed -/
def vName : IRV := nV { nSym with name := "renamed" } 4
/-- the symbol's `at_end` flipped -/
def vAtEnd : IRV := nV { nSym with atEnd := true } 4
/-- the symbol re-pointed to the proxy block -/
def vRef : IRV := nV { nSym with payload := .referent (nU 20) } 4
/-- the symbol turned into a value symbol -/
def vVal : IRV := nV { nSym with payload := .value 4096 } 4
/-- the size of the symbol's referent (block 10, in interval 5) changed -/
def vSize : IRV := nV nSym 3
/-- the symbol's referent dangling -/
def vDangling : IRV := nV { nSym with payload := .referent (nU 99) } 4

/-! (1) the hypotheses of the `_of_ir` corollaries hold; every node is `deep_eq` to itself -/
example : SelfContained v ∧ DistinctSiblings v := by decide
example : SelfContained vName ∧ DistinctSiblings vName := by decide
example : SelfContained vSize ∧ DistinctSiblings vSize := by decide
example : nM nSym 4 ∈ v.modules ∧ nS2 ∈ (nM nSym 4).sections ∧ nI2 ∈ nS2.intervals
    ∧ (⟨0, .addrConst 4 (nU 30), [1]⟩ : ExprEntryV) ∈ nI2.exprs := by decide
example : ∀ e ∈ nI2.exprs, ExprDeepOk v e := by decide
example : ∀ e ∈ (nI0 4).exprs, ExprDeepOk v e := by decide
example : intervalDeepEq v v nI2 nI2 = true ∧ intervalDeepEq v v (nI0 4) (nI0 4) = true
    ∧ sectionDeepEq v v nS2 nS2 = true ∧ moduleDeepEq v v (nM nSym 4) (nM nSym 4) = true
    ∧ symbolDeepEq v v nSym nSym = true := by decide
example : intervalDeepEq v v nI2 nI2 = true :=
  C18_node_interval_refl v (by decide) (m := nM nSym 4) (s := nS2) (by decide) (by decide) (by decide)
example : intervalObs v nI2 = intervalObs v nI2 ↔ intervalDeepEq v v nI2 nI2 = true :=
  (C18_node_interval_of_ir v v (by decide) (by decide) (by decide) (ma := nM nSym 4) (mb := nM nSym 4)
    (by decide) (by decide) (sa := nS2) (sb := nS2) (by decide) (by decide) (by decide) (by decide)).symm

/-! (2) the symbol renamed / flipped / re-pointed / retyped: the very same interval
value `nI2` (and section `nS2`) is no longer `deep_eq` across the two IRs, in
either direction, and what it shows differs -/
example : intervalDeepEq v vName nI2 nI2 = false ∧ intervalDeepEq vName v nI2 nI2 = false
    ∧ sectionDeepEq v vName nS2 nS2 = false ∧ intervalObs v nI2 ≠ intervalObs vName nI2 := by decide
example : intervalDeepEq v vAtEnd nI2 nI2 = false ∧ sectionDeepEq v vAtEnd nS2 nS2 = false
    ∧ intervalObs v nI2 ≠ intervalObs vAtEnd nI2 := by decide
example : intervalDeepEq v vRef nI2 nI2 = false ∧ sectionDeepEq v vRef nS2 nS2 = false
    ∧ intervalObs v nI2 ≠ intervalObs vRef nI2 := by decide
example : intervalDeepEq v vVal nI2 nI2 = false ∧ sectionDeepEq v vVal nS2 nS2 = false
    ∧ intervalObs v nI2 ≠ intervalObs vVal nI2 := by decide
/-- ... while the interval that holds the referent itself is unaffected by the renaming -/
example : intervalDeepEq v vName (nI1 4) (nI1 4) = true
    ∧ intervalObs v (nI1 4) = intervalObs vName (nI1 4) := by decide
/-- the same through the theorem -/
example : intervalDeepEq v vName nI2 nI2 = false :=
  C18_node_interval_symbol_change_false v vName nI2 nI2 (by decide)
    (e := ⟨0, .addrConst 4 (nU 30), [1]⟩) (e' := ⟨0, .addrConst 4 (nU 30), [1]⟩)
    (by decide) (by decide) rfl (by decide)
example : sectionDeepEq v vName nS2 nS2 = false :=
  C18_node_section_symbol_change_false v vName nS2 nS2 (by decide) (i := nI2) (i' := nI2)
    (by decide) (by decide) rfl
    (e := ⟨0, .addrConst 4 (nU 30), [1]⟩) (e' := ⟨0, .addrConst 4 (nU 30), [1]⟩)
    (by decide) (by decide) rfl (by decide)

/-! (3) the symbol's referent (block 10, a child of interval 5) resized: interval 6,
whose value is unchanged and which does not contain block 10, is no longer
`deep_eq`; neither is the symbol -/
example : intervalDeepEq v vSize nI2 nI2 = false ∧ intervalDeepEq vSize v nI2 nI2 = false
    ∧ sectionDeepEq v vSize nS2 nS2 = false ∧ symbolDeepEq v vSize nSym nSym = false
    ∧ intervalObs v nI2 ≠ intervalObs vSize nI2 ∧ symObs v nSym ≠ symObs vSize nSym := by decide
example : intervalDeepEq v vSize (nI1 4) (nI1 3) = false
    ∧ intervalDeepEq v vSize (nI0 4) (nI0 3) = false := by decide

/-! the hypotheses are needed -/

/-- `SymbolOk` on the left: a dangling referent shows the same thing (`none`) on
both sides but is not `deep_eq`, not even to itself -/
example : let s : SymbolV := { nSym with payload := .referent (nU 99) }
    symbolDeepEq vDangling vDangling s s = false ∧ symObs vDangling s = symObs vDangling s
      ∧ ¬ SymbolOk vDangling s := by decide
/-- `ExprDeepOk` on the left: an expression whose symbol does not resolve -/
example : let e : ExprEntryV := ⟨0, .addrConst 4 (nU 77), []⟩
    exprDeepEq v v e e = false ∧ exprObs v e = exprObs v e ∧ ¬ ExprDeepOk v e := by decide
/-- ... or resolves to a symbol whose referent does not -/
example : let e : ExprEntryV := ⟨0, .addrConst 4 (nU 30), []⟩
    exprDeepEq vDangling vDangling e e = false ∧ exprObs vDangling e = exprObs vDangling e
      ∧ ExprOk vDangling e ∧ ¬ ExprDeepOk vDangling e := by decide
example : intervalDeepEq vDangling vDangling nI2 nI2 = false := by decide
/-- no duplicate attributes: `deep_eq` compares them as sets -/
example : let e : ExprEntryV := ⟨0, .addrConst 4 (nU 30), [1, 1]⟩
    exprDeepEq v v e { e with attrs := [1] } = true
      ∧ exprObs v e ≠ exprObs v { e with attrs := [1] } := by decide
/-- distinct expression offsets on the right (`C18_node_interval_expr`): with a
repeated key the zip pairs expressions by position -/
example : let e1 : ExprEntryV := ⟨0, .addrConst 4 (nU 30), []⟩
    let e2 : ExprEntryV := ⟨0, .addrConst 4 (nU 33), []⟩
    let i : IntervalV := { nI2 with exprs := [e1, e2] }
    intervalDeepEq v v i i = true ∧ e1.key = e2.key ∧ exprDeepEq v v e1 e2 = false := by decide

end C18NodesEx
end Gtirb.Msg
