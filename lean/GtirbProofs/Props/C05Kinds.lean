import GtirbModel.IndexKinds
import GtirbProofs.Props.C05Scopes
/-! C05, the `code_*` / `data_*` variants: "exactly the blocks of that kind".

`kindOnly d code l` (GtirbModel/IndexKinds.lean) is the `isinstance` filter the
code puts on the result of the corresponding `byte_blocks_*` lookup. Every
variant is therefore characterised by the characterisation of the unfiltered
lookup plus the kind of the block (`C05_kind_mem`, and its instances for each
lookup at each scope); the filter keeps duplicate-freeness, the code and data
variants partition the unfiltered answer, and the kind of a block is a constant
of every edit, creation and lookup. -/
namespace Gtirb.Index

/-! ### the filter -/

theorem blk?_some_iff {d : D} (h : DInv d) {b : Nat} {blk : Blk} :
    d.blk? b = some blk ↔ blk ∈ d.blks ∧ blk.id = b :=
  kfind_some_iff Blk.id h.blk_ids

/-- membership in a filtered answer, no well-formedness needed -/
theorem mem_kindOnly_raw {d : D} {code : Bool} {l : List Nat} {b : Nat} :
    b ∈ kindOnly d code l ↔ b ∈ l ∧ (d.blk? b).map (·.isCode) = some code := by
  simp [kindOnly, List.mem_filter]

/-- the generic statement: a filtered answer is the unfiltered answer restricted
to the blocks of the kind asked for -/
theorem C05_kind_mem (d : D) (h : DInv d) (code : Bool) (l : List Nat) (b : Nat) :
    b ∈ kindOnly d code l ↔ b ∈ l ∧ ∃ blk ∈ d.blks, blk.id = b ∧ blk.isCode = code := by
  rw [mem_kindOnly_raw]
  constructor
  · rintro ⟨hl, hk⟩
    cases hb : d.blk? b with
    | none => rw [hb] at hk; cases hk
    | some blk =>
      rw [hb] at hk
      have := (blk?_some_iff h).1 hb
      exact ⟨hl, blk, this.1, this.2, by simpa using hk⟩
  · rintro ⟨hl, blk, hm, hid, hc⟩
    rw [(blk?_some_iff h).2 ⟨hm, hid⟩]
    exact ⟨hl, by simp [hc]⟩

/-- the filter is a sublist of the answer: order and multiplicity are inherited -/
theorem C05_kind_sublist (d : D) (code : Bool) (l : List Nat) : (kindOnly d code l).Sublist l :=
  List.filter_sublist

theorem C05_kind_nodup (d : D) (code : Bool) (l : List Nat) (h : l.Nodup) : (kindOnly d code l).Nodup :=
  List.Nodup.sublist (C05_kind_sublist d code l) h

/-- the code and the data variant together give the unfiltered answer (every
reported id names a block: see `C05_kind_partition_on` etc. below) ... -/
theorem C05_kind_partition (d : D) (l : List Nat) (hl : ∀ b ∈ l, (d.blk? b).isSome) (b : Nat) :
    b ∈ l ↔ (b ∈ kindOnly d true l ∨ b ∈ kindOnly d false l) := by
  simp only [mem_kindOnly_raw]
  constructor
  · intro hb
    have := hl b hb
    cases hk : d.blk? b with
    | none => rw [hk] at this; cases this
    | some blk =>
      cases hc : blk.isCode
      · right; exact ⟨hb, by simp [hc]⟩
      · left; exact ⟨hb, by simp [hc]⟩
  · rintro (⟨hb, _⟩ | ⟨hb, _⟩) <;> exact hb

/-- ... and they have nothing in common -/
theorem C05_kind_disjoint (d : D) (l : List Nat) (b : Nat) (h1 : b ∈ kindOnly d true l) :
    b ∉ kindOnly d false l := by
  rw [mem_kindOnly_raw] at h1 ⊢
  rintro ⟨_, h2⟩
  rw [h1.2] at h2
  cases h2

/-- as lists: the filter commutes with concatenation, so filtering each member
of a chain (what `Module.code_blocks_on` does with its sections) is filtering
the chained answer -/
theorem kindOnly_append (d : D) (code : Bool) (l1 l2 : List Nat) :
    kindOnly d code (l1 ++ l2) = kindOnly d code l1 ++ kindOnly d code l2 :=
  List.filter_append ..

theorem kindOnly_of_blks {d d' : D} (h : d.blks = d'.blks) (code : Bool) (l : List Nat) :
    kindOnly d code l = kindOnly d' code l := by
  unfold kindOnly D.blk?; rw [h]

/-! ### every reported id names a block -/

theorem blk?_isSome_of_mem {d : D} {blk : Blk} (hm : blk ∈ d.blks) : (d.blk? blk.id).isSome := by
  unfold D.blk?
  rw [List.find?_isSome]
  exact ⟨blk, hm, by simp⟩

theorem scanBlocksOnOffset_isBlk {d : D} {x : Nat} {r : Rng} {b : Nat}
    (hb : b ∈ scanBlocksOnOffset d x r) : (d.blk? b).isSome := by
  rcases mem_scanBlocksOnOffset.1 hb with ⟨blk, hm, _, rfl, _⟩; exact blk?_isSome_of_mem hm
theorem scanBlocksAtOffset_isBlk {d : D} {x : Nat} {r : Rng} {b : Nat}
    (hb : b ∈ scanBlocksAtOffset d x r) : (d.blk? b).isSome := by
  rcases mem_scanBlocksAtOffset.1 hb with ⟨blk, hm, _, rfl, _⟩; exact blk?_isSome_of_mem hm
theorem scanBlocksOn_isBlk {d : D} {x : Nat} {r : Rng} {b : Nat}
    (hb : b ∈ scanBlocksOn d x r) : (d.blk? b).isSome := by
  rcases mem_scanBlocksOn.1 hb with ⟨_, _, blk, hm, _, rfl, _⟩; exact blk?_isSome_of_mem hm
theorem scanBlocksAt_isBlk {d : D} {x : Nat} {r : Rng} {b : Nat}
    (hb : b ∈ scanBlocksAt d x r) : (d.blk? b).isSome := by
  rcases mem_scanBlocksAt.1 hb with ⟨_, _, blk, hm, _, rfl, _⟩; exact blk?_isSome_of_mem hm

/-! ### byte-interval scope -/

/-- `code_blocks_on` (`code = true`) / `data_blocks_on` (`code = false`) -/
theorem C05_kind_on (d : D) (x : Nat) (r : Rng) (h : DInv d) (code : Bool) (b : Nat) :
    b ∈ kindOnly d code (biBlocksOn d x r).2 ↔
      b ∈ scanBlocksOn d x r ∧ ∃ blk ∈ d.blks, blk.id = b ∧ blk.isCode = code := by
  rw [C05_kind_mem d h, mem_biBlocksOn h]

/-- `code_blocks_at` / `data_blocks_at` -/
theorem C05_kind_at (d : D) (x : Nat) (r : Rng) (h : DInv d) (code : Bool) (b : Nat) :
    b ∈ kindOnly d code (biBlocksAt d x r).2 ↔
      b ∈ scanBlocksAt d x r ∧ ∃ blk ∈ d.blks, blk.id = b ∧ blk.isCode = code := by
  rw [C05_kind_mem d h, mem_biBlocksAt h]

/-- `code_blocks_on_offset` / `data_blocks_on_offset` (`hx` as in `C05_on_offset`) -/
theorem C05_kind_on_offset (d : D) (x : Nat) (r : Rng) (h : DInv d) (hx : (d.bi? x).isSome)
    (code : Bool) (b : Nat) :
    b ∈ kindOnly d code (biBlocksOnOffset d x r).2 ↔
      b ∈ scanBlocksOnOffset d x r ∧ ∃ blk ∈ d.blks, blk.id = b ∧ blk.isCode = code := by
  rw [C05_kind_mem d h, (C05_on_offset d x r h hx).1]

/-- `code_blocks_at_offset` / `data_blocks_at_offset` -/
theorem C05_kind_at_offset (d : D) (x : Nat) (r : Rng) (h : DInv d) (hx : (d.bi? x).isSome)
    (code : Bool) (b : Nat) :
    b ∈ kindOnly d code (biBlocksAtOffset d x r).2 ↔
      b ∈ scanBlocksAtOffset d x r ∧ ∃ blk ∈ d.blks, blk.id = b ∧ blk.isCode = code := by
  rw [C05_kind_mem d h, (C05_at_offset d x r h hx).1]

/-- each qualifying block of the kind once, all four interval-scope lookups -/
theorem C05_kind_nodup_bi (d : D) (x : Nat) (r : Rng) (h : DInv d) (code : Bool) :
    (kindOnly d code (biBlocksOn d x r).2).Nodup ∧ (kindOnly d code (biBlocksAt d x r).2).Nodup ∧
    (kindOnly d code (biBlocksOnOffset d x r).2).Nodup ∧
    (kindOnly d code (biBlocksAtOffset d x r).2).Nodup :=
  ⟨C05_kind_nodup _ _ _ (nodup_biBlocksOn h x r), C05_kind_nodup _ _ _ (nodup_biBlocksAt h x r),
   C05_kind_nodup _ _ _ (nodup_biBlocksOnOffset h x r), C05_kind_nodup _ _ _ (nodup_biBlocksAtOffset h x r)⟩

/-- code and data variants partition `byte_blocks_on` / `_at` / `_on_offset` / `_at_offset` -/
theorem C05_kind_partition_bi (d : D) (x : Nat) (r : Rng) (h : DInv d) (b : Nat) :
    (b ∈ (biBlocksOn d x r).2 ↔
      (b ∈ kindOnly d true (biBlocksOn d x r).2 ∨ b ∈ kindOnly d false (biBlocksOn d x r).2)) ∧
    (b ∈ (biBlocksAt d x r).2 ↔
      (b ∈ kindOnly d true (biBlocksAt d x r).2 ∨ b ∈ kindOnly d false (biBlocksAt d x r).2)) ∧
    (b ∈ (biBlocksOnOffset d x r).2 ↔
      (b ∈ kindOnly d true (biBlocksOnOffset d x r).2 ∨ b ∈ kindOnly d false (biBlocksOnOffset d x r).2)) ∧
    (b ∈ (biBlocksAtOffset d x r).2 ↔
      (b ∈ kindOnly d true (biBlocksAtOffset d x r).2 ∨ b ∈ kindOnly d false (biBlocksAtOffset d x r).2)) := by
  refine ⟨C05_kind_partition d _ ?_ b, C05_kind_partition d _ ?_ b, C05_kind_partition d _ ?_ b,
    C05_kind_partition d _ ?_ b⟩
  · intro c hc; exact scanBlocksOn_isBlk ((mem_biBlocksOn h x r c).1 hc)
  · intro c hc; exact scanBlocksAt_isBlk ((mem_biBlocksAt h x r c).1 hc)
  · intro c hc; exact scanBlocksOnOffset_isBlk ((mem_biBlocksOnOffset h x r c).1 hc).2
  · intro c hc; exact scanBlocksAtOffset_isBlk ((mem_biBlocksAtOffset h x r c).1 hc).2

/-! ### section scope -/

/-- `Section.code_blocks_on` / `data_blocks_on` (`hs` as in `C05_section_on`) -/
theorem C05_kind_section_on (d : D) (s : Nat) (r : Rng) (h : DInv d) (hs : (d.sec? s).isSome)
    (code : Bool) (b : Nat) :
    b ∈ kindOnly d code (secBlocksOn d s r).2 ↔
      (∃ x, x ∈ scanBisOn d s r ∧ b ∈ scanBlocksOn d x r) ∧
        ∃ blk ∈ d.blks, blk.id = b ∧ blk.isCode = code := by
  rw [C05_kind_mem d h, C05_section_on d s r h hs]

/-- `Section.code_blocks_at` / `data_blocks_at` -/
theorem C05_kind_section_at (d : D) (s : Nat) (r : Rng) (h : DInv d) (hs : (d.sec? s).isSome)
    (code : Bool) (b : Nat) :
    b ∈ kindOnly d code (secBlocksAt d s r).2 ↔
      (∃ x, x ∈ scanBisOn d s r ∧ b ∈ scanBlocksAt d x r) ∧
        ∃ blk ∈ d.blks, blk.id = b ∧ blk.isCode = code := by
  rw [C05_kind_mem d h, C05_section_at d s r h hs]

theorem C05_kind_section_nodup (d : D) (s : Nat) (r : Rng) (h : DInv d) (code : Bool) :
    (kindOnly d code (secBlocksOn d s r).2).Nodup ∧ (kindOnly d code (secBlocksAt d s r).2).Nodup :=
  ⟨C05_kind_nodup _ _ _ (nodup_secBlocksOn h s r), C05_kind_nodup _ _ _ (nodup_secBlocksAt h s r)⟩

theorem C05_kind_partition_section (d : D) (s : Nat) (r : Rng) (h : DInv d) (b : Nat) :
    (b ∈ (secBlocksOn d s r).2 ↔
      (b ∈ kindOnly d true (secBlocksOn d s r).2 ∨ b ∈ kindOnly d false (secBlocksOn d s r).2)) ∧
    (b ∈ (secBlocksAt d s r).2 ↔
      (b ∈ kindOnly d true (secBlocksAt d s r).2 ∨ b ∈ kindOnly d false (secBlocksAt d s r).2)) := by
  refine ⟨C05_kind_partition d _ ?_ b, C05_kind_partition d _ ?_ b⟩
  · intro c hc
    rcases (C05_section_on_any d s r h c).1 hc with ⟨_, x, _, hx⟩; exact scanBlocksOn_isBlk hx
  · intro c hc
    rcases (C05_section_at_any d s r h c).1 hc with ⟨_, x, _, hx⟩; exact scanBlocksAt_isBlk hx

/-! ### module / IR scope (chains over the sections of the scope) -/

/-- `Module.code_blocks_on` / `IR.code_blocks_on` / `data_...` (`hss` as in `C05_scope_on`) -/
theorem C05_kind_scope_on (d : D) (ss : List Nat) (r : Rng) (h : DInv d)
    (hss : ∀ s ∈ ss, (d.sec? s).isSome) (code : Bool) (b : Nat) :
    b ∈ kindOnly d code (chain (fun d s => secBlocksOn d s r) d ss).2 ↔
      (∃ s ∈ ss, ∃ x, x ∈ scanBisOn d s r ∧ b ∈ scanBlocksOn d x r) ∧
        ∃ blk ∈ d.blks, blk.id = b ∧ blk.isCode = code := by
  rw [C05_kind_mem d h, C05_scope_on d ss r h hss]

/-- `Module.code_blocks_at` / `IR.code_blocks_at` / `data_...` -/
theorem C05_kind_scope_at (d : D) (ss : List Nat) (r : Rng) (h : DInv d)
    (hss : ∀ s ∈ ss, (d.sec? s).isSome) (code : Bool) (b : Nat) :
    b ∈ kindOnly d code (chain (fun d s => secBlocksAt d s r) d ss).2 ↔
      (∃ s ∈ ss, ∃ x, x ∈ scanBisOn d s r ∧ b ∈ scanBlocksAt d x r) ∧
        ∃ blk ∈ d.blks, blk.id = b ∧ blk.isCode = code := by
  rw [C05_kind_mem d h, C05_scope_at d ss r h hss]

theorem C05_kind_scope_nodup (d : D) (ss : List Nat) (r : Rng) (h : DInv d) (hnd : ss.Nodup)
    (code : Bool) :
    (kindOnly d code (chain (fun d s => secBlocksOn d s r) d ss).2).Nodup ∧
    (kindOnly d code (chain (fun d s => secBlocksAt d s r) d ss).2).Nodup :=
  ⟨C05_kind_nodup _ _ _ (C05_scope_on_nodup d ss r h hnd),
   C05_kind_nodup _ _ _ (C05_scope_at_nodup d ss r h hnd)⟩

theorem C05_kind_partition_scope (d : D) (ss : List Nat) (r : Rng) (h : DInv d) (b : Nat) :
    (b ∈ (chain (fun d s => secBlocksOn d s r) d ss).2 ↔
      (b ∈ kindOnly d true (chain (fun d s => secBlocksOn d s r) d ss).2 ∨
       b ∈ kindOnly d false (chain (fun d s => secBlocksOn d s r) d ss).2)) ∧
    (b ∈ (chain (fun d s => secBlocksAt d s r) d ss).2 ↔
      (b ∈ kindOnly d true (chain (fun d s => secBlocksAt d s r) d ss).2 ∨
       b ∈ kindOnly d false (chain (fun d s => secBlocksAt d s r) d ss).2)) := by
  refine ⟨C05_kind_partition d _ ?_ b, C05_kind_partition d _ ?_ b⟩
  · intro c hc
    rcases (C05_scope_on_any d ss r h c).1 hc with ⟨_, _, _, x, _, hx⟩; exact scanBlocksOn_isBlk hx
  · intro c hc
    rcases (C05_scope_at_any d ss r h c).1 hc with ⟨_, _, _, x, _, hx⟩; exact scanBlocksAt_isBlk hx

/-! ### the kind of a block is constant -/

theorem find?_map_id {l : List Blk} (f : Blk → Blk) (hf : ∀ x, (f x).id = x.id) (b : Nat) :
    (l.map f).find? (·.id == b) = (l.find? (·.id == b)).map f := by
  rw [List.find?_map]
  congr 2
  funext x
  simp [Function.comp, hf]

theorem setBlk_blk? (d : D) (blk' : Blk) (b : Nat) :
    (d.setBlk blk').blk? b = (d.blk? b).map fun x => if x.id == blk'.id then blk' else x := by
  unfold D.setBlk D.blk?
  apply find?_map_id
  intro x
  by_cases hc : x.id = blk'.id
  · simp [hc]
  · simp [hc]

theorem lzUpdBI_blk? (d : D) (x : Nat) (f : Lazy → Lazy) (b : Nat) : (lzUpdBI d x f).blk? b = d.blk? b := by
  unfold D.blk?; rw [lzUpdBI_blks]
theorem optUpdBI_blk? (d : D) (o : Option Nat) (f : Lazy → Lazy) (b : Nat) :
    (optUpdBI d o f).blk? b = d.blk? b := by
  unfold D.blk?; rw [optUpdBI_blks]
theorem optUpdSec_blk? (d : D) (o : Option Nat) (f : Lazy → Lazy) (b : Nat) :
    (optUpdSec d o f).blk? b = d.blk? b := by
  unfold D.blk?; rw [optUpdSec_blks]

/-- replacing the block found under id `b0` by one of the same id and kind
changes the kind of no block (no well-formedness needed) -/
theorem setBlk_isCode {d : D} {b0 : Nat} {blk blk' : Blk} (hb : d.blk? b0 = some blk)
    (hid : blk'.id = blk.id) (hc : blk'.isCode = blk.isCode) (b : Nat) :
    ((d.setBlk blk').blk? b).map (·.isCode) = (d.blk? b).map (·.isCode) := by
  rw [setBlk_blk?]
  cases hf : d.blk? b with
  | none => rfl
  | some y =>
    simp only [Option.map_some]
    by_cases hy : y.id = blk'.id
    · have h1 : y.id = b := by
        have := List.find?_some hf; simpa using this
      have h2 : blk.id = b0 := by
        have := List.find?_some hb; simpa using this
      have : b = b0 := by rw [← h1, hy, hid, h2]
      subst this
      rw [hb] at hf
      cases hf
      simp [hy, hc]
    · simp [hy]

/-- no edit changes the kind of a block (and none makes a block appear or
disappear), whatever the state -/
theorem C05_kind_const (d : D) (e : Edit) (b : Nat) :
    ((applyEdit d e).blk? b).map (·.isCode) = (d.blk? b).map (·.isCode) := by
  cases e with
  | blkSet b0 o z =>
    show ((blkSet d b0 o z).blk? b).map _ = _
    rw [blkSet_eq]
    cases hb : d.blk? b0 with
    | none => rfl
    | some blk =>
      simp only
      rw [optUpdBI_blk?]
      have hb' : (optUpdBI d blk.bi (·.discard (some (offsetIv blk)))).blk? b0 = some blk := by
        rw [optUpdBI_blk?]; exact hb
      exact (setBlk_isCode (blk' := { blk with offset := o, size := z }) hb' rfl rfl b).trans
        (by rw [optUpdBI_blk?])
  | blkMove b0 dst r =>
    show ((blkMove d b0 dst r).blk? b).map _ = _
    rw [blkMove_eq]
    cases hb : d.blk? b0 with
    | none => rfl
    | some blk =>
      simp only
      split
      · rfl
      · rw [optUpdBI_blk?]
        have hb' : (optUpdBI d blk.bi (·.discard (some (offsetIv blk)))).blk? b0 = some blk := by
          rw [optUpdBI_blk?]; exact hb
        exact (setBlk_isCode (blk' := { blk with bi := dst }) hb' rfl rfl b).trans
          (by rw [optUpdBI_blk?])
  | biSet x a z =>
    show ((biSet d x a z).blk? b).map _ = _
    rw [biSet_eq]
    cases d.bi? x with
    | none => rfl
    | some bi => simp only; rw [optUpdSec_blk?]; unfold D.blk? D.setBI; simp only; rw [optUpdSec_blks]
  | biMove x dst r =>
    show ((biMove d x dst r).blk? b).map _ = _
    rw [biMove_eq]
    cases d.bi? x with
    | none => rfl
    | some bi =>
      simp only
      split
      · rfl
      · rw [optUpdSec_blk?]; unfold D.blk? D.setBI; simp only; rw [optUpdSec_blks]

/-- creation does not change the kind of the blocks that exist -/
theorem C05_kind_const_new (d : D) (e : EditC) (b : Nat) (hb : (d.blk? b).isSome) :
    ((applyEditC d e).blk? b).map (·.isCode) = (d.blk? b).map (·.isCode) := by
  cases e with
  | base e => exact C05_kind_const d e b
  | newBlk i c o z =>
    show ((newBlk d i c o z).blk? b).map _ = _
    unfold newBlk
    split
    · rfl
    · unfold D.blk? at hb ⊢
      simp only [List.find?_append]
      cases hf : d.blks.find? (·.id == b) with
      | none => rw [hf] at hb; cases hb
      | some y => rfl
  | newBI i a z =>
    show ((newBI d i a z).blk? b).map _ = _
    unfold newBI; split <;> rfl
  | newSec i =>
    show ((newSec d i).blk? b).map _ = _
    unfold newSec; split <;> rfl

/-- a created block has the kind it was created with -/
theorem C05_kind_new (d : D) (i : Nat) (c : Bool) (o z : Nat) (hi : d.blk? i = none) :
    ((newBlk d i c o z).blk? i).map (·.isCode) = some c := by
  unfold newBlk
  rw [hi]
  unfold D.blk? at hi ⊢
  simp [List.find?_append, hi]

/-- two states with the same structure filter alike; in particular no lookup
(each keeps the structure: `C12_query_strip`, `C05_chain_strip`,
`C06_sections_keep`) changes what the filter reads -/
theorem C05_kind_of_strip {d d' : D} (h : strip d = strip d') (code : Bool) (l : List Nat) :
    kindOnly d code l = kindOnly d' code l :=
  kindOnly_of_blks (blks_of_strip h) code l

theorem C05_kind_const_query (d : D) (q : Query) (h : DInv d) (b : Nat) :
    (runQuery d q).1.blk? b = d.blk? b :=
  blk?_of_strip (runQuery_inv_strip h q).2 b

theorem C05_kind_const_chain (f : D → Nat → D × List Nat)
    (hf : ∀ d x, DInv d → DInv (f d x).1 ∧ strip (f d x).1 = strip d)
    (d : D) (xs : List Nat) (h : DInv d) (b : Nat) : (chain f d xs).1.blk? b = d.blk? b :=
  blk?_of_strip (C05_chain_strip f hf d xs h) b

/-! ### the code's own nesting: filter per member, then chain -/

/-- `Module.code_blocks_on = chain(s.code_blocks_on(addrs) for s in sections)`:
chaining the filtered section lookups is filtering the chained section lookup
(same final state, same list) -/
theorem C05_kind_chain (f : D → Nat → D × List Nat)
    (hf : ∀ d x, DInv d → DInv (f d x).1 ∧ strip (f d x).1 = strip d)
    (code : Bool) (d : D) (xs : List Nat) (h : DInv d) :
    chain (kinded f code) d xs = ((chain f d xs).1, kindOnly d code (chain f d xs).2) := by
  induction xs generalizing d with
  | nil => rfl
  | cons x xs ih =>
    rw [chain_cons, chain_cons]
    have hk := hf d x h
    have e1 : (kinded f code d x).1 = (f d x).1 := rfl
    have e2 : (kinded f code d x).2 = kindOnly (f d x).1 code (f d x).2 := rfl
    rw [e1, e2, ih _ hk.1, kindOnly_append]
    simp only [C05_kind_of_strip hk.2]

/-- the filtered lookups are lookups like the others: invariant and structure kept -/
theorem kinded_keeps (f : D → Nat → D × List Nat)
    (hf : ∀ d x, DInv d → DInv (f d x).1 ∧ strip (f d x).1 = strip d) (code : Bool)
    (d : D) (x : Nat) (h : DInv d) :
    DInv (kinded f code d x).1 ∧ strip (kinded f code d x).1 = strip d := hf d x h

/-! ### concrete examples -/

/-- `exD`: blocks 1 (code), 2 (data), 3 (code, zero-sized) in interval 10 -/
example : kindOnly exD true (biBlocksOn exD 10 ⟨100, 107, 1⟩).2 = [1] ∧
    kindOnly exD false (biBlocksOn exD 10 ⟨100, 107, 1⟩).2 = [2] ∧
    kindOnly exD true (biBlocksAt exD 10 ⟨100, 107, 1⟩).2 = [3, 1] ∧
    kindOnly exD false (biBlocksAt exD 10 ⟨100, 107, 1⟩).2 = [2] ∧
    kindOnly exD true (biBlocksOnOffset exD 10 ⟨0, 7, 1⟩).2 = [1] ∧
    kindOnly exD true (biBlocksAtOffset exD 10 ⟨0, 7, 1⟩).2 = [3, 1] := by decide

example (b : Nat) : b ∈ kindOnly exD false (biBlocksOn exD 10 ⟨100, 107, 1⟩).2 ↔
    b ∈ scanBlocksOn exD 10 ⟨100, 107, 1⟩ ∧ ∃ blk ∈ exD.blks, blk.id = b ∧ blk.isCode = false :=
  C05_kind_on exD 10 _ exD_inv false b

example : (kindOnly exD true (biBlocksAt exD 10 ⟨100, 107, 1⟩).2).Nodup :=
  C05_kind_nodup _ _ _ (C05_at exD 10 _ exD_inv).2

/-- `exS`: blocks 1 (code), 2 (data) in section 20; 3, 4 (code) in section 21;
block 5 (data) sits in the address-less interval 12 and is never reported -/
example : kindOnly exS true (chain (fun d s => secBlocksOn d s ⟨0, 1000, 1⟩) exS [20, 21]).2 = [1, 3] ∧
    kindOnly exS false (chain (fun d s => secBlocksOn d s ⟨0, 1000, 1⟩) exS [20, 21]).2 = [2] ∧
    kindOnly exS true (chain (fun d s => secBlocksAt d s ⟨0, 1000, 1⟩) exS [20, 21]).2 = [1, 3, 4] ∧
    kindOnly exS false (secBlocksAt exS 20 ⟨0, 1000, 1⟩).2 = [2] ∧
    kindOnly exS false (secBlocksOn exS 21 ⟨0, 1000, 1⟩).2 = [] := by decide

example (b : Nat) : b ∈ kindOnly exS true (chain (fun d s => secBlocksOn d s ⟨0, 1000, 1⟩) exS [20, 21]).2 ↔
    (∃ s ∈ [20, 21], ∃ x, x ∈ scanBisOn exS s ⟨0, 1000, 1⟩ ∧ b ∈ scanBlocksOn exS x ⟨0, 1000, 1⟩) ∧
      ∃ blk ∈ exS.blks, blk.id = b ∧ blk.isCode = true :=
  C05_kind_scope_on exS [20, 21] _ exS_inv (by decide) true b

/-- the code's nesting (filter inside the chain) gives the same list -/
example : (chain (kinded (fun d s => secBlocksOn d s ⟨0, 1000, 1⟩) true) exS [20, 21]).2 = [1, 3] := by
  decide
example : chain (kinded (fun d s => secBlocksOn d s ⟨0, 1000, 1⟩) true) exS [20, 21] =
    ((chain (fun d s => secBlocksOn d s ⟨0, 1000, 1⟩) exS [20, 21]).1,
      kindOnly exS true (chain (fun d s => secBlocksOn d s ⟨0, 1000, 1⟩) exS [20, 21]).2) :=
  C05_kind_chain _ (secBlocksOn_keeps _) true exS [20, 21] exS_inv

/-- the partition hypothesis matters: an id that names no block is in neither variant -/
example : kindOnly exD true [1, 2, 77] = [1] ∧ kindOnly exD false [1, 2, 77] = [2] := by decide

/-- edits keep the kind: block 2 stays a data block when resized and moved away -/
example : ((applyEdit (applyEdit exD (.blkSet 2 0 1)) (.blkMove 2 none true)).blk? 2).map (·.isCode) =
    some false := by decide

end Gtirb.Index
