import GtirbProofs.Lemmas.DeepEqProofs
/-! C18: `deep_eq` on the observable content of an IR (`deepEq` on `IRV`).

`deepEq a b = true ↔ canon a = canon b` (`C18_iff`), where `canon` sorts every
child list by its key, sorts flag / attribute sets and edges, and keeps only the
sorted AuxData keys.  Everything else is a corollary: reflexive, symmetric,
insensitive to the order of any collection, AuxData values ignored, and one
lemma per compared field saying that a difference in that field between
corresponding nodes (same UUID, reached along the same path) makes it false.

Hypotheses (defined in `Lemmas/DeepEqProofs.lean`):
* `DistinctSiblings v`: sibling UUIDs, expression keys, edges, AuxData keys are
  pairwise distinct and flag / attribute lists are duplicate-free;
* `SelfContained v`: every reference resolves inside `v`; block and symbol UUIDs
  are unique in the whole IR.
No hypothesis on the length of UUIDs is needed: `bytesLe` is a total order on
byte strings of any length. -/
namespace Gtirb.Msg

/-! ### main results -/

/-- reflexive (every reference has to resolve: a dangling reference is not
`deep_eq` to itself in the model. It CAN occur through the API -
`Symbol(referent=free_block)` - and Python's `deep_eq`, which follows the
object, is reflexive there too: the model's `deepEq` coincides with the code's
exactly on IRs whose references resolve, see `C18_refl_iff` in C18Refl.lean) -/
theorem C18_refl (v : IRV) (hs : SelfContained v) : deepEq v v = true :=
  deepEq_of_canon hs hs rfl

/-- symmetric, without any hypothesis -/
theorem C18_symm (a b : IRV) : deepEq a b = deepEq b a := deepEq_comm a b

/-- `deep_eq` is equality of the canonical forms -/
theorem C18_iff (a b : IRV) (hda : DistinctSiblings a) (hdb : DistinctSiblings b)
    (hsa : SelfContained a) (hsb : SelfContained b) :
    deepEq a b = true ↔ canon a = canon b :=
  ⟨deepEq_canon hda hdb, deepEq_of_canon hsa hsb⟩

/-- the two halves with the hypotheses each one needs -/
theorem C18_sound (a b : IRV) (hda : DistinctSiblings a) (hdb : DistinctSiblings b)
    (h : deepEq a b = true) : canon a = canon b := deepEq_canon hda hdb h

theorem C18_complete (a b : IRV) (hsa : SelfContained a) (hsb : SelfContained b)
    (h : canon a = canon b) : deepEq a b = true := deepEq_of_canon hsa hsb h

/-- transitive (a consequence of `C18_iff`) -/
theorem C18_trans (a b c : IRV) (hda : DistinctSiblings a) (hdb : DistinctSiblings b)
    (hdc : DistinctSiblings c) (hsa : SelfContained a) (hsc : SelfContained c)
    (hab : deepEq a b = true) (hbc : deepEq b c = true) : deepEq a c = true :=
  deepEq_of_canon hsa hsc ((deepEq_canon hda hdb hab).trans (deepEq_canon hdb hdc hbc))

/-! ### insensitive to iteration order -/

/-- two IRs with the same canonical form (e.g. one a reordering of the other)
are indistinguishable by `deep_eq` -/
theorem C18_order (a a' b : IRV) (hperm : canon a = canon a')
    (hda : DistinctSiblings a) (hda' : DistinctSiblings a') (hdb : DistinctSiblings b)
    (hsa : SelfContained a) (hsa' : SelfContained a') (hsb : SelfContained b) :
    deepEq a b = deepEq a' b :=
  Bool.eq_iff_iff.2 (by rw [C18_iff a b hda hdb hsa hsb, C18_iff a' b hda' hdb hsa' hsb, hperm])

/-- the sort is a permutation, and for pairwise distinct keys every permutation
sorts to the same list -/
theorem C18_sort_perm {α : Type} (k : α → U) (l : List α) :
    (sortBy (fun x y => bytesLe (k x) (k y)) l).Perm l := perm_sortBy _ l

theorem C18_sort_unique {α : Type} (k : α → U) (l l' : List α) (hp : l.Perm l')
    (hn : (l.map k).Nodup) :
    sortBy (fun x y => bytesLe (k x) (k y)) l = sortBy (fun x y => bytesLe (k x) (k y)) l' :=
  sortBy_uuid_perm hp hn

/-! Permuting any one child list leaves the canonical form unchanged ... -/

theorem C18_perm_modules (a : IRV) (ms : List ModuleV) (hp : a.modules.Perm ms)
    (hn : (a.modules.map (·.uuid)).Nodup) : canon { a with modules := ms } = canon a := by
  simp only [canon, sortBy_uuid_perm (k := ModuleV.uuid) hp hn]

theorem C18_perm_edges (a : IRV) (es : List EdgeV) (hp : a.edges.Perm es) :
    canon { a with edges := es } = canon a := by
  simp only [canon, sortBy_edge_perm hp]

theorem C18_perm_aux (a : IRV) (aux' : List AuxV) (hp : a.aux.Perm aux') :
    canon { a with aux := aux' } = canon a := by
  simp only [canon, canonAux_perm hp]

theorem C18_perm_sections (m : ModuleV) (ss : List SectionV) (hp : m.sections.Perm ss)
    (hn : (m.sections.map (·.uuid)).Nodup) :
    canonModule { m with sections := ss } = canonModule m := by
  simp only [canonModule, sortBy_uuid_perm (k := SectionV.uuid) hp hn]

theorem C18_perm_symbols (m : ModuleV) (ss : List SymbolV) (hp : m.symbols.Perm ss)
    (hn : (m.symbols.map (·.uuid)).Nodup) :
    canonModule { m with symbols := ss } = canonModule m := by
  simp only [canonModule, sortBy_uuid_perm (k := SymbolV.uuid) hp hn]

theorem C18_perm_proxies (m : ModuleV) (ps : List U) (hp : m.proxies.Perm ps) :
    canonModule { m with proxies := ps } = canonModule m := by
  simp only [canonModule, sortBy_bytes_perm hp]

theorem C18_perm_module_aux (m : ModuleV) (aux' : List AuxV) (hp : m.aux.Perm aux') :
    canonModule { m with aux := aux' } = canonModule m := by
  simp only [canonModule, canonAux_perm hp]

theorem C18_perm_intervals (s : SectionV) (is : List IntervalV) (hp : s.intervals.Perm is)
    (hn : (s.intervals.map (·.uuid)).Nodup) :
    canonSection { s with intervals := is } = canonSection s := by
  simp only [canonSection, sortBy_uuid_perm (k := IntervalV.uuid) hp hn]

theorem C18_perm_flags (s : SectionV) (fs : List Nat) (hp : s.flags.Perm fs) :
    canonSection { s with flags := fs } = canonSection s := by
  simp only [canonSection, sortNats_perm hp]

theorem C18_perm_blocks (i : IntervalV) (bs : List BlockV) (hp : i.blocks.Perm bs)
    (hn : (i.blocks.map (·.uuid)).Nodup) :
    canonInterval { i with blocks := bs } = canonInterval i := by
  simp only [canonInterval, sortBy_uuid_perm (k := BlockV.uuid) hp hn]

theorem C18_perm_exprs (i : IntervalV) (es : List ExprEntryV) (hp : i.exprs.Perm es)
    (hn : (i.exprs.map (·.key)).Nodup) :
    canonInterval { i with exprs := es } = canonInterval i := by
  simp only [canonInterval, sortBy_key_perm hp hn]

theorem C18_perm_attrs (e : ExprEntryV) (as : List Nat) (hp : e.attrs.Perm as) :
    canonExpr { e with attrs := as } = canonExpr e := by
  simp only [canonExpr, sortNats_perm hp]

/-! ... and the canonical form of a parent only depends on the canonical forms
of its children, so reorderings at any depth compose. -/

theorem C18_congr_modules (a : IRV) (ms : List ModuleV)
    (h : ms.map canonModule = a.modules.map canonModule) :
    canon { a with modules := ms } = canon a := by
  have e := fun l => map_sortBy (g := canonModule) (le := fun a b => bytesLe a.uuid b.uuid)
    (le' := fun a b => bytesLe a.uuid b.uuid) (fun _ _ => rfl) l
  simp only [canon, e, h]

theorem C18_congr_sections (m : ModuleV) (ss : List SectionV)
    (h : ss.map canonSection = m.sections.map canonSection) :
    canonModule { m with sections := ss } = canonModule m := by
  have e := fun l => map_sortBy (g := canonSection) (le := fun a b => bytesLe a.uuid b.uuid)
    (le' := fun a b => bytesLe a.uuid b.uuid) (fun _ _ => rfl) l
  simp only [canonModule, e, h]

theorem C18_congr_intervals (s : SectionV) (is : List IntervalV)
    (h : is.map canonInterval = s.intervals.map canonInterval) :
    canonSection { s with intervals := is } = canonSection s := by
  have e := fun l => map_sortBy (g := canonInterval) (le := fun a b => bytesLe a.uuid b.uuid)
    (le' := fun a b => bytesLe a.uuid b.uuid) (fun _ _ => rfl) l
  simp only [canonSection, e, h]

theorem C18_congr_exprs (i : IntervalV) (es : List ExprEntryV)
    (h : es.map canonExpr = i.exprs.map canonExpr) :
    canonInterval { i with exprs := es } = canonInterval i := by
  have e := fun l => map_sortBy (g := canonExpr) (le := fun a b => decide (a.key ≤ b.key))
    (le' := fun a b => decide (a.key ≤ b.key)) (fun _ _ => rfl) l
  have e' : ∀ l : List ExprEntryV, l.map (fun e => { e with attrs := sortNats e.attrs }) = l.map canonExpr :=
    fun _ => rfl
  simp only [canonInterval, e', e, h]

/-! ### AuxData: keys compared, values ignored -/

theorem C18_field_aux_keys (a b : IRV)
    (h : ¬ ∀ k, k ∈ a.aux.map (·.key) ↔ k ∈ b.aux.map (·.key)) : deepEq a b = false :=
  Bool.eq_false_iff.2 fun hd => h (by
    simp only [deepEq, Bool.and_eq_true] at hd
    exact sameKeys_iff.1 hd.1.1.1.1.2)

/-- replacing every AuxData table (of the IR and of each module) by one with
the same keys in the same order, whatever the type names and bytes, is not
noticed; together with `C18_perm_aux` / `C18_perm_module_aux` the order of the
keys does not matter either -/
theorem C18_aux_values_ignored (a : IRV) (hs : SelfContained a) (fi : List AuxV)
    (fm : ModuleV → List AuxV) (hi : fi.map (·.key) = a.aux.map (·.key))
    (hm : ∀ m ∈ a.modules, (fm m).map (·.key) = m.aux.map (·.key)) :
    deepEq a (reAux a fi fm) = true := deepEq_reAux a hs fi fm hi hm

/-! ### one lemma per compared field

`ModPath a b m m'`: `m` is a module of `a`, `m'` a module of `b`, same UUID.
`SecPath a b s s'`: sections with the same UUID inside such modules.
`IntPath a b i i'`: byte intervals with the same UUID inside such sections. -/

theorem C18_field_uuid (a b : IRV) (h : a.uuid ≠ b.uuid) : deepEq a b = false :=
  Bool.eq_false_iff.2 fun hd => h (by
    simp only [deepEq, Bool.and_eq_true, beq_iff_eq] at hd
    exact hd.1.1.1.1.1)

theorem C18_field_version (a b : IRV) (h : a.version ≠ b.version) : deepEq a b = false :=
  Bool.eq_false_iff.2 fun hd => h (by
    simp only [deepEq, Bool.and_eq_true, beq_iff_eq] at hd
    exact hd.1.2)

/-- containment tree: a module of `a` whose UUID does not occur in `b` -/
theorem C18_field_module_missing (a b : IRV) (hda : DistinctSiblings a) (hdb : DistinctSiblings b)
    {m : ModuleV} (hm : m ∈ a.modules) (h : ∀ m' ∈ b.modules, m'.uuid ≠ m.uuid) :
    deepEq a b = false :=
  Bool.eq_false_iff.2 fun hd => by
    obtain ⟨m', hm', e⟩ := module_exists (deepEq_canon hda hdb hd) hm
    exact h m' hm' (by have := congrArg ModuleV.uuid e; exact this)

theorem C18_field_module_name (a b : IRV) (hda : DistinctSiblings a) (hdb : DistinctSiblings b)
    {m m' : ModuleV} (p : ModPath a b m m') (h : m.name ≠ m'.name) : deepEq a b = false :=
  Bool.eq_false_iff.2 fun hd => h (by
    have := congrArg ModuleV.name (deepEq_module_corr hda hdb hd p).1; exact this)

theorem C18_field_module_binaryPath (a b : IRV) (hda : DistinctSiblings a) (hdb : DistinctSiblings b)
    {m m' : ModuleV} (p : ModPath a b m m') (h : m.binaryPath ≠ m'.binaryPath) : deepEq a b = false :=
  Bool.eq_false_iff.2 fun hd => h (by
    have := congrArg ModuleV.binaryPath (deepEq_module_corr hda hdb hd p).1; exact this)

theorem C18_field_module_isa (a b : IRV) (hda : DistinctSiblings a) (hdb : DistinctSiblings b)
    {m m' : ModuleV} (p : ModPath a b m m') (h : m.isa ≠ m'.isa) : deepEq a b = false :=
  Bool.eq_false_iff.2 fun hd => h (by
    have := congrArg ModuleV.isa (deepEq_module_corr hda hdb hd p).1; exact this)

theorem C18_field_module_fileFormat (a b : IRV) (hda : DistinctSiblings a) (hdb : DistinctSiblings b)
    {m m' : ModuleV} (p : ModPath a b m m') (h : m.fileFormat ≠ m'.fileFormat) : deepEq a b = false :=
  Bool.eq_false_iff.2 fun hd => h (by
    have := congrArg ModuleV.fileFormat (deepEq_module_corr hda hdb hd p).1; exact this)

theorem C18_field_module_byteOrder (a b : IRV) (hda : DistinctSiblings a) (hdb : DistinctSiblings b)
    {m m' : ModuleV} (p : ModPath a b m m') (h : m.byteOrder ≠ m'.byteOrder) : deepEq a b = false :=
  Bool.eq_false_iff.2 fun hd => h (by
    have := congrArg ModuleV.byteOrder (deepEq_module_corr hda hdb hd p).1; exact this)

theorem C18_field_module_preferredAddr (a b : IRV) (hda : DistinctSiblings a) (hdb : DistinctSiblings b)
    {m m' : ModuleV} (p : ModPath a b m m') (h : m.preferredAddr ≠ m'.preferredAddr) : deepEq a b = false :=
  Bool.eq_false_iff.2 fun hd => h (by
    have := congrArg ModuleV.preferredAddr (deepEq_module_corr hda hdb hd p).1; exact this)

theorem C18_field_module_rebaseDelta (a b : IRV) (hda : DistinctSiblings a) (hdb : DistinctSiblings b)
    {m m' : ModuleV} (p : ModPath a b m m') (h : m.rebaseDelta ≠ m'.rebaseDelta) : deepEq a b = false :=
  Bool.eq_false_iff.2 fun hd => h (by
    have := congrArg ModuleV.rebaseDelta (deepEq_module_corr hda hdb hd p).1; exact this)

/-- entry point -/
theorem C18_field_module_entryPoint (a b : IRV) (hda : DistinctSiblings a) (hdb : DistinctSiblings b)
    {m m' : ModuleV} (p : ModPath a b m m') (h : m.entryPoint ≠ m'.entryPoint) : deepEq a b = false :=
  Bool.eq_false_iff.2 fun hd => h (by
    have := congrArg ModuleV.entryPoint (deepEq_module_corr hda hdb hd p).1; exact this)

theorem C18_field_module_proxies (a b : IRV) (hda : DistinctSiblings a) (hdb : DistinctSiblings b)
    {m m' : ModuleV} (p : ModPath a b m m') (h : ¬ ∀ u, u ∈ m.proxies ↔ u ∈ m'.proxies) :
    deepEq a b = false :=
  Bool.eq_false_iff.2 fun hd => h (by
    have e : sortBy bytesLe m.proxies = sortBy bytesLe m'.proxies :=
      congrArg ModuleV.proxies (deepEq_module_corr hda hdb hd p).1
    exact mem_iff_of_sortBy_eq e)

theorem C18_field_module_aux_keys (a b : IRV) (hda : DistinctSiblings a) (hdb : DistinctSiblings b)
    {m m' : ModuleV} (p : ModPath a b m m')
    (h : ¬ ∀ k, k ∈ m.aux.map (·.key) ↔ k ∈ m'.aux.map (·.key)) : deepEq a b = false :=
  Bool.eq_false_iff.2 fun hd => h (by
    have e : canonAux m.aux = canonAux m'.aux :=
      congrArg ModuleV.aux (deepEq_module_corr hda hdb hd p).1
    exact sameKeys_iff.1 (sameKeys_of_canonAux_eq e))

/-- the symbols of corresponding modules are the same values -/
theorem C18_field_module_symbols (a b : IRV) (hda : DistinctSiblings a) (hdb : DistinctSiblings b)
    {m m' : ModuleV} (p : ModPath a b m m') (h : ¬ ∀ s, s ∈ m.symbols ↔ s ∈ m'.symbols) :
    deepEq a b = false :=
  Bool.eq_false_iff.2 fun hd => h (by
    have e : sortBy (fun a b => bytesLe a.uuid b.uuid) m.symbols
        = sortBy (fun a b => bytesLe a.uuid b.uuid) m'.symbols :=
      congrArg ModuleV.symbols (deepEq_module_corr hda hdb hd p).1
    exact mem_iff_of_sortBy_eq e)

/-! symbols (UUIDs unique in the IR) -/

theorem C18_field_symbol (a b : IRV) (hda : DistinctSiblings a) (hdb : DistinctSiblings b)
    (hsb : SelfContained b) {s s' : SymbolV} (hs : s ∈ a.symbols) (hs' : s' ∈ b.symbols)
    (hu : s.uuid = s'.uuid) (h : s ≠ s') : deepEq a b = false :=
  Bool.eq_false_iff.2 fun hd => h
    (inj_of_nodup_map hsb.2.1 s ((deepEq_mem_symbols hda hdb hd s).1 hs) s' hs' hu)

theorem C18_field_symbol_missing (a b : IRV) (hda : DistinctSiblings a) (hdb : DistinctSiblings b)
    {s : SymbolV} (hs : s ∈ a.symbols) (h : ∀ s' ∈ b.symbols, s'.uuid ≠ s.uuid) :
    deepEq a b = false :=
  Bool.eq_false_iff.2 fun hd => h s ((deepEq_mem_symbols hda hdb hd s).1 hs) rfl

theorem C18_field_symbol_name (a b : IRV) (hda : DistinctSiblings a) (hdb : DistinctSiblings b)
    (hsb : SelfContained b) {s s' : SymbolV} (hs : s ∈ a.symbols) (hs' : s' ∈ b.symbols)
    (hu : s.uuid = s'.uuid) (h : s.name ≠ s'.name) : deepEq a b = false :=
  C18_field_symbol a b hda hdb hsb hs hs' hu (fun e => h (e ▸ rfl))

theorem C18_field_symbol_payload (a b : IRV) (hda : DistinctSiblings a) (hdb : DistinctSiblings b)
    (hsb : SelfContained b) {s s' : SymbolV} (hs : s ∈ a.symbols) (hs' : s' ∈ b.symbols)
    (hu : s.uuid = s'.uuid) (h : s.payload ≠ s'.payload) : deepEq a b = false :=
  C18_field_symbol a b hda hdb hsb hs hs' hu (fun e => h (e ▸ rfl))

theorem C18_field_symbol_atEnd (a b : IRV) (hda : DistinctSiblings a) (hdb : DistinctSiblings b)
    (hsb : SelfContained b) {s s' : SymbolV} (hs : s ∈ a.symbols) (hs' : s' ∈ b.symbols)
    (hu : s.uuid = s'.uuid) (h : s.atEnd ≠ s'.atEnd) : deepEq a b = false :=
  C18_field_symbol a b hda hdb hsb hs hs' hu (fun e => h (e ▸ rfl))

/-! sections -/

theorem C18_field_section_missing (a b : IRV) (hda : DistinctSiblings a) (hdb : DistinctSiblings b)
    {m m' : ModuleV} (p : ModPath a b m m') {s : SectionV} (hs : s ∈ m.sections)
    (h : ∀ s' ∈ m'.sections, s'.uuid ≠ s.uuid) : deepEq a b = false :=
  Bool.eq_false_iff.2 fun hd => by
    obtain ⟨s', hs', e⟩ := section_exists (deepEq_module_corr hda hdb hd p).1 hs
    exact h s' hs' (by have := congrArg SectionV.uuid e; exact this)

theorem C18_field_section_name (a b : IRV) (hda : DistinctSiblings a) (hdb : DistinctSiblings b)
    {s s' : SectionV} (p : SecPath a b s s') (h : s.name ≠ s'.name) : deepEq a b = false :=
  Bool.eq_false_iff.2 fun hd => h (by
    have := congrArg SectionV.name (deepEq_section_corr hda hdb hd p).1; exact this)

theorem C18_field_section_flags (a b : IRV) (hda : DistinctSiblings a) (hdb : DistinctSiblings b)
    {s s' : SectionV} (p : SecPath a b s s') (h : ¬ ∀ x, x ∈ s.flags ↔ x ∈ s'.flags) :
    deepEq a b = false :=
  Bool.eq_false_iff.2 fun hd => h (by
    have e : sortNats s.flags = sortNats s'.flags :=
      congrArg SectionV.flags (deepEq_section_corr hda hdb hd p).1
    exact sameSet_iff.1 (sameSet_of_sortNats_eq e))

/-! byte intervals -/

theorem C18_field_interval_missing (a b : IRV) (hda : DistinctSiblings a) (hdb : DistinctSiblings b)
    {s s' : SectionV} (p : SecPath a b s s') {i : IntervalV} (hi : i ∈ s.intervals)
    (h : ∀ i' ∈ s'.intervals, i'.uuid ≠ i.uuid) : deepEq a b = false :=
  Bool.eq_false_iff.2 fun hd => by
    obtain ⟨i', hi', e⟩ := interval_exists (deepEq_section_corr hda hdb hd p).1 hi
    exact h i' hi' (by have := congrArg IntervalV.uuid e; exact this)

theorem C18_field_interval_addr (a b : IRV) (hda : DistinctSiblings a) (hdb : DistinctSiblings b)
    {i i' : IntervalV} (p : IntPath a b i i') (h : i.addr ≠ i'.addr) : deepEq a b = false :=
  Bool.eq_false_iff.2 fun hd => h (by
    have := congrArg IntervalV.addr (deepEq_interval_corr hda hdb hd p).1; exact this)

theorem C18_field_interval_size (a b : IRV) (hda : DistinctSiblings a) (hdb : DistinctSiblings b)
    {i i' : IntervalV} (p : IntPath a b i i') (h : i.size ≠ i'.size) : deepEq a b = false :=
  Bool.eq_false_iff.2 fun hd => h (by
    have := congrArg IntervalV.size (deepEq_interval_corr hda hdb hd p).1; exact this)

theorem C18_field_interval_contents (a b : IRV) (hda : DistinctSiblings a) (hdb : DistinctSiblings b)
    {i i' : IntervalV} (p : IntPath a b i i') (h : i.contents ≠ i'.contents) : deepEq a b = false :=
  Bool.eq_false_iff.2 fun hd => h (by
    have := congrArg IntervalV.contents (deepEq_interval_corr hda hdb hd p).1; exact this)

/-- corresponding intervals hold the same block values (a block moved to
another interval, added, removed or changed is noticed) -/
theorem C18_field_interval_blocks (a b : IRV) (hda : DistinctSiblings a) (hdb : DistinctSiblings b)
    {i i' : IntervalV} (p : IntPath a b i i') (h : ¬ ∀ x, x ∈ i.blocks ↔ x ∈ i'.blocks) :
    deepEq a b = false :=
  Bool.eq_false_iff.2 fun hd => h (by
    have e : sortBy (fun a b => bytesLe a.uuid b.uuid) i.blocks
        = sortBy (fun a b => bytesLe a.uuid b.uuid) i'.blocks :=
      congrArg IntervalV.blocks (deepEq_interval_corr hda hdb hd p).1
    exact mem_iff_of_sortBy_eq e)

/-! blocks (UUIDs unique in the IR) -/

theorem C18_field_block (a b : IRV) (hda : DistinctSiblings a) (hdb : DistinctSiblings b)
    (hsb : SelfContained b) {x y : BlockV} (hx : x ∈ a.blocks) (hy : y ∈ b.blocks)
    (hu : x.uuid = y.uuid) (h : x ≠ y) : deepEq a b = false :=
  Bool.eq_false_iff.2 fun hd => h
    (inj_of_nodup_map hsb.1 x ((deepEq_mem_blocks hda hdb hd x).1 hx) y hy hu)

theorem C18_field_block_missing (a b : IRV) (hda : DistinctSiblings a) (hdb : DistinctSiblings b)
    {x : BlockV} (hx : x ∈ a.blocks) (h : ∀ y ∈ b.blocks, y.uuid ≠ x.uuid) : deepEq a b = false :=
  Bool.eq_false_iff.2 fun hd => h x ((deepEq_mem_blocks hda hdb hd x).1 hx) rfl

theorem C18_field_block_offset (a b : IRV) (hda : DistinctSiblings a) (hdb : DistinctSiblings b)
    (hsb : SelfContained b) {x y : BlockV} (hx : x ∈ a.blocks) (hy : y ∈ b.blocks)
    (hu : x.uuid = y.uuid) (h : x.offset ≠ y.offset) : deepEq a b = false :=
  C18_field_block a b hda hdb hsb hx hy hu (fun e => h (e ▸ rfl))

theorem C18_field_block_size (a b : IRV) (hda : DistinctSiblings a) (hdb : DistinctSiblings b)
    (hsb : SelfContained b) {x y : BlockV} (hx : x ∈ a.blocks) (hy : y ∈ b.blocks)
    (hu : x.uuid = y.uuid) (h : x.size ≠ y.size) : deepEq a b = false :=
  C18_field_block a b hda hdb hsb hx hy hu (fun e => h (e ▸ rfl))

theorem C18_field_block_decodeMode (a b : IRV) (hda : DistinctSiblings a) (hdb : DistinctSiblings b)
    (hsb : SelfContained b) {x y : BlockV} (hx : x ∈ a.blocks) (hy : y ∈ b.blocks)
    (hu : x.uuid = y.uuid) (h : x.decodeMode? ≠ y.decodeMode?) : deepEq a b = false :=
  C18_field_block a b hda hdb hsb hx hy hu (fun e => h (e ▸ rfl))

/-- a data block is never `deep_eq` to a code block with the same UUID, offset
and size, in either direction (this was a defect of `DataBlock.deep_eq`,
which accepted any `ByteBlock` on the other side; fixed in the code) -/
theorem C18_field_block_kind (a b : IRV) (hda : DistinctSiblings a) (hdb : DistinctSiblings b)
    (hsb : SelfContained b) (u : U) (o z d : Nat) (hx : BlockV.data u o z ∈ a.blocks)
    (hy : BlockV.code u o z d ∈ b.blocks) : deepEq a b = false ∧ deepEq b a = false := by
  have h := C18_field_block a b hda hdb hsb hx hy rfl (fun e => by cases e)
  exact ⟨h, by rw [C18_symm b a]; exact h⟩

/-! symbolic expressions -/

theorem C18_field_expr_key (a b : IRV) (hda : DistinctSiblings a) (hdb : DistinctSiblings b)
    {i i' : IntervalV} (p : IntPath a b i i') {e : ExprEntryV} (he : e ∈ i.exprs)
    (h : ∀ e' ∈ i'.exprs, e'.key ≠ e.key) : deepEq a b = false :=
  Bool.eq_false_iff.2 fun hd => by
    obtain ⟨e', he', ee⟩ := expr_exists (deepEq_interval_corr hda hdb hd p).1 he
    exact h e' he' (by have := congrArg ExprEntryV.key ee; exact this)

/-- operands: kind, offset / scale, referenced symbols -/
theorem C18_field_expr_operands (a b : IRV) (hda : DistinctSiblings a) (hdb : DistinctSiblings b)
    {i i' : IntervalV} (p : IntPath a b i i') {e e' : ExprEntryV} (he : e ∈ i.exprs)
    (he' : e' ∈ i'.exprs) (hk : e.key = e'.key) (h : e.expr ≠ e'.expr) : deepEq a b = false :=
  Bool.eq_false_iff.2 fun hd => h (by
    have := congrArg ExprEntryV.expr (deepEq_expr_corr hda hdb hd p he he' hk); exact this)

theorem C18_field_expr_attrs (a b : IRV) (hda : DistinctSiblings a) (hdb : DistinctSiblings b)
    {i i' : IntervalV} (p : IntPath a b i i') {e e' : ExprEntryV} (he : e ∈ i.exprs)
    (he' : e' ∈ i'.exprs) (hk : e.key = e'.key) (h : ¬ ∀ x, x ∈ e.attrs ↔ x ∈ e'.attrs) :
    deepEq a b = false :=
  Bool.eq_false_iff.2 fun hd => h (by
    have e : sortNats e.attrs = sortNats e'.attrs :=
      congrArg ExprEntryV.attrs (deepEq_expr_corr hda hdb hd p he he' hk)
    exact sameSet_iff.1 (sameSet_of_sortNats_eq e))

/-! CFG edges -/

theorem C18_field_edge (a b : IRV) {e : EdgeV} (he : e ∈ a.edges) (h : e ∉ b.edges) :
    deepEq a b = false :=
  Bool.eq_false_iff.2 fun hd => h ((deepEq_mem_edges hd e).1 he)

theorem C18_field_edge_label (a b : IRV) (s d : U) (l : Option EdgeLabelV)
    (he : (⟨s, d, l⟩ : EdgeV) ∈ a.edges)
    (h : ∀ e' ∈ b.edges, e'.src = s → e'.dst = d → e'.label ≠ l) : deepEq a b = false :=
  Bool.eq_false_iff.2 fun hd => h _ ((deepEq_mem_edges hd _).1 he) rfl rfl rfl

theorem C18_field_edge_count (a b : IRV) (h : a.edges.length ≠ b.edges.length) :
    deepEq a b = false :=
  Bool.eq_false_iff.2 fun hd => h (by
    simp only [deepEq, cfgDeepEq, Bool.and_eq_true, beq_iff_eq] at hd
    exact hd.2.1)

/-! ### non-vacuity: concrete IRs -/
namespace C18Ex

def exU (n : UInt8) : U := List.replicate 15 0 ++ [n]

def exI (swap : Bool) (blk : BlockV) : IntervalV :=
  { uuid := exU 5, addr := some 4096, size := 8, contents := [1, 2, 3, 4],
    blocks := if swap then [blk, .code (exU 10) 0 4 0] else [.code (exU 10) 0 4 0, blk],
    exprs := if swap then [⟨4, .addrAddr 1 0 (exU 30) (exU 31), []⟩, ⟨0, .addrConst 4 (exU 30), [5, 1]⟩]
             else [⟨0, .addrConst 4 (exU 30), [1, 5]⟩, ⟨4, .addrAddr 1 0 (exU 30) (exU 31), []⟩] }

def exSyms : List SymbolV :=
  [⟨exU 30, "main", .referent (exU 10), false⟩, ⟨exU 31, "ext", .referent (exU 20), false⟩,
   ⟨exU 32, "abs", .value 7, true⟩]

def exM (swap : Bool) (blk : BlockV) : ModuleV :=
  { uuid := exU 2, name := "m", binaryPath := "/bin/x", preferredAddr := 4096, rebaseDelta := -4,
    fileFormat := 2, isa := 3, byteOrder := 2, entryPoint := some (exU 10),
    proxies := if swap then [exU 21, exU 20] else [exU 20, exU 21],
    sections :=
      if swap then [⟨exU 4, ".data", [], []⟩, ⟨exU 3, ".text", [2, 1], [exI swap blk]⟩]
      else [⟨exU 3, ".text", [1, 2], [exI swap blk]⟩, ⟨exU 4, ".data", [], []⟩],
    symbols := if swap then exSyms.reverse else exSyms,
    aux := if swap then [⟨"b", "t2", [9]⟩, ⟨"a", "t1", []⟩] else [⟨"a", "t", [1]⟩, ⟨"b", "t", []⟩] }

/-- `swap = true`: every collection reordered and all AuxData values changed -/
def exIR (swap : Bool) (blk : BlockV) : IRV :=
  { uuid := exU 1, version := 4, modules := [exM swap blk],
    edges := if swap then [⟨exU 10, exU 21, none⟩, ⟨exU 10, exU 20, some ⟨1, true, true⟩⟩]
             else [⟨exU 10, exU 20, some ⟨1, true, true⟩⟩, ⟨exU 10, exU 21, none⟩],
    aux := if swap then [⟨"k2", "x", [1]⟩, ⟨"k1", "y", []⟩] else [⟨"k1", "t", [1]⟩, ⟨"k2", "t", []⟩] }

def exA : IRV := exIR false (.data (exU 11) 4 4)
def exA' : IRV := exIR true (.data (exU 11) 4 4)
/-- one-field perturbations of `exA'` -/
def exKind : IRV := exIR true (.code (exU 11) 4 4 0)
def exSize : IRV := exIR true (.data (exU 11) 4 3)
def exVersion : IRV := { exA' with version := 3 }
def exLabel : IRV :=
  { exA' with edges := [⟨exU 10, exU 21, none⟩, ⟨exU 10, exU 20, some ⟨1, true, false⟩⟩] }
def exAuxKey : IRV := { exA' with aux := [⟨"k2", "x", [1]⟩, ⟨"k3", "y", []⟩] }

example : DistinctSiblings exA ∧ SelfContained exA := by decide
example : DistinctSiblings exA' ∧ SelfContained exA' := by decide
example : DistinctSiblings exKind ∧ SelfContained exKind := by decide
example : exA ≠ exA' := by decide
example : deepEq exA exA' = true ∧ deepEq exA' exA = true := by decide
example : canon exA = canon exA' := by decide
example : deepEq exA exKind = false ∧ deepEq exKind exA = false := by decide
example : deepEq exA exSize = false := by decide
example : deepEq exA exVersion = false := by decide
example : deepEq exA exLabel = false := by decide
example : deepEq exA exAuxKey = false := by decide
/-- the hypotheses are needed: a dangling referent is not `deep_eq` to itself -/
example : deepEq { exA with edges := [⟨exU 10, exU 99, none⟩] }
    { exA with edges := [⟨exU 10, exU 99, none⟩] } = false := by decide
/-- ... and duplicate flags separate `deep_eq` (a set comparison) from `canon` -/
example : let s : SectionV := ⟨exU 3, "s", [1, 1], []⟩
    sectionDeepEq exA exA s { s with flags := [1] } = true
      ∧ canonSection s ≠ canonSection { s with flags := [1] } := by decide

/-! the field lemmas apply to these (their path hypotheses are satisfiable) -/
def exAddr : IRV :=
  { exA' with modules := [{ exM true (.data (exU 11) 4 4) with
      sections := [⟨exU 4, ".data", [], []⟩,
        ⟨exU 3, ".text", [2, 1], [{ exI true (.data (exU 11) 4 4) with addr := none }]⟩] }] }

example : deepEq exA exSize = false :=
  C18_field_block_size exA exSize (by decide) (by decide) (by decide)
    (x := .data (exU 11) 4 4) (y := .data (exU 11) 4 3) (by decide) (by decide) rfl (by decide)

example : deepEq exA exKind = false ∧ deepEq exKind exA = false :=
  C18_field_block_kind exA exKind (by decide) (by decide) (by decide) (exU 11) 4 4 0
    (by decide) (by decide)

example : deepEq exA exAddr = false :=
  C18_field_interval_addr exA exAddr (by decide) (by decide)
    (i := exI false (.data (exU 11) 4 4)) (i' := { exI true (.data (exU 11) 4 4) with addr := none })
    ⟨⟨_, _, ⟨⟨_, _, ⟨List.mem_singleton.2 rfl, List.mem_singleton.2 rfl, rfl⟩,
      List.mem_cons_self, List.mem_cons_of_mem _ List.mem_cons_self⟩, rfl⟩,
      List.mem_singleton.2 rfl, List.mem_singleton.2 rfl⟩, rfl⟩ (by decide)

example : deepEq exA (reAux exA [⟨"k1", "other", [7, 7]⟩, ⟨"k2", "", []⟩]
    (fun _ => [⟨"a", "x", []⟩, ⟨"b", "y", [0]⟩])) = true :=
  C18_aux_values_ignored exA (by decide) _ _ (by decide) (by decide)

end C18Ex
end Gtirb.Msg
