import GtirbProofs.Props.C14History
import GtirbProofs.Lemmas.CodecTypingProofs
/-! C14 across a save/load generation of a TOUCHED table, and the exact extent of clause 3.

* `decode_hasType` / `decode_suffix` (Lemmas/CodecTypingProofs.lean) restated at table level;
* `C14_touched_generation`: a successful read never costs the table: the next save succeeds,
  what it writes decodes to the same value, and from then on the bytes are a fixed point;
* `C14_assign_generation`: the same after assigning a well-typed value;
* `C14_rewritten_iff`: read + save gives the loaded bytes back exactly when they are the
  encoding of the decoded value (the extent of known finding K4);
* `C14_unknown_top(_head)`: a type name whose top-level head has no codec keeps ANY bytes;
* `C14_lazy_trichotomy`: every loaded table is in one of three cases. -/
namespace Gtirb.AuxTable
open Gtirb.Codec

/-! ### reading a table: inversion -/

/-- a read of a freshly loaded table that hands out a value: the name parses, and the value
is what the codec decoder returns for the bytes (trailing bytes ignored) -/
theorem read_load_val (lookup : Bytes → Option Nat) (name : String) (bs : Bytes) (t' : Table)
    (v : Val) (hr : read lookup (load name bs) = .ok (t', .val v)) :
    t' = { typeName := name, raw := none, data := some (.val v) } ∧
    ∃ ty rest, tyOfName name = some ty ∧ decode lookup ty bs = .ok (v, rest) := by
  simp only [read, load] at hr
  split at hr
  · rename_i d hd
    simp only [Except.ok.injEq, Prod.mk.injEq] at hr
    obtain ⟨rfl, rfl⟩ := hr
    refine ⟨rfl, ?_⟩
    unfold decodeTop at hd
    split at hd
    · cases hd
    · rename_i tr hp
      split at hd
      · cases hd
      · rename_i ty hty
        split at hd
        · rename_i v' rest hdec
          simp only [Except.ok.injEq, Data.val.injEq] at hd
          subst hd
          exact ⟨ty, rest, by simp [tyOfName, hp, hty], hdec⟩
        all_goals cases hd
  · cases hr

theorem read_load_of_decodeTop (lookup : Bytes → Option Nat) (name : String) (bs : Bytes) (d : Data)
    (h : decodeTop lookup name bs = .ok d) :
    read lookup (load name bs) = .ok ({ typeName := name, raw := none, data := some d }, d) := by
  simp [read, load, h]

/-- `save` of a table that holds a value under a parseable name -/
theorem save_val (lookup : Bytes → Option Nat) (nu : Nat → Bytes) (name : String) (ty : Ty)
    (v : Val) (hty : tyOfName name = some ty) :
    (save lookup nu { typeName := name, raw := none, data := some (.val v) }).2 =
      (match encode nu ty v with | some out => .ok (name, out) | none => .error .encode) := by
  rw [C14_current_full lookup nu _ (.val v) rfl rfl]
  simp only [encodeTop_val nu name ty v hty]
  cases encode nu ty v <;> rfl

/-! ### decode-side typing and suffix, at table level -/

/-- whatever a read hands out is a value of the table's type -/
theorem C14_read_hasType (lookup : Bytes → Option Nat) (nu : Nat → Bytes)
    (hc : Coherent lookup nu) (name : String) (bs : Bytes) (t' : Table) (v : Val)
    (hr : read lookup (load name bs) = .ok (t', .val v)) :
    ∃ ty, tyOfName name = some ty ∧ hasType lookup nu ty v = true := by
  obtain ⟨_, ty, rest, hty, hdec⟩ := read_load_val lookup name bs t' v hr
  exact ⟨ty, hty, decode_hasType lookup nu hc ty bs rest v hdec⟩

/-! ### (a) a touched table across generations -/

/-- A successful read never costs the table: the next save succeeds under the same name, what
it wrote decodes (in the next generation) to the same value, and saving that generation after
its read writes the same bytes again (fixed point from the second generation on). -/
theorem C14_touched_generation (lookup : Bytes → Option Nat) (nu : Nat → Bytes)
    (hc : Coherent lookup nu) (name : String) (bs : Bytes) (t' : Table) (v : Val)
    (hr : read lookup (load name bs) = .ok (t', .val v)) :
    ∃ out, (save lookup nu t').2 = .ok (name, out) ∧
      ∃ t'', read lookup (load name out) = .ok (t'', .val v) ∧
        (save lookup nu t'').2 = .ok (name, out) := by
  obtain ⟨rfl, ty, rest, hty, hdec⟩ := read_load_val lookup name bs t' v hr
  have hv := decode_hasType lookup nu hc ty bs rest v hdec
  obtain ⟨out, henc, hrt⟩ := C07_roundtrip lookup nu ty v hv
  have hs := save_val lookup nu name ty v hty
  rw [henc] at hs
  have hdec' : decode lookup ty out = .ok (v, []) := by simpa using hrt []
  have htop := decodeTop_ok lookup name ty v out [] hty hdec'
  exact ⟨out, hs, _, read_load_of_decodeTop lookup name out _ htop, hs⟩

/-- the written bytes are moreover canonical: they are the encoding of the value, so every
later generation that only reads writes them again -/
theorem C14_touched_generation_encode (lookup : Bytes → Option Nat) (nu : Nat → Bytes)
    (hc : Coherent lookup nu) (name : String) (bs : Bytes) (t' : Table) (v : Val)
    (hr : read lookup (load name bs) = .ok (t', .val v)) :
    ∃ ty out, tyOfName name = some ty ∧ encode nu ty v = some out ∧
      (save lookup nu t').2 = .ok (name, out) := by
  obtain ⟨rfl, ty, rest, hty, hdec⟩ := read_load_val lookup name bs t' v hr
  have hv := decode_hasType lookup nu hc ty bs rest v hdec
  obtain ⟨out, henc, _⟩ := C07_roundtrip lookup nu ty v hv
  have hs := save_val lookup nu name ty v hty
  rw [henc] at hs
  exact ⟨ty, out, hty, henc, hs⟩

/-- one generation of a table that is read: load, read, save, take what was written -/
def readGeneration (lookup : Bytes → Option Nat) (nu : Nat → Bytes) (name : String) (bs : Bytes) :
    Option (String × Bytes) :=
  match read lookup (load name bs) with
  | .ok (t', _) =>
    match (save lookup nu t').2 with
    | .ok out => some out
    | .error _ => none
  | .error _ => none

/-- `n` generations of load / read / save -/
def readGenerations (lookup : Bytes → Option Nat) (nu : Nat → Bytes) :
    Nat → String → Bytes → Option (String × Bytes)
  | 0, name, bs => some (name, bs)
  | n + 1, name, bs =>
    match readGeneration lookup nu name bs with
    | some (name', bs') => readGenerations lookup nu n name' bs'
    | none => none

/-- over any number of read generations: if the first read succeeds with a value, every
generation succeeds, and all generations after the first write the same bytes -/
theorem C14_read_generations (lookup : Bytes → Option Nat) (nu : Nat → Bytes)
    (hc : Coherent lookup nu) (name : String) (bs : Bytes) (t' : Table) (v : Val)
    (hr : read lookup (load name bs) = .ok (t', .val v)) :
    ∃ out, ∀ n, readGenerations lookup nu (n + 1) name bs = some (name, out) := by
  obtain ⟨out, hs, t'', hr', hs'⟩ := C14_touched_generation lookup nu hc name bs t' v hr
  have hfix : readGeneration lookup nu name out = some (name, out) := by
    simp [readGeneration, hr', hs']
  have hall : ∀ n, readGenerations lookup nu n name out = some (name, out) := by
    intro n
    induction n with
    | zero => rfl
    | succ n ih => simp [readGenerations, hfix, ih]
  refine ⟨out, fun n => ?_⟩
  simp [readGenerations, readGeneration, hr, hs, hall n]

/-- the same after `.data = v` with a well-typed value: the save succeeds and the next
generation reads the value back -/
theorem C14_assign_generation (lookup : Bytes → Option Nat) (nu : Nat → Bytes) (name : String)
    (ty : Ty) (t : Table) (v : Val)
    (hn : t.typeName = name) (hty : tyOfName name = some ty) (hv : hasType lookup nu ty v = true) :
    ∃ out, (save lookup nu (assignData t (.val v))).2 = .ok (name, out) ∧
      ∃ t'', read lookup (load name out) = .ok (t'', .val v) := by
  obtain ⟨out, henc, hrt⟩ := C07_roundtrip lookup nu ty v hv
  subst hn
  have hs := C14_assign_save lookup nu t v ty out hty henc
  have hdec' : decode lookup ty out = .ok (v, []) := by simpa using hrt []
  have htop := decodeTop_ok lookup t.typeName ty v out [] hty hdec'
  exact ⟨out, hs, _, read_load_of_decodeTop lookup t.typeName out _ htop⟩

/-! ### (b) the exact extent of K4 -/

/-- read + save of a table gives the loaded bytes back exactly when they are the encoding of
the value they decode to -/
theorem C14_rewritten_iff (lookup : Bytes → Option Nat) (nu : Nat → Bytes) (name : String)
    (ty : Ty) (bs : Bytes) (t' : Table) (v : Val)
    (hty : tyOfName name = some ty) (hr : read lookup (load name bs) = .ok (t', .val v)) :
    (save lookup nu t').2 = .ok (name, bs) ↔ encode nu ty v = some bs := by
  obtain ⟨rfl, _⟩ := read_load_val lookup name bs t' v hr
  rw [save_val lookup nu name ty v hty]
  cases encode nu ty v with
  | none => simp
  | some out => simp

/-! ### (c) clause 3 at depth 0 -/

/-- a head for which `Serialization.codecs` has an entry -/
def hasCodec (s : String) : Bool := (leafOfName s).isSome || isContainerName s

/-- the `Ty` of a tree whose head has no codec is an `unknown` node, whatever the arguments
are (known heads with a wrong arity below it included) -/
theorem tyOfTree_unknown_head (n : List Char) (ks : List TypeName.Tree)
    (hh : hasCodec (String.ofList n) = false) :
    ∃ args, tyOfTree (.node n ks) = some (.unknown (String.ofList n) args) := by
  obtain ⟨args, ha⟩ := tysOfTrees_isSome ks
  simp only [hasCodec, Bool.or_eq_false_iff] at hh
  obtain ⟨hl, hcn⟩ := hh
  have hl' : leafOfName (String.ofList n) = none := by
    cases h : leafOfName (String.ofList n) with
    | none => rfl
    | some l => rw [h] at hl; cases hl
  simp only [isContainerName, Bool.or_eq_false_iff] at hcn
  obtain ⟨⟨⟨⟨h1, h2⟩, h3⟩, h4⟩, h5⟩ := hcn
  refine ⟨args, ?_⟩
  simp only [tyOfTree, ha, hl', h1, h2, h3, h4, h5]
  simp

/-- (3, depth 0) the top-level head has no codec: the table becomes `UnknownData` holding
ALL its bytes, whatever they are -/
theorem C14_unknown_top (lookup : Bytes → Option Nat) (name n : String) (args : List Ty)
    (bs : Bytes) (hty : tyOfName name = some (.unknown n args)) :
    decodeTop lookup name bs = .ok (.unknownData bs) := by
  rw [decodeTop_eq lookup name _ bs hty]
  simp [decode]

/-- the same in terms of the name alone: every parseable name whose head is not one of the
20 names with a codec (the arguments may be anything, including known heads with a wrong
arity) -/
theorem C14_unknown_top_head (lookup : Bytes → Option Nat) (name : String) (n : List Char)
    (ks : List TypeName.Tree) (bs : Bytes)
    (hp : TypeName.parseType name.toList = some (.node n ks))
    (hh : hasCodec (String.ofList n) = false) :
    decodeTop lookup name bs = .ok (.unknownData bs) := by
  obtain ⟨args, ha⟩ := tyOfTree_unknown_head n ks hh
  exact C14_unknown_top lookup name (String.ofList n) args bs (by simp [tyOfName, hp, ha])

/-! ### (d) the trichotomy -/

/-- a table holding `UnknownData` keeps it, and writes it verbatim under whatever the current
name is, through any history without `.data = ...` -/
theorem runActs_unknownData (lookup : Bytes → Option Nat) (nu : Nat → Bytes) (bs : Bytes) :
    ∀ (as : List Act) (t : Table), t.raw = none → t.data = some (.unknownData bs) →
      (∀ a ∈ as, ∀ d, a ≠ .assignData d) →
      (runActs lookup nu t as).raw = none ∧
        (runActs lookup nu t as).data = some (.unknownData bs)
  | [], t, hraw, hd, _ => ⟨hraw, hd⟩
  | a :: as, t, hraw, hd, hna => by
    rw [runActs_cons]
    have hstep : (act lookup nu t a).raw = none ∧
        (act lookup nu t a).data = some (.unknownData bs) := by
      cases a with
      | read => simp [act, read, hraw, hd]
      | assignData d => exact absurd rfl (hna _ (List.mem_cons_self ..) d)
      | assignType s => exact ⟨hraw, hd⟩
      | save =>
        simp only [act]
        rw [C14_current_full lookup nu t _ hraw hd]
        exact ⟨hraw, hd⟩
    exact runActs_unknownData lookup nu bs as _ hstep.1 hstep.2
      (fun a h => hna a (List.mem_cons_of_mem _ h))

/-- Every loaded table is in exactly one of three cases: its read fails (and leaves the table
as loaded, so clause 1 keeps applying); its read gives `UnknownData` holding all the bytes,
which are then written verbatim for ever (under any later name, through any history that does
not assign data); or its read gives a value (and `C14_rewritten_iff`,
`C14_touched_generation` apply). -/
theorem C14_lazy_trichotomy (lookup : Bytes → Option Nat) (nu : Nat → Bytes) (name : String)
    (bs : Bytes) :
    (∃ e, read lookup (load name bs) = .error e ∧
        (act lookup nu (load name bs) .read) = load name bs) ∨
    (∃ t', read lookup (load name bs) = .ok (t', .unknownData bs) ∧
        ∀ as, (∀ a ∈ as, ∀ d, a ≠ .assignData d) →
          (save lookup nu (runActs lookup nu t' as)).2 =
            .ok ((runActs lookup nu t' as).typeName, bs)) ∨
    (∃ t' v, read lookup (load name bs) = .ok (t', .val v)) := by
  cases hdt : decodeTop lookup name bs with
  | error e =>
    left
    have hr : read lookup (load name bs) = .error e := by simp [read, load, hdt]
    exact ⟨e, hr, by simp [act, hr]⟩
  | ok d =>
    have hr := read_load_of_decodeTop lookup name bs d hdt
    cases d with
    | val v => exact .inr (.inr ⟨_, v, hr⟩)
    | unknownData b =>
      have hb := decodeTop_unknown lookup name bs b hdt
      subst hb
      refine .inr (.inl ⟨_, hr, fun as hna => ?_⟩)
      obtain ⟨h1, h2⟩ := runActs_unknownData lookup nu b as
        { typeName := name, raw := none, data := some (.unknownData b) } rfl rfl hna
      rw [C14_current_full lookup nu _ _ h1 h2]
      simp [encodeTop]

/-- the three cases exclude each other (they are cases of one function's result) -/
theorem C14_lazy_trichotomy_exclusive (lookup : Bytes → Option Nat) (name : String) (bs : Bytes) :
    ¬ ((∃ e, read lookup (load name bs) = .error e) ∧ (∃ t' d, read lookup (load name bs) = .ok (t', d))) ∧
    ¬ ((∃ t' b, read lookup (load name bs) = .ok (t', .unknownData b)) ∧
        (∃ t' v, read lookup (load name bs) = .ok (t', .val v))) := by
  constructor
  · rintro ⟨⟨e, h1⟩, t', d, h2⟩
    rw [h1] at h2; cases h2
  · rintro ⟨⟨t', b, h1⟩, t'', v, h2⟩
    rw [h1] at h2; cases h2

/-- a failing read is a type-name error, a strict-read failure, or a known head with a
rejected arity that decoding reached (`badArity`): the last one exactly when the codec
decoder says so -/
theorem C14_badArity_reached_iff (lookup : Bytes → Option Nat) (name : String) (ty : Ty)
    (bs : Bytes) (hty : tyOfName name = some ty) :
    decodeTop lookup name bs = .error .unsupported ↔ decode lookup ty bs = .badArity := by
  rw [decodeTop_eq lookup name ty bs hty]
  rcases decode lookup ty bs with ⟨v, r⟩ | _ | _ | _ | _ | _ <;> simp

/-- a type name is never rejected for arity before the bytes are looked at: `decodeTop` fails
with `.unsupported` only through `decode` -/
theorem C14_unsupported_only_reached (lookup : Bytes → Option Nat) (name : String) (bs : Bytes)
    (h : decodeTop lookup name bs = .error .unsupported) :
    ∃ ty, tyOfName name = some ty ∧ decode lookup ty bs = .badArity := by
  cases hp : TypeName.parseType name.toList with
  | none => simp [decodeTop, hp] at h
  | some tr =>
    obtain ⟨ty, hty⟩ := tyOfTree_isSome tr
    have hn : tyOfName name = some ty := by simp [tyOfName, hp, hty]
    exact ⟨ty, hn, (C14_badArity_reached_iff lookup name ty bs hn).1 h⟩

/-! ### non-vacuity -/

section Examples
open Gtirb.TypeName

theorem coherent_none (nu : Nat → Bytes) : Coherent (fun _ => none) nu := fun _ _ h => by cases h

/-- the node table of the C07 examples agrees with its nodes -/
theorem coherent_ex : Coherent exLookup exNodeUuid := by
  intro u id h
  unfold exLookup at h
  split at h
  · cases h; subst u; rfl
  · split at h
    · cases h; subst u; rfl
    · cases h

/-- `C14_touched_generation` on the K4 table (`tuple<set<uint8_t>,sequence<foo>>`, the set
listing 5 twice): the read costs nothing, the save writes `cexOut` (not the loaded bytes), and
`cexOut` is a fixed point of read + save -/
theorem cex_read : read (fun _ => none) (load cexName cexBytes) =
    .ok ({ typeName := cexName, raw := none, data := some (.val cexVal) }, .val cexVal) := by
  simp only [read, load, decodeTop_eq _ _ _ _ cex_ty, cex_decode]

example : ∃ out, (save (fun _ => none) (fun _ => [])
      { typeName := cexName, raw := none, data := some (.val cexVal) }).2 = .ok (cexName, out) ∧
    ∃ t'', read (fun _ => none) (load cexName out) = .ok (t'', .val cexVal) ∧
      (save (fun _ => none) (fun _ => []) t'').2 = .ok (cexName, out) :=
  C14_touched_generation _ _ (coherent_none _) cexName cexBytes _ cexVal cex_read

/-- ... the bytes written are `cexOut`, by `C14_rewritten_iff` they differ from the loaded ones
because the loaded ones are not the encoding of the value -/
example : ¬ (save (fun _ => none) (fun _ => [])
    { typeName := cexName, raw := none, data := some (.val cexVal) }).2 = .ok (cexName, cexBytes) := by
  rw [C14_rewritten_iff _ _ cexName cexTy cexBytes _ cexVal cex_ty cex_read, cex_encode]
  intro h
  exact cex_ne (Option.some.inj h)

/-- ... while the canonical bytes do come back -/
example : (save (fun _ => none) (fun _ => [])
    { typeName := cexName, raw := none, data := some (.val cexVal) }).2 = .ok (cexName, cexOut) := by
  have hd : decode (fun _ => none) cexTy cexOut = .ok (cexVal, []) := by rfl
  have hr : read (fun _ => none) (load cexName cexOut) =
      .ok ({ typeName := cexName, raw := none, data := some (.val cexVal) }, .val cexVal) := by
    simp only [read, load, decodeTop_eq _ _ _ _ cex_ty, hd]
  exact (C14_rewritten_iff _ _ cexName cexTy cexOut _ cexVal cex_ty hr).2 cex_encode

/-- three generations of load / read / save of the K4 table -/
example : ∃ out, ∀ n, readGenerations (fun _ => none) (fun _ => []) (n + 1) cexName cexBytes =
    some (cexName, out) :=
  C14_read_generations _ _ (coherent_none _) cexName cexBytes _ cexVal cex_read

/-- `C14_assign_generation` on `mapping<uint8_t,sequence<int16_t>>` -/
example : ∃ out, (save (fun _ => none) (fun _ => [])
      (assignData (load exName exBytes) (.val exVal'))).2 = .ok (exName, out) ∧
    ∃ t'', read (fun _ => none) (load exName out) = .ok (t'', .val exVal') :=
  C14_assign_generation _ _ exName exTy (load exName exBytes) exVal' rfl ex_ty (by decide)

/-- a table of UUIDs naming nodes, with a node table that is not empty: what the read hands
out (the nodes) has the type, the generation theorem applies -/
theorem uuid_seq_ty : tyOfName "sequence<UUID>" = some (.seq (.leaf .uuid)) := by
  have hp : parseType "sequence<UUID>".toList =
      some (.node "sequence".toList [.node "UUID".toList []]) := by
    simp [parseType, tokenize, tokenizeAux, isDelim, delimTok, parseT, parseArgs]
  simp only [tyOfName, hp]
  simp [tyOfTree, tysOfTrees, leafOfName]

example : ∃ t', read exLookup (load "sequence<UUID>" (u64 2 ++ List.replicate 16 2 ++ List.replicate 16 7)) =
      .ok (t', .val (.seq [.node 2, .uuid (List.replicate 16 7)])) ∧
    ∃ out, (save exLookup exNodeUuid t').2 = .ok ("sequence<UUID>", out) := by
  have hd : decode exLookup (.seq (.leaf .uuid)) (u64 2 ++ List.replicate 16 2 ++ List.replicate 16 7) =
      .ok (.seq [.node 2, .uuid (List.replicate 16 7)], []) := by rfl
  have hr := read_load_of_decodeTop exLookup "sequence<UUID>" _ _
    (decodeTop_ok exLookup _ _ _ _ [] uuid_seq_ty hd)
  obtain ⟨out, h, _⟩ := C14_touched_generation exLookup exNodeUuid coherent_ex _ _ _ _ hr
  exact ⟨_, hr, out, h⟩

/-! the four names of the review, after the arity repair -/

theorem ty_tuple_foo_badstring : tyOfName "tuple<foo,string<int8_t>>" =
    some (.tuple [.unknown "foo" [], .badArity "string" [.leaf .i8]]) := by
  have hp : parseType "tuple<foo,string<int8_t>>".toList = some (.node "tuple".toList
      [.node "foo".toList [], .node "string".toList [.node "int8_t".toList []]]) := by
    simp [parseType, tokenize, tokenizeAux, isDelim, delimTok, parseT, parseArgs]
  simp only [tyOfName, hp]
  simp [tyOfTree, tysOfTrees, leafOfName]

theorem ty_seq_badstring : tyOfName "sequence<string<int8_t>>" =
    some (.seq (.badArity "string" [.leaf .i8])) := by
  have hp : parseType "sequence<string<int8_t>>".toList = some (.node "sequence".toList
      [.node "string".toList [.node "int8_t".toList []]]) := by
    simp [parseType, tokenize, tokenizeAux, isDelim, delimTok, parseT, parseArgs]
  simp only [tyOfName, hp]
  simp [tyOfTree, tysOfTrees, leafOfName]

theorem ty_variant_badstring : tyOfName "variant<int8_t,string<int8_t>>" =
    some (.variant [.leaf .i8, .badArity "string" [.leaf .i8]]) := by
  have hp : parseType "variant<int8_t,string<int8_t>>".toList = some (.node "variant".toList
      [.node "int8_t".toList [], .node "string".toList [.node "int8_t".toList []]]) := by
    simp [parseType, tokenize, tokenizeAux, isDelim, delimTok, parseT, parseArgs]
  simp only [tyOfName, hp]
  simp [tyOfTree, tysOfTrees, leafOfName]

/-- `tuple<foo,string<int8_t>>`, bytes `01 02`: `foo` is reached first -> UnknownData -/
example : decodeTop (fun _ => none) "tuple<foo,string<int8_t>>" [1, 2] = .ok (.unknownData [1, 2]) := by
  have hd : decode (fun _ => none) (.tuple [.unknown "foo" [], .badArity "string" [.leaf .i8]])
      [1, 2] = .unknownCodec "foo" := by rfl
  simp only [decodeTop_eq _ _ _ _ ty_tuple_foo_badstring, hd]

/-- `foo<sequence<a,b>>`, ANY bytes: the top-level head has no codec (`C14_unknown_top_head`);
the wrong arity of `sequence` below it is never looked at -/
example (lookup : Bytes → Option Nat) (bs : Bytes) :
    decodeTop lookup "foo<sequence<a,b>>" bs = .ok (.unknownData bs) := by
  have hp : parseType "foo<sequence<a,b>>".toList = some (.node "foo".toList
      [.node "sequence".toList [.node "a".toList [], .node "b".toList []]]) := by
    simp [parseType, tokenize, tokenizeAux, isDelim, delimTok, parseT, parseArgs]
  exact C14_unknown_top_head lookup _ _ _ bs hp (by decide)

/-- `sequence<string<int8_t>>`: count 0 decodes to `[]`, count 1 reaches the bad head -/
example : decodeTop (fun _ => none) "sequence<string<int8_t>>" (u64 0) = .ok (.val (.seq [])) :=
  decodeTop_ok _ _ _ _ _ [] ty_seq_badstring (by rfl)
example : decodeTop (fun _ => none) "sequence<string<int8_t>>" (u64 1 ++ [7]) = .error .unsupported :=
  (C14_badArity_reached_iff _ _ _ _ ty_seq_badstring).2 (by rfl)

/-- `variant<int8_t,string<int8_t>>`: `Variant(0, 5)` encodes, `Variant(1, "a")` is an
encode error -/
example : encodeTop (fun _ => []) "variant<int8_t,string<int8_t>>" (.val (.variant 0 (.int 5))) =
    .ok [0, 0, 0, 0, 0, 0, 0, 0, 5] := by
  have he : encode (fun _ => []) (.variant [.leaf .i8, .badArity "string" [.leaf .i8]])
      (.variant 0 (.int 5)) = some [0, 0, 0, 0, 0, 0, 0, 0, 5] := by decide
  simp only [encodeTop_val _ _ _ _ ty_variant_badstring, he]
example : encodeTop (fun _ => []) "variant<int8_t,string<int8_t>>" (.val (.variant 1 (.str "a"))) =
    .error .encode := by
  have he : encode (fun _ => []) (.variant [.leaf .i8, .badArity "string" [.leaf .i8]])
      (.variant 1 (.str "a")) = none := by decide
  simp only [encodeTop_val _ _ _ _ ty_variant_badstring, he]

/-- the trichotomy, one table per case: a reached bad arity (read fails, table as loaded),
a reached unknown head, a value -/
example : ∃ e, read (fun _ => none) (load "sequence<string<int8_t>>" (u64 1 ++ [7])) = .error e ∧
    act (fun _ => none) (fun _ => []) (load "sequence<string<int8_t>>" (u64 1 ++ [7])) .read =
      load "sequence<string<int8_t>>" (u64 1 ++ [7]) := by
  have hd : decodeTop (fun _ => none) "sequence<string<int8_t>>" (u64 1 ++ [7]) = .error .unsupported :=
    (C14_badArity_reached_iff _ _ _ _ ty_seq_badstring).2 (by rfl)
  have hr : read (fun _ => none) (load "sequence<string<int8_t>>" (u64 1 ++ [7])) =
      .error .unsupported := by simp [read, load, hd]
  exact ⟨_, hr, by simp [act, hr]⟩

/-- `UnknownData` is written verbatim after read, retype, save, read, under the new name -/
example (lookup : Bytes → Option Nat) (nu : Nat → Bytes) (bs : Bytes) :
    ∃ t', read lookup (load "foo<sequence<a,b>>" bs) = .ok (t', .unknownData bs) ∧
      (save lookup nu (runActs lookup nu t' [.assignType "uint8_t", .save, .read])).2 =
        .ok ("uint8_t", bs) := by
  have hp : parseType "foo<sequence<a,b>>".toList = some (.node "foo".toList
      [.node "sequence".toList [.node "a".toList [], .node "b".toList []]]) := by
    simp [parseType, tokenize, tokenizeAux, isDelim, delimTok, parseT, parseArgs]
  have hd := C14_unknown_top_head lookup _ _ _ bs hp (by decide)
  rcases C14_lazy_trichotomy lookup nu "foo<sequence<a,b>>" bs with ⟨e, hr, _⟩ | ⟨t', hr, hs⟩ | ⟨t', v, hr⟩
  · rw [read_load_of_decodeTop lookup _ bs _ hd] at hr; cases hr
  · refine ⟨t', hr, ?_⟩
    have := hs [.assignType "uint8_t", .save, .read] (by simp)
    rw [this]
    rw [read_load_of_decodeTop lookup _ bs _ hd] at hr
    simp only [Except.ok.injEq, Prod.mk.injEq] at hr
    rw [← hr.1]
    simp [runActs, act, assignType, save, read, encodeTop]
  · rw [read_load_of_decodeTop lookup _ bs _ hd] at hr; cases hr

end Examples

end Gtirb.AuxTable
